/-
Model of `parser.Walk` (parser/ast.go): explicit stack, one case per node type.
`children` lists what a case pushes, in the order the nodes are *visited* (Go pushes them
in reverse).  A nil `*Ident` reaches the visitor as a nil node; a nil interface or a nil
pointer that the case dereferences is a panic.
-/
import PqlModel.Model.Ast
namespace Pql

inductive ColKind | project | extend | summarize
  deriving DecidableEq, Repr

inductive Node
  | ident (i : Option Ident)
  | expr (e : Expr)
  | tabular (t : Tabular)
  | tableRef (table : Option Ident)
  | op (o : Op)
  | sortTerm (t : Option SortTerm)
  | column (k : ColKind) (c : Column)
  | letStmt (kw : Span) (name : Option Ident) (assign : Span) (x : Expr)
  deriving Inhabited

def Node.ofStmt : Stmt → Node
  | .let_ kw n a x => .letStmt kw n a x
  | .tabular t => .tabular t

/-- Go type name and `Span()` of a node (what the test visitor records); `none` = nil node -/
def Node.label : Node → Option (String × Span)
  | .ident none => none
  | .ident (some i) => some ("Ident", i.span)
  | .expr e =>
    let ty := match e with
      | .nil => "nil" | .qident .. => "QualifiedIdent" | .lit .. => "BasicLit" | .unary .. => "UnaryExpr"
      | .binary .. => "BinaryExpr" | .inE .. => "InExpr" | .paren .. => "ParenExpr" | .call .. => "CallExpr"
      | .index .. => "IndexExpr"
    some (ty, e.spanOf)
  | .tabular t => some ("TabularExpr", t.spanOf)
  | .tableRef i => some ("TableRef", Ident.spanOf i)
  | .op o =>
    let ty := match o with
      | .count .. => "CountOperator" | .where_ .. => "WhereOperator" | .sort .. => "SortOperator"
      | .take .. => "TakeOperator" | .top .. => "TopOperator" | .project .. => "ProjectOperator"
      | .extend .. => "ExtendOperator" | .summarize .. => "SummarizeOperator" | .join .. => "JoinOperator"
      | .as_ .. => "AsOperator" | .render .. => "RenderOperator"
    some (ty, o.spanOf)
  | .sortTerm none => none
  | .sortTerm (some t) => some ("SortTerm", t.spanOf)
  | .column k c =>
    some ((match k with | .project => "ProjectColumn" | .extend => "ExtendColumn" | .summarize => "SummarizeColumn"), c.spanOf)
  | .letStmt kw n a x => some ("LetStatement", (Stmt.let_ kw n a x).spanOf)

def optExpr : Expr → List Node
  | .nil => []
  | e => [.expr e]

def optIdent : Option Ident → List Node
  | none => []
  | some i => [.ident (some i)]

/-- What the case for this node pushes when the visitor returns true, in visit order;
    `none` = the case panics (nil dereference, or no case for the dynamic type). -/
def Node.children : Node → Option (List Node)
  | .ident _ => some []
  | .expr e =>
    match e with
    | .nil => none                                   -- nil interface: "unknown Node type <nil>"
    | .qident parts => some (parts.map fun i => .ident (some i))
    | .lit .. => some []
    | .unary _ _ x => some [.expr x]
    | .binary x _ _ y => some [.expr x, .expr y]
    | .inE x _ _ vals _ => some (.expr x :: vals.toList.map .expr)
    | .paren _ x _ => some [.expr x]
    | .call _ _ args _ => some (args.toList.map .expr)
    | .index x _ idx _ => some [.expr x, .expr idx]
  | .tabular .nil => none
  | .tabular (.mk src ops) => some (.tableRef src :: ops.toList.map .op)
  | .tableRef t => some [.ident t]
  | .op o =>
    match o with
    | .count .. => some []
    | .where_ _ _ e => some [.expr e]
    | .sort _ _ ts => some (ts.map fun t => .sortTerm (some t))
    | .take _ _ n => some [.expr n]
    | .top _ _ n _ c => some [.expr n, .sortTerm c]
    | .project _ _ cs => some (cs.map (.column .project))
    | .extend _ _ cs => some (cs.map (.column .extend))
    | .summarize _ _ cs _ gs => some (cs.map (.column .summarize) ++ gs.map (.column .summarize))
    | .join _ _ _ _ _ _ right _ _ conds => some (.tabular right :: conds.toList.map .expr)
    | .as_ _ _ n => some [.ident n]
    | .render _ _ ch _ _ props _ =>
      some (props.flatMap (fun p => .ident p.name :: optExpr p.value) ++ [.ident ch])
  | .sortTerm none => none
  | .sortTerm (some t) => some [.expr t.x]
  | .column .project c => some (.ident c.name :: optExpr c.x)
  | .column .extend c => some (optIdent c.name ++ optExpr c.x)
  | .column .summarize c => some (optIdent c.name ++ [.expr c.x])
  | .letStmt _ n _ x => some [.ident n, .expr x]

inductive WalkEvent
  | visit (ty : String) (sp : Span)
  | visitNil
  | panic
  deriving DecidableEq, Repr

/-- `Walk` with the explicit stack (top of the stack = head of the list).  `decide i` is the
    visitor's answer at its `i`-th call. -/
def walkLoop (decide : Nat → Bool) : Nat → Nat → List Node → List WalkEvent
  | 0, _, _ => [.panic]
  | _, _, [] => []
  | fuel + 1, i, n :: stack =>
    match n with
    | .expr .nil => [.panic]
    | _ =>
      let ev := match n.label with
        | some (ty, sp) => WalkEvent.visit ty sp
        | none => .visitNil
      -- cases without children call visit(n) and ignore the result
      if decide i then
        match n.children with
        | some kids => ev :: walkLoop decide fuel (i + 1) (kids ++ stack)
        | none => [ev, .panic]
      else ev :: walkLoop decide fuel (i + 1) stack

mutual
def Expr.size : Expr → Nat
  | .nil | .lit .. => 1
  | .qident parts => parts.length + 1
  | .unary _ _ x => x.size + 1
  | .binary x _ _ y => x.size + y.size + 1
  | .inE x _ _ vals _ => x.size + vals.size + 1
  | .paren _ x _ => x.size + 1
  | .call _ _ args _ => args.size + 2
  | .index x _ idx _ => x.size + idx.size + 1
def ExprList.size : ExprList → Nat
  | .nil => 0
  | .cons e es => e.size + es.size
end

def Column.size (c : Column) : Nat := c.x.size + 2
def SortTerm.size (t : SortTerm) : Nat := t.x.size + 1

mutual
def Tabular.size : Tabular → Nat
  | .nil => 1
  | .mk _ ops => ops.size + 3
def Op.size : Op → Nat
  | .count .. => 1
  | .where_ _ _ e => e.size + 1
  | .sort _ _ ts => (ts.map SortTerm.size).sum + 1
  | .take _ _ n => n.size + 1
  | .top _ _ n _ c => n.size + (match c with | some t => t.size | none => 1) + 1
  | .project _ _ cs => (cs.map Column.size).sum + 1
  | .extend _ _ cs => (cs.map Column.size).sum + 1
  | .summarize _ _ cs _ gs => (cs.map Column.size).sum + (gs.map Column.size).sum + 1
  | .join _ _ _ _ _ _ right _ _ conds => right.size + conds.size + 1
  | .as_ .. => 2
  | .render _ _ _ _ _ props _ => (props.map fun p => p.value.size + 1).sum + 2
def OpList.size : OpList → Nat
  | .nil => 0
  | .cons o os => o.size + os.size
end

def Node.size : Node → Nat
  | .ident _ => 1
  | .expr e => e.size
  | .tabular t => t.size
  | .tableRef _ => 2
  | .op o => o.size
  | .sortTerm none => 1
  | .sortTerm (some t) => t.size
  | .column _ c => c.size
  | .letStmt _ _ _ x => x.size + 2

/-- `Walk(n, visit)` -/
def walk (decide : Nat → Bool) (n : Node) : List WalkEvent :=
  walkLoop decide (n.size + 1) 0 [n]

end Pql
