/-
Model of cmd/pql `run`: the line loop with its three pieces of state (pending text, accepted
let prelude, sticky failure flag), the end-of-input path for an unterminated last statement,
and the read-error check.  `compile` is a parameter (the library's `pql.Compile` with no
options): `none` = error.

`bufio.Scanner` with `ScanLines` is modelled as: the input is cut at '\n', one trailing '\r' of
each line is dropped, a final line without '\n' is delivered if non-empty, and a line of more
than 65536 bytes (buffer limit) stops reading with an error.
-/
import PqlModel.Model.Lex
namespace Pql

def maxLine : Nat := 65536

/-- cut at '\n' (the newline is not part of the line) -/
def splitLines : Bytes → List Bytes → Bytes → List Bytes
  | [], acc, cur => if cur.isEmpty then acc.reverse else (cur.reverse :: acc).reverse
  | c :: rest, acc, cur =>
    if c == 10 then splitLines rest (cur.reverse :: acc) [] else splitLines rest acc (c :: cur)

def dropCR (l : Bytes) : Bytes :=
  match l.reverse with
  | 13 :: r => r.reverse
  | _ => l

/-- the lines `bufio.Scanner` delivers, and whether it stopped with an error -/
def bufioLines (input : Bytes) : List Bytes × Bool :=
  let raw := splitLines input [] []
  let rec go : List Bytes → List Bytes → List Bytes × Bool
    | [], acc => (acc.reverse, false)
    | l :: ls, acc => if l.length ≥ maxLine then (acc.reverse, true) else go ls (dropCR l :: acc)
  go raw []

structure CliState where
  pending : Bytes := []
  lets : Bytes := []
  failed : Bool := false
  out : Bytes := []
  nErrors : Nat := 0
  deriving Repr, DecidableEq

def isLetStatement (stmt : Bytes) : Bool :=
  match scan stmt with
  | t :: _ => t.kind = .ident && t.value == Bytes.ofString "let"
  | [] => false

/-- one complete (semicolon-terminated) statement -/
def cliStatement (compile : Bytes → Option Bytes) (st : CliState) (stmt : Bytes) : CliState :=
  if isLetStatement stmt then
    match compile (st.lets ++ stmt ++ Bytes.ofString ";X") with
    | some _ => { st with lets := st.lets ++ stmt ++ Bytes.ofString ";\n" }
    | none => { st with failed := true, nErrors := st.nErrors + 1 }
  else
    match compile (st.lets ++ stmt) with
    | some sql => { st with out := st.out ++ sql ++ [10, 10] }
    | none => { st with failed := true, nErrors := st.nErrors + 1 }

/-- one input line -/
def cliLine (compile : Bytes → Option Bytes) (st : CliState) (line : Bytes) : CliState :=
  let text := st.pending ++ line ++ [10]
  let pieces := splitStatements text
  match pieces.reverse with
  | last :: initRev =>
    if initRev.isEmpty then { st with pending := text }
    else { initRev.reverse.foldl (cliStatement compile) st with pending := last }
  | [] => { st with pending := text }

structure CliResult where
  out : Bytes
  nErrors : Nat          -- calls of logError
  exitNonZero : Bool
  deriving Repr, DecidableEq

/-- `run` -/
def cliRun (compile : Bytes → Option Bytes) (lines : List Bytes) (readErr : Bool) : CliResult :=
  let st := lines.foldl (cliLine compile) {}
  let st := if readErr then { st with failed := true, nErrors := st.nErrors + 1 } else st
  if (scan st.pending).isEmpty then ⟨st.out, st.nErrors, st.failed⟩
  else
    match compile (st.lets ++ st.pending) with
    | some sql => ⟨st.out ++ sql ++ [10, 10], st.nErrors, st.failed⟩
    | none => ⟨st.out, st.nErrors + 1, true⟩

def cliMain (compile : Bytes → Option Bytes) (input : Bytes) : CliResult :=
  let r := bufioLines input
  cliRun compile r.1 r.2

end Pql
