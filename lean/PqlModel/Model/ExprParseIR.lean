/-
Interpreter for the IR of the expression parser and the token cursor of parser/parser.go that
`harness/extract_exprparse.go` regenerates from the Go source on every run (`Facts.exprParseIR`,
`Facts.exprParseParams`, `Facts.exprParseResults`).

A unit is a Go function.  `exec` runs a statement on the Go variables in scope (`State.vars`,
innermost first; blocks, branches and loop bodies open a scope).  Values are the Go values the parser
handles: tokens, kinds, spans, AST nodes (`Expr`, `ExprList`, identifiers), errors (`Errs`: the model's
lists of leaves), parser objects.

Two readings of a `*parser` object:

* concrete (`Val.cparser toks pos`): the token slice and the integer `pos`, exactly the Go fields.  The
  units `next` and `prev` are interpreted on it (`runCursor`); Props/C07ExprIR.lean shows that they
  implement a one-token push-back over "the tokens from `pos` on" with a sticky end of input.
* abstract (`Val.parser ⟨rest, back, splitKind⟩`): what every other unit is interpreted on.  A POSITION
  is identified with the list of tokens from there on (`Val.pos l`): `p.pos` is `rest`,
  `len(p.tokens)` is the position `[]`, `p.tokens[i]` is the head of `i`, `p.tokens[a:b]` is the part
  of `a` before `b`, `a < b` compares lengths; `p.next()` moves to the tail and remembers the list it
  came from in `back`, `p.prev()` goes back there and is STUCK when there is nothing to go back to (any
  other cursor operation forgets `back`), so the interpretation never relies on more than the
  one-token push-back the concrete reading justifies.

Calls: `next`, `prev` are primitives of the abstract reading; `ident`, `qualifiedIdent`, `split` run their
own regenerated bodies (`runIdent`, `runQualifiedIdent`, `runSplit`); the mutually recursive productions
run theirs through `runUnit`.  The pure helpers `operatorPrecedence` (the regenerated table
`Facts.precedence`), `nullSpan`, `indexSpan`, the error algebra `joinErrors` / `makeErrorOpaque` /
`isNotFound` (append / `mkOpaque` / `isNF` on `Errs`) and `endSplit` inside an expression (`endSplitP`,
which Props/C07ExprIR.lean proves equal to the interpretation of the unit `endSplit`) are primitives.

Go run-time failures are explicit (`Out.panic`: nil dereference, index out of range, `panic(…)`);
`Out.stuck` means the IR is not understood; `Out.fuel` that the recursion budget ran out.

Budget.  Go has no fuel; the model has.  The interpreter charges exactly what the model charges so
that the theorems can be equalities at EVERY fuel: a call of a production passes the caller's current
budget `b` to the callee (`runUnit b`: zero → `Out.fuel`, `b'+1` → the body with budget `b'`); a loop
is a local recursive function: entering it and every further iteration cost one unit; a function whose
body is nothing but declarations and one loop IS that loop (no double charge: `loopFn`); a `for { … }`
whose body leaves on every path by `return`/`panic` and contains no `break`/`continue` cannot iterate
and is a block (`leaves`).
-/
import PqlModel.Model.ExprParseIRValues
namespace Pql.ExprParseIR
open Pql

/-! ### expressions -/

mutual
def eval (c : ICtx) (st : State) : E → Out Val
  | .var v => st.get v
  | .nil => .ok .nil
  | .none => .ok .nil
  | .bool b => .ok (.bool b)
  | .int n => .ok (.int n)
  | .str s => .ok (.bytes (Bytes.ofString s))
  | .kind k => Out.ofOption ((TokKind.ofGoName k).map .kind)
  | .field e f => (eval c st e).bind fun v => readField v f
  | .len e => (eval c st e).bind fun v => Out.ofOption (evalLen c v)
  | .add a b => (eval c st a).bind fun x => (eval c st b).bind fun y =>
      match x, y with | .int i, .int j => .ok (.int (i + j)) | _, _ => .stuck
  | .sub a b => (eval c st a).bind fun x => (eval c st b).bind fun y =>
      match x, y with | .int i, .int j => .ok (.int (i - j)) | _, _ => .stuck
  | .cmp op a b => (eval c st a).bind fun x => (eval c st b).bind fun y => Out.ofOption ((evalCmp op x y).map .bool)
  | .not a => (eval c st a).bind fun x => match x with | .bool b => .ok (.bool (!b)) | _ => .stuck
  | .and a b => (eval c st a).bind fun x =>
      match x with
      | .bool false => .ok (.bool false)
      | .bool true => (eval c st b).bind fun y => match y with | .bool b => .ok (.bool b) | _ => .stuck
      | _ => .stuck
  | .or a b => (eval c st a).bind fun x =>
      match x with
      | .bool true => .ok (.bool true)
      | .bool false => (eval c st b).bind fun y => match y with | .bool b => .ok (.bool b) | _ => .stuck
      | _ => .stuck
  | .call f args => (evalList c st args).bind fun vs => Out.ofOption (evalCall f vs)
  | .mcall m r => (eval c st r).bind fun v => Out.ofOption (evalMcall m v)
  | .errnopos => .ok (.err errNoPos)
  | .perr nf s => (eval c st s).bind fun v =>
      match v with
      | .span sp => .ok (.err (if nf then nfAt sp else errAt sp))
      | _ => .stuck
  | .new ty names vals => (evalList c st vals).bind fun vs =>
      if names.length == vs.length then Out.ofOption (mkNode ty (names.zip vs)) else .stuck
  | .struct ty names vals => (evalList c st vals).bind fun vs =>
      if names.length == vs.length then Out.ofOption (mkNode ty (names.zip vs)) else .stuck
  | .list es => (evalList c st es).bind fun vs =>
      match vs with
      | [.expr x] => .ok (.exprs (.cons x .nil))
      | _ => .stuck
  | .append a b => (eval c st a).bind fun x => (eval c st b).bind fun y => Out.ofOption (evalAppend x y)
  | .index a i => (eval c st a).bind fun x => (eval c st i).bind fun y => evalIndex x y
  | .slice a lo hi => (eval c st a).bind fun x => (eval c st lo).bind fun y => (eval c st hi).bind fun z => evalSlice x y z
def evalList (c : ICtx) (st : State) : List E → Out (List Val)
  | [] => .ok []
  | e :: es => (eval c st e).bind fun v => (evalList c st es).bind fun vs => .ok (v :: vs)
end

def evalBool (c : ICtx) (st : State) (e : E) : Out Bool :=
  (eval c st e).bind fun v => match v with | .bool b => .ok b | _ => .stuck

/-! ### statements -/

/-- calls of the methods of `*parser` other than `next` and `prev`: budget, method, arguments, receiver -/
structure Sem where
  call : Nat → String → List Val → PState → Out (List Val × PState)

def noCalls : Sem := ⟨fun _ _ _ _ => .stuck⟩

/-- how a statement ends -/
inductive Flow
  | next (st : State)
  | brk (label : String) (st : State)
  | cont (st : State)
  | ret (vals : List Val) (st : State)

def Flow.leave (f : Flow) (outer : State) : Flow :=
  match f with
  | .next st => .next (st.leave outer)
  | .brk l st => .brk l (st.leave outer)
  | .cont st => .cont (st.leave outer)
  | .ret vs st => .ret vs st

def getParser (st : State) (v : String) : Out PState :=
  (st.get v).bind fun x => match x with | .parser p => .ok p | _ => .stuck

/-- a right-hand side: its values and the state afterwards -/
def evalRhs (c : ICtx) (sem : Sem) (b : Nat) (st : State) : Rhs → Out (List Val × State)
  | .e x => (eval c st x).bind fun v => .ok ([v], st)
  | .pcall recv m args =>
    (getParser st recv).bind fun p =>
    (evalList c st args).bind fun avs =>
    if m == "next" then
      match avs with
      | [] =>
        let r := nextTokV c p.rest
        (st.set recv (.parser { p with rest := r.2.2, back := some p.rest })).bind fun st' =>
        .ok ([.tok r.1, .bool r.2.1], st')
      | _ => .stuck
    else if m == "prev" then
      match avs, p.back with
      | [], some l => (st.set recv (.parser { p with rest := l, back := none })).bind fun st' => .ok ([], st')
      | _, _ => .stuck
    else
      (sem.call b m avs { p with back := none }).bind fun r =>
      (st.set recv (.parser { r.2 with back := none })).bind fun st' => .ok (r.1, st')

def assignOne (define : Bool) (st : State) (l : Lhs) (v : Val) : Out State :=
  match l with
  | .blank => .ok st
  | .var x => if define then .ok (st.declare x v) else st.set x v
  | .field x f =>
    if define then .stuck
    else (st.get x).bind fun old => (Out.ofOption (writeField old f v)).bind fun new => st.set x new

def assignAll (define : Bool) : State → List Lhs → List Val → Out State
  | st, [], [] => .ok st
  | st, l :: ls, v :: vs => (assignOne define st l v).bind fun st' => assignAll define st' ls vs
  | _, _, _ => .stuck

/-- a loop: `step b st` runs the condition and one iteration with budget `b` -/
def iter (step : Nat → State → Out Flow) (label : String) : Nat → State → Out Flow
  | 0, _ => .fuel
  | b + 1, st =>
    match step b st with
    | .ok (.next st') => iter step label b st'
    | .ok (.cont st') => iter step label b st'
    | .ok (.brk l st') => if l == "" || l == label then .ok (.next st') else .ok (.brk l st')
    | .ok (.ret vs st') => .ok (.ret vs st')
    | .panic => .panic
    | .stuck => .stuck
    | .fuel => .fuel

mutual
/-- the statement ends in `return` / `panic` on every path -/
def returns : Stmt → Bool
  | .ret _ => true
  | .retCall _ => true
  | .panic => true
  | .ite _ t e => returnsBlock t && returnsBlock e
  | .block b => returnsBlock b
  | _ => false
def returnsBlock : List Stmt → Bool
  | [] => false
  | s :: r => returns s || returnsBlock r
end

mutual
/-- no `break` / `continue` anywhere -/
def noJump : Stmt → Bool
  | .brk _ => false
  | .cont => false
  | .ite _ t e => noJumpBlock t && noJumpBlock e
  | .block b => noJumpBlock b
  | .loop _ _ b => noJumpBlock b
  | _ => true
def noJumpBlock : List Stmt → Bool
  | [] => true
  | s :: r => noJump s && noJumpBlock r
end

/-- a loop body that cannot iterate -/
def leaves (b : List Stmt) : Bool := returnsBlock b && noJumpBlock b

def isTrue : E → Bool
  | .bool true => true
  | _ => false

mutual
def exec (c : ICtx) (sem : Sem) : Stmt → Nat → State → Out Flow
  | .assign define lhs rhs, b, st =>
    (evalRhs c sem b st rhs).bind fun r => (assignAll define r.2 lhs r.1).bind fun st' => .ok (.next st')
  | .decl v ty, _, st => (Out.ofOption (zeroOf ty)).bind fun z => .ok (.next (st.declare v z))
  | .do_ rhs, b, st => (evalRhs c sem b st rhs).bind fun r => .ok (.next r.2)
  | .ite cond t e, b, st =>
    (evalBool c st cond).bind fun x =>
      if x then (execBlock c sem t b st).bind fun f => .ok (f.leave st)
      else (execBlock c sem e b st).bind fun f => .ok (f.leave st)
  | .block body, b, st => (execBlock c sem body b st).bind fun f => .ok (f.leave st)
  | .loop label cond body, b, st =>
    if isTrue cond && leaves body then
      (execBlock c sem body b st).bind fun f => match f with | .ret vs st' => .ok (.ret vs st') | _ => .stuck
    else
      iter (fun b' st' =>
        (evalBool c st' cond).bind fun x =>
          if x then (execBlock c sem body b' st').bind fun f => .ok (f.leave st')
          else .ok (.brk "" st')) label b st
  | .brk l, _, st => .ok (.brk l st)
  | .cont, _, st => .ok (.cont st)
  | .ret es, _, st => (evalList c st es).bind fun vs => .ok (.ret vs st)
  | .retCall rhs, b, st => (evalRhs c sem b st rhs).bind fun r => .ok (.ret r.1 r.2)
  | .panic, _, _ => .panic
def execBlock (c : ICtx) (sem : Sem) : List Stmt → Nat → State → Out Flow
  | [], _, st => .ok (.next st)
  | s :: r, b, st =>
    (exec c sem s b st).bind fun f =>
      match f with
      | .next st' => execBlock c sem r b st'
      | f => .ok f
end

/-! ### functions -/

def isDecl : Stmt → Bool
  | .decl _ _ => true
  | _ => false

/-- the body is declarations followed by one loop: the function IS that loop -/
def loopFn (body : List Stmt) : Bool :=
  match body.dropWhile isDecl with
  | [.loop _ _ _] => true
  | _ => false

/-- one iteration of `for cond { body }` with budget `b'`: the condition, then the body in its own scope -/
def loopStep (c : ICtx) (sem : Sem) (cond : E) (body : List Stmt) (b' : Nat) (st' : State) : Out Flow :=
  (evalBool c st' cond).bind fun x =>
    if x then (execBlock c sem body b' st').bind fun f => .ok (f.leave st')
    else .ok (.brk "" st')

/-- how a function ends: the (coerced) results and the receiver -/
def finish (r : String) (tys : List String) : Flow → Out (List Val × Val)
  | .ret vs st => (Out.ofOption (coerceResults tys vs)).bind fun vs' => (st.get r).bind fun p => .ok (vs', p)
  | .next st => if tys.isEmpty then (st.get r).bind fun p => .ok ([], p) else .stuck
  | _ => .stuck

/-- run the regenerated body of `fn` on the receiver `recv` and the arguments with the budget
    `budget body`: the (coerced) results and the receiver afterwards -/
def runBody (c : ICtx) (sem : Sem) (fn : String) (budget : List Stmt → Nat) (recv : Val) (args : List Val) :
    Out (List Val × Val) :=
  match decode (irOf fn), paramsOf fn, resultsOf fn with
  | some body, some (r :: ps), some tys =>
    if ps.length == args.length then
      (execBlock c sem body (budget body) ⟨(r, recv) :: ps.zip args⟩).bind (finish r tys)
    else .stuck
  | _, _, _ => .stuck

/-- the receiver after a call; a call is not a `next()`, so there is nothing to go back to -/
def asPState : List Val × Val → Out (List Val × PState)
  | (vs, .parser p) => .ok (vs, { p with back := none })
  | _ => .stuck

/-- `next` / `prev` on the concrete reading -/
def runCursor (c : ICtx) (fn : String) (toks : List Token) (pos : Nat) : Out (List Val × Val) :=
  runBody c noCalls fn (fun _ => 0) (.cparser toks pos) []

/-- `endSplit` as a unit -/
def runEndSplit (c : ICtx) (p : PState) : Out (List Val × PState) :=
  (runBody c noCalls "endSplit" (fun _ => 0) (.parser p) []).bind asPState

def runIdent (c : ICtx) (p : PState) : Out (List Val × PState) :=
  (runBody c noCalls "ident" (fun _ => 0) (.parser p) []).bind asPState

def identSem (c : ICtx) : Sem :=
  ⟨fun _ m args p => match args with | [] => if m == "ident" then runIdent c p else .stuck | _ => .stuck⟩

/-- `qualifiedIdent`: its loop consumes two tokens per iteration; the budget is the model's own count
    (`pQualTail` gets "tokens after the first identifier, plus one") -/
def runQualifiedIdent (c : ICtx) (p : PState) : Out (List Val × PState) :=
  (runBody c (identSem c) "qualifiedIdent" (fun _ => p.rest.length) (.parser p) []).bind asPState

/-- `split`: one token per iteration of the outer loop, the inner loop pops what the outer one pushed -/
def runSplit (c : ICtx) (p : PState) (search : TokKind) : Out (List Val × PState) :=
  (runBody c noCalls "split" (fun _ => 2 * p.rest.length + 2) (.parser p) [.kind search]).bind asPState

def isProduction (m : String) : Bool :=
  ["innerPrimaryExpr", "primaryExpr", "unaryExpr", "exprBinaryTrail", "expr", "exprList"].contains m

/-- the callees of a production: the leaves run their own bodies, productions go through `self` -/
def prodSem (c : ICtx) (self : Nat → String → List Val → PState → Out (List Val × PState)) : Sem :=
  ⟨fun b m args p =>
    if m == "ident" then match args with | [] => runIdent c p | _ => .stuck
    else if m == "qualifiedIdent" then match args with | [] => runQualifiedIdent c p | _ => .stuck
    else if m == "split" then match args with | [.kind k] => runSplit c p k | _ => .stuck
    else if isProduction m then self b m args p
    else .stuck⟩

/-- a production with fuel `F`, as the model counts it -/
def runUnit (c : ICtx) (F : Nat) (fn : String) (args : List Val) (p : PState) : Out (List Val × PState) :=
  match F with
  | 0 => .fuel
  | F' + 1 =>
    (runBody c (prodSem c fun b m a q => runUnit c (min b F') m a q) fn
      (fun body => if loopFn body then F' + 1 else F') (.parser p) args).bind asPState
termination_by F
decreasing_by omega

end Pql.ExprParseIR
