/-
Interpreter for the writer templates that `harness/extract_tmpl.go` regenerates from pql.go on
every run (`Facts.writeTemplates`): the bodies of the `write*Function` rewrites after their arity
guard and the BinaryExpr / InExpr / IndexExpr / pass-through CallExpr cases of `writeExpression`.

An item is `(kind, a, b)`:
  ("lit", text, _)                         sb.WriteString("text")
  ("var", name, _)                         sb.WriteString(name)
  ("plain" | "maybe" | "tight", slot, _)   writeExpression / …MaybeParen / …Tight on one operand
  ("loop",  sep, kind:field)               all elements, `sep` between them
  ("loop1", sep, kind:field)               all elements but the first, `sep` before each

Props/C01Templates.lean proves that the hand-written model (`assembleKnown`, `writeExpr`) is this
interpretation of the regenerated templates, for all operands.
-/
import PqlModel.Model.Compile
namespace Pql.Tmpl
open Pql

/-- an operand together with what `writeExpression` wrote for it -/
abbrev Arg := Expr × List Chunk

structure Env where
  /-- `x.Args[i]` (slots "0", "1", …) or a field (`X`, `Y`, `Index`); `none` = index out of range -/
  one : String → Option Arg
  /-- a slice-valued field (`Args`, `Vals`) -/
  many : String → List Arg
  /-- what a Go string variable holds (`sqlOp`, `x.Func.Name`) as chunks -/
  var : String → List Chunk

/-- the three writers applied to an operand whose plain output is known -/
def wrapAs (kind : String) (a : Arg) : List Chunk :=
  if kind == "maybe" then wrapMaybe a.1 a.2
  else if kind == "tight" then wrapTight a.1 a.2
  else a.2

def loopKind (b : String) : Option (String × String) :=
  if b == "plain:Args" then some ("plain", "Args")
  else if b == "maybe:Args" then some ("maybe", "Args")
  else if b == "tight:Args" then some ("tight", "Args")
  else if b == "plain:Vals" then some ("plain", "Vals")
  else if b == "maybe:Vals" then some ("maybe", "Vals")
  else if b == "tight:Vals" then some ("tight", "Vals")
  else none

def item (env : Env) (it : String × String × String) : Option (List Chunk) :=
  let k := it.1
  let a := it.2.1
  let b := it.2.2
  if k == "lit" then some [.txt a]
  else if k == "var" then some (env.var a)
  else if k == "plain" || k == "maybe" || k == "tight" then (env.one a).map (wrapAs k)
  else if k == "loop" then
    (loopKind b).map fun kf => sepChunks a ((env.many kf.2).map (wrapAs kf.1))
  else if k == "loop1" then
    (loopKind b).map fun kf => ((env.many kf.2).drop 1).flatMap fun x => .txt a :: wrapAs kf.1 x
  else none

/-- run a template; an operand index out of range is the Go panic -/
def interp (env : Env) (t : List (String × String × String)) : W :=
  match t.mapM (item env) with
  | some css => .ok css.flatten
  | none => .error .panic

def templateOf (key : String) : List (String × String × String) :=
  ((Facts.writeTemplates.find? (·.1 == key)).map (·.2)).getD [("missing", key, "")]

/-- environment of a `write*Function`: the call's arguments -/
def argsEnv (args : List Arg) : Env where
  one := fun s =>
    if s == "0" then args[0]? else if s == "1" then args[1]? else if s == "2" then args[2]?
    else if s == "3" then args[3]? else none
  many := fun f => if f == "Args" then args else []
  var := fun _ => []

/-- environment of a two-operand case of `writeExpression` -/
def binEnv (x : Arg) (y : Arg) (sqlOp : String) : Env where
  one := fun s => if s == "X" then some x else if s == "Y" then some y else none
  many := fun _ => []
  var := fun v => if v == "sqlOp" then [.txt sqlOp] else []

def inEnv (x : Arg) (vals : List Arg) : Env where
  one := fun s => if s == "X" then some x else none
  many := fun f => if f == "Vals" then vals else []
  var := fun _ => []

def indexEnv (x : Arg) (idx : Arg) : Env where
  one := fun s => if s == "X" then some x else if s == "Index" then some idx else none
  many := fun _ => []
  var := fun _ => []

def callEnv (fn : Bytes) (args : List Arg) : Env where
  one := fun _ => none
  many := fun f => if f == "Args" then args else []
  var := fun v => if v == "x.Func.Name" then [.fname fn] else []

end Pql.Tmpl
