/-
Interpreter for the IR of the statement and operator level of parser/parser.go (`Facts.parseIR`,
translator `harness/extract_parse.go`, syntax and decoder `Model/ParseIRSyntax.lean`).

State.  The Go variables in scope (innermost first) and a heap of the records allocated by `&T{…}` in
the function being interpreted (an address is an index; a record has ALL the fields of its struct, in
declaration order, taken from the regenerated `Facts.structFields`, unset ones at Go's zero value).
A `*parser` variable holds the model's token-list state: the tokens that remain, and — for Go's one
token push-back — the list `prev()` gives back (`undo`; present only directly after a `next()`).
`next()` at the end yields Go's EOF token and stays at the end; `prev()` without a directly preceding
`next()` cannot be expressed on token lists and is `stuck`.  `p.pos` is the remaining list;
`p.pos = x` continues with that list.

Calls.  `next`, `prev`, `split`, `splitSemi`, `endSplit` are interpreted here (with the model's
`split`, `splitSemi`, `endSplit`).  Every other method of `*parser` is a parameter (`Env.callee`): the
expression productions are primitives, and a call from one translated function to another takes the
callee's meaning from the model (Props/C07OperatorIR*.lean prove, function by function, that this
meaning IS the interpretation of the callee's own regenerated body).

`x.(*BasicLit)` in the comma-ok form looks at the model's expression (`Expr.lit` is a `*BasicLit`; any other
node and the nil interface give `nil, false`); `lit.IsInteger()` is the model's `litIsInteger` (which
Props/C09NumberIR.lean `C09_IsInteger_ir` ties to the regenerated body of `(*BasicLit).IsInteger`) and a Go
panic on a nil `*BasicLit`.

Errors are the model's `Errs`: `joinErrors` is append, `makeErrorOpaque` is `mkOpaque`,
`isNotFound` is `isNF`, `&parseError{span: s, err: notFoundError{…}}` is `nfAt s`, with a plain
message `errAt s`, a position-less `fmt.Errorf` is `errNoPos`, `%w` keeps the leaves.

Loops take fuel as the model's do: a `for` of a function gets `length of the receiver's remaining
tokens + 1` iterations (`Env.fuelLoop = false`; `pSortTerms`, `pProjectCols`, … `pStatements`) or the
call depth `k` that is left, each iteration running its callees at one less (`fuelLoop = true`;
`pOps`).  Running out yields the flow `.fuel`; the theorems map it to the model's `errFuel` result.

Go run-time failures are explicit: nil dereference and index out of range are `IErr.panic`;
`IErr.stuck` is kept apart: the IR refers to a variable that is not in scope, applies an operation to
a value of the wrong type, or uses a construct this interpreter does not understand.
-/
import PqlModel.Model.ParseIRSyntax
namespace Pql.OpIR
open Pql

inductive IErr
  | panic
  | stuck
  deriving DecidableEq, Repr

abbrev M := Except IErr
def goPanic {α : Type} : M α := .error .panic
def stuck {α : Type} : M α := .error .stuck

/-- what a Go variable or a field can hold.  Nodes returned by a callee are immutable model values;
    nodes allocated in the interpreted function are references into the heap. -/
inductive Val
  | tok (t : Token)
  | bool (b : Bool)
  | int (n : Int)
  | str (b : Bytes)
  | kind (k : TokKind)
  | span (s : Span)
  | errs (e : Errs)                        -- error ([] = nil)
  | pos (l : List Token)                   -- a value of p.pos
  | parser (rest : List Token) (undo : Option (List Token))
  | expr (e : Expr)                        -- Expr (Expr.nil = nil)
  | exprs (l : ExprList)                   -- []Expr
  | ident (i : Option Ident)               -- *Ident
  | sterm (t : Option SortTerm)            -- *SortTerm
  | col (c : Column)                       -- a non-nil *ProjectColumn / *ExtendColumn / *SummarizeColumn
  | prop (p : Option RenderProp)           -- *RenderProperty
  | op (o : Op)                            -- a non-nil *…Operator
  | tab (t : Tabular)                      -- *TabularExpr (Tabular.nil = nil)
  | stmt (s : Option Stmt)                 -- *LetStatement
  | istmt (s : Stmt)                       -- a Statement holding a non-nil node
  | typedNil                               -- an interface value holding a nil pointer (not == nil)
  | ref (a : Nat)                          -- a record allocated here
  | nil                                    -- nil
  | list (l : List Val)                    -- a slice of nodes
  | tokPtr (t : Option Token)              -- *Token
  | query                                  -- the string parameter of Parse
  | fn (i : Nat)                           -- the i-th production handed to firstParse
  | lit (l : Option (Span × TokKind × Bytes))   -- *BasicLit (ValueSpan, Kind, Value)

structure Rec where
  ty : String
  fields : List (String × Val)

structure St where
  vars : List (String × Val)
  heap : List Rec := []

inductive Flow
  | next
  | brk
  | cont
  | ret (vs : List Val)
  | fuel                                   -- a loop ran out of fuel

/-- the parameters of an interpretation -/
structure Env where
  c : PCtx
  /-- meaning of `recv.method(args)` at call depth `k` on the receiver's remaining tokens:
      the results and what remains -/
  callee : Nat → String → List Val → List Token → Option (List Val × List Token)
  fuelLoop : Bool := false
  scan : Bytes → List Token := fun _ => []
  src : Bytes := []

/-! ### variables -/

def St.get (st : St) (v : String) : M Val :=
  match st.vars.find? (·.1 == v) with
  | some kv => .ok kv.2
  | none => stuck

def St.declare (st : St) (v : String) (x : Val) : St :=
  if v == "_" then st else { st with vars := (v, x) :: st.vars }

def assignIn (v : String) (x : Val) : List (String × Val) → Option (List (String × Val))
  | [] => none
  | kv :: r => if kv.1 == v then some ((v, x) :: r) else (assignIn v x r).map (kv :: ·)

def St.assign (st : St) (v : String) (x : Val) : M St :=
  match assignIn v x st.vars with
  | some vars => .ok { st with vars := vars }
  | none => stuck

/-- leaving a block: the variables it declared go out of scope; the heap stays -/
def St.leave (st outer : St) : St :=
  { st with vars := st.vars.drop (st.vars.length - outer.vars.length) }

def St.parser (st : St) (p : String) : M (List Token × Option (List Token)) := do
  match ← st.get p with
  | .parser r u => pure (r, u)
  | _ => stuck

/-! ### records -/

def zeroOf (ty : String) : Option Val :=
  if ty == "Span" then some (.span Span.zero)
  else if ty == "*Ident" then some (.ident none)
  else if ty == "Expr" then some (.expr .nil)
  else if ty == "[]Expr" then some (.exprs .nil)
  else if ty == "*SortTerm" then some (.sterm none)
  else if ty == "*TabularExpr" then some (.tab .nil)
  else if ty == "TabularDataSource" then some .nil
  else if ty == "bool" then some (.bool false)
  else if ty == "string" then some (.str [])
  else if ty == "[]*SortTerm" || ty == "[]*ProjectColumn" || ty == "[]*ExtendColumn" || ty == "[]*SummarizeColumn"
      || ty == "[]*RenderProperty" || ty == "[]TabularOperator" then some (.list [])
  else none

def zeroFields : List (String × String) → Option (List (String × Val))
  | [] => some []
  | (f, ty) :: r =>
    match zeroOf ty, zeroFields r with
    | some z, some zs => some ((f, z) :: zs)
    | _, _ => none

/-- `&ty{}`: all fields of the struct as regenerated from parser/ast.go, at their zero values -/
def newRec (ty : String) : Option Rec :=
  match Facts.structFields.find? (·.1 == ty) with
  | some (_, fs) => (zeroFields fs).map fun zs => ⟨ty, zs⟩
  | none => none

def setField (f : String) (x : Val) : List (String × Val) → Option (List (String × Val))
  | [] => none
  | kv :: r => if kv.1 == f then some ((f, x) :: r) else (setField f x r).map (kv :: ·)

def getField (f : String) (fs : List (String × Val)) : Option Val := (fs.find? (·.1 == f)).map (·.2)

/-- `*a.f = x` -/
def St.setFld (st : St) (a : Nat) (f : String) (x : Val) : M St :=
  match st.heap[a]? with
  | some r =>
    match setField f x r.fields with
    | some fs => .ok { st with heap := st.heap.set a ⟨r.ty, fs⟩ }
    | none => stuck
  | none => stuck

/-! ### values -/

def Expr.isNilB : Expr → Bool
  | .nil => true
  | _ => false

def Tabular.isNilB : Tabular → Bool
  | .nil => true
  | _ => false

/-- `x == nil` -/
def isNilVal : Val → M Bool
  | .errs e => .ok e.isEmpty
  | .expr e => .ok (Expr.isNilB e)
  | .ident i => .ok i.isNone
  | .sterm t => .ok t.isNone
  | .prop p => .ok p.isNone
  | .tab t => .ok (Tabular.isNilB t)
  | .stmt s => .ok s.isNone
  | .tokPtr t => .ok t.isNone
  | .lit l => .ok l.isNone
  | .list l => .ok l.isEmpty
  | .nil => .ok true
  | .col _ | .op _ | .istmt _ | .typedNil | .ref _ => .ok false
  | _ => stuck

def valEq : Val → Val → M Bool
  | .nil, x => isNilVal x
  | x, .nil => isNilVal x
  | .kind a, .kind b => .ok (decide (a = b))
  | .str a, .str b => .ok (a == b)
  | .int a, .int b => .ok (decide (a = b))
  | .bool a, .bool b => .ok (a == b)
  | _, _ => stuck

def asErrs : Val → M Errs
  | .errs e => .ok e
  | .nil => .ok []
  | _ => stuck

def asSpan : Val → M Span
  | .span s => .ok s
  | _ => stuck

def asInt : Val → M Int
  | .int n => .ok n
  | _ => stuck

/-- Go's EOF token (`(*parser).next` at the end) -/
def eofTok (c : PCtx) : Token := ⟨.error, c.srcLen, c.srcLen, Bytes.ofString "EOF"⟩

def tokField (t : Token) (f : String) : M Val :=
  if f == "Kind" then .ok (.kind t.kind)
  else if f == "Span" then .ok (.span t.span)
  else if f == "Value" then .ok (.str t.value)
  else stuck

/-- `x.f` -/
def fieldOf (st : St) (f : String) : Val → M Val
  | .tok t => tokField t f
  | .tokPtr (some t) => tokField t f
  | .tokPtr none => goPanic
  | .nil => goPanic
  | .span s => if f == "Start" then .ok (.int s.start) else if f == "End" then .ok (.int s.stop) else stuck
  | .ref a =>
    match st.heap[a]? with
    | some r => match getField f r.fields with | some v => .ok v | none => stuck
    | none => stuck
  | _ => stuck

/-- `append(s, x)` on a slice of nodes -/
def appendVal : Val → Val → M Val
  | .list l, x => .ok (.list (l ++ [x]))
  | .nil, x => .ok (.list [x])
  | _, _ => stuck

def lenVal : Val → M Int
  | .list l => .ok l.length
  | .nil => .ok 0
  | .exprs l => .ok l.length
  | _ => stuck

/-- `(*Ident).AsQualified` -/
def asQualified : Val → M Val
  | .ident (some i) => .ok (.expr (.qident [i]))
  | .ident none => .ok .typedNil
  | .nil => .ok .typedNil
  | _ => stuck

/-- a pointer stored in an interface value -/
def toIface : Val → M Val
  | .stmt (some s) => .ok (.istmt s)
  | .stmt none => .ok .typedNil
  | .tab .nil => .ok .typedNil
  | .tab t => .ok (.istmt (.tabular t))
  | _ => stuck

/-! ### expressions -/

def eval (env : Env) : IExpr → St → M (Val × St)
  | .var v, st => do pure (← st.get v, st)
  | .nil, st => .ok (.nil, st)
  | .bool b, st => .ok (.bool b, st)
  | .int n, st => .ok (.int n, st)
  | .str s, st => .ok (.str (Bytes.ofString s), st)
  | .kind k, st =>
    match TokKind.ofGoName k with
    | some kd => .ok (.kind kd, st)
    | none => stuck
  | .fld f e, st => do
    let (x, st1) ← eval env e st
    pure (← fieldOf st1 f x, st1)
  | .nullSpan, st => .ok (.span .null, st)
  | .newSpan a b, st => do
    let (x, st1) ← eval env a st
    let (y, st2) ← eval env b st1
    pure (.span ⟨← asInt x, ← asInt y⟩, st2)
  | .eofSpan p, st => do
    let _ ← st.parser p
    pure (.span env.c.eof, st)
  | .new ty, st =>
    match newRec ty with
    | some r => .ok (.ref st.heap.length, { st with heap := st.heap ++ [r] })
    | none => stuck
  | .withFld e f x, st => do
    let (r, st1) ← eval env e st
    let (v, st2) ← eval env x st1
    match r with
    | .ref a => pure (.ref a, ← st2.setFld a f v)
    | _ => stuck
  | .perr p nf sp, st => do
    let _ ← st.parser p
    let (s, st1) ← eval env sp st
    let s ← asSpan s
    pure (.errs (if nf then nfAt s else errAt s), st1)
  | .errNoPos, st => .ok (.errs errNoPos, st)
  | .wrapW e, st => do
    let (x, st1) ← eval env e st
    pure (.errs (← asErrs x), st1)
  | .join a b, st => do
    let (x, st1) ← eval env a st
    let (y, st2) ← eval env b st1
    pure (.errs ((← asErrs x) ++ (← asErrs y)), st2)
  | .opaque e, st => do
    let (x, st1) ← eval env e st
    pure (.errs (mkOpaque (← asErrs x)), st1)
  | .append s x, st => do
    let (l, st1) ← eval env s st
    let (v, st2) ← eval env x st1
    pure (← appendVal l v, st2)
  | .len e, st => do
    let (x, st1) ← eval env e st
    pure (.int (← lenVal x), st1)
  | .addr v, st => do
    match ← st.get v with
    | .tok t => pure (.tokPtr (some t), st)
    | _ => stuck
  | .asQual e, st => do
    let (x, st1) ← eval env e st
    pure (← asQualified x, st1)
  | .pos p, st => do
    let (r, _) ← st.parser p
    pure (.pos r, st)
  | .tokAt p, st => do
    let (r, _) ← st.parser p
    match r with
    | t :: _ => pure (.tok t, st)
    | [] => goPanic
  | .endSplit p, st => do
    let (r, _) ← st.parser p
    pure (.errs (endSplit r), st)
  | .toIface e, st => do
    let (x, st1) ← eval env e st
    pure (← toIface x, st1)

def asBool : Val → M Bool
  | .bool b => .ok b
  | _ => stuck

/-- conditions are free of side effects on the heap in the translated code; the state is threaded all the same -/
def evalCond (env : Env) : ICond → St → M (Bool × St)
  | .eq a b, st => do
    let (x, st1) ← eval env a st
    let (y, st2) ← eval env b st1
    pure (← valEq x y, st2)
  | .ne a b, st => do
    let (x, st1) ← eval env a st
    let (y, st2) ← eval env b st1
    pure (!(← valEq x y), st2)
  | .not c, st => do
    let (b, st1) ← evalCond env c st
    pure (!b, st1)
  | .and a b, st => do
    let (x, st1) ← evalCond env a st
    if x then evalCond env b st1 else pure (false, st1)
  | .or a b, st => do
    let (x, st1) ← evalCond env a st
    if x then pure (true, st1) else evalCond env b st1
  | .isNF e, st => do
    let (x, st1) ← eval env e st
    pure (isNF (← asErrs x), st1)
  | .truth e, st => do
    let (x, st1) ← eval env e st
    pure (← asBool x, st1)
  | .more p, st => do
    let (r, _) ← st.parser p
    pure (!r.isEmpty, st)
  | .isInteger e, st => do
    let (x, st1) ← eval env e st
    match x with
    | .lit (some (_, k, v)) => pure (litIsInteger k v, st1)
    | .lit none => goPanic                 -- `lit.Kind` on a nil *BasicLit
    | _ => stuck

/-! ### statements -/

def assignTo (st : St) : Target → Val → M St
  | .blank, _ => .ok st
  | .def_ v, x => .ok (st.declare v x)
  | .set v, x => st.assign v x
  | .fset v f, x => do
    match ← st.get v with
    | .ref a => st.setFld a f x
    | .nil => goPanic
    | _ => stuck
  | .setPos p, x => do
    let _ ← st.parser p
    match x with
    | .pos l => st.assign p (.parser l none)
    | _ => stuck

def assignAll (st : St) : List Target → List Val → M St
  | [], [] => .ok st
  | t :: ts, v :: vs => do
    let st1 ← assignTo st t v
    assignAll st1 ts vs
  | _, _ => stuck

def evalAll (env : Env) : List IExpr → St → M (List Val × St)
  | [], st => .ok ([], st)
  | e :: es, st => do
    let (v, st1) ← eval env e st
    let (vs, st2) ← evalAll env es st1
    pure (v :: vs, st2)

/-- `recv.method(args)` on a parser whose state is `(rest, undo)`: results, new state of the receiver -/
def callMethod (env : Env) (k : Nat) (method : String) (args : List Val) (rest : List Token) :
    M (List Val × Val) :=
  if method == "next" then
    match args, rest with
    | [], [] => .ok ([.tok (eofTok env.c), .bool false], .parser [] (some []))
    | [], t :: ts => .ok ([.tok t, .bool true], .parser ts (some rest))
    | _, _ => stuck
  else if method == "split" then
    match args with
    | [.kind kd] => .ok ([.parser (split kd rest).1 none], .parser (split kd rest).2 none)
    | _ => stuck
  else if method == "splitSemi" then
    match args with
    | [] => .ok ([.parser (splitSemi rest).1 none], .parser (splitSemi rest).2 none)
    | _ => stuck
  else
    match env.callee k method args rest with
    | some (vs, r) => .ok (vs, .parser r none)
    | none => stuck

/-- zero value of a declared variable -/
def zeroVar (ty : String) : Option Val :=
  if ty == "error" then some (.errs [])
  else if ty == "*Token" then some (.tokPtr none)
  else if ty == "[]Statement" then some (.list [])
  else none

/-- a `for` loop: `n` iterations are left; with `dec` the body of an iteration runs at depth `n - 1`,
    else at `k`.  `break` ends the loop, `continue` starts the next iteration. -/
def runLoop (dec : Bool) (body : Nat → St → M (Flow × St)) : Nat → Nat → St → M (Flow × St)
  | 0, _, st => .ok (.fuel, st)
  | n + 1, k, st => do
    let (f, st1) ← body (if dec then n else k) st
    match f with
    | .next | .cont => runLoop dec body n k (st1.leave st)
    | .brk => pure (.next, st1.leave st)
    | f => pure (f, st1.leave st)

/-- `firstParse(a, b)` as the model of the generic function that Props/C07ParseIR ties to the
    regenerated body of `firstParse`: the first production unless it reports not-found, else the second -/
def firstOf (a b : St → M (List Val × St)) (st : St) : M (List Val × St) := do
  let (vs, st1) ← a st
  match vs with
  | [_, e] => if !isNF (← asErrs e) then pure (vs, st1) else b st1
  | _ => stuck

mutual
def exec (env : Env) : IStmt → Nat → St → M (Flow × St)
  | .call recv method lhs args, k, st => do
    let (rest, _) ← st.parser recv
    let (vs, st1) ← evalAll env args st
    let (res, ps) ← callMethod env k method vs rest
    let st2 ← st1.assign recv ps
    let st3 ← assignAll st2 lhs res
    pure (.next, st3)
  | .prev recv, _, st => do
    match ← st.parser recv with
    | (_, some l) => pure (.next, ← st.assign recv (.parser l none))
    | (_, none) => stuck
  | .assign t e, _, st => do
    let (x, st1) ← eval env e st
    pure (.next, ← assignTo st1 t x)
  | .varDecl v ty, _, st =>
    match zeroVar ty with
    | some z => .ok (.next, st.declare v z)
    | none => stuck
  | .newParser v q, _, st => do
    match ← st.get q with
    | .query => pure (.next, st.declare v (.parser (env.scan env.src) none))
    | _ => stuck
  | .mapOk v m e, _, st => do
    let (x, st1) ← eval env e st
    match x with
    | .str s => if m == "joinTypes" then pure (.next, st1.declare v (.bool (isJoinType s))) else stuck
    | _ => stuck
  | .msgOnly _ _, _, st => .ok (.next, st)
  | .ite c t e, k, st => do
    let (b, st0) ← evalCond env c st
    let (f, st1) ← if b then execBlock env t k st0 else execBlock env e k st0
    pure (f, st1.leave st)
  | .scope body, k, st => do
    let (f, st1) ← execBlock env body k st
    pure (f, st1.leave st)
  | .loop body, k, st => do
    let (rest, _) ← st.parser "p"
    runLoop env.fuelLoop (execBlock env body) (if env.fuelLoop then k else rest.length + 1) k st
  | .brk, _, st => .ok (.brk, st)
  | .cont, _, st => .ok (.cont, st)
  | .ret es, _, st => do
    let (vs, st1) ← evalAll env es st
    pure (.ret vs, st1)
  | .firstParse lhs a b, k, st => do
    let (vs, st1) ← firstOf (closure env a k st) (closure env b k st) st
    pure (.next, ← assignAll st1 lhs vs)
  | .rangeInit _ _ _, _, _ => stuck
  | .callFn _ _, _, _ => stuck
  | .retLast _, _, _ => stuck
  | .asType ty lhs e, _, st => do
    let (x, st1) ← eval env e st
    if ty == "BasicLit" then
      match x with
      | .expr (.lit s k v) => pure (.next, ← assignAll st1 lhs [.lit (some (s, k, v)), .bool true])
      | .expr _ => pure (.next, ← assignAll st1 lhs [.lit none, .bool false])    -- another node type, or a nil interface
      | .nil => pure (.next, ← assignAll st1 lhs [.lit none, .bool false])
      | _ => stuck
    else stuck

def execBlock (env : Env) : List IStmt → Nat → St → M (Flow × St)
  | [], _, st => .ok (.next, st)
  | s :: r, k, st => do
    let (f, st1) ← exec env s k st
    match f with
    | .next => execBlock env r k st1
    | _ => pure (f, st1)

/-- a function literal `func() (T, error) { body }` called in the state `st`: it sees (and changes) the
    variables of the enclosing function; what it declares is gone when it returns -/
def closure (env : Env) (body : List IStmt) (k : Nat) (outer : St) (st : St) : M (List Val × St) := do
  let (f, st1) ← execBlock env body k st
  match f with
  | .ret vs => pure (vs, st1.leave outer)
  | _ => stuck
end

/-! ### running a function -/

/-- the state at the entry of a function whose receiver `p` has the tokens `ts` left -/
def entry (params : List (String × Val)) : St := ⟨params.reverse, []⟩

def run (env : Env) (body : List IStmt) (k : Nat) (params : List (String × Val)) : M (Flow × St) :=
  execBlock env body k (entry params)

/-! ### reading nodes back -/

def toIdent (h : List Rec) : Val → Option (Option Ident)
  | .ident i => some i
  | .nil => some none
  | .ref a =>
    match h[a]? with
    | some ⟨ty, [(_, .str n), (_, .span s), (_, .bool q)]⟩ => if ty == "Ident" then some (some ⟨n, s, q⟩) else none
    | _ => none
  | _ => none

def toExpr : Val → Option Expr
  | .expr e => some e
  | .nil => some .nil
  | _ => none

def toExprs : Val → Option ExprList
  | .exprs l => some l
  | .nil => some .nil
  | _ => none

def toSterm : Val → Option (Option SortTerm)
  | .sterm t => some t
  | .nil => some none
  | _ => none

def toTab : Val → Option Tabular
  | .tab t => some t
  | .nil => some .nil
  | _ => none

def toColumn (h : List Rec) : Val → Option Column
  | .col c => some c
  | .ref a =>
    match h[a]? with
    | some ⟨ty, [(_, n), (_, .span s), (_, x)]⟩ =>
      if ty == "ProjectColumn" || ty == "ExtendColumn" || ty == "SummarizeColumn" then
        match toIdent h n, toExpr x with
        | some n, some x => some ⟨n, s, x⟩
        | _, _ => none
      else none
    | _ => none
  | _ => none

def toColumns (h : List Rec) : List Val → Option (List Column)
  | [] => some []
  | v :: vs =>
    match toColumn h v, toColumns h vs with
    | some c, some cs => some (c :: cs)
    | _, _ => none

def toSterms : List Val → Option (List SortTerm)
  | [] => some []
  | .sterm (some t) :: vs => (toSterms vs).map (t :: ·)
  | _ => none

def toProp (h : List Rec) : Val → Option (Option RenderProp)
  | .prop p => some p
  | .nil => some none
  | .ref a =>
    match h[a]? with
    | some ⟨ty, [(_, n), (_, .span s), (_, x)]⟩ =>
      if ty == "RenderProperty" then
        match toIdent h n, toExpr x with
        | some n, some x => some (some ⟨n, s, x⟩)
        | _, _ => none
      else none
    | _ => none
  | _ => none

def toProps : List Val → Option (List RenderProp)
  | [] => some []
  | .prop (some p) :: vs => (toProps vs).map (p :: ·)
  | _ => none

def listOf : Val → Option (List Val)
  | .list l => some l
  | .nil => some []
  | _ => none

def recToOp (h : List Rec) (r : Rec) : Option Op :=
  if r.ty == "CountOperator" then
    match r.fields with
    | [(_, .span p), (_, .span k)] => some (.count p k)
    | _ => none
  else if r.ty == "WhereOperator" then
    match r.fields with
    | [(_, .span p), (_, .span k), (_, x)] => (toExpr x).map (.where_ p k ·)
    | _ => none
  else if r.ty == "TakeOperator" then
    match r.fields with
    | [(_, .span p), (_, .span k), (_, x)] => (toExpr x).map (.take p k ·)
    | _ => none
  else if r.ty == "AsOperator" then
    match r.fields with
    | [(_, .span p), (_, .span k), (_, n)] => (toIdent h n).map (.as_ p k ·)
    | _ => none
  else if r.ty == "SortOperator" then
    match r.fields with
    | [(_, .span p), (_, .span k), (_, ts)] => ((listOf ts).bind toSterms).map (.sort p k ·)
    | _ => none
  else if r.ty == "TopOperator" then
    match r.fields with
    | [(_, .span p), (_, .span k), (_, n), (_, .span b), (_, c)] =>
      match toExpr n, toSterm c with
      | some n, some c => some (.top p k n b c)
      | _, _ => none
    | _ => none
  else if r.ty == "ProjectOperator" then
    match r.fields with
    | [(_, .span p), (_, .span k), (_, cs)] => ((listOf cs).bind (toColumns h)).map (.project p k ·)
    | _ => none
  else if r.ty == "ExtendOperator" then
    match r.fields with
    | [(_, .span p), (_, .span k), (_, cs)] => ((listOf cs).bind (toColumns h)).map (.extend p k ·)
    | _ => none
  else if r.ty == "SummarizeOperator" then
    match r.fields with
    | [(_, .span p), (_, .span k), (_, cs), (_, .span b), (_, gs)] =>
      match (listOf cs).bind (toColumns h), (listOf gs).bind (toColumns h) with
      | some cs, some gs => some (.summarize p k cs b gs)
      | _, _ => none
    | _ => none
  else if r.ty == "RenderOperator" then
    match r.fields with
    | [(_, .span p), (_, .span k), (_, ch), (_, .span w), (_, .span lp), (_, ps), (_, .span rp)] =>
      match toIdent h ch, (listOf ps).bind toProps with
      | some ch, some ps => some (.render p k ch w lp ps rp)
      | _, _ => none
    | _ => none
  else if r.ty == "JoinOperator" then
    match r.fields with
    | [(_, .span p), (_, .span k), (_, .span kd), (_, .span ka), (_, fl), (_, .span lp), (_, right), (_, .span rp),
        (_, .span on), (_, cs)] =>
      match toIdent h fl, toTab right, toExprs cs with
      | some fl, some right, some cs => some (.join p k kd ka fl lp right rp on cs)
      | _, _, _ => none
    | _ => none
  else none

def toOp (h : List Rec) : Val → Option Op
  | .op o => some o
  | .ref a => match h[a]? with | some r => recToOp h r | none => none
  | _ => none

def toOps (h : List Rec) : List Val → Option OpList
  | [] => some .nil
  | v :: vs =>
    match toOp h v, toOps h vs with
    | some o, some os => some (.cons o os)
    | _, _ => none

/-- `*TabularExpr`: Source is a `*TableRef` -/
def toTabular (h : List Rec) : Val → Option Tabular
  | .tab t => some t
  | .nil => some .nil
  | .ref a =>
    match h[a]? with
    | some ⟨ty, [(_, .ref s), (_, ops)]⟩ =>
      if ty == "TabularExpr" then
        match h[s]? with
        | some ⟨ty2, [(_, n)]⟩ =>
          if ty2 == "TableRef" then
            match toIdent h n, (listOf ops).bind (toOps h) with
            | some n, some os => some (.mk n os)
            | _, _ => none
          else none
        | _ => none
      else none
    | _ => none
  | _ => none

def toLet (h : List Rec) : Val → Option (Option Stmt)
  | .stmt s => some s
  | .nil => some none
  | .ref a =>
    match h[a]? with
    | some ⟨ty, [(_, .span k), (_, n), (_, .span asg), (_, x)]⟩ =>
      if ty == "LetStatement" then
        match toIdent h n, toExpr x with
        | some n, some x => some (some (.let_ k n asg x))
        | _, _ => none
      else none
    | _ => none
  | _ => none

def toStmts : List Val → Option (List Stmt)
  | [] => some []
  | .istmt s :: vs => (toStmts vs).map (s :: ·)
  | _ => none

def optM {α : Type} : Option α → M α
  | some a => .ok a
  | none => stuck

/-- what a function of the shape `func (p *parser) f(…) (*Node, error)` did: the node, the error, the tokens left.
    A loop that ran out of fuel: the node in `nodeVar` as it is, the fuel leaf after the error
    accumulated in `errVar` (if the function has one). -/
def result {α : Type} (conv : List Rec → Val → Option α) (nodeVar : String) (errVar : Option String)
    (r : M (Flow × St)) : M (PRes α) := do
  let (f, st) ← r
  let (rest, _) ← st.parser "p"
  match f with
  | .ret [v, e] => pure ⟨← optM (conv st.heap v), ← asErrs e, rest⟩
  | .fuel =>
    let acc ← match errVar with
      | some ev => do asErrs (← st.get ev)
      | none => pure []
    pure ⟨← optM (conv st.heap (← st.get nodeVar)), acc ++ errFuel, rest⟩
  | _ => stuck

/-! ### `firstParse`: a function whose parameters are functions

`firstParse[T any](productions ...func() (T, error))` is generic in what its productions do.  Its body is
interpreted with the productions as functions on an arbitrary state `σ` of the caller (for `Parse`: the
interpreter state of `Parse` itself, on which the two function literals run, see `closure`): a variable
of function type holds `.fn i`, the index of a production; `for _, v := range w[:len(w)-1]`, `x, err :=
v()` and `return w[len(w)-1]()` are interpreted here (in `exec`, which has no productions, they are `stuck`).
Slicing or indexing an empty `w` is a Go panic. -/

/-- `for _, elem := range fs { body }` -/
def rangeFP {σ : Type} (elem : String) (body : St × σ → M (Flow × (St × σ))) : List Val → St × σ → M (Flow × (St × σ))
  | [], s => .ok (.next, s)
  | x :: xs, (st, w) => do
    let (f, (st1, w1)) ← body (st.declare elem x, w)
    match f with
    | .next | .cont => rangeFP elem body xs (st1.leave st, w1)
    | .brk => pure (.next, (st1.leave st, w1))
    | f => pure (f, (st1.leave st, w1))

mutual
def execFP {σ : Type} (env : Env) (prods : List (σ → M (List Val × σ))) : IStmt → St × σ → M (Flow × (St × σ))
  | .rangeInit v w body, (st, x) => do
    match ← st.get w with
    | .list fs => if fs.isEmpty then goPanic else rangeFP v (execFPBlock env prods body) fs.dropLast (st, x)
    | _ => stuck
  | .callFn f lhs, (st, x) => do
    match ← st.get f with
    | .fn i =>
      match prods[i]? with
      | some t => do
        let (vs, x1) ← t x
        pure (.next, (← assignAll st lhs vs, x1))
      | none => stuck
    | _ => stuck
  | .ite c t e, (st, x) => do
    let (b, st0) ← evalCond env c st
    let (f, (st1, x1)) ← if b then execFPBlock env prods t (st0, x) else execFPBlock env prods e (st0, x)
    pure (f, (st1.leave st, x1))
  | .ret es, (st, x) => do
    let (vs, st1) ← evalAll env es st
    pure (.ret vs, (st1, x))
  | .retLast w, (st, x) => do
    match ← st.get w with
    | .list fs =>
      match fs.getLast? with
      | some (.fn i) =>
        match prods[i]? with
        | some t => do
          let (vs, x1) ← t x
          pure (.ret vs, (st, x1))
        | none => stuck
      | some _ => stuck
      | none => goPanic
    | _ => stuck
  | _, _ => stuck

def execFPBlock {σ : Type} (env : Env) (prods : List (σ → M (List Val × σ))) : List IStmt → St × σ → M (Flow × (St × σ))
  | [], s => .ok (.next, s)
  | s :: r, x => do
    let (f, x1) ← execFP env prods s x
    match f with
    | .next => execFPBlock env prods r x1
    | _ => pure (f, x1)
end

/-- `firstParse(prods…)` called in the caller's state `x`: what it returns, and the caller's state afterwards -/
def runFirstParse {σ : Type} (env : Env) (body : List IStmt) (prods : List (σ → M (List Val × σ))) (x : σ) : M (List Val × σ) := do
  let fns := (List.range prods.length).map Val.fn
  let (f, (_, x1)) ← execFPBlock env prods body (entry [("productions", .list fns)], x)
  match f with
  | .ret vs => pure (vs, x1)
  | _ => stuck

/-- what `firstParse` computes for two productions, on any caller state (`firstOf` is the instance `σ = St`) -/
def firstOfG {σ : Type} (a b : σ → M (List Val × σ)) (x : σ) : M (List Val × σ) := do
  let (vs, x1) ← a x
  match vs with
  | [_, e] => if !isNF (← asErrs e) then pure (vs, x1) else b x1
  | _ => stuck

end Pql.OpIR
