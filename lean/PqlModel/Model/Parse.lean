/-
Model of parser/parser.go.

State passing instead of a cursor: every production takes the tokens that remain in the
*current* (sub-)parser and returns what remains afterwards.  Go's one-token push-back
(`prev()` directly after `next()`) is "return the list you were given"; the sticky EOF
(`pos = len+1`) is the empty list; `p.pos = restorePos` is "continue with the earlier list".
`split` hands a bracket-balanced prefix to a sub-parser; `endSplit` checks that the
sub-parser consumed all of it.

Errors are lists of leaves (`PErr`); `joinErrors` is append, `makeErrorOpaque` clears the
`notFound` flag of every leaf, `isNotFound` asks whether some leaf still carries it — exactly
what `errors.As(err, new(notFoundError))` computes over `errors.Join` / `parseError.Unwrap` /
`opaqueError`.

Mutually recursive productions take fuel; running out of fuel yields a distinguished
`PErr.fuel` leaf (never produced otherwise), so that "fuel suffices" is a theorem and the
driver can report a tie failure if it were ever violated.
-/
import PqlModel.Model.Ast
import PqlModel.Model.Lex
namespace Pql

structure PErr where
  span : Option Span      -- none: an error without source position (plain fmt.Errorf)
  notFound : Bool := false
  fuel : Bool := false
  deriving DecidableEq, Repr, Inhabited

abbrev Errs := List PErr

def errAt (s : Span) : Errs := [{ span := some s }]
def nfAt (s : Span) : Errs := [{ span := some s, notFound := true }]
def errNoPos : Errs := [{ span := none }]
def errFuel : Errs := [{ span := none, fuel := true }]

/-- `makeErrorOpaque` -/
def mkOpaque (es : Errs) : Errs := es.map fun e => { e with notFound := false }
/-- `isNotFound` -/
def isNF (es : Errs) : Bool := es.any (·.notFound)

structure PRes (α : Type) where
  val : α
  errs : Errs
  rest : List Token

/-- `operatorPrecedence`, from the regenerated table -/
def precOf (k : TokKind) : Int :=
  match Facts.precedence.find? (fun kv => kv.1 == k.goName) with
  | some kv => kv.2
  | none => Facts.precedenceDefault

/-- parser context: length of the source (position of the synthetic EOF token) -/
structure PCtx where
  srcLen : Nat

def PCtx.eof (c : PCtx) : Span := Span.index c.srcLen

/-- `(*parser).next`: token (or the EOF token), ok flag, remaining tokens -/
def nextTok (c : PCtx) : List Token → Token × Bool × List Token
  | [] => (⟨.error, c.srcLen, c.srcLen, []⟩, false, [])
  | t :: ts => (t, true, ts)

/-- span of the next token, or of EOF -/
def headSpan (c : PCtx) : List Token → Span
  | [] => c.eof
  | t :: _ => t.span

/-! ### split / splitSemi / endSplit -/

def popTo (k : TokKind) : List TokKind → List TokKind
  | [] => []
  | x :: xs => if x = k then xs else popTo k xs

/-- `(*parser).split`: the prefix handed to the sub-parser and what remains for the caller.
    `stack` is the list of expected closers. -/
def splitAux (search : TokKind) : List TokKind → List Token → List Token × List Token
  | _, [] => ([], [])
  | stack, t :: ts =>
    if t.kind = .lparen then
      let r := splitAux search (.rparen :: stack) ts; (t :: r.1, r.2)
    else if t.kind = .lbracket then
      let r := splitAux search (.rbracket :: stack) ts; (t :: r.1, r.2)
    else if t.kind = .rparen ∨ t.kind = .rbracket then
      if stack ≠ [] then
        let r := splitAux search (popTo t.kind stack) ts; (t :: r.1, r.2)
      else if search = t.kind then ([], t :: ts)
      else let r := splitAux search stack ts; (t :: r.1, r.2)
    else if t.kind = search then
      if stack = [] then ([], t :: ts)
      else let r := splitAux search stack ts; (t :: r.1, r.2)
    else
      let r := splitAux search stack ts; (t :: r.1, r.2)

def split (search : TokKind) (ts : List Token) : List Token × List Token := splitAux search [] ts

/-- `(*parser).splitSemi` -/
def splitSemi : List Token → List Token × List Token
  | [] => ([], [])
  | t :: ts => if t.kind = .semi then ([], t :: ts) else let r := splitSemi ts; (t :: r.1, r.2)

/-- `(*parser).endSplit` on a sub-parser whose remaining tokens are `ts` -/
def endSplit : List Token → Errs
  | [] => []
  | t :: _ => errAt t.span

/-! ### identifiers -/

/-- `(*parser).ident` -/
def pIdent (c : PCtx) (ts : List Token) : PRes (Option Ident) :=
  match ts with
  | t :: rest =>
    if t.kind = .ident ∨ t.kind = .qident then
      ⟨some ⟨t.value, t.span, t.kind = .qident⟩, [], rest⟩
    else ⟨none, nfAt c.eof, ts⟩
  | [] => ⟨none, nfAt c.eof, []⟩

/-- the loop of `(*parser).qualifiedIdent` after the first identifier -/
def pQualTail (c : PCtx) : Nat → List Ident → List Token → PRes (List Ident)
  | 0, parts, ts => ⟨parts, errFuel, ts⟩
  | fuel + 1, parts, ts =>
    match ts with
    | t :: rest =>
      if t.kind = .dot then
        let r := pIdent c rest
        match r.val with
        | some sel => pQualTail c fuel (parts ++ [sel]) r.rest
        | none => ⟨parts, mkOpaque r.errs, r.rest⟩
      else ⟨parts, [], ts⟩
    | [] => ⟨parts, [], []⟩

/-- `(*parser).qualifiedIdent`; `none` = nil pointer -/
def pQualifiedIdent (c : PCtx) (ts : List Token) : PRes (Option (List Ident)) :=
  let r := pIdent c ts
  match r.val with
  | none => ⟨none, r.errs, r.rest⟩
  | some id =>
    let q := pQualTail c (r.rest.length + 1) [id] r.rest
    ⟨some q.val, q.errs, q.rest⟩

/-! ### expressions -/

mutual

/-- `(*parser).expr` -/
def pExpr (c : PCtx) : Nat → List Token → PRes Expr
  | 0, ts => ⟨.nil, errFuel, ts⟩
  | fuel + 1, ts =>
    let r1 := pUnary c fuel ts
    if isNF r1.errs then r1
    else
      let r2 := pTrail c fuel r1.val 0 [] r1.rest
      ⟨r2.val, r1.errs ++ r2.errs, r2.rest⟩

/-- `(*parser).exprBinaryTrail`; `acc` is `finalError` so far -/
def pTrail (c : PCtx) : Nat → Expr → Int → Errs → List Token → PRes Expr
  | 0, x, _, acc, ts => ⟨x, acc ++ errFuel, ts⟩
  | fuel + 1, x, minPrec, acc, ts =>
    match ts with
    | [] => ⟨x, acc, []⟩
    | op1 :: rest =>
      let p1 := precOf op1.kind
      if p1 < 0 ∨ p1 < minPrec then ⟨x, acc, ts⟩
      else if op1.kind = .in_ then
        match rest with
        | [] => ⟨.inE x op1.span .null .nil .null, acc ++ errAt c.eof, []⟩
        | lp :: rest2 =>
          if lp.kind ≠ .lparen then
            ⟨.inE x op1.span .null .nil .null, acc ++ errAt lp.span, rest2⟩
          else
            let sp := split .rparen rest2
            let rl := pExprList c fuel sp.1
            let acc := acc ++ mkOpaque rl.errs ++ endSplit rl.rest
            match sp.2 with
            | [] => ⟨.inE x op1.span lp.span rl.val .null, acc ++ errAt lp.span, []⟩
            | rp :: rest3 =>
              if rp.kind ≠ .rparen then
                ⟨.inE x op1.span lp.span rl.val .null, acc ++ errAt lp.span, rest3⟩
              else pTrail c fuel (.inE x op1.span lp.span rl.val rp.span) minPrec acc rest3
      else
        let ry := pUnary c fuel rest
        let acc := acc ++ mkOpaque ry.errs
        let rh := pHigher c fuel ry.val p1 acc ry.rest
        pTrail c fuel (.binary x op1.span op1.kind rh.val) minPrec rh.errs rh.rest

/-- the "resolve any higher precedence operators first" loop; returns the accumulated errors -/
def pHigher (c : PCtx) : Nat → Expr → Int → Errs → List Token → PRes Expr
  | 0, y, _, acc, ts => ⟨y, acc ++ errFuel, ts⟩
  | fuel + 1, y, p1, acc, ts =>
    match ts with
    | [] => ⟨y, acc, []⟩
    | op2 :: _ =>
      let p2 := precOf op2.kind
      if p2 < 0 ∨ p2 ≤ p1 then ⟨y, acc, ts⟩
      else
        let r := pTrail c fuel y (p1 + 1) [] ts
        pHigher c fuel r.val p1 (acc ++ mkOpaque r.errs) r.rest

/-- `(*parser).unaryExpr` -/
def pUnary (c : PCtx) : Nat → List Token → PRes Expr
  | 0, ts => ⟨.nil, errFuel, ts⟩
  | fuel + 1, ts =>
    match ts with
    | [] => ⟨.nil, nfAt c.eof, []⟩
    | t :: rest =>
      if t.kind = .plus ∨ t.kind = .minus then
        let r := pPrimary c fuel rest
        ⟨.unary t.span t.kind r.val, mkOpaque r.errs, r.rest⟩
      else pPrimary c fuel ts

/-- `(*parser).primaryExpr` -/
def pPrimary (c : PCtx) : Nat → List Token → PRes Expr
  | 0, ts => ⟨.nil, errFuel, ts⟩
  | fuel + 1, ts =>
    let r := pInner c fuel ts
    if r.errs ≠ [] then r
    else
      match r.rest with
      | [] => ⟨r.val, [], []⟩
      | t :: rest =>
        if t.kind = .lbracket then
          let sp := split .rbracket rest
          let ri := pExpr c fuel sp.1
          let errs := mkOpaque ri.errs ++ endSplit ri.rest
          match sp.2 with
          | [] => ⟨.index r.val t.span ri.val .zero, errs ++ errAt c.eof, []⟩
          | rb :: rest2 =>
            if rb.kind = .rbracket then ⟨.index r.val t.span ri.val rb.span, errs, rest2⟩
            else ⟨.index r.val t.span ri.val .zero, errs ++ errAt rb.span, rest2⟩
        else ⟨r.val, [], r.rest⟩

/-- `(*parser).innerPrimaryExpr` -/
def pInner (c : PCtx) : Nat → List Token → PRes Expr
  | 0, ts => ⟨.nil, errFuel, ts⟩
  | fuel + 1, ts =>
    match ts with
    | [] => ⟨.nil, nfAt c.eof, []⟩
    | t :: rest =>
      if t.kind = .number ∨ t.kind = .string then ⟨.lit t.span t.kind t.value, [], rest⟩
      else if t.kind = .ident then
        let q := pQualifiedIdent c ts
        match q.val with
        | none => ⟨.nil, q.errs, q.rest⟩   -- unreachable: the first token is an identifier
        | some parts =>
          if q.errs ≠ [] then ⟨.qident parts, q.errs, q.rest⟩
          else if parts.length > 1 then ⟨.qident parts, [], q.rest⟩
          else
            match q.rest with
            | [] => ⟨.qident parts, [], []⟩
            | lp :: rest2 =>
              if lp.kind ≠ .lparen then ⟨.qident parts, [], q.rest⟩
              else
                let sp := split .rparen rest2
                let ra := pExprList c fuel sp.1
                -- a not-found error means "no arguments"; otherwise one trailing comma is allowed
                let errs : Errs := if isNF ra.errs then [] else ra.errs
                let argRest : List Token :=
                  if ra.errs = [] then
                    match ra.rest with
                    | cm :: more => if cm.kind = .comma then more else ra.rest
                    | [] => []
                  else ra.rest
                let errs := errs ++ endSplit argRest
                let fn : Ident := ⟨t.value, t.span, false⟩
                match sp.2 with
                | [] => ⟨.call fn lp.span ra.val .null, errs ++ errAt c.eof, []⟩
                | rp :: rest3 =>
                  if rp.kind = .rparen then ⟨.call fn lp.span ra.val rp.span, errs, rest3⟩
                  else ⟨.call fn lp.span ra.val .null, errs ++ errAt rp.span, sp.2⟩
      else if t.kind = .qident then
        let q := pQualifiedIdent c ts
        match q.val with
        | none => ⟨.nil, q.errs, q.rest⟩
        | some parts => ⟨.qident parts, q.errs, q.rest⟩
      else if t.kind = .lparen then
        let sp := split .rparen rest
        let rx := pExpr c fuel sp.1
        let errs := mkOpaque rx.errs ++ endSplit rx.rest
        match sp.2 with
        | [] => ⟨.paren t.span rx.val .null, errs ++ errAt c.eof, []⟩
        | rp :: rest2 =>
          if rp.kind = .rparen then ⟨.paren t.span rx.val rp.span, errs, rest2⟩
          else ⟨.paren t.span rx.val .null, errs ++ errAt rp.span, rest2⟩
      else ⟨.nil, nfAt t.span, ts⟩

/-- `(*parser).exprList`: `ExprList.nil` with errors = Go's `nil, err` -/
def pExprList (c : PCtx) : Nat → List Token → PRes ExprList
  | 0, ts => ⟨.nil, errFuel, ts⟩
  | fuel + 1, ts =>
    let r := pExpr c fuel ts
    if r.errs ≠ [] then ⟨.nil, r.errs, r.rest⟩
    else pExprListTail c fuel (.cons r.val .nil) r.rest

def pExprListTail (c : PCtx) : Nat → ExprList → List Token → PRes ExprList
  | 0, acc, ts => ⟨acc, errFuel, ts⟩
  | fuel + 1, acc, ts =>
    match ts with
    | [] => ⟨acc, [], []⟩
    | t :: rest =>
      if t.kind ≠ .comma then ⟨acc, [], ts⟩
      else
        let r := pExpr c fuel rest
        if isNF r.errs then ⟨acc, [], ts⟩       -- p.pos = restorePos
        else
          let acc := match r.val with | .nil => acc | x => acc.snoc x
          if r.errs ≠ [] then ⟨acc, mkOpaque r.errs, r.rest⟩
          else pExprListTail c fuel acc r.rest

end

/-! ### tabular operators -/

def isIdentNamed (t : Token) (name : String) : Bool :=
  t.kind = .ident && t.value == Bytes.ofString name

/-- `(*BasicLit).IsFloat` / `IsInteger` -/
def litIsFloat (kind : TokKind) (value : Bytes) : Bool :=
  kind = .number && value.any (fun b => b == 46 || b == 101 || b == 69)
def litIsInteger (kind : TokKind) (value : Bytes) : Bool :=
  kind = .number && !litIsFloat kind value

/-- `(*parser).rowCount` -/
def pRowCount (c : PCtx) (fuel : Nat) (ts : List Token) : PRes Expr :=
  let r := pExpr c fuel ts
  if r.errs ≠ [] then r
  else match r.val with
    | .lit _ k v => if litIsInteger k v then r else ⟨r.val, errNoPos, r.rest⟩
    | _ => r

/-- `(*parser).sortTerm`; `none` = nil -/
def pSortTerm (c : PCtx) (fuel : Nat) (ts : List Token) : PRes (Option SortTerm) :=
  let r := pExpr c fuel ts
  if r.errs ≠ [] then ⟨none, r.errs, r.rest⟩
  else
    let term : SortTerm := ⟨r.val, false, .null, false, .null⟩
    -- asc / desc
    let step1 : SortTerm × List Token × Bool :=   -- (term, rest, continue to the nulls clause?)
      match r.rest with
      | [] => (term, [], false)
      | t :: rest =>
        if isIdentNamed t "asc" then ({ term with asc := true, ascDescSpan := t.span, nullsFirst := true }, rest, true)
        else if isIdentNamed t "desc" then ({ term with asc := false, ascDescSpan := t.span, nullsFirst := false }, rest, true)
        else if isIdentNamed t "nulls" then (term, r.rest, true)
        else (term, r.rest, false)
    let term := step1.1
    if !step1.2.2 then ⟨some term, [], step1.2.1⟩
    else
      match step1.2.1 with
      | [] => ⟨some term, [], []⟩
      | t :: rest =>
        if isIdentNamed t "nulls" then
          match rest with
          | [] => ⟨some term, errAt c.eof, []⟩
          | t2 :: rest2 =>
            if isIdentNamed t2 "first" then
              ⟨some { term with nullsFirst := true, nullsSpan := ⟨t.start, t2.stop⟩ }, [], rest2⟩
            else if isIdentNamed t2 "last" then
              ⟨some { term with nullsFirst := false, nullsSpan := ⟨t.start, t2.stop⟩ }, [], rest2⟩
            else ⟨some term, errAt t2.span, rest⟩
        else ⟨some term, [], step1.2.1⟩

/-- the term loop of `(*parser).sortOperator` -/
def pSortTerms (c : PCtx) (fuel : Nat) : Nat → List SortTerm → List Token → PRes (List SortTerm)
  | 0, acc, ts => ⟨acc, errFuel, ts⟩
  | n + 1, acc, ts =>
    let r := pSortTerm c fuel ts
    let acc := match r.val with | some t => acc ++ [t] | none => acc
    if r.errs ≠ [] then ⟨acc, mkOpaque r.errs, r.rest⟩
    else
      match r.rest with
      | t :: rest => if t.kind = .comma then pSortTerms c fuel n acc rest else ⟨acc, [], r.rest⟩
      | [] => ⟨acc, [], []⟩

/-- `(*parser).extendColumn` and `(*parser).summarizeColumn` (identical bodies) -/
def pNamedColumn (c : PCtx) (fuel : Nat) (ts : List Token) : PRes Column :=
  let ri := pIdent c ts
  let named : Option (Ident × Span × List Token) :=
    match ri.val, ri.rest with
    | some id, t :: rest => if t.kind = .assign then some (id, t.span, rest) else none
    | _, _ => none
  match named with
  | some (id, asg, rest) =>
    let r := pExpr c fuel rest
    ⟨⟨some id, asg, r.val⟩, mkOpaque r.errs, r.rest⟩
  | none =>
    let r := pExpr c fuel ts
    ⟨⟨none, .null, r.val⟩, r.errs, r.rest⟩

/-- the column loop of `(*parser).extendOperator` -/
def pExtendCols (c : PCtx) (fuel : Nat) : Nat → List Column → List Token → PRes (List Column)
  | 0, acc, ts => ⟨acc, errFuel, ts⟩
  | n + 1, acc, ts =>
    let r := pNamedColumn c fuel ts
    if r.errs ≠ [] then ⟨acc, mkOpaque r.errs, r.rest⟩
    else
      let acc := acc ++ [r.val]
      match r.rest with
      | t :: rest => if t.kind = .comma then pExtendCols c fuel n acc rest else ⟨acc, [], r.rest⟩
      | [] => ⟨acc, [], []⟩

/-- the column loop of `(*parser).projectOperator` -/
def pProjectCols (c : PCtx) (fuel : Nat) : Nat → List Column → List Token → PRes (List Column)
  | 0, acc, ts => ⟨acc, errFuel, ts⟩
  | n + 1, acc, ts =>
    let ri := pIdent c ts
    match ri.val with
    | none => ⟨acc, mkOpaque ri.errs, ri.rest⟩
    | some id =>
      match ri.rest with
      | [] => ⟨acc ++ [⟨some id, .null, .nil⟩], [], []⟩
      | sep :: rest =>
        if sep.kind = .comma then pProjectCols c fuel n (acc ++ [⟨some id, .null, .nil⟩]) rest
        else if sep.kind = .assign then
          let r := pExpr c fuel rest
          let acc := acc ++ [⟨some id, sep.span, r.val⟩]
          if r.errs ≠ [] then ⟨acc, mkOpaque r.errs, r.rest⟩
          else
            match r.rest with
            | [] => ⟨acc, [], []⟩
            | sep2 :: rest2 =>
              if sep2.kind = .comma then pProjectCols c fuel n acc rest2
              else ⟨acc, errNoPos, rest2⟩
        else ⟨acc ++ [⟨some id, .null, .nil⟩], [], ri.rest⟩

/-- first loop of `(*parser).summarizeOperator`.  Result value: columns, and how the loop ended:
    `done = true` means the operator returned from inside the loop (EOF after a column, or a hard
    error); otherwise parsing continues with the optional `by` clause.  `comma` is the span of a
    comma after the last column that no further column followed. -/
structure SumCols where
  cols : List Column
  done : Bool
  comma : Option Span

def pSummarizeCols (c : PCtx) (fuel : Nat) : Nat → List Column → Option Span → List Token → PRes SumCols
  | 0, acc, cm, ts => ⟨⟨acc, true, cm⟩, errFuel, ts⟩
  | n + 1, acc, cm, ts =>
    let r := pNamedColumn c fuel ts
    if isNF r.errs then ⟨⟨acc, false, cm⟩, [], ts⟩          -- break (summarizeColumn consumed nothing)
    else
      let acc := acc ++ [r.val]
      if r.errs ≠ [] then ⟨⟨acc, true, none⟩, mkOpaque r.errs, r.rest⟩
      else
        match r.rest with
        | [] => ⟨⟨acc, true, none⟩, [], []⟩
        | t :: rest =>
          if t.kind = .comma then pSummarizeCols c fuel n acc (some t.span) rest
          else ⟨⟨acc, false, none⟩, [], r.rest⟩

/-- group-by loop of `(*parser).summarizeOperator` -/
def pGroupByCols (c : PCtx) (fuel : Nat) : Nat → List Column → List Token → PRes (List Column)
  | 0, acc, ts => ⟨acc, errFuel, ts⟩
  | n + 1, acc, ts =>
    let r := pNamedColumn c fuel ts
    if isNF r.errs then ⟨acc, mkOpaque r.errs, r.rest⟩
    else
      let acc := acc ++ [r.val]
      if r.errs ≠ [] then ⟨acc, mkOpaque r.errs, r.rest⟩
      else
        match r.rest with
        | [] => ⟨acc, [], []⟩
        | t :: rest => if t.kind = .comma then pGroupByCols c fuel n acc rest else ⟨acc, [], r.rest⟩

/-- `(*parser).summarizeOperator` -/
def pSummarize (c : PCtx) (fuel : Nat) (pipe kw : Span) (ts : List Token) : PRes Op :=
  let r1 := pSummarizeCols c fuel (ts.length + 1) [] none ts
  if r1.val.done then ⟨.summarize pipe kw r1.val.cols .null [], r1.errs, r1.rest⟩
  else
    let cols := r1.val.cols
    match r1.rest with
    | [] =>
      if cols.isEmpty then ⟨.summarize pipe kw cols .null [], errAt c.eof, []⟩
      else
        match r1.val.comma with
        | some cm => ⟨.summarize pipe kw cols .null [], errAt cm, []⟩   -- dangling comma
        | none => ⟨.summarize pipe kw cols .null [], [], []⟩
    | sep :: rest =>
      if sep.kind ≠ .by_ then
        if cols.isEmpty then ⟨.summarize pipe kw cols .null [], errAt sep.span, r1.rest⟩
        else
          match r1.val.comma with
          | some cm => ⟨.summarize pipe kw cols .null [], errAt cm, r1.rest⟩
          | none => ⟨.summarize pipe kw cols .null [], [], r1.rest⟩
      else
        let r2 := pGroupByCols c fuel (rest.length + 1) [] rest
        ⟨.summarize pipe kw cols sep.span r2.val, r2.errs, r2.rest⟩

/-- `(*parser).renderProperty`; `none` = nil -/
def pRenderProp (c : PCtx) (fuel : Nat) (ts : List Token) : PRes (Option RenderProp) :=
  let ri := pIdent c ts
  match ri.val with
  | none => ⟨none, ri.errs, ri.rest⟩
  | some name =>
    match ri.rest with
    | [] => ⟨none, errAt c.eof, []⟩
    | t :: rest =>
      if t.kind ≠ .assign then ⟨none, errAt t.span, rest⟩
      else
        let r := pExpr c fuel rest
        if r.errs ≠ [] then ⟨none, r.errs, r.rest⟩
        else ⟨some ⟨some name, t.span, r.val⟩, [], r.rest⟩

/-- property loop of `(*parser).renderOperator`: properties, Rparen span, errors -/
def pRenderProps (c : PCtx) (fuel : Nat) : Nat → List RenderProp → List Token → PRes (List RenderProp × Span)
  | 0, acc, ts => ⟨(acc, .null), errFuel, ts⟩
  | n + 1, acc, ts =>
    let r := pRenderProp c fuel ts
    if r.errs ≠ [] then ⟨(acc, .null), mkOpaque r.errs, r.rest⟩
    else
      let acc := match r.val with | some p => acc ++ [p] | none => acc
      match r.rest with
      | [] => ⟨(acc, .null), errAt c.eof, []⟩
      | t :: rest =>
        if t.kind = .rparen then ⟨(acc, t.span), [], rest⟩
        else if t.kind ≠ .comma then ⟨(acc, .null), errAt t.span, rest⟩
        else pRenderProps c fuel n acc rest

/-- `(*parser).renderOperator` -/
def pRender (c : PCtx) (fuel : Nat) (pipe kw : Span) (ts : List Token) : PRes Op :=
  let ri := pIdent c ts
  match ri.val with
  | none => ⟨.render pipe kw none .null .null [] .null, errAt kw, ri.rest⟩
  | some chart =>
    match ri.rest with
    | [] => ⟨.render pipe kw (some chart) .null .null [] .null, [], []⟩
    | t :: rest =>
      if !isIdentNamed t "with" then ⟨.render pipe kw (some chart) .null .null [] .null, [], ri.rest⟩
      else
        match rest with
        | [] => ⟨.render pipe kw (some chart) t.span .null [] .null, errAt c.eof, []⟩
        | lp :: rest2 =>
          if lp.kind ≠ .lparen then ⟨.render pipe kw (some chart) t.span .null [] .null, errAt lp.span, rest2⟩
          else
            let r := pRenderProps c fuel (rest2.length + 1) [] rest2
            ⟨.render pipe kw (some chart) t.span lp.span r.val.1 r.val.2, r.errs, r.rest⟩

def isJoinType (name : Bytes) : Bool := Facts.joinTypes.any fun j => Bytes.ofString j == name

mutual

/-- `(*parser).tabularExpr` -/
def pTabular (c : PCtx) : Nat → List Token → PRes Tabular
  | 0, ts => ⟨.nil, errFuel, ts⟩
  | fuel + 1, ts =>
    let ri := pIdent c ts
    match ri.val with
    | none => ⟨.nil, ri.errs, ri.rest⟩
    | some name =>
      let r := pOps c fuel .nil [] ri.rest
      ⟨.mk (some name) r.val, r.errs, r.rest⟩

/-- the operator loop of `tabularExpr` -/
def pOps (c : PCtx) : Nat → OpList → Errs → List Token → PRes OpList
  | 0, ops, acc, ts => ⟨ops, acc ++ errFuel, ts⟩
  | fuel + 1, ops, acc, ts =>
    match ts with
    | [] => ⟨ops, acc, []⟩
    | pipeTok :: rest =>
      if pipeTok.kind ≠ .pipe then ⟨ops, acc, ts⟩
      else
        let sp := split .pipe rest
        match sp.1 with
        | [] => pOps c fuel ops (acc ++ errAt pipeTok.span) sp.2
        | name :: opToks =>
          if name.kind ≠ .ident then pOps c fuel ops (acc ++ errAt name.span) sp.2
          else
            match pOperator c fuel pipeTok.span name opToks with
            | none => pOps c fuel ops (acc ++ errAt name.span) sp.2          -- unknown operator
            | some r => pOps c fuel (ops.snoc r.val) (acc ++ r.errs ++ endSplit r.rest) sp.2

/-- dispatch on the operator name; `none` = unknown operator name -/
def pOperator (c : PCtx) : Nat → Span → Token → List Token → Option (PRes Op)
  | 0, pipe, name, ts => some ⟨.count pipe name.span, errFuel, ts⟩
  | fuel + 1, pipe, name, ts =>
    let kw := name.span
    let v := name.value
    if v == Bytes.ofString "count" then some ⟨.count pipe kw, [], ts⟩
    else if v == Bytes.ofString "where" || v == Bytes.ofString "filter" then
      let r := pExpr c fuel ts
      some ⟨.where_ pipe kw r.val, mkOpaque r.errs, r.rest⟩
    else if v == Bytes.ofString "sort" || v == Bytes.ofString "order" then
      match ts with
      | [] => some ⟨.sort pipe kw [], errAt c.eof, []⟩
      | by_ :: rest =>
        if by_.kind ≠ .by_ then some ⟨.sort pipe kw [], errAt by_.span, rest⟩
        else
          let r := pSortTerms c fuel (rest.length + 1) [] rest
          some ⟨.sort pipe ⟨kw.start, by_.stop⟩ r.val, r.errs, r.rest⟩
    else if v == Bytes.ofString "take" || v == Bytes.ofString "limit" then
      let r := pRowCount c fuel ts
      some ⟨.take pipe kw r.val, mkOpaque r.errs, r.rest⟩
    else if v == Bytes.ofString "top" then
      let r := pRowCount c fuel ts
      if r.errs ≠ [] then some ⟨.top pipe kw r.val .null none, mkOpaque r.errs, r.rest⟩
      else
        match r.rest with
        | [] => some ⟨.top pipe kw r.val .null none, errAt c.eof, []⟩
        | by_ :: rest =>
          if by_.kind ≠ .by_ then some ⟨.top pipe kw r.val .null none, errAt by_.span, r.rest⟩
          else
            let rt := pSortTerm c fuel rest
            some ⟨.top pipe kw r.val by_.span rt.val, mkOpaque rt.errs, rt.rest⟩
    else if v == Bytes.ofString "project" then
      let r := pProjectCols c fuel (ts.length + 1) [] ts
      some ⟨.project pipe kw r.val, r.errs, r.rest⟩
    else if v == Bytes.ofString "extend" then
      let r := pExtendCols c fuel (ts.length + 1) [] ts
      some ⟨.extend pipe kw r.val, r.errs, r.rest⟩
    else if v == Bytes.ofString "summarize" then some (pSummarize c fuel pipe kw ts)
    else if v == Bytes.ofString "join" then some (pJoin c fuel pipe kw ts)
    else if v == Bytes.ofString "as" then
      let r := pIdent c ts
      some ⟨.as_ pipe kw r.val, mkOpaque r.errs, r.rest⟩
    else if v == Bytes.ofString "render" then some (pRender c fuel pipe kw ts)
    else none

/-- `(*parser).joinOperator` -/
def pJoin (c : PCtx) : Nat → Span → Span → List Token → PRes Op
  | 0, pipe, kw, ts => ⟨.count pipe kw, errFuel, ts⟩
  | fuel + 1, pipe, kw, ts =>
    let mk (kind ka : Span) (fl : Option Ident) (lp : Span) (right : Tabular) (rp on : Span) (cs : ExprList) : Op :=
      .join pipe kw kind ka fl lp right rp on cs
    match ts with
    | [] => ⟨mk .null .null none .null .nil .null .null .nil, errAt c.eof, []⟩
    | t0 :: rest0 =>
      -- optional  kind = flavor
      let hdr : Option (Span × Span × Option Ident × Errs × List Token) ⊕ PRes Op :=
        if isIdentNamed t0 "kind" then
          match rest0 with
          | [] => .inr ⟨mk t0.span .null none .null .nil .null .null .nil, errAt c.eof, []⟩
          | asg :: rest1 =>
            if asg.kind ≠ .assign then .inr ⟨mk t0.span .null none .null .nil .null .null .nil, errAt asg.span, rest1⟩
            else
              match rest1 with
              | [] => .inr ⟨mk t0.span asg.span none .null .nil .null .null .nil, errAt c.eof, []⟩
              | fl :: rest2 =>
                if fl.kind ≠ .ident then
                  .inr ⟨mk t0.span asg.span none .null .nil .null .null .nil, errAt fl.span, rest2⟩
                else
                  let e : Errs := if isJoinType fl.value then [] else errAt fl.span
                  .inl (some (t0.span, asg.span, some ⟨fl.value, fl.span, false⟩, e, rest2))
        else .inl (some (.null, .null, none, [], ts))
      match hdr with
      | .inr r => r
      | .inl none => ⟨mk .null .null none .null .nil .null .null .nil, [], ts⟩
      | .inl (some (kind, ka, fl, e0, rest)) =>
        match rest with
        | [] => ⟨mk kind ka fl .null .nil .null .null .nil, e0 ++ errAt c.eof, []⟩
        | lp :: rest1 =>
          if lp.kind ≠ .lparen then ⟨mk kind ka fl .null .nil .null .null .nil, e0 ++ errAt lp.span, rest1⟩
          else
            let sp := split .rparen rest1
            let rr := pTabular c fuel sp.1
            let e1 := e0 ++ mkOpaque rr.errs ++ endSplit rr.rest
            match sp.2 with
            | [] => ⟨mk kind ka fl lp.span rr.val .null .null .nil, e1 ++ errAt c.eof, []⟩
            | rp :: rest2 =>
              if rp.kind ≠ .rparen then ⟨mk kind ka fl lp.span rr.val .null .null .nil, e1 ++ errAt rp.span, rest2⟩
              else
                match rest2 with
                | [] => ⟨mk kind ka fl lp.span rr.val rp.span .null .nil, e1 ++ errAt c.eof, []⟩
                | on :: rest3 =>
                  if !isIdentNamed on "on" then
                    ⟨mk kind ka fl lp.span rr.val rp.span .null .nil, e1 ++ errAt on.span, rest3⟩
                  else
                    let rc := pExprList c fuel rest3
                    ⟨mk kind ka fl lp.span rr.val rp.span on.span rc.val, e1 ++ mkOpaque rc.errs, rc.rest⟩

end

/-! ### statements and `Parse` -/

/-- `(*parser).letStatement`; `none` = nil -/
def pLet (c : PCtx) (fuel : Nat) (ts : List Token) : PRes (Option Stmt) :=
  match ts with
  | [] => ⟨none, nfAt c.eof, []⟩
  | kwd :: rest =>
    if !isIdentNamed kwd "let" then ⟨none, nfAt kwd.span, ts⟩
    else
      let ri := pIdent c rest
      match ri.val with
      | none => ⟨some (.let_ kwd.span none .null .nil), mkOpaque ri.errs, ri.rest⟩
      | some name =>
        match ri.rest with
        | [] => ⟨some (.let_ kwd.span (some name) .null .nil), errAt c.eof, []⟩
        | asg :: rest2 =>
          if asg.kind ≠ .assign then ⟨some (.let_ kwd.span (some name) .null .nil), errAt asg.span, rest2⟩
          else
            let r := pExpr c fuel rest2
            ⟨some (.let_ kwd.span (some name) asg.span r.val), mkOpaque r.errs, r.rest⟩

def fuelFor (n : Nat) : Nat := 8 * n + 32

/-- one iteration of `Parse`'s loop on the tokens of one statement -/
def pStatement (c : PCtx) (ts : List Token) : Option Stmt × Errs × Bool :=
  -- result: statement (if any), errors contributed, and whether they *replace* resultError
  let fuel := fuelFor ts.length
  let rl := pLet c fuel ts
  let first : PRes (Option Stmt) :=
    if !isNF rl.errs then rl
    else
      let rt := pTabular c fuel ts
      match rt.val with
      | .nil => ⟨none, rt.errs, rt.rest⟩
      | t => ⟨some (.tabular t), rt.errs, rt.rest⟩
  if isNF first.errs then
    match first.rest with
    | [] => (none, [], false)                             -- empty statement: ignored
    | t :: _ => (none, first.errs ++ errAt t.span, true)  -- replaces resultError (sic)
  else (first.val, mkOpaque first.errs ++ endSplit first.rest, false)

def pStatements (c : PCtx) : Nat → List Stmt → Errs → List Token → List Stmt × Errs
  | 0, acc, errs, _ => (acc, errs ++ errFuel)
  | n + 1, acc, errs, ts =>
    let sp := splitSemi ts
    let r := pStatement c sp.1
    let acc := match r.1 with | some s => acc ++ [s] | none => acc
    let errs := if r.2.2 then r.2.1 else errs ++ r.2.1
    match sp.2 with
    | [] => (acc, errs)
    | _ :: rest => pStatements c n acc errs rest

/-- `Parse` on a token list -/
def parseTokens (srcLen : Nat) (ts : List Token) : List Stmt × Errs :=
  pStatements ⟨srcLen⟩ (ts.length + 1) [] [] ts

/-- `Parse` -/
def parse (src : Bytes) : List Stmt × Errs := parseTokens src.length (scan src)

end Pql

namespace Pql

/-- `linecol` (both copies: parser.go and pql.go): 1-based line and column of byte offset
    `pos`, iterating over *runes* of `source[:pos]`; a tab advances to the next multiple of 8 -/
def linecolRunes : Nat → Bytes → Nat → Nat → Nat × Nat
  | 0, _, line, col => (line, col)
  | _, [], line, col => (line, col)
  | fuel + 1, c :: rest, line, col =>
    let w := (decodeRune (c :: rest)).2
    let rest' := (c :: rest).drop w
    if c == 10 then linecolRunes fuel rest' (line + 1) 1
    else if c == 9 then linecolRunes fuel rest' line (col + (8 - (col - 1) % 8))
    else linecolRunes fuel rest' line (col + 1)

def linecol (src : Bytes) (pos : Nat) : Nat × Nat :=
  let pre := src.take pos
  linecolRunes (pre.length + 1) pre 1 1

end Pql
