/-
Token kinds and tokens (parser/lex.go `TokenKind`, `Token`).
-/
import PqlModel.Base.Bytes
namespace Pql

inductive TokKind
  | ident | qident | number | string
  | and_ | or_
  | pipe | dot | comma | plus | minus | star | slash | mod | assign
  | eq | ne | lt | le | gt | ge | cieq | cine
  | lparen | rparen | lbracket | rbracket
  | in_ | by_ | semi
  | error
  deriving DecidableEq, Repr, Inhabited

namespace TokKind

/-- The Go constant name (what the harness prints and the extractor emits). -/
def goName : TokKind → String
  | ident => "TokenIdentifier" | qident => "TokenQuotedIdentifier"
  | number => "TokenNumber" | string => "TokenString"
  | and_ => "TokenAnd" | or_ => "TokenOr"
  | pipe => "TokenPipe" | dot => "TokenDot" | comma => "TokenComma"
  | plus => "TokenPlus" | minus => "TokenMinus" | star => "TokenStar"
  | slash => "TokenSlash" | mod => "TokenMod" | assign => "TokenAssign"
  | eq => "TokenEq" | ne => "TokenNE" | lt => "TokenLT" | le => "TokenLE"
  | gt => "TokenGT" | ge => "TokenGE"
  | cieq => "TokenCaseInsensitiveEq" | cine => "TokenCaseInsensitiveNE"
  | lparen => "TokenLParen" | rparen => "TokenRParen"
  | lbracket => "TokenLBracket" | rbracket => "TokenRBracket"
  | in_ => "TokenIn" | by_ => "TokenBy" | semi => "TokenSemi"
  | error => "TokenError"

def all : List TokKind :=
  [ident, qident, number, string, and_, or_, pipe, dot, comma, plus, minus, star, slash, mod,
   assign, eq, ne, lt, le, gt, ge, cieq, cine, lparen, rparen, lbracket, rbracket, in_, by_,
   semi, error]

def ofGoName (s : String) : Option TokKind := all.find? (fun k => k.goName == s)

end TokKind

structure Token where
  kind : TokKind
  start : Nat
  stop : Nat
  value : Bytes
  deriving Repr, DecidableEq, Inhabited

end Pql
