/-
Abstract model of the shared state behind `Compile` (pql.go): the lazily built table
`knownFunctions.m` guarded by a `sync.Once`, read by every call.

Semantics of `sync.Once` as documented: `Do(f)` calls `f` only the first time; no call of
`Do` returns before that one call of `f` has returned.  Threads are sequences of the abstract
actions a `Compile` call performs on the shared state; a *schedule* interleaves them.
-/
namespace Pql.Shared

/-- what one thread is about to do -/
inductive Phase
  | callDo        -- about to call knownFunctions.init.Do(init)
  | initialising  -- inside init (this thread won the Once)
  | waiting       -- inside Do, blocked until the winner's init returns
  | reading       -- Do has returned; about to read knownFunctions.m
  | done
  deriving DecidableEq, Repr

structure State where
  started : Bool := false       -- some thread has entered init
  finished : Bool := false      -- init has returned (Once is done)
  table : Bool := false         -- knownFunctions.m has been assigned
  phases : List Phase           -- one per thread
  badRead : Bool := false       -- some thread read m before it was assigned
  writes : Nat := 0             -- number of assignments to m
  deriving Repr

def setPhase (ps : List Phase) (t : Nat) (p : Phase) : List Phase := ps.set t p

/-- one step of thread `t`; a blocked or finished thread does not move -/
def step (s : State) (t : Nat) : State :=
  match s.phases[t]? with
  | some .callDo =>
    if s.finished then { s with phases := setPhase s.phases t .reading }
    else if s.started then { s with phases := setPhase s.phases t .waiting }
    else { s with started := true, phases := setPhase s.phases t .initialising }
  | some .initialising =>
    -- the body of init: assign the table, then Do returns
    { s with table := true, finished := true, writes := s.writes + 1, phases := setPhase s.phases t .reading }
  | some .waiting =>
    if s.finished then { s with phases := setPhase s.phases t .reading } else s
  | some .reading =>
    { s with badRead := s.badRead || !s.table, phases := setPhase s.phases t .done }
  | _ => s

def init (n : Nat) : State := { phases := List.replicate n .callDo }

/-- run a schedule (a list of thread indices) -/
def run (s : State) (schedule : List Nat) : State := schedule.foldl step s

/-- the invariant that makes every read safe -/
def Inv (s : State) : Prop :=
  s.badRead = false ∧
  (s.finished = true → s.table = true) ∧
  (s.started = false → s.finished = false ∧ s.writes = 0) ∧
  (∀ p ∈ s.phases, (p = .reading ∨ p = .done) → s.finished = true) ∧
  (s.finished = true → s.writes = 1) ∧
  (s.finished = false → s.writes = 0) ∧
  ((s.phases.filter (· = .initialising)).length = if s.started && !s.finished then 1 else 0)

end Pql.Shared
