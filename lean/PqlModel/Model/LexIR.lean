/-
Interpreter for the IR of the cursor-level code of the lexer and of a few small functions next to
it, which `harness/extract_lexir.go` regenerates from the Go source on every run:

  `Facts.lexNumberIR`  parser/span.go `newSpan`, `indexSpan`, `Span.IsValid`, `spanString`; parser/lex.go
                       `(*scanner).next`, `prev`, `setPos`, `normalizeNumberValue`,
                       `(*scanner).numberExponent`, `(*scanner).numberOrDot`
  `Facts.lexSplitIR`   parser/lex.go `SplitStatements`
  `Facts.linecolIR`    `linecol` of parser/parser.go and its copy in pql.go
  `Facts.litAccessIR`  parser/ast.go `(*BasicLit).IsFloat`, `IsInteger`, `Uint64`

The regenerated form is flat (an item is a list of strings, expressions are prefix-coded inside an
item, blocks are closed by `["end"]`); `decodeFn` turns the items of one function into a `FnDecl`
(receiver, parameters, results, statement tree), `interpFn` runs it: Go variables in scope (innermost
first, with Go's block scoping and shadowing), the one `scanner` struct the receiver `s` points to
(`Heap`: the string, `pos`, `last`), the deferred closures.  Calls go through an environment `Env`
(function name ↦ meaning); a translated function sees the library primitives (`prims`) and the
translated functions listed before it (`layer`), so the call graph is part of what is interpreted.

Control flow is explicit (`Flow`: next / break / return).  Go run-time failures are explicit:
an index or slice out of range, a nil `*BasicLit` dereferenced, `%` by zero are `IErr.panic`.
`IErr.stuck` is kept apart: the IR refers to a variable that is not in scope, applies an operation to
a value of the wrong type, calls a name the environment does not have, or is not decodable.
`IErr.fuel`: a `for { }` loop did not end within the given number of iterations.  The theorems show
`.ok` results, so they exclude all three.

Go's `int` is modelled by `Nat`: a subtraction that would go below zero is `stuck` (the theorems
show it never happens on the translated code), 64-bit overflow is not modelled (positions are bounded
by the length of the source).

Primitives (meaning given here, not translated): `isDigit`, `isHexDigit` (the regenerated rune
ranges), `utf8.DecodeRuneInString` (`decodeRune`), `strconv.ParseUint` for bases 10 and 16 (digits of
the base, non-empty, value below 2^bitSize; the model's `hexToNat`), `strconv.FormatUint(·, 10)`
(`natToDec`), `strings.TrimLeft` / `strings.ContainsAny` with an ASCII set, `append` on a `[]string`,
`Scan` (a parameter, `Lib.scan`), `errorToken` (an error token on the given span; the message text
is not an observable anywhere in this development: the value is kept empty), `uint64(·)`,
`(*BasicLit).Float64` (opaque: `strconv.ParseFloat`, a parameter `Lib.f64ToU64` gives `uint64` of it).
-/
import PqlModel.Model.LexIRSyntax
namespace Pql.LexIR
open Pql

/-! ### values and state -/

inductive IErr
  | panic             -- what the Go code does: a run-time panic
  | stuck             -- the IR is not understood
  | fuel              -- a `for { }` loop did not end within the fuel
  deriving DecidableEq, Repr

abbrev M := Except IErr

def goPanic {α : Type} : M α := .error .panic
def stuck {α : Type} : M α := .error .stuck

inductive Val
  | int (n : Nat)                          -- int, rune, byte, uint64
  | bool (b : Bool)
  | str (b : Bytes)
  | kind (k : TokKind)
  | span (a b : Nat)                       -- Span{Start, End}
  | tok (k : TokKind) (a b : Nat) (v : Bytes)   -- Token{Kind, Span, Value}
  | strs (l : List Bytes)                  -- []string
  | toks (l : List Token)                  -- []Token
  | err (isErr : Bool)                     -- error (false = nil)
  | nil                                    -- the literal nil
  | scanner                                -- the *scanner
  | lit (l : Option (TokKind × Bytes))     -- a *BasicLit (none = nil): Kind, Value
  | f64 (k : TokKind) (v : Bytes)          -- what (*BasicLit).Float64 returns for this literal (opaque)
  deriving DecidableEq, Repr

/-- the `scanner` struct -/
structure Heap where
  src : Bytes
  pos : Nat
  last : Nat
  deriving DecidableEq, Repr

abbrev Fn := List Val → Heap → M (List Val × Heap)
abbrev Env := String → Option Fn

structure State where
  vars : List (String × Val)               -- innermost first
  heap : Heap
  defers : List (List Stmt) := []          -- deferred closures, last registered first

inductive Flow
  | next
  | brk
  | ret (vs : List Val)
  deriving Repr

def getVar (vars : List (String × Val)) (v : String) : M Val :=
  match vars.find? (·.1 == v) with
  | some kv => .ok kv.2
  | none => stuck

def State.declare (st : State) (v : String) (x : Val) : State :=
  if v == "_" then st else { st with vars := (v, x) :: st.vars }

def assignIn (v : String) (x : Val) : List (String × Val) → Option (List (String × Val))
  | [] => none
  | kv :: r => if kv.1 == v then some ((v, x) :: r) else (assignIn v x r).map (kv :: ·)

def State.assign (st : State) (v : String) (x : Val) : M State :=
  if v == "_" then .ok st
  else match assignIn v x st.vars with
    | some vars => .ok { st with vars := vars }
    | none => stuck

/-- leaving a block: the variables it declared go out of scope -/
def State.leave (st outer : State) : State :=
  { st with vars := st.vars.drop (st.vars.length - outer.vars.length) }

/-! ### primitives -/

structure Lib where
  scan : Bytes → List Token                -- Scan
  f64ToU64 : TokKind → Bytes → Nat         -- uint64(lit.Float64()) for a literal of this kind and value

def decDigitsVal (s : Bytes) : Nat := s.foldl (fun acc c => acc * 10 + (c.toNat - 48)) 0

/-- `strconv.ParseUint(s, base, bits)` for base 10 / 16: (value, error?) -/
def parseUint (base bits : Nat) (s : Bytes) : Option (Nat × Bool) :=
  if base == 16 then
    some (if s.isEmpty || !s.all isHexDigit then (0, true)
      else if hexToNat s < 2 ^ bits then (hexToNat s, false) else (2 ^ bits - 1, true))
  else if base == 10 then
    some (if s.isEmpty || !s.all isDigit then (0, true)
      else if decDigitsVal s < 2 ^ bits then (decDigitsVal s, false) else (2 ^ bits - 1, true))
  else none

def isAsciiSet (cs : Bytes) : Bool := cs.all (·.toNat < 128)

def prims (lib : Lib) : Env := fun name =>
  if name == "isDigit" then some fun args h =>
    match args with | [.int r] => .ok ([.bool (Dispatch.inRangesNat Facts.isDigitRanges r)], h) | _ => stuck
  else if name == "isHexDigit" then some fun args h =>
    match args with | [.int r] => .ok ([.bool (Dispatch.inRangesNat Facts.isHexDigitRanges r)], h) | _ => stuck
  else if name == "utf8.DecodeRuneInString" then some fun args h =>
    match args with | [.str s] => .ok ([.int (decodeRune s).1, .int (decodeRune s).2], h) | _ => stuck
  else if name == "strconv.ParseUint" then some fun args h =>
    match args with
    | [.str s, .int base, .int bits] =>
      match parseUint base bits s with
      | some r => .ok ([.int r.1, .err r.2], h)
      | none => stuck
    | _ => stuck
  else if name == "strconv.FormatUint" then some fun args h =>
    match args with | [.int n, .int 10] => .ok ([.str (natToDec n)], h) | _ => stuck
  else if name == "strings.TrimLeft" then some fun args h =>
    match args with
    | [.str s, .str cut] => if isAsciiSet cut then .ok ([.str (s.dropWhile (cut.contains ·))], h) else stuck
    | _ => stuck
  else if name == "strings.ContainsAny" then some fun args h =>
    match args with
    | [.str s, .str cs] => if isAsciiSet cs then .ok ([.bool (s.any (cs.contains ·))], h) else stuck
    | _ => stuck
  else if name == "errorToken" then some fun args h =>
    match args with | .span a b :: .str _ :: _ => .ok ([.tok .error a b []], h) | _ => stuck
  else if name == "Scan" then some fun args h =>
    match args with | [.str s] => .ok ([.toks (lib.scan s)], h) | _ => stuck
  else if name == "append" then some fun args h =>
    match args with | [.strs l, .str x] => .ok ([.strs (l ++ [x])], h) | _ => stuck
  else if name == "uint64" then some fun args h =>
    match args with
    | [.int n] => .ok ([.int n], h)
    | [.f64 k v] => .ok ([.int (lib.f64ToU64 k v)], h)
    | _ => stuck
  else if name == "BasicLit.Float64" then some fun args h =>
    match args with
    | [.lit (some kv)] => .ok ([.f64 kv.1 kv.2], h)
    | [.lit none] => goPanic
    | _ => stuck
  else none

/-! ### expressions -/

def fldOf (h : Heap) : Val → String → M Val
  | .scanner, f =>
    if f == "pos" then .ok (.int h.pos) else if f == "last" then .ok (.int h.last)
    else if f == "s" then .ok (.str h.src) else stuck
  | .tok k a b v, f =>
    if f == "Kind" then .ok (.kind k) else if f == "Span" then .ok (.span a b)
    else if f == "Value" then .ok (.str v) else stuck
  | .span a b, f => if f == "Start" then .ok (.int a) else if f == "End" then .ok (.int b) else stuck
  | .lit none, _ => goPanic
  | .lit (some kv), f => if f == "Kind" then .ok (.kind kv.1) else if f == "Value" then .ok (.str kv.2) else stuck
  | _, _ => stuck

def valEq : Val → Val → M Bool
  | .int a, .int b => .ok (decide (a = b))
  | .bool a, .bool b => .ok (decide (a = b))
  | .str a, .str b => .ok (decide (a = b))
  | .kind a, .kind b => .ok (decide (a = b))
  | .err e, .nil => .ok (!e)
  | .nil, .err e => .ok (!e)
  | _, _ => stuck

/-- the strict binary operators (`&&`, `||` are in `eval`) -/
def binVal : BinOp → Val → Val → M Val
  | .eq, a, b => (valEq a b).map .bool
  | .ne, a, b => (valEq a b).map fun r => .bool (!r)
  | .lt, .int a, .int b => .ok (.bool (decide (a < b)))
  | .le, .int a, .int b => .ok (.bool (decide (a ≤ b)))
  | .gt, .int a, .int b => .ok (.bool (decide (a > b)))
  | .ge, .int a, .int b => .ok (.bool (decide (a ≥ b)))
  | .add, .int a, .int b => .ok (.int (a + b))
  | .add, .str a, .str b => .ok (.str (a ++ b))
  | .sub, .int a, .int b => if b ≤ a then .ok (.int (a - b)) else stuck
  | .mod, .int a, .int b => if b = 0 then goPanic else .ok (.int (a % b))
  | _, _, _ => stuck

def lenVal : Val → M Val
  | .str b => .ok (.int b.length)
  | .strs l => .ok (.int l.length)
  | .toks l => .ok (.int l.length)
  | _ => stuck

/-- `s[lo:hi]` on a string -/
def sliceVal (s : Bytes) (lo hi : Nat) : M Val :=
  if lo ≤ hi ∧ hi ≤ s.length then .ok (.str ((s.drop lo).take (hi - lo))) else goPanic

def boundOf (dflt : Nat) : Val → M Nat
  | .int n => .ok n
  | .nil => .ok dflt           -- an omitted bound (`Expr.none` evaluates to `.nil`)
  | _ => stuck

/-- exactly one result -/
def single : List Val × Heap → M (Val × Heap)
  | ([v], h) => .ok (v, h)
  | _ => stuck

mutual
def eval (env : Env) (vars : List (String × Val)) : Expr → Heap → M (Val × Heap)
  | .var v, h => (getVar vars v).map (·, h)
  | .int n, h => .ok (.int n, h)
  | .str s, h => .ok (.str (Bytes.ofString s), h)
  | .tt, h => .ok (.bool true, h)
  | .ff, h => .ok (.bool false, h)
  | .nil, h => .ok (.nil, h)
  | .none, h => .ok (.nil, h)
  | .kind k, h =>
    match TokKind.ofGoName k with
    | some kd => .ok (.kind kd, h)
    | none => stuck
  | .fld e f, h => do
    let (x, h1) ← eval env vars e h
    let y ← fldOf h1 x f
    pure (y, h1)
  | .not e, h => do
    match ← eval env vars e h with
    | (.bool b, h1) => pure (.bool (!b), h1)
    | _ => stuck
  | .bin op a b, h => do
    let (x, h1) ← eval env vars a h
    match op, x with
    | .and, .bool false => pure (.bool false, h1)
    | .or, .bool true => pure (.bool true, h1)
    | .and, .bool true =>
      match ← eval env vars b h1 with
      | (.bool y, h2) => pure (.bool y, h2)
      | _ => stuck
    | .or, .bool false =>
      match ← eval env vars b h1 with
      | (.bool y, h2) => pure (.bool y, h2)
      | _ => stuck
    | .and, _ => stuck
    | .or, _ => stuck
    | _, _ =>
      let (y, h2) ← eval env vars b h1
      let z ← binVal op x y
      pure (z, h2)
  | .len e, h => do
    let (x, h1) ← eval env vars e h
    let y ← lenVal x
    pure (y, h1)
  | .index a i, h => do
    let (x, h1) ← eval env vars a h
    let (y, h2) ← eval env vars i h1
    match x, y with
    | .str s, .int k =>
      match s[k]? with
      | some c => pure (.int c.toNat, h2)
      | none => goPanic
    | _, _ => stuck
  | .slice a lo hi, h => do
    let (x, h1) ← eval env vars a h
    let (l, h2) ← eval env vars lo h1
    let (u, h3) ← eval env vars hi h2
    match x with
    | .str s =>
      let lo ← boundOf 0 l
      let hi ← boundOf s.length u
      let r ← sliceVal s lo hi
      pure (r, h3)
    | _ => stuck
  | .mkToken k sp v, h => do
    let (x, h1) ← eval env vars k h
    let (y, h2) ← eval env vars sp h1
    let (z, h3) ← eval env vars v h2
    match x, y, z with
    | .kind kd, .span a b, .str s => pure (.tok kd a b s, h3)
    | _, _, _ => stuck
  | .mkSpan a b, h => do
    let (x, h1) ← eval env vars a h
    let (y, h2) ← eval env vars b h1
    match x, y with
    | .int m, .int n => pure (.span m n, h2)
    | _, _ => stuck
  | .call f args, h => do
    let (xs, h1) ← evalArgs env vars args h
    match env f with
    | some fn => fn xs h1 >>= single
    | none => stuck

def evalArgs (env : Env) (vars : List (String × Val)) : List Expr → Heap → M (List Val × Heap)
  | [], h => .ok ([], h)
  | e :: es, h => do
    let (x, h1) ← eval env vars e h
    let (xs, h2) ← evalArgs env vars es h1
    pure (x :: xs, h2)
end

/-- a call with any number of results (`a, b := f(…)`) -/
def evalCall (env : Env) (vars : List (String × Val)) : Expr → Heap → M (List Val × Heap)
  | .call f args, h => do
    let (xs, h1) ← evalArgs env vars args h
    match env f with
    | some fn => fn xs h1
    | none => stuck
  | _, _ => stuck

/-! ### statements -/

/-- the runes of a string, as `for _, c := range s` delivers them (RuneError for invalid bytes) -/
def runes (s : Bytes) : List Nat :=
  match s with
  | [] => []
  | c :: rest => (decodeRune (c :: rest)).1 :: runes ((c :: rest).drop (decodeRune (c :: rest)).2)
termination_by s.length
decreasing_by
  have := decodeRune_width_pos c rest
  simp only [List.length_drop, List.length_cons]
  omega

def zeroVal (ty : String) : Option Val :=
  if ty == "int" then some (.int 0) else if ty == "bool" then some (.bool false)
  else if ty == "string" then some (.str []) else if ty == "[]string" then some (.strs [])
  else none

def rangeLoop (elem : String) (body : State → M (Flow × State)) : List Val → State → M (Flow × State)
  | [], st => .ok (.next, st)
  | x :: xs, st => do
    let (f, st1) ← body (st.declare elem x)
    match f with
    | .ret vs => pure (.ret vs, st1.leave st)
    | .brk => pure (.next, st1.leave st)
    | .next => rangeLoop elem body xs (st1.leave st)

def foreverLoop (body : State → M (Flow × State)) : Nat → State → M (Flow × State)
  | 0, _ => .error .fuel
  | n + 1, st => do
    let (f, st1) ← body st
    match f with
    | .ret vs => pure (.ret vs, st1.leave st)
    | .brk => pure (.next, st1.leave st)
    | .next => foreverLoop body n (st1.leave st)

def rangeItems : Val → M (List Val)
  | .str s => .ok ((runes s).map .int)
  | .toks l => .ok (l.map fun t => .tok t.kind t.start t.stop t.value)
  | .strs l => .ok (l.map .str)
  | _ => stuck

mutual
def exec (env : Env) (fuel : Nat) : Stmt → State → M (Flow × State)
  | .def_ v e, st => do
    let (x, h) ← eval env st.vars e st.heap
    pure (.next, { st with heap := h }.declare v x)
  | .def2 a b e, st => do
    match ← evalCall env st.vars e st.heap with
    | ([x, y], h) => pure (.next, ({ st with heap := h }.declare a x).declare b y)
    | _ => stuck
  | .set v e, st => do
    let (x, h) ← eval env st.vars e st.heap
    let st1 ← { st with heap := h }.assign v x
    pure (.next, st1)
  | .set2 a b e, st => do
    match ← evalCall env st.vars e st.heap with
    | ([x, y], h) => do
      let st1 ← { st with heap := h }.assign a x
      let st2 ← st1.assign b y
      pure (.next, st2)
    | _ => stuck
  | .setFld r f e, st => do
    let (x, h) ← eval env st.vars e st.heap
    match ← getVar st.vars r, x with
    | .scanner, .int n =>
      if f == "pos" then pure (.next, { st with heap := { h with pos := n } })
      else if f == "last" then pure (.next, { st with heap := { h with last := n } })
      else stuck
    | _, _ => stuck
  | .var_ v ty, st =>
    match zeroVal ty with
    | some z => .ok (.next, st.declare v z)
    | none => stuck
  | .do_ e, st => do
    let (_, h) ← evalCall env st.vars e st.heap
    pure (.next, { st with heap := h })
  | .ite c t e, st => do
    match ← eval env st.vars c st.heap with
    | (.bool b, h) =>
      let (f, st1) ← if b then execBlock env fuel t { st with heap := h } else execBlock env fuel e { st with heap := h }
      pure (f, st1.leave st)
    | _ => stuck
  | .forever body, st => foreverLoop (execBlock env fuel body) fuel st
  | .range v e body, st => do
    let (x, h) ← eval env st.vars e st.heap
    let items ← rangeItems x
    rangeLoop v (execBlock env fuel body) items { st with heap := h }
  | .break_, st => .ok (.brk, st)
  | .defer_ body, st => .ok (.next, { st with defers := body :: st.defers })
  | .ret es, st => do
    let (xs, h) ← evalArgs env st.vars es st.heap
    pure (.ret xs, { st with heap := h })

def execBlock (env : Env) (fuel : Nat) : List Stmt → State → M (Flow × State)
  | [], st => .ok (.next, st)
  | s :: r, st => do
    let (f, st1) ← exec env fuel s st
    match f with
    | .next => execBlock env fuel r st1
    | _ => pure (f, st1)
end

/-! ### functions -/

def bindArgs : List String → List Val → Option (List (String × Val))
  | [], [] => some []
  | n :: ns, v :: vs => (bindArgs ns vs).map ((n, v) :: ·)
  | _, _ => none

def zeroResults : List (String × String) → Option (List (String × Val))
  | [] => some []
  | (n, ty) :: r =>
    match zeroVal ty, zeroResults r with
    | some z, some zs => some ((n, z) :: zs)
    | _, _ => none

/-- `return xs` into named results -/
def storeResults : List String → List Val → State → M State
  | [], [], st => .ok st
  | n :: ns, v :: vs, st => do
    let st1 ← st.assign n v
    storeResults ns vs st1
  | _, _, _ => stuck

/-- run the deferred closures, last registered first -/
def runDefers (env : Env) (fuel : Nat) : List (List Stmt) → State → M State
  | [], st => .ok st
  | d :: ds, st => do
    match ← execBlock env fuel d st with
    | (.next, st1) => runDefers env fuel ds (st1.leave st)
    | _ => stuck

def readResults (vars : List (String × Val)) : List String → M (List Val)
  | [] => .ok []
  | n :: ns => do
    let v ← getVar vars n
    let vs ← readResults vars ns
    pure (v :: vs)

def paramNames (d : FnDecl) : List String :=
  (if d.recv.1 == "" then [] else [d.recv.1]) ++ d.params.map (·.1)

def isNamed (d : FnDecl) : Bool := !d.results.isEmpty && d.results.all (·.1 != "")

/-- a call of a translated function: bind the receiver and the parameters, run the body; a `return`
    first stores into the named results (if the results are named), then the deferred closures run,
    then the results are read -/
def interpFn (env : Env) (fuel : Nat) (d : FnDecl) : Fn := fun args heap =>
  match bindArgs (paramNames d) args with
  | none => stuck
  | some ps =>
    if isNamed d then
      match zeroResults d.results with
      | none => stuck
      | some zs => do
        let st0 : State := ⟨zs.reverse ++ ps.reverse, heap, []⟩
        let (f, st1) ← execBlock env fuel d.body st0
        match f with
        | .ret vs => do
          let st2 ← if vs.isEmpty then pure st1 else storeResults (d.results.map (·.1)) vs st1
          let st3 ← runDefers env fuel st2.defers st2
          let out ← readResults st3.vars (d.results.map (·.1))
          pure (out, st3.heap)
        | _ => stuck
    else do
      let st0 : State := ⟨ps.reverse, heap, []⟩
      let (f, st1) ← execBlock env fuel d.body st0
      match f with
      | .ret vs =>
        if vs.length = d.results.length then do
          let st3 ← runDefers env fuel st1.defers st1
          pure (vs, st3.heap)
        else stuck
      | .next =>
        if d.results.isEmpty then do
          let st3 ← runDefers env fuel st1.defers st1
          pure ([], st3.heap)
        else stuck
      | .brk => stuck

/-- the meaning of the function `key` of a regenerated table in an environment -/
def fnOf (tbl : List (String × List (List String))) (env : Env) (fuel : Nat) (key : String) : Fn :=
  match decodeFn (irOf tbl key) with
  | some d => interpFn env fuel d
  | none => fun _ _ => stuck

def extend (env : Env) (name : String) (f : Fn) : Env := fun n => if n == name then some f else env n

/-- add the functions `keys` of a table, each seeing the environment built so far (so a function can
    call the ones listed before it, and the primitives) -/
def layer (tbl : List (String × List (List String))) (fuel : Nat) : List String → Env → Env
  | [], env => env
  | k :: ks, env => layer tbl fuel ks (extend env k (fnOf tbl env fuel k))

end Pql.LexIR
