/-
Values, state and pure operations of the interpreter for the IR of the expression parser
(the interpreter proper and the documentation are in Model/ExprParseIR.lean).
-/
import PqlModel.Model.ExprParseIRSyntax
namespace Pql.ExprParseIR
open Pql

/-! ### outcomes -/

inductive Out (α : Type)
  | ok (a : α)
  | panic           -- what Go does: nil dereference, index out of range, panic(…)
  | stuck           -- the IR is not understood
  | fuel            -- the recursion budget ran out
  deriving Repr

namespace Out
def bind {α β : Type} (x : Out α) (f : α → Out β) : Out β :=
  match x with
  | .ok a => f a
  | .panic => .panic
  | .stuck => .stuck
  | .fuel => .fuel
instance : Monad Out where
  pure := .ok
  bind := Out.bind
def ofOption {α : Type} : Option α → Out α
  | some a => .ok a
  | none => .stuck
end Out

/-! ### values -/

/-- the abstract reading of a `*parser` -/
structure PState where
  rest : List Token                       -- the tokens from `pos` on
  back : Option (List Token) := none      -- where `prev()` goes back to
  splitKind : Option TokKind := none      -- `none`: the zero value (not a sub-parser)

inductive Val
  | nil                                   -- the untyped `nil`
  | tok (t : Token)
  | bool (b : Bool)
  | int (i : Int)
  | kind (k : TokKind)
  | span (s : Span)
  | bytes (b : Bytes)                     -- a string
  | opaqueStr                             -- a string whose contents are not modelled (message parts)
  | expr (e : Expr)                       -- an `Expr` interface value or a pointer to a node; `.nil` = nil
  | exprs (l : ExprList)                  -- []Expr
  | ident (i : Option Ident)              -- *Ident
  | idents (l : List Ident)               -- []*Ident without nil elements
  | qid (q : Option (List Ident))         -- *QualifiedIdent
  | err (e : Errs)                        -- error; `[]` = nil
  | pos (l : List Token)                  -- a position of an abstract parser: the tokens from there on
  | kinds (l : List TokKind)              -- []TokenKind
  | toks (l : List Token)                 -- []Token
  | ptoks                                 -- `p.tokens` of an abstract parser
  | src                                   -- `p.source`
  | parser (p : PState)
  | cparser (toks : List Token) (pos : Nat)

/-- interpreter context: the length of the source and the `Value` of the synthetic EOF token (the Go
    code says "EOF"; the theorems hold for every value: no production reads it) -/
structure ICtx where
  srcLen : Nat
  eofValue : Bytes

def ICtx.pctx (c : ICtx) : PCtx := ⟨c.srcLen⟩

/-- `(*parser).next` on the abstract reading -/
def nextTokV (c : ICtx) : List Token → Token × Bool × List Token
  | [] => (⟨.error, c.srcLen, c.srcLen, c.eofValue⟩, false, [])
  | t :: ts => (t, true, ts)

/-! ### state -/

structure State where
  vars : List (String × Val)              -- innermost first

def State.get (st : State) (v : String) : Out Val :=
  match st.vars.find? (·.1 == v) with
  | some kv => .ok kv.2
  | none => .stuck

def State.declare (st : State) (v : String) (x : Val) : State := ⟨(v, x) :: st.vars⟩

/-- storing the untyped `nil` keeps the type of the variable -/
def coerceLike (old new : Val) : Val :=
  match new, old with
  | .nil, .err _ => .err []
  | .nil, .expr _ => .expr .nil
  | .nil, .exprs _ => .exprs .nil
  | .nil, .ident _ => .ident none
  | .nil, .qid _ => .qid none
  | v, _ => v

def assignIn (v : String) (x : Val) : List (String × Val) → Option (List (String × Val))
  | [] => none
  | kv :: r => if kv.1 == v then some ((v, coerceLike kv.2 x) :: r) else (assignIn v x r).map (kv :: ·)

def State.set (st : State) (v : String) (x : Val) : Out State :=
  match assignIn v x st.vars with
  | some vars => .ok ⟨vars⟩
  | none => .stuck

/-- leaving a scope: what it declared is dropped, assignments to outer variables stay -/
def State.leave (st outer : State) : State := ⟨st.vars.drop (st.vars.length - outer.vars.length)⟩

/-! ### conversions -/

def isNilExpr : Expr → Bool
  | .nil => true
  | _ => false

def asErr : Val → Option Errs
  | .err e => some e
  | .nil => some []
  | _ => none

/-- a value stored where an `Expr` is expected.  A nil `*QualifiedIdent` converted to the interface is a
    non-nil interface holding a nil pointer in Go; the model writes `Expr.nil` for it (the case is
    unreachable: `qualifiedIdent` is only called on an identifier token). -/
def asExpr : Val → Option Expr
  | .expr e => some e
  | .nil => some .nil
  | .qid (some parts) => some (.qident parts)
  | .qid none => some .nil
  | _ => none

def asExprs : Val → Option ExprList
  | .exprs l => some l
  | .nil => some .nil
  | _ => none

def coerceIdent : Val → Option Val
  | .nil => some (.ident none)
  | .ident i => some (.ident i)
  | _ => none
def coerceQid : Val → Option Val
  | .nil => some (.qid none)
  | .qid q => some (.qid q)
  | _ => none
def coerceParser : Val → Option Val
  | .parser p => some (.parser p)
  | _ => none
def coerceTok : Val → Option Val
  | .tok t => some (.tok t)
  | _ => none
def coerceBool : Val → Option Val
  | .bool b => some (.bool b)
  | _ => none

def coerceResult (ty : String) (v : Val) : Option Val :=
  if ty == "Expr" then (asExpr v).map .expr
  else if ty == "error" then (asErr v).map .err
  else if ty == "[]Expr" then (asExprs v).map .exprs
  else if ty == "*Ident" then coerceIdent v
  else if ty == "*QualifiedIdent" then coerceQid v
  else if ty == "*parser" then coerceParser v
  else if ty == "Token" then coerceTok v
  else if ty == "bool" then coerceBool v
  else none

def coerceResults : List String → List Val → Option (List Val)
  | [], [] => some []
  | ty :: tys, v :: vs => (coerceResult ty v).bind fun x => (coerceResults tys vs).map (x :: ·)
  | _, _ => none

def kindValue (k : TokKind) : Option Int := (Facts.tokenKinds.find? (·.1 == k.goName)).map (·.2)

/-! ### pure operations -/

def cmpEq : Val → Val → Option Bool
  | .nil, .nil => some true
  | .err e, .nil => some e.isEmpty
  | .expr e, .nil => some (isNilExpr e)
  | .kind a, .kind b => some (a == b)
  | .kind a, .int i => (kindValue a).map (· == i)
  | .int a, .int b => some (a == b)
  | .bool a, .bool b => some (a == b)
  | _, _ => none

/-- `a < b`: integers; positions of one abstract parser (the later position has the shorter rest) -/
def cmpLt : Val → Val → Option Bool
  | .int a, .int b => some (decide (a < b))
  | .pos a, .pos b => some (decide (b.length < a.length))
  | _, _ => none

def evalCmp (op : String) (a b : Val) : Option Bool :=
  if op == "eq" then cmpEq a b
  else if op == "ne" then (cmpEq a b).map (!·)
  else if op == "lt" then cmpLt a b
  else if op == "gt" then cmpLt b a
  else if op == "le" then (cmpLt b a).map (!·)
  else if op == "ge" then (cmpLt a b).map (!·)
  else none

/-- the field `splitKind`: a kind, or the zero value -/
def splitKindVal : Option TokKind → Val
  | some k => .kind k
  | none => .int 0

def readField (v : Val) (f : String) : Out Val :=
  match v with
  | .tok t =>
    if f == "Kind" then .ok (.kind t.kind) else if f == "Span" then .ok (.span t.span)
    else if f == "Value" then .ok (.bytes t.value) else .stuck
  | .parser p =>
    if f == "pos" then .ok (.pos p.rest) else if f == "tokens" then .ok .ptoks
    else if f == "source" then .ok .src
    else if f == "splitKind" then .ok (splitKindVal p.splitKind)
    else .stuck
  | .cparser toks pos =>
    if f == "pos" then .ok (.int pos) else if f == "tokens" then .ok (.toks toks)
    else if f == "source" then .ok .src else .stuck
  | .qid (some parts) => if f == "Parts" then .ok (.idents parts) else .stuck
  | .qid none => if f == "Parts" then .panic else .stuck
  | _ => .stuck

def evalLen (c : ICtx) : Val → Option Val
  | .toks l => some (.int l.length)
  | .kinds l => some (.int l.length)
  | .idents l => some (.int l.length)
  | .ptoks => some (.pos [])
  | .src => some (.int c.srcLen)
  | _ => none

def evalIndex : Val → Val → Out Val
  | .toks l, .int i => if i < 0 then .panic else match l[i.toNat]? with | some t => .ok (.tok t) | none => .panic
  | .kinds l, .int i => if i < 0 then .panic else match l[i.toNat]? with | some k => .ok (.kind k) | none => .panic
  | .ptoks, .pos l => match l with | t :: _ => .ok (.tok t) | [] => .panic
  | _, _ => .stuck

/-- `a[lo:hi]`; a missing bound is `Val.nil` -/
def evalSlice : Val → Val → Val → Out Val
  | .kinds l, .nil, .int j => if j < 0 ∨ (l.length : Int) < j then .panic else .ok (.kinds (l.take j.toNat))
  | .ptoks, .pos a, .nil => .ok (.toks a)
  | .ptoks, .pos a, .pos b => if a.length < b.length then .panic else .ok (.toks (a.take (a.length - b.length)))
  | _, _, _ => .stuck

def evalAppend : Val → Val → Option Val
  | .kinds l, .kind k => some (.kinds (l ++ [k]))
  | .exprs l, .expr x => some (.exprs (l.snoc x))
  | .idents l, .ident (some i) => some (.idents (l ++ [i]))
  | _, _ => none

def allErrs : List Val → Option Errs
  | [] => some []
  | v :: vs => (asErr v).bind fun e => (allErrs vs).map (e ++ ·)

/-- `endSplit` of an abstract parser, as an expression -/
def endSplitP (p : PState) : Errs :=
  match p.splitKind with
  | none => errNoPos
  | some _ => endSplit p.rest

def callPrecedence : List Val → Option Val
  | [.kind k] => some (.int (precOf k))
  | _ => none
def callNullSpan : List Val → Option Val
  | [] => some (.span .null)
  | _ => none
def callIndexSpan : List Val → Option Val
  | [.int i] => some (.span ⟨i, i⟩)
  | _ => none
def callOpaque : List Val → Option Val
  | [v] => (asErr v).map fun e => .err (mkOpaque e)
  | _ => none
def callIsNF : List Val → Option Val
  | [v] => (asErr v).map fun e => .bool (isNF e)
  | _ => none

def evalCall (f : String) (args : List Val) : Option Val :=
  if f == "operatorPrecedence" then callPrecedence args
  else if f == "nullSpan" then callNullSpan args
  else if f == "indexSpan" then callIndexSpan args
  else if f == "makeErrorOpaque" then callOpaque args
  else if f == "joinErrors" then (allErrs args).map .err
  else if f == "isNotFound" then callIsNF args
  else none

def mAsQualified : Val → Option Val
  | .ident (some i) => some (.qid (some [i]))
  | .ident none => some (.qid none)
  | _ => none
def mEndSplit : Val → Option Val
  | .parser p => some (.err (endSplitP p))
  | _ => none
def mString : Val → Option Val
  | .kind _ => some .opaqueStr
  | .int _ => some .opaqueStr
  | _ => none

def evalMcall (m : String) (recv : Val) : Option Val :=
  if m == "AsQualified" then mAsQualified recv
  else if m == "endSplit" then mEndSplit recv
  else if m == "String" then mString recv
  else none

def fieldOf (fs : List (String × Val)) (k : String) : Option Val := (fs.find? (·.1 == k)).map (·.2)

/-- a span field: missing = Go's zero value -/
def spanField (fs : List (String × Val)) (k : String) : Option Span :=
  match fieldOf fs k with
  | some (.span s) => some s
  | none => some Span.zero
  | _ => none

def exprField (fs : List (String × Val)) (k : String) : Option Expr :=
  match fieldOf fs k with
  | some v => asExpr v
  | none => some .nil

def exprsField (fs : List (String × Val)) (k : String) : Option ExprList :=
  match fieldOf fs k with
  | some v => asExprs v
  | none => some .nil

def kindField (fs : List (String × Val)) (k : String) : Option TokKind :=
  match fieldOf fs k with
  | some (.kind x) => some x
  | _ => none

def bytesField (fs : List (String × Val)) (k : String) : Option Bytes :=
  match fieldOf fs k with
  | some (.bytes b) => some b
  | none => some []
  | _ => none

def boolField (fs : List (String × Val)) (k : String) : Option Bool :=
  match fieldOf fs k with
  | some (.bool b) => some b
  | none => some false
  | _ => none

/-- a non-nil `*Ident` -/
def identField (fs : List (String × Val)) (k : String) : Option Ident :=
  match fieldOf fs k with
  | some (.ident (some i)) => some i
  | _ => none

def srcField (fs : List (String × Val)) (k : String) : Option Unit :=
  match fieldOf fs k with
  | some .src => some ()
  | _ => none

def toksField (fs : List (String × Val)) (k : String) : Option (List Token) :=
  match fieldOf fs k with
  | some (.toks l) => some l
  | _ => none

def onlyFields (fs : List (String × Val)) (allowed : List String) : Bool := fs.all fun kv => allowed.contains kv.1

/-- `&T{…}` / `T{…}`: missing fields take Go's zero value where the model can express it -/
def mkNode (ty : String) (fs : List (String × Val)) : Option Val :=
  if ty == "BinaryExpr" then
    if onlyFields fs ["X", "OpSpan", "Op", "Y"] then do
      let x ← exprField fs "X"; let os ← spanField fs "OpSpan"; let op ← kindField fs "Op"; let y ← exprField fs "Y"
      some (.expr (.binary x os op y))
    else none
  else if ty == "InExpr" then
    if onlyFields fs ["X", "In", "Lparen", "Vals", "Rparen"] then do
      let x ← exprField fs "X"; let i ← spanField fs "In"; let lp ← spanField fs "Lparen"
      let vals ← exprsField fs "Vals"; let rp ← spanField fs "Rparen"
      some (.expr (.inE x i lp vals rp))
    else none
  else if ty == "UnaryExpr" then
    if onlyFields fs ["OpSpan", "Op", "X"] then do
      let os ← spanField fs "OpSpan"; let op ← kindField fs "Op"; let x ← exprField fs "X"
      some (.expr (.unary os op x))
    else none
  else if ty == "IndexExpr" then
    if onlyFields fs ["X", "Lbrack", "Index", "Rbrack"] then do
      let x ← exprField fs "X"; let lb ← spanField fs "Lbrack"; let i ← exprField fs "Index"; let rb ← spanField fs "Rbrack"
      some (.expr (.index x lb i rb))
    else none
  else if ty == "ParenExpr" then
    if onlyFields fs ["Lparen", "X", "Rparen"] then do
      let lp ← spanField fs "Lparen"; let x ← exprField fs "X"; let rp ← spanField fs "Rparen"
      some (.expr (.paren lp x rp))
    else none
  else if ty == "BasicLit" then
    if onlyFields fs ["ValueSpan", "Kind", "Value"] then do
      let s ← spanField fs "ValueSpan"; let k ← kindField fs "Kind"; let v ← bytesField fs "Value"
      some (.expr (.lit s k v))
    else none
  else if ty == "CallExpr" then
    if onlyFields fs ["Func", "Lparen", "Args", "Rparen"] then do
      let lp ← spanField fs "Lparen"; let args ← exprsField fs "Args"; let rp ← spanField fs "Rparen"
      let fn ← identField fs "Func"
      some (.expr (.call fn lp args rp))
    else none
  else if ty == "Ident" then
    if onlyFields fs ["Name", "NameSpan", "Quoted"] then do
      let n ← bytesField fs "Name"; let s ← spanField fs "NameSpan"; let q ← boolField fs "Quoted"
      some (.ident (some ⟨n, s, q⟩))
    else none
  else if ty == "Token" then
    if onlyFields fs ["Kind", "Span", "Value"] then do
      let k ← kindField fs "Kind"; let s ← spanField fs "Span"; let v ← bytesField fs "Value"
      some (.tok ⟨k, s.start.toNat, s.stop.toNat, v⟩)
    else none
  else if ty == "parser" then
    if onlyFields fs ["source", "tokens", "splitKind"] then do
      let _ ← srcField fs "source"; let l ← toksField fs "tokens"; let k ← kindField fs "splitKind"
      some (.parser ⟨l, none, some k⟩)
    else none
  else none

def setIndexField (a : Expr) (lb : Span) (i : Expr) (rb : Span) (f : String) (x : Val) : Option Val :=
  if f == "Index" then (asExpr x).map fun e => .expr (.index a lb e rb)
  else if f == "Rbrack" then (match x with | .span s => some (.expr (.index a lb i s)) | _ => none)
  else none
def setParts : Val → Option Val
  | .idents l => some (.qid (some l))
  | _ => none
def setPos (p : PState) : Val → Option Val
  | .pos l => some (.parser { p with rest := l, back := none })
  | _ => none
def setCPos (toks : List Token) : Val → Option Val
  | .int i => if i < 0 then none else some (.cparser toks i.toNat)
  | _ => none

/-- `v.f = x` -/
def writeField (v : Val) (f : String) (x : Val) : Option Val :=
  match v with
  | .expr (.index a lb i rb) => setIndexField a lb i rb f x
  | .qid (some _) => if f == "Parts" then setParts x else none
  | .parser p => if f == "pos" then setPos p x else none
  | .cparser toks _ => if f == "pos" then setCPos toks x else none
  | _ => none

def zeroOf (ty : String) : Option Val :=
  if ty == "error" then some (.err [])
  else if ty == "[]TokenKind" then some (.kinds [])
  else if ty == "string" then some (.bytes [])
  else none

end Pql.ExprParseIR
