/-
Interpreter for the IR of `func main` of the command-line tool (cmd/pql/main.go): the body of `main`, the function
literal assigned to `rootCommand.RunE` (`main.RunE`) and the one passed to `run` as `logError` (`main.RunE.func1`), which
`harness/extract_climain.go` regenerates from the Go source on every run (`Facts.cliMainIR`, `Facts.cliMainCommand`,
`Facts.cliMainFlags`).  With `Facts.cliIR` (`run`) and `Facts.cliIOIR` (`makeInput`, `makeOutput`, `Read`, `Close`,
`isTerminal`) every statement of cmd/pql/main.go is translated code.

The world is that of Model/CliIOIR.lean (`MState.io`: the heap of reader objects, `mrc.readers`, the log of `Close` calls
that reached an input file, the files created) extended by: what `run` wrote to its output and where that output goes
(`out`, `outDest`), the `Close` calls that reached a created output file (`outClosed`), the number of `pql: …` lines on
standard error (`stderr`), the status of `os.Exit` (`exit`; `none` = `main` returned: status 0), the command's flags with
their current values (`flags`) and its `RunE` (`runE`).

CALLEES are the interpretations of their own translated bodies: `makeInput`, `makeOutput` and `(*multiReadCloser).Close`
through `CliIOIR.runUnit`; `run` through `CliIR.interpRun` on the lines the scanner cuts (`bufioLines`) from what it reads
from `input` (`StreamIR.drainM` over `StreamIR.readInput`: a `*multiReadCloser` is read by the regenerated `Read`, a plain
reader by its script), as in Lemmas/CliStreamIRMain.lean; the `func(error)` passed to `run` is the unit of that function
literal, run once per `logError` call of `run`.  A function literal is run on its own frame on top of the variables it
captured (the translator refuses literals that assign to captured variables).

PRIMITIVES, with the meaning given here:
  * cobra (`execute`): `c.ExecuteContext(ctx)` parses the command line — the parameters `Sys.args` (the positional arguments)
    and `Sys.setFlags` (the flags given, by long name) —; a flag that was not defined makes it return an error without
    calling `RunE`; else the flag values are stored where `Flags().StringP` said, `RunE(cmd, args)` is called and its error
    returned.  cobra prints nothing itself: that needs `SilenceErrors` and `SilenceUsage` (`Facts.cliMainCommand`), without
    them `execute` is `stuck`.
  * `signal.NotifyContext`, `cancel()`, `cmd.Context()`: a context value that nothing looks at.
  * `fmt.Fprintf(os.Stderr, "pql: %v\n", err)`: one more `pql:` line on standard error (any other format / destination: `stuck`).
  * `os.Exit(n)`: the process ends with status `n`; nothing after it runs.
  * `output.Close()`: of `nopWriteCloser{os.Stdout}` nil (its translated body is `return nil`), of a created file an error iff
    `Sys.outCloseFails path`; `input.Close()` as in Model/CliIOIR.lean.
  * `run` writing to a nil `io.Writer` panics at the first write.
Go run-time failures are `IErr.panic`, IR that is not understood `IErr.stuck`, a cut-off `Read` loop `IErr.fuel`.
-/
import PqlModel.Lemmas.CliStreamIRMain
namespace Pql.CliMainIR
open Pql Pql.CliIO Pql.CliIOIR

/-! ### syntax -/

inductive Expr
  | var (v : String)
  | nil
  | deref (v : String)                     -- *v
  | ctxOf (v : String)                     -- v.Context()
  | stdin                                  -- os.Stdin
  deriving DecidableEq, Repr

inductive Cond
  | eq (a b : Expr)
  | ne (a b : Expr)
  deriving DecidableEq, Repr

inductive Target
  | blank
  | def_ (v : String)
  | set (v : String)
  deriving DecidableEq, Repr

inductive Stmt
  | command (v : String)                                   -- v := &cobra.Command{…}
  | flag (v c method name short dflt : String)             -- v := c.Flags().method(name, short, dflt, usage)
  | setRunE (c unit : String)                              -- c.RunE = func…
  | notifyCtx (ctx cancel : String)                        -- ctx, cancel := signal.NotifyContext(…)
  | execute (t : Target) (c ctx : String)                  -- t := c.ExecuteContext(ctx)
  | callCancel (v : String)                                -- v()
  | callFn (f : String) (t1 t2 : Target) (arg : Expr)      -- t1, t2 := f(arg)
  | callRun (logger : String) (t : Target) (ctx out inp : Expr)   -- t = run(ctx, out, inp, func…)
  | close (t : Target) (e : Expr)                          -- t = e.Close()
  | assign (t : Target) (e : Expr)
  | ite (c : Cond) (t e : List Stmt)
  | scope (body : List Stmt)
  | ret (es : List Expr)                                   -- [] = the named results
  | fprintf (dst fmt : String) (e : Expr)                  -- fmt.Fprintf(os.Stderr, fmt, e)
  | exit (n : Nat)                                         -- os.Exit(n)
  deriving Repr

/-! ### decoding the flat form -/

def decodeExpr : List String → Option (Expr × List String)
  | [] => none
  | k :: r =>
    if k == "var" then match r with | v :: r => some (.var v, r) | _ => none
    else if k == "nil" then some (.nil, r)
    else if k == "deref" then match r with | v :: r => some (.deref v, r) | _ => none
    else if k == "ctxof" then match r with | v :: r => some (.ctxOf v, r) | _ => none
    else if k == "stdin" then some (.stdin, r)
    else none

def decodeExprAll (ts : List String) : Option Expr :=
  match decodeExpr ts with
  | some (e, []) => some e
  | _ => none

def decodeExprs : Nat → List String → Option (List Expr)
  | 0, _ => none
  | _ + 1, [] => some []
  | fuel + 1, ts =>
    match decodeExpr ts with
    | some (e, r) => (decodeExprs fuel r).map (e :: ·)
    | none => none

def decodeCond : List String → Option Cond
  | [] => none
  | k :: r =>
    if k == "eq" || k == "ne" then
      match decodeExpr r with
      | some (a, r1) =>
        match decodeExpr r1 with
        | some (b, []) => some (if k == "eq" then .eq a b else .ne a b)
        | _ => none
      | none => none
    else none

def decodeTarget : List String → Option (Target × List String)
  | [] => none
  | k :: r =>
    if k == "blank" then some (.blank, r)
    else if k == "def" then match r with | v :: r => some (.def_ v, r) | _ => none
    else if k == "set" then match r with | v :: r => some (.set v, r) | _ => none
    else none

/-- an item that is a statement by itself -/
def decodeSimple (k : String) (a : List String) : Option Stmt :=
  if k == "command" then match a with | [v] => some (.command v) | _ => none
  else if k == "flag" then match a with | [v, c, m, n, s, d] => some (.flag v c m n s d) | _ => none
  else if k == "setrune" then match a with | [c, u] => some (.setRunE c u) | _ => none
  else if k == "notifycontext" then match a with | [x, y] => some (.notifyCtx x y) | _ => none
  else if k == "execute" then
    match decodeTarget a with
    | some (t, [c, x]) => some (.execute t c x)
    | _ => none
  else if k == "callcancel" then match a with | [v] => some (.callCancel v) | _ => none
  else if k == "callfn" then
    match a with
    | f :: r =>
      match decodeTarget r with
      | some (t1, r1) =>
        match decodeTarget r1 with
        | some (t2, r2) => (decodeExprAll r2).map (.callFn f t1 t2 ·)
        | none => none
      | none => none
    | _ => none
  else if k == "callrun" then
    match a with
    | u :: r =>
      match decodeTarget r with
      | some (t, r1) =>
        match decodeExpr r1 with
        | some (c, r2) =>
          match decodeExpr r2 with
          | some (o, r3) => (decodeExprAll r3).map (.callRun u t c o ·)
          | none => none
        | none => none
      | none => none
    | _ => none
  else if k == "close" then
    match decodeTarget a with
    | some (t, r) => (decodeExprAll r).map (.close t ·)
    | none => none
  else if k == "assign" then
    match decodeTarget a with
    | some (t, r) => (decodeExprAll r).map (.assign t ·)
    | none => none
  else if k == "return" then
    match a with
    | n :: r =>
      match decodeNat n, decodeExprs (r.length + 1) r with
      | some n, some es => if es.length = n then some (.ret es) else none
      | _, _ => none
    | _ => none
  else if k == "fprintf" then
    match a with
    | d :: f :: r => (decodeExprAll r).map (.fprintf d f ·)
    | _ => none
  else if k == "exit" then match a with | [n] => (decodeNat n).map .exit | _ => none
  else none

/-- statements up to the end of the input or the next `["end"]` / `["else"]` (which is left in place) -/
def decodeBlock : Nat → List (List String) → Option (List Stmt × List (List String))
  | 0, _ => none
  | _ + 1, [] => some ([], [])
  | fuel + 1, it :: rest =>
    match it with
    | [] => none
    | k :: a =>
      if k == "end" || k == "else" then some ([], it :: rest)
      else if k == "scope" then
        match a with
        | [] =>
          match decodeBlock fuel rest with
          | some (body, ["end"] :: rest2) =>
            match decodeBlock fuel rest2 with
            | some (more, rest3) => some (.scope body :: more, rest3)
            | none => none
          | _ => none
        | _ => none
      else if k == "if" then
        match decodeCond a with
        | some c =>
          match decodeBlock fuel rest with
          | some (t, ["end"] :: rest2) =>
            match decodeBlock fuel rest2 with
            | some (more, rest3) => some (.ite c t [] :: more, rest3)
            | none => none
          | some (t, ["else"] :: rest2) =>
            match decodeBlock fuel rest2 with
            | some (e, ["end"] :: rest3) =>
              match decodeBlock fuel rest3 with
              | some (more, rest4) => some (.ite c t e :: more, rest4)
              | none => none
            | _ => none
          | _ => none
        | none => none
      else
        match decodeSimple k a with
        | some s =>
          match decodeBlock fuel rest with
          | some (more, rest2) => some (s :: more, rest2)
          | none => none
        | none => none

def decodeBody (items : List (List String)) : Option (List Stmt) :=
  match decodeBlock (items.length + 1) items with
  | some (b, []) => some b
  | _ => none

/-- a translated function (literal): parameters (name, type); results (name or "", type); body -/
structure FuncIR where
  params : List (String × String)
  results : List (String × String)
  body : List Stmt
  deriving Repr

/-- the unit regenerated under `name` -/
def unitOf (name : String) : Option FuncIR :=
  match Facts.cliMainIR.find? (·.1 == name) with
  | some (_, ps, rs, items) => (decodeBody items).map fun b => ⟨ps, rs, b⟩
  | none => none

/-! ### values, state, parameters -/

inductive MVal
  | io (v : Val)                           -- a value of the plumbing: string, []string, error, reader, writer, nil
  | cmd                                    -- the *cobra.Command
  | flagPtr (name : String)                -- the *string of the flag `name`
  | ctx                                    -- a context.Context
  | cancel                                 -- the func() of signal.NotifyContext
  deriving DecidableEq, Repr

structure MState where
  vars : List (String × MVal)              -- innermost first
  io : State                               -- heap of readers, `mrc.readers`, inputs closed, files created (its `vars` are not used)
  out : Bytes := []                        -- what `run` wrote to its output
  outDest : Option WC := none              -- … and where that goes (set when `run` is called)
  outClosed : List String := []            -- `Close` calls that reached a created output file, in order
  stderr : Nat := 0                        -- `pql: …` lines on standard error
  exit : Option Nat := none                -- os.Exit(n) was called
  flags : List (String × String) := []     -- the command's flags: long name, current value
  runE : Option (String × List (String × MVal)) := none   -- the command's RunE: unit, captured variables

/-- the operating system, the library and cobra's reading of the command line -/
structure Sys where
  compile : Bytes → Option Bytes           -- pql.Compile
  env : Env                                -- os.Open, Close of an input file, os.Create, term.IsTerminal
  outCloseFails : String → Bool := fun _ => false   -- does Close of the created output file report an error
  fuel : Nat                               -- bound of the `for` loop inside one `Read`
  k : Nat                                  -- bound of the scanner's `Read` calls
  args : List String := []                 -- cobra: the positional arguments
  setFlags : List (String × String) := []  -- cobra: the flags given on the command line (long name, value)

inductive Flow
  | next
  | ret (vs : List MVal)
  | exit                                   -- os.Exit: the process has ended

/-- the status the process ends with -/
def MState.status (st : MState) : Nat := st.exit.getD 0

def MState.get (st : MState) (v : String) : M MVal :=
  match st.vars.find? (·.1 == v) with
  | some kv => .ok kv.2
  | none => stuck

def MState.declare (st : MState) (v : String) (x : MVal) : MState :=
  if v == "_" then st else { st with vars := (v, x) :: st.vars }

def assignIn (v : String) (x : MVal) : List (String × MVal) → Option (List (String × MVal))
  | [] => none
  | kv :: r => if kv.1 == v then some ((v, x) :: r) else (assignIn v x r).map (kv :: ·)

def MState.assign (st : MState) (v : String) (x : MVal) : M MState :=
  match assignIn v x st.vars with
  | some vars => .ok { st with vars := vars }
  | none => stuck

def MState.leave (st outer : MState) : MState :=
  { st with vars := st.vars.drop (st.vars.length - outer.vars.length) }

/-! ### expressions, conditions, targets -/

def eval (st : MState) : Expr → M MVal
  | .var v => st.get v
  | .nil => .ok (.io .nil)
  | .deref v => do
    match ← st.get v with
    | .flagPtr n =>
      match st.flags.find? (·.1 == n) with
      | some kv => pure (.io (.str kv.2))
      | none => stuck
    | _ => stuck
  | .ctxOf v => do
    match ← st.get v with
    | .cmd => pure .ctx
    | _ => stuck
  | .stdin => .ok (.io (.rc (some ⟨0, false⟩)))

def evalCond (st : MState) : Cond → M Bool
  | .eq a b => do
    match ← eval st a, ← eval st b with
    | .io x, .io y => valEq x y
    | _, _ => stuck
  | .ne a b => do
    match ← eval st a, ← eval st b with
    | .io x, .io y => do pure (!(← valEq x y))
    | _, _ => stuck

/-- the untyped nil stored where a value like `old` lives -/
def nilLikeM : MVal → MVal → MVal
  | .io old, .io x => .io (nilLike old x)
  | _, x => x

def assignTo (st : MState) : Target → MVal → M MState
  | .blank, _ => .ok st
  | .def_ v, x => .ok (st.declare v x)
  | .set v, x => do st.assign v (nilLikeM (← st.get v) x)

def evalAll (st : MState) : List Expr → M (List MVal)
  | [] => .ok []
  | e :: es => do
    let v ← eval st e
    let vs ← evalAll st es
    pure (v :: vs)

def getAll (st : MState) : List String → M (List MVal)
  | [] => .ok []
  | v :: vs => do
    let x ← st.get v
    let xs ← getAll st vs
    pure (x :: xs)

/-! ### the primitives -/

/-- a fresh `&multiReadCloser{l}` that is stored in a variable becomes THE receiver object of Model/CliIOIR.lean -/
def adopt : Val → State → Val × State
  | .mrcNew l, w => (.mrcRef, { w with readers := l })
  | v, w => (v, w)

/-- `x.Close()`, dynamic dispatch: the error it returns and the world -/
def closeVal (sys : Sys) (st : MState) : MVal → M (GoErr × MState)
  | .io (.rc x) => do
    let (e, w) ← closeObj sys.env st.io x
    pure (e, { st with io := w })
  | .io .mrcRef => do
    let (vs, w) ← runUnit sys.env sys.fuel "multiReadCloser.Close" [.mrcRef] st.io
    match vs with
    | [.err e] => pure (e, { st with io := w })
    | _ => stuck
  | .io (.wc none) => goPanic
  | .io (.wc (some .stdoutNop)) => .ok (.nil, st)
  | .io (.wc (some (.file p))) =>
    .ok (if sys.outCloseFails p then .other else .nil, { st with outClosed := st.outClosed ++ [p] })
  | _ => stuck

/-- `SilenceErrors: true, SilenceUsage: true` in the command literal: cobra prints nothing itself -/
def commandSilent : Bool :=
  Facts.cliMainCommand.contains ("SilenceErrors", "true") && Facts.cliMainCommand.contains ("SilenceUsage", "true")

/-- cobra stores the values of the flags given on the command line; `none`: a flag that was not defined -/
def applyFlags : List (String × String) → List (String × String) → Option (List (String × String))
  | [], flags => some flags
  | (n, v) :: more, flags =>
    if flags.any (·.1 == n) then applyFlags more (flags.map fun kv => if kv.1 == n then (n, v) else kv) else none

/-- `n` calls of a function value; `false`: the process ended in one of them -/
def repeatCall (f : MState → M (Option (List MVal) × MState)) : Nat → MState → M (Bool × MState)
  | 0, st => .ok (true, st)
  | n + 1, st => do
    let (r, st1) ← f st
    match r with
    | none => pure (false, st1)
    | some _ => repeatCall f n st1

/-- are the parameters of `run` (context, writer, reader, logger), in this order -/
def runSignatureOK : Bool :=
  Facts.cliRunParams.map (·.2) == ["context.Context", "io.Writer", "io.Reader", "func(error)"]

/-! ### statements -/

/-- a call of the function literal `unit` with arguments and captured variables; `none` = the process ended in it -/
abbrev Caller := String → List MVal → List (String × MVal) → MState → M (Option (List MVal) × MState)

mutual
def exec (sys : Sys) (call : Caller) (res : List String) : Stmt → MState → M (Flow × MState)
  | .command v, st => .ok (.next, st.declare v .cmd)
  | .flag v c m n _ d, st => do
    match ← st.get c with
    | .cmd =>
      if m == "StringP" && !(st.flags.any (·.1 == n)) then
        pure (.next, ({ st with flags := st.flags ++ [(n, d)] } : MState).declare v (.flagPtr n))
      else stuck
    | _ => stuck
  | .setRunE c u, st => do
    match ← st.get c with
    | .cmd => pure (.next, { st with runE := some (u, st.vars) })
    | _ => stuck
  | .notifyCtx x y, st => .ok (.next, (st.declare x .ctx).declare y .cancel)
  | .execute t c x, st => do
    match ← st.get c, ← st.get x, st.runE with
    | .cmd, .ctx, some (u, captured) =>
      if !commandSilent then stuck
      else
        match applyFlags sys.setFlags st.flags with
        | none => do pure (.next, ← assignTo st t (.io (.err .other)))
        | some fl => do
          let (r, st1) ← call u [.cmd, .io (.strs sys.args)] captured { st with flags := fl }
          match r with
          | some [.io (.err e)] => pure (.next, ← assignTo st1 t (.io (.err e)))
          | some _ => stuck
          | none => pure (.exit, st1)
    | _, _, _ => stuck
  | .callCancel v, st => do
    match ← st.get v with
    | .cancel => pure (.next, st)
    | _ => stuck
  | .callFn f t1 t2 arg, st => do
    match ← eval st arg with
    | .io a => do
      let (vs, w) ← runUnit sys.env sys.fuel f [a] st.io
      match vs with
      | [v1, v2] => do
        let w1 := (adopt v1 w).2
        let st1 ← assignTo { st with io := (adopt v2 w1).2 } t1 (.io (adopt v1 w).1)
        let st2 ← assignTo st1 t2 (.io (adopt v2 w1).1)
        pure (.next, st2)
      | _ => stuck
    | _ => stuck
  | .callRun lg t c o i, st => do
    match ← eval st c, ← eval st o, ← eval st i with
    | .ctx, .io (.wc wo), .io inp =>
      if !runSignatureOK then stuck
      else do
        -- the scanner reads `input` …
        let (bytes, ending, w) ← StreamIR.drainM (StreamIR.readInput sys.env sys.fuel inp) sys.k st.io
        -- … and the regenerated body of `run` works through the lines it delivers
        let oc ← StreamIR.liftRun (CliIR.interpRun (CliIR.modelLib sys.compile) (bufioLines bytes).1
          ((bufioLines bytes).2 || ending != .eof))
        match wo, oc.out with
        | none, _ :: _ => goPanic
        | _, _ => do
          let st1 : MState := { st with io := w, out := st.out ++ oc.out, outDest := wo }
          -- every `logError(err)` of `run` is a call of the function literal
          let (alive, st2) ← repeatCall (call lg [.io (.err .other)] st.vars) oc.nErrors st1
          if alive then pure (.next, ← assignTo st2 t (.io (.err (if oc.err.isSome then .other else .nil))))
          else pure (.exit, st2)
    | _, _, _ => stuck
  | .close t e, st => do
    let x ← eval st e
    let (err, st1) ← closeVal sys st x
    pure (.next, ← assignTo st1 t (.io (.err err)))
  | .assign t e, st => do
    let x ← eval st e
    pure (.next, ← assignTo st t x)
  | .ite c t e, st => do
    let b ← evalCond st c
    let (f, st1) ← if b then execBlock sys call res t st else execBlock sys call res e st
    pure (f, st1.leave st)
  | .scope body, st => do
    let (f, st1) ← execBlock sys call res body st
    pure (f, st1.leave st)
  | .ret es, st => do
    if es.isEmpty then pure (.ret (← getAll st res), st)
    else pure (.ret (← evalAll st es), st)
  | .fprintf dst fmt e, st => do
    match ← eval st e with
    | .io (.err _) =>
      if dst == "stderr" && fmt == "pql: %v\n" then pure (.next, { st with stderr := st.stderr + 1 }) else stuck
    | _ => stuck
  | .exit n, st => .ok (.exit, { st with exit := some n })

def execBlock (sys : Sys) (call : Caller) (res : List String) : List Stmt → MState → M (Flow × MState)
  | [], st => .ok (.next, st)
  | s :: r, st => do
    let (f, st1) ← exec sys call res s st
    match f with
    | .next => execBlock sys call res r st1
    | _ => pure (f, st1)
end

/-! ### running a function literal, and `main` -/

def zeroOfM (ty : String) : Option MVal :=
  if ty == "error" then some (.io (.err .nil)) else none

def resultVarsM : List (String × String) → Option (List (String × MVal))
  | [] => some []
  | (n, ty) :: r =>
    if n == "" then resultVarsM r
    else match zeroOfM ty, resultVarsM r with
      | some z, some zs => some ((n, z) :: zs)
      | _, _ => none

def bindParamsM : List (String × String) → List MVal → Option (List (String × MVal))
  | [], [] => some []
  | (n, _) :: ps, v :: vs => (bindParamsM ps vs).map ((n, v) :: ·)
  | _, _ => none

/-- the untyped nil returned as a result of the type `ty` -/
def nilAsM (ty : String) : MVal → MVal
  | .io x => .io (nilAs ty x)
  | x => x

/-- call a function (literal): its frame lies on top of the captured variables; the caller's variables come back
    unchanged.  Falling off the end is a return only for a function without results. -/
def runClosure (execB : List String → List Stmt → MState → M (Flow × MState)) (fn : FuncIR) (args : List MVal)
    (captured : List (String × MVal)) (st : MState) : M (Option (List MVal) × MState) :=
  match bindParamsM fn.params args, resultVarsM fn.results with
  | some ps, some rs => do
    let (f, st1) ← execB ((fn.results.map (·.1)).filter (· != "")) fn.body { st with vars := (ps ++ rs).reverse ++ captured }
    match f with
    | .ret vs =>
      if vs.length = fn.results.length then pure (some (List.zipWith nilAsM (fn.results.map (·.2)) vs), { st1 with vars := st.vars })
      else stuck
    | .exit => pure (none, { st1 with vars := st.vars })
    | .next => if fn.results.isEmpty then pure (some [], { st1 with vars := st.vars }) else stuck
  | _, _ => stuck

/-- calling the function literal regenerated under `name`; literals nest at most `depth` deep -/
def callAt (sys : Sys) : Nat → Caller
  | 0, _, _, _, _ => stuck
  | d + 1, name, args, captured, st =>
    match unitOf name with
    | some fn => runClosure (execBlock sys (callAt sys d)) fn args captured st
    | none => stuck

/-- the world a process starts in: `os.Stdin` is object 0 -/
def initial (stdin : Reader) : MState := { vars := [], io := world0 stdin }

/-- **`main`** as regenerated: the world when the process has ended (`MState.status`: its exit status) -/
def interpMain (sys : Sys) (stdin : Reader) : M MState :=
  match unitOf "main" with
  | some fn => (runClosure (execBlock sys (callAt sys 2)) fn [] [] (initial stdin)).map (·.2)
  | none => stuck

/-- the variables of `main` the function literal `RunE` sees -/
def capturedByRunE : List (String × MVal) := [("outputPath", .flagPtr "output"), ("rootCommand", .cmd)]

/-- **the closure `RunE`** as regenerated, called the way cobra calls it: with the command, the positional arguments
    `sys.args`, and `outArg` stored as the value of the flag `output`; what it returns and the world -/
def interpRunE (sys : Sys) (outArg : String) (st : MState) : M (Option (List MVal) × MState) :=
  callAt sys 2 "main.RunE" [.cmd, .io (.strs sys.args)] capturedByRunE { st with flags := [("output", outArg)] }

end Pql.CliMainIR
