/-
Interpreter for the IR of the imperative writer layer of pql.go that `harness/extract_write.go`
regenerates from the Go source on every run (`Facts.writeIR`, `Facts.writeSwitches`): the cases of
the type switch of `(*subquery).write` and the ORDER BY / LIMIT suffix after it, the statement
assembly of `(*CompileOptions).Compile`, `subqueryName`, `dataSourceSQL`, `quoteIdentifier` and
`quoteSQLString`.

The regenerated form is flat (a unit is a list of items, an item a list of strings, blocks closed
by `["end"]`); `decode` turns a unit into the statement tree `Stmt`, `exec` runs a statement tree
on a state (the Go variables in scope and the `exprContext`), producing chunks like the model's
writers do.  Calls of `writeExpression` and `(*subquery).write` are parameters (`Sem`), so the
interpreter does not depend on the model of those functions.

Go run-time failures are explicit: a nil pointer dereference, an index out of range, a method call
on a nil interface is `IErr.go .panic`; an error return is `IErr.go .err`.  `IErr.stuck` is kept
apart: the IR refers to a variable that is not in scope or to a field the value does not have (the
translator produced something the interpreter does not understand).  The model never yields
`stuck`, so a theorem `liftW model = interpretation` excludes it.

Props/C05WriteIR*.lean prove that the hand-written model (`Subquery.write`, `writeCtes`, the tail
of `compileChunks`, `subqueryName`, `quoteIdentifier`, `quoteSQLString`) is this interpretation of
the regenerated IR.
-/
import PqlModel.Model.Compile
namespace Pql.WriteIR
open Pql

/-! ### syntax -/

/-- `root.fields`: a Go variable and a field string ("X", "Name.Name", "Name.AsQualified()",
    "Parts[0].Name", "sort.Terms", "[]byte" for the conversion, "" for the variable itself) -/
structure Path where
  root : String
  fields : String
  deriving DecidableEq, Repr

inductive Cond
  | gt0 (i : String)                       -- i > 0
  | nonempty (p : Path)                    -- len(p) > 0
  | notLast (i : String) (p : Path)        -- i < len(p)-1
  | isNil (p : Path)                       -- p == nil
  | notNil (p : Path)                      -- p != nil
  | flag (p : Path)                        -- p   (a bool field)
  | byteIs (v c : String)                  -- v == 'c'
  | typeIs (v ty : String) (p : Path)      -- v, ok := p.(*parser.ty); ok
  | or (a b : Cond)                        -- a || b
  deriving DecidableEq, Repr

inductive Stmt
  | lit (s : String)                       -- sb.WriteString("s")
  | str (p : Path)                         -- sb.WriteString(p)
  | byte (v : String)                      -- sb.WriteByte(v)
  | grow                                   -- sb.Grow(…)
  | qid (p : Path)                         -- quoteIdentifier(sb, p)
  | qidCat (s : String) (p : Path)         -- quoteIdentifier(sb, "s"+p)
  | qidSrc (v : String)                    -- quoteIdentifier(sb, ctx.source[v.Start:v.End])
  | qstr (p : Path)                        -- quoteSQLString(sb, p)
  | expr (p : Path)                        -- if err := writeExpression(ctx, sb, p); err != nil { return err }
  | callWrite (v : String)                 -- if err := v.write(ctx, sb); err != nil { return …, err }
  | span (v : String) (p : Path)           -- v := p.Span()
  | declStr (v s : String)                 -- v := "s"  /  const v = "s"
  | set (v : String) (p : Path)            -- v = p
  | fprintfT (pre suf v : String)          -- fmt.Fprintf(sb, "pre%Tsuf", v)
  | init (v w : String)                    -- v := w[:len(w)-1]
  | last (v w : String)                    -- v := w[len(w)-1]
  | ctx (source scope mode : String)       -- ctx := &exprContext{source: …, scope: …[, mode: …]}
  | for_ (idx elem : String) (p : Path) (body : List Stmt)
  | ite (c : Cond) (t e : List Stmt)
  | ret                                    -- return nil  /  return sb.String(), nil
  | sprintfD (pre suf v : String)          -- return fmt.Sprintf("pre%dsuf", v)
  | errorf (format : String)               -- return fmt.Errorf("format", …)
  deriving Repr

/-! ### decoding the flat form -/

def decodeCond : Nat → List String → Option (Cond × List String)
  | 0, _ => none
  | fuel + 1, ts =>
    match ts with
    | [] => none
    | k :: r =>
      if k == "gt0" then match r with | i :: r => some (.gt0 i, r) | _ => none
      else if k == "nonempty" then match r with | a :: b :: r => some (.nonempty ⟨a, b⟩, r) | _ => none
      else if k == "notlast" then match r with | i :: a :: b :: r => some (.notLast i ⟨a, b⟩, r) | _ => none
      else if k == "isnil" then match r with | a :: b :: r => some (.isNil ⟨a, b⟩, r) | _ => none
      else if k == "notnil" then match r with | a :: b :: r => some (.notNil ⟨a, b⟩, r) | _ => none
      else if k == "flag" then match r with | a :: b :: r => some (.flag ⟨a, b⟩, r) | _ => none
      else if k == "byteis" then match r with | v :: c :: r => some (.byteIs v c, r) | _ => none
      else if k == "typeis" then match r with | v :: ty :: a :: b :: r => some (.typeIs v ty ⟨a, b⟩, r) | _ => none
      else if k == "or" then
        match decodeCond fuel r with
        | some (a, r1) =>
          match decodeCond fuel r1 with
          | some (b, r2) => some (.or a b, r2)
          | none => none
        | none => none
      else none

/-- an item that is a statement by itself -/
def decodeSimple (k : String) (a : List String) : Option Stmt :=
  if k == "lit" then match a with | [s] => some (.lit s) | _ => none
  else if k == "str" then match a with | [r, f] => some (.str ⟨r, f⟩) | _ => none
  else if k == "byte" then match a with | [v] => some (.byte v) | _ => none
  else if k == "grow" then match a with | [] => some .grow | _ => none
  else if k == "qid" then match a with | [r, f] => some (.qid ⟨r, f⟩) | _ => none
  else if k == "qidcat" then match a with | [s, r, f] => some (.qidCat s ⟨r, f⟩) | _ => none
  else if k == "qidsrc" then match a with | [v] => some (.qidSrc v) | _ => none
  else if k == "qstr" then match a with | [r, f] => some (.qstr ⟨r, f⟩) | _ => none
  else if k == "expr" then match a with | [r, f] => some (.expr ⟨r, f⟩) | _ => none
  else if k == "call" then match a with | [m, v] => if m == "write" then some (.callWrite v) else none | _ => none
  else if k == "span" then match a with | [v, r, f] => some (.span v ⟨r, f⟩) | _ => none
  else if k == "declstr" then match a with | [v, s] => some (.declStr v s) | _ => none
  else if k == "set" then match a with | [v, r, f] => some (.set v ⟨r, f⟩) | _ => none
  else if k == "fprintfT" then match a with | [p, s, v] => some (.fprintfT p s v) | _ => none
  else if k == "init" then match a with | [v, w] => some (.init v w) | _ => none
  else if k == "last" then match a with | [v, w] => some (.last v w) | _ => none
  else if k == "ctx" then match a with | [s, c, m] => some (.ctx s c m) | _ => none
  else if k == "return" then match a with | [] => some .ret | _ => none
  else if k == "sprintfD" then match a with | [p, s, v] => some (.sprintfD p s v) | _ => none
  else if k == "errorf" then match a with | [f] => some (.errorf f) | _ => none
  else none

/-- statements up to the end of the input or the next `["end"]` / `["else"]` (which is left in place) -/
def decodeBlock : Nat → List (List String) → Option (List Stmt × List (List String))
  | 0, _ => none
  | _ + 1, [] => some ([], [])
  | fuel + 1, it :: rest =>
    match it with
    | [] => none
    | k :: a =>
      if k == "end" || k == "else" then some ([], it :: rest)
      else if k == "for" then
        match a with
        | [idx, elem, r, f] =>
          match decodeBlock fuel rest with
          | some (body, ["end"] :: rest2) =>
            match decodeBlock fuel rest2 with
            | some (more, rest3) => some (.for_ idx elem ⟨r, f⟩ body :: more, rest3)
            | none => none
          | _ => none
        | _ => none
      else if k == "if" then
        match decodeCond (a.length + 1) a with
        | some (c, []) =>
          match decodeBlock fuel rest with
          | some (t, ["end"] :: rest2) =>
            match decodeBlock fuel rest2 with
            | some (more, rest3) => some (.ite c t [] :: more, rest3)
            | none => none
          | some (t, ["else"] :: rest2) =>
            match decodeBlock fuel rest2 with
            | some (e, ["end"] :: rest3) =>
              match decodeBlock fuel rest3 with
              | some (more, rest4) => some (.ite c t e :: more, rest4)
              | none => none
            | _ => none
          | _ => none
        | _ => none
      else
        match decodeSimple k a with
        | some s =>
          match decodeBlock fuel rest with
          | some (more, rest2) => some (s :: more, rest2)
          | none => none
        | none => none

def decode (items : List (List String)) : Option (List Stmt) :=
  match decodeBlock (items.length + 1) items with
  | some (b, []) => some b
  | _ => none

def irOf (key : String) : List (List String) :=
  ((Facts.writeIR.find? (·.1 == key)).map (·.2)).getD [["missing", key]]

/-! ### values and state -/

inductive IErr
  | go (e : WErr)     -- what the Go code does: error return / panic
  | stuck             -- the IR is not understood (never equal to anything the model yields)
  deriving DecidableEq, Repr

abbrev M := Except IErr

def liftW {α : Type} : Except WErr α → M α
  | .ok a => .ok a
  | .error e => .error (.go e)

def goPanic {α : Type} : M α := .error (.go .panic)
def stuck {α : Type} : M α := .error .stuck

/-- what a Go variable of the writer code can hold -/
inductive Val
  | nat (n : Nat)
  | byte (b : UInt8)
  | str (b : Bytes)                              -- string
  | span (s : Span)                              -- parser.Span
  | scope (sc : List (Bytes × List Chunk))       -- map[string]string
  | expr (e : Expr)                              -- parser.Expr (possibly the nil interface) or a node pointer
  | col (c : Column)                             -- *Project/Extend/SummarizeColumn
  | term (t : SortTerm)                          -- *SortTerm
  | prop (p : RenderProp)                        -- *RenderProperty
  | op (o : Op)                                  -- the operator, with the dynamic type of the case
  | src (s : Option Ident)                       -- *TableRef{Table}
  | sub (s : Subquery)                           -- *subquery
  | subs (l : List Subquery)                     -- []*subquery

structure State where
  ctx : Option Ctx                               -- the *exprContext `ctx`, once defined
  vars : List (String × Val)                     -- innermost first

structure Sem where
  writeExpression : Ctx → Expr → W
  subWrite : Ctx → Subquery → W

def State.get (st : State) (v : String) : M Val :=
  match st.vars.find? (·.1 == v) with
  | some kv => .ok kv.2
  | none => stuck

def State.declare (st : State) (v : String) (x : Val) : State := { st with vars := (v, x) :: st.vars }

/-- `v = x` for a variable in scope -/
def assignIn (v : String) (x : Val) : List (String × Val) → Option (List (String × Val))
  | [] => none
  | kv :: r => if kv.1 == v then some ((v, x) :: r) else (assignIn v x r).map (kv :: ·)

/-- leaving a block: the variables it declared go out of scope, assignments to outer ones stay -/
def State.leave (st outer : State) : State :=
  { st with vars := st.vars.drop (st.vars.length - outer.vars.length) }

/-! ### fields -/

/-- an expression-valued path.  `Name.AsQualified()` of a nil `Name` is a nil `*QualifiedIdent`,
    which `writeExpression` dereferences before writing anything: the panic is reported here. -/
def exprAt (x : Val) (f : String) : M Expr :=
  match x with
  | .col c =>
    if f == "X" then .ok c.x
    else if f == "Name.AsQualified()" then
      match c.name with
      | some n => .ok (.qident [n])
      | none => goPanic
    else stuck
  | .term t => if f == "X" then .ok t.x else stuck
  | .prop p => if f == "Value" then .ok p.value else stuck
  | .op (.where_ _ _ pred) => if f == "Predicate" then .ok pred else stuck
  | .sub s =>
    if f == "take.RowCount" then
      match s.take with
      | some n => .ok n
      | none => goPanic
    else stuck
  | _ => stuck

def nameOf : Option Ident → M Bytes
  | some n => .ok n.name
  | none => goPanic

/-- a string-valued path -/
def strAt (x : Val) (f : String) : M Bytes :=
  match x with
  | .str b => if f == "" then .ok b else stuck
  | .col c => if f == "Name.Name" then nameOf c.name else stuck
  | .prop p => if f == "Name.Name" then nameOf p.name else stuck
  | .op (.render _ _ chart _ _ _ _) => if f == "ChartType.Name" then nameOf chart else stuck
  | .expr (.lit _ _ v) => if f == "Value" then .ok v else stuck
  | .expr (.qident parts) =>
    if f == "Parts[0].Name" then
      match parts with
      | p :: _ => .ok p.name
      | [] => goPanic
    else stuck
  | .src s => if f == "Table.Name" then nameOf s else stuck
  | .sub s => if f == "name" then .ok s.name else stuck
  | _ => stuck

/-- what `sb.WriteString(path)` writes -/
def chunksAt (x : Val) (f : String) : M (List Chunk) :=
  match x with
  | .sub s => if f == "sourceSQL" then .ok s.source else stuck
  | .str b => if f == "" then .ok [.raw b] else stuck
  | _ => stuck

def someOrPanic {α : Type} : Option α → M α
  | some a => .ok a
  | none => goPanic

/-- a slice-valued path -/
def listAt (x : Val) (f : String) : M (List Val) :=
  match x with
  | .op (.project _ _ cols) => if f == "Cols" then .ok (cols.map .col) else stuck
  | .op (.extend _ _ cols) => if f == "Cols" then .ok (cols.map .col) else stuck
  | .op (.summarize _ _ cols _ groupBy) =>
    if f == "Cols" then .ok (cols.map .col) else if f == "GroupBy" then .ok (groupBy.map .col) else stuck
  | .op (.render _ _ _ _ _ props _) => if f == "Props" then .ok (props.map .prop) else stuck
  | .sub s => if f == "sort.Terms" then (someOrPanic s.sort).map (·.map .term) else stuck
  | .subs l => if f == "" then .ok (l.map .sub) else stuck
  | .str b => if f == "[]byte" then .ok (b.map .byte) else stuck
  | _ => stuck

def isNilExpr : Expr → Bool
  | .nil => true
  | _ => false

/-- `path == nil` -/
def nilAt (x : Val) (f : String) : M Bool :=
  match x with
  | .col c => if f == "X" then .ok (isNilExpr c.x) else if f == "Name" then .ok c.name.isNone else stuck
  | .sub s => if f == "sort" then .ok s.sort.isNone else if f == "take" then .ok s.take.isNone else stuck
  | _ => stuck

def flagAt (x : Val) (f : String) : M Bool :=
  match x with
  | .term t => if f == "Asc" then .ok t.asc else if f == "NullsFirst" then .ok t.nullsFirst else stuck
  | _ => stuck

def natOf : Val → M Nat
  | .nat n => .ok n
  | _ => stuck

/-- value of a condition and what a successful type assertion binds -/
def evalCond (st : State) : Cond → M (Bool × List (String × Val))
  | .gt0 i => do
    let n ← st.get i >>= natOf
    pure (decide (n > 0), [])
  | .nonempty p => do
    let xs ← st.get p.root >>= (listAt · p.fields)
    pure (decide (xs.length > 0), [])
  | .notLast i p => do
    let n ← st.get i >>= natOf
    let xs ← st.get p.root >>= (listAt · p.fields)
    pure (decide (n + 1 < xs.length), [])
  | .isNil p => do
    let b ← st.get p.root >>= (nilAt · p.fields)
    pure (b, [])
  | .notNil p => do
    let b ← st.get p.root >>= (nilAt · p.fields)
    pure (!b, [])
  | .flag p => do
    let b ← st.get p.root >>= (flagAt · p.fields)
    pure (b, [])
  | .byteIs v c => do
    match ← st.get v with
    | .byte b => pure ([b] == Bytes.ofString c, [])
    | _ => stuck
  | .typeIs v ty p => do
    let e ← st.get p.root >>= (exprAt · p.fields)
    if exprTypeName e == ty then pure (true, [(v, .expr e)]) else pure (false, [])
  | .or a b => do
    let (x, _) ← evalCond st a
    if x then pure (true, []) else do
      let (y, _) ← evalCond st b
      pure (y, [])

def modeOf (m : String) : M Mode :=
  if m == "" then .ok .default              -- the zero value of exprMode, `defaultExprMode`
  else if m == "defaultExprMode" then .ok .default
  else if m == "joinExprMode" then .ok .join
  else if m == "letExprMode" then .ok .let_
  else stuck

/-- `for idx, elem := range xs { body }` -/
def forEach (idx elem : String) (body : State → M (List Chunk × State)) :
    Nat → List Val → State → M (List Chunk × State)
  | _, [], st => .ok ([], st)
  | i, x :: xs, st => do
    let (o1, st1) ← body { st with vars := (elem, x) :: (idx, .nat i) :: st.vars }
    let (o2, st2) ← forEach idx elem body (i + 1) xs (st1.leave st)
    pure (o1 ++ o2, st2)

mutual
def exec (sem : Sem) : Stmt → State → M (List Chunk × State)
  | .lit s, st => .ok ([.txt s], st)
  | .str p, st => do
    let cs ← st.get p.root >>= (chunksAt · p.fields)
    pure (cs, st)
  | .byte v, st => do
    match ← st.get v with
    | .byte b => pure ([.raw [b]], st)
    | _ => stuck
  | .grow, st => .ok ([], st)
  | .qid p, st => do
    let b ← st.get p.root >>= (strAt · p.fields)
    pure ([.qid b], st)
  | .qidCat s p, st => do
    let b ← st.get p.root >>= (strAt · p.fields)
    pure ([.qid (Bytes.ofString s ++ b)], st)
  | .qidSrc v, st => do
    match ← st.get v, st.ctx with
    | .span sp, some ctx => do
      let text ← liftW (sliceSource ctx.src sp)
      pure ([.qid text], st)
    | _, _ => stuck
  | .qstr p, st => do
    let b ← st.get p.root >>= (strAt · p.fields)
    pure ([.qstr b], st)
  | .expr p, st => do
    let e ← st.get p.root >>= (exprAt · p.fields)
    match st.ctx with
    | some ctx => do
      let cs ← liftW (sem.writeExpression ctx e)
      pure (cs, st)
    | none => stuck
  | .callWrite v, st => do
    match ← st.get v, st.ctx with
    | .sub s, some ctx => do
      let cs ← liftW (sem.subWrite ctx s)
      pure (cs, st)
    | _, _ => stuck
  | .span v p, st => do
    let e ← st.get p.root >>= (exprAt · p.fields)
    -- a method call on the nil interface panics
    if isNilExpr e then goPanic else pure ([], st.declare v (.span e.spanOf))
  | .declStr v s, st => .ok ([], st.declare v (.str (Bytes.ofString s)))
  | .set v p, st => do
    let b ← st.get p.root >>= (strAt · p.fields)
    match assignIn v (.str b) st.vars with
    | some vars => pure ([], { st with vars := vars })
    | none => stuck
  | .fprintfT pre suf v, st => do
    match ← st.get v with
    | .op o => pure ([.txt (pre ++ "*parser." ++ opTypeName o ++ suf)], st)
    | _ => stuck
  | .init v w, st => do
    match ← st.get w with
    | .subs l => if l.isEmpty then goPanic else pure ([], st.declare v (.subs l.dropLast))
    | _ => stuck
  | .last v w, st => do
    match ← st.get w with
    | .subs l =>
      match l.getLast? with
      | some s => pure ([], st.declare v (.sub s))
      | none => goPanic
    | _ => stuck
  | .ctx source scope mode, st => do
    match ← st.get source, ← st.get scope with
    | .str src, .scope sc => do
      let m ← modeOf mode
      pure ([], { st with ctx := some ⟨src, sc, m⟩ })
    | _, _ => stuck
  | .for_ idx elem p body, st => do
    let xs ← st.get p.root >>= (listAt · p.fields)
    forEach idx elem (execBlock sem body) 0 xs st
  | .ite c t e, st => do
    let (b, binds) ← evalCond st c
    let (out, st1) ← if b then execBlock sem t { st with vars := binds ++ st.vars } else execBlock sem e st
    pure (out, st1.leave st)
  | .ret, st => .ok ([], st)
  | .sprintfD pre suf v, st => do
    let n ← st.get v >>= natOf
    pure ([.raw (Bytes.ofString pre ++ natToDec n ++ Bytes.ofString suf)], st)
  | .errorf _, _ => .error (.go .err)

def execBlock (sem : Sem) : List Stmt → State → M (List Chunk × State)
  | [], st => .ok ([], st)
  | s :: r, st => do
    let (o1, st1) ← exec sem s st
    let (o2, st2) ← execBlock sem r st1
    pure (o1 ++ o2, st2)
end

/-- does the unit end in a `return`? (the translator admits a return only as the last statement) -/
def returns : List Stmt → Bool
  | [] => false
  | [.ret] => true
  | _ :: r => returns r

/-- run a unit of the regenerated IR; only what is written matters afterwards -/
def runUnit (sem : Sem) (key : String) (st : State) : M (List Chunk) :=
  match decode (irOf key) with
  | some b => (execBlock sem b st).map (·.1)
  | none => stuck

/-! ### the functions -/

/-- the unit a type switch of `fn` selects for the dynamic type `ty` ("nil" for the nil interface):
    the first case that lists it, else the default -/
def caseKey (fn ty : String) : Option String :=
  match Facts.writeSwitches.find? (·.1 == fn) with
  | some (_, _, cases) =>
    match cases.find? (·.1.contains ty) with
    | some c => some c.2
    | none => (cases.find? (·.1 == ["default"])).map (·.2)
  | none => none

def opTypeKey : Option Op → String
  | none => "nil"
  | some o => opTypeName o

/-- the variables in scope in a case of the type switch of `(*subquery).write` -/
def opVars (sub : Subquery) : List (String × Val) :=
  (match sub.op with | some o => [("op", .op o)] | none => []) ++ [("sub", .sub sub)]

/-- `(*subquery).write`: the case of the type switch on `sub.op`, then — unless the case returned —
    the statements after the switch -/
def interpWrite (sem : Sem) (ctx : Ctx) (sub : Subquery) : M (List Chunk) :=
  let st : State := ⟨some ctx, opVars sub⟩
  match caseKey "write" (opTypeKey sub.op) with
  | none => stuck
  | some key =>
    match decode (irOf key), decode (irOf "write:suffix") with
    | some body, some suffix => do
      let (o1, st1) ← execBlock sem body st
      if returns body then pure o1 else do
        let (o2, _) ← execBlock sem suffix (st1.leave ⟨some ctx, [("sub", .sub sub)]⟩)
        pure (o1 ++ o2)
    | _, _ => stuck

/-- the statement assembly of `Compile`, entered with what `splitQueries` returned -/
def interpAssembly (sem : Sem) (src : Bytes) (scope : List (Bytes × List Chunk)) (subs : List Subquery) :
    M (List Chunk) :=
  runUnit sem "Compile" ⟨none, [("subqueries", .subs subs), ("source", .str src), ("scope", .scope scope)]⟩

/-- for the functions that call neither `writeExpression` nor `write` -/
def noSem : Sem := ⟨fun _ _ => .error .err, fun _ _ => .error .err⟩

/-- `quoteIdentifier(sb, name)` / `quoteSQLString(sb, s)`: the parameter is called `param` in Go -/
def interpQuote (fn param : String) (s : Bytes) : M (List Chunk) :=
  runUnit noSem fn ⟨none, [(param, .str s)]⟩

def interpSubqueryName (i : Nat) : M (List Chunk) :=
  runUnit noSem "subqueryName" ⟨none, [("i", .nat i)]⟩

/-- `dataSourceSQL(sb, src)` for a `*TableRef` (the only data source the parser builds) -/
def interpDataSource (src : Option Ident) : M (List Chunk) :=
  match caseKey "dataSourceSQL" "TableRef" with
  | some key => runUnit noSem key ⟨none, [("src", .src src)]⟩
  | none => stuck

end Pql.WriteIR
