/-
Interpreter for the IR of the input/output plumbing of the command-line tool (cmd/pql/main.go):
`(*multiReadCloser).Read`, `(*multiReadCloser).Close`, `makeInput`, `makeOutput`, `isTerminal`, which
`harness/extract_cliio.go` regenerates from the Go source on every run (`Facts.cliIOIR`).

The regenerated form is flat (an item is a list of strings, expressions and conditions are prefix-coded
inside an item, blocks are closed by `["end"]`); `decodeBody` turns it into the statement tree `Stmt`
(a type switch becomes a chain of `typeCase`s), `exec` runs a statement tree on a state.

The world.  A Go reader is an OBJECT: `State.objs` is the heap of reader objects, each the script of the
results its successive `Read` calls return (`CliIO.Reader`, Lemmas/CliIOModel.lean, assumptions A1/A2
there); object 0 is `os.Stdin`.  An `io.ReadCloser` / `io.Reader` / `*os.File` value is `Val.rc`: `none` =
nil, `some ⟨h, nop⟩` = the object `h`, wrapped in a `nopReadCloser` iff `nop`.  `x.Read(p)` takes the next
result of the object's script (the bytes go to `State.data`, which stands for `p[:n]`); `x.Close()` on a
`nopReadCloser` returns nil and does nothing, on a file it is appended to `State.closed` and returns an
error iff `Env.closeFails`; `os.Open(path)` allocates a new object with the script `Env.openFile path` (or
fails); `os.Create` is logged in `State.created` (or fails); `term.IsTerminal(int(f.Fd()))` is `Env.isTTY`.
The untyped `nil` takes the type of the variable it is assigned to or of the result it is returned as (`nilLike`, `nilAs`).
A slice is its list of elements (the capacity of `make` and the aliasing of `s[1:]` with `s` are not
observable in the translated code: no slice is used after an element of a copy of it was overwritten).
The receiver of `Read` / `Close` is `Val.mrcRef`, its field `readers` is `State.readers`; `&multiReadCloser{l}`
is the value `Val.mrcNew l`.

Loops.  `for … range` runs over the elements; `for cond { … }` and `for { … }` get `fuel` iterations, running
out is `IErr.fuel` (the theorems state how much suffices).

Go run-time failures are explicit: a method call on a nil interface, an index or a slice bound out of range
are `IErr.panic`; `IErr.stuck` is kept apart: the IR refers to a variable that is not in scope, applies an
operation to a value of the wrong type, or uses a construct this interpreter does not understand.
-/
import PqlModel.Lemmas.CliIOModel
namespace Pql.CliIOIR
open Pql Pql.CliIO

/-! ### syntax -/

inductive Expr
  | var (v : String)
  | nil
  | int (n : Nat)
  | str (s : String)
  | bool (b : Bool)
  | eof                                    -- io.EOF
  | fld (f : String) (e : Expr)            -- e.f
  | idx (i : Nat) (e : Expr)               -- e[i]
  | from (i : Nat) (e : Expr)              -- e[i:]
  | len (e : Expr)                         -- len(e)
  | append (a b : Expr)                    -- append(a, b)
  | emptySlice (ty : String)               -- make([]ty, 0, len(w))
  | nopR                                   -- nopReadCloser{os.Stdin}
  | nopW                                   -- nopWriteCloser{os.Stdout}
  | newMulti (e : Expr)                    -- &multiReadCloser{e}
  deriving DecidableEq, Repr

inductive Cond
  | eq (a b : Expr)
  | ne (a b : Expr)
  | gt (a b : Expr)
  | and (a b : Cond)
  | or (a b : Cond)
  deriving DecidableEq, Repr

inductive Target
  | blank                                  -- _  (or a call statement)
  | def_ (v : String)                      -- v :=
  | set (v : String)                       -- v =
  | fset (v f : String)                    -- v.f =
  deriving DecidableEq, Repr

inductive Stmt
  | while_ (c : Cond) (body : List Stmt)             -- for c { body }
  | forever (body : List Stmt)                       -- for { body }
  | range (v : String) (e : Expr) (body : List Stmt) -- for _, v := range e { body }
  | ite (c : Cond) (t e : List Stmt)
  | scope (body : List Stmt)                         -- { body }
  | read (n err : Target) (buf : String) (r : Expr)  -- n, err = r.Read(buf)
  | close (t : Target) (r : Expr)                    -- t = r.Close()
  | open_ (f err : Target) (path : Expr)             -- f, err := os.Open(path)
  | assign (t : Target) (e : Expr)
  | setElem (v f : String) (i : Nat) (e : Expr)      -- v.f[i] = e
  | varDecl (v ty : String)                          -- var v ty
  | continue_
  | ret (es : List Expr)                             -- return es…   ([] = the named results)
  | retCall (f : String) (e : Expr)                  -- return os.Open(e) / return os.Create(e)
  | typeCase (v r ty : String) (body els : List Stmt)  -- switch v := r.(type) { case ty: body; … els }  ("" = default)
  | retIsTerm (v : String)                           -- return term.IsTerminal(int(v.Fd()))
  deriving Repr

/-! ### decoding the flat form -/

def digitVal (c : Char) : Option Nat := if '0' ≤ c ∧ c ≤ '9' then some (c.toNat - 48) else none

/-- a decimal numeral (structural, so that decoding reduces in the kernel) -/
def decodeNat (s : String) : Option Nat :=
  match s.toList with
  | [] => none
  | cs => cs.foldl (fun acc c => match acc, digitVal c with | some a, some d => some (10 * a + d) | _, _ => none) (some 0)

def decodeExpr : Nat → List String → Option (Expr × List String)
  | 0, _ => none
  | fuel + 1, ts =>
    match ts with
    | [] => none
    | k :: r =>
      if k == "var" then match r with | v :: r => some (.var v, r) | _ => none
      else if k == "nil" then some (.nil, r)
      else if k == "int" then match r with | n :: r => (decodeNat n).map fun n => (.int n, r) | _ => none
      else if k == "str" then match r with | s :: r => some (.str s, r) | _ => none
      else if k == "bool" then
        match r with
        | b :: r => if b == "true" then some (.bool true, r) else if b == "false" then some (.bool false, r) else none
        | _ => none
      else if k == "eof" then some (.eof, r)
      else if k == "fld" then
        match r with
        | f :: r => (decodeExpr fuel r).map fun (e, r) => (.fld f e, r)
        | _ => none
      else if k == "idx" then
        match r with
        | i :: r => match decodeNat i with
          | some i => (decodeExpr fuel r).map fun (e, r) => (.idx i e, r)
          | none => none
        | _ => none
      else if k == "from" then
        match r with
        | i :: r => match decodeNat i with
          | some i => (decodeExpr fuel r).map fun (e, r) => (.from i e, r)
          | none => none
        | _ => none
      else if k == "len" then (decodeExpr fuel r).map fun (e, r) => (.len e, r)
      else if k == "append" then
        match decodeExpr fuel r with
        | some (a, r1) => (decodeExpr fuel r1).map fun (b, r2) => (.append a b, r2)
        | none => none
      else if k == "emptyslice" then match r with | ty :: r => some (.emptySlice ty, r) | _ => none
      else if k == "nopr" then some (.nopR, r)
      else if k == "nopw" then some (.nopW, r)
      else if k == "newmulti" then (decodeExpr fuel r).map fun (e, r) => (.newMulti e, r)
      else none

/-- an expression that fills the rest of an item -/
def decodeExprAll (ts : List String) : Option Expr :=
  match decodeExpr (ts.length + 1) ts with
  | some (e, []) => some e
  | _ => none

/-- expressions that fill the rest of an item -/
def decodeExprs : Nat → List String → Option (List Expr)
  | 0, _ => none
  | _ + 1, [] => some []
  | fuel + 1, ts =>
    match decodeExpr (ts.length + 1) ts with
    | some (e, r) => (decodeExprs fuel r).map (e :: ·)
    | none => none

def decodeCond : Nat → List String → Option (Cond × List String)
  | 0, _ => none
  | fuel + 1, ts =>
    match ts with
    | [] => none
    | k :: r =>
      if k == "eq" || k == "ne" || k == "gt" then
        match decodeExpr (r.length + 1) r with
        | some (a, r1) =>
          (decodeExpr (r1.length + 1) r1).map fun (b, r2) =>
            ((if k == "eq" then .eq a b else if k == "ne" then .ne a b else .gt a b), r2)
        | none => none
      else if k == "and" || k == "or" then
        match decodeCond fuel r with
        | some (a, r1) => (decodeCond fuel r1).map fun (b, r2) => ((if k == "and" then .and a b else .or a b), r2)
        | none => none
      else none

def decodeTarget : List String → Option (Target × List String)
  | [] => none
  | k :: r =>
    if k == "blank" then some (.blank, r)
    else if k == "def" then match r with | v :: r => some (.def_ v, r) | _ => none
    else if k == "set" then match r with | v :: r => some (.set v, r) | _ => none
    else if k == "fset" then match r with | v :: f :: r => some (.fset v f, r) | _ => none
    else none

/-- an item that is a statement by itself -/
def decodeSimple (k : String) (a : List String) : Option Stmt :=
  if k == "read" then
    match decodeTarget a with
    | some (t1, r1) =>
      match decodeTarget r1 with
      | some (t2, b :: r2) => (decodeExprAll r2).map (.read t1 t2 b ·)
      | _ => none
    | none => none
  else if k == "close" then
    match decodeTarget a with
    | some (t, r) => (decodeExprAll r).map (.close t ·)
    | none => none
  else if k == "open" then
    match decodeTarget a with
    | some (t1, r1) =>
      match decodeTarget r1 with
      | some (t2, r2) => (decodeExprAll r2).map (.open_ t1 t2 ·)
      | none => none
    | none => none
  else if k == "assign" then
    match decodeTarget a with
    | some (t, r) => (decodeExprAll r).map (.assign t ·)
    | none => none
  else if k == "setelem" then
    match a with
    | v :: f :: i :: r =>
      match decodeNat i with
      | some i => (decodeExprAll r).map (.setElem v f i ·)
      | none => none
    | _ => none
  else if k == "vardecl" then match a with | [v, ty] => some (.varDecl v ty) | _ => none
  else if k == "continue" then match a with | [] => some .continue_ | _ => none
  else if k == "return" then
    match a with
    | n :: r =>
      match decodeNat n, decodeExprs (r.length + 1) r with
      | some n, some es => if es.length = n then some (.ret es) else none
      | _, _ => none
    | _ => none
  else if k == "returncall" then match a with | f :: r => (decodeExprAll r).map (.retCall f ·) | _ => none
  else if k == "returnisterm" then match a with | [v] => some (.retIsTerm v) | _ => none
  else none

mutual
/-- statements up to the end of the input or the next `["end"]` / `["else"]` / `["case", T]` / `["default"]`
    (which is left in place) -/
def decodeBlock : Nat → List (List String) → Option (List Stmt × List (List String))
  | 0, _ => none
  | _ + 1, [] => some ([], [])
  | fuel + 1, it :: rest =>
    match it with
    | [] => none
    | k :: a =>
      if k == "end" || k == "else" || k == "case" || k == "default" then some ([], it :: rest)
      else if k == "while" then
        match decodeCond (a.length + 1) a with
        | some (c, []) =>
          match decodeBlock fuel rest with
          | some (body, ["end"] :: rest2) =>
            match decodeBlock fuel rest2 with
            | some (more, rest3) => some (.while_ c body :: more, rest3)
            | none => none
          | _ => none
        | _ => none
      else if k == "forever" || k == "scope" then
        match a with
        | [] =>
          match decodeBlock fuel rest with
          | some (body, ["end"] :: rest2) =>
            match decodeBlock fuel rest2 with
            | some (more, rest3) => some ((if k == "forever" then .forever body else .scope body) :: more, rest3)
            | none => none
          | _ => none
        | _ => none
      else if k == "range" then
        match a with
        | v :: e =>
          match decodeExprAll e, decodeBlock fuel rest with
          | some e, some (body, ["end"] :: rest2) =>
            match decodeBlock fuel rest2 with
            | some (more, rest3) => some (.range v e body :: more, rest3)
            | none => none
          | _, _ => none
        | _ => none
      else if k == "typeswitch" then
        match a with
        | [v, r] =>
          match decodeCases fuel v r rest with
          | some (sw, rest2) =>
            match decodeBlock fuel rest2 with
            | some (more, rest3) => some (sw ++ more, rest3)
            | none => none
          | none => none
        | _ => none
      else if k == "if" then
        match decodeCond (a.length + 1) a with
        | some (c, []) =>
          match decodeBlock fuel rest with
          | some (t, ["end"] :: rest2) =>
            match decodeBlock fuel rest2 with
            | some (more, rest3) => some (.ite c t [] :: more, rest3)
            | none => none
          | some (t, ["else"] :: rest2) =>
            match decodeBlock fuel rest2 with
            | some (e, ["end"] :: rest3) =>
              match decodeBlock fuel rest3 with
              | some (more, rest4) => some (.ite c t e :: more, rest4)
              | none => none
            | _ => none
          | _ => none
        | _ => none
      else
        match decodeSimple k a with
        | some s =>
          match decodeBlock fuel rest with
          | some (more, rest2) => some (s :: more, rest2)
          | none => none
        | none => none

/-- the clauses of a type switch up to its `["end"]`, as a chain -/
def decodeCases : Nat → String → String → List (List String) → Option (List Stmt × List (List String))
  | 0, _, _, _ => none
  | fuel + 1, v, r, items =>
    match items with
    | ["end"] :: rest => some ([], rest)
    | ["case", ty] :: rest =>
      match decodeBlock fuel rest with
      | some (body, rest2) =>
        match decodeCases fuel v r rest2 with
        | some (els, rest3) => if ty == "" then none else some ([.typeCase v r ty body els], rest3)
        | none => none
      | none => none
    | ["default"] :: rest =>
      match decodeBlock fuel rest with
      | some (body, ["end"] :: rest2) => some ([.typeCase v r "" body []], rest2)
      | _ => none
    | _ => none
end

def decodeBody (items : List (List String)) : Option (List Stmt) :=
  match decodeBlock (items.length + 1) items with
  | some (b, []) => some b
  | _ => none

/-- a translated function: parameters (name, type), the receiver first; results (name or "", type); body -/
structure FuncIR where
  params : List (String × String)
  results : List (String × String)
  body : List Stmt
  deriving Repr

/-- the unit regenerated for the Go function `name` -/
def unitOf (name : String) : Option FuncIR :=
  match Facts.cliIOIR.find? (·.1 == name) with
  | some (_, ps, rs, items) => (decodeBody items).map fun b => ⟨ps, rs, b⟩
  | none => none

/-! ### values and state -/

inductive IErr
  | panic             -- what the Go code does: a run-time panic
  | stuck             -- the IR is not understood
  | fuel              -- a `for` loop was cut off
  deriving DecidableEq, Repr

abbrev M := Except IErr
def goPanic {α : Type} : M α := .error .panic
def stuck {α : Type} : M α := .error .stuck

/-- an `error` value: nil, `io.EOF`, anything else -/
inductive GoErr
  | nil | eof | other
  deriving DecidableEq, Repr

def GoErr.ofStatus : Status → GoErr
  | .ok => .nil
  | .eof => .eof
  | .err => .other

/-- a non-nil reader value: the object, and whether it is wrapped in a `nopReadCloser` -/
structure RC where
  h : Nat
  nop : Bool
  deriving DecidableEq, Repr

/-- a non-nil `io.WriteCloser` -/
inductive WC
  | stdoutNop                              -- nopWriteCloser{os.Stdout}
  | file (path : String)                   -- the *os.File of os.Create(path)
  deriving DecidableEq, Repr

inductive Val
  | int (n : Int)
  | str (s : String)
  | bool (b : Bool)
  | strs (l : List String)                 -- []string
  | err (e : GoErr)
  | rc (r : Option RC)                     -- io.ReadCloser / io.Reader / *os.File (none = nil)
  | rcs (l : List (Option RC))             -- []io.ReadCloser
  | mrcRef                                 -- the receiver `mrc` (its field is `State.readers`)
  | mrcNew (l : List (Option RC))          -- &multiReadCloser{l}
  | wc (w : Option WC)                     -- io.WriteCloser
  | buf                                    -- the []byte parameter
  | nil                                    -- the untyped nil
  deriving DecidableEq, Repr

structure State where
  vars : List (String × Val)               -- innermost first
  objs : List Reader                       -- the reader objects; object 0 is os.Stdin
  readers : List (Option RC) := []         -- mrc.readers of the receiver
  closed : List Nat := []                  -- Close calls that reached a file, in order
  created : List String := []              -- os.Create calls that succeeded, in order
  data : Bytes := []                       -- what the last Read put into p[:n]

/-- the operating system, as far as the translated functions use it -/
structure Env where
  openFile : String → Option Reader        -- os.Open (none = error)
  closeFails : Nat → Bool := fun _ => false   -- does Close of the object report an error
  createFails : String → Bool := fun _ => false
  isTTY : Nat → Bool := fun _ => false     -- term.IsTerminal(int(f.Fd())) of the object

inductive Flow
  | next
  | cont
  | ret (vs : List Val)

def State.get (st : State) (v : String) : M Val :=
  match st.vars.find? (·.1 == v) with
  | some kv => .ok kv.2
  | none => stuck

def State.declare (st : State) (v : String) (x : Val) : State :=
  if v == "_" then st else { st with vars := (v, x) :: st.vars }

def assignIn (v : String) (x : Val) : List (String × Val) → Option (List (String × Val))
  | [] => none
  | kv :: r => if kv.1 == v then some ((v, x) :: r) else (assignIn v x r).map (kv :: ·)

def State.assign (st : State) (v : String) (x : Val) : M State :=
  match assignIn v x st.vars with
  | some vars => .ok { st with vars := vars }
  | none => stuck

/-- leaving a block: the variables it declared go out of scope; everything else stays -/
def State.leave (st outer : State) : State :=
  { st with vars := st.vars.drop (st.vars.length - outer.vars.length) }

/-! ### expressions, conditions -/

/-- a value stored into an `io.ReadCloser` slot -/
def asRC : Val → M (Option RC)
  | .rc r => .ok r
  | .nil => .ok none
  | _ => stuck

def asRCs : Val → M (List (Option RC))
  | .rcs l => .ok l
  | .nil => .ok []
  | _ => stuck

def eval (st : State) : Expr → M Val
  | .var v => st.get v
  | .nil => .ok .nil
  | .int n => .ok (.int n)
  | .str s => .ok (.str s)
  | .bool b => .ok (.bool b)
  | .eof => .ok (.err .eof)
  | .fld f e => do
    match ← eval st e with
    | .mrcRef => if f == "readers" then pure (.rcs st.readers) else stuck
    | .rc (some ⟨h, true⟩) => if f == "Reader" then pure (.rc (some ⟨h, false⟩)) else stuck
    | _ => stuck
  | .idx i e => do
    match ← eval st e with
    | .rcs l => match l[i]? with | some x => pure (.rc x) | none => goPanic
    | .strs l => match l[i]? with | some x => pure (.str x) | none => goPanic
    | .nil => goPanic
    | _ => stuck
  | .from i e => do
    match ← eval st e with
    | .rcs l => if i ≤ l.length then pure (.rcs (l.drop i)) else goPanic
    | .strs l => if i ≤ l.length then pure (.strs (l.drop i)) else goPanic
    | _ => stuck
  | .len e => do
    match ← eval st e with
    | .rcs l => pure (.int l.length)
    | .strs l => pure (.int l.length)
    | .nil => pure (.int 0)
    | _ => stuck
  | .append a b => do
    let l ← eval st a >>= asRCs
    let x ← eval st b >>= asRC
    pure (.rcs (l ++ [x]))
  | .emptySlice ty => if ty == "io.ReadCloser" then .ok (.rcs []) else stuck
  | .nopR => .ok (.rc (some ⟨0, true⟩))
  | .nopW => .ok (.wc (some .stdoutNop))
  | .newMulti e => do
    let l ← eval st e >>= asRCs
    pure (.mrcNew l)

def valEq : Val → Val → M Bool
  | .int a, .int b => .ok (decide (a = b))
  | .str a, .str b => .ok (decide (a = b))
  | .err a, .err b => .ok (decide (a = b))
  | .err a, .nil => .ok (decide (a = .nil))
  | .nil, .err a => .ok (decide (a = .nil))
  | _, _ => stuck

def evalCond (st : State) : Cond → M Bool
  | .eq a b => do valEq (← eval st a) (← eval st b)
  | .ne a b => do pure (!(← valEq (← eval st a) (← eval st b)))
  | .gt a b => do
    match ← eval st a, ← eval st b with
    | .int x, .int y => pure (decide (x > y))
    | _, _ => stuck
  | .and a b => do if ← evalCond st a then evalCond st b else pure false
  | .or a b => do if ← evalCond st a then pure true else evalCond st b

/-! ### statements -/

/-- the untyped nil stored where a value like `old` lives -/
def nilLike (old : Val) : Val → Val
  | .nil =>
    match old with
    | .err _ => .err .nil
    | .rc _ => .rc none
    | .rcs _ => .rcs []
    | .wc _ => .wc none
    | _ => .nil
  | x => x

/-- the untyped nil returned as a result of the type `ty` -/
def nilAs (ty : String) : Val → Val
  | .nil =>
    if ty == "error" then .err .nil
    else if ty == "io.ReadCloser" then .rc none
    else if ty == "io.WriteCloser" then .wc none
    else .nil
  | x => x

def assignTo (st : State) : Target → Val → M State
  | .blank, _ => .ok st
  | .def_ v, x => .ok (st.declare v x)
  | .set v, x => do st.assign v (nilLike (← st.get v) x)
  | .fset v f, x => do
    match ← st.get v with
    | .mrcRef => if f == "readers" then do pure { st with readers := ← asRCs x } else stuck
    | _ => stuck

/-- `x.Read(p)` on the reader value `x`: the result, the state with the object advanced and `p[:n]` filled -/
def readObj (st : State) : Option RC → M (ReadResult × State)
  | none => goPanic
  | some ⟨h, _⟩ =>
    match st.objs[h]? with
    | some r => .ok ((Reader.read r).1, { st with objs := st.objs.set h (Reader.read r).2, data := (Reader.read r).1.1 })
    | none => stuck

/-- `x.Close()` -/
def closeObj (env : Env) (st : State) : Option RC → M (GoErr × State)
  | none => goPanic
  | some ⟨_, true⟩ => .ok (.nil, st)
  | some ⟨h, false⟩ => .ok (if env.closeFails h then .other else .nil, { st with closed := st.closed ++ [h] })

/-- `os.Open(path)`: the two results, the state with the new object -/
def openPath (env : Env) (st : State) (path : String) : Val × Val × State :=
  match env.openFile path with
  | some r => (.rc (some ⟨st.objs.length, false⟩), .err .nil, { st with objs := st.objs ++ [r] })
  | none => (.rc none, .err .other, st)

/-- `os.Create(path)` -/
def createPath (env : Env) (st : State) (path : String) : Val × Val × State :=
  if env.createFails path then (.wc none, .err .other, st)
  else (.wc (some (.file path)), .err .nil, { st with created := st.created ++ [path] })

def evalAll (st : State) : List Expr → M (List Val)
  | [] => .ok []
  | e :: es => do
    let v ← eval st e
    let vs ← evalAll st es
    pure (v :: vs)

def getAll (st : State) : List String → M (List Val)
  | [] => .ok []
  | v :: vs => do
    let x ← st.get v
    let xs ← getAll st vs
    pure (x :: xs)

/-- does the dynamic type of an interface value match the case type ("" = default) -/
def typeMatches (ty : String) : Val → Bool
  | .rc (some ⟨_, nop⟩) => ty == "" || (ty == "*os.File" && !nop) || (ty == "nopReadCloser" && nop)
  | _ => ty == ""

/-- a `for` loop with `n` iterations left: `continue` starts the next iteration -/
def loopN (cond : State → M Bool) (body : State → M (Flow × State)) : Nat → State → M (Flow × State)
  | 0, _ => .error .fuel
  | n + 1, st => do
    if ← cond st then
      let (f, st1) ← body st
      match f with
      | .ret vs => pure (.ret vs, st1.leave st)
      | _ => loopN cond body n (st1.leave st)
    else pure (.next, st)

/-- `for _, elem := range xs { body }` -/
def rangeLoop (elem : String) (body : State → M (Flow × State)) : List Val → State → M (Flow × State)
  | [], st => .ok (.next, st)
  | x :: xs, st => do
    let (f, st1) ← body (st.declare elem x)
    match f with
    | .ret vs => pure (.ret vs, st1.leave st)
    | _ => rangeLoop elem body xs (st1.leave st)

def elemsOf : Val → M (List Val)
  | .rcs l => .ok (l.map .rc)
  | .strs l => .ok (l.map .str)
  | .nil => .ok []
  | _ => stuck

mutual
/-- `res`: the names of the named results (for a bare `return`) -/
def exec (env : Env) (res : List String) (fuel : Nat) : Stmt → State → M (Flow × State)
  | .while_ c body, st => loopN (fun s => evalCond s c) (execBlock env res fuel body) fuel st
  | .forever body, st => loopN (fun _ => .ok true) (execBlock env res fuel body) fuel st
  | .range v e body, st => do
    let xs ← eval st e >>= elemsOf
    rangeLoop v (execBlock env res fuel body) xs st
  | .ite c t e, st => do
    let b ← evalCond st c
    let (f, st1) ← if b then execBlock env res fuel t st else execBlock env res fuel e st
    pure (f, st1.leave st)
  | .scope body, st => do
    let (f, st1) ← execBlock env res fuel body st
    pure (f, st1.leave st)
  | .read tn te b r, st => do
    match ← st.get b with
    | .buf => do
      let x ← eval st r >>= asRC
      let (rr, st1) ← readObj st x
      let st2 ← assignTo st1 tn (.int rr.1.length)
      let st3 ← assignTo st2 te (.err (GoErr.ofStatus rr.2))
      pure (.next, st3)
    | _ => stuck
  | .close t r, st => do
    let x ← eval st r >>= asRC
    let (e, st1) ← closeObj env st x
    pure (.next, ← assignTo st1 t (.err e))
  | .open_ tf te p, st => do
    match ← eval st p with
    | .str path => do
      let (f, e, st1) := openPath env st path
      let st2 ← assignTo st1 tf f
      pure (.next, ← assignTo st2 te e)
    | _ => stuck
  | .assign t e, st => do
    let x ← eval st e
    pure (.next, ← assignTo st t x)
  | .setElem v f i e, st => do
    match ← st.get v with
    | .mrcRef =>
      if f == "readers" then do
        let x ← eval st e >>= asRC
        if i < st.readers.length then pure (.next, { st with readers := st.readers.set i x }) else goPanic
      else stuck
    | _ => stuck
  | .varDecl v ty, st => if ty == "error" then .ok (.next, st.declare v (.err .nil)) else stuck
  | .continue_, st => .ok (.cont, st)
  | .ret es, st => do
    if es.isEmpty then pure (.ret (← getAll st res), st)
    else pure (.ret (← evalAll st es), st)
  | .retCall f e, st => do
    match ← eval st e with
    | .str path =>
      if f == "open" then
        let (x, err, st1) := openPath env st path
        pure (.ret [x, err], st1)
      else if f == "create" then
        let (x, err, st1) := createPath env st path
        pure (.ret [x, err], st1)
      else stuck
    | _ => stuck
  | .typeCase v r ty body els, st => do
    let x ← st.get r
    if typeMatches ty x then do
      let (f, st1) ← execBlock env res fuel body (st.declare v x)
      pure (f, st1.leave st)
    else execBlock env res fuel els st
  | .retIsTerm v, st => do
    match ← st.get v with
    | .rc (some ⟨h, false⟩) => pure (.ret [.bool (env.isTTY h)], st)
    | _ => stuck

def execBlock (env : Env) (res : List String) (fuel : Nat) : List Stmt → State → M (Flow × State)
  | [], st => .ok (.next, st)
  | s :: r, st => do
    let (f, st1) ← exec env res fuel s st
    match f with
    | .next => execBlock env res fuel r st1
    | _ => pure (f, st1)
end

/-! ### running a function -/

def zeroOf (ty : String) : Option Val :=
  if ty == "int" then some (.int 0) else if ty == "error" then some (.err .nil) else none

/-- the named results, at their zero values -/
def resultVars : List (String × String) → Option (List (String × Val))
  | [] => some []
  | (n, ty) :: r =>
    if n == "" then resultVars r
    else match zeroOf ty, resultVars r with
      | some z, some zs => some ((n, z) :: zs)
      | _, _ => none

def bindParams : List (String × String) → List Val → Option (List (String × Val))
  | [], [] => some []
  | (n, _) :: ps, v :: vs => (bindParams ps vs).map ((n, v) :: ·)
  | _, _ => none

/-- call the function with the arguments `args` in the world `w` (its `vars` are ignored): what it returns, and
    the world afterwards -/
def runFn (env : Env) (fuel : Nat) (fn : FuncIR) (args : List Val) (w : State) : M (List Val × State) :=
  match bindParams fn.params args, resultVars fn.results with
  | some ps, some rs => do
    let (f, st) ← execBlock env ((fn.results.map (·.1)).filter (· != "")) fuel fn.body { w with vars := (ps ++ rs).reverse }
    match f with
    | .ret vs => if vs.length = fn.results.length then pure (List.zipWith nilAs (fn.results.map (·.2)) vs, st) else stuck
    | _ => stuck
  | _, _ => stuck

/-- the function regenerated for `name` -/
def runUnit (env : Env) (fuel : Nat) (name : String) (args : List Val) (w : State) : M (List Val × State) :=
  match unitOf name with
  | some fn => runFn env fuel fn args w
  | none => stuck

end Pql.CliIOIR
