/-
Interpreter for the IR of the expression layer of pql.go and of the front part of `Compile` that
`harness/extract_expr.go` regenerates from the Go source on every run (`Facts.exprIR`, `Facts.exprFns`):
`writeExpression` (the paren-unwrapping loop, the type switch, the QualifiedIdent / BasicLit / UnaryExpr /
default cases in full, the other cases down to the statement ranges that are templates of
`Facts.writeTemplates`), `writeExpressionMaybeParen`, `writeExpressionTight`, `hasJoinTerms`, every
`write*Function` (arity guard, then its template) and `(*CompileOptions).Compile` from its start up to the
call of `splitQueries` (the statement assembly after that call is the unit `Compile` of `Facts.writeIR`,
interpreted by `WriteIR.interpAssembly`).

The regenerated form is flat (a unit is a list of items, an item a list of strings, blocks closed by
`["end"]`); `decode` turns a unit into the statement tree `Stmt` (a `switch` becomes the chain of
`if … else if … else` it abbreviates: Go's switches here have constant, distinct labels, no
`fallthrough` and `default` last — the translator checks that), `exec` runs a statement tree on a state:
the Go variables in scope (innermost first) and what has been written to the string builder `sb`.

Control flow is explicit (`Flow`).  Go run-time failures are explicit: a nil dereference, an index out of
range, `Walk` reaching a nil interface is `IErr.go .panic`; an error return is `IErr.go .err`.
`IErr.stuck` is kept apart: the IR is not understood (unknown item, variable not in scope, value of the
wrong type).  The model never yields `stuck`, so a theorem `interpretation = liftW model` excludes it.

Primitives that are NOT interpreted from translated code: `parser.Parse`, `splitQueries` and the callee
of a call are parameters (`Sem`); `parser.Walk` is the Walk model (`walk` for the panic, `allNodes` for
the nodes handed to the visitor, which must answer `true`); a template range is `Tmpl.interp` on the
operands written with `Sem.plain` in source order (as in Props/C01Templates.lean); `range` over a map
visits the entries in the order `Sem.mapOrder` gives (Go leaves it unspecified).
-/
import PqlModel.Model.Tmpl
import PqlModel.Model.ExprIRSyntax
import PqlModel.Lemmas.WalkLemmas
namespace Pql.ExprIR
open Pql
open Pql.WriteIR (M IErr liftW goPanic stuck Path)

/-! ### values and state -/

/-- what a Go variable of the translated code can hold -/
inductive Val
  | expr (e : Expr)                              -- parser.Expr (possibly the nil interface) or a node pointer
  | exprs (l : ExprList)                         -- []parser.Expr
  | ident (i : Option Ident)                     -- *parser.Ident
  | idents (l : List Ident)                      -- []*parser.Ident
  | node (n : Node)                              -- parser.Node (in the visitor of Walk)
  | str (b : Bytes)                              -- string (source text: a name, a literal's value, the source)
  | sql (cs : List Chunk)                        -- string holding SQL text (a scope entry)
  | text (s : String)                            -- string from a table of the package
  | bool (b : Bool)
  | nat (n : Nat)
  | tok (k : TokKind)                            -- parser.TokenKind
  | mode (m : Mode)                              -- exprMode
  | fn (f : Option (String × Bool))              -- *functionRewrite: (writer, needsParens); nil if absent
  | scope (sc : List (Bytes × List Chunk))       -- map[string]string (most recent assignment first)
  | params (ps : List (Bytes × Bytes))           -- map[string]string (the caller's)
  | opts (o : Option (List (Bytes × Bytes)))     -- *CompileOptions
  | stmts (l : List Pql.Stmt)                    -- []parser.Statement
  | stmt (s : Pql.Stmt)                          -- parser.Statement
  | tab (t : Tabular)                            -- *parser.TabularExpr (`Tabular.nil` = nil)
  | subs (l : List Subquery)                     -- []*subquery
  | ctx (c : Ctx) (alias : Option String)        -- *exprContext; `alias`: the variable its scope map is

structure State where
  vars : List (String × Val)                     -- innermost first
  out : List Chunk := []                         -- written to `sb` so far

inductive Flow
  | next                                         -- the statement completed
  | cont                                         -- continue (innermost loop)
  | ret                                          -- return (results, if any, are in named variables)
  | vret (b : Bool)                              -- return b (visitor closure)
  deriving DecidableEq, Repr

structure Sem where
  plain : Ctx → Expr → M (List Chunk)            -- writeExpression
  maybe : Ctx → Expr → M (List Chunk)            -- writeExpressionMaybeParen
  tight : Ctx → Expr → M (List Chunk)            -- writeExpressionTight
  hasJoin : Expr → M (Bool × Bool)               -- hasJoinTerms
  known : String → Ctx → Expr → M (List Chunk)   -- the write*Function named, on a *CallExpr
  parse : Bytes → Option (List Pql.Stmt)         -- parser.Parse (none = error)
  split : Bytes → List (Bytes × List Chunk) → Tabular → M (List Subquery)   -- splitQueries(nil, …)
  mapOrder : List (Bytes × Bytes) → List (Bytes × Bytes)                    -- order of `range` over a map

def State.get (st : State) (v : String) : M Val :=
  match st.vars.find? (·.1 == v) with
  | some kv => .ok kv.2
  | none => stuck

/-- `v := x`; a blank `_` declares nothing -/
def State.declare (st : State) (v : String) (x : Val) : State :=
  if v == "_" then st else { st with vars := (v, x) :: st.vars }

def assignIn (v : String) (x : Val) : List (String × Val) → Option (List (String × Val))
  | [] => none
  | kv :: r => if kv.1 == v then some ((v, x) :: r) else (assignIn v x r).map (kv :: ·)

def State.assign (st : State) (v : String) (x : Val) : M State :=
  match assignIn v x st.vars with
  | some vars => .ok { st with vars := vars }
  | none => stuck

/-- leaving a block: the variables it declared go out of scope, assignments to outer ones stay -/
def State.leave (st outer : State) : State :=
  { st with vars := st.vars.drop (st.vars.length - outer.vars.length) }

def State.emit (st : State) (cs : List Chunk) : State := { st with out := st.out ++ cs }

/-! ### fields -/

def isNilExpr : Expr → Bool
  | .nil => true
  | _ => false

def nameOf : Option Ident → M Bytes
  | some n => .ok n.name
  | none => goPanic

/-- a value-valued path (for `:=` and `=`) -/
def valAt (x : Val) (f : String) : M Val :=
  if f == "" then .ok x
  else
    match x with
    | .expr .nil => goPanic
    | .expr (.qident parts) =>
      if f == "Parts[0]" then
        match parts with
        | p :: _ => .ok (.ident (some p))
        | [] => goPanic
      else stuck
    | _ => stuck

/-- an expression-valued path -/
def exprAt (x : Val) (f : String) : M Expr :=
  match x with
  | .expr e =>
    if f == "" then .ok e
    else
      match e with
      | .nil => goPanic
      | .unary _ _ y => if f == "X" then .ok y else stuck
      | .binary a _ _ b => if f == "X" then .ok a else if f == "Y" then .ok b else stuck
      | .paren _ y _ => if f == "X" then .ok y else stuck
      | _ => stuck
  | .stmt (.let_ _ _ _ y) => if f == "X" then .ok y else stuck
  | _ => stuck

/-- a string-valued path (source text) -/
def strAt (x : Val) (f : String) : M Bytes :=
  match x with
  | .str b => if f == "" then .ok b else stuck
  | .ident i => if f == "Name" then nameOf i else stuck
  | .expr .nil => goPanic
  | .expr (.lit _ _ v) => if f == "Value" then .ok v else stuck
  | .expr (.call fn _ _ _) => if f == "Func.Name" then .ok fn.name else stuck
  | .stmt (.let_ _ name _ _) => if f == "Name.Name" then nameOf name else stuck
  | _ => stuck

def tokAt (x : Val) (f : String) : M TokKind :=
  match x with
  | .expr .nil => goPanic
  | .expr (.lit _ k _) => if f == "Kind" then .ok k else stuck
  | .expr (.unary _ op _) => if f == "Op" then .ok op else stuck
  | .expr (.binary _ _ op _) => if f == "Op" then .ok op else stuck
  | _ => stuck

def flagAt (x : Val) (f : String) : M Bool :=
  match x with
  | .ident none => goPanic
  | .ident (some i) => if f == "Quoted" then .ok i.quoted else stuck
  | .fn none => goPanic
  | .fn (some w) => if f == "needsParens" then .ok w.2 else stuck
  | _ => stuck

def lenAt (x : Val) (f : String) : M Nat :=
  match x with
  | .expr .nil => goPanic
  | .expr (.qident parts) => if f == "Parts" then .ok parts.length else stuck
  | .expr (.call _ _ args _) => if f == "Args" then .ok args.length else stuck
  | _ => stuck

/-- a slice-valued path (for `range`) -/
def listAt (x : Val) (f : String) : M (List Val) :=
  match x with
  | .expr .nil => goPanic
  | .expr (.qident parts) => if f == "Parts" then .ok (parts.map fun i => .ident (some i)) else stuck
  | .stmts l => if f == "" then .ok (l.map .stmt) else stuck
  | _ => stuck

/-- `path == nil` -/
def nilAt (x : Val) (f : String) : M Bool :=
  if f == "" then
    match x with
    | .expr e => .ok (isNilExpr e)
    | .tab .nil => .ok true
    | .tab (.mk ..) => .ok false
    | .fn w => .ok w.isNone
    | .opts o => .ok o.isNone
    | .ident i => .ok i.isNone
    | _ => stuck
  else stuck

def modeOf (m : String) : M Mode :=
  if m == "" then .ok .default              -- the zero value of exprMode, `defaultExprMode`
  else if m == "defaultExprMode" then .ok .default
  else if m == "joinExprMode" then .ok .join
  else if m == "letExprMode" then .ok .let_
  else stuck

def constOf (c : String) : M String :=
  if c == "leftJoinTableAlias" then .ok Facts.leftJoinTableAlias
  else if c == "rightJoinTableAlias" then .ok Facts.rightJoinTableAlias
  else stuck

def scopeOf : Val → M (List (Bytes × List Chunk))
  | .scope sc => .ok sc
  | _ => stuck

/-- the `*exprContext` a variable holds, its scope read through the alias if it has one -/
def State.ctxOf (st : State) (v : String) : M Ctx := do
  match ← st.get v with
  | .ctx c none => pure c
  | .ctx c (some a) => do
    let sc ← st.get a >>= scopeOf
    pure { c with scope := sc }
  | _ => stuck

def modeAt (st : State) (p : Path) : M Mode :=
  if p.fields == "mode" then (st.ctxOf p.root).map (·.mode) else stuck

/-- Go's `%T` of an expression value -/
def goTypeOf (e : Expr) : String :=
  match e with
  | .nil => "<nil>"
  | e => "*parser." ++ exprTypeName e

def stmtTypeName : Pql.Stmt → String
  | .let_ .. => "LetStatement"
  | .tabular _ => "TabularExpr"

/-- `v, ok := x.(*parser.ty)`: `some b` = the assertion holds and `v` is bound to `b` -/
def assertType (x : Val) (ty : String) : M (Option Val) :=
  match x with
  | .expr e => .ok (if exprTypeName e == ty then some (.expr e) else none)
  | .node (.ident i) => .ok (if ty == "Ident" then some (.ident i) else none)
  | .node _ => if ty == "Ident" then .ok none else stuck     -- only `*parser.Ident` is asserted of a node
  | .stmt (.tabular t) => .ok (if ty == "TabularExpr" then some (.tab t) else none)
  | .stmt (.let_ kw n a y) => .ok (if ty == "LetStatement" then some (.stmt (.let_ kw n a y)) else none)
  | _ => stuck

/-- `v, ok := m[key]` -/
def mapLookup (st : State) (m : String) (p : Path) : M (Option Val) := do
  let x ← st.get p.root
  if m == "ctx.scope" then do
    let c ← st.ctxOf "ctx"
    let key ← strAt x p.fields
    pure ((lookupScope c.scope key).map .sql)
  else if m == "builtinIdentifiers" then do
    let key ← strAt x p.fields
    pure ((builtinIdent key).map .text)
  else if m == "binaryOps" then do
    let k ← tokAt x p.fields
    pure ((binaryOpText k).map .text)
  else stuck

/-- value of a condition and what a successful type assertion / map lookup binds -/
def evalCond (st : State) : Cond → M (Bool × List (String × Val))
  | .or a b => do
    let (x, _) ← evalCond st a
    if x then pure (true, []) else do
      let (y, _) ← evalCond st b
      pure (y, [])
  | .and a b => do
    let (x, _) ← evalCond st a
    if x then do
      let (y, _) ← evalCond st b
      pure (y, [])
    else pure (false, [])
  | .not a => do
    let (x, _) ← evalCond st a
    pure (!x, [])
  | .var v => do
    match ← st.get v with
    | .bool b => pure (b, [])
    | _ => stuck
  | .flag p => do
    let b ← st.get p.root >>= (flagAt · p.fields)
    pure (b, [])
  | .isNil p => do
    let b ← st.get p.root >>= (nilAt · p.fields)
    pure (b, [])
  | .notNil p => do
    let b ← st.get p.root >>= (nilAt · p.fields)
    pure (!b, [])
  | .lenEq p n => do
    let k ← st.get p.root >>= (lenAt · p.fields)
    pure (k == n, [])
  | .lenNe p n => do
    let k ← st.get p.root >>= (lenAt · p.fields)
    pure (k != n, [])
  | .gt0 i => do
    match ← st.get i with
    | .nat n => pure (decide (n > 0), [])
    | _ => stuck
  | .tokIs p k => do
    let t ← st.get p.root >>= (tokAt · p.fields)
    pure (t.goName == k, [])
  | .strEqC p c => do
    let s ← st.get p.root >>= (strAt · p.fields)
    let cv ← constOf c
    pure (s == Bytes.ofString cv, [])
  | .modeEq p m => do
    let a ← modeAt st p
    let b ← modeOf m
    pure (decide (a = b), [])
  | .modeNe p m => do
    let a ← modeAt st p
    let b ← modeOf m
    pure (decide (a ≠ b), [])
  | .typeIs v ty p => do
    let x ← st.get p.root >>= (valAt · p.fields)
    match ← assertType x ty with
    | some b => pure (true, if v == "_" then [] else [(v, b)])
    | none => pure (false, [])
  | .mapHas v m p => do
    match ← mapLookup st m p with
    | some b => pure (true, [(v, b)])
    | none => pure (false, [])

/-! ### statements -/

/-- the paren-unwrapping loop -/
def unparenLoop : Expr → Expr
  | .paren _ x _ => unparenLoop x
  | e => e

/-- what `sb.WriteString(path)` writes -/
def strChunks (x : Val) (f : String) : M (List Chunk) :=
  match x with
  | .sql cs => if f == "" then .ok cs else stuck
  | .text s => if f == "" then .ok [.txt s] else stuck
  | .expr .nil => goPanic
  | .expr (.lit _ _ v) => if f == "Value" then .ok [.num v] else stuck
  | _ => stuck

/-- a string value stored into the scope map -/
def sqlOfVal : Val → M (List Chunk)
  | .str b => .ok [.raw b]
  | .sql cs => .ok cs
  | _ => stuck

def callKind (sem : Sem) (kind : String) (c : Ctx) (e : Expr) : M (List Chunk) :=
  if kind == "plain" then sem.plain c e
  else if kind == "maybe" then sem.maybe c e
  else if kind == "tight" then sem.tight c e
  else stuck

/-- `writeExpression` on every element, in order -/
def plainAll (sem : Sem) (c : Ctx) : ExprList → M (List (List Chunk))
  | .nil => .ok []
  | .cons e es => do
    let x ← sem.plain c e
    let xs ← plainAll sem c es
    pure (x :: xs)

/-- a statement range that is a template: the operands are written with `writeExpression` in source
    order, then the template is instantiated (`Tmpl.interp`, which applies the MaybeParen / Tight
    wrapping) — the reading of Props/C01Templates.lean -/
def runTemplate (sem : Sem) (st : State) (key : String) : M (List Chunk) := do
  let c ← st.ctxOf "ctx"
  match ← st.get "x" with
  | .expr (.binary x _ _ y) => do
    let sqlOp ← (match st.vars.find? (·.1 == "sqlOp") with
      | some (_, .text s) => pure s
      | some _ => stuck
      | none => pure "" : M String)
    let xs ← sem.plain c x
    let ys ← sem.plain c y
    liftW (Tmpl.interp (Tmpl.binEnv (x, xs) (y, ys) sqlOp) (Tmpl.templateOf key))
  | .expr (.inE x _ _ vals _) => do
    let xs ← sem.plain c x
    let vs ← plainAll sem c vals
    liftW (Tmpl.interp (Tmpl.inEnv (x, xs) (vals.toList.zip vs)) (Tmpl.templateOf key))
  | .expr (.index x _ idx _) => do
    let xs ← sem.plain c x
    let is ← sem.plain c idx
    liftW (Tmpl.interp (Tmpl.indexEnv (x, xs) (idx, is)) (Tmpl.templateOf key))
  | .expr (.call fn _ args _) => do
    let as ← plainAll sem c args
    if key == "CallExpr:default" then
      liftW (Tmpl.interp (Tmpl.callEnv fn.name (args.toList.zip as)) (Tmpl.templateOf key))
    else
      liftW (Tmpl.interp (Tmpl.argsEnv (args.toList.zip as)) (Tmpl.templateOf key))
  | _ => stuck

/-- `for idx, elem := range xs { body }` -/
def forEach (idx elem : String) (body : State → M (Flow × State)) : Nat → List Val → State → M (Flow × State)
  | _, [], st => .ok (.next, st)
  | i, x :: xs, st => do
    let (f, st1) ← body ((st.declare idx (.nat i)).declare elem x)
    match f with
    | .ret => pure (.ret, st1.leave st)
    | .vret b => pure (.vret b, st1.leave st)
    | _ => forEach idx elem body (i + 1) xs (st1.leave st)

/-- `for k, v := range m { body }` over the entries in the given order -/
def forEntries (k v : String) (body : State → M (Flow × State)) : List (Bytes × Bytes) → State → M (Flow × State)
  | [], st => .ok (.next, st)
  | kv :: r, st => do
    let (f, st1) ← body ((st.declare k (.str kv.1)).declare v (.str kv.2))
    match f with
    | .ret => pure (.ret, st1.leave st)
    | .vret b => pure (.vret b, st1.leave st)
    | _ => forEntries k v body r (st1.leave st)

/-- the visitor closure on every node, in order; it must answer `true` -/
def visitAll (n : String) (body : State → M (Flow × State)) : List Node → State → M (Flow × State)
  | [], st => .ok (.next, st)
  | nd :: r, st => do
    let (f, st1) ← body (st.declare n (.node nd))
    match f with
    | .vret true => visitAll n body r (st1.leave st)
    | _ => stuck

def boolOf (b : String) : M Bool :=
  if b == "true" then .ok true else if b == "false" then .ok false else stuck

mutual
def exec (sem : Sem) : Stmt → State → M (Flow × State)
  | .lit s, st => .ok (.next, st.emit [.txt s])
  | .str p, st => do
    let cs ← st.get p.root >>= (strChunks · p.fields)
    pure (.next, st.emit cs)
  | .qid p, st => do
    let b ← st.get p.root >>= (strAt · p.fields)
    pure (.next, st.emit [.qid b])
  | .qstr p, st => do
    let b ← st.get p.root >>= (strAt · p.fields)
    pure (.next, st.emit [.qstr b])
  | .fprintfS pre suf p, st => do
    let k ← st.get p.root >>= (tokAt · p.fields)
    pure (.next, st.emit [.txt (pre ++ k.goName ++ suf)])
  | .fprintfT pre suf p, st => do
    let e ← st.get p.root >>= (exprAt · p.fields)
    pure (.next, st.emit [.txt (pre ++ goTypeOf e ++ suf)])
  | .write kind p, st => do
    let e ← st.get p.root >>= (exprAt · p.fields)
    let c ← st.ctxOf "ctx"
    let cs ← callKind sem kind c e
    pure (.next, st.emit cs)
  | .retWrite kind p, st => do
    let e ← st.get p.root >>= (exprAt · p.fields)
    let c ← st.ctxOf "ctx"
    let cs ← callKind sem kind c e
    pure (.ret, st.emit cs)
  | .callKnown f x, st => do
    match ← st.get f, ← st.get x with
    | .fn none, _ => goPanic
    | .fn (some w), .expr e => do
      let c ← st.ctxOf "ctx"
      let cs ← sem.known w.1 c e
      pure (.next, st.emit cs)
    | _, _ => stuck
  | .template key, st => do
    let cs ← runTemplate sem st key
    pure (.next, st.emit cs)
  | .retErr _ _ _, _ => .error (.go .err)
  | .errorf _, _ => .error (.go .err)
  | .ret, st => .ok (.ret, st)
  | .visitRet b, st => do
    let v ← boolOf b
    pure (.vret v, st)
  | .continue_, st => .ok (.cont, st)
  | .def_ v p, st => do
    let x ← st.get p.root >>= (valAt · p.fields)
    pure (.next, st.declare v x)
  | .defKnown v p, st => do
    let name ← st.get p.root >>= (strAt · p.fields)
    pure (.next, st.declare v (.fn (knownFunction name)))
  | .set v p, st => do
    let x ← st.get p.root >>= (valAt · p.fields)
    let st1 ← st.assign v x
    pure (.next, st1)
  | .setBool v b, st => do
    let x ← boolOf b
    let st1 ← st.assign v (.bool x)
    pure (.next, st1)
  | .varNil v ty, st => if ty == "*parser.TabularExpr" then .ok (.next, st.declare v (.tab .nil)) else stuck
  | .makeMap v, st => .ok (.next, st.declare v (.scope []))
  | .mapSetPath m k p, st => do
    let key ← st.get k.root >>= (strAt · k.fields)
    let x ← st.get p.root >>= (valAt · p.fields) >>= sqlOfVal
    let sc ← st.get m >>= scopeOf
    let st1 ← st.assign m (.scope ((key, x) :: sc))
    pure (.next, st1)
  | .mapSetSb m k b, st => do
    if b == "sb" then do
      let key ← st.get k.root >>= (strAt · k.fields)
      let sc ← st.get m >>= scopeOf
      let st1 ← st.assign m (.scope ((key, st.out) :: sc))
      pure (.next, st1)
    else stuck
  | .ctx v source scope mode, st => do
    match ← st.get source, ← st.get scope with
    | .str src, .scope _ => do
      let m ← modeOf mode
      pure (.next, st.declare v (.ctx ⟨src, [], m⟩ (some scope)))
    | _, _ => stuck
  | .newSb v, st => if v == "sb" then .ok (.next, { st with out := [] }) else stuck
  | .hasJoin l r p, st => do
    let e ← st.get p.root >>= (exprAt · p.fields)
    let (a, b) ← sem.hasJoin e
    pure (.next, (st.declare l (.bool a)).declare r (.bool b))
  | .tryParse v source, st => do
    match ← st.get source with
    | .str src =>
      match sem.parse src with
      | some l => pure (.next, st.declare v (.stmts l))
      | none => .error (.go .err)
    | _ => stuck
  | .trySplit v source scope expr, st => do
    match ← st.get source, ← st.get scope, ← st.get expr with
    | .str src, .scope sc, .tab t => do
      let subs ← sem.split src sc t
      pure (.next, st.declare v (.subs subs))
    | _, _, _ => stuck
  | .unparen v _ _ ty f, st => do
    if ty == "ParenExpr" && f == "X" then do
      match ← st.get v with
      | .expr e => do
        let st1 ← st.assign v (.expr (unparenLoop e))
        pure (.next, st1)
      | _ => stuck
    else stuck
  | .for_ idx elem p body, st => do
    let xs ← st.get p.root >>= (listAt · p.fields)
    forEach idx elem (execBlock sem body) 0 xs st
  | .forMap k v p body, st => do
    match ← st.get p.root with
    | .opts none => goPanic
    | .opts (some ps) => if p.fields == "Parameters" then forEntries k v (execBlock sem body) (sem.mapOrder ps) st else stuck
    | _ => stuck
  | .walk n p body, st => do
    let e ← st.get p.root >>= (exprAt · p.fields)
    if (Pql.walk (fun _ => true) (.expr e)).contains .panic then goPanic
    else visitAll n (execBlock sem body) (allNodes (.expr e)) st
  | .scope body, st => do
    let (f, st1) ← execBlock sem body st
    pure (f, st1.leave st)
  | .ite c t e, st => do
    let (b, binds) ← evalCond st c
    let (f, st1) ← if b then execBlock sem t { st with vars := binds ++ st.vars } else execBlock sem e st
    pure (f, st1.leave st)

def execBlock (sem : Sem) : List Stmt → State → M (Flow × State)
  | [], st => .ok (.next, st)
  | s :: r, st => do
    let (f, st1) ← exec sem s st
    match f with
    | .next => execBlock sem r st1
    | _ => pure (f, st1)
end

/-! ### the functions -/

def noSem : Sem :=
  ⟨fun _ _ => stuck, fun _ _ => stuck, fun _ _ => stuck, fun _ => stuck, fun _ _ _ => stuck, fun _ => none,
   fun _ _ _ => stuck, id⟩

/-- run a unit that is the body of a function without results other than `error`: it must end by a
    `return`; what it wrote is the result -/
def runWriter (sem : Sem) (key : String) (c : Ctx) (e : Expr) : M (List Chunk) :=
  match decode (irOf key) with
  | some body => do
    match ← execBlock sem body ⟨[("x", .expr e), ("ctx", .ctx c none)], []⟩ with
    | (.ret, st) => pure st.out
    | _ => stuck
  | none => stuck

/-- `writeExpressionMaybeParen(ctx, sb, e)` with `we` for `writeExpression` -/
def interpMaybe (we : Ctx → Expr → M (List Chunk)) (c : Ctx) (e : Expr) : M (List Chunk) :=
  runWriter { noSem with plain := we } "writeExpressionMaybeParen" c e

/-- `writeExpressionTight(ctx, sb, e)` -/
def interpTight (we : Ctx → Expr → M (List Chunk)) (c : Ctx) (e : Expr) : M (List Chunk) :=
  runWriter { noSem with plain := we, maybe := interpMaybe we } "writeExpressionTight" c e

/-- `hasJoinTerms(e)`: the named results start as false -/
def interpHasJoinTerms (e : Expr) : M (Bool × Bool) :=
  match decode (irOf "hasJoinTerms") with
  | some body => do
    match ← execBlock noSem body ⟨[("x", .expr e), ("left", .bool false), ("right", .bool false)], []⟩ with
    | (.ret, st) => do
      match ← st.get "left", ← st.get "right" with
      | .bool l, .bool r => pure (l, r)
      | _, _ => stuck
    | _ => stuck
  | none => stuck

/-- the callees of the writers' bodies, given `writeExpression` -/
def innerSem (we : Ctx → Expr → M (List Chunk)) : Sem :=
  { noSem with plain := we, maybe := interpMaybe we, tight := interpTight we, hasJoin := interpHasJoinTerms }

/-- a `write*Function` on a call expression -/
def interpKnown (we : Ctx → Expr → M (List Chunk)) (writer : String) (c : Ctx) (e : Expr) : M (List Chunk) :=
  runWriter (innerSem we) ("writer:" ++ writer) c e

/-- one unfolding of `writeExpression`, with `we` for its recursive calls -/
def interpWriteStep (we : Ctx → Expr → M (List Chunk)) (c : Ctx) (e : Expr) : M (List Chunk) :=
  runWriter { innerSem we with known := interpKnown we } "writeExpression" c e

/-- `writeExpression(ctx, sb, e)` interpreted from the regenerated IR, all callees included; `fuel`
    bounds the nesting of `writeExpression` calls (`e.size + 1` suffices) -/
def interpWriteFuel : Nat → Ctx → Expr → M (List Chunk)
  | 0 => fun _ _ => stuck
  | n + 1 => interpWriteStep (interpWriteFuel n)

def interpWriteExpression (c : Ctx) (e : Expr) : M (List Chunk) := interpWriteFuel (e.size + 1) c e

/-- `writeExpressionMaybeParen` / `writeExpressionTight`, all callees interpreted -/
def interpWriteMaybeParen (c : Ctx) (e : Expr) : M (List Chunk) := interpMaybe (interpWriteFuel (e.size + 1)) c e
def interpWriteTight (c : Ctx) (e : Expr) : M (List Chunk) := interpTight (interpWriteFuel (e.size + 1)) c e

/-- the callees of `Compile`: the parser and `splitQueries` are given, the expression writers are the
    interpretation above -/
def compileSem (parse : Bytes → Option (List Pql.Stmt))
    (split : Bytes → List (Bytes × List Chunk) → Tabular → M (List Subquery))
    (order : List (Bytes × Bytes) → List (Bytes × Bytes)) : Sem :=
  { noSem with plain := interpWriteExpression, maybe := interpWriteMaybeParen, tight := interpWriteTight,
               parse := parse, split := split, mapOrder := order }

/-- the front part of `Compile`: what `scope` and `subqueries` hold when the statement assembly starts -/
def interpCompilePre (sem : Sem) (opts : Option (List (Bytes × Bytes))) (src : Bytes) :
    M (List (Bytes × List Chunk) × List Subquery) :=
  match decode (irOf "Compile:pre") with
  | some body => do
    match ← execBlock sem body ⟨[("opts", .opts opts), ("source", .str src)], []⟩ with
    | (.next, st) => do
      match ← st.get "scope", ← st.get "subqueries" with
      | .scope sc, .subs l => pure (sc, l)
      | _, _ => stuck
    | _ => stuck
  | none => stuck

end Pql.ExprIR
