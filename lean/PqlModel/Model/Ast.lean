/-
Model of parser/span.go and the node types of parser/ast.go.

Go's nil pointers / nil interfaces are explicit: `Expr.nil`, `Tabular.nil`, `Option Ident`,
`Option SortTerm`.  The AST is a plain `mutual` inductive with explicit list types so that
structural recursion and mutual induction work without auxiliary constructions.
-/
import PqlModel.Model.Token
namespace Pql

structure Span where
  start : Int
  stop : Int
  deriving DecidableEq, Repr, Inhabited

namespace Span
def null : Span := ⟨-1, -1⟩
def isValid (s : Span) : Bool := 0 ≤ s.start && 0 ≤ s.stop && s.start ≤ s.stop
def index (i : Nat) : Span := ⟨i, i⟩
def mk' (a b : Nat) : Span := ⟨a, b⟩
/-- `unionSpans` for two spans -/
def union (u s : Span) : Span :=
  if !s.isValid then u
  else if u.isValid then ⟨min u.start s.start, max u.stop s.stop⟩
  else s
def unions (ss : List Span) : Span := ss.foldl union null
/-- Go's zero value `Span{}` (a field that was never assigned) -/
def zero : Span := ⟨0, 0⟩
end Span

def Token.span (t : Token) : Span := ⟨t.start, t.stop⟩

structure Ident where
  name : Bytes
  span : Span
  quoted : Bool
  deriving DecidableEq, Repr, Inhabited

mutual
inductive Expr
  | nil
  | qident (parts : List Ident)
  | lit (span : Span) (kind : TokKind) (value : Bytes)
  | unary (opSpan : Span) (op : TokKind) (x : Expr)
  | binary (x : Expr) (opSpan : Span) (op : TokKind) (y : Expr)
  | inE (x : Expr) (inSpan lparen : Span) (vals : ExprList) (rparen : Span)
  | paren (lparen : Span) (x : Expr) (rparen : Span)
  | call (fn : Ident) (lparen : Span) (args : ExprList) (rparen : Span)
  | index (x : Expr) (lbrack : Span) (idx : Expr) (rbrack : Span)
inductive ExprList
  | nil
  | cons (e : Expr) (es : ExprList)
end

instance : Inhabited Expr := ⟨.nil⟩
instance : Inhabited ExprList := ⟨.nil⟩

namespace ExprList
def toList : ExprList → List Expr
  | nil => []
  | cons e es => e :: es.toList
def ofList : List Expr → ExprList
  | [] => nil
  | e :: es => cons e (ofList es)
def length : ExprList → Nat
  | nil => 0
  | cons _ es => es.length + 1
def snoc : ExprList → Expr → ExprList
  | nil, x => cons x nil
  | cons e es, x => cons e (es.snoc x)
end ExprList

structure SortTerm where
  x : Expr
  asc : Bool
  ascDescSpan : Span
  nullsFirst : Bool
  nullsSpan : Span
  deriving Inhabited

/-- ProjectColumn / ExtendColumn / SummarizeColumn share one shape. -/
structure Column where
  name : Option Ident
  assign : Span
  x : Expr
  deriving Inhabited

structure RenderProp where
  name : Option Ident
  assign : Span
  value : Expr
  deriving Inhabited

mutual
inductive Tabular
  | nil
  | mk (source : Option Ident) (ops : OpList)   -- Source is a *TableRef{Table}
inductive Op
  | count (pipe kw : Span)
  | where_ (pipe kw : Span) (pred : Expr)
  | sort (pipe kw : Span) (terms : List SortTerm)
  | take (pipe kw : Span) (n : Expr)
  | top (pipe kw : Span) (n : Expr) (by_ : Span) (col : Option SortTerm)
  | project (pipe kw : Span) (cols : List Column)
  | extend (pipe kw : Span) (cols : List Column)
  | summarize (pipe kw : Span) (cols : List Column) (by_ : Span) (groupBy : List Column)
  | join (pipe kw kind kindAssign : Span) (flavor : Option Ident) (lparen : Span)
      (right : Tabular) (rparen on : Span) (conds : ExprList)
  | as_ (pipe kw : Span) (name : Option Ident)
  | render (pipe kw : Span) (chart : Option Ident) (with_ lparen : Span) (props : List RenderProp)
      (rparen : Span)
inductive OpList
  | nil
  | cons (o : Op) (os : OpList)
end

instance : Inhabited Tabular := ⟨.nil⟩
instance : Inhabited Op := ⟨.count .null .null⟩

namespace OpList
def toList : OpList → List Op
  | nil => []
  | cons o os => o :: os.toList
def snoc : OpList → Op → OpList
  | nil, x => cons x nil
  | cons o os, x => cons o (os.snoc x)
def length : OpList → Nat
  | nil => 0
  | cons _ os => os.length + 1
end OpList

inductive Stmt
  | let_ (kw : Span) (name : Option Ident) (assign : Span) (x : Expr)
  | tabular (t : Tabular)
  deriving Inhabited

/-! ### canonical dump (compared with the reflection dump of the Go tree)

`(Type Field=value …)` with fields sorted by name; spans `a:b`; strings in hex; `nil`. -/

def Span.dump (s : Span) : String := toString s.start ++ ":" ++ toString s.stop
def dumpBool (b : Bool) : String := if b then "t" else "f"

def Ident.dump (i : Ident) : String :=
  "(Ident Name=" ++ Bytes.toHexField i.name ++ " NameSpan=" ++ i.span.dump ++ " Quoted=" ++ dumpBool i.quoted ++ ")"

def dumpOptIdent : Option Ident → String
  | none => "nil"
  | some i => i.dump

def dumpList (xs : List String) : String := "[" ++ " ".intercalate xs ++ "]"

mutual
def Expr.dump : Expr → String
  | .nil => "nil"
  | .qident parts => "(QualifiedIdent Parts=" ++ dumpList (parts.map Ident.dump) ++ ")"
  | .lit sp k v => "(BasicLit Kind=" ++ k.goName ++ " Value=" ++ Bytes.toHexField v ++ " ValueSpan=" ++ sp.dump ++ ")"
  | .unary os op x => "(UnaryExpr Op=" ++ op.goName ++ " OpSpan=" ++ os.dump ++ " X=" ++ x.dump ++ ")"
  | .binary x os op y =>
    "(BinaryExpr Op=" ++ op.goName ++ " OpSpan=" ++ os.dump ++ " X=" ++ x.dump ++ " Y=" ++ y.dump ++ ")"
  | .inE x i lp vals rp =>
    "(InExpr In=" ++ i.dump ++ " Lparen=" ++ lp.dump ++ " Rparen=" ++ rp.dump ++ " Vals=[" ++ vals.dump ++ "] X=" ++ x.dump ++ ")"
  | .paren lp x rp => "(ParenExpr Lparen=" ++ lp.dump ++ " Rparen=" ++ rp.dump ++ " X=" ++ x.dump ++ ")"
  | .call fn lp args rp =>
    "(CallExpr Args=[" ++ args.dump ++ "] Func=" ++ fn.dump ++ " Lparen=" ++ lp.dump ++ " Rparen=" ++ rp.dump ++ ")"
  | .index x lb idx rb =>
    "(IndexExpr Index=" ++ idx.dump ++ " Lbrack=" ++ lb.dump ++ " Rbrack=" ++ rb.dump ++ " X=" ++ x.dump ++ ")"
def ExprList.dump : ExprList → String
  | .nil => ""
  | .cons e .nil => e.dump
  | .cons e es => e.dump ++ " " ++ es.dump
end

def SortTerm.dump (t : SortTerm) : String :=
  "(SortTerm Asc=" ++ dumpBool t.asc ++ " AscDescSpan=" ++ t.ascDescSpan.dump ++ " NullsFirst=" ++ dumpBool t.nullsFirst ++
    " NullsSpan=" ++ t.nullsSpan.dump ++ " X=" ++ t.x.dump ++ ")"

def Column.dump (ty : String) (c : Column) : String :=
  "(" ++ ty ++ " Assign=" ++ c.assign.dump ++ " Name=" ++ dumpOptIdent c.name ++ " X=" ++ c.x.dump ++ ")"

def RenderProp.dump (p : RenderProp) : String :=
  "(RenderProperty Assign=" ++ p.assign.dump ++ " Name=" ++ dumpOptIdent p.name ++ " Value=" ++ p.value.dump ++ ")"

mutual
def Tabular.dump : Tabular → String
  | .nil => "nil"
  | .mk src ops =>
    "(TabularExpr Operators=[" ++ ops.dump ++ "] Source=" ++
      (match src with | none => "nil" | some i => "(TableRef Table=" ++ i.dump ++ ")") ++ ")"
def Op.dump : Op → String
  | .count p k => "(CountOperator Keyword=" ++ k.dump ++ " Pipe=" ++ p.dump ++ ")"
  | .where_ p k e => "(WhereOperator Keyword=" ++ k.dump ++ " Pipe=" ++ p.dump ++ " Predicate=" ++ e.dump ++ ")"
  | .sort p k ts => "(SortOperator Keyword=" ++ k.dump ++ " Pipe=" ++ p.dump ++ " Terms=" ++ dumpList (ts.map SortTerm.dump) ++ ")"
  | .take p k n => "(TakeOperator Keyword=" ++ k.dump ++ " Pipe=" ++ p.dump ++ " RowCount=" ++ n.dump ++ ")"
  | .top p k n b c =>
    "(TopOperator By=" ++ b.dump ++ " Col=" ++ (match c with | none => "nil" | some t => t.dump) ++ " Keyword=" ++ k.dump ++
      " Pipe=" ++ p.dump ++ " RowCount=" ++ n.dump ++ ")"
  | .project p k cs => "(ProjectOperator Cols=" ++ dumpList (cs.map (Column.dump "ProjectColumn")) ++ " Keyword=" ++ k.dump ++ " Pipe=" ++ p.dump ++ ")"
  | .extend p k cs => "(ExtendOperator Cols=" ++ dumpList (cs.map (Column.dump "ExtendColumn")) ++ " Keyword=" ++ k.dump ++ " Pipe=" ++ p.dump ++ ")"
  | .summarize p k cs b gs =>
    "(SummarizeOperator By=" ++ b.dump ++ " Cols=" ++ dumpList (cs.map (Column.dump "SummarizeColumn")) ++ " GroupBy=" ++
      dumpList (gs.map (Column.dump "SummarizeColumn")) ++ " Keyword=" ++ k.dump ++ " Pipe=" ++ p.dump ++ ")"
  | .join p k kind ka fl lp right rp on conds =>
    "(JoinOperator Conditions=[" ++ conds.dump ++ "] Flavor=" ++ dumpOptIdent fl ++ " Keyword=" ++ k.dump ++ " Kind=" ++ kind.dump ++
      " KindAssign=" ++ ka.dump ++ " Lparen=" ++ lp.dump ++ " On=" ++ on.dump ++ " Pipe=" ++ p.dump ++ " Right=" ++ right.dump ++
      " Rparen=" ++ rp.dump ++ ")"
  | .as_ p k n => "(AsOperator Keyword=" ++ k.dump ++ " Name=" ++ dumpOptIdent n ++ " Pipe=" ++ p.dump ++ ")"
  | .render p k ch w lp props rp =>
    "(RenderOperator ChartType=" ++ dumpOptIdent ch ++ " Keyword=" ++ k.dump ++ " Lparen=" ++ lp.dump ++ " Pipe=" ++ p.dump ++
      " Props=" ++ dumpList (props.map RenderProp.dump) ++ " Rparen=" ++ rp.dump ++ " With=" ++ w.dump ++ ")"
def OpList.dump : OpList → String
  | .nil => ""
  | .cons o .nil => o.dump
  | .cons o os => o.dump ++ " " ++ os.dump
end

def Stmt.dump : Stmt → String
  | .let_ kw name assign x =>
    "(LetStatement Assign=" ++ assign.dump ++ " Keyword=" ++ kw.dump ++ " Name=" ++ dumpOptIdent name ++ " X=" ++ x.dump ++ ")"
  | .tabular t => t.dump

end Pql
