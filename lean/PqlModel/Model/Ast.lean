/-
Model of parser/span.go and the node types of parser/ast.go.

Go's nil pointers / nil interfaces are explicit: `Expr.nil`, `Tabular.nil`, `Option Ident`,
`Option SortTerm`.  The AST is a plain `mutual` inductive with explicit list types so that
structural recursion and mutual induction work without auxiliary constructions.
-/
import PqlModel.Model.Token
namespace Pql

structure Span where
  start : Int
  stop : Int
  deriving DecidableEq, Repr, Inhabited

namespace Span
def null : Span := ⟨-1, -1⟩
def isValid (s : Span) : Bool := 0 ≤ s.start && 0 ≤ s.stop && s.start ≤ s.stop
def index (i : Nat) : Span := ⟨i, i⟩
def mk' (a b : Nat) : Span := ⟨a, b⟩
/-- `unionSpans` for two spans -/
def union (u s : Span) : Span :=
  if !s.isValid then u
  else if u.isValid then ⟨min u.start s.start, max u.stop s.stop⟩
  else s
def unions (ss : List Span) : Span := ss.foldl union null
/-- Go's zero value `Span{}` (a field that was never assigned) -/
def zero : Span := ⟨0, 0⟩
end Span

def Token.span (t : Token) : Span := ⟨t.start, t.stop⟩

structure Ident where
  name : Bytes
  span : Span
  quoted : Bool
  deriving DecidableEq, Repr, Inhabited

mutual
inductive Expr
  | nil
  | qident (parts : List Ident)
  | lit (span : Span) (kind : TokKind) (value : Bytes)
  | unary (opSpan : Span) (op : TokKind) (x : Expr)
  | binary (x : Expr) (opSpan : Span) (op : TokKind) (y : Expr)
  | inE (x : Expr) (inSpan lparen : Span) (vals : ExprList) (rparen : Span)
  | paren (lparen : Span) (x : Expr) (rparen : Span)
  | call (fn : Ident) (lparen : Span) (args : ExprList) (rparen : Span)
  | index (x : Expr) (lbrack : Span) (idx : Expr) (rbrack : Span)
inductive ExprList
  | nil
  | cons (e : Expr) (es : ExprList)
end

instance : Inhabited Expr := ⟨.nil⟩
instance : Inhabited ExprList := ⟨.nil⟩

namespace ExprList
def toList : ExprList → List Expr
  | nil => []
  | cons e es => e :: es.toList
def ofList : List Expr → ExprList
  | [] => nil
  | e :: es => cons e (ofList es)
def length : ExprList → Nat
  | nil => 0
  | cons _ es => es.length + 1
def snoc : ExprList → Expr → ExprList
  | nil, x => cons x nil
  | cons e es, x => cons e (es.snoc x)
end ExprList

structure SortTerm where
  x : Expr
  asc : Bool
  ascDescSpan : Span
  nullsFirst : Bool
  nullsSpan : Span
  deriving Inhabited

/-- ProjectColumn / ExtendColumn / SummarizeColumn share one shape. -/
structure Column where
  name : Option Ident
  assign : Span
  x : Expr
  deriving Inhabited

structure RenderProp where
  name : Option Ident
  assign : Span
  value : Expr
  deriving Inhabited

mutual
inductive Tabular
  | nil
  | mk (source : Option Ident) (ops : OpList)   -- Source is a *TableRef{Table}
inductive Op
  | count (pipe kw : Span)
  | where_ (pipe kw : Span) (pred : Expr)
  | sort (pipe kw : Span) (terms : List SortTerm)
  | take (pipe kw : Span) (n : Expr)
  | top (pipe kw : Span) (n : Expr) (by_ : Span) (col : Option SortTerm)
  | project (pipe kw : Span) (cols : List Column)
  | extend (pipe kw : Span) (cols : List Column)
  | summarize (pipe kw : Span) (cols : List Column) (by_ : Span) (groupBy : List Column)
  | join (pipe kw kind kindAssign : Span) (flavor : Option Ident) (lparen : Span)
      (right : Tabular) (rparen on : Span) (conds : ExprList)
  | as_ (pipe kw : Span) (name : Option Ident)
  | render (pipe kw : Span) (chart : Option Ident) (with_ lparen : Span) (props : List RenderProp)
      (rparen : Span)
inductive OpList
  | nil
  | cons (o : Op) (os : OpList)
end

instance : Inhabited Tabular := ⟨.nil⟩
instance : Inhabited Op := ⟨.count .null .null⟩

namespace OpList
def toList : OpList → List Op
  | nil => []
  | cons o os => o :: os.toList
def snoc : OpList → Op → OpList
  | nil, x => cons x nil
  | cons o os, x => cons o (os.snoc x)
def length : OpList → Nat
  | nil => 0
  | cons _ os => os.length + 1
end OpList

inductive Stmt
  | let_ (kw : Span) (name : Option Ident) (assign : Span) (x : Expr)
  | tabular (t : Tabular)
  deriving Inhabited

/-! ### `Span()` of every node type (parser/ast.go), following each union argument by argument -/

def Ident.spanOf : Option Ident → Span
  | none => .null
  | some i => i.span

/-- `nodeSliceSpan`: the union of the valid spans -/
def sliceSpan (ss : List Span) : Span := Span.unions (ss.filter Span.isValid)

mutual
def Expr.spanOf : Expr → Span
  | .nil => .null
  | .qident parts => sliceSpan (parts.map fun i => i.span)
  | .lit sp _ _ => sp
  | .unary os _ x => Span.unions [os, x.spanOf]
  | .binary x os _ y => Span.unions [x.spanOf, os, y.spanOf]
  | .inE x i lp vals rp => Span.unions [x.spanOf, i, lp, sliceSpan vals.spansOf, rp]
  | .paren lp x rp => Span.unions [lp, x.spanOf, rp]
  | .call fn lp args rp => Span.unions [fn.span, lp, sliceSpan args.spansOf, rp]
  | .index x lb idx rb => Span.unions [x.spanOf, lb, idx.spanOf, rb]
def ExprList.spansOf : ExprList → List Span
  | .nil => []
  | .cons e es => e.spanOf :: es.spansOf
end

def SortTerm.spanOf (t : SortTerm) : Span := Span.unions [t.x.spanOf, t.ascDescSpan, t.nullsSpan]
def Column.spanOf (c : Column) : Span := Span.unions [Ident.spanOf c.name, c.assign, c.x.spanOf]
def RenderProp.spanOf (p : RenderProp) : Span := Span.unions [Ident.spanOf p.name, p.assign, p.value.spanOf]

mutual
def Tabular.spanOf : Tabular → Span
  | .nil => .null
  | .mk src ops => Span.unions [Ident.spanOf src, sliceSpan ops.spansOf]
def Op.spanOf : Op → Span
  | .count p k => Span.unions [p, k]
  | .where_ p k e => Span.unions [p, k, e.spanOf]
  | .sort p k ts => Span.unions [p, k, sliceSpan (ts.map SortTerm.spanOf)]
  | .take p k n => Span.unions [p, k, n.spanOf]
  | .top p k n b c => Span.unions [p, k, n.spanOf, b, match c with | some t => t.spanOf | none => .null]
  | .project p k cs => Span.unions [p, k, sliceSpan (cs.map Column.spanOf)]
  | .extend p k cs => Span.unions [p, k, sliceSpan (cs.map Column.spanOf)]
  | .summarize p k cs b gs => Span.unions [p, k, sliceSpan (cs.map Column.spanOf), b, sliceSpan (gs.map Column.spanOf)]
  | .join p k kind ka fl lp right rp on conds =>
    Span.unions [p, k, kind, ka, Ident.spanOf fl, lp, right.spanOf, rp, on, sliceSpan conds.spansOf]
  | .as_ p k n => Span.unions [p, k, Ident.spanOf n]
  | .render p k ch w lp props rp =>
    Span.unions [p, k, Ident.spanOf ch, w, lp, sliceSpan (props.map RenderProp.spanOf), rp]
def OpList.spansOf : OpList → List Span
  | .nil => []
  | .cons o os => o.spanOf :: os.spansOf
end

def Stmt.spanOf : Stmt → Span
  | .let_ kw name asg x => Span.unions [kw, Ident.spanOf name, asg, x.spanOf]
  | .tabular t => t.spanOf

/-! ### canonical dump (compared with the reflection dump of the Go tree)

`(Type Field=value …)` with fields sorted by name; spans `a:b`; strings in hex; `nil`. -/

def Span.dump (s : Span) : String := toString s.start ++ ":" ++ toString s.stop
def dumpBool (b : Bool) : String := if b then "t" else "f"

def Ident.dump (i : Ident) : String :=
  "(Ident @=" ++ i.span.dump ++ " Name=" ++ Bytes.toHexField i.name ++ " NameSpan=" ++ i.span.dump ++ " Quoted=" ++ dumpBool i.quoted ++ ")"

def dumpOptIdent : Option Ident → String
  | none => "nil"
  | some i => i.dump

def dumpList (xs : List String) : String := "[" ++ " ".intercalate xs ++ "]"

mutual
def Expr.dump : Expr → String
  | .nil => "nil"
  | .qident parts => "(QualifiedIdent @=" ++ (Expr.qident parts).spanOf.dump ++ " Parts=" ++ dumpList (parts.map Ident.dump) ++ ")"
  | .lit sp k v => "(BasicLit @=" ++ sp.dump ++ " Kind=" ++ k.goName ++ " Value=" ++ Bytes.toHexField v ++ " ValueSpan=" ++ sp.dump ++ ")"
  | .unary os op x => "(UnaryExpr @=" ++ (Expr.unary os op x).spanOf.dump ++ " Op=" ++ op.goName ++ " OpSpan=" ++ os.dump ++ " X=" ++ x.dump ++ ")"
  | .binary x os op y =>
    "(BinaryExpr @=" ++ (Expr.binary x os op y).spanOf.dump ++ " Op=" ++ op.goName ++ " OpSpan=" ++ os.dump ++ " X=" ++ x.dump ++ " Y=" ++ y.dump ++ ")"
  | .inE x i lp vals rp =>
    "(InExpr @=" ++ (Expr.inE x i lp vals rp).spanOf.dump ++ " In=" ++ i.dump ++ " Lparen=" ++ lp.dump ++ " Rparen=" ++ rp.dump ++ " Vals=[" ++ vals.dump ++ "] X=" ++ x.dump ++ ")"
  | .paren lp x rp => "(ParenExpr @=" ++ (Expr.paren lp x rp).spanOf.dump ++ " Lparen=" ++ lp.dump ++ " Rparen=" ++ rp.dump ++ " X=" ++ x.dump ++ ")"
  | .call fn lp args rp =>
    "(CallExpr @=" ++ (Expr.call fn lp args rp).spanOf.dump ++ " Args=[" ++ args.dump ++ "] Func=" ++ fn.dump ++ " Lparen=" ++ lp.dump ++ " Rparen=" ++ rp.dump ++ ")"
  | .index x lb idx rb =>
    "(IndexExpr @=" ++ (Expr.index x lb idx rb).spanOf.dump ++ " Index=" ++ idx.dump ++ " Lbrack=" ++ lb.dump ++ " Rbrack=" ++ rb.dump ++ " X=" ++ x.dump ++ ")"
def ExprList.dump : ExprList → String
  | .nil => ""
  | .cons e .nil => e.dump
  | .cons e es => e.dump ++ " " ++ es.dump
end

def SortTerm.dump (t : SortTerm) : String :=
  "(SortTerm @=" ++ t.spanOf.dump ++ " Asc=" ++ dumpBool t.asc ++ " AscDescSpan=" ++ t.ascDescSpan.dump ++ " NullsFirst=" ++ dumpBool t.nullsFirst ++
    " NullsSpan=" ++ t.nullsSpan.dump ++ " X=" ++ t.x.dump ++ ")"

def Column.dump (ty : String) (c : Column) : String :=
  "(" ++ ty ++ " @=" ++ c.spanOf.dump ++ " Assign=" ++ c.assign.dump ++ " Name=" ++ dumpOptIdent c.name ++ " X=" ++ c.x.dump ++ ")"

def RenderProp.dump (p : RenderProp) : String :=
  "(RenderProperty @=" ++ p.spanOf.dump ++ " Assign=" ++ p.assign.dump ++ " Name=" ++ dumpOptIdent p.name ++ " Value=" ++ p.value.dump ++ ")"

mutual
def Tabular.dump : Tabular → String
  | .nil => "nil"
  | .mk src ops =>
    "(TabularExpr @=" ++ (Tabular.mk src ops).spanOf.dump ++ " Operators=[" ++ ops.dump ++ "] Source=" ++
      (match src with | none => "nil" | some i => "(TableRef @=" ++ i.span.dump ++ " Table=" ++ i.dump ++ ")") ++ ")"
def Op.dump : Op → String
  | .count p k => "(CountOperator @=" ++ (Op.count p k).spanOf.dump ++ " Keyword=" ++ k.dump ++ " Pipe=" ++ p.dump ++ ")"
  | .where_ p k e => "(WhereOperator @=" ++ (Op.where_ p k e).spanOf.dump ++ " Keyword=" ++ k.dump ++ " Pipe=" ++ p.dump ++ " Predicate=" ++ e.dump ++ ")"
  | .sort p k ts => "(SortOperator @=" ++ (Op.sort p k ts).spanOf.dump ++ " Keyword=" ++ k.dump ++ " Pipe=" ++ p.dump ++ " Terms=" ++ dumpList (ts.map SortTerm.dump) ++ ")"
  | .take p k n => "(TakeOperator @=" ++ (Op.take p k n).spanOf.dump ++ " Keyword=" ++ k.dump ++ " Pipe=" ++ p.dump ++ " RowCount=" ++ n.dump ++ ")"
  | .top p k n b c =>
    "(TopOperator @=" ++ (Op.top p k n b c).spanOf.dump ++ " By=" ++ b.dump ++ " Col=" ++ (match c with | none => "nil" | some t => t.dump) ++ " Keyword=" ++ k.dump ++
      " Pipe=" ++ p.dump ++ " RowCount=" ++ n.dump ++ ")"
  | .project p k cs => "(ProjectOperator @=" ++ (Op.project p k cs).spanOf.dump ++ " Cols=" ++ dumpList (cs.map (Column.dump "ProjectColumn")) ++ " Keyword=" ++ k.dump ++ " Pipe=" ++ p.dump ++ ")"
  | .extend p k cs => "(ExtendOperator @=" ++ (Op.extend p k cs).spanOf.dump ++ " Cols=" ++ dumpList (cs.map (Column.dump "ExtendColumn")) ++ " Keyword=" ++ k.dump ++ " Pipe=" ++ p.dump ++ ")"
  | .summarize p k cs b gs =>
    "(SummarizeOperator @=" ++ (Op.summarize p k cs b gs).spanOf.dump ++ " By=" ++ b.dump ++ " Cols=" ++ dumpList (cs.map (Column.dump "SummarizeColumn")) ++ " GroupBy=" ++
      dumpList (gs.map (Column.dump "SummarizeColumn")) ++ " Keyword=" ++ k.dump ++ " Pipe=" ++ p.dump ++ ")"
  | .join p k kind ka fl lp right rp on conds =>
    "(JoinOperator @=" ++ (Op.join p k kind ka fl lp right rp on conds).spanOf.dump ++ " Conditions=[" ++ conds.dump ++ "] Flavor=" ++ dumpOptIdent fl ++ " Keyword=" ++ k.dump ++ " Kind=" ++ kind.dump ++
      " KindAssign=" ++ ka.dump ++ " Lparen=" ++ lp.dump ++ " On=" ++ on.dump ++ " Pipe=" ++ p.dump ++ " Right=" ++ right.dump ++
      " Rparen=" ++ rp.dump ++ ")"
  | .as_ p k n => "(AsOperator @=" ++ (Op.as_ p k n).spanOf.dump ++ " Keyword=" ++ k.dump ++ " Name=" ++ dumpOptIdent n ++ " Pipe=" ++ p.dump ++ ")"
  | .render p k ch w lp props rp =>
    "(RenderOperator @=" ++ (Op.render p k ch w lp props rp).spanOf.dump ++ " ChartType=" ++ dumpOptIdent ch ++ " Keyword=" ++ k.dump ++ " Lparen=" ++ lp.dump ++ " Pipe=" ++ p.dump ++
      " Props=" ++ dumpList (props.map RenderProp.dump) ++ " Rparen=" ++ rp.dump ++ " With=" ++ w.dump ++ ")"
def OpList.dump : OpList → String
  | .nil => ""
  | .cons o .nil => o.dump
  | .cons o os => o.dump ++ " " ++ os.dump
end

def Stmt.dump : Stmt → String
  | .let_ kw name assign x =>
    "(LetStatement @=" ++ (Stmt.let_ kw name assign x).spanOf.dump ++ " Assign=" ++ assign.dump ++ " Keyword=" ++ kw.dump ++ " Name=" ++ dumpOptIdent name ++ " X=" ++ x.dump ++ ")"
  | .tabular t => t.dump

end Pql
