/-
Interpreter for the IR of the small functions of parser/span.go and parser/ast.go and of the loop of
`Walk`, which `harness/extract_ast.go` regenerates from the Go source on every run (`Facts.astIR`):

  newSpan, indexSpan, nullSpan, (Span).IsValid, (Span).Len, unionSpans, nodeSpan, nodeSliceSpan,
  (*Ident).AsQualified, Walk.

Expressions and statements are decoded into trees (`Ex`, `St`, Model/AstIRSyntax.lean) and executed by `eval` / `exec` over an
environment of Go values.  Go run-time failures are `Out.panic` (nil dereference, index out of range, the
`panic` statement); `Out.stuck` means that the IR is not understood (or that the fuel of a `for cond`
loop ran out).  The world (`World`) is what the visitor has seen so far: the number of calls and the
events, so that a panic keeps the events that preceded it.

The per-type parts that are ALREADY regenerated tables are interpreted from those tables:
`Facts.walkCases` / `walkLoops` for the push statements of a `Walk` case (`tablePushes`, statement
`pushTable`), `Facts.spanUnion` (+ `Facts.astSpanReturns`) for the `Span()` methods (`spanMethod`).
-/
import PqlModel.Lemmas.WalkLemmas
import PqlModel.Model.AstIRSyntax
namespace Pql.AstIR
open Pql

/-! ### values -/

/-- a Go value of type `Node` (or a pointer to a node struct): the nodes `Walk` knows, and
    `*RenderProperty` (which has a `Span()` but no case in `Walk`) -/
inductive GNode
  | node (x : Node)
  | prop (p : RenderProp)
  deriving Inhabited

inductive Val
  | int (i : Int)
  | bool (b : Bool)
  | span (s : Span)
  | spans (l : List Span)
  | node (g : GNode)
  | nodes (l : List GNode)
  | qid (q : Option (List Ident))    -- a *QualifiedIdent (none = nil)
  | fn                                -- a function value (the visitor)
  | scalar                            -- a string / bool / TokenKind field (never read by the translated code)
  | unit                              -- no value
  deriving Inhabited

/-- dynamic type; `none` = the nil interface -/
def GNode.goType : GNode → Option String
  | .prop _ => some "RenderProperty"
  | .node (.ident _) => some "Ident"
  | .node (.expr e) =>
    match e with
    | .nil => none | .qident .. => some "QualifiedIdent" | .lit .. => some "BasicLit"
    | .unary .. => some "UnaryExpr" | .binary .. => some "BinaryExpr" | .inE .. => some "InExpr"
    | .paren .. => some "ParenExpr" | .call .. => some "CallExpr" | .index .. => some "IndexExpr"
  | .node (.tabular _) => some "TabularExpr"
  | .node (.tableRef _) => some "TableRef"
  | .node (.op o) =>
    match o with
    | .count .. => some "CountOperator" | .where_ .. => some "WhereOperator" | .sort .. => some "SortOperator"
    | .take .. => some "TakeOperator" | .top .. => some "TopOperator" | .project .. => some "ProjectOperator"
    | .extend .. => some "ExtendOperator" | .summarize .. => some "SummarizeOperator"
    | .join .. => some "JoinOperator" | .as_ .. => some "AsOperator" | .render .. => some "RenderOperator"
  | .node (.sortTerm _) => some "SortTerm"
  | .node (.column k _) =>
    match k with
    | .project => some "ProjectColumn" | .extend => some "ExtendColumn" | .summarize => some "SummarizeColumn"
  | .node (.letStmt ..) => some "LetStatement"

def vIdent (i : Option Ident) : Val := .node (.node (.ident i))
def vExpr (e : Expr) : Val := .node (.node (.expr e))
def vExprs (es : ExprList) : Val := .nodes (es.toList.map fun e => .node (.expr e))
def vCols (k : ColKind) (cs : List Column) : Val := .nodes (cs.map fun c => .node (.column k c))

/-- the struct the pointer points to, field by field in declaration order; `none` = nil pointer
    (or nil interface) -/
def GNode.fields : GNode → Option (List (String × Val))
  | .prop p => some [("Name", vIdent p.name), ("Assign", .span p.assign), ("Value", vExpr p.value)]
  | .node (.ident none) => none
  | .node (.ident (some i)) => some [("Name", .scalar), ("NameSpan", .span i.span), ("Quoted", .scalar)]
  | .node (.expr e) =>
    match e with
    | .nil => none
    | .qident parts => some [("Parts", .nodes (parts.map fun i => .node (.ident (some i))))]
    | .lit sp _ _ => some [("ValueSpan", .span sp), ("Kind", .scalar), ("Value", .scalar)]
    | .unary os _ x => some [("OpSpan", .span os), ("Op", .scalar), ("X", vExpr x)]
    | .binary x os _ y => some [("X", vExpr x), ("OpSpan", .span os), ("Op", .scalar), ("Y", vExpr y)]
    | .inE x i lp vals rp =>
      some [("X", vExpr x), ("In", .span i), ("Lparen", .span lp), ("Vals", vExprs vals), ("Rparen", .span rp)]
    | .paren lp x rp => some [("Lparen", .span lp), ("X", vExpr x), ("Rparen", .span rp)]
    | .call fn lp args rp =>
      some [("Func", vIdent (some fn)), ("Lparen", .span lp), ("Args", vExprs args), ("Rparen", .span rp)]
    | .index x lb idx rb => some [("X", vExpr x), ("Lbrack", .span lb), ("Index", vExpr idx), ("Rbrack", .span rb)]
  | .node (.tabular .nil) => none
  | .node (.tabular (.mk src ops)) =>
    some [("Source", .node (.node (.tableRef src))), ("Operators", .nodes (ops.toList.map fun o => .node (.op o)))]
  | .node (.tableRef t) => some [("Table", vIdent t)]
  | .node (.op o) =>
    match o with
    | .count p k => some [("Pipe", .span p), ("Keyword", .span k)]
    | .where_ p k e => some [("Pipe", .span p), ("Keyword", .span k), ("Predicate", vExpr e)]
    | .sort p k ts =>
      some [("Pipe", .span p), ("Keyword", .span k), ("Terms", .nodes (ts.map fun t => .node (.sortTerm (some t))))]
    | .take p k n => some [("Pipe", .span p), ("Keyword", .span k), ("RowCount", vExpr n)]
    | .top p k n b c =>
      some [("Pipe", .span p), ("Keyword", .span k), ("RowCount", vExpr n), ("By", .span b),
        ("Col", .node (.node (.sortTerm c)))]
    | .project p k cs => some [("Pipe", .span p), ("Keyword", .span k), ("Cols", vCols .project cs)]
    | .extend p k cs => some [("Pipe", .span p), ("Keyword", .span k), ("Cols", vCols .extend cs)]
    | .summarize p k cs b gs =>
      some [("Pipe", .span p), ("Keyword", .span k), ("Cols", vCols .summarize cs), ("By", .span b),
        ("GroupBy", vCols .summarize gs)]
    | .join p k kind ka fl lp right rp on conds =>
      some [("Pipe", .span p), ("Keyword", .span k), ("Kind", .span kind), ("KindAssign", .span ka),
        ("Flavor", vIdent fl), ("Lparen", .span lp), ("Right", .node (.node (.tabular right))), ("Rparen", .span rp),
        ("On", .span on), ("Conditions", vExprs conds)]
    | .as_ p k n => some [("Pipe", .span p), ("Keyword", .span k), ("Name", vIdent n)]
    | .render p k ch w lp props rp =>
      some [("Pipe", .span p), ("Keyword", .span k), ("ChartType", vIdent ch), ("With", .span w), ("Lparen", .span lp),
        ("Props", .nodes (props.map .prop)), ("Rparen", .span rp)]
  | .node (.sortTerm none) => none
  | .node (.sortTerm (some t)) =>
    some [("X", vExpr t.x), ("Asc", .scalar), ("AscDescSpan", .span t.ascDescSpan), ("NullsFirst", .scalar),
      ("NullsSpan", .span t.nullsSpan)]
  | .node (.column _ c) => some [("Name", vIdent c.name), ("Assign", .span c.assign), ("X", vExpr c.x)]
  | .node (.letStmt kw n a x) => some [("Keyword", .span kw), ("Name", vIdent n), ("Assign", .span a), ("X", vExpr x)]

/-- `x == nil` for `x` of interface type -/
def GNode.isNilIface (g : GNode) : Bool := g.goType.isNone
/-- `x == nil` for `x` of pointer type -/
def GNode.isNilPtr (g : GNode) : Bool := g.fields.isNone

/-- the model's `Span()` of the node -/
def GNode.span : GNode → Span
  | .prop p => p.spanOf
  | .node (.ident i) => Ident.spanOf i
  | .node (.expr e) => e.spanOf
  | .node (.tabular t) => t.spanOf
  | .node (.tableRef i) => Ident.spanOf i
  | .node (.op o) => o.spanOf
  | .node (.sortTerm none) => .null
  | .node (.sortTerm (some t)) => t.spanOf
  | .node (.column _ c) => c.spanOf
  | .node (.letStmt kw n a x) => (Stmt.let_ kw n a x).spanOf

def GNode.size : GNode → Nat
  | .prop p => p.value.size + 1
  | .node n => n.size

def lookupField (fs : List (String × Val)) (f : String) : Option Val := (fs.find? (·.1 == f)).map (·.2)

/-! ### the monad: a world threaded through, panics keep it -/

structure World where
  calls : Nat
  events : List WalkEvent

inductive Out (α : Type)
  | ok (a : α) (w : World)
  | panic (w : World)
  | stuck

abbrev M (α : Type) := World → Out α

def M.pure {α : Type} (a : α) : M α := fun w => .ok a w
def M.bind {α β : Type} (m : M α) (f : α → M β) : M β := fun w =>
  match m w with
  | .ok a w1 => f a w1
  | .panic w1 => .panic w1
  | .stuck => .stuck

instance : Monad M where
  pure := M.pure
  bind := M.bind

def goPanic {α : Type} : M α := fun w => .panic w
def stuck {α : Type} : M α := fun _ => .stuck

/-- what an observer has seen: the events, `panic` last if the run panicked; `none` = stuck -/
def Out.trace {α : Type} : Out α → Option (List WalkEvent)
  | .ok _ w => some w.events
  | .panic w => some (w.events ++ [.panic])
  | .stuck => none

abbrev Env := List (String × Val)

/-- what the translated code calls -/
structure Sem where
  call : String → List Val → M Val         -- a function of the package
  method : String → Val → M Val            -- x.m()
  callVar : String → List Val → M Val      -- a parameter of function type
  fuel : Nat                                -- bound on the iterations of a `for cond` loop

def get (env : Env) (v : String) : M Val :=
  match env.find? (·.1 == v) with
  | some kv => pure kv.2
  | none => stuck

def assignIn (v : String) (x : Val) : Env → Option Env
  | [] => none
  | kv :: r => if kv.1 == v then some ((v, x) :: r) else (assignIn v x r).map (kv :: ·)

/-- leaving a block: the variables it declared go out of scope, assignments to outer ones stay -/
def leaveTo (outer inner : Env) : Env := inner.drop (inner.length - outer.length)

def fieldOf (x : Val) (f : String) : M Val :=
  match x with
  | .span s => if f == "Start" then pure (.int s.start) else if f == "End" then pure (.int s.stop) else stuck
  | .node g =>
    match g.fields with
    | none => goPanic                      -- nil pointer dereference
    | some fs => match lookupField fs f with | some v => pure v | none => stuck
  | _ => stuck

def arith (o : String) (x y : Val) : M Val :=
  match x, y with
  | .int a, .int b =>
    if o == "sub" then pure (.int (a - b))
    else if o == "min" then pure (.int (min a b))
    else if o == "max" then pure (.int (max a b))
    else if o == "ge" then pure (.bool (decide (b ≤ a)))
    else if o == "le" then pure (.bool (decide (a ≤ b)))
    else if o == "gt" then pure (.bool (decide (b < a)))
    else stuck
  | _, _ => stuck

def asNodes : List Val → Option (List GNode)
  | [] => some []
  | .node g :: r => (asNodes r).map (g :: ·)
  | _ => none

def asIdents : List Val → Option (List Ident)
  | [] => some []
  | .node (.node (.ident (some i))) :: r => (asIdents r).map (i :: ·)
  | _ => none

mutual
def eval (sem : Sem) (env : Env) : Ex → M Val
  | .var v => get env v
  | .int n => if n == "0" then pure (.int 0) else if n == "1" then pure (.int 1) else stuck
  | .neg e => do
    match ← eval sem env e with
    | .int i => pure (.int (-i))
    | _ => stuck
  | .not e => do
    match ← eval sem env e with
    | .bool b => pure (.bool (!b))
    | _ => stuck
  | .fld f e => do
    let x ← eval sem env e
    fieldOf x f
  | .len e => do
    match ← eval sem env e with
    | .spans l => pure (.int l.length)
    | .nodes l => pure (.int l.length)
    | _ => stuck
  | .op2 o a b => do
    let x ← eval sem env a
    if o == "and" then
      match x with
      | .bool false => pure (.bool false)
      | .bool true => do
        match ← eval sem env b with
        | .bool y => pure (.bool y)
        | _ => stuck
      | _ => stuck
    else do
      let y ← eval sem env b
      arith o x y
  | .isNilI e => do
    match ← eval sem env e with
    | .node g => pure (.bool g.isNilIface)
    | _ => stuck
  | .isNilP e => do
    match ← eval sem env e with
    | .node g => pure (.bool g.isNilPtr)
    | _ => stuck
  | .call f args => do
    let vs ← evalList sem env args
    sem.call f vs
  | .callV f a => do
    let x ← eval sem env a
    sem.call f [x]
  | .callVar f args => do
    let vs ← evalList sem env args
    sem.callVar f vs
  | .mcall m e => do
    let x ← eval sem env e
    sem.method m x
  | .idx a i => do
    match ← eval sem env a, ← eval sem env i with
    | .nodes l, .int k =>
      if k < 0 then goPanic
      else match l[k.toNat]? with
        | some g => pure (.node g)
        | none => goPanic                    -- index out of range
    | _, _ => stuck
  | .sliceTo a hi => do
    match ← eval sem env a, ← eval sem env hi with
    | .nodes l, .int k =>
      if k < 0 then goPanic
      else if k.toNat ≤ l.length then pure (.nodes (l.take k.toNat))
      else stuck                             -- beyond the length: capacity is not modelled
    | _, _ => stuck
  | .spanLit a b => do
    match ← eval sem env a, ← eval sem env b with
    | .int x, .int y => pure (.span ⟨x, y⟩)
    | _, _ => stuck
  | .nodesLit es => do
    let vs ← evalList sem env es
    match asNodes vs with
    | some l => pure (.nodes l)
    | none => stuck
  | .make0 ty cap => do
    match ← eval sem env cap with
    | .int c => if c < 0 then goPanic else if ty == "Span" then pure (.spans []) else stuck
    | _ => stuck
  | .newQid es => do
    let vs ← evalList sem env es
    match asIdents vs with
    | some l => pure (.qid (some l))
    | none => stuck
  | .nilPtr ty => if ty == "QualifiedIdent" then pure (.qid none) else stuck
  | .append a x => do
    match ← eval sem env a, ← eval sem env x with
    | .spans l, .span s => pure (.spans (l ++ [s]))
    | .nodes l, .node g => pure (.nodes (l ++ [g]))
    | _, _ => stuck

def evalList (sem : Sem) (env : Env) : List Ex → M (List Val)
  | [] => pure []
  | e :: es => do
    let v ← eval sem env e
    let vs ← evalList sem env es
    pure (v :: vs)
end

/-! ### the push statements of a `Walk` case, from the regenerated tables -/

def fieldType (ty f : String) : Option String :=
  (Facts.structFields.find? (·.1 == ty)).bind fun x => (x.2.find? (·.1 == f)).map (·.2)

/-- the interface types of parser/ast.go (every other field type that holds a node is a pointer) -/
def ifaceTypes : List String := ["Expr", "Node", "Statement", "TabularDataSource", "TabularOperator"]

/-- `x == nil` for a field of static type `fty` -/
def isNilAt (fty : String) (g : GNode) : Bool := if ifaceTypes.contains fty then g.isNilIface else g.isNilPtr

/-- the statements of a list one after the other, collecting what they push -/
def pushSeq {α : Type} (f : α → M (List GNode)) : List α → M (List GNode)
  | [] => pure []
  | a :: r => do
    let x ← f a
    let y ← pushSeq f r
    pure (x ++ y)

/-- `one:F` — `stack = append(stack, x.F)`; `opt:F` — the same under `if x.F != nil` -/
def pushOne (ty : String) (fs : List (String × Val)) (p : String × String) : M (List GNode) :=
  match lookupField fs p.2 with
  | some (.node c) =>
    if p.1 == "one" then pure [c]
    else if p.1 == "opt" then
      match fieldType ty p.2 with
      | some fty => pure (if isNilAt fty c then [] else [c])
      | none => stuck
    else stuck
  | _ => stuck

/-- `for i := len(cs) - 1; i >= 0; i-- { body(cs[i]) }`, started with `i + 1 = len(cs)` -/
def downLoop (cs : List GNode) (body : GNode → M (List GNode)) : Nat → M (List GNode)
  | 0 => pure []
  | i + 1 =>
    match cs[i]? with
    | none => goPanic
    | some c => do
      let x ← body c
      let y ← downLoop cs body i
      pure (x ++ y)

/-- the pushes of an element-wise loop (`Facts.walkLoops`) on one element -/
def elemPushes (inner : List (String × String)) (el : GNode) : M (List GNode) :=
  match el.goType, el.fields with
  | some ety, some efs => pushSeq (pushOne ety efs) inner
  | some _, none => goPanic
  | none, _ => stuck

def pushStep (ty : String) (fs : List (String × Val)) (p : String × String) : M (List GNode) :=
  if p.1 == "rev" then
    match lookupField fs p.2 with
    | some (.nodes cs) => downLoop cs (fun c => pure [c]) cs.length
    | _ => stuck
  else if p.1 == "revloop" then
    match lookupField fs p.2, Facts.walkLoops.find? (fun x => x.1 == ty && x.2.1 == p.2) with
    | some (.nodes cs), some (_, _, inner) => downLoop cs (elemPushes inner) cs.length
    | _, _ => stuck
  else pushOne ty fs p

/-- what the case for `*ty` appends to the stack, in push order -/
def tablePushes (ty : String) (pushes : List (String × String)) (g : GNode) : M (List GNode) :=
  if pushes.isEmpty then pure []
  else
    match g.fields with
    | none => goPanic                        -- `n.F` of a nil pointer
    | some fs => pushSeq (pushStep ty fs) pushes

/-! ### statements -/

inductive Ctl
  | next
  | cont
  | ret (v : Val)

/-- `for _, y := range xs { body }` -/
def forEach (y : String) (body : Env → M (Ctl × Env)) : List Val → Env → M (Ctl × Env)
  | [], env => pure (.next, env)
  | x :: xs, env => do
    match ← body ((y, x) :: env) with
    | (.ret v, env1) => pure (.ret v, leaveTo env env1)
    | (_, env1) => forEach y body xs (leaveTo env env1)

/-- `for cond { body }` -/
def whileLoop (cond : Env → M Val) (body : Env → M (Ctl × Env)) : Nat → Env → M (Ctl × Env)
  | 0, _ => stuck
  | fuel + 1, env => do
    match ← cond env with
    | .bool true =>
      match ← body env with
      | (.ret v, env1) => pure (.ret v, leaveTo env env1)
      | (_, env1) => whileLoop cond body fuel (leaveTo env env1)
    | .bool false => pure (.next, env)
    | _ => stuck

def leaveM (env : Env) (m : M (Ctl × Env)) : M (Ctl × Env) := do
  let (c, env1) ← m
  pure (c, leaveTo env env1)

mutual
def exec (sem : Sem) : St → Env → M (Ctl × Env)
  | .def_ v e, env => do
    let x ← eval sem env e
    pure (.next, (v, x) :: env)
  | .set v e, env => do
    let x ← eval sem env e
    match assignIn v x env with
    | some env1 => pure (.next, env1)
    | none => stuck
  | .ret none, env => pure (.ret .unit, env)
  | .ret (some e), env => do
    let x ← eval sem env e
    pure (.ret x, env)
  | .continue_, env => pure (.cont, env)
  | .expr e, env => do
    let _ ← eval sem env e
    pure (.next, env)
  | .panic_, _ => goPanic
  | .ite c t e, env => do
    match ← eval sem env c with
    | .bool true => leaveM env (execBlock sem t env)
    | .bool false => leaveM env (execBlock sem e env)
    | _ => stuck
  | .iteDef v init c t, env => do
    let x ← eval sem env init
    match ← eval sem ((v, x) :: env) c with
    | .bool true => leaveM env (execBlock sem t ((v, x) :: env))
    | .bool false => pure (.next, env)
    | _ => stuck
  | .forRange y e body, env => do
    match ← eval sem env e with
    | .spans l => forEach y (execBlock sem body) (l.map .span) env
    | .nodes l => forEach y (execBlock sem body) (l.map .node) env
    | _ => stuck
  | .while_ c body, env => whileLoop (fun env => eval sem env c) (execBlock sem body) sem.fuel env
  | .typeSwitch v e cases dflt, env => do
    match ← eval sem env e with
    | .node g =>
      match ← execCases sem g.goType cases ((v, .node g) :: env) with
      | some (c, env1) => pure (c, leaveTo env env1)
      | none => leaveM env (execBlock sem dflt ((v, .node g) :: env))
    | _ => stuck
  | .case_ _ _, _ => stuck
  | .pushTable stack recv ty, env => do
    match ← get env recv, ← get env stack with
    | .node g, .nodes st =>
      match Facts.walkCases.find? (·.1 == ty) with
      | some (_, pushes) => do
        let new ← tablePushes ty pushes g
        match assignIn stack (.nodes (st ++ new)) env with
        | some env1 => pure (.next, env1)
        | none => stuck
      | none => stuck
    | _, _ => stuck

def execBlock (sem : Sem) : List St → Env → M (Ctl × Env)
  | [], env => pure (.next, env)
  | s :: r, env => do
    match ← exec sem s env with
    | (.next, env1) => execBlock sem r env1
    | (c, env1) => pure (c, env1)

/-- the first case whose type is the dynamic type of the subject (`none`: the nil interface matches
    no case); `none` = no case matched -/
def execCases (sem : Sem) (ty : Option String) : List St → Env → M (Option (Ctl × Env))
  | [], _ => pure none
  | .case_ t body :: more, env =>
    if ty == some t then do
      let r ← execBlock sem body env
      pure (some r)
    else execCases sem ty more env
  | _ :: _, _ => stuck
end

/-- run a unit on its arguments (receiver first) -/
def runUnit (sem : Sem) (u : String) (args : List Val) : M Val :=
  match irOf u with
  | some (params, items) =>
    match decode items with
    | some body =>
      if params.length == args.length then do
        match ← execBlock sem body (params.zip args) with
        | (.ret v, _) => pure v
        | (.next, _) => pure .unit           -- fell off the end of a function without results
        | (.cont, _) => stuck
      else stuck
    | none => stuck
  | none => stuck

/-! ### the callees: every unit may call every other, to a bounded depth -/

def noSem : Sem := ⟨fun _ _ => stuck, fun _ _ => stuck, fun _ _ => stuck, 0⟩

def asSpan : Val → M Span
  | .span s => pure s
  | _ => stuck

/-- `spanOf` is what `x.Span()` does on a node (dynamic dispatch) -/
def semAt (spanOf : GNode → M Span) : Nat → Sem
  | 0 => noSem
  | d + 1 =>
    { call := fun f args => runUnit (semAt spanOf d) f args
      method := fun m x =>
        match x with
        | .span _ =>
          if m == "IsValid" then runUnit (semAt spanOf d) "Span.IsValid" [x]
          else if m == "Len" then runUnit (semAt spanOf d) "Span.Len" [x]
          else stuck
        | .node g => if m == "Span" then do let s ← spanOf g; pure (.span s) else stuck
        | _ => stuck
      callVar := fun _ _ => stuck
      fuel := 0 }

/-- enough for the deepest chain (nodeSliceSpan → unionSpans → newSpan) -/
def callDepth : Nat := 4

/-! ### `Span()` of every node type, from `Facts.spanUnion` (+ `Facts.astSpanReturns`) -/

/-- one argument of the union: span:F  x.F · node:F  nodeSpan(x.F) · slice:F  nodeSliceSpan(x.F) ·
    method:F  x.F.Span() -/
def argSpan (rec : GNode → M Span) (fs : List (String × Val)) (a : String × String) : M Span :=
  if a.1 == "span" then
    match lookupField fs a.2 with
    | some (.span s) => pure s
    | _ => stuck
  else if a.1 == "node" then
    match lookupField fs a.2 with
    | some (.node c) => runUnit (semAt rec callDepth) "nodeSpan" [.node c] >>= asSpan
    | _ => stuck
  else if a.1 == "slice" then
    match lookupField fs a.2 with
    | some (.nodes cs) => runUnit (semAt rec callDepth) "nodeSliceSpan" [.nodes cs] >>= asSpan
    | _ => stuck
  else if a.1 == "method" then
    match lookupField fs a.2 with
    | some (.node c) => (semAt rec callDepth).method "Span" (.node c) >>= asSpan
    | _ => stuck
  else stuck

def mapArgs {α β : Type} (f : α → M β) : List α → M (List β)
  | [] => pure []
  | a :: r => do
    let x ← f a
    let y ← mapArgs f r
    pure (x :: y)

/-- `(*T).Span()`: the nil-receiver guard, then the union of the listed arguments (or the only argument
    as it is); `rec` is `Span()` of the children -/
def spanMethod (rec : GNode → M Span) (g : GNode) : M Span :=
  match g.goType with
  | none => goPanic                          -- method call on the nil interface
  | some ty =>
    match Facts.spanUnion.find? (·.1 == ty), Facts.astSpanReturns.find? (·.1 == ty) with
    | some (_, guard, args), some (_, form) =>
      match g.fields with
      | none => if guard then runUnit (semAt rec callDepth) "nullSpan" [] >>= asSpan else goPanic
      | some fs => do
        let spans ← mapArgs (argSpan rec fs) args
        if form == "union" then runUnit (semAt rec callDepth) "unionSpans" [.spans spans] >>= asSpan
        else if form == "direct" then
          match spans with
          | [s] => pure s
          | _ => stuck
        else stuck
    | _, _ => stuck

/-- `x.Span()` by dynamic dispatch, to a bounded depth of the tree -/
def interpSpan : Nat → GNode → M Span
  | 0, _ => stuck
  | fuel + 1, g => spanMethod (interpSpan fuel) g

/-! ### `Walk` -/

/-- the visitor: its answer may depend on the number of the call and on the node -/
def walkSem (v : Nat → Node → Bool) (fuel : Nat) : Sem :=
  { call := fun _ _ => stuck
    method := fun _ _ => stuck
    callVar := fun f args =>
      if f == "visit" then
        match args with
        | [.node (.node n)] => fun w => .ok (.bool (v w.calls n)) ⟨w.calls + 1, w.events ++ [eventOf n]⟩
        | _ => stuck
      else stuck
    fuel := fuel }

/-- `Walk(n, visit)`: the loop may run as often as the model's (`n.size + 1`) -/
def interpWalk (v : Nat → Node → Bool) (n : Node) : Out Val :=
  runUnit (walkSem v (n.size + 1)) "Walk" [.node (.node n), .fn] ⟨0, []⟩

end Pql.AstIR
