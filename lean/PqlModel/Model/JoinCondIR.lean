/-
Interpreter for the IR of `buildJoinCondition` and `rewriteSimpleJoinCondition` (pql.go) that
`harness/extract_joincond.go` regenerates from the Go source on every run (`Facts.joinCondIR`).

Both functions BUILD expressions: the IR has terms (`var`, `index`, `path`, `call`, `asq`,
`node T … end` for `&parser.T{…}`, `list … end`, token kinds, package constants, string literals) in
prefix code, conditions, and the statements `if`, type assertion, `:=`, `=`, `for _, y := range v[N:]`
and `return` (anywhere: `exec` reports whether the function has returned).  Statements are decoded
into a tree (`decode`); terms stay flat and are evaluated by a reader with fuel (`evalTerm`).

Composite literals leave the fields they do not mention at their zero values: the spans of the new
nodes are `Span.zero`, `Quoted` is false — as in the hand-written model.
Go run-time failures are `IErr.go .panic` (nil dereference, index out of range); `IErr.stuck` means
that the IR is not understood.
-/
import PqlModel.Model.Compile
namespace Pql.JoinCondIR
open Pql

inductive IErr
  | go (e : WErr)
  | stuck
  deriving DecidableEq, Repr

abbrev IM := Except IErr

def goPanic {α : Type} : IM α := .error (.go .panic)
def stuck {α : Type} : IM α := .error .stuck

/-! ### syntax -/

inductive Cond
  | lenEq0 (v : String)                    -- len(v) == 0
  | notOk (v : String)                     -- !v
  | lenNe1 (v f : String)                  -- len(v.f) != 1
  | flag (v f : String)                    -- v.f
  | mapNonEmpty (m v f : String)           -- m[v.f] != ""
  | or (a b : Cond)
  deriving DecidableEq, Repr

inductive Stmt
  | ite (c : Cond) (t : List Stmt)                 -- if c { t }
  | assert (v ok x ty : String)                    -- v, ok := x.(*parser.ty)
  | def_ (v : String) (t : List String)            -- v := term
  | set (v : String) (t : List String)             -- v = term
  | forRange (y v n : String) (body : List Stmt)   -- for _, y := range v[n:] { body }
  | ret (t : List String)                          -- return term
  deriving Repr

def decodeCond : Nat → List String → Option (Cond × List String)
  | 0, _ => none
  | fuel + 1, ts =>
    match ts with
    | [] => none
    | k :: r =>
      if k == "leneq0" then match r with | v :: r => some (.lenEq0 v, r) | _ => none
      else if k == "notok" then match r with | v :: r => some (.notOk v, r) | _ => none
      else if k == "lenne1" then match r with | v :: f :: r => some (.lenNe1 v f, r) | _ => none
      else if k == "flag" then match r with | v :: f :: r => some (.flag v f, r) | _ => none
      else if k == "mapnonempty" then match r with | m :: v :: f :: r => some (.mapNonEmpty m v f, r) | _ => none
      else if k == "or" then
        match decodeCond fuel r with
        | some (a, r1) =>
          match decodeCond fuel r1 with
          | some (b, r2) => some (.or a b, r2)
          | none => none
        | none => none
      else none

def decodeSimple (k : String) (a : List String) : Option Stmt :=
  if k == "assert" then match a with | [v, ok, x, ty] => some (.assert v ok x ty) | _ => none
  else if k == "def" then match a with | v :: t => some (.def_ v t) | _ => none
  else if k == "set" then match a with | v :: t => some (.set v t) | _ => none
  else if k == "return" then some (.ret a)
  else none

def decodeBlock : Nat → List (List String) → Option (List Stmt × List (List String))
  | 0, _ => none
  | _ + 1, [] => some ([], [])
  | fuel + 1, it :: rest =>
    match it with
    | [] => none
    | k :: a =>
      if k == "end" then some ([], it :: rest)
      else if k == "if" then
        match decodeCond (a.length + 1) a with
        | some (c, []) =>
          match decodeBlock fuel rest with
          | some (t, ["end"] :: rest2) =>
            match decodeBlock fuel rest2 with
            | some (more, rest3) => some (.ite c t :: more, rest3)
            | none => none
          | _ => none
        | _ => none
      else if k == "forrange" then
        match a with
        | [y, v, n] =>
          match decodeBlock fuel rest with
          | some (body, ["end"] :: rest2) =>
            match decodeBlock fuel rest2 with
            | some (more, rest3) => some (.forRange y v n body :: more, rest3)
            | none => none
          | _ => none
        | _ => none
      else
        match decodeSimple k a with
        | some s =>
          match decodeBlock fuel rest with
          | some (more, rest2) => some (s :: more, rest2)
          | none => none
        | none => none

def decode (items : List (List String)) : Option (List Stmt) :=
  match decodeBlock (items.length + 1) items with
  | some (b, []) => some b
  | _ => none

/-- (parameter names, items) of a function -/
def irOf (fn : String) : Option (List String × List (List String)) :=
  (Facts.joinCondIR.find? (·.1 == fn)).map (·.2)

/-! ### values -/

inductive Val
  | expr (e : Expr)               -- parser.Expr (possibly the nil interface) or a node pointer (possibly nil)
  | exprs (l : List Expr)         -- []parser.Expr
  | bool (b : Bool)
  | ident (i : Ident)             -- *parser.Ident
  | idents (l : List Ident)       -- []*parser.Ident
  | tok (k : TokKind)             -- parser.TokenKind
  | str (b : Bytes)               -- string

abbrev Env := List (String × Val)

structure Sem where
  call : String → Val → IM Val

def get (env : Env) (v : String) : IM Val :=
  match env.find? (·.1 == v) with
  | some kv => .ok kv.2
  | none => stuck

def assignIn (v : String) (x : Val) : Env → Option Env
  | [] => none
  | kv :: r => if kv.1 == v then some ((v, x) :: r) else (assignIn v x r).map (kv :: ·)

def headOrPanic {α : Type} : List α → IM α
  | a :: _ => .ok a
  | [] => goPanic

/-- the parts of a `*QualifiedIdent` variable: a nil pointer panics -/
def partsOf (x : Val) : IM (List Ident) :=
  match x with
  | .expr (.qident parts) => .ok parts
  | .expr .nil => goPanic
  | _ => stuck

def tokOf (t : String) : IM TokKind :=
  if t == TokKind.and_.goName then .ok .and_
  else if t == TokKind.eq.goName then .ok .eq
  else stuck

def constOf (c : String) : IM String :=
  if c == "leftJoinTableAlias" then .ok Facts.leftJoinTableAlias
  else if c == "rightJoinTableAlias" then .ok Facts.rightJoinTableAlias
  else stuck

def field (fields : List (String × Val)) (k : String) : IM Val :=
  match fields.find? (·.1 == k) with
  | some kv => .ok kv.2
  | none => stuck

/-- `&parser.ty{fields…}`; fields that are not mentioned are zero -/
def mkNode (ty : String) (fields : List (String × Val)) : IM Val :=
  if ty == "Ident" then
    if fields.length == 1 then do
      match ← field fields "Name" with
      | .str b => pure (.ident ⟨b, .zero, false⟩)
      | _ => stuck
    else stuck
  else if ty == "QualifiedIdent" then
    if fields.length == 1 then do
      match ← field fields "Parts" with
      | .idents l => pure (.expr (.qident l))
      | _ => stuck
    else stuck
  else if ty == "BinaryExpr" then
    if fields.length == 3 then do
      match ← field fields "X", ← field fields "Op", ← field fields "Y" with
      | .expr x, .tok k, .expr y => pure (.expr (.binary x .zero k y))
      | _, _, _ => stuck
    else stuck
  else stuck

def identsOf : List Val → IM (List Ident)
  | [] => .ok []
  | .ident i :: r => (identsOf r).map (i :: ·)
  | _ => stuck

mutual
/-- read and evaluate one term (or field value) at the head of the token list -/
def evalTerm (sem : Sem) (env : Env) : Nat → List String → IM (Val × List String)
  | 0, _ => stuck
  | _ + 1, [] => stuck
  | fuel + 1, k :: r =>
    if k == "var" then match r with | v :: r => (get env v).map (·, r) | _ => stuck
    else if k == "index" then
      match r with
      | v :: n :: r => do
        match ← get env v with
        | .exprs l => if n == "0" then (headOrPanic l).map (.expr ·, r) else stuck
        | _ => stuck
      | _ => stuck
    else if k == "path" then
      match r with
      | v :: f :: r => do
        let parts ← get env v >>= partsOf
        if f == "Parts[0]" then (headOrPanic parts).map (.ident ·, r) else stuck
      | _ => stuck
    else if k == "call" then
      match r with
      | f :: r => do
        let (a, r) ← evalTerm sem env fuel r
        let x ← sem.call f a
        pure (x, r)
      | _ => stuck
    else if k == "asq" then do
      match ← evalTerm sem env fuel r with
      | (.ident i, r) => pure (.expr (.qident [i]), r)
      | _ => stuck
    else if k == "node" then
      match r with
      | ty :: r => do
        let (fs, r) ← evalFields sem env fuel r
        let x ← mkNode ty fs
        pure (x, r)
      | _ => stuck
    else if k == "list" then do
      let (xs, r) ← evalList sem env fuel r
      let is ← identsOf xs
      pure (.idents is, r)
    else if k == "tok" then match r with | t :: r => (tokOf t).map (.tok ·, r) | _ => stuck
    else if k == "const" then match r with | c :: r => (constOf c).map fun s => (.str (Bytes.ofString s), r) | _ => stuck
    else if k == "str" then match r with | s :: r => .ok (.str (Bytes.ofString s), r) | _ => stuck
    else stuck

/-- `(K <fval>)* end` -/
def evalFields (sem : Sem) (env : Env) : Nat → List String → IM (List (String × Val) × List String)
  | 0, _ => stuck
  | _ + 1, [] => stuck
  | fuel + 1, k :: r =>
    if k == "end" then .ok ([], r)
    else do
      let (x, r) ← evalTerm sem env fuel r
      let (fs, r) ← evalFields sem env fuel r
      pure ((k, x) :: fs, r)

/-- `<term>* end` -/
def evalList (sem : Sem) (env : Env) : Nat → List String → IM (List Val × List String)
  | 0, _ => stuck
  | _ + 1, [] => stuck
  | fuel + 1, k :: r =>
    if k == "end" then .ok ([], r)
    else do
      let (x, r) ← evalTerm sem env fuel (k :: r)
      let (xs, r) ← evalList sem env fuel r
      pure (x :: xs, r)
end

/-- a term that is the whole rest of an item -/
def evalWhole (sem : Sem) (env : Env) (t : List String) : IM Val := do
  match ← evalTerm sem env (t.length + 1) t with
  | (x, []) => pure x
  | _ => stuck

def evalCond (env : Env) : Cond → IM Bool
  | .lenEq0 v => do
    match ← get env v with
    | .exprs l => pure l.isEmpty
    | _ => stuck
  | .notOk v => do
    match ← get env v with
    | .bool b => pure (!b)
    | _ => stuck
  | .lenNe1 v f => do
    let parts ← get env v >>= partsOf
    if f == "Parts" then pure (parts.length != 1) else stuck
  | .flag v f => do
    let parts ← get env v >>= partsOf
    if f == "Parts[0].Quoted" then (headOrPanic parts).map (·.quoted) else stuck
  | .mapNonEmpty m v f => do
    let parts ← get env v >>= partsOf
    if m == "builtinIdentifiers" && f == "Parts[0].Name" then do
      let p ← headOrPanic parts
      -- a Go map lookup of a missing key yields ""
      match builtinIdent p.name with
      | some s => pure (s != "")
      | none => pure false
    else stuck
  | .or a b => do
    if (← evalCond env a) then pure true else evalCond env b

/-- `for _, y := range xs { body }`; `some` = the function has returned -/
def forEach (y : String) (body : Env → IM (Option Val × Env)) : List Expr → Env → IM (Option Val × Env)
  | [], env => .ok (none, env)
  | x :: xs, env => do
    match ← body ((y, .expr x) :: env) with
    | (some r, env1) => pure (some r, env1)
    | (none, env1) => forEach y body xs (env1.drop (env1.length - env.length))

mutual
def exec (sem : Sem) : Stmt → Env → IM (Option Val × Env)
  | .ite c t, env => do
    if (← evalCond env c) then do
      let (r, env1) ← execBlock sem t env
      pure (r, env1.drop (env1.length - env.length))
    else pure (none, env)
  | .assert v ok x ty, env => do
    match ← get env x with
    | .expr e =>
      if exprTypeName e == ty then pure (none, (ok, .bool true) :: (v, .expr e) :: env)
      else pure (none, (ok, .bool false) :: (v, .expr .nil) :: env)
    | _ => stuck
  | .def_ v t, env => do
    let x ← evalWhole sem env t
    pure (none, (v, x) :: env)
  | .set v t, env => do
    let x ← evalWhole sem env t
    match assignIn v x env with
    | some env1 => pure (none, env1)
    | none => stuck
  | .forRange y v n body, env => do
    match ← get env v with
    | .exprs l =>
      if n == "1" then
        -- `v[1:]` of an empty slice is out of range
        if l.isEmpty then goPanic else forEach y (execBlock sem body) (l.drop 1) env
      else stuck
    | _ => stuck
  | .ret t, env => do
    let x ← evalWhole sem env t
    pure (some x, env)

def execBlock (sem : Sem) : List Stmt → Env → IM (Option Val × Env)
  | [], env => .ok (none, env)
  | s :: r, env => do
    match ← exec sem s env with
    | (some x, env1) => pure (some x, env1)
    | (none, env1) => execBlock sem r env1
end

/-- run a function of one parameter; falling off the end without `return` is `stuck` -/
def interpFn (sem : Sem) (fn : String) (arg : Val) : IM Val :=
  match irOf fn with
  | some ([p], items) =>
    match decode items with
    | some body => do
      match ← execBlock sem body [(p, arg)] with
      | (some x, _) => pure x
      | (none, _) => stuck
    | none => stuck
  | _ => stuck

def noCalls : Sem := ⟨fun _ _ => stuck⟩

def exprOf : Val → IM Expr
  | .expr e => .ok e
  | _ => stuck

/-- `rewriteSimpleJoinCondition(c)` -/
def interpRewrite (c : Expr) : IM Expr :=
  interpFn noCalls "rewriteSimpleJoinCondition" (.expr c) >>= exprOf

/-- the callee of `buildJoinCondition` -/
def buildSem : Sem :=
  ⟨fun f a =>
    if f == "rewriteSimpleJoinCondition" then
      match a with
      | .expr c => (interpRewrite c).map .expr
      | _ => stuck
    else stuck⟩

/-- `buildJoinCondition(conds)` -/
def interpBuild (conds : ExprList) : IM Expr :=
  interpFn buildSem "buildJoinCondition" (.exprs conds.toList) >>= exprOf

end Pql.JoinCondIR
