/-
Syntax and decoder for the IR of the statement and operator level of parser/parser.go, which
`harness/extract_parse.go` regenerates from the Go source on every run (`Facts.parseIR`): `Parse`,
`firstParse`, `letStatement`, `tabularExpr`, the operator methods and their column helpers, `sortTerm`,
`rowCount`.

The regenerated form is flat (an item is a list of strings, expressions and conditions are
prefix-coded inside an item, blocks are closed by `["end"]`); `decodeBody` turns it into the statement
tree `IStmt`.  Model/ParseIR.lean interprets the tree.
-/
import PqlModel.Model.Parse
namespace Pql.OpIR
open Pql

/-! ### syntax -/

inductive IExpr
  | var (v : String)
  | nil
  | bool (b : Bool)
  | int (n : Nat)
  | str (s : String)                       -- "s"
  | kind (k : String)                      -- a TokenKind constant
  | fld (f : String) (e : IExpr)           -- e.f
  | nullSpan                               -- nullSpan()
  | newSpan (a b : IExpr)                  -- newSpan(a, b)
  | eofSpan (p : String)                   -- indexSpan(len(p.source))
  | new (ty : String)                      -- &ty{}
  | withFld (e : IExpr) (f : String) (x : IExpr)   -- the literal e with the field f: x
  | perr (p : String) (nf : Bool) (span : IExpr)   -- &parseError{source: p.source, span: span, err: (notFoundError)…}
  | errNoPos                               -- fmt.Errorf(…) / errors.New(…), no %w
  | wrapW (e : IExpr)                      -- fmt.Errorf("…%w", e)
  | join (a b : IExpr)                     -- joinErrors(a, b)    (joinErrors(a, b, c) = join (join a b) c)
  | opaque (e : IExpr)                     -- makeErrorOpaque(e)
  | append (s x : IExpr)                   -- append(s, x)
  | len (e : IExpr)                        -- len(e)
  | addr (v : String)                      -- &v
  | asQual (e : IExpr)                     -- e.AsQualified()
  | pos (p : String)                       -- p.pos
  | tokAt (p : String)                     -- p.tokens[p.pos]
  | endSplit (p : String)                  -- p.endSplit()
  | toIface (e : IExpr)                    -- a pointer stored in an interface value
  deriving DecidableEq, Repr

inductive ICond
  | eq (a b : IExpr)
  | ne (a b : IExpr)
  | not (c : ICond)
  | and (a b : ICond)
  | or (a b : ICond)
  | isNF (e : IExpr)                       -- isNotFound(e)
  | truth (e : IExpr)                      -- a bool
  | more (p : String)                      -- p.pos < len(p.tokens)
  | isInteger (e : IExpr)                  -- e.IsInteger()   (e a *BasicLit)
  deriving DecidableEq, Repr

inductive Target
  | blank                                  -- _
  | def_ (v : String)                      -- v :=
  | set (v : String)                       -- v =
  | fset (v f : String)                    -- v.f =
  | setPos (p : String)                    -- p.pos =
  deriving DecidableEq, Repr

inductive IStmt
  | call (recv method : String) (lhs : List Target) (args : List IExpr)   -- lhs… := recv.method(args…)
  | prev (recv : String)                   -- recv.prev()
  | assign (t : Target) (e : IExpr)
  | varDecl (v ty : String)                -- var v ty
  | newParser (v q : String)               -- v := &parser{source: q, tokens: Scan(q)}
  | mapOk (v m : String) (e : IExpr)       -- _, v := m[e]
  | msgOnly (what v : String)              -- affects only the message-only variable v
  | ite (c : ICond) (t e : List IStmt)
  | scope (body : List IStmt)              -- { body }
  | loop (body : List IStmt)               -- for { body }
  | brk
  | cont
  | ret (es : List IExpr)                  -- return es…
  | firstParse (lhs : List Target) (a b : List IStmt)    -- lhs… := firstParse(func() {a}, func() {b})
  | rangeInit (v w : String) (body : List IStmt)         -- for _, v := range w[:len(w)-1] { body }
  | callFn (f : String) (lhs : List Target)              -- lhs… := f()
  | retLast (w : String)                   -- return w[len(w)-1]()
  | asType (ty : String) (lhs : List Target) (e : IExpr)   -- lhs… := e.(*ty)   (the comma-ok form)
  deriving Repr

/-! ### decoding the flat form -/

def digitVal (c : Char) : Option Nat := if '0' ≤ c ∧ c ≤ '9' then some (c.toNat - 48) else none

/-- a decimal numeral (structural, so that decoding reduces in the kernel) -/
def decodeNat (s : String) : Option Nat :=
  match s.toList with
  | [] => none
  | cs => cs.foldl (fun acc c => match acc, digitVal c with | some a, some d => some (10 * a + d) | _, _ => none) (some 0)

mutual
def decodeExpr : Nat → List String → Option (IExpr × List String)
  | 0, _ => none
  | fuel + 1, ts =>
    match ts with
    | [] => none
    | k :: r =>
      if k == "var" then match r with | v :: r => some (.var v, r) | _ => none
      else if k == "nil" then some (.nil, r)
      else if k == "bool" then
        match r with
        | b :: r => if b == "true" then some (.bool true, r) else if b == "false" then some (.bool false, r) else none
        | _ => none
      else if k == "int" then match r with | n :: r => (decodeNat n).map fun n => (.int n, r) | _ => none
      else if k == "str" then match r with | s :: r => some (.str s, r) | _ => none
      else if k == "kind" then match r with | s :: r => some (.kind s, r) | _ => none
      else if k == "fld" then
        match r with
        | f :: r => (decodeExpr fuel r).map fun (e, r) => (.fld f e, r)
        | _ => none
      else if k == "nullspan" then some (.nullSpan, r)
      else if k == "newspan" then
        match decodeExpr fuel r with
        | some (a, r1) => (decodeExpr fuel r1).map fun (b, r2) => (.newSpan a b, r2)
        | none => none
      else if k == "eofspan" then match r with | p :: r => some (.eofSpan p, r) | _ => none
      else if k == "new" then
        match r with
        | ty :: n :: r => match decodeNat n with
          | some n => decodeFields fuel n (.new ty) r
          | none => none
        | _ => none
      else if k == "perr" then
        match r with
        | p :: kd :: r =>
          if kd == "nf" then (decodeExpr fuel r).map fun (e, r) => (.perr p true e, r)
          else if kd == "plain" then (decodeExpr fuel r).map fun (e, r) => (.perr p false e, r)
          else none
        | _ => none
      else if k == "errnopos" then some (.errNoPos, r)
      else if k == "wrapw" then (decodeExpr fuel r).map fun (e, r) => (.wrapW e, r)
      else if k == "join" then
        match r with
        | n :: r => match decodeNat n with
          | some (n + 1) =>
            match decodeExpr fuel r with
            | some (a, r1) => decodeJoin fuel n a r1
            | none => none
          | _ => none
        | _ => none
      else if k == "opaque" then (decodeExpr fuel r).map fun (e, r) => (.opaque e, r)
      else if k == "append" then
        match decodeExpr fuel r with
        | some (a, r1) => (decodeExpr fuel r1).map fun (b, r2) => (.append a b, r2)
        | none => none
      else if k == "len" then (decodeExpr fuel r).map fun (e, r) => (.len e, r)
      else if k == "addr" then match r with | v :: r => some (.addr v, r) | _ => none
      else if k == "asqual" then (decodeExpr fuel r).map fun (e, r) => (.asQual e, r)
      else if k == "pos" then match r with | p :: r => some (.pos p, r) | _ => none
      else if k == "tokat" then match r with | p :: r => some (.tokAt p, r) | _ => none
      else if k == "endsplit" then match r with | p :: r => some (.endSplit p, r) | _ => none
      else if k == "toiface" then (decodeExpr fuel r).map fun (e, r) => (.toIface e, r)
      else none

/-- `n` pairs `f E` of a composite literal -/
def decodeFields : Nat → Nat → IExpr → List String → Option (IExpr × List String)
  | 0, _, _, _ => none
  | _ + 1, 0, acc, ts => some (acc, ts)
  | fuel + 1, n + 1, acc, ts =>
    match ts with
    | f :: r =>
      match decodeExpr fuel r with
      | some (x, r1) => decodeFields fuel n (.withFld acc f x) r1
      | none => none
    | [] => none

/-- the remaining `n` arguments of a `joinErrors` -/
def decodeJoin : Nat → Nat → IExpr → List String → Option (IExpr × List String)
  | 0, _, _, _ => none
  | _ + 1, 0, acc, ts => some (acc, ts)
  | fuel + 1, n + 1, acc, ts =>
    match decodeExpr fuel ts with
    | some (x, r1) => decodeJoin fuel n (.join acc x) r1
    | none => none
end

/-- expressions that fill the rest of an item -/
def decodeExprs : Nat → List String → Option (List IExpr)
  | 0, _ => none
  | _ + 1, [] => some []
  | fuel + 1, ts =>
    match decodeExpr (ts.length + 1) ts with
    | some (e, r) => (decodeExprs fuel r).map (e :: ·)
    | none => none

def decodeExprAll (ts : List String) : Option IExpr :=
  match decodeExpr (ts.length + 1) ts with
  | some (e, []) => some e
  | _ => none

def decodeCond : Nat → List String → Option (ICond × List String)
  | 0, _ => none
  | fuel + 1, ts =>
    match ts with
    | [] => none
    | k :: r =>
      if k == "eq" then
        match decodeExpr (r.length + 1) r with
        | some (a, r1) => (decodeExpr (r1.length + 1) r1).map fun (b, r2) => (.eq a b, r2)
        | none => none
      else if k == "ne" then
        match decodeExpr (r.length + 1) r with
        | some (a, r1) => (decodeExpr (r1.length + 1) r1).map fun (b, r2) => (.ne a b, r2)
        | none => none
      else if k == "not" then (decodeCond fuel r).map fun (c, r) => (.not c, r)
      else if k == "and" then
        match decodeCond fuel r with
        | some (a, r1) => (decodeCond fuel r1).map fun (b, r2) => (.and a b, r2)
        | none => none
      else if k == "or" then
        match decodeCond fuel r with
        | some (a, r1) => (decodeCond fuel r1).map fun (b, r2) => (.or a b, r2)
        | none => none
      else if k == "isnf" then (decodeExpr (r.length + 1) r).map fun (e, r) => (.isNF e, r)
      else if k == "truth" then (decodeExpr (r.length + 1) r).map fun (e, r) => (.truth e, r)
      else if k == "more" then match r with | p :: r => some (.more p, r) | _ => none
      else if k == "isinteger" then (decodeExpr (r.length + 1) r).map fun (e, r) => (.isInteger e, r)
      else none

def decodeTarget : List String → Option (Target × List String)
  | [] => none
  | k :: r =>
    if k == "blank" then some (.blank, r)
    else if k == "def" then match r with | v :: r => some (.def_ v, r) | _ => none
    else if k == "set" then match r with | v :: r => some (.set v, r) | _ => none
    else if k == "fset" then match r with | v :: f :: r => some (.fset v f, r) | _ => none
    else if k == "setpos" then match r with | p :: r => some (.setPos p, r) | _ => none
    else none

def decodeTargets : Nat → List String → Option (List Target × List String)
  | 0, ts => some ([], ts)
  | n + 1, ts =>
    match decodeTarget ts with
    | some (t, r) => (decodeTargets n r).map fun (l, r) => (t :: l, r)
    | none => none

/-- an item that is a statement by itself -/
def decodeSimple (k : String) (a : List String) : Option IStmt :=
  if k == "call" then
    match a with
    | recv :: method :: n :: r =>
      match decodeNat n with
      | some n =>
        match decodeTargets n r with
        | some (lhs, r1) => (decodeExprs (r1.length + 1) r1).map (.call recv method lhs ·)
        | none => none
      | none => none
    | _ => none
  else if k == "prev" then match a with | [p] => some (.prev p) | _ => none
  else if k == "assign" then
    match decodeTarget a with
    | some (t, r) => (decodeExprAll r).map (.assign t ·)
    | none => none
  else if k == "vardecl" then match a with | [v, ty] => some (.varDecl v ty) | _ => none
  else if k == "newparser" then match a with | [v, q] => some (.newParser v q) | _ => none
  else if k == "mapok" then match a with | v :: m :: e => (decodeExprAll e).map (.mapOk v m ·) | _ => none
  else if k == "msgonly" then match a with | [w, v] => some (.msgOnly w v) | _ => none
  else if k == "break" then match a with | [] => some .brk | _ => none
  else if k == "continue" then match a with | [] => some .cont | _ => none
  else if k == "return" then (decodeExprs (a.length + 1) a).map .ret
  else if k == "callfn" then
    match a with
    | f :: n :: r =>
      match decodeNat n with
      | some n => match decodeTargets n r with
        | some (lhs, []) => some (.callFn f lhs)
        | _ => none
      | none => none
    | _ => none
  else if k == "returnlast" then match a with | [w] => some (.retLast w) | _ => none
  else if k == "astype" then
    match a with
    | ty :: n :: r =>
      match decodeNat n with
      | some n =>
        match decodeTargets n r with
        | some (lhs, r1) => (decodeExprAll r1).map (.asType ty lhs ·)
        | none => none
      | none => none
    | _ => none
  else none

/-- statements up to the end of the input or the next `["end"]` / `["else"]` (which is left in place) -/
def decodeBlock : Nat → List (List String) → Option (List IStmt × List (List String))
  | 0, _ => none
  | _ + 1, [] => some ([], [])
  | fuel + 1, it :: rest =>
    match it with
    | [] => none
    | k :: a =>
      if k == "end" || k == "else" then some ([], it :: rest)
      else if k == "for" || k == "scope" then
        match a with
        | [] =>
          match decodeBlock fuel rest with
          | some (body, ["end"] :: rest2) =>
            match decodeBlock fuel rest2 with
            | some (more, rest3) => some ((if k == "for" then .loop body else .scope body) :: more, rest3)
            | none => none
          | _ => none
        | _ => none
      else if k == "rangeinit" then
        match a with
        | [v, w] =>
          match decodeBlock fuel rest with
          | some (body, ["end"] :: rest2) =>
            match decodeBlock fuel rest2 with
            | some (more, rest3) => some (.rangeInit v w body :: more, rest3)
            | none => none
          | _ => none
        | _ => none
      else if k == "firstparse" then
        -- exactly two productions
        match a with
        | n :: r =>
          match decodeNat n with
          | some n =>
            match decodeTargets n r, rest with
            | some (lhs, []), ["closure"] :: rest1 =>
              match decodeBlock fuel rest1 with
              | some (ca, ["end"] :: ["closure"] :: rest2) =>
                match decodeBlock fuel rest2 with
                | some (cb, ["end"] :: ["end"] :: rest3) =>
                  match decodeBlock fuel rest3 with
                  | some (more, rest4) => some (.firstParse lhs ca cb :: more, rest4)
                  | none => none
                | _ => none
              | _ => none
            | _, _ => none
          | none => none
        | _ => none
      else if k == "if" then
        match decodeCond (a.length + 1) a with
        | some (c, []) =>
          match decodeBlock fuel rest with
          | some (t, ["end"] :: rest2) =>
            match decodeBlock fuel rest2 with
            | some (more, rest3) => some (.ite c t [] :: more, rest3)
            | none => none
          | some (t, ["else"] :: rest2) =>
            match decodeBlock fuel rest2 with
            | some (e, ["end"] :: rest3) =>
              match decodeBlock fuel rest3 with
              | some (more, rest4) => some (.ite c t e :: more, rest4)
              | none => none
            | _ => none
          | _ => none
        | _ => none
      else
        match decodeSimple k a with
        | some s =>
          match decodeBlock fuel rest with
          | some (more, rest2) => some (s :: more, rest2)
          | none => none
        | none => none

def decodeBody (items : List (List String)) : Option (List IStmt) :=
  match decodeBlock (items.length + 1) items with
  | some (b, []) => some b
  | _ => none

/-- a translated function: parameters (name, type), the receiver first; result types; body -/
structure FuncIR where
  params : List (String × String)
  results : List String
  body : List IStmt
  deriving Repr

/-- the unit regenerated for the Go function `name` -/
def unitOf (name : String) : Option FuncIR :=
  match Facts.parseIR.find? (·.1 == name) with
  | some (_, ps, rs, items) => (decodeBody items).map fun b => ⟨ps, rs, b⟩
  | none => none

end Pql.OpIR
