/-
Interpreter for the IR of the command-line tool's main loop, `func run(ctx, output, input,
logError) error` of cmd/pql/main.go, which `harness/extract_cli.go` regenerates from the Go source
on every run (`Facts.cliIR`, `Facts.cliRunParams`).

The regenerated form is flat (an item is a list of strings, expressions and conditions are
prefix-coded inside an item, blocks are closed by `["end"]`); `decode` turns it into the statement
tree `Stmt`, `exec` runs a statement tree on a state: the Go variables in scope (innermost first),
what has been written to `output`, how many times the error callback has been called, and the
`bufio.Scanner` (the lines it has not delivered yet, the current line, whether `Scan` has returned
false, whether reading stopped with an error).  The three library functions are parameters
(`Lib`): `parser.SplitStatements`, `parser.Scan`, `pql.Compile` (`none` = an error is returned).

Control flow is explicit (`Flow`): a statement completes normally, `continue`s the innermost loop,
or returns from the function.  Go run-time failures are explicit too: an index out of range is
`IErr.panic`; `IErr.stuck` is kept apart: the IR refers to a variable that is not in scope, applies
an operation to a value of the wrong type, or is not decodable (the translator produced something
this interpreter does not understand).  `cliRun` never yields either, so the theorem
`interpRun … = .ok (cliRun …)` excludes both.

Not interpreted (stays modelled by hand): `bufio.Scanner` itself (`Cli.bufioLines` turns input
bytes into the line list and the read-error flag), the note written to stderr when the input is a
terminal (`stderrNote`: stderr is not an observable), the texts of error values (an error value is
kept as a term `GoErr`, only nil / non-nil reaches the result).

Props/C16RunIR.lean proves that the hand-written model (`cliLine`, `cliStatement`, `cliRun`) is
this interpretation of the regenerated IR.
-/
import PqlModel.Model.Cli
namespace Pql.CliIR
open Pql

/-! ### syntax -/

inductive Expr
  | var (v : String)
  | nil                                    -- nil
  | lit (s : String)                       -- "s"
  | cat (a b : Expr)                       -- a + b
  | sbStr (v : String)                     -- v.String()          (v a *strings.Builder)
  | scanBytes (v : String)                 -- v.Bytes()           (v a *bufio.Scanner)
  | scanErr (v : String)                   -- v.Err()
  | split (e : Expr)                       -- parser.SplitStatements(e)
  | scan (e : Expr)                        -- parser.Scan(e)
  | init (w : String)                      -- w[:len(w)-1]
  | last (w : String)                      -- w[len(w)-1]
  | errNew (s : String)                    -- errors.New("s")
  | errorfW (format : String) (e : Expr)   -- fmt.Errorf("…%w…", e)
  deriving DecidableEq, Repr

inductive Cond
  | lenEq (n : Nat) (e : Expr)             -- len(e) == n
  | lenGt (n : Nat) (e : Expr)             -- len(e) > n
  | isNil (v : String)                     -- v == nil
  | notNil (v : String)                    -- v != nil
  | kindIs (w : String) (i : Nat) (k : String)    -- w[i].Kind == parser.k
  | valueIs (w : String) (i : Nat) (s : String)   -- w[i].Value == "s"
  | and (a b : Cond)                       -- a && b
  deriving DecidableEq, Repr

inductive Stmt
  | newScanner (v r : String)              -- v := bufio.NewScanner(r)
  | newSb (v : String)                     -- v := new(strings.Builder)
  | stderrNote (r text : String)           -- if isTerminal(r) { fmt.Fprintln(os.Stderr, "text") }
  | varErr (v : String)                    -- var v error
  | forScan (v : String) (body : List Stmt)          -- for v.Scan() { body }
  | write (b : String) (e : Expr)          -- b.Write(e)  /  b.WriteString(e)
  | writeByte (b c : String)               -- b.WriteByte('c')
  | reset (b : String)                     -- b.Reset()
  | def_ (v : String) (e : Expr)           -- v := e
  | compile (s err : String) (e : Expr)    -- s, err := pql.Compile(e)
  | set (v : String) (e : Expr)            -- v = e
  | ite (c : Cond) (t e : List Stmt)
  | scope (body : List Stmt)               -- { body }
  | range (v : String) (e : Expr) (body : List Stmt)   -- for _, v := range e { body }
  | continue_
  | call (f : String) (e : Expr)           -- f(e)
  | fprintfS (w pre suf : String) (e : Expr)         -- fmt.Fprintf(w, "pre%ssuf", e)
  | ret (e : Expr)                         -- return e
  deriving Repr

/-! ### decoding the flat form -/

def digitVal (c : Char) : Option Nat := if '0' ≤ c ∧ c ≤ '9' then some (c.toNat - 48) else none

/-- a decimal numeral (structural, so that decoding reduces in the kernel) -/
def decodeNat (s : String) : Option Nat :=
  match s.toList with
  | [] => none
  | cs => cs.foldl (fun acc c => match acc, digitVal c with | some a, some d => some (10 * a + d) | _, _ => none) (some 0)

def decodeExpr : Nat → List String → Option (Expr × List String)
  | 0, _ => none
  | fuel + 1, ts =>
    match ts with
    | [] => none
    | k :: r =>
      if k == "var" then match r with | v :: r => some (.var v, r) | _ => none
      else if k == "nil" then some (.nil, r)
      else if k == "lit" then match r with | s :: r => some (.lit s, r) | _ => none
      else if k == "cat" then
        match decodeExpr fuel r with
        | some (a, r1) =>
          match decodeExpr fuel r1 with
          | some (b, r2) => some (.cat a b, r2)
          | none => none
        | none => none
      else if k == "sbstr" then match r with | v :: r => some (.sbStr v, r) | _ => none
      else if k == "scanbytes" then match r with | v :: r => some (.scanBytes v, r) | _ => none
      else if k == "scanerr" then match r with | v :: r => some (.scanErr v, r) | _ => none
      else if k == "split" then (decodeExpr fuel r).map fun (e, r) => (.split e, r)
      else if k == "scan" then (decodeExpr fuel r).map fun (e, r) => (.scan e, r)
      else if k == "init" then match r with | w :: r => some (.init w, r) | _ => none
      else if k == "last" then match r with | w :: r => some (.last w, r) | _ => none
      else if k == "errnew" then match r with | s :: r => some (.errNew s, r) | _ => none
      else if k == "errorfW" then
        match r with
        | f :: r => (decodeExpr fuel r).map fun (e, r) => (.errorfW f e, r)
        | _ => none
      else none

/-- an expression that fills the rest of an item -/
def decodeExprAll (ts : List String) : Option Expr :=
  match decodeExpr (ts.length + 1) ts with
  | some (e, []) => some e
  | _ => none

def decodeCond : Nat → List String → Option (Cond × List String)
  | 0, _ => none
  | fuel + 1, ts =>
    match ts with
    | [] => none
    | k :: r =>
      if k == "leneq" then
        match r with
        | n :: r => match decodeNat n, decodeExpr (r.length + 1) r with
          | some n, some (e, r) => some (.lenEq n e, r)
          | _, _ => none
        | _ => none
      else if k == "lengt" then
        match r with
        | n :: r => match decodeNat n, decodeExpr (r.length + 1) r with
          | some n, some (e, r) => some (.lenGt n e, r)
          | _, _ => none
        | _ => none
      else if k == "isnil" then match r with | v :: r => some (.isNil v, r) | _ => none
      else if k == "notnil" then match r with | v :: r => some (.notNil v, r) | _ => none
      else if k == "kindis" then
        match r with
        | w :: i :: kind :: r => (decodeNat i).map fun i => (.kindIs w i kind, r)
        | _ => none
      else if k == "valueis" then
        match r with
        | w :: i :: s :: r => (decodeNat i).map fun i => (.valueIs w i s, r)
        | _ => none
      else if k == "and" then
        match decodeCond fuel r with
        | some (a, r1) =>
          match decodeCond fuel r1 with
          | some (b, r2) => some (.and a b, r2)
          | none => none
        | none => none
      else none

/-- an item that is a statement by itself -/
def decodeSimple (k : String) (a : List String) : Option Stmt :=
  if k == "newscanner" then match a with | [v, r] => some (.newScanner v r) | _ => none
  else if k == "newsb" then match a with | [v] => some (.newSb v) | _ => none
  else if k == "stderrnote" then match a with | [r, t] => some (.stderrNote r t) | _ => none
  else if k == "varerr" then match a with | [v] => some (.varErr v) | _ => none
  else if k == "write" || k == "writestring" then
    match a with | b :: e => (decodeExprAll e).map (.write b ·) | _ => none
  else if k == "writebyte" then match a with | [b, c] => some (.writeByte b c) | _ => none
  else if k == "reset" then match a with | [b] => some (.reset b) | _ => none
  else if k == "def" then match a with | v :: e => (decodeExprAll e).map (.def_ v ·) | _ => none
  else if k == "compile" then match a with | s :: err :: e => (decodeExprAll e).map (.compile s err ·) | _ => none
  else if k == "set" then match a with | v :: e => (decodeExprAll e).map (.set v ·) | _ => none
  else if k == "continue" then match a with | [] => some .continue_ | _ => none
  else if k == "call" then match a with | f :: e => (decodeExprAll e).map (.call f ·) | _ => none
  else if k == "fprintfS" then
    match a with | w :: pre :: suf :: e => (decodeExprAll e).map (.fprintfS w pre suf ·) | _ => none
  else if k == "return" then (decodeExprAll a).map .ret
  else none

/-- statements up to the end of the input or the next `["end"]` / `["else"]` (which is left in place) -/
def decodeBlock : Nat → List (List String) → Option (List Stmt × List (List String))
  | 0, _ => none
  | _ + 1, [] => some ([], [])
  | fuel + 1, it :: rest =>
    match it with
    | [] => none
    | k :: a =>
      if k == "end" || k == "else" then some ([], it :: rest)
      else if k == "forscan" then
        match a with
        | [v] =>
          match decodeBlock fuel rest with
          | some (body, ["end"] :: rest2) =>
            match decodeBlock fuel rest2 with
            | some (more, rest3) => some (.forScan v body :: more, rest3)
            | none => none
          | _ => none
        | _ => none
      else if k == "range" then
        match a with
        | v :: e =>
          match decodeExprAll e, decodeBlock fuel rest with
          | some e, some (body, ["end"] :: rest2) =>
            match decodeBlock fuel rest2 with
            | some (more, rest3) => some (.range v e body :: more, rest3)
            | none => none
          | _, _ => none
        | _ => none
      else if k == "scope" then
        match a with
        | [] =>
          match decodeBlock fuel rest with
          | some (body, ["end"] :: rest2) =>
            match decodeBlock fuel rest2 with
            | some (more, rest3) => some (.scope body :: more, rest3)
            | none => none
          | _ => none
        | _ => none
      else if k == "if" then
        match decodeCond (a.length + 1) a with
        | some (c, []) =>
          match decodeBlock fuel rest with
          | some (t, ["end"] :: rest2) =>
            match decodeBlock fuel rest2 with
            | some (more, rest3) => some (.ite c t [] :: more, rest3)
            | none => none
          | some (t, ["else"] :: rest2) =>
            match decodeBlock fuel rest2 with
            | some (e, ["end"] :: rest3) =>
              match decodeBlock fuel rest3 with
              | some (more, rest4) => some (.ite c t e :: more, rest4)
              | none => none
            | _ => none
          | _ => none
        | _ => none
      else
        match decodeSimple k a with
        | some s =>
          match decodeBlock fuel rest with
          | some (more, rest2) => some (s :: more, rest2)
          | none => none
        | none => none

def decode (items : List (List String)) : Option (List Stmt) :=
  match decodeBlock (items.length + 1) items with
  | some (b, []) => some b
  | _ => none

/-! ### values and state -/

inductive IErr
  | panic             -- what the Go code does: a run-time panic (index out of range)
  | stuck             -- the IR is not understood (never equal to anything the model yields)
  deriving DecidableEq, Repr

abbrev M := Except IErr

def goPanic {α : Type} : M α := .error .panic
def stuck {α : Type} : M α := .error .stuck

/-- a non-nil `error` value, as a term -/
inductive GoErr
  | new (text : String)                    -- errors.New("text")
  | lib                                    -- returned by a library call (`pql.Compile`, `(*bufio.Scanner).Err`)
  | wrap (format : String) (inner : GoErr) -- fmt.Errorf("…%w…", inner)
  deriving DecidableEq, Repr

/-- what a Go variable of `run` can hold -/
inductive Val
  | str (b : Bytes)                        -- string / []byte
  | strs (l : List Bytes)                  -- []string
  | toks (l : List Token)                  -- []parser.Token
  | builder (b : Bytes)                    -- *strings.Builder (never aliased: the translator admits no copy of one)
  | err (e : Option GoErr)                 -- error (none = nil)
  | scanner                                -- *bufio.Scanner on the input
  | writer                                 -- the io.Writer parameter
  | reader                                 -- the io.Reader parameter
  | logger                                 -- the func(error) parameter
  | ctx                                    -- the context.Context parameter
  deriving DecidableEq, Repr

structure State where
  vars : List (String × Val)               -- innermost first
  out : Bytes := []                        -- written to the io.Writer so far
  nErrors : Nat := 0                       -- calls of the func(error) so far
  input : List Bytes                       -- lines the scanner has not delivered yet
  cur : Bytes := []                        -- the scanner's current line
  scanDone : Bool := false                 -- Scan() has returned false
  readErr : Bool                           -- … because reading failed (not at end of input)
  deriving Repr

/-- the library, as far as `run` uses it -/
structure Lib where
  split : Bytes → List Bytes               -- parser.SplitStatements
  scan : Bytes → List Token                -- parser.Scan
  compile : Bytes → Option Bytes           -- pql.Compile (none = error)

inductive Flow
  | next                                   -- the statement completed
  | cont                                   -- continue (innermost loop)
  | ret (e : Option GoErr)                 -- return e
  deriving DecidableEq, Repr

def State.get (st : State) (v : String) : M Val :=
  match st.vars.find? (·.1 == v) with
  | some kv => .ok kv.2
  | none => stuck

/-- `v := x`; a blank `_` declares nothing -/
def State.declare (st : State) (v : String) (x : Val) : State :=
  if v == "_" then st else { st with vars := (v, x) :: st.vars }

/-- `v = x` for a variable in scope (the innermost of that name) -/
def assignIn (v : String) (x : Val) : List (String × Val) → Option (List (String × Val))
  | [] => none
  | kv :: r => if kv.1 == v then some ((v, x) :: r) else (assignIn v x r).map (kv :: ·)

def State.assign (st : State) (v : String) (x : Val) : M State :=
  match assignIn v x st.vars with
  | some vars => .ok { st with vars := vars }
  | none => stuck

/-- leaving a block: the variables it declared go out of scope, assignments to outer ones stay -/
def State.leave (st outer : State) : State :=
  { st with vars := st.vars.drop (st.vars.length - outer.vars.length) }

/-! ### expressions, conditions -/

def strOf : Val → M Bytes
  | .str b => .ok b
  | _ => stuck

def eval (lib : Lib) (st : State) : Expr → M Val
  | .var v => st.get v
  | .nil => .ok (.err none)
  | .lit s => .ok (.str (Bytes.ofString s))
  | .cat a b => do
    let x ← eval lib st a >>= strOf
    let y ← eval lib st b >>= strOf
    pure (.str (x ++ y))
  | .sbStr v => do
    match ← st.get v with
    | .builder b => pure (.str b)
    | _ => stuck
  | .scanBytes v => do
    match ← st.get v with
    | .scanner => pure (.str st.cur)
    | _ => stuck
  | .scanErr v => do
    match ← st.get v with
    | .scanner => pure (.err (if st.scanDone && st.readErr then some .lib else none))
    | _ => stuck
  | .split e => do
    let s ← eval lib st e >>= strOf
    pure (.strs (lib.split s))
  | .scan e => do
    let s ← eval lib st e >>= strOf
    pure (.toks (lib.scan s))
  | .init w => do
    match ← st.get w with
    | .strs l => if l.isEmpty then goPanic else pure (.strs l.dropLast)
    | _ => stuck
  | .last w => do
    match ← st.get w with
    | .strs l =>
      match l.getLast? with
      | some s => pure (.str s)
      | none => goPanic
    | _ => stuck
  | .errNew s => .ok (.err (some (.new s)))
  | .errorfW f e => do
    match ← eval lib st e with
    | .err (some x) => pure (.err (some (.wrap f x)))
    | .err none => pure (.err (some (.new f)))      -- `%w` of nil: still a non-nil error
    | _ => stuck

def lenOf : Val → M Nat
  | .str b => .ok b.length
  | .strs l => .ok l.length
  | .toks l => .ok l.length
  | _ => stuck

def tokAt (st : State) (w : String) (i : Nat) : M Token := do
  match ← st.get w with
  | .toks l =>
    match l[i]? with
    | some t => pure t
    | none => goPanic
  | _ => stuck

def evalCond (lib : Lib) (st : State) : Cond → M Bool
  | .lenEq n e => do
    let k ← eval lib st e >>= lenOf
    pure (decide (k = n))
  | .lenGt n e => do
    let k ← eval lib st e >>= lenOf
    pure (decide (k > n))
  | .isNil v => do
    match ← st.get v with
    | .err e => pure e.isNone
    | _ => stuck
  | .notNil v => do
    match ← st.get v with
    | .err e => pure e.isSome
    | _ => stuck
  | .kindIs w i k => do
    let t ← tokAt st w i
    match TokKind.ofGoName k with
    | some kind => pure (decide (t.kind = kind))
    | none => stuck
  | .valueIs w i s => do
    let t ← tokAt st w i
    pure (t.value == Bytes.ofString s)
  | .and a b => do
    if ← evalCond lib st a then evalCond lib st b else pure false

/-! ### statements -/

/-- `for _, elem := range xs { body }` -/
def rangeLoop (elem : String) (body : State → M (Flow × State)) : List Val → State → M (Flow × State)
  | [], st => .ok (.next, st)
  | x :: xs, st => do
    let (f, st1) ← body (st.declare elem x)
    match f with
    | .ret e => pure (.ret e, st1.leave st)
    | _ => rangeLoop elem body xs (st1.leave st)

/-- `for scanner.Scan() { body }` over the lines the scanner still has -/
def scanLoop (body : State → M (Flow × State)) : List Bytes → State → M (Flow × State)
  | [], st => .ok (.next, { st with input := [], scanDone := true })
  | l :: ls, st => do
    let (f, st1) ← body { st with input := ls, cur := l }
    match f with
    | .ret e => pure (.ret e, st1.leave st)
    | _ => scanLoop body ls (st1.leave st)

def withBuilder (st : State) (b : String) (f : Bytes → Bytes) : M (Flow × State) := do
  match ← st.get b with
  | .builder x => do
    let st1 ← st.assign b (.builder (f x))
    pure (.next, st1)
  | _ => stuck

def paramVal (ty : String) : Option Val :=
  if ty == "context.Context" then some .ctx
  else if ty == "io.Writer" then some .writer
  else if ty == "io.Reader" then some .reader
  else if ty == "func(error)" then some .logger
  else none

mutual
def exec (lib : Lib) : Stmt → State → M (Flow × State)
  | .newScanner v r, st => do
    match ← st.get r with
    | .reader => pure (.next, st.declare v .scanner)
    | _ => stuck
  | .newSb v, st => .ok (.next, st.declare v (.builder []))
  | .stderrNote r _, st => do
    match ← st.get r with
    | .reader => pure (.next, st)
    | _ => stuck
  | .varErr v, st => .ok (.next, st.declare v (.err none))
  | .forScan v body, st => do
    match ← st.get v with
    | .scanner => scanLoop (execBlock lib body) st.input st
    | _ => stuck
  | .write b e, st => do
    let x ← eval lib st e >>= strOf
    withBuilder st b (· ++ x)
  | .writeByte b c, st => withBuilder st b (· ++ Bytes.ofString c)
  | .reset b, st => withBuilder st b (fun _ => [])
  | .def_ v e, st => do
    let x ← eval lib st e
    pure (.next, st.declare v x)
  | .compile s err e, st => do
    let src ← eval lib st e >>= strOf
    match lib.compile src with
    | some sql => pure (.next, (st.declare s (.str sql)).declare err (.err none))
    | none => pure (.next, (st.declare s (.str [])).declare err (.err (some .lib)))
  | .set v e, st => do
    let x ← eval lib st e
    let st1 ← st.assign v x
    pure (.next, st1)
  | .ite c t e, st => do
    let b ← evalCond lib st c
    let (f, st1) ← if b then execBlock lib t st else execBlock lib e st
    pure (f, st1.leave st)
  | .scope body, st => do
    let (f, st1) ← execBlock lib body st
    pure (f, st1.leave st)
  | .range v e body, st => do
    match ← eval lib st e with
    | .strs l => rangeLoop v (execBlock lib body) (l.map .str) st
    | _ => stuck
  | .continue_, st => .ok (.cont, st)
  | .call f e, st => do
    match ← st.get f, ← eval lib st e with
    | .logger, .err _ => pure (.next, { st with nErrors := st.nErrors + 1 })
    | _, _ => stuck
  | .fprintfS w pre suf e, st => do
    match ← st.get w with
    | .writer => do
      let x ← eval lib st e >>= strOf
      pure (.next, { st with out := st.out ++ Bytes.ofString pre ++ x ++ Bytes.ofString suf })
    | _ => stuck
  | .ret e, st => do
    match ← eval lib st e with
    | .err x => pure (.ret x, st)
    | _ => stuck

def execBlock (lib : Lib) : List Stmt → State → M (Flow × State)
  | [], st => .ok (.next, st)
  | s :: r, st => do
    let (f, st1) ← exec lib s st
    match f with
    | .next => execBlock lib r st1
    | _ => pure (f, st1)
end

/-! ### the function -/

/-- the parameters of `run`, bound according to their declared types -/
def paramVars : List (String × String) → Option (List (String × Val))
  | [] => some []
  | (n, ty) :: r =>
    match paramVal ty, paramVars r with
    | some v, some vs => some ((n, v) :: vs)
    | _, _ => none

/-- what `run` did: the bytes written to `output`, the number of `logError` calls, the error returned -/
structure Outcome where
  out : Bytes
  nErrors : Nat
  err : Option GoErr
  deriving DecidableEq, Repr

/-- the observables of the model: the process exits non-zero iff `run` returns a non-nil error -/
def Outcome.result (o : Outcome) : CliResult := ⟨o.out, o.nErrors, o.err.isSome⟩

/-- run a body: it must end by a `return` (a `continue` outside a loop or falling off the end of a
    function with a result does not compile) -/
def runBody (lib : Lib) (params : List (String × String)) (body : List Stmt) (lines : List Bytes) (readErr : Bool) :
    M Outcome :=
  match paramVars params with
  | some vars => do
    let (f, st) ← execBlock lib body { vars := vars.reverse, input := lines, readErr := readErr }
    match f with
    | .ret e => pure ⟨st.out, st.nErrors, e⟩
    | _ => stuck
  | none => stuck

/-- `run(ctx, output, input, logError)` as regenerated from cmd/pql/main.go, on an input that the
    scanner delivers as `lines` and then stops, with an error iff `readErr` -/
def interpRun (lib : Lib) (lines : List Bytes) (readErr : Bool) : M Outcome :=
  match decode Facts.cliIR with
  | some body => runBody lib Facts.cliRunParams body lines readErr
  | none => stuck

end Pql.CliIR
