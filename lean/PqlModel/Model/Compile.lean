/-
Model of pql.go: `Compile`, `splitQueries`, `(*subquery).write`, `writeExpression`,
`writeExpressionMaybeParen`, the built-in rewrites and the quoting functions.

The writers produce *chunks* (`List Chunk`); `Chunk.bytes` gives the exact bytes the Go code
writes (this is what the correspondence compares), and the chunk structure is what the SQL
reading of the output is proved against (identifier / string / number chunks carry arbitrary
content, text chunks are the fixed pieces of SQL the writer emits).

Tables (`binaryOps`, `builtinIdentifiers`, `knownFunctions` with `needsParens`, the arity
guards, `canAttachSort`, the bare-type list of `writeExpressionMaybeParen`) come from the
regenerated facts.
-/
import PqlModel.Model.Parse
import PqlModel.Model.Walk
namespace Pql

inductive Chunk
  | txt (s : String)       -- fixed SQL text emitted by the writer
  | qid (name : Bytes)     -- quoteIdentifier(name)
  | qstr (v : Bytes)       -- quoteSQLString(v)
  | num (v : Bytes)        -- a number literal's text, verbatim
  | fname (v : Bytes)      -- a pass-through function name, verbatim
  | raw (v : Bytes)        -- a parameter's SQL text, verbatim
  deriving DecidableEq, Repr, Inhabited

/-- `quoteIdentifier` / `quoteSQLString`: wrap in `q`, double every `q` inside -/
def quoteWith (q : UInt8) (s : Bytes) : Bytes :=
  q :: (s.flatMap fun b => if b == q then [q, q] else [b]) ++ [q]

def quoteIdentifier (s : Bytes) : Bytes := quoteWith 34 s
def quoteSQLString (s : Bytes) : Bytes := quoteWith 39 s

def Chunk.bytes : Chunk → Bytes
  | .txt s => Bytes.ofString s
  | .qid n => quoteIdentifier n
  | .qstr v => quoteSQLString v
  | .num v => v
  | .fname v => v
  | .raw v => v

def renderChunks (cs : List Chunk) : Bytes := cs.flatMap Chunk.bytes

inductive Mode | default | join | let_
  deriving DecidableEq, Repr

inductive WErr | err | panic
  deriving DecidableEq, Repr

abbrev W := Except WErr (List Chunk)

structure Ctx where
  src : Bytes
  scope : List (Bytes × List Chunk)     -- most recent binding first
  mode : Mode

def lookupScope (scope : List (Bytes × List Chunk)) (name : Bytes) : Option (List Chunk) :=
  (scope.find? (·.1 == name)).map (·.2)

def builtinIdent (name : Bytes) : Option String :=
  (Facts.builtinIdentifiers.find? fun kv => Bytes.ofString kv.1 == name).map (·.2)

def binaryOpText (k : TokKind) : Option String :=
  (Facts.binaryOps.find? fun kv => kv.1 == k.goName).map (·.2)

/-- `initKnownFunctions()[name]`: (writer function, needsParens) -/
def knownFunction (name : Bytes) : Option (String × Bool) :=
  (Facts.knownFunctions.find? fun r => Bytes.ofString r.1 == name).map (·.2)

/-- the arity guard of a writer: does it reject `n` arguments? -/
def arityRejects (writer : String) (n : Nat) : Bool :=
  match Facts.writerArityGuard.find? (·.1 == writer) with
  | some (_, op, k) => if op == "!=" then n != k else if op == "==" then n == k else false
  | none => false

def leftAlias : Bytes := Bytes.ofString Facts.leftJoinTableAlias
def rightAlias : Bytes := Bytes.ofString Facts.rightJoinTableAlias

def exprTypeName : Expr → String
  | .nil => "<nil>" | .qident .. => "QualifiedIdent" | .lit .. => "BasicLit" | .unary .. => "UnaryExpr"
  | .binary .. => "BinaryExpr" | .inE .. => "InExpr" | .paren .. => "ParenExpr" | .call .. => "CallExpr"
  | .index .. => "IndexExpr"

/-- strip source parentheses -/
def unparen : Expr → Expr
  | .paren _ x _ => unparen x
  | e => e

mutual
/-- identifiers `Walk` reaches below an expression (function names excepted), for `hasJoinTerms` -/
def exprIdents : Expr → List Ident
  | .nil => []
  | .qident parts => parts
  | .lit .. => []
  | .unary _ _ x => exprIdents x
  | .binary x _ _ y => exprIdents x ++ exprIdents y
  | .inE x _ _ vals _ => exprIdents x ++ exprListIdents vals
  | .paren _ x _ => exprIdents x
  | .call _ _ args _ => exprListIdents args
  | .index x _ idx _ => exprIdents x ++ exprIdents idx
def exprListIdents : ExprList → List Ident
  | .nil => []
  | .cons e es => exprIdents e ++ exprListIdents es
end

/-- `hasJoinTerms` -/
def hasJoinTerms (e : Expr) : Bool × Bool :=
  let ids := exprIdents e
  (ids.any (·.name == leftAlias), ids.any (·.name == rightAlias))

def sepChunks (sep : String) : List (List Chunk) → List Chunk
  | [] => []
  | [x] => x
  | x :: xs => x ++ .txt sep :: sepChunks sep xs

def parenthesise (body : List Chunk) : List Chunk := .txt "(" :: body ++ [.txt ")"]

/-- does `writeExpressionMaybeParen` put parentheses around this (unparenthesised) expression? -/
def needsWrap : Expr → Bool
  | .paren _ x _ => needsWrap x
  | .call fn _ _ _ =>
    match knownFunction fn.name with
    | some (_, true) => true
    | _ => false
  | e => !Facts.maybeParenBare.contains (exprTypeName e)

/-- `writeExpressionMaybeParen`, given the output of `writeExpression` for the same expression
    (both unwrap source parentheses first, so this is the same function) -/
def wrapMaybe (e : Expr) (body : List Chunk) : List Chunk :=
  if needsWrap e then parenthesise body else body

def isSigned : Expr → Bool
  | .paren _ x _ => isSigned x
  | .unary .. => true
  | _ => false

/-- `writeExpressionTight`: operand of a sign, base of an index, value of a let — positions
    that bind tighter than a sign, so a signed expression is parenthesised as well -/
def wrapTight (e : Expr) (body : List Chunk) : List Chunk :=
  if isSigned e then parenthesise body else wrapMaybe e body

/-- the `write*Function` rewrites, dispatched on the writer's Go name; `args` pairs every
    argument with its plain `writeExpression` output (the arity guard has already passed) -/
def assembleKnown (writer : String) (args : List (Expr × List Chunk)) : W :=
  let mp (a : Expr × List Chunk) : List Chunk := wrapMaybe a.1 a.2
  if writer == "writeNotFunction" then
    match args with
    | a :: _ => .ok (.txt "NOT " :: mp a)
    | [] => .error .panic
  else if writer == "writeNowFunction" then .ok [.txt "CURRENT_TIMESTAMP"]
  else if writer == "writeIsNullFunction" then
    match args with
    | a :: _ => .ok (mp a ++ [.txt " IS NULL"])
    | [] => .error .panic
  else if writer == "writeIsNotNullFunction" then
    match args with
    | a :: _ => .ok (mp a ++ [.txt " IS NOT NULL"])
    | [] => .error .panic
  else if writer == "writeStrcatFunction" then
    match args with
    | _ :: _ => .ok (sepChunks " || " (args.map mp))
    | [] => .error .panic
  else if writer == "writeCountFunction" then .ok [.txt "count()"]
  else if writer == "writeCountIfFunction" then
    match args with
    | a :: _ => .ok (.txt "count() FILTER (WHERE " :: a.2 ++ [.txt ")"])
    | [] => .error .panic
  else if writer == "writeIfFunction" then
    match args with
    | a :: b :: c :: _ =>
      .ok (.txt "CASE WHEN coalesce(" :: a.2 ++ .txt ", FALSE) THEN " :: b.2 ++ .txt " ELSE " :: c.2 ++ [.txt " END"])
    | _ => .error .panic
  else if writer == "writeToLowerFunction" then
    match args with
    | a :: _ => .ok (.txt "LOWER(" :: a.2 ++ [.txt ")"])
    | [] => .error .panic
  else if writer == "writeToUpperFunction" then
    match args with
    | a :: _ => .ok (.txt "UPPER(" :: a.2 ++ [.txt ")"])
    | [] => .error .panic
  else
    -- a writer the model does not know (never on the pinned tree; the regenerated table would
    -- then differ from the committed one)
    .error .err

mutual

/-- `writeExpression` -/
def writeExpr (ctx : Ctx) : Expr → W
  | .paren _ x _ => writeExpr ctx x
  | .qident parts =>
    -- scope / built-in constant / let-mode restrictions apply to single-part names
    let early : Option W :=
      match parts with
      | [part] =>
        if !part.quoted then
          match lookupScope ctx.scope part.name with
          | some sql => some (.ok sql)
          | none =>
            match builtinIdent part.name with
            | some sql => some (.ok [.txt sql])
            | none => if ctx.mode = .let_ then some (.error .err) else none
        else if ctx.mode = .let_ then some (.error .err) else none
      | _ => if ctx.mode = .let_ then some (.error .err) else none
    match early with
    | some r => r
    | none =>
      if parts.any (fun p => !p.quoted && (p.name == leftAlias || p.name == rightAlias) && ctx.mode ≠ .join) then
        .error .err
      else .ok (sepChunks "." (parts.map fun p => [.qid p.name]))
  | .lit _ k v =>
    if k = .number then .ok [.num v]
    else if k = .string then .ok [.qstr v]
    else .ok [.txt ("NULL /* unhandled " ++ k.goName ++ " literal */")]
  | .unary _ op x => do
    let sign := if op = .plus then "+" else if op = .minus then "-" else "/* unhandled " ++ op.goName ++ " unary op */ "
    let xs ← (writeExpr ctx x).map (wrapTight x)
    pure (.txt sign :: xs)
  | .binary x _ op y =>
    if op = .eq then
      let xt := hasJoinTerms x
      let yt := hasJoinTerms y
      if ctx.mode = .join ∧ (xt.1 || yt.1) ∧ (xt.2 || yt.2) then do
        let xs ← (writeExpr ctx x).map (wrapMaybe x)
        let ys ← (writeExpr ctx y).map (wrapMaybe y)
        pure (xs ++ .txt " = " :: ys)
      else do
        let xs ← (writeExpr ctx x).map (wrapMaybe x)
        let ys ← (writeExpr ctx y).map (wrapMaybe y)
        pure (.txt "coalesce(" :: xs ++ .txt " = " :: ys ++ [.txt ", FALSE)"])
    else if op = .ne then do
      let xs ← (writeExpr ctx x).map (wrapMaybe x)
      let ys ← (writeExpr ctx y).map (wrapMaybe y)
      pure (.txt "coalesce(" :: xs ++ .txt " <> " :: ys ++ [.txt ", FALSE)"])
    else if op = .cieq then do
      let xs ← writeExpr ctx x
      let ys ← writeExpr ctx y
      pure (.txt "lower(" :: xs ++ .txt ") = lower(" :: ys ++ [.txt ")"])
    else if op = .cine then do
      let xs ← writeExpr ctx x
      let ys ← writeExpr ctx y
      pure (.txt "lower(" :: xs ++ .txt ") <> lower(" :: ys ++ [.txt ")"])
    else
      match binaryOpText op with
      | some sql => do
        let xs ← (writeExpr ctx x).map (wrapMaybe x)
        let ys ← (writeExpr ctx y).map (wrapMaybe y)
        pure (xs ++ .txt " " :: .txt sql :: .txt " " :: ys)
      | none => .ok [.txt ("NULL /* unhandled " ++ op.goName ++ " binary op */ ")]
  | .inE x _ _ vals _ => do
    let xs ← (writeExpr ctx x).map (wrapMaybe x)
    let vs ← writeListMaybeParen' ctx vals
    pure (xs ++ .txt " IN (" :: sepChunks ", " vs ++ [.txt ")"])
  | .index x _ idx _ => do
    let xs ← (writeExpr ctx x).map (wrapTight x)
    let is ← writeExpr ctx idx
    pure (xs ++ .txt "[" :: is ++ [.txt "]"])
  | .call fn _ args _ =>
    match knownFunction fn.name with
    | some (writer, _) =>
      if arityRejects writer args.length then .error .err
      else do
        let as ← writeList ctx args
        assembleKnown writer (args.toList.zip as)
    | none => do
      let as ← writeList ctx args
      pure (.fname fn.name :: .txt "(" :: sepChunks ", " as ++ [.txt ")"])
  | .nil => .ok [.txt "NULL /* unhandled <nil> expression */"]

def writeList (ctx : Ctx) : ExprList → Except WErr (List (List Chunk))
  | .nil => .ok []
  | .cons e es => do
    let x ← writeExpr ctx e
    let xs ← writeList ctx es
    pure (x :: xs)

def writeListMaybeParen' (ctx : Ctx) : ExprList → Except WErr (List (List Chunk))
  | .nil => .ok []
  | .cons e es => do
    let x ← (writeExpr ctx e).map (wrapMaybe e)
    let xs ← writeListMaybeParen' ctx es
    pure (x :: xs)

end

/-! ### subqueries -/

structure Subquery where
  name : Bytes
  source : List Chunk
  op : Option Op := none
  sort : Option (List SortTerm) := none
  take : Option Expr := none
  deriving Inhabited

def subqueryName (i : Nat) : Bytes := Bytes.ofString "__subquery" ++ natToDec i

def opTypeName : Op → String
  | .count .. => "CountOperator" | .where_ .. => "WhereOperator" | .sort .. => "SortOperator"
  | .take .. => "TakeOperator" | .top .. => "TopOperator" | .project .. => "ProjectOperator"
  | .extend .. => "ExtendOperator" | .summarize .. => "SummarizeOperator" | .join .. => "JoinOperator"
  | .as_ .. => "AsOperator" | .render .. => "RenderOperator"

/-- `canAttachSort` -/
def canAttachSort : Option Op → Bool
  | none => true
  | some o => !Facts.canAttachSortFalse.contains (opTypeName o)

def identName : Option Ident → Bytes
  | some i => i.name
  | none => []

/-- `chainSubquery` -/
def chainSubquery (dst : List Subquery) (dstStart : Nat) (src : Option Ident) : Subquery :=
  { name := subqueryName dst.length
    source := if dst.length > dstStart then
        match dst.getLast? with
        | some s => [.qid s.name]
        | none => []
      else [.qid (identName src)] }

/-- replace the last element -/
def setLast (dst : List Subquery) (f : Subquery → Subquery) : List Subquery :=
  match dst.reverse with
  | [] => []
  | s :: rest => (f s :: rest).reverse

def lastOf (dst : List Subquery) (dstStart : Nat) : Option Subquery :=
  if dst.length > dstStart then dst.getLast? else none

/-- `rewriteSimpleJoinCondition` -/
def rewriteSimpleJoinCondition (c : Expr) : Expr :=
  match c with
  | .qident [part] =>
    if part.quoted || (builtinIdent part.name).isSome then c
    else
      .binary (.qident [⟨leftAlias, .zero, false⟩, part]) .zero .eq (.qident [⟨rightAlias, .zero, false⟩, part])
  | _ => c

/-- `buildJoinCondition` -/
def buildJoinCondition (conds : ExprList) : Expr :=
  match conds with
  | .nil => .qident [⟨Bytes.ofString "true", .zero, false⟩]
  | .cons c rest =>
    let rec go (x : Expr) : ExprList → Expr
      | .nil => x
      | .cons y ys => go (.binary x .zero .and_ (rewriteSimpleJoinCondition y)) ys
    go (rewriteSimpleJoinCondition c) rest

mutual
/-- `splitQueries` on a tabular expression, appending to `dst` -/
def splitQueries (src : Bytes) (scope : List (Bytes × List Chunk)) (dst : List Subquery) :
    Tabular → Except WErr (List Subquery)
  | .nil => .error .panic
  | .mk source ops => do
    let dstStart := dst.length
    let dst ← splitOps src scope source dstStart dst ops
    if dst.length = dstStart then pure (dst ++ [chainSubquery dst dstStart source]) else pure dst

/-- the operator loop of `splitQueries` -/
def splitOps (src : Bytes) (scope : List (Bytes × List Chunk)) (source : Option Ident) (dstStart : Nat)
    (dst : List Subquery) : OpList → Except WErr (List Subquery)
  | .nil => pure dst
  | .cons o rest =>
    let last := lastOf dst dstStart
    match o with
    | .as_ _ _ name =>
      let s := chainSubquery dst dstStart source
      splitOps src scope source dstStart (dst ++ [{ s with name := identName name, op := some o }]) rest
    | .sort _ _ terms =>
      let attach := match last with
        | some l => canAttachSort l.op && l.sort.isNone && l.take.isNone
        | none => false
      let dst := if attach then dst else dst ++ [chainSubquery dst dstStart source]
      splitOps src scope source dstStart (setLast dst fun s => { s with sort := some terms }) rest
    | .take _ _ n =>
      let attach := match last with
        | some l => canAttachSort l.op && l.take.isNone
        | none => false
      let dst := if attach then dst else dst ++ [chainSubquery dst dstStart source]
      splitOps src scope source dstStart (setLast dst fun s => { s with take := some n }) rest
    | .top _ _ n _ col =>
      let attach := match last with
        | some l => canAttachSort l.op && l.sort.isNone && l.take.isNone
        | none => false
      let dst := if attach then dst else dst ++ [chainSubquery dst dstStart source]
      match col with
      | none => .error .panic
      | some c =>
        splitOps src scope source dstStart (setLast dst fun s => { s with sort := some [c], take := some n }) rest
    | .join _ _ _ _ flavor _ right _ _ conds => do
      let leftIdx : Int := (dst.length : Int) - 1
      let dst ← splitQueries src scope dst right
      let rightName := match dst.getLast? with | some s => s.name | none => []
      let flavorName := match flavor with | some f => f.name | none => Bytes.ofString "innerunique"
      let unique := flavorName == Bytes.ofString "innerunique"
      let leftSrc : List Chunk :=
        if leftIdx ≥ (dstStart : Int) then
          match dst[leftIdx.toNat]? with
          | some s => [.qid s.name]
          | none => []
        else [.qid (identName source)]
      let joinKw : Option String :=
        if flavorName == Bytes.ofString "inner" || unique then some " JOIN "
        else if flavorName == Bytes.ofString "leftouter" then some " LEFT JOIN "
        else none
      match joinKw with
      | none => .error .err
      | some kw =>
        let cond ← writeExpr ⟨src, scope, .join⟩ (buildJoinCondition conds)
        let joinSource : List Chunk :=
          (if unique then [.txt "(SELECT DISTINCT * FROM "] else []) ++ leftSrc ++
          (if unique then [.txt ")"] else []) ++
          [.txt (" AS \"" ++ Facts.leftJoinTableAlias ++ "\""), .txt kw, .qid rightName,
           .txt (" AS \"" ++ Facts.rightJoinTableAlias ++ "\" ON ")] ++ cond
        splitOps src scope source dstStart (dst ++ [{ name := subqueryName dst.length, source := joinSource }]) rest
    | _ =>
      let s := chainSubquery dst dstStart source
      splitOps src scope source dstStart (dst ++ [{ s with op := some o }]) rest
end

/-- `ctx.source[span.Start:span.End]` -/
def sliceSource (src : Bytes) (sp : Span) : Except WErr Bytes :=
  if 0 ≤ sp.start ∧ sp.start ≤ sp.stop ∧ sp.stop ≤ (src.length : Int) then
    .ok ((src.drop sp.start.toNat).take (sp.stop - sp.start).toNat)
  else .error .panic

/-- `" AS " name` of an extend / summarize column -/
def columnAlias (ctx : Ctx) (c : Column) : W :=
  match c.name with
  | some n => .ok [.txt " AS ", .qid n.name]
  | none => do
    let text ← sliceSource ctx.src c.x.spanOf
    pure [.txt " AS ", .qid text]

def writeColumns (ctx : Ctx) : List Column → Except WErr (List (List Chunk))
  | [] => .ok []
  | c :: cs => do
    let x ← writeExpr ctx c.x
    let a ← columnAlias ctx c
    let rest ← writeColumns ctx cs
    pure ((x ++ a) :: rest)

def writeSortTerms (ctx : Ctx) : List SortTerm → Except WErr (List (List Chunk))
  | [] => .ok []
  | t :: ts => do
    let x ← writeExpr ctx t.x
    let rest ← writeSortTerms ctx ts
    pure ((x ++ [.txt (if t.asc then " ASC" else " DESC"), .txt (if t.nullsFirst then " NULLS FIRST" else " NULLS LAST")]) :: rest)

def renderPropValue : Expr → Bytes
  | .lit _ _ v => v
  | .qident (p :: _) => p.name
  | _ => []

/-- `(*subquery).write` -/
def Subquery.write (ctx : Ctx) (sub : Subquery) : W := do
  let body : Option (List Chunk) ←
    match sub.op with
    | none => pure (some (.txt "SELECT * FROM " :: sub.source))
    | some (.as_ ..) => pure (some (.txt "SELECT * FROM " :: sub.source))
    | some (.project _ _ cols) => do
      let cs ← cols.mapM fun (c : Column) => do
        let x ← match c.x with
          | .nil => writeExpr ctx (.qident (match c.name with | some n => [n] | none => []))
          | x => writeExpr ctx x
        pure (x ++ [.txt " AS ", .qid (identName c.name)])
      pure (some (.txt "SELECT " :: sepChunks ", " cs ++ .txt " FROM " :: sub.source))
    | some (.extend _ _ cols) => do
      let cs ← writeColumns ctx cols
      pure (some (.txt "SELECT *" :: (cs.flatMap fun c => .txt ", " :: c) ++ .txt " FROM " :: sub.source))
    | some (.summarize _ _ cols _ groupBy) => do
      let gs ← writeColumns ctx groupBy
      let cs ← writeColumns ctx cols
      let gb ← groupBy.mapM fun (c : Column) => writeExpr ctx c.x
      pure (some (.txt "SELECT " :: sepChunks ", " (gs ++ cs) ++ .txt " FROM " :: sub.source ++
        (if groupBy.isEmpty then [] else .txt " GROUP BY " :: sepChunks ", " gb)))
    | some (.where_ _ _ pred) => do
      let p ← writeExpr ctx pred
      pure (some (.txt "SELECT * FROM " :: sub.source ++ .txt " WHERE " :: p))
    | some (.count ..) => pure (some (.txt "SELECT COUNT(*) AS \"count()\" FROM " :: sub.source))
    | some (.render _ _ chart _ _ props _) =>
      pure (some ([.txt "SELECT *,\n", .txt "    ", .qstr (identName chart), .txt " as \"render_type\""] ++
        (props.flatMap fun p =>
          [.txt ",\n    ", .qstr (renderPropValue p.value), .txt " as ",
           .qid (Bytes.ofString "render_prop_" ++ identName p.name)]) ++
        .txt "\nFROM " :: sub.source))
    | some _ => pure none
  match body with
  | none => pure [.txt "SELECT NULL /* unsupported operator */"]
  | some body => do
    let sortPart ← match sub.sort with
      | some terms => do
        let ts ← writeSortTerms ctx terms
        pure (.txt " ORDER BY " :: sepChunks ", " ts)
      | none => pure []
    let takePart ← match sub.take with
      | some n => do
        let x ← writeExpr ctx n
        pure (.txt " LIMIT " :: x)
      | none => pure []
    pure (body ++ sortPart ++ takePart)

/-! ### Compile -/

inductive CompileResult
  | ok (sql : Bytes)
  | error
  | panic
  deriving DecidableEq, Repr

/-- the statement loop of `Compile`: scope after the lets, and the query -/
def compileStmts (src : Bytes) : List Stmt → List (Bytes × List Chunk) → Option Tabular →
    Except WErr (List (Bytes × List Chunk) × Option Tabular)
  | [], scope, q => .ok (scope, q)
  | .tabular t :: rest, scope, q =>
    match q with
    | some _ => .error .err           -- batch queries not supported
    | none => compileStmts src rest scope (some t)
  | .let_ _ name _ x :: rest, scope, q =>
    match q with
    | some _ => compileStmts src rest scope q        -- lets after the query are skipped
    | none =>
      match (writeExpr ⟨src, scope, .let_⟩ x).map (wrapTight x) with
      | .error e => .error e
      | .ok sql =>
        match name with
        | none => .error .panic
        | some n => compileStmts src rest ((n.name, sql) :: scope) q

def writeCtes (ctx : Ctx) : List Subquery → Except WErr (List Chunk)
  | [] => .ok []
  | [s] => do
    let b ← s.write ctx
    pure (.qid s.name :: .txt " AS (" :: b ++ [.txt ")", .txt "\n"])
  | s :: rest => do
    let b ← s.write ctx
    let r ← writeCtes ctx rest
    pure (.qid s.name :: .txt " AS (" :: b ++ .txt ")" :: .txt ",\n     " :: r)

/-- chunks of a successful compilation of already parsed statements -/
def compileChunks (src : Bytes) (params : List (Bytes × Bytes)) (stmts : List Stmt) : W := do
  let scope0 := params.map fun kv => (kv.1, [Chunk.raw kv.2])
  let (scope, q) ← compileStmts src stmts scope0 none
  match q with
  | none => .error .err
  | some t =>
    let subs ← splitQueries src scope [] t
    let ctx : Ctx := ⟨src, scope, .default⟩
    match subs.reverse with
    | [] => .error .panic
    | query :: ctesRev =>
      let ctes := ctesRev.reverse
      let withPart ← if ctes.isEmpty then pure [] else do
        let c ← writeCtes ctx ctes
        pure (.txt "WITH " :: c)
      let body ← query.write ctx
      pure (withPart ++ body ++ [.txt ";"])

/-- `(*CompileOptions).Compile`; `params` has distinct keys (it is a Go map) -/
def compile (params : List (Bytes × Bytes)) (src : Bytes) : CompileResult :=
  let r := parse src
  if !r.2.isEmpty then .error
  else
    match compileChunks src params r.1 with
    | .ok cs => .ok (renderChunks cs)
    | .error .err => .error
    | .error .panic => .panic

end Pql
