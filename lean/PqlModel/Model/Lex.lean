/-
Model of parser/lex.go: `Scan`, the sub-scanners, `normalizeNumberValue`,
`SplitStatements`.  Hand-written, tied to the Go code by the correspondence
check (SCAN / SPLIT lines) and, for the keyword table and the rune-class
predicates, by the regenerated facts.

The model reproduces behaviour, not the `pos/last` cursor: every sub-scanner
receives the suffix that starts at the token and returns the token's kind,
value and width.  Bytes ≥ 0x80 matter to the scanner only in the main dispatch
(white space or one error token per rune); inside identifiers, numbers, strings,
quoted identifiers and comments every decision is on an ASCII byte, and an
ASCII byte is always a rune of its own in Go's decoder, so those loops are
byte loops.
-/
import PqlModel.Base.Utf8
import PqlModel.Model.Token
import PqlModel.Generated.Facts
namespace Pql

/-! ### rune classes (lex.go isAlpha / isDigit / isHexDigit), from the regenerated ranges -/

def inRanges (rs : List (Nat × Nat)) (c : UInt8) : Bool :=
  rs.any fun r => r.1 ≤ c.toNat && c.toNat ≤ r.2

def isAlpha (c : UInt8) : Bool := inRanges Facts.isAlphaRanges c
def isDigit (c : UInt8) : Bool := inRanges Facts.isDigitRanges c
def isHexDigit (c : UInt8) : Bool := inRanges Facts.isHexDigitRanges c

def isIdentStart (c : UInt8) : Bool := isAlpha c || c == 95 || c == 36   -- '_' '$'
def isIdentCont (c : UInt8) : Bool := isAlpha c || isDigit c || c == 95

def keywordKind (text : Bytes) : Option TokKind :=
  match Facts.keywords.find? (fun kv => Bytes.ofString kv.1 == text) with
  | some kv => TokKind.ofGoName kv.2
  | none => none

/-! ### sub-scanners -/

/-- number of identifier-continuation bytes at the head -/
def identLoop : Bytes → Nat
  | [] => 0
  | c :: rest => if isIdentCont c then identLoop rest + 1 else 0

structure Lexeme where
  kind : TokKind
  value : Bytes
  width : Nat
  deriving Repr, DecidableEq

/-- `(*scanner).ident`; `s` starts with an identifier-start byte. -/
def scanIdent (s : Bytes) : Lexeme :=
  let w := identLoop s.tail + 1
  let text := s.take w
  match keywordKind text with
  | some k => ⟨k, [], w⟩
  | none => ⟨.ident, text, w⟩

/-- Result of a quoted scan: closed with a value, or broken off (EOF / end of line). -/
inductive QRes
  | closed (val : Bytes) (w : Nat)
  | bad (w : Nat)
  deriving Repr, DecidableEq

def QRes.shift (k : Nat) (c : Option UInt8) : QRes → QRes
  | .closed v w => .closed (match c with | some b => b :: v | none => v) (w + k)
  | .bad w => .bad (w + k)

/-- body of `(*scanner).quotedIdent`, after the opening back-quote -/
def qidentLoop : Bytes → QRes
  | [] => .bad 0
  | c :: rest =>
    if c == 96 then
      match rest with
      | [] => .closed [] 1
      | d :: rest' =>
        if d == 96 then (qidentLoop rest').shift 2 (some 96)
        else .closed [] 1
    else if c == 10 then .bad 0
    else (qidentLoop rest).shift 1 (some c)

def scanQuotedIdent (s : Bytes) : Lexeme :=
  match qidentLoop s.tail with
  | .closed v w => ⟨.qident, v, w + 1⟩
  | .bad w => ⟨.error, [], w + 1⟩

/-- body of `(*scanner).string`, after the opening quote `q` -/
def stringLoop (q : UInt8) : Bytes → QRes
  | [] => .bad 0
  | c :: rest =>
    if c == q then .closed [] 1
    else if c == 10 then .bad 0
    else if c == 92 then
      match rest with
      | [] => .bad 1
      | e :: rest' =>
        if e == 10 then .bad 1
        else
          let v : UInt8 := if e == 110 then 10 else if e == 116 then 9 else e
          (stringLoop q rest').shift 2 (some v)
    else (stringLoop q rest).shift 1 (some c)

def scanString (s : Bytes) : Lexeme :=
  match s with
  | [] => ⟨.error, [], 0⟩
  | q :: rest =>
    match stringLoop q rest with
    | .closed v w => ⟨.string, v, w + 1⟩
    | .bad w => ⟨.error, [], w + 1⟩

def digitsLen : Bytes → Nat
  | [] => 0
  | c :: rest => if isDigit c then digitsLen rest + 1 else 0

def hexDigitsLen : Bytes → Nat
  | [] => 0
  | c :: rest => if isHexDigit c then hexDigitsLen rest + 1 else 0

/-- `(*scanner).numberExponent`: width of an exponent at the head, 0 if there is none -/
def exponentLen : Bytes → Nat
  | e :: c :: rest =>
    if e == 101 || e == 69 then
      if c == 43 || c == 45 then
        match rest with
        | d :: rest' => if isDigit d then digitsLen rest' + 3 else 0
        | [] => 0
      else if isDigit c then digitsLen rest + 2 else 0
    else 0
  | _ => 0

/-- the "subsequent decimal digits" loop of `numberOrDot`: digits, at most one '.', digits -/
def mantissaLoop (hasDot : Bool) : Bytes → Nat
  | [] => 0
  | c :: rest =>
    if c == 46 && !hasDot then mantissaLoop true rest + 1
    else if isDigit c then mantissaLoop hasDot rest + 1
    else 0

def trimLeftZeros : Bytes → Bytes
  | [] => []
  | c :: rest => if c == 48 then trimLeftZeros rest else c :: rest

/-- `normalizeNumberValue` -/
def normalizeNumber (s : Bytes) : Bytes :=
  match trimLeftZeros s with
  | [] => [48]
  | c :: rest => if c == 46 || c == 101 || c == 69 then 48 :: c :: rest else c :: rest

def hexVal (c : UInt8) : Nat :=
  let n := c.toNat
  if 48 ≤ n && n ≤ 57 then n - 48
  else if 97 ≤ n && n ≤ 102 then n - 87
  else if 65 ≤ n && n ≤ 70 then n - 55
  else 0

def hexToNat (ds : Bytes) : Nat := ds.foldl (fun acc c => acc * 16 + hexVal c) 0

def natToDec (n : Nat) : Bytes := (Nat.toDigits 10 n).map fun c => UInt8.ofNat c.toNat

/-- decimal number ending after `k` bytes of `s` plus mantissa and exponent -/
def finishNumber (s : Bytes) (k : Nat) (hasDot : Bool) : Lexeme :=
  let m := mantissaLoop hasDot (s.drop k)
  let e := exponentLen (s.drop (k + m))
  let w := k + m + e
  ⟨.number, normalizeNumber (s.take w), w⟩

/-- `(*scanner).numberOrDot`; `s` starts with a digit or '.' -/
def scanNumberOrDot (s : Bytes) : Lexeme :=
  match s with
  | [] => ⟨.error, [], 0⟩
  | c :: rest =>
    if c == 48 then
      match rest with
      | [] => ⟨.number, [48], 1⟩
      | c2 :: rest2 =>
        if c2 == 46 then finishNumber s 2 true
        else if c2 == 101 || c2 == 69 then
          let w := exponentLen rest + 1
          ⟨.number, normalizeNumber (s.take w), w⟩
        else if c2 == 120 || c2 == 88 then
          let n := hexDigitsLen rest2
          if n == 0 then ⟨.error, [], 2⟩
          else
            let v := hexToNat (rest2.take n)
            if v < 18446744073709551616 then ⟨.number, natToDec v, n + 2⟩
            else ⟨.error, [], n + 2⟩
        else if isDigit c2 then finishNumber s 2 false
        else finishNumber s 1 false
    else if c == 46 then
      match rest with
      | [] => ⟨.dot, [], 1⟩
      | c2 :: _ => if isDigit c2 then finishNumber s 2 true else ⟨.dot, [], 1⟩
    else finishNumber s 1 false

/-- a `//` comment's body: everything up to and including the next newline -/
def commentLen : Bytes → Nat
  | [] => 0
  | c :: rest => if c == 10 then 1 else commentLen rest + 1

/-! ### main dispatch -/

/-- One step of `Scan`'s loop at a non-empty suffix: an optional token starting at the
    head of the suffix, and the number of bytes consumed. -/
structure Step where
  tok : Option (TokKind × Bytes)
  width : Nat
  deriving Repr, DecidableEq

def Step.ofLexeme (l : Lexeme) : Step := ⟨some (l.kind, l.value), l.width⟩
def Step.sym (k : TokKind) (w : Nat) : Step := ⟨some (k, []), w⟩
def Step.skip (w : Nat) : Step := ⟨none, w⟩

def isAsciiSpace (c : UInt8) : Bool :=
  c == 9 || c == 10 || c == 11 || c == 12 || c == 13 || c == 32

/-- single-byte tokens -/
def singleKind (c : UInt8) : Option TokKind :=
  if c == 44 then some .comma
  else if c == 124 then some .pipe
  else if c == 40 then some .lparen
  else if c == 41 then some .rparen
  else if c == 91 then some .lbracket
  else if c == 93 then some .rbracket
  else if c == 43 then some .plus
  else if c == 45 then some .minus
  else if c == 42 then some .star
  else if c == 37 then some .mod
  else if c == 59 then some .semi
  else none

/-- operators decided with one byte of look-ahead, comments, and the error default;
    `c` is an ASCII byte that starts no identifier, number, string or quoted identifier -/
def scanPunct (c : UInt8) (rest : Bytes) : Step :=
  match singleKind c with
  | some k => .sym k 1
  | none =>
    let d := rest.head?
    if c == 61 then
      if d == some 61 then .sym .eq 2 else if d == some 126 then .sym .cieq 2 else .sym .assign 1
    else if c == 33 then
      if d == some 61 then .sym .ne 2 else if d == some 126 then .sym .cine 2 else .sym .error 1
    else if c == 60 then
      if d == some 61 then .sym .le 2 else .sym .lt 1
    else if c == 62 then
      if d == some 61 then .sym .ge 2 else .sym .gt 1
    else if c == 47 then
      if d == some 47 then .skip (commentLen rest.tail + 2) else .sym .slash 1
    else .sym .error 1

/-- bytes ≥ 0x80: one rune, white space or an error token -/
def scanNonAscii (s : Bytes) : Step :=
  let rw := decodeRune s
  if isSpaceRune rw.1 then .skip rw.2 else .sym .error rw.2

def scanOne (s : Bytes) : Step :=
  match s with
  | [] => .skip 0
  | c :: rest =>
    if 128 ≤ c.toNat then scanNonAscii s
    else if isAsciiSpace c then .skip 1
    else if isIdentStart c then .ofLexeme (scanIdent s)
    else if isDigit c || c == 46 then .ofLexeme (scanNumberOrDot s)
    else if c == 34 || c == 39 then .ofLexeme (scanString s)
    else if c == 96 then .ofLexeme (scanQuotedIdent s)
    else scanPunct c rest

theorem scanPunct_width_pos (c : UInt8) (rest : Bytes) : 1 ≤ (scanPunct c rest).width := by
  unfold scanPunct
  simp only [Step.skip, Step.sym]
  repeat' split
  all_goals simp

theorem scanIdent_width_pos (s : Bytes) : 1 ≤ (scanIdent s).width := by
  simp only [scanIdent]; split <;> simp

theorem scanString_width_pos (c : UInt8) (rest : Bytes) : 1 ≤ (scanString (c :: rest)).width := by
  simp only [scanString]; split <;> simp

theorem scanQuotedIdent_width_pos (s : Bytes) : 1 ≤ (scanQuotedIdent s).width := by
  simp only [scanQuotedIdent]; split <;> simp

theorem scanNumberOrDot_width_pos (c : UInt8) (rest : Bytes) :
    1 ≤ (scanNumberOrDot (c :: rest)).width := by
  unfold scanNumberOrDot
  simp only [finishNumber]
  repeat' split
  all_goals simp
  all_goals omega

theorem scanNonAscii_width_pos (c : UInt8) (rest : Bytes) :
    1 ≤ (scanNonAscii (c :: rest)).width := by
  unfold scanNonAscii
  have := decodeRune_width_pos c rest
  simp only [Step.skip, Step.sym]
  split <;> simpa

theorem scanOne_width_pos (c : UInt8) (rest : Bytes) : 1 ≤ (scanOne (c :: rest)).width := by
  unfold scanOne
  simp only [Step.ofLexeme, Step.skip]
  repeat' split
  · exact scanNonAscii_width_pos c rest
  · exact Nat.le_refl 1
  · exact scanIdent_width_pos _
  · exact scanNumberOrDot_width_pos c rest
  · exact scanString_width_pos c rest
  · exact scanQuotedIdent_width_pos _
  · exact scanPunct_width_pos c rest

/-- `Scan`: iterate `scanOne`; `off` is the absolute offset of `s` in the source. -/
def scanFrom (s : Bytes) (off : Nat) : List Token :=
  match s with
  | [] => []
  | c :: rest =>
    let st := scanOne (c :: rest)
    let tl := scanFrom ((c :: rest).drop st.width) (off + st.width)
    match st.tok with
    | some (k, v) => ⟨k, off, off + st.width, v⟩ :: tl
    | none => tl
termination_by s.length
decreasing_by
  have := scanOne_width_pos c rest
  simp only [List.length_drop, List.length_cons]
  omega

def scan (s : Bytes) : List Token := scanFrom s 0

/-! ### SplitStatements -/

/-- `SplitStatements`: cut `src` at the spans of the semicolon tokens. -/
def splitAtSemis (src : Bytes) : List Token → Nat → List Bytes
  | [], start => [src.drop start]
  | t :: ts, start =>
    if t.kind = .semi then (src.drop start).take (t.start - start) :: splitAtSemis src ts t.stop
    else splitAtSemis src ts start

def splitStatements (src : Bytes) : List Bytes := splitAtSemis src (scan src) 0

end Pql
