/-
Interpreter for the IR of `splitQueries` and `chainSubquery` (pql.go) that `harness/extract_split.go`
regenerates from the Go source on every run (`Facts.splitIR`, `Facts.splitLoop`, `Facts.splitCases`,
`Facts.splitParams`).

The regenerated form is flat (a unit is a list of items, an item a list of strings, blocks closed by
`["end"]`); `decode` turns a unit into the statement tree `Stmt`, `exec` runs a statement on a state:
the Go HEAP of `subquery` objects (`SplitImp.Heap`, the one the hand-written machine of
Lemmas/SplitImpMachine.lean uses, with its `alloc` / `load` / `store` / `deref` / `index`) and the Go
variables in scope, each holding an `int`, a string, a `*subquery` (an address or nil), a
`[]*subquery` (a list of addresses), the contents of a `*strings.Builder`, an `*exprContext` or a
piece of the AST.  Nothing is specific to the names `dst`, `lastSubquery`, …: a variable is whatever
the IR declares.

Primitives (meaning taken from the model): `canAttachSort`, `subqueryName`, `quoteIdentifier` (a
`qid` chunk), `dataSourceSQL` (`SplitImp.dataSourceSQLI`), `writeExpression` on
`buildJoinCondition(op.Conditions)` (`writeExpr`, `buildJoinCondition`).  Calls of `chainSubquery`
are interpreted (`interpChain`: the regenerated body of that function on a fresh frame); the
recursive call of `splitQueries` runs the regenerated body again (`runSplit`, by recursion on a fuel
that `interpSplit` sets to the join nesting depth of the expression plus one; Props/C02SplitIR.lean
shows that any larger fuel gives the same result, i.e. the fuel never runs out).

Go run-time failures are explicit: nil dereference, index out of range are `IErr.go .panic`; an error
return is `IErr.go .err`.  `IErr.stuck` is kept apart: the IR mentions a variable that is not in
scope, a field the value does not have, a callee or a constant the interpreter does not know.  The
machine never yields `stuck`, so `interpretation = lift machine` excludes it.

Two representation limits are inherited from the frozen `Subquery` type exactly as in the machine
(see the header of Lemmas/SplitImpMachine.lean): `Terms: []*SortTerm{op.Col}` with `op.Col == nil`
and `append(dst, p)` with `p == nil` are reported as panics.
-/
import PqlModel.Model.SplitIRSyntax
namespace Pql.SplitIR
open Pql

/-! ### values and state -/

inductive IErr
  | go (e : WErr)     -- what the Go code does: error return / panic
  | stuck             -- the IR is not understood (never equal to anything the machine yields)
  deriving DecidableEq, Repr

abbrev IM := Except IErr

def liftW {α : Type} : Except WErr α → IM α
  | .ok a => .ok a
  | .error e => .error (.go e)

def goPanic {α : Type} : IM α := .error (.go .panic)
def stuck {α : Type} : IM α := .error .stuck

/-- what a Go variable of `splitQueries` / `chainSubquery` can hold -/
inductive Val
  | int (i : Int)                                -- int
  | str (b : Bytes)                              -- string
  | ptr (p : Option SplitImp.Addr)               -- *subquery: an address of the heap, or nil
  | slice (l : List SplitImp.Addr)               -- []*subquery
  | builder (cs : List Chunk)                    -- *strings.Builder: what has been written to it
  | ctx (c : Ctx)                                -- *exprContext
  | scope (sc : List (Bytes × List Chunk))       -- map[string]string
  | op (o : Op)                                  -- the operator, with the dynamic type of the case
  | tab (t : Tabular)                            -- *parser.TabularExpr
  | src (s : Option Ident)                       -- parser.TabularDataSource: *TableRef{Table}

structure State where
  heap : SplitImp.Heap
  vars : List (String × Val)                     -- innermost first

/-- calls of functions of the package -/
structure Sem where
  call : String → SplitImp.Heap → List Val → IM (SplitImp.Heap × Val)

def State.get (st : State) (v : String) : IM Val :=
  match st.vars.find? (·.1 == v) with
  | some kv => .ok kv.2
  | none => stuck

def State.declare (st : State) (v : String) (x : Val) : State := { st with vars := (v, x) :: st.vars }

/-- `v = x` for a variable in scope -/
def assignIn (v : String) (x : Val) : List (String × Val) → Option (List (String × Val))
  | [] => none
  | kv :: r => if kv.1 == v then some ((v, x) :: r) else (assignIn v x r).map (kv :: ·)

def State.set (st : State) (v : String) (x : Val) : IM State :=
  match assignIn v x st.vars with
  | some vars => .ok { st with vars := vars }
  | none => stuck

/-- leaving a block: the variables it declared go out of scope, assignments to outer ones (and the
    heap) stay -/
def State.leave (st outer : State) : State :=
  { st with vars := st.vars.drop (st.vars.length - outer.vars.length) }

/-! ### reading variables, fields, the AST -/

def intOf (st : State) (v : String) : IM Int := do
  match ← st.get v with
  | .int i => pure i
  | _ => stuck

def sliceOf (st : State) (v : String) : IM (List SplitImp.Addr) := do
  match ← st.get v with
  | .slice l => pure l
  | _ => stuck

def ptrOf (st : State) (v : String) : IM (Option SplitImp.Addr) := do
  match ← st.get v with
  | .ptr p => pure p
  | _ => stuck

def builderOf (st : State) (v : String) : IM (List Chunk) := do
  match ← st.get v with
  | .builder cs => pure cs
  | _ => stuck

def evalInt (st : State) : IntE → IM Int
  | .var v => intOf st v
  | .len v => do
    let l ← sliceOf st v
    pure (l.length : Int)
  | .lenm1 v => do
    let l ← sliceOf st v
    pure ((l.length : Int) - 1)

/-- `*v` for a pointer variable: nil dereference panics -/
def loadPtr (st : State) (v : String) : IM Subquery := do
  let p ← ptrOf st v
  liftW (SplitImp.deref p >>= SplitImp.load st.heap)

/-- a string-valued path off an AST variable -/
def strAt (x : Val) (f : String) : IM Bytes :=
  match x with
  | .op (.as_ _ _ name) => if f == "Name.Name" then liftW (SplitImp.nameOf name) else stuck
  | .op (.join _ _ _ _ flavor _ _ _ _ _) =>
    if f == "Flavor.Name" then
      match flavor with
      | some i => .ok i.name
      | none => goPanic
    else stuck
  | _ => stuck

/-- a path as an argument of a call -/
def valAt (x : Val) (f : String) : IM Val :=
  if f == "" then .ok x
  else
    match x with
    | .tab (.mk source _) => if f == "Source" then .ok (.src source) else stuck
    | .tab .nil => if f == "Source" then goPanic else stuck
    | .op (.join _ _ _ _ _ _ right _ _ _) => if f == "Right" then .ok (.tab right) else stuck
    | _ => stuck

def srcAt (x : Val) (f : String) : IM (Option Ident) := do
  match ← valAt x f with
  | .src s => pure s
  | _ => stuck

def condsAt (x : Val) (f : String) : IM ExprList :=
  match x with
  | .op (.join _ _ _ _ _ _ _ _ _ conds) => if f == "Conditions" then .ok conds else stuck
  | _ => stuck

/-- the slice a loop runs over: `expr.Operators` of a nil `expr` is a nil dereference -/
def opsAt (x : Val) (f : String) : IM OpList :=
  match x with
  | .tab (.mk _ ops) => if f == "Operators" then .ok ops else stuck
  | .tab .nil => if f == "Operators" then goPanic else stuck
  | _ => stuck

/-- `p == nil` -/
def nilAt (st : State) (p : Path) : IM Bool := do
  match ← st.get p.root with
  | .ptr q =>
    if p.fields == "" then pure q.isNone
    else do
      let s ← liftW (SplitImp.deref q >>= SplitImp.load st.heap)
      if p.fields == "sort" then pure s.sort.isNone
      else if p.fields == "take" then pure s.take.isNone
      else stuck
  | .op (.join _ _ _ _ flavor _ _ _ _ _) => if p.fields == "Flavor" then pure flavor.isNone else stuck
  | _ => stuck

def evalCond (st : State) : Cond → IM Bool
  | .isNil p => nilAt st p
  | .notNil p => do
    let b ← nilAt st p
    pure (!b)
  | .notCan p => do
    let s ← loadPtr st p.root
    if p.fields == "op" then pure (!canAttachSort s.op) else stuck
  | .intCmp op a b => do
    let x ← evalInt st a
    let y ← evalInt st b
    if op == "gt" then pure (decide (x > y))
    else if op == "ge" then pure (decide (x ≥ y))
    else if op == "eq" then pure (decide (x = y))
    else stuck
  | .strEq v s => do
    match ← st.get v with
    | .str b => pure (b == Bytes.ofString s)
    | _ => stuck
  | .or a b => do
    if (← evalCond st a) then pure true else evalCond st b

def modeOf (m : String) : IM Mode :=
  if m == "" then .ok .default              -- the zero value of exprMode, `defaultExprMode`
  else if m == "defaultExprMode" then .ok .default
  else if m == "joinExprMode" then .ok .join
  else if m == "letExprMode" then .ok .let_
  else stuck

/-- package-level string constants -/
def constOf (c : String) : IM String :=
  if c == "leftJoinTableAlias" then .ok Facts.leftJoinTableAlias
  else if c == "rightJoinTableAlias" then .ok Facts.rightJoinTableAlias
  else stuck

/-- a one-element `[]*SortTerm{…}` (a nil element is not representable: panic, as in the machine) -/
def termAt (x : Val) (f : String) : IM (List SortTerm) :=
  match x with
  | .op (.top _ _ _ _ col) =>
    if f == "Col" then
      match col with
      | some c => .ok [c]
      | none => goPanic
    else stuck
  | _ => stuck

def rowCountAt (x : Val) (f : String) : IM Expr :=
  match x with
  | .op (.top _ _ n _ _) => if f == "RowCount" then .ok n else stuck
  | _ => stuck

/-- `v.f = e`: the update of the object -/
def fieldUpdate (st : State) (f : String) (e : ValE) : IM (Subquery → Subquery) :=
  if f == "name" then
    match e with
    | .path p => do
      let n ← st.get p.root >>= (strAt · p.fields)
      pure fun s => { s with name := n }
    | _ => stuck
  else if f == "op" then
    match e with
    | .var v => do
      match ← st.get v with
      | .op o => pure fun s => { s with op := some o }
      | _ => stuck
    | _ => stuck
  else if f == "sort" then
    match e with
    | .var v => do
      match ← st.get v with
      | .op (.sort _ _ terms) => pure fun s => { s with sort := some terms }
      | _ => stuck
    | .newNode ty args =>
      if ty == "SortOperator" then
        match args.find? (·.key == "Terms") with
        | some a =>
          if a.kind == "list1" then do
            let ts ← st.get a.root >>= (termAt · a.fields)
            pure fun s => { s with sort := some ts }
          else stuck
        | none => stuck
      else stuck
    | _ => stuck
  else if f == "take" then
    match e with
    | .var v => do
      match ← st.get v with
      | .op (.take _ _ n) => pure fun s => { s with take := some n }
      | _ => stuck
    | .newNode ty args =>
      if ty == "TakeOperator" then
        match args.find? (·.key == "RowCount") with
        | some a =>
          if a.kind == "path" then do
            let n ← st.get a.root >>= (rowCountAt · a.fields)
            pure fun s => { s with take := some n }
          else stuck
        | none => stuck
      else stuck
    | _ => stuck
  else if f == "sourceSQL" then
    match e with
    | .string b => do
      let cs ← builderOf st b
      pure fun s => { s with source := cs }
    | _ => stuck
  else stuck

/-- `&subquery{name: …, sourceSQL: …}`; a field that is not mentioned has its zero value -/
def mkSub (st : State) (fields : List (String × ValE)) : IM Subquery := do
  let name ←
    match fields.find? (·.1 == "name") with
    | some (_, .subqueryName e) => do
      let i ← evalInt st e
      pure (subqueryName i.toNat)
    | some _ => stuck
    | none => pure []
  let source ←
    match fields.find? (·.1 == "sourceSQL") with
    | some (_, .string b) => builderOf st b
    | some _ => stuck
    | none => pure []
  if fields.all (fun kv => kv.1 == "name" || kv.1 == "sourceSQL") then
    pure { name := name, source := source }
  else stuck

/-- `b.WriteString(…)`, `quoteIdentifier(b, …)`: append to the builder -/
def writeTo (st : State) (b : String) (cs : List Chunk) : IM State := do
  let old ← builderOf st b
  st.set b (.builder (old ++ cs))

/-! ### execution -/

mutual
def exec (sem : Sem) : Stmt → State → IM State
  | .defInt v e, st => do
    let i ← evalInt st e
    pure (st.declare v (.int i))
  | .varPtr v, st => .ok (st.declare v (.ptr none))
  | .varErr, st => .ok st
  | .tryCall v callee args, st => do
    let vals ← args.mapM fun p => st.get p.root >>= (valAt · p.fields)
    let (h, r) ← sem.call callee st.heap vals
    State.set { st with heap := h } v r
  | .setField v f e, st => do
    let p ← ptrOf st v
    let upd ← fieldUpdate st f e
    let a ← liftW (SplitImp.deref p)
    let h ← liftW (SplitImp.store st.heap a upd)
    pure { st with heap := h }
  | .append v w, st => do
    let l ← sliceOf st v
    let p ← ptrOf st w
    let a ← liftW (SplitImp.deref p)
    st.set v (.slice (l ++ [a]))
  | .setIdx v w e, st => do
    let l ← sliceOf st w
    let i ← evalInt st e
    let a ← liftW (SplitImp.index l i)
    st.set v (.ptr (some a))
  | .ite c t e, st => do
    let b ← evalCond st c
    let st1 ← if b then execBlock sem t st else execBlock sem e st
    pure (st1.leave st)
  | .declStr v s, st => .ok (st.declare v (.str (Bytes.ofString s)))
  | .setStr v p, st => do
    let b ← st.get p.root >>= (strAt · p.fields)
    st.set v (.str b)
  | .newBuilder v, st => .ok (st.declare v (.builder []))
  | .lit b s, st => writeTo st b [.txt s]
  | .litCat b pre c suf, st => do
    let k ← constOf c
    writeTo st b [.txt (pre ++ k ++ suf)]
  | .qidPtr b v f, st => do
    let s ← loadPtr st v
    if f == "name" then writeTo st b [.qid s.name] else stuck
  | .qidIdx b w f e, st => do
    let l ← sliceOf st w
    let i ← evalInt st e
    let s ← liftW (SplitImp.index l i >>= SplitImp.load st.heap)
    if f == "name" then writeTo st b [.qid s.name] else stuck
  | .tryDataSource b p, st => do
    let s ← st.get p.root >>= (srcAt · p.fields)
    let cs ← liftW (SplitImp.dataSourceSQLI s)
    writeTo st b cs
  | .retErr, _ => .error (.go .err)
  | .ctx v source scope mode, st => do
    match ← st.get source, ← st.get scope with
    | .str src, .scope sc => do
      let m ← modeOf mode
      pure (st.declare v (.ctx ⟨src, sc, m⟩))
    | _, _ => stuck
  | .tryExprJoin c b p, st => do
    match ← st.get c with
    | .ctx cx => do
      let conds ← st.get p.root >>= (condsAt · p.fields)
      let cs ← liftW (writeExpr cx (buildJoinCondition conds))
      writeTo st b cs
    | _ => stuck
  | .new v define fields, st => do
    let s ← mkSub st fields
    let (h, a) := SplitImp.alloc st.heap s
    if define then pure (State.declare { st with heap := h } v (.ptr (some a)))
    else State.set { st with heap := h } v (.ptr (some a))
  | .ret v, st => do
    let x ← st.get v
    pure (st.declare "return" x)

def execBlock (sem : Sem) : List Stmt → State → IM State
  | [], st => .ok st
  | s :: r, st => do
    let st1 ← exec sem s st
    execBlock sem r st1
end

/-! ### the functions -/

def paramsOf (fn : String) : Option (List String) :=
  (Facts.splitParams.find? (·.1 == fn)).map (·.2)

/-- the frame of a call: parameter names bound to the arguments, in order -/
def bindParams (fn : String) (args : List Val) : IM (List (String × Val)) :=
  match paramsOf fn with
  | some ps => if ps.length == args.length then .ok (ps.zip args) else stuck
  | none => stuck

def noCalls : Sem := ⟨fun _ _ _ => stuck⟩

/-- run a function whose whole body is one unit: what it returns, and the heap afterwards -/
def interpUnit (sem : Sem) (fn : String) (h : SplitImp.Heap) (args : List Val) : IM (SplitImp.Heap × Val) := do
  let vars ← bindParams fn args
  match decode (irOf fn) with
  | some body => do
    let st ← execBlock sem body ⟨h, vars⟩
    let r ← st.get "return"
    pure (st.heap, r)
  | none => stuck

/-- `chainSubquery(dst, dstStart, src)` -/
def interpChain (h : SplitImp.Heap) (args : List Val) : IM (SplitImp.Heap × Val) :=
  interpUnit noCalls "chainSubquery" h args

/-- the unit the type switch of the loop selects for the dynamic type `ty`: the first case that
    lists it, else the default -/
def caseKey (ty : String) : Option String :=
  match Facts.splitCases.find? (·.1.contains ty) with
  | some c => some c.2
  | none => (Facts.splitCases.find? (·.1 == ["default"])).map (·.2)

/-- `for i := 0; i < len(ops); i++ { switch opv := ops[i].(type) { … } }` -/
def loop (sem : Sem) (opv : String) : OpList → State → IM State
  | .nil, st => .ok st
  | .cons o os, st =>
    match (caseKey (opTypeName o)).bind fun k => decode (irOf k) with
    | some body => do
      let st1 ← execBlock sem body (st.declare opv (.op o))
      loop sem opv os (st1.leave st)
    | none => stuck

/-- the body of `splitQueries`: the statements before the loop, the loop, the statements after it -/
def interpSplitBody (sem : Sem) (h : SplitImp.Heap) (args : List Val) : IM (SplitImp.Heap × Val) := do
  let vars ← bindParams "splitQueries" args
  match decode (irOf "splitQueries:pre"), decode (irOf "splitQueries:post"), Facts.splitLoop with
  | some pre, some post, [opv, root, fields] => do
    let st ← execBlock sem pre ⟨h, vars⟩
    let ops ← st.get root >>= (opsAt · fields)
    let st ← loop sem opv ops st
    let st ← execBlock sem post st
    let r ← st.get "return"
    pure (st.heap, r)
  | _, _, _ => stuck

/-- the callees of `splitQueries`: `chainSubquery`, and itself through `self` -/
def callWith (self : SplitImp.Heap → List Val → IM (SplitImp.Heap × Val)) : Sem :=
  ⟨fun fn h args =>
    if fn == "chainSubquery" then interpChain h args
    else if fn == "splitQueries" then self h args
    else stuck⟩

/-- `splitQueries(args…)` with at most `fuel` nested activations -/
def runSplit : Nat → SplitImp.Heap → List Val → IM (SplitImp.Heap × Val)
  | 0 => fun _ _ => stuck
  | fuel + 1 => interpSplitBody (callWith (runSplit fuel))

mutual
/-- nesting depth of join right-hand sides -/
def tabDepth : Tabular → Nat
  | .nil => 0
  | .mk _ ops => opsDepth ops
def opsDepth : OpList → Nat
  | .nil => 0
  | .cons (.join _ _ _ _ _ _ right _ _ _) os => max (tabDepth right + 1) (opsDepth os)
  | .cons _ os => opsDepth os
end

def sliceResult : SplitImp.Heap × Val → IM (SplitImp.Heap × List SplitImp.Addr)
  | (h, .slice d) => .ok (h, d)
  | _ => stuck

/-- `splitQueries(dst, source, scope, expr)` on a heap, with `fuel` nested activations -/
def interpSplitFuel (fuel : Nat) (src : Bytes) (scope : List (Bytes × List Chunk)) (h : SplitImp.Heap)
    (dst : List SplitImp.Addr) (t : Tabular) : IM (SplitImp.Heap × List SplitImp.Addr) :=
  runSplit fuel h [.slice dst, .str src, .scope scope, .tab t] >>= sliceResult

/-- the interpretation of the regenerated `splitQueries` -/
def interpSplit (src : Bytes) (scope : List (Bytes × List Chunk)) (h : SplitImp.Heap)
    (dst : List SplitImp.Addr) (t : Tabular) : IM (SplitImp.Heap × List SplitImp.Addr) :=
  interpSplitFuel (tabDepth t + 1) src scope h dst t

end Pql.SplitIR
