/-
The SELECT of one link (`Intended.selOf`) reading a named table, decomposed: body of the operator
(select list, WHERE, GROUP BY), ORDER BY, LIMIT; and the master lemma: once the body computes the
table `T'` of the operator, the whole SELECT computes the link's clauses in order.
-/
import PqlModel.Lemmas.SelSemPost
namespace Pql.SelSem
open Pql Sql CompileOracle Intended SplitQ

/-- select list, WHERE, GROUP BY of the body `selOf` gives an operator -/
def partsOf (src : Bytes) (op : Option Op) : Option (List SelectItem × Option SExpr × List SExpr) :=
  match op with
  | none => pure ([starItem], none, [])
  | some (.as_ ..) => pure ([starItem], none, [])
  | some (.project _ _ cols) => do
    let items ← cols.mapM projectItem
    pure (items, none, [])
  | some (.extend _ _ cols) => do
    let items ← cols.mapM (itemOf src)
    pure (starItem :: items, none, [])
  | some (.summarize _ _ cols _ groupBy) => do
    let gs ← groupBy.mapM (itemOf src)
    let cs ← cols.mapM (itemOf src)
    let gb ← groupBy.mapM fun c => tr false c.x
    pure (gs ++ cs, none, gb)
  | some (.where_ _ _ pred) => do
    let p ← tr false pred
    pure ([starItem], some p, [])
  | some (.count ..) =>
    pure ([⟨false, .call (Bytes.ofString "COUNT") true .nil .none_, some (Bytes.ofString "count()")⟩], none, [])
  | some (.render _ _ chart _ _ props _) =>
    pure (starItem :: ⟨false, .str (identName chart), some (Bytes.ofString "render_type")⟩ ::
            (props.map fun p => ⟨false, .str (renderPropValue p.value), some (Bytes.ofString "render_prop_" ++ identName p.name)⟩),
          none, [])
  | some _ => none

def mkSel (n : Bytes) (items : List SelectItem) (w : Option SExpr) (gb : List SExpr)
    (obs : List OrderTerm) (lim : Option SExpr) : Select :=
  { items := items, source := .named n none, join := none, where_ := w, groupBy := gb, orderBy := obs, limit := lim }

def obsOf (a : SubA) : Option (List OrderTerm) :=
  match a.sort with | some terms => terms.mapM orderOf | none => pure []

def limOf (a : SubA) : Option (Option SExpr) :=
  match a.take with | some n => (tr false n).map some | none => pure none

theorem selOf_table_eq (src : Bytes) (a : SubA) (n : Bytes) (hsrc : a.source = .table n) :
    selOf src a = (do
      let p ← partsOf src a.op
      let orderBy ← obsOf a
      let limit ← limOf a
      pure (mkSel n p.1 p.2.1 p.2.2 orderBy limit)) := by
  obtain ⟨name, source, op, sort, take⟩ := a
  simp only at hsrc
  subst hsrc
  unfold selOf partsOf obsOf limOf mkSel
  cases sort <;> cases take <;> cases op with
  | none => rfl
  | some o =>
    cases o with
    | where_ p k pred => dsimp only; cases tr false pred <;> rfl
    | project p k cols => dsimp only; cases List.mapM projectItem cols <;> rfl
    | extend p k cols => dsimp only; cases List.mapM (itemOf src) cols <;> rfl
    | summarize p k cols b gs =>
      dsimp only
      cases List.mapM (itemOf src) gs <;> cases List.mapM (itemOf src) cols <;>
        cases List.mapM (fun c : Column => tr false c.x) gs <;> rfl
    | _ => rfl

theorem selOf_parts (src : Bytes) (a : SubA) (n : Bytes) (sel : Select) (hsrc : a.source = .table n)
    (h : selOf src a = some sel) :
    ∃ items w gb obs lim, partsOf src a.op = some (items, w, gb) ∧ obsOf a = some obs ∧ limOf a = some lim ∧
      sel = mkSel n items w gb obs lim := by
  rw [selOf_table_eq src a n hsrc] at h
  simp only [bind, Option.bind, pure] at h
  cases hp : partsOf src a.op with
  | none => simp [hp] at h
  | some p =>
    cases ho : obsOf a with
    | none => simp [hp, ho] at h
    | some obs =>
      cases hl : limOf a with
      | none => simp [hp, ho, hl] at h
      | some lim =>
        simp only [hp, ho, hl, Option.some.injEq] at h
        exact ⟨p.1, p.2.1, p.2.2, obs, lim, rfl, rfl, rfl, h.symm⟩

/-- **master lemma**: if the body (select list, WHERE, GROUP BY) of the link computes the table
    `T'` the specification gives the link's operator, and ORDER BY sees the same values with and
    without the source columns behind the output columns (or there is nothing to sort), then
    the SELECT computes the link's clauses in the order body, ORDER BY, LIMIT. -/
theorem sel_core {ρ} (src : Bytes) (db : DB) (ctes : List (Bytes × Table)) (a : SubA) (n : Bytes)
    (items : List SelectItem) (w : Option SExpr) (gb : List SExpr) (obs : List OrderTerm) (lim : Option SExpr)
    (ho : obsOf a = some obs) (hl : limOf a = some lim)
    (rows : List ρ) (g : ρ → ORow) (T' : Table)
    (hcols : outColsOf (mkSel n items w gb [] none) (lookupTable db ctes n) = T'.cols)
    (hrows : outRowsOf (mkSel n items w gb [] none) (lookupTable db ctes n) = rows.map g)
    (hT : T'.rows = rows.map fun r => (g r).2.2)
    (hkey : a.sort = none ∨
      (∀ r e, evalS (g r).2.1 (envOfRow [] T'.cols (g r).2.2 ++ (g r).1) e =
              evalS [] (envOfRow [] T'.cols (g r).2.2) e) ∨ rows.length ≤ 1)
    (hop : (opPartA a).foldl (interpClause src db) (lookupTable db ctes n) = T') :
    evalSelect db ctes (mkSel n items w gb obs lim) = subEvalA src db (lookupTable db ctes n) a := by
  rw [evalSelect_table db ctes _ n rfl rfl rfl]
  unfold subEvalA subClausesA
  rw [List.foldl_append, hop]
  have hc : outColsOf (mkSel n items w gb obs lim) (lookupTable db ctes n) = T'.cols := hcols
  have hr : outRowsOf (mkSel n items w gb obs lim) (lookupTable db ctes n) = rows.map g := hrows
  simp only [hc, hr]
  have hTeq : T' = ⟨T'.cols, rows.map fun r => (g r).2.2⟩ := by rw [← hT]
  conv => rhs; rw [hTeq]
  exact (post src db a obs lim ho hl T'.cols rows g hkey).symm

end Pql.SelSem
