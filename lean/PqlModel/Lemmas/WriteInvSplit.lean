/-
What `splitQueries` stores as a subquery's operator.

* `run_new` — by induction over `SplitQ.Run` (Lemmas/SplitQueriesRun.lean): the operator of every
  subquery a run of the operator loop adds (index ≥ `dstStart`) is absent or one of the operators
  of the tree that `Exact.storedOp` accepts; sort / take / top only set the `sort` / `take`
  fields, a join only builds a `source`.
* `stored_ops` — hence, for every tree: each new subquery has `op = none` or `storedOp op`.
* `splitQueries_irOK` — if every `project` / `extend` / `render` operator of the tree (at any
  nesting depth of joins) satisfies `irQ` (what `WriteIR.irOK` asks of it), every new subquery
  satisfies `WriteIR.irOK`.
* `unparse_irQ` — every tree with a token reading (`unparseTabular t = some _`, which an
  error-free parse guarantees: `parseTokens_acc`) satisfies that.
-/
import PqlModel.Lemmas.SplitQueriesInv
import PqlModel.Lemmas.AccountedStmt
import PqlModel.Lemmas.AccountedScan
import PqlModel.Lemmas.ParsedOKLeaves
import PqlModel.Props.C05WriteIRAll
namespace Pql.WriteInv
open Pql Pql.SplitQ Pql.Grammar

/-! ### a predicate on every operator of a tree, joins entered -/

mutual
/-- `q` holds of every operator of the tree other than the joins themselves, at any nesting depth -/
def tabOpsAll (q : Op → Bool) : Tabular → Bool
  | .nil => true
  | .mk _ ops => opsOpsAll q ops
def opOpsAll (q : Op → Bool) : Op → Bool
  | .join _ _ _ _ _ _ right _ _ _ => tabOpsAll q right
  | .count p k => q (.count p k)
  | .where_ p k e => q (.where_ p k e)
  | .sort p k ts => q (.sort p k ts)
  | .take p k n => q (.take p k n)
  | .top p k n b c => q (.top p k n b c)
  | .project p k cs => q (.project p k cs)
  | .extend p k cs => q (.extend p k cs)
  | .summarize p k cs b gs => q (.summarize p k cs b gs)
  | .as_ p k n => q (.as_ p k n)
  | .render p k ch w lp props rp => q (.render p k ch w lp props rp)
def opsOpsAll (q : Op → Bool) : OpList → Bool
  | .nil => true
  | .cons o os => opOpsAll q o && opsOpsAll q os
end

theorem opOpsAll_plain (q : Op → Bool) (o : Op) (h : isPlain o = true) : opOpsAll q o = q o := by
  cases o <;> first | rfl | simp [isPlain] at h

theorem storedOp_plain (o : Op) (h : isPlain o = true) : Exact.storedOp o = true := by
  cases o <;> first | rfl | simp [isPlain] at h

mutual
theorem tabOpsAll_true : ∀ t : Tabular, tabOpsAll (fun _ => true) t = true
  | .nil => rfl
  | .mk _ ops => by rw [tabOpsAll]; exact opsOpsAll_true ops
theorem opOpsAll_true : ∀ o : Op, opOpsAll (fun _ => true) o = true
  | .join _ _ _ _ _ _ right _ _ _ => by rw [opOpsAll]; exact tabOpsAll_true right
  | .count .. | .where_ .. | .sort .. | .take .. | .top .. | .project .. | .extend .. | .summarize ..
  | .as_ .. | .render .. => rfl
theorem opsOpsAll_true : ∀ ops : OpList, opsOpsAll (fun _ => true) ops = true
  | .nil => rfl
  | .cons o os => by rw [opsOpsAll, opOpsAll_true o, opsOpsAll_true os]; rfl
end

/-! ### list bookkeeping: the elements from index `k` on -/

theorem mem_drop_append {α : Type} {a b : List α} {k : Nat} {s : α} (h : s ∈ (a ++ b).drop k) :
    s ∈ a.drop k ∨ s ∈ b := by
  rw [List.drop_append] at h
  rcases List.mem_append.mp h with h | h
  · exact .inl h
  · exact .inr (List.mem_of_mem_drop h)

theorem mem_drop_left {α : Type} {a : List α} (b : List α) {k : Nat} {s : α} (h : s ∈ a.drop k) :
    s ∈ (a ++ b).drop k := by
  rw [List.drop_append]; exact List.mem_append_left _ h

theorem mem_drop_last {α : Type} {a : List α} {k : Nat} (l : α) (h : k ≤ a.length) :
    l ∈ (a ++ [l]).drop k := by
  rw [List.drop_append]
  refine List.mem_append_right _ ?_
  have : k - a.length = 0 := by omega
  rw [this]; simp

theorem forall_drop_snoc {P : Subquery → Prop} {dst : List Subquery} {k : Nat} {x : Subquery}
    (h : ∀ s ∈ dst.drop k, P s) (hx : P x) : ∀ s ∈ (dst ++ [x]).drop k, P s := by
  intro s hs
  rcases mem_drop_append hs with hs | hs
  · exact h s hs
  · rw [List.mem_singleton.mp hs]; exact hx

/-- replacing the last element (at or after `k`) by one with the same property -/
theorem forall_drop_last {P : Subquery → Prop} {init : List Subquery} {k : Nat} {l l' : Subquery}
    (hk : k ≤ init.length) (h : ∀ s ∈ (init ++ [l]).drop k, P s) (hl : P l → P l') :
    ∀ s ∈ (init ++ [l']).drop k, P s :=
  forall_drop_snoc (fun s hs => h s (mem_drop_left _ hs)) (hl (h l (mem_drop_last l hk)))

/-! ### the run -/

/-- **what a run stores**: `P` holds of the operator of every subquery from index `dstStart` on,
    when it holds of "no operator" and of every stored operator of the tree -/
theorem run_new (P : Option Op → Prop) (q : Op → Bool) (hnone : P none)
    (hq : ∀ o, Exact.storedOp o = true → q o = true → P (some o))
    {source : Option Ident} {dstStart : Nat} {dst out : List Subquery} {ops : OpList}
    (h : Run source dstStart dst ops out) :
    opsOpsAll q ops = true → (∀ s ∈ dst.drop dstStart, P s.op) → ∀ s ∈ out.drop dstStart, P s.op := by
  induction h with
  | nil => exact fun _ hd => hd
  | as_ p k name _ ih =>
    intro ht hd
    rw [opsOpsAll, Bool.and_eq_true] at ht
    exact ih ht.2 (forall_drop_snoc hd (hq _ rfl ht.1))
  | plain o ho _ ih =>
    intro ht hd
    rw [opsOpsAll, Bool.and_eq_true, opOpsAll_plain q o ho] at ht
    exact ih ht.2 (forall_drop_snoc hd (hq _ (storedOp_plain o ho) ht.1))
  | sortAttach p k terms init l hdst hk hc hs htk _ ih =>
    intro ht hd; subst hdst
    rw [opsOpsAll, Bool.and_eq_true] at ht
    exact ih ht.2 (forall_drop_last hk hd id)
  | sortChain p k terms _ ih =>
    intro ht hd
    rw [opsOpsAll, Bool.and_eq_true] at ht
    exact ih ht.2 (forall_drop_snoc hd hnone)
  | takeAttach p k n init l hdst hk hc htk _ ih =>
    intro ht hd; subst hdst
    rw [opsOpsAll, Bool.and_eq_true] at ht
    exact ih ht.2 (forall_drop_last hk hd id)
  | takeChain p k n _ ih =>
    intro ht hd
    rw [opsOpsAll, Bool.and_eq_true] at ht
    exact ih ht.2 (forall_drop_snoc hd hnone)
  | topAttach p k n b c init l hdst hk hc hs htk _ ih =>
    intro ht hd; subst hdst
    rw [opsOpsAll, Bool.and_eq_true] at ht
    exact ih ht.2 (forall_drop_last hk hd id)
  | topChain p k n b c _ ih =>
    intro ht hd
    rw [opsOpsAll, Bool.and_eq_true] at ht
    exact ih ht.2 (forall_drop_snoc hd hnone)
  | @join source dstStart dst rest out p k kind ka flavor lp rsource rops rp on conds unique kw cond mid dst'
      hrun hd' _ ih1 ih2 =>
    intro ht hd; subst hd'
    rw [opsOpsAll, Bool.and_eq_true, opOpsAll, tabOpsAll] at ht
    have hmid := ih1 ht.1 (by simp)
    -- `mid` extends `dst`
    obtain ⟨t, ht'⟩ : dst <+: mid := by
      have := (run_grows hrun).1
      rwa [List.take_length] at this
    have hmidk : ∀ s ∈ mid.drop dstStart, P s.op := by
      intro s hs
      rw [← ht'] at hs
      rcases mem_drop_append hs with hs | hs
      · exact hd s hs
      · refine hmid s ?_
        rw [← ht', List.drop_left]; exact hs
    refine ih2 ht.2 (forall_drop_snoc ?_ hnone)
    unfold closeBlock
    split
    · exact forall_drop_snoc hmidk hnone
    · exact hmidk

/-- the same for `splitQueries`, whose new subqueries are those from index `dst.length` on -/
theorem splitQueries_new (P : Option Op → Prop) (q : Op → Bool) (hnone : P none)
    (hq : ∀ o, Exact.storedOp o = true → q o = true → P (some o))
    (src : Bytes) (scope : List (Bytes × List Chunk)) (dst subs : List Subquery) (t : Tabular)
    (ht : tabOpsAll q t = true) (h : splitQueries src scope dst t = .ok subs) :
    dst <+: subs ∧ ∀ s ∈ subs.drop dst.length, P s.op := by
  obtain ⟨source, ops, mid, rfl, hrun, rfl⟩ := splitQueries_run src scope t dst subs h
  rw [tabOpsAll] at ht
  have hpre : dst <+: mid := by
    have := (run_grows hrun).1
    rwa [List.take_length] at this
  refine ⟨hpre.trans (closeBlock_prefix _ _ _), ?_⟩
  have hmid := run_new P q hnone hq hrun ht (by simp)
  unfold closeBlock
  split
  · exact forall_drop_snoc hmid hnone
  · exact hmid

/-! ### item 1a: only stored operators -/

/-- the operator is absent or one of the kinds with a case of their own in the type switch of
    `(*subquery).write` -/
def storedSub (s : Subquery) : Bool :=
  match s.op with
  | none => true
  | some o => Exact.storedOp o

/-- **`splitQueries` never stores sort, take, top or join as a subquery's operator** (any tree, any
    scope, any list to append to): the list it returns extends `dst`, and every subquery it added
    has no operator or a stored one. -/
theorem stored_ops (src : Bytes) (scope : List (Bytes × List Chunk)) (dst subs : List Subquery) (t : Tabular)
    (h : splitQueries src scope dst t = .ok subs) :
    dst <+: subs ∧
    ∀ s ∈ subs.drop dst.length, s.op = none ∨ ∃ o, s.op = some o ∧ Exact.storedOp o = true :=
  splitQueries_new (fun op => op = none ∨ ∃ o, op = some o ∧ Exact.storedOp o = true) (fun _ => true)
    (.inl rfl) (fun o ho _ => .inr ⟨o, rfl, ho⟩) src scope dst subs t (tabOpsAll_true t) h

theorem stored_ops_all (src : Bytes) (scope : List (Bytes × List Chunk)) (subs : List Subquery) (t : Tabular)
    (h : splitQueries src scope [] t = .ok subs) : ∀ s ∈ subs, storedSub s = true := by
  intro s hs
  rcases (stored_ops src scope [] subs t h).2 s (by simpa using hs) with h1 | ⟨o, h1, h2⟩
  · simp [storedSub, h1]
  · simp [storedSub, h1, h2]

/-! ### item 1b: `WriteIR.irOK` -/

/-- what `WriteIR.irOK` asks of a stored operator -/
def irQ : Op → Bool
  | .project _ _ cols => cols.all fun c => c.name.isSome
  | .extend _ _ cols => cols.all fun c => !Exact.isNilExpr c.x
  | .render _ _ chart _ _ props _ => chart.isSome && props.all WriteIR.propOK
  | _ => true

theorem irOK_op (s : Subquery) : WriteIR.irOK s = WriteIR.irOK { name := [], source := [], op := s.op } := rfl

theorem irOK_of_irQ (o : Op) (hs : Exact.storedOp o = true) (hq : irQ o = true) :
    WriteIR.irOK { name := [], source := [], op := some o } = true := by
  cases o <;> first | exact hq | exact hs

/-- every new subquery of a tree whose operators satisfy `irQ` satisfies `WriteIR.irOK` -/
theorem splitQueries_irOK (src : Bytes) (scope : List (Bytes × List Chunk)) (dst subs : List Subquery)
    (t : Tabular) (ht : tabOpsAll irQ t = true) (h : splitQueries src scope dst t = .ok subs) :
    ∀ s ∈ subs.drop dst.length, WriteIR.irOK s = true := by
  intro s hs
  rw [irOK_op]
  exact (splitQueries_new (fun op => WriteIR.irOK { name := [], source := [], op := op } = true) irQ rfl
    irOK_of_irQ src scope dst subs t ht h).2 s hs

/-! ### trees with a token reading satisfy `irQ` -/

theorem projCol_named (c : Column) (us : List UTok) (h : unparseColumn true c = some us) :
    c.name.isSome = true := by
  unfold unparseColumn at h
  split at h
  · next n hn => rw [hn]; rfl
  · simp at h

theorem unparseExpr_not_nil {e : Expr} {us : List UTok} (h : unparseExpr e = some us) :
    Exact.isNilExpr e = false := by
  cases e <;> first | rfl | simp [unparseExpr] at h

theorem extCol_expr (c : Column) (us : List UTok) (h : unparseColumn false c = some us) :
    (!Exact.isNilExpr c.x) = true := by
  unfold unparseColumn at h
  split at h
  · split at h
    · simp only [Option.bind_eq_bind, Option.pure_def, Option.bind_eq_some_iff, Option.some.injEq] at h
      obtain ⟨xs, hx, _⟩ := h
      rw [unparseExpr_not_nil hx]; rfl
    · simp at h
  · split at h
    · cases h
    · rw [unparseExpr_not_nil h]; rfl

theorem prop_ok (p : RenderProp) (us : List UTok) (h : unparseProp p = some us) : WriteIR.propOK p = true := by
  simp only [unparseProp, Option.bind_eq_bind, Option.pure_def, Option.bind_eq_some_iff, Option.some.injEq] at h
  obtain ⟨n, hn, vs, hv, _⟩ := h
  simp only [WriteIR.propOK, hn, Option.isSome_some, Bool.true_and, Bool.not_eq_true']
  cases hval : p.value with
  | qident parts =>
    cases parts with
    | nil => rw [hval] at hv; simp [unparseExpr] at hv
    | cons a as => rfl
  | _ => rfl

mutual
theorem unparse_irQ : ∀ (t : Tabular) (us : List UTok), unparseTabular t = some us → tabOpsAll irQ t = true
  | .nil, _, _ => rfl
  | .mk src ops, us, h => by
    simp only [unparseTabular, Option.bind_eq_bind, Option.pure_def, Option.bind_eq_some_iff,
      Option.some.injEq] at h
    obtain ⟨s, _, os, ho, rfl⟩ := h
    rw [tabOpsAll]
    exact unparseOps_irQ ops os ho
theorem unparseOps_irQ : ∀ (ops : OpList) (us : List UTok), unparseOps ops = some us → opsOpsAll irQ ops = true
  | .nil, _, _ => rfl
  | .cons o os, us, h => by
    simp only [unparseOps, Option.bind_eq_bind, Option.pure_def, Option.bind_eq_some_iff,
      Option.some.injEq] at h
    obtain ⟨a, ha, b, hb, rfl⟩ := h
    rw [opsOpsAll, Bool.and_eq_true]
    exact ⟨unparseOp_irQ o a ha, unparseOps_irQ os b hb⟩
theorem unparseOp_irQ : ∀ (o : Op) (us : List UTok), unparseOp o = some us → opOpsAll irQ o = true
  | .count .., _, _ => rfl
  | .as_ .., _, _ => rfl
  | .where_ .., _, _ => rfl
  | .take .., _, _ => rfl
  | .top .., _, _ => rfl
  | .sort .., _, _ => rfl
  | .summarize .., _, _ => rfl
  | .project p k cs, us, h => by
    simp only [unparseOp, Option.bind_eq_bind, Option.pure_def] at h
    split at h
    · simp at h
    · simp only [Option.bind_eq_some_iff, Option.some.injEq] at h
      obtain ⟨css, hcss, rfl⟩ := h
      simp only [opOpsAll, irQ, List.all_eq_true]
      intro c hc
      obtain ⟨y, _, hy⟩ := ParsedOK.listM_mem _ cs css hcss c hc
      exact projCol_named c y hy
  | .extend p k cs, us, h => by
    simp only [unparseOp, Option.bind_eq_bind, Option.pure_def] at h
    split at h
    · simp at h
    · simp only [Option.bind_eq_some_iff, Option.some.injEq] at h
      obtain ⟨css, hcss, rfl⟩ := h
      simp only [opOpsAll, irQ, List.all_eq_true]
      intro c hc
      obtain ⟨y, _, hy⟩ := ParsedOK.listM_mem _ cs css hcss c hc
      exact extCol_expr c y hy
  | .render p k ch w lp props rp, us, h => by
    simp only [unparseOp, Option.bind_eq_bind, Option.pure_def, Option.bind_eq_some_iff] at h
    obtain ⟨c, hc, pss, hpss, _⟩ := h
    simp only [opOpsAll, irQ, hc, Option.isSome_some, Bool.true_and, List.all_eq_true]
    intro pr hpr
    obtain ⟨y, _, hy⟩ := ParsedOK.listM_mem _ props pss hpss pr hpr
    exact prop_ok pr y hy
  | .join p k kind ka fl lp right rp on conds, us, h => by
    simp only [unparseOp, Option.bind_eq_bind, Option.pure_def, Option.bind_eq_some_iff] at h
    obtain ⟨r, hr, _, _, _⟩ := h
    rw [opOpsAll]
    exact unparse_irQ right r hr
end

/-! ### what an error-free parse gives -/

theorem forall₂_left {α β : Type} {R : α → β → Prop} {l₁ : List α} {l₂ : List β} (h : Forall₂ R l₁ l₂) :
    ∀ a ∈ l₁, ∃ b, R a b := by
  induction h with
  | nil => intro a ha; cases ha
  | cons hab _ ih =>
    intro a ha
    rcases List.mem_cons.mp ha with rfl | ha
    · exact ⟨_, hab⟩
    · exact ih a ha

/-- every tabular statement of an error-free parse satisfies `irQ` throughout -/
theorem parsed_irQ (src : Bytes) (stmts : List Stmt) (h : parse src = (stmts, [])) :
    ∀ t, Stmt.tabular t ∈ stmts → tabOpsAll irQ t = true := by
  intro t ht
  have hp : parseTokens src.length (scan src) = (stmts, []) := h
  obtain ⟨g, us, hus, _⟩ := forall₂_left (parseTokens_acc src.length (scan src) stmts (scan_tokOK src) hp) _ ht
  exact unparse_irQ t us hus

/-- the query the statement loop returns is one of the statements -/
theorem compileStmts_query_mem (src : Bytes) :
    ∀ (stmts : List Stmt) (scope : List (Bytes × List Chunk)) (q : Option Tabular)
      (scope' : List (Bytes × List Chunk)) (t : Tabular),
      compileStmts src stmts scope q = .ok (scope', some t) → q = some t ∨ Stmt.tabular t ∈ stmts
  | [], scope, q, scope', t, h => by
    rw [compileStmts] at h; cases h; exact .inl rfl
  | .tabular t0 :: rest, scope, q, scope', t, h => by
    cases q with
    | some _ => simp only [compileStmts] at h; cases h
    | none =>
      simp only [compileStmts] at h
      rcases compileStmts_query_mem src rest scope (some t0) scope' t h with h1 | h1
      · cases h1; exact .inr List.mem_cons_self
      · exact .inr (List.mem_cons_of_mem _ h1)
  | .let_ kw name asg x :: rest, scope, q, scope', t, h => by
    cases q with
    | some t0 =>
      simp only [compileStmts] at h
      rcases compileStmts_query_mem src rest scope (some t0) scope' t h with h1 | h1
      · exact .inl h1
      · exact .inr (List.mem_cons_of_mem _ h1)
    | none =>
      simp only [compileStmts] at h
      split at h
      · cases h
      · split at h
        · cases h
        · rcases compileStmts_query_mem src rest _ none scope' t h with h1 | h1
          · cases h1
          · exact .inr (List.mem_cons_of_mem _ h1)

end Pql.WriteInv
