/-
`SplitIR.Basic`: the decoded units of the regenerated IR of `splitQueries` / `chainSubquery`
(`Facts.splitIR`), the monad lemmas used to evaluate them, and `chainSubquery`:
the interpretation of its regenerated body is the machine's `chainSubqueryI`.
-/
import PqlModel.Model.SplitIR
namespace Pql.SplitIR
open Pql
set_option linter.unusedSimpArgs false

/-! ### the regenerated units, decoded (a changed Go statement changes one of these) -/

/-- the call `chainSubquery(dst, dstStart, expr.Source)` with its error check -/
def callChain : Stmt := .tryCall "lastSubquery" "chainSubquery" [⟨"dst", ""⟩, ⟨"dstStart", ""⟩, ⟨"expr", "Source"⟩]

/-- `var err error; lastSubquery, err = chainSubquery(…); if err != nil { return nil, err };
    dst = append(dst, lastSubquery)` -/
def chainBlock : List Stmt := [.varErr, callChain, .append "dst" "lastSubquery"]

def chainIR : List Stmt :=
  [.new "sub" true [("name", .subqueryName (.len "dst"))],
   .newBuilder "sb",
   .ite (.intCmp "gt" (.len "dst") (.var "dstStart"))
     [.qidIdx "sb" "dst" "name" (.lenm1 "dst")]
     [.tryDataSource "sb" ⟨"src", ""⟩],
   .setField "sub" "sourceSQL" (.string "sb"),
   .ret "sub"]

def preIR : List Stmt := [.defInt "dstStart" (.len "dst"), .varPtr "lastSubquery"]

def postIR : List Stmt :=
  [.ite (.intCmp "eq" (.len "dst") (.var "dstStart")) chainBlock [], .ret "dst"]

def asIR : List Stmt :=
  [.varErr, callChain,
   .setField "lastSubquery" "name" (.path ⟨"op", "Name.Name"⟩),
   .setField "lastSubquery" "op" (.var "op"),
   .append "dst" "lastSubquery"]

def defaultIR : List Stmt :=
  [.varErr, callChain, .setField "lastSubquery" "op" (.var "op"), .append "dst" "lastSubquery"]

/-- `lastSubquery == nil || !canAttachSort(lastSubquery.op) || lastSubquery.sort != nil || lastSubquery.take != nil` -/
def sortGuard : Cond :=
  .or (.or (.or (.isNil ⟨"lastSubquery", ""⟩) (.notCan ⟨"lastSubquery", "op"⟩)) (.notNil ⟨"lastSubquery", "sort"⟩))
    (.notNil ⟨"lastSubquery", "take"⟩)

/-- `lastSubquery == nil || !canAttachSort(lastSubquery.op) || lastSubquery.take != nil` -/
def takeGuard : Cond :=
  .or (.or (.isNil ⟨"lastSubquery", ""⟩) (.notCan ⟨"lastSubquery", "op"⟩)) (.notNil ⟨"lastSubquery", "take"⟩)

def sortIR : List Stmt :=
  [.ite sortGuard chainBlock [], .setField "lastSubquery" "sort" (.var "op")]

def takeIR : List Stmt :=
  [.ite takeGuard chainBlock [], .setField "lastSubquery" "take" (.var "op")]

def topIR : List Stmt :=
  [.ite sortGuard chainBlock [],
   .setField "lastSubquery" "sort" (.newNode "SortOperator"
     [⟨"Pipe", "path", "op", "Pipe"⟩, ⟨"Keyword", "path", "op", "Keyword"⟩, ⟨"Terms", "list1", "op", "Col"⟩]),
   .setField "lastSubquery" "take" (.newNode "TakeOperator"
     [⟨"Pipe", "path", "op", "Pipe"⟩, ⟨"Keyword", "path", "op", "Keyword"⟩, ⟨"RowCount", "path", "op", "RowCount"⟩])]

/-- the join case up to and including the recursive call -/
def joinHeadIR : List Stmt :=
  [.defInt "leftSubquery" (.lenm1 "dst"),
   .varErr,
   .tryCall "dst" "splitQueries" [⟨"dst", ""⟩, ⟨"source", ""⟩, ⟨"scope", ""⟩, ⟨"op", "Right"⟩]]

/-- the join case after the recursive call -/
def joinTailIR : List Stmt :=
  [.setIdx "lastSubquery" "dst" (.lenm1 "dst"),
   .declStr "flavorName" "innerunique",
   .ite (.notNil ⟨"op", "Flavor"⟩) [.setStr "flavorName" ⟨"op", "Flavor.Name"⟩] [],
   .newBuilder "joinSource",
   .ite (.strEq "flavorName" "innerunique") [.lit "joinSource" "(SELECT DISTINCT * FROM "] [],
   .ite (.intCmp "ge" (.var "leftSubquery") (.var "dstStart"))
     [.qidIdx "joinSource" "dst" "name" (.var "leftSubquery")]
     [.tryDataSource "joinSource" ⟨"expr", "Source"⟩],
   .ite (.strEq "flavorName" "innerunique") [.lit "joinSource" ")"] [],
   .litCat "joinSource" " AS \"" "leftJoinTableAlias" "\"",
   .ite (.or (.strEq "flavorName" "inner") (.strEq "flavorName" "innerunique"))
     [.lit "joinSource" " JOIN "]
     [.ite (.strEq "flavorName" "leftouter") [.lit "joinSource" " LEFT JOIN "] [.retErr]],
   .qidPtr "joinSource" "lastSubquery" "name",
   .litCat "joinSource" " AS \"" "rightJoinTableAlias" "\" ON ",
   .ctx "joinCtx" "source" "scope" "joinExprMode",
   .tryExprJoin "joinCtx" "joinSource" ⟨"op", "Conditions"⟩,
   .new "lastSubquery" false [("name", .subqueryName (.len "dst")), ("sourceSQL", .string "joinSource")],
   .append "dst" "lastSubquery"]

theorem chain_ir : decode (irOf "chainSubquery") = some chainIR := by rfl
theorem pre_ir : decode (irOf "splitQueries:pre") = some preIR := by rfl
theorem post_ir : decode (irOf "splitQueries:post") = some postIR := by rfl
theorem as_ir : decode (irOf "splitQueries:case:AsOperator") = some asIR := by rfl
theorem default_ir : decode (irOf "splitQueries:case:default") = some defaultIR := by rfl
theorem sort_ir : decode (irOf "splitQueries:case:SortOperator") = some sortIR := by rfl
theorem take_ir : decode (irOf "splitQueries:case:TakeOperator") = some takeIR := by rfl
theorem top_ir : decode (irOf "splitQueries:case:TopOperator") = some topIR := by rfl
set_option maxRecDepth 4000 in
theorem join_ir : decode (irOf "splitQueries:case:JoinOperator") = some (joinHeadIR ++ joinTailIR) := by rfl

/-! ### the monads -/

theorem bind_ok {ε α β : Type} (a : α) (f : α → Except ε β) : (Except.ok a : Except ε α) >>= f = f a := rfl
theorem bind_error {ε α β : Type} (e : ε) (f : α → Except ε β) : (Except.error e : Except ε α) >>= f = .error e := rfl
theorem pure_ok {ε α : Type} (a : α) : (pure a : Except ε α) = .ok a := rfl

theorem liftW_bind {α β : Type} (x : Except WErr α) (f : α → Except WErr β) :
    liftW (x >>= f) = liftW x >>= fun a => liftW (f a) := by
  cases x <;> rfl
theorem liftW_ok {α : Type} (a : α) : liftW (Except.ok a : Except WErr α) = .ok a := rfl
theorem liftW_error {α : Type} (e : WErr) : liftW (Except.error e : Except WErr α) = .error (.go e) := rfl
theorem liftW_ite {α : Type} (c : Prop) [Decidable c] (x y : Except WErr α) :
    liftW (if c then x else y) = if c then liftW x else liftW y := by
  split <;> rfl

theorem int_gt_cast (a b : Nat) : ((a : Int) > (b : Int)) ↔ b < a := by omega
theorem int_ge_cast (a b : Nat) : ((a : Int) ≥ (b : Int)) ↔ b ≤ a := by omega

/-- evaluate a block of the IR on a state whose variable list is explicit -/
syntax "ir_simp" (" [" Lean.Parser.Tactic.simpLemma,* "]")? : tactic
macro_rules
  | `(tactic| ir_simp) => `(tactic| ir_simp [])
  | `(tactic| ir_simp [$ls,*]) =>
    `(tactic| simp [bind_ok, bind_error, pure_ok, liftW_bind, liftW_ok, liftW_error, liftW_ite, execBlock, exec,
        mkSub, evalInt, sliceOf, intOf, ptrOf, builderOf, loadPtr, State.get, State.declare, State.set, assignIn, evalCond,
        nilAt, strAt, valAt, srcAt, condsAt, termAt, rowCountAt, modeOf, constOf,
        writeTo, fieldUpdate, State.leave, SplitImp.alloc, SplitImp.deref, int_gt_cast, int_ge_cast, goPanic, stuck, $ls,*])

/-! ### `chainSubquery` -/

/-- **`chainSubquery`**: interpreting the regenerated body on a fresh frame is the machine's
    `chainSubqueryI` (same heap, same pointer, same panic) -/
theorem interpChain_eq (h : SplitImp.Heap) (dst : List SplitImp.Addr) (k : Nat) (s : Option Ident) :
    interpChain h [.slice dst, .int k, .src s] =
      liftW (SplitImp.chainSubqueryI h dst k s) >>= fun r => .ok (r.1, .ptr (some r.2)) := by
  have hb : bindParams "chainSubquery" [.slice dst, .int k, .src s] =
      .ok [("dst", .slice dst), ("dstStart", .int k), ("src", .src s)] := rfl
  unfold interpChain interpUnit SplitImp.chainSubqueryI
  rw [chain_ir, hb]
  by_cases hgt : k < dst.length <;> ir_simp [chainIR, hgt]

end Pql.SplitIR
