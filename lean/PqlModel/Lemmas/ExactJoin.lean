/-
C13 exactness, stage 2 (join conditions): `writeExpr` in join mode on `buildJoinCondition conds`
agrees with `Misuse.badConds` (bare keys are rewritten to `$left.k == $right.k`, which always
translates, and are not expressions to check in the specification).
-/
import PqlModel.Lemmas.ExactExpr
namespace Pql.Exact
open Pql

theorem writeExpr_and (ctx : Ctx) (x y : Expr) (sp : Span) {bx b_y : Bool}
    (hx : Agrees (writeExpr ctx x) bx) (hy : Agrees (writeExpr ctx y) b_y) :
    Agrees (writeExpr ctx (.binary x sp .and_ y)) (bx || b_y) := by
  rw [writeExpr]
  have h1 : ¬ (TokKind.and_ = TokKind.eq) := by decide
  have h2 : ¬ (TokKind.and_ = TokKind.ne) := by decide
  have h3 : ¬ (TokKind.and_ = TokKind.cieq) := by decide
  have h4 : ¬ (TokKind.and_ = TokKind.cine) := by decide
  have h5 : binaryOpText .and_ = some "AND" := by decide
  rw [if_neg h1, if_neg h2, if_neg h3, if_neg h4, h5]
  exact Agrees.bind (Agrees.map _ hx) (fun xs => Agrees.bind_pure _ (Agrees.map _ hy))

/-- the rewritten form of a bare key always translates in join mode -/
theorem bareKey_ok (src : Bytes) (scope : List (Bytes × List Chunk)) (part : Ident) :
    Agrees (writeExpr ⟨src, scope, .join⟩
      (.binary (.qident [⟨leftAlias, .zero, false⟩, part]) .zero .eq (.qident [⟨rightAlias, .zero, false⟩, part])))
      false := by
  have h := writeExpr_agrees ⟨src, scope, .join⟩
    (.binary (.qident [⟨leftAlias, .zero, false⟩, part]) .zero .eq (.qident [⟨rightAlias, .zero, false⟩, part])) rfl
  refine h.of_eq ?_
  show Misuse.badExpr .join _ _ = false
  simp only [Misuse.badExpr]
  rfl

theorem rewrite_agrees (src : Bytes) (scope : List (Bytes × List Chunk)) (c : Expr) (h : opsKnown c = true) :
    Agrees (writeExpr ⟨src, scope, .join⟩ (rewriteSimpleJoinCondition c))
      (!Misuse.isBareKey c && Misuse.badExpr .join (names scope) c) := by
  have hc := writeExpr_agrees ⟨src, scope, .join⟩ c h
  unfold rewriteSimpleJoinCondition Misuse.isBareKey
  split
  · next part =>
    simp only []
    rw [← builtinIdent_isSome]
    cases hq : part.quoted
    · cases hb : (builtinIdent part.name).isSome
      · simp only [Bool.or_self, Bool.false_eq_true, if_false, Bool.not_false, Bool.and_self, Bool.not_true,
          Bool.false_and]
        exact bareKey_ok src scope part
      · simp only [Bool.or_true, if_true, Bool.not_true, Bool.and_false, Bool.not_false, Bool.true_and]
        exact hc
    · simp only [Bool.true_or, if_true, Bool.not_true, Bool.false_and, Bool.not_false, Bool.true_and]
      exact hc
  · next hne =>
    split
    · next p => exact absurd rfl (hne p)
    · simp only [Bool.not_false, Bool.true_and]
      exact hc

theorem go_agrees (src : Bytes) (scope : List (Bytes × List Chunk)) :
    ∀ (ys : ExprList) (x : Expr) (bx : Bool), opsKnownList ys = true →
      Agrees (writeExpr ⟨src, scope, .join⟩ x) bx →
      Agrees (writeExpr ⟨src, scope, .join⟩ (buildJoinCondition.go x ys))
        (bx || Misuse.badConds (names scope) ys)
  | .nil, x, bx, _, hx => by
    rw [buildJoinCondition.go, Misuse.badConds, Bool.or_false]
    exact hx
  | .cons y ys, x, bx, h, hx => by
    rw [opsKnownList, Bool.and_eq_true] at h
    rw [buildJoinCondition.go, Misuse.badConds, ← Bool.or_assoc]
    exact go_agrees src scope ys _ _ h.2 (writeExpr_and _ _ _ _ hx (rewrite_agrees src scope y h.1))

/-- **stage 2**: the join condition translates exactly when no non-bare condition is bad -/
theorem buildJoin_agrees (src : Bytes) (scope : List (Bytes × List Chunk)) (conds : ExprList)
    (h : opsKnownList conds = true) :
    Agrees (writeExpr ⟨src, scope, .join⟩ (buildJoinCondition conds))
      (Misuse.badConds (names scope) conds) := by
  cases conds with
  | nil =>
    rw [buildJoinCondition, Misuse.badConds]
    have h := writeExpr_agrees ⟨src, scope, .join⟩ (.qident [⟨Bytes.ofString "true", .zero, false⟩]) rfl
    refine h.of_eq ?_
    show Misuse.badExpr .join _ _ = false
    have ht : Misuse.isBuiltinConst (Bytes.ofString "true") = true := by decide
    simp only [Misuse.badExpr, ht, Bool.or_true, Bool.not_false, Bool.and_self, if_true]
  | cons c rest =>
    rw [opsKnownList, Bool.and_eq_true] at h
    rw [buildJoinCondition, Misuse.badConds]
    exact go_agrees src scope rest _ _ h.2 (rewrite_agrees src scope c h.1)

end Pql.Exact
