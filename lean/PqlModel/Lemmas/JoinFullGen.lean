/-
C03 / C02, the general statement theorem, helper 8: the block invariant for ARBITRARY tabular
expressions — any number of joins, nested to any depth — by mutual structural induction over
`Tabular` / `OpList` (`gen_tab` / `gen_ops`).
-/
import PqlModel.Lemmas.JoinFullNames
namespace Pql.JoinFull
open Pql Sql CompileOracle Intended SplitQ SelSem C02

theorem lookupTable_append_stable (db : DB) (E more : List (Bytes × Table)) (n : Bytes)
    (h : n ∈ E.map (·.1) ∨ n ∉ more.map (·.1)) : lookupTable db (E ++ more) n = lookupTable db E n := by
  rcases h with h | h
  · exact JoinSem.lookupTable_append_of_mem db E more n h
  · simp only [lookupTable, List.find?_append]
    have : more.find? (·.1 == n) = none := by
      rw [List.find?_eq_none]
      intro x hx hxn
      apply h
      simp only [List.mem_map]
      exact ⟨x, hx, by simpa using hxn⟩
    rw [this]
    simp

theorem opsTablesOf_cons (o : Op) (rest : OpList) (hj : isJoin o = false) :
    C05.opsTablesOf (.cons o rest) = C05.opsTablesOf rest := by
  cases o <;> first | (simp [isJoin] at hj; done) | (simp only [C05.opsTablesOf])

theorem opsHaveSources_cons (o : Op) (rest : OpList) (hj : isJoin o = false) :
    C05.opsHaveSources (.cons o rest) = C05.opsHaveSources rest := by
  cases o <;> first | (simp [isJoin] at hj; done) | (simp only [C05.opsHaveSources])

/-- what an operator list (joins included) does to the block `N` -/
structure GenRes (src : Bytes) (db : DB) (source : Option Ident) (k : Nat) (N N' : List SubA) (ops : OpList) : Prop where
  ne : ops ≠ .nil → N' ≠ []
  len : N.length ≤ N'.length
  names : ∃ extra, N'.map (·.name) = N.map (·.name) ++ extra
  ok : (∀ a ∈ N, linkOk a = true) → opsOkJ (openJoinL N) ops = true → ∀ a ∈ N', linkOk a = true
  sem : ∀ E : List (Bytes × Table), FreshNames E (N'.map (·.name)) → C05.opsHaveSources ops = true →
      (∀ n ∈ C05.opsTablesOf ops, n ∉ E.map (·.1) ++ N'.map (·.name)) →
      (N = [] → identName source ∉ N'.map (·.name)) →
      cur src db E source N' = Rel.interpOps src db (cur src db E source N) ops
  nm : ∀ base later : List Bytes, NamesP (base ++ N.map (·.name)) (k + N.length) →
      NamesQ (asNamesO ops ++ later) (base ++ N.map (·.name)) →
      NamesP (base ++ N'.map (·.name)) (k + N'.length) ∧ NamesQ later (base ++ N'.map (·.name))
  mem : ∀ n ∈ N'.map (·.name), n ∈ N.map (·.name) ∨ isGeneratedName n = true ∨ n ∈ asNamesO ops

/-- what a tabular expression contributes: a non-empty block whose last link is bound to the
    expression's meaning -/
structure TabRes (src : Bytes) (db : DB) (k : Nat) (t : Tabular) (R : List SubA) : Prop where
  ne : R ≠ []
  ok : tabOpsOk t = true → ∀ a ∈ R, linkOk a = true
  sem : ∀ E : List (Bytes × Table), FreshNames E (R.map (·.name)) → C05.hasSources t = true →
      (∀ n ∈ C05.tablesOf t, n ∉ E.map (·.1) ++ R.map (·.name)) →
      lookupTable db (evalLinks src db E R) (JoinSem.lastName R) = Rel.interp src db t
  nm : ∀ base later : List Bytes, NamesP base k → NamesQ (asNamesT t ++ later) base →
      NamesP (base ++ R.map (·.name)) (k + R.length) ∧ NamesQ later (base ++ R.map (·.name))
  mem : ∀ n ∈ R.map (·.name), isGeneratedName n = true ∨ n ∈ asNamesT t

theorem leftOf_eq (flavor : Option Ident) : C05.leftOf flavor = JoinSem.leftOf (JoinSem.kindOf flavor) := by
  cases flavor <;> rfl

theorem uniqueOf_eq (flavor : Option Ident) :
    C05.uniqueOf flavor = (JoinSem.kindOf flavor == Bytes.ofString "innerunique") := by
  cases flavor <;> rfl

theorem subEvalA_bare (src : Bytes) (db : DB) (t : Table) (a : SubA) (h1 : a.op = none) (h2 : a.sort = none)
    (h3 : a.take = none) : subEvalA src db t a = t := by
  simp [subEvalA, subClausesA, opPartA, sortTakeA, h1, h2, h3]

theorem lastName_mem (R : List SubA) (h : R ≠ []) : JoinSem.lastName R ∈ R.map (·.name) := by
  rcases List.eq_nil_or_concat R with rfl | ⟨R0, l, rfl⟩
  · exact absurd rfl h
  · simp [JoinSem.lastName]

theorem prevNameA_mem (source : Option Ident) (N : List SubA) (h : N ≠ []) :
    C05.prevNameA source N ∈ N.map (·.name) := by
  rw [prevNameA_eq_lastName source N h]; exact lastName_mem N h

/-- the join step, semantically: behind the block `N` and the right-hand block `R`, the join link is
    bound to the documented join of what `N` computed and the right-hand pipeline's meaning -/
theorem join_sem (src : Bytes) (db : DB) (E : List (Bytes × Table)) (source : Option Ident) (N R : List SubA)
    (J : SubA) (flavor : Option Ident) (left : Bool) (cond : Expr) (right : Tabular)
    {k : Nat} (hR : TabRes src db k right R)
    (hJs : J.source = .join (C05.uniqueOf flavor) left (C05.prevNameA source N) (JoinSem.lastName R) cond)
    (hJ1 : J.op = none) (hJ2 : J.sort = none) (hJ3 : J.take = none)
    (hl : C05.leftOf flavor = some left)
    (hfr : FreshNames E ((N ++ R ++ [J]).map (·.name)))
    (hsrcs : C05.hasSources right = true)
    (htabs : ∀ n ∈ C05.tablesOf right, n ∉ E.map (·.1) ++ (N ++ R ++ [J]).map (·.name))
    (hsrc : N = [] → identName source ∉ (N ++ R ++ [J]).map (·.name)) :
    cur src db E source (N ++ R ++ [J]) =
      JoinSem.joinTables (JoinSem.kindOf flavor == Bytes.ofString "innerunique")
        (JoinSem.kindOf flavor == Bytes.ofString "leftouter")
        (cur src db E source N) (Rel.interp src db right) cond := by
  rw [cur_snoc src db E source (N ++ R) J hfr]
  have hfrNR : FreshNames E ((N ++ R).map (·.name)) := hfr.init
  have hfrN : FreshNames E (N.map (·.name)) := by rw [List.map_append] at hfrNR; exact hfrNR.prefix
  simp only [linkVal, hJs, srcVal, subEvalA_bare src db _ J hJ1 hJ2 hJ3]
  rw [evalLinks_append]
  obtain ⟨more, hmore⟩ := evalLinks_prefix src db R (evalLinks src db E N)
  have hmoreNames : more.map (·.1) = R.map (·.name) := by
    have h1 := evalLinks_names src db R (evalLinks src db E N)
    rw [hmore, List.map_append] at h1
    exact List.append_cancel_left h1
  -- the left side
  have hleft : lookupTable db (evalLinks src db (evalLinks src db E N) R) (C05.prevNameA source N) =
      cur src db E source N := by
    rw [hmore]
    apply lookupTable_append_stable
    by_cases hN : N = []
    · right
      subst hN
      rw [hmoreNames]
      intro hmem
      apply hsrc rfl
      simp only [List.nil_append, List.map_append, List.mem_append]
      exact .inl hmem
    · left
      rw [evalLinks_names]
      exact List.mem_append_right _ (prevNameA_mem source N hN)
  -- the right side
  have hright : lookupTable db (evalLinks src db (evalLinks src db E N) R) (JoinSem.lastName R) =
      Rel.interp src db right := by
    apply hR.sem _ _ hsrcs
    · intro n hn hmem
      apply htabs n hn
      rw [evalLinks_names] at hmem
      simp only [List.map_append, List.mem_append] at hmem ⊢
      rcases hmem with (h | h) | h
      · exact .inl h
      · exact .inr (.inl (.inl h))
      · exact .inr (.inl (.inr h))
    · rw [List.map_append] at hfrNR
      refine ⟨hfrNR.suffix.1, fun n hn => ?_⟩
      rw [evalLinks_names]
      exact hfrNR.suffix.2 n hn
  rw [hleft, hright, uniqueOf_eq]
  rw [leftOf_eq] at hl
  rw [JoinSem.leftOf_some hl]

theorem linkOk_joinLink (J : SubA) (hs : isJoinSrc J.source = true) (hJ1 : J.op = none) (hJ2 : J.sort = none) :
    linkOk J = true := by
  simp [linkOk, sortOkA, hJ1, hJ2, hs]

mutual
theorem gen_tab (src : Bytes) (db : DB) : ∀ (t : Tabular) (pre out : List SubA), splitA pre t = some out →
    ∃ R, out = pre ++ R ∧ TabRes src db pre.length t R
  | .nil, pre, out, h => by unfold splitA at h; cases h
  | .mk source ops, pre, out, h => by
    unfold splitA at h
    simp only [bind, Option.bind] at h
    cases hq : splitOpsA source pre.length pre ops with
    | none => rw [hq] at h; cases h
    | some mid =>
      rw [hq] at h
      obtain ⟨N', rfl, g⟩ := gen_ops src db ops source pre [] mid (by simpa using hq)
      have hinterp : ∀ E : List (Bytes × Table), C05.hasSources (.mk source ops) = true →
          (∀ n ∈ C05.tablesOf (.mk source ops), n ∉ E.map (·.1)) →
          Rel.interp src db (.mk source ops) = Rel.interpOps src db (cur src db E source []) ops := by
        intro E hs ht
        unfold C05.hasSources at hs
        simp only [Bool.and_eq_true] at hs
        cases source with
        | none => simp at hs
        | some T =>
          rw [JoinSem.interp_mk, cur_nil, identName]
          rw [JoinSem.lookupTable_of_not_mem db E T.name (ht _ (by unfold C05.tablesOf; simp [identName]))]
      by_cases hlen : (pre ++ N').length = pre.length
      · -- nothing was added: the pipeline has no operators, one link `SELECT * FROM source`
        have hnil : N' = [] := by simpa using hlen
        subst hnil
        have hops : ops = .nil := by
          cases ops with
          | nil => rfl
          | cons o r => exact absurd rfl (g.ne (by simp))
        subst hops
        simp only [hlen, ↓reduceIte, pure, Option.some.injEq] at h
        subst h
        refine ⟨[chainA (pre ++ []) pre.length source], by simp, by simp, fun _ => ?_, ?_, ?_, ?_⟩
        · intro a ha
          simp only [List.mem_singleton] at ha
          subst ha
          exact linkOk_chainA _ _ _
        · intro E hfr hs ht
          have hc := C05.chainA_source pre [] source
          have := push_sem src db E source [] _ hc (by simpa using hfr)
          simp only [List.nil_append] at this
          have hl : JoinSem.lastName [chainA (pre ++ []) pre.length source] =
              C05.prevNameA source [chainA (pre ++ []) pre.length source] := by
            simp [JoinSem.lastName, C05.prevNameA]
          rw [hl]
          show cur src db E source [chainA (pre ++ []) pre.length source] = _
          rw [this, subEvalA_bare src db _ _ rfl rfl rfl]
          rw [hinterp E hs (fun n hn hmem => ht n hn (List.mem_append_left _ hmem))]
          rfl
        · intro base later hp hq
          have hq' : NamesQ later base := by simpa [asNamesT, asNamesO] using hq
          have hnm : [chainA (pre ++ []) pre.length source].map (·.name) = [subqueryName pre.length] := by
            simp [chainA]
          rw [hnm]
          exact ⟨namesP_fresh hp, NamesQ.fresh hq' _⟩
        · intro n hn
          left
          simp only [chainA, List.map_cons, List.map_nil, List.mem_singleton] at hn
          rw [hn]; exact isGeneratedName_subqueryName _
      · simp only [hlen, ↓reduceIte, pure, Option.some.injEq] at h
        subst h
        have hne : N' ≠ [] := by
          intro hnil; subst hnil; simp at hlen
        refine ⟨N', rfl, hne, fun hok => ?_, ?_, ?_, ?_⟩
        · unfold tabOpsOk at hok
          exact g.ok (by simp) hok
        · intro E hfr hs ht
          rw [← prevNameA_eq_lastName source N' hne]
          show cur src db E source N' = _
          have hs' := hs
          unfold C05.hasSources at hs'
          simp only [Bool.and_eq_true] at hs'
          have ht' : ∀ n ∈ C05.opsTablesOf ops, n ∉ E.map (·.1) ++ N'.map (·.name) := by
            intro n hn
            apply ht n
            unfold C05.tablesOf
            exact List.mem_cons_of_mem _ hn
          have hsrc : identName source ∉ N'.map (·.name) := by
            intro hmem
            exact ht (identName source) (by unfold C05.tablesOf; simp) (List.mem_append_right _ hmem)
          rw [g.sem E hfr hs'.2 ht' (fun _ => hsrc)]
          rw [hinterp E hs (fun n hn hmem => ht n hn (List.mem_append_left _ hmem))]
        · intro base later hp hq
          exact g.nm base later (by simpa using hp) (by simpa [asNamesT] using hq)
        · intro n hn
          rcases g.mem n hn with h | h | h
          · simp at h
          · exact .inl h
          · right; simpa [asNamesT] using h
theorem gen_ops (src : Bytes) (db : DB) : ∀ (ops : OpList) (source : Option Ident) (pre N out : List SubA),
    splitOpsA source pre.length (pre ++ N) ops = some out →
    ∃ N', out = pre ++ N' ∧ GenRes src db source pre.length N N' ops
  | .nil, source, pre, N, out, h => by
    simp only [splitOpsA, Option.some.injEq] at h
    subst h
    exact ⟨N, rfl, fun h => absurd rfl h, Nat.le_refl _, ⟨[], by simp⟩, fun h _ => h,
      fun E _ _ _ _ => by simp [Rel.interpOps], fun base later hp hq => ⟨hp, by simpa [asNamesO] using hq⟩,
      fun n hn => .inl hn⟩
  | .cons o rest, source, pre, N, out, h => by
    by_cases hj : isJoin o = false
    · rw [JoinSem.splitOpsA_cons _ _ _ _ _ hj] at h
      cases hd : JoinSem.stepA source pre.length (pre ++ N) o with
      | none => simp [hd] at h
      | some d =>
        simp only [hd, Option.bind] at h
        obtain ⟨N1, rfl, s1⟩ := step_res src db source pre N d o hj hd
        obtain ⟨N', rfl, r⟩ := gen_ops src db rest source pre N1 out h
        obtain ⟨ex1, hn1, _⟩ := s1.names
        obtain ⟨ex2, hn2⟩ := r.names
        have hlen1 : N.length ≤ N1.length := by
          have := congrArg List.length hn1
          simp at this; omega
        refine ⟨N', rfl, fun _ hN' => ?_, by have := r.len; omega, ⟨ex1 ++ ex2, by rw [hn2, hn1, List.append_assoc]⟩,
          ?_, ?_, ?_, ?_⟩
        · have hne := s1.ne
          have := r.len
          subst hN'
          cases N1 with
          | nil => exact hne rfl
          | cons => simp at this
        · intro hN hok
          simp only [opsOkJ, Bool.and_eq_true, hj] at hok
          exact r.ok (s1.ok hN hok.1) (by rw [s1.open_]; exact hok.2)
        · intro E hfr hs ht _
          have hfr1 : FreshNames E (N1.map (·.name)) := by rw [hn2] at hfr; exact hfr.prefix
          rw [opsHaveSources_cons o rest hj] at hs
          rw [opsTablesOf_cons o rest hj] at ht
          rw [r.sem E hfr hs ht (fun h => absurd h s1.ne), s1.sem E hfr1, Rel.interpOps]
        · intro base later hp hq
          obtain ⟨hp1, hq1⟩ := step_names s1 hj rest base later hp hq
          exact r.nm base later hp1 hq1
        · intro n hn
          rcases r.mem n hn with h | h | h
          · exact step_names_mem s1 rest n h
          · exact .inr (.inl h)
          · exact .inr (.inr (asNamesO_cons_mem o rest n h))
    · cases o with
      | join p kw kind ka flavor lp right rp on conds =>
        rw [C05.splitOpsA_join] at h
        cases hq : splitA (pre ++ N) right with
        | none => rw [hq] at h; cases h
        | some d =>
          rw [hq] at h
          simp only at h
          obtain ⟨R, rfl, tr⟩ := gen_tab src db right (pre ++ N) d hq
          cases hl : C05.leftOf flavor with
          | none => rw [hl] at h; cases h
          | some left =>
            rw [hl] at h
            simp only at h
            obtain ⟨r, hlast⟩ : ∃ r, R.getLast? = some r := by
              cases hg : R.getLast? with
              | none => exact absurd (List.getLast?_eq_none_iff.mp hg) tr.ne
              | some r => exact ⟨r, rfl⟩
            have hrname : r.name = JoinSem.lastName R := by simp [JoinSem.lastName, hlast]
            rw [C05.joinLeftA_eq, C05.joinRightA_eq (pre ++ N) R r hlast, hrname, List.append_assoc pre N R,
              List.append_assoc pre] at h
            generalize hJdef : SubA.mk (subqueryName (pre ++ (N ++ R)).length)
                (SrcA.join (C05.uniqueOf flavor) left (C05.prevNameA source N) (JoinSem.lastName R)
                  (buildJoinCondition conds)) none none none = J at h
            have hJs : J.source = .join (C05.uniqueOf flavor) left (C05.prevNameA source N) (JoinSem.lastName R)
                (buildJoinCondition conds) := by rw [← hJdef]
            have hJ1 : J.op = none := by rw [← hJdef]
            have hJ2 : J.sort = none := by rw [← hJdef]
            have hJ3 : J.take = none := by rw [← hJdef]
            have hJn : J.name = subqueryName (pre ++ (N ++ R)).length := by rw [← hJdef]
            obtain ⟨N', rfl, g⟩ := gen_ops src db rest source pre (N ++ R ++ [J]) out h
            obtain ⟨ex2, hn2⟩ := g.names
            have hlenJ := g.len
            simp only [List.length_append, List.length_cons, List.length_nil] at hlenJ
            refine ⟨N', rfl, fun _ hN' => ?_, by omega,
              ⟨R.map (·.name) ++ [J.name] ++ ex2, by rw [hn2]; simp⟩, ?_, ?_, ?_, ?_⟩
            · subst hN'; simp at hlenJ
            · intro hN hok
              simp only [opsOkJ, opOkJ, Bool.and_eq_true, isJoin] at hok
              apply g.ok
              · intro a ha
                simp only [List.mem_append, List.mem_singleton] at ha
                rcases ha with (ha | ha) | ha
                · exact hN a ha
                · exact tr.ok hok.1 a ha
                · subst ha; exact linkOk_joinLink _ (by rw [hJs]; rfl) hJ1 hJ2
              · rw [openJoinL_snoc, hJs, hJ2, hJ3]
                exact hok.2
            · intro E hfr hs ht hsrc
              unfold C05.opsHaveSources at hs
              simp only [Bool.and_eq_true] at hs
              unfold C05.opsTablesOf at ht
              have hfrJ : FreshNames E ((N ++ R ++ [J]).map (·.name)) := by
                rw [hn2] at hfr; exact hfr.prefix
              rw [g.sem E hfr hs.2 (fun n hn => ht n (List.mem_append_right _ hn))
                (fun h => absurd h (by simp))]
              rw [Rel.interpOps, JoinSem.interpOp_join]
              congr 1
              apply join_sem src db E source N R J flavor left (buildJoinCondition conds) right tr hJs hJ1 hJ2 hJ3 hl
                hfrJ hs.1
              · intro n hn hmem
                apply ht n (List.mem_append_left _ hn)
                rw [hn2]
                simp only [List.map_append, List.mem_append] at hmem ⊢
                rcases hmem with h | h
                · exact .inl h
                · exact .inr (.inl h)
              · intro hN hmem
                apply hsrc hN
                rw [hn2]
                exact List.mem_append_left _ hmem
            · intro base later hp hq
              simp only [asNamesO, List.append_assoc] at hq
              obtain ⟨hp1, hq1⟩ := tr.nm (base ++ N.map (·.name)) (asNamesO rest ++ later)
                (by simpa using hp) hq
              have hp2 := namesP_fresh hp1
              have hq2 := NamesQ.fresh hq1 ((pre ++ N).length + R.length)
              apply g.nm base later
              · simpa [hJn, Nat.add_assoc] using hp2
              · simpa [hJn, Nat.add_assoc] using hq2
            · intro n hn
              rcases g.mem n hn with h | h | h
              · simp only [List.map_append, List.map_cons, List.map_nil, List.mem_append, List.mem_singleton] at h
                rcases h with (h | h) | h
                · exact .inl h
                · rcases tr.mem n h with h' | h'
                  · exact .inr (.inl h')
                  · right; right; simp only [asNamesO]; exact List.mem_append_left _ h'
                · right; left; rw [h, hJn]; exact isGeneratedName_subqueryName _
              · exact .inr (.inl h)
              · right; right; simp only [asNamesO]; exact List.mem_append_right _ h
      | _ => simp [isJoin] at hj
end

end Pql.JoinFull
