/-
The left spine of an expression tree, as the parser sees it: a head (what `unaryExpr` parses)
followed by segments — `op y` for a binary operator, `in ( vals )` for a membership test —
that `exprBinaryTrail` folds onto the head from left to right.

* `spineHead e`, `spineSegs e`, `foldSegs` with `foldSegs (spineHead e) (spineSegs e) = e`;
* `okSegs m cap segs = some cap'` — `Grammar.okSpine` restated on the segment list;
* `SegsReal segs ts` — `ts` realises the segments;
* `StopsAt m rest` — `rest` does not continue an expression at minimum precedence `m`.
-/
import PqlModel.Lemmas.ForwardSplit
namespace Pql
open Grammar

inductive Seg
  | bin (os : Span) (op : TokKind) (y : Expr)
  | inn (i lp : Span) (vals : ExprList) (rp : Span)

def Seg.apply (x : Expr) : Seg → Expr
  | .bin os op y => .binary x os op y
  | .inn i lp vals rp => .inE x i lp vals rp

def foldSegs (x : Expr) : List Seg → Expr
  | [] => x
  | s :: tl => foldSegs (s.apply x) tl

def spineHead : Expr → Expr
  | .binary x _ _ _ => spineHead x
  | .inE x _ _ _ _ => spineHead x
  | e => e

def spineSegs : Expr → List Seg
  | .binary x os op y => spineSegs x ++ [.bin os op y]
  | .inE x i lp vals rp => spineSegs x ++ [.inn i lp vals rp]
  | _ => []

/-- what `unaryExpr` parses: not a binary operation, not a membership test -/
def isHeadE : Expr → Bool
  | .binary .. | .inE .. => false
  | _ => true

theorem foldSegs_append (x : Expr) (a b : List Seg) : foldSegs x (a ++ b) = foldSegs (foldSegs x a) b := by
  induction a generalizing x with
  | nil => rfl
  | cons s tl ih => simp only [List.cons_append, foldSegs, ih]

theorem fold_spine : (e : Expr) → foldSegs (spineHead e) (spineSegs e) = e
  | .binary x os op y => by
    simp only [spineHead, spineSegs, foldSegs_append, fold_spine x, foldSegs, Seg.apply]
  | .inE x i lp vals rp => by
    simp only [spineHead, spineSegs, foldSegs_append, fold_spine x, foldSegs, Seg.apply]
  | .nil => rfl
  | .qident _ => rfl
  | .lit .. => rfl
  | .unary .. => rfl
  | .paren .. => rfl
  | .call .. => rfl
  | .index .. => rfl

/-! ### the grouping, on segments -/

/-- one segment in a context of minimum precedence `m` behind a spine of cap `cap`; the result is
    the cap for what follows -/
def okSeg (m cap : Int) : Seg → Option Int
  | .bin _ op y =>
    if isBinaryOp op && decide (m ≤ Pql.precOf op) && decide (Pql.precOf op ≤ cap) &&
        (okSpine (Pql.precOf op + 1) y).isSome then some (Pql.precOf op) else none
  | .inn _ _ vals _ =>
    if decide (m ≤ 2) && decide (2 ≤ cap) && decide (vals.length > 0) && okList vals then some inf else none

def okSegs (m : Int) : Int → List Seg → Option Int
  | cap, [] => some cap
  | cap, s :: tl =>
    match okSeg m cap s with
    | some c => okSegs m c tl
    | none => none

theorem okSegs_snoc {m cap c c' : Int} {a : List Seg} {s : Seg} (ha : okSegs m cap a = some c)
    (hs : okSeg m c s = some c') : okSegs m cap (a ++ [s]) = some c' := by
  induction a generalizing cap with
  | nil =>
    simp only [okSegs, Option.some.injEq] at ha
    subst ha
    simp [okSegs, hs]
  | cons s0 tl ih =>
    simp only [okSegs] at ha
    split at ha
    · rename_i c0 h0
      simp only [List.cons_append, okSegs, h0]
      exact ih ha
    · simp at ha

/-- a head has cap `inf` whatever the context -/
theorem okSpine_head {m cap : Int} : ∀ {h : Expr}, isHeadE h = true → okSpine m h = some cap →
    cap = inf ∧ (okSpine 0 h).isSome = true
  | .nil, _, h => by simp [okSpine] at h
  | .qident parts, _, h => by
    simp only [okSpine] at h ⊢
    split at h <;> simp_all
  | .lit _ k _, _, h => by
    simp only [okSpine] at h ⊢
    split at h <;> simp_all
  | .unary _ op x, _, h => by
    simp only [okSpine] at h ⊢
    split at h <;> simp_all
  | .paren _ x _, _, h => by
    simp only [okSpine] at h ⊢
    split at h <;> simp_all
  | .call fn _ args _, _, h => by
    simp only [okSpine] at h ⊢
    split at h <;> simp_all
  | .index x _ idx _, _, h => by
    simp only [okSpine] at h ⊢
    split at h <;> simp_all
  | .binary .., hh, _ => by simp [isHeadE] at hh
  | .inE .., hh, _ => by simp [isHeadE] at hh

theorem spineHead_head {h : Expr} (hh : isHeadE h = true) : spineHead h = h ∧ spineSegs h = [] := by
  cases h <;> simp_all [isHeadE, spineHead, spineSegs]

/-- `okSpine` along the spine -/
theorem ok_spine : (e : Expr) → (m cap : Int) → okSpine m e = some cap →
    isHeadE (spineHead e) = true ∧ (okSpine 0 (spineHead e)).isSome = true ∧
      okSegs m inf (spineSegs e) = some cap
  | .binary x os op y, m, cap, h => by
    obtain ⟨capx, hx, hop, hm, hc, hy, rfl⟩ := okSpine_binary h
    obtain ⟨h1, h2, h3⟩ := ok_spine x m capx hx
    refine ⟨h1, h2, ?_⟩
    simp only [spineSegs]
    refine okSegs_snoc h3 ?_
    simp [okSeg, hop, hm, hc, hy]
  | .inE x i lp vals rp, m, cap, h => by
    obtain ⟨capx, hx, hm, hc, hl, hv, rfl⟩ := okSpine_inE h
    obtain ⟨h1, h2, h3⟩ := ok_spine x m capx hx
    refine ⟨h1, h2, ?_⟩
    simp only [spineSegs]
    refine okSegs_snoc h3 ?_
    simp [okSeg, hm, hc, hl, hv]
  | .nil, _, _, h => by simp [okSpine] at h
  | .qident parts, _, _, h => by
    obtain ⟨rfl, h0⟩ := okSpine_head (h := .qident parts) rfl h
    exact ⟨rfl, h0, rfl⟩
  | .lit a b c, _, _, h => by
    obtain ⟨rfl, h0⟩ := okSpine_head (h := .lit a b c) rfl h
    exact ⟨rfl, h0, rfl⟩
  | .unary a b c, _, _, h => by
    obtain ⟨rfl, h0⟩ := okSpine_head (h := .unary a b c) rfl h
    exact ⟨rfl, h0, rfl⟩
  | .paren a b c, _, _, h => by
    obtain ⟨rfl, h0⟩ := okSpine_head (h := .paren a b c) rfl h
    exact ⟨rfl, h0, rfl⟩
  | .call a b c d, _, _, h => by
    obtain ⟨rfl, h0⟩ := okSpine_head (h := .call a b c d) rfl h
    exact ⟨rfl, h0, rfl⟩
  | .index a b c d, _, _, h => by
    obtain ⟨rfl, h0⟩ := okSpine_head (h := .index a b c d) rfl h
    exact ⟨rfl, h0, rfl⟩

/-! ### the tokens of the segments -/

def SegReal : Seg → List Token → Prop
  | .bin os op y, ts => ∃ t ty, ts = t :: ty ∧ t.kind = op ∧ t.span = os ∧ Real y ty
  | .inn i lp vals rp, ts => ∃ ti tl tv tr, ts = ti :: tl :: (tv ++ [tr]) ∧ ti.kind = .in_ ∧ ti.span = i ∧
      tl.kind = .lparen ∧ tl.span = lp ∧ RealL vals tv ∧ tr.kind = .rparen ∧ tr.span = rp

def SegsReal : List Seg → List Token → Prop
  | [], ts => ts = []
  | s :: tl, ts => ∃ a b, ts = a ++ b ∧ SegReal s a ∧ SegsReal tl b

theorem segsReal_snoc {a : List Seg} {s : Seg} {ta ts : List Token} (ha : SegsReal a ta)
    (hs : SegReal s ts) : SegsReal (a ++ [s]) (ta ++ ts) := by
  induction a generalizing ta with
  | nil =>
    have : ta = [] := ha
    subst this
    exact ⟨ts, [], by simp, hs, rfl⟩
  | cons s0 tl ih =>
    obtain ⟨x, y, rfl, h1, h2⟩ := ha
    exact ⟨x, y ++ ts, by simp, h1, ih h2⟩

/-- the tokens of a tree: those of its head, then those of its segments -/
theorem real_spine : (e : Expr) → (ts : List Token) → Real e ts →
    ∃ th sg, ts = th ++ sg ∧ Real (spineHead e) th ∧ SegsReal (spineSegs e) sg
  | .binary x os op y, ts, h => by
    obtain ⟨tx, t, ty, rfl, hx, hk, hs, hy⟩ := real_binary h
    obtain ⟨th, sg, rfl, h1, h2⟩ := real_spine x tx hx
    exact ⟨th, sg ++ t :: ty, by simp, h1, segsReal_snoc h2 ⟨t, ty, rfl, hk, hs, hy⟩⟩
  | .inE x i lp vals rp, ts, h => by
    obtain ⟨tx, ti, tl, tv, tr, rfl, hx, h3, h4, h5, h6, h7, h8, h9⟩ := real_inE h
    obtain ⟨th, sg, rfl, h1, h2⟩ := real_spine x tx hx
    exact ⟨th, sg ++ ti :: tl :: (tv ++ [tr]), by simp, h1,
      segsReal_snoc h2 ⟨ti, tl, tv, tr, rfl, h3, h4, h5, h6, h7, h8, h9⟩⟩
  | .nil, ts, h => ⟨ts, [], by simp, h, rfl⟩
  | .qident _, ts, h => ⟨ts, [], by simp, h, rfl⟩
  | .lit .., ts, h => ⟨ts, [], by simp, h, rfl⟩
  | .unary .., ts, h => ⟨ts, [], by simp, h, rfl⟩
  | .paren .., ts, h => ⟨ts, [], by simp, h, rfl⟩
  | .call .., ts, h => ⟨ts, [], by simp, h, rfl⟩
  | .index .., ts, h => ⟨ts, [], by simp, h, rfl⟩

/-! ### what may follow -/

/-- a token kind that does not continue an expression at minimum precedence `m`: an operator (or
    `in`) of lower precedence, or a non-operator other than `.`, `(`, `[` -/
def kindStops (m : Int) (k : TokKind) : Bool :=
  if Pql.precOf k < 0 then (k != .dot && k != .lparen && k != .lbracket) else decide (Pql.precOf k < m)

def StopsAt (m : Int) : List Token → Bool
  | [] => true
  | t :: _ => kindStops m t.kind

/-- what may follow a head: anything but `.`, `(`, `[` -/
def HeadStops : List Token → Bool
  | [] => true
  | t :: _ => t.kind != .dot && t.kind != .lparen && t.kind != .lbracket

theorem prec_nonneg_kind {k : TokKind} (h : 0 ≤ Pql.precOf k) :
    k ≠ .dot ∧ k ≠ .lparen ∧ k ≠ .lbracket ∧ k ≠ .comma ∧ Pql.precOf k ≤ 4 := by
  revert h; cases k <;> decide

theorem kindStops_mono {m m' : Int} {k : TokKind} (hm : m ≤ m') (h : kindStops m k = true) :
    kindStops m' k = true := by
  unfold kindStops at h ⊢
  split
  · rename_i hp; rw [if_pos hp] at h; exact h
  · rename_i hp; rw [if_neg hp] at h
    simp only [decide_eq_true_eq] at h ⊢
    omega

theorem stopsAt_mono {m m' : Int} {rest : List Token} (hm : m ≤ m') (h : StopsAt m rest = true) :
    StopsAt m' rest = true := by
  cases rest with
  | nil => rfl
  | cons t r => exact kindStops_mono hm h

theorem stopsAt_headStops {m : Int} {rest : List Token} (h : StopsAt m rest = true) :
    HeadStops rest = true := by
  cases rest with
  | nil => rfl
  | cons t r =>
    simp only [StopsAt, kindStops] at h
    simp only [HeadStops]
    split at h
    · exact h
    · rename_i hp
      have := prec_nonneg_kind (k := t.kind) (by omega)
      simp [this.1, this.2.1, this.2.2.1]

/-- the exit test of `exprBinaryTrail` -/
theorem stopsAt_trail {m : Int} {t : Token} {r : List Token} (h : StopsAt m (t :: r) = true) :
    Pql.precOf t.kind < 0 ∨ Pql.precOf t.kind < m := by
  simp only [StopsAt, kindStops] at h
  split at h
  · rename_i hp; exact Or.inl hp
  · exact Or.inr (by simpa using h)

/-- an operator token of precedence below `m` stops at `m` -/
theorem stopsAt_op {m : Int} {t : Token} {r : List Token} (h0 : 0 ≤ Pql.precOf t.kind)
    (h : Pql.precOf t.kind < m) : StopsAt m (t :: r) = true := by
  simp only [StopsAt, kindStops]
  rw [if_neg (by omega)]
  simpa using h

theorem headStops_op {t : Token} {r : List Token} (h0 : 0 ≤ Pql.precOf t.kind) :
    HeadStops (t :: r) = true := by
  have := prec_nonneg_kind h0
  simp [HeadStops, this.1, this.2.1, this.2.2.1]

/-- the first token of a non-empty segment list is an operator within the bounds -/
theorem segs_first {m cap c : Int} {s : Seg} {tl : List Seg} {sg : List Token}
    (hok : okSegs m cap (s :: tl) = some c) (hr : SegsReal (s :: tl) sg) :
    ∃ t r, sg = t :: r ∧ 0 ≤ Pql.precOf t.kind ∧ m ≤ Pql.precOf t.kind ∧ Pql.precOf t.kind ≤ cap := by
  obtain ⟨a, b, rfl, ha, -⟩ := hr
  simp only [okSegs] at hok
  split at hok
  · rename_i c0 h0
    cases s with
    | bin os op y =>
      obtain ⟨t, ty, rfl, hk, -, -⟩ := ha
      simp only [okSeg] at h0
      split at h0
      · rename_i hc
        simp only [Bool.and_eq_true, decide_eq_true_eq] at hc
        subst hk
        exact ⟨t, ty ++ b, by simp, (isBinaryOp_kind hc.1.1.1).2.2.2.2.2.2, hc.1.1.2, hc.1.2⟩
      · simp at h0
    | inn i lp vals rp =>
      obtain ⟨ti, tl', tv, tr, rfl, hk, -⟩ := ha
      simp only [okSeg] at h0
      split at h0
      · rename_i hc
        simp only [Bool.and_eq_true, decide_eq_true_eq] at hc
        have hp : Pql.precOf ti.kind = 2 := by rw [hk]; decide
        exact ⟨ti, tl' :: (tv ++ [tr]) ++ b, by simp, by omega, by omega, by omega⟩
      · simp at h0
  · simp at hok

/-- what follows the head of a spine -/
theorem headStops_segs {m m' cap c : Int} {segs : List Seg} {sg rest : List Token}
    (hok : okSegs m cap segs = some c) (hr : SegsReal segs sg) (hs : StopsAt m' rest = true) :
    HeadStops (sg ++ rest) = true := by
  cases segs with
  | nil =>
    have : sg = [] := hr
    subst this
    exact stopsAt_headStops hs
  | cons s tl =>
    obtain ⟨t, r, rfl, h0, -, -⟩ := segs_first hok hr
    exact headStops_op h0

/-- what follows the right operand of an operator of precedence `p`: the next segment's operator
    is at most `p`, and `rest` stops at `m ≤ p` -/
theorem stopsAt_after {m p c : Int} {tl : List Seg} {tt rest : List Token}
    (hok : okSegs m p tl = some c) (hr : SegsReal tl tt) (hs : StopsAt m rest = true) (hm : m ≤ p) :
    StopsAt (p + 1) (tt ++ rest) = true := by
  cases tl with
  | nil =>
    have : tt = [] := hr
    subst this
    exact stopsAt_mono (by omega) hs
  | cons s tl' =>
    obtain ⟨t, r, rfl, h0, -, h2⟩ := segs_first hok hr
    exact stopsAt_op h0 (by omega)

end Pql
