/-
When are the names of the links of a join-free pipeline pairwise distinct?  A decidable condition
on the pipeline: the names chosen with `as` are pairwise distinct and none of them looks like a
generated name (`__subquery…`).
-/
import PqlModel.Lemmas.SelSemChain2
import PqlModel.Props.C05
namespace Pql.SelSem
open Pql Sql CompileOracle Intended SplitQ C02

/-- the names chosen with `as`, in pipeline order -/
def asNames : OpList → List Bytes
  | .nil => []
  | .cons (.as_ _ _ name) rest => identName name :: asNames rest
  | .cons _ rest => asNames rest

/-- the `as` names are pairwise distinct and none looks like a generated name -/
def asNamesOk (ops : OpList) : Bool :=
  !hasDup (asNames ops) && (asNames ops).all fun n => !isGeneratedName n

theorem isGeneratedName_subqueryName (i : Nat) : isGeneratedName (subqueryName i) = true := by
  unfold isGeneratedName subqueryName
  simp

theorem hasDup_false_nodup : ∀ (l : List Bytes), hasDup l = false → l.Nodup
  | [], _ => List.nodup_nil
  | x :: xs, h => by
    simp only [hasDup, Bool.or_eq_false_iff] at h
    refine List.nodup_cons.mpr ⟨?_, hasDup_false_nodup xs h.2⟩
    intro hx
    have : xs.contains x = true := List.contains_iff_mem.mpr hx
    rw [this] at h
    exact absurd h.1 (by decide)

theorem attachOr_names (source : Option Ident) (dst : List SubA) (can : SubA → Bool) (f : SubA → SubA)
    (hf : ∀ s, (f s).name = s.name) :
    (attachOr source dst can f).map (·.name) = dst.map (·.name) ++ [subqueryName dst.length] ∨
    ((attachOr source dst can f).map (·.name) = dst.map (·.name) ∧ (attachOr source dst can f).length = dst.length) := by
  rcases attachOr_cases source dst can f with h | ⟨init, l, hd, _, h⟩
  · left; rw [h]; simp [hf, chainA]
  · right; rw [h, hd]; simp [hf]

theorem stepA_names (source : Option Ident) (dst : List SubA) (o : Op) :
    (∃ p k name, o = .as_ p k name ∧ (stepA source dst o).map (·.name) = dst.map (·.name) ++ [identName name]) ∨
    ((∀ p k name, o ≠ .as_ p k name) ∧
      ((stepA source dst o).map (·.name) = dst.map (·.name) ++ [subqueryName dst.length] ∨
       ((stepA source dst o).map (·.name) = dst.map (·.name) ∧ (stepA source dst o).length = dst.length))) := by
  have fresh : ∀ o' : Op, (dst ++ [({ chainA dst 0 source with op := some o' } : SubA)]).map (fun s : SubA => s.name) =
      dst.map (fun s : SubA => s.name) ++ [subqueryName dst.length] := by intro o'; simp [chainA]
  cases o with
  | as_ p k name => left; exact ⟨p, k, name, rfl, by simp [stepA]⟩
  | sort p k terms => right; exact ⟨by intros; simp, attachOr_names source dst _ _ (fun _ => rfl)⟩
  | take p k n => right; exact ⟨by intros; simp, attachOr_names source dst _ _ (fun _ => rfl)⟩
  | top p k n b col =>
    right
    refine ⟨by intros; simp, ?_⟩
    cases col with
    | none => left; exact fresh _
    | some c => exact attachOr_names source dst _ _ (fun _ => rfl)
  | count p k => right; exact ⟨by intros; simp, .inl (fresh _)⟩
  | where_ p k e => right; exact ⟨by intros; simp, .inl (fresh _)⟩
  | project p k cs => right; exact ⟨by intros; simp, .inl (fresh _)⟩
  | extend p k cs => right; exact ⟨by intros; simp, .inl (fresh _)⟩
  | summarize p k cs b gs => right; exact ⟨by intros; simp, .inl (fresh _)⟩
  | render p k ch w lp props rp => right; exact ⟨by intros; simp, .inl (fresh _)⟩
  | join => right; exact ⟨by intros; simp, .inl (fresh _)⟩

/-- names so far: pairwise distinct, and the generated-looking ones are `__subquery{i}`, `i` below the length -/
def NamesP (names : List Bytes) (len : Nat) : Prop :=
  names.Nodup ∧ ∀ n ∈ names, isGeneratedName n = true → ∃ i, i < len ∧ n = subqueryName i

/-- remaining `as` names: pairwise distinct, not generated-looking, not used yet -/
def NamesQ (rest : List Bytes) (names : List Bytes) : Prop :=
  rest.Nodup ∧ ∀ n ∈ rest, isGeneratedName n = false ∧ n ∉ names

theorem namesP_fresh {names : List Bytes} {len : Nat} (h : NamesP names len) :
    NamesP (names ++ [subqueryName len]) (len + 1) := by
  refine ⟨?_, ?_⟩
  · rw [List.nodup_append]
    refine ⟨h.1, by simp, ?_⟩
    intro a ha b hb
    simp only [List.mem_singleton] at hb
    subst hb
    intro hab
    subst hab
    obtain ⟨i, hi, he⟩ := h.2 _ ha (isGeneratedName_subqueryName len)
    have := C05.C05_subqueryName_injective _ _ he
    omega
  · intro n hn hg
    rcases List.mem_append.mp hn with hn | hn
    · obtain ⟨i, hi, he⟩ := h.2 n hn hg
      exact ⟨i, by omega, he⟩
    · simp only [List.mem_singleton] at hn
      exact ⟨len, by omega, hn⟩

theorem splitOpsA_names (source : Option Ident) : ∀ (ops : OpList) (dst out : List SubA),
    joinFree ops = true → splitOpsA source 0 dst ops = some out →
    NamesP (dst.map (·.name)) dst.length → NamesQ (asNames ops) (dst.map (·.name)) →
    NamesP (out.map (·.name)) out.length
  | .nil, dst, out, _, h, hp, _ => by
    simp only [splitOpsA, Option.some.injEq] at h
    subst h; exact hp
  | .cons o rest, dst, out, hjf, h, hp, hq => by
    rw [joinFree_cons] at hjf
    simp only [Bool.and_eq_true, Bool.not_eq_true'] at hjf
    obtain ⟨_, h'⟩ := splitOpsA_cons source dst o rest out hjf.1 h
    apply splitOpsA_names source rest _ out hjf.2 h'
    · -- NamesP after the step
      rcases stepA_names source dst o with ⟨p, k, name, ho, hn⟩ | ⟨_, hn | ⟨hn, hl⟩⟩
      · subst ho
        have hlen : (stepA source dst (.as_ p k name)).length = dst.length + 1 := by simp [stepA]
        rw [hn, hlen]
        simp only [asNames] at hq
        have hx := hq.2 (identName name) (List.mem_cons_self ..)
        refine ⟨?_, ?_⟩
        · rw [List.nodup_append]
          refine ⟨hp.1, by simp, ?_⟩
          intro a ha b hb
          simp only [List.mem_singleton] at hb
          subst hb
          intro hab; subst hab
          exact hx.2 ha
        · intro n hn' hg
          rcases List.mem_append.mp hn' with hn' | hn'
          · obtain ⟨i, hi, he⟩ := hp.2 n hn' hg
            exact ⟨i, by omega, he⟩
          · simp only [List.mem_singleton] at hn'
            subst hn'
            rw [hx.1] at hg; cases hg
      · have hlen : (stepA source dst o).length = dst.length + 1 := by
          have := congrArg List.length hn
          simpa using this
        rw [hn, hlen]
        exact namesP_fresh hp
      · rw [hn, hl]; exact hp
    · -- NamesQ for the rest
      rcases stepA_names source dst o with ⟨p, k, name, ho, hn⟩ | ⟨hno, hn⟩
      · subst ho
        simp only [asNames] at hq
        rw [hn]
        obtain ⟨hnd, hall⟩ := hq
        rw [List.nodup_cons] at hnd
        refine ⟨hnd.2, ?_⟩
        intro n hn'
        have := hall n (List.mem_cons_of_mem _ hn')
        refine ⟨this.1, ?_⟩
        intro hmem
        rcases List.mem_append.mp hmem with hmem | hmem
        · exact this.2 hmem
        · simp only [List.mem_singleton] at hmem
          subst hmem
          exact hnd.1 hn'
      · have has : asNames (.cons o rest) = asNames rest := by
          cases o <;> first | rfl | exact absurd rfl (hno _ _ _)
        rw [has] at hq
        rcases hn with hn | ⟨hn, _⟩
        · rw [hn]
          refine ⟨hq.1, ?_⟩
          intro n hn'
          have := hq.2 n hn'
          refine ⟨this.1, ?_⟩
          intro hmem
          rcases List.mem_append.mp hmem with hmem | hmem
          · exact this.2 hmem
          · simp only [List.mem_singleton] at hmem
            subst hmem
            rw [isGeneratedName_subqueryName] at this
            cases this.1
        · rw [hn]; exact hq

/-- **distinct names from a condition on the pipeline** -/
theorem splitA_names_nodup (source : Option Ident) (ops : OpList) (subs : List SubA)
    (hjf : joinFree ops = true) (hn : asNamesOk ops = true) (h : splitA [] (.mk source ops) = some subs) :
    (subs.map (·.name)).Nodup := by
  simp only [asNamesOk, Bool.and_eq_true, Bool.not_eq_true', List.all_eq_true] at hn
  have hq : NamesQ (asNames ops) [] :=
    ⟨hasDup_false_nodup _ hn.1, fun n hn' => ⟨hn.2 n hn', by simp⟩⟩
  simp only [splitA, bind, Option.bind, List.length_nil] at h
  cases hsp : splitOpsA source 0 [] ops with
  | none => simp [hsp] at h
  | some mid =>
    have hp := splitOpsA_names source ops [] mid hjf hsp ⟨List.nodup_nil, by simp⟩ hq
    simp only [hsp] at h
    by_cases hlen : mid.length = 0
    · have : mid = [] := List.length_eq_zero_iff.mp hlen
      subst this
      simp only [List.length_nil, ↓reduceIte, List.nil_append, pure, Option.some.injEq] at h
      subst h
      simp
    · simp only [hlen, ↓reduceIte, pure, Option.some.injEq] at h
      subst h
      exact hp.1

end Pql.SelSem
