/-
Implicit column names, part 1: the compiler emits THE SAME chunks for a query and for the query with every
unnamed extend / summarize column given its implicit name explicitly (`Rel.nameTabular`: the name the
interpreter of programs fixes before it resolves lets) — whenever it succeeds on the former.

Route (after Lemmas/ParamsBindSplit.lean): the subquery splitter commutes with naming (`nameS` on the
stored operators); `Subquery.write` writes a named subquery like the original one (`columnAlias` slices
the same bytes `Rel.colName` does).
-/
import PqlModel.Lemmas.ParamsBindSplit
import PqlModel.Spec.Rel
import PqlModel.Props.C14Order
namespace Pql.E2EMore
set_option linter.unusedSimpArgs false
open Pql Pql.Params Pql.Rel

/-- name the columns of a subquery's operator -/
def nameS (src : Bytes) (sub : Subquery) : Subquery := { sub with op := sub.op.map (nameOp src) }

section
variable (src : Bytes)

theorem getLast?_nameS (dst : List Subquery) : (dst.map (nameS src)).getLast? = dst.getLast?.map (nameS src) :=
  List.getLast?_map

theorem chainSubquery_name (dst : List Subquery) (ds : Nat) (source : Option Ident) :
    chainSubquery (dst.map (nameS src)) ds source = nameS src (chainSubquery dst ds source) := by
  unfold chainSubquery
  simp only [List.length_map, getLast?_nameS]
  split
  · cases dst.getLast? <;> rfl
  · rfl

theorem chainSubquery_name' (dst : List Subquery) (ds : Nat) (source : Option Ident) :
    chainSubquery (dst.map (nameS src)) ds source = chainSubquery dst ds source := by
  rw [chainSubquery_name]; rfl

theorem lastOf_name (dst : List Subquery) (ds : Nat) :
    lastOf (dst.map (nameS src)) ds = (lastOf dst ds).map (nameS src) := by
  unfold lastOf
  simp only [List.length_map, getLast?_nameS]
  split <;> rfl

theorem setLast_name (dst : List Subquery) (f : Subquery → Subquery)
    (hf : ∀ s, f (nameS src s) = nameS src (f s)) :
    setLast (dst.map (nameS src)) f = (setLast dst f).map (nameS src) := by
  unfold setLast
  rw [← List.map_reverse]
  cases dst.reverse with
  | nil => rfl
  | cons s rest => simp only [List.map_cons, hf, List.map_reverse, List.reverse_cons, List.map_append, List.map_nil]

theorem ite_chain_name (c : Bool) (dst : List Subquery) (ds : Nat) (source : Option Ident) :
    (if c = true then dst.map (nameS src) else dst.map (nameS src) ++ [chainSubquery (dst.map (nameS src)) ds source]) =
      (if c = true then dst else dst ++ [chainSubquery dst ds source]).map (nameS src) := by
  cases c <;> simp [chainSubquery_name]

theorem sortStep_name (c : Bool) (dst : List Subquery) (ds : Nat) (source : Option Ident) (f : Subquery → Subquery)
    (hf : ∀ s, f (nameS src s) = nameS src (f s)) :
    setLast (if c = true then dst.map (nameS src) else dst.map (nameS src) ++ [chainSubquery (dst.map (nameS src)) ds source]) f =
      (setLast (if c = true then dst else dst ++ [chainSubquery dst ds source]) f).map (nameS src) := by
  rw [ite_chain_name, setLast_name src _ f hf]

theorem opTypeName_name (o : Op) : opTypeName (nameOp src o) = opTypeName o := by
  cases o <;> rfl

theorem canAttachSort_name (o : Option Op) : canAttachSort (o.map (nameOp src)) = canAttachSort o := by
  cases o with
  | none => rfl
  | some o => simp only [Option.map_some, canAttachSort, opTypeName_name]

end

mutual
theorem splitQueries_name (src : Bytes) (sc : Scope) :
    (t : Tabular) → (dst : List Subquery) →
      splitQueries src sc (dst.map (nameS src)) (nameTabular src t) =
        (splitQueries src sc dst t).map (List.map (nameS src))
  | .nil, dst => by simp only [nameTabular, splitQueries]; rfl
  | .mk source ops, dst => by
    simp only [nameTabular, splitQueries, List.length_map, splitOps_name src sc ops source dst.length dst]
    rw [exbind_map, exmap_bind']
    apply exbind_congr
    intro d
    simp only [List.length_map]
    split
    · simp [pure, Except.pure, exmap_ok, chainSubquery_name]
    · rfl

theorem splitOps_name (src : Bytes) (sc : Scope) :
    (ops : OpList) → (source : Option Ident) → (ds : Nat) → (dst : List Subquery) →
      splitOps src sc source ds (dst.map (nameS src)) (nameOps src ops) =
        (splitOps src sc source ds dst ops).map (List.map (nameS src))
  | .nil, source, ds, dst => by simp only [nameOps, splitOps]; rfl
  | .cons (.as_ a b name) rest, source, ds, dst => by
    simp only [nameOps, nameOp, splitOps]
    rw [← splitOps_name src sc rest source ds]
    simp only [List.map_append, List.map_cons, List.map_nil, chainSubquery_name']
    rfl
  | .cons (.count a b) rest, source, ds, dst => by
    simp only [nameOps, nameOp, splitOps]
    rw [← splitOps_name src sc rest source ds]
    simp only [List.map_append, List.map_cons, List.map_nil, chainSubquery_name']
    rfl
  | .cons (.where_ a b c) rest, source, ds, dst => by
    simp only [nameOps, nameOp, splitOps]
    rw [← splitOps_name src sc rest source ds]
    simp only [List.map_append, List.map_cons, List.map_nil, chainSubquery_name']
    rfl
  | .cons (.project a b c) rest, source, ds, dst => by
    simp only [nameOps, nameOp, splitOps]
    rw [← splitOps_name src sc rest source ds]
    simp only [List.map_append, List.map_cons, List.map_nil, chainSubquery_name']
    rfl
  | .cons (.extend a b c) rest, source, ds, dst => by
    simp only [nameOps, nameOp, splitOps]
    rw [← splitOps_name src sc rest source ds]
    simp only [List.map_append, List.map_cons, List.map_nil, chainSubquery_name']
    rfl
  | .cons (.summarize a b c d e) rest, source, ds, dst => by
    simp only [nameOps, nameOp, splitOps]
    rw [← splitOps_name src sc rest source ds]
    simp only [List.map_append, List.map_cons, List.map_nil, chainSubquery_name']
    rfl
  | .cons (.render a b c d e f g) rest, source, ds, dst => by
    simp only [nameOps, nameOp, splitOps]
    rw [← splitOps_name src sc rest source ds]
    simp only [List.map_append, List.map_cons, List.map_nil, chainSubquery_name']
    rfl
  | .cons (.sort _ _ terms) rest, source, ds, dst => by
    simp only [nameOps, nameOp, splitOps, lastOf_name]
    rw [← splitOps_name src sc rest source ds]
    cases lastOf dst ds <;> simp only [Option.map_some, Option.map_none, nameS, canAttachSort_name] <;> congr 1 <;>
      exact sortStep_name src _ dst ds source _ (fun _ => rfl)
  | .cons (.take _ _ n) rest, source, ds, dst => by
    simp only [nameOps, nameOp, splitOps, lastOf_name]
    rw [← splitOps_name src sc rest source ds]
    cases lastOf dst ds <;> simp only [Option.map_some, Option.map_none, nameS, canAttachSort_name] <;> congr 1 <;>
      exact sortStep_name src _ dst ds source _ (fun _ => rfl)
  | .cons (.top _ _ n _ col) rest, source, ds, dst => by
    simp only [nameOps, nameOp, splitOps, lastOf_name]
    cases col with
    | none => rfl
    | some c =>
      simp only
      rw [← splitOps_name src sc rest source ds]
      cases lastOf dst ds <;> simp only [Option.map_some, Option.map_none, nameS, canAttachSort_name] <;> congr 1 <;>
        exact sortStep_name src _ dst ds source _ (fun _ => rfl)
  | .cons (.join _ _ _ _ flavor _ right _ _ conds) rest, source, ds, dst => by
    simp only [nameOps, nameOp, splitOps, splitQueries_name src sc right dst, List.length_map]
    rw [exbind_map, exmap_bind']
    apply exbind_congr
    intro d
    simp only [List.length_map, getLast?_nameS, List.getElem?_map]
    generalize d[((dst.length : Int) - 1).toNat]? = o
    cases d.getLast? <;> cases o <;> simp only [Option.map_some, Option.map_none, nameS] <;> (
      split
      · rfl
      · rw [exmap_bind']
        apply exbind_congr
        intro cond
        rw [← splitOps_name src sc rest source ds]
        congr 1
        simp [nameS])
end

end Pql.E2EMore
