/-
`Subquery.write` and `writeCtes` commute with substitution (up to parentheses), given that
`writeExpr` does in default mode.
-/
import PqlModel.Lemmas.ScopeProgram
namespace Pql
open CompileOracle

/-! ### `Subquery.write` in two steps (the same code, cut at the join point) -/

/-- one `project` column, as the model writes it -/
def projCol (ctx : Ctx) (c : Column) : W := do
  let x ← match c.x with
    | .nil => writeExpr ctx (.qident (match c.name with | some n => [n] | none => []))
    | x => writeExpr ctx x
  pure (x ++ [.txt " AS ", .qid (identName c.name)])

def bodyOf (ctx : Ctx) (op : Option Op) (source : List Chunk) : Except WErr (Option (List Chunk)) :=
  match op with
  | none => pure (some (.txt "SELECT * FROM " :: source))
  | some (.as_ ..) => pure (some (.txt "SELECT * FROM " :: source))
  | some (.project _ _ cols) => do
    let cs ← cols.mapM (projCol ctx)
    pure (some (.txt "SELECT " :: sepChunks ", " cs ++ .txt " FROM " :: source))
  | some (.extend _ _ cols) => do
    let cs ← writeColumns ctx cols
    pure (some (.txt "SELECT *" :: (cs.flatMap fun c => .txt ", " :: c) ++ .txt " FROM " :: source))
  | some (.summarize _ _ cols _ groupBy) => do
    let gs ← writeColumns ctx groupBy
    let cs ← writeColumns ctx cols
    let gb ← groupBy.mapM fun (c : Column) => writeExpr ctx c.x
    pure (some (.txt "SELECT " :: sepChunks ", " (gs ++ cs) ++ .txt " FROM " :: source ++
      (if groupBy.isEmpty then [] else .txt " GROUP BY " :: sepChunks ", " gb)))
  | some (.where_ _ _ pred) => do
    let p ← writeExpr ctx pred
    pure (some (.txt "SELECT * FROM " :: source ++ .txt " WHERE " :: p))
  | some (.count ..) => pure (some (.txt "SELECT COUNT(*) AS \"count()\" FROM " :: source))
  | some (.render _ _ chart _ _ props _) =>
    pure (some ([.txt "SELECT *,\n", .txt "    ", .qstr (identName chart), .txt " as \"render_type\""] ++
      (props.flatMap fun p =>
        [.txt ",\n    ", .qstr (renderPropValue p.value), .txt " as ",
         .qid (Bytes.ofString "render_prop_" ++ identName p.name)]) ++
      .txt "\nFROM " :: source))
  | some _ => pure none

def tailOf (ctx : Ctx) (sort : Option (List SortTerm)) (take : Option Expr) (body : Option (List Chunk)) : W :=
  match body with
  | none => pure [.txt "SELECT NULL /* unsupported operator */"]
  | some body => do
    let sortPart ← match sort with
      | some terms => do
        let ts ← writeSortTerms ctx terms
        pure (.txt " ORDER BY " :: sepChunks ", " ts)
      | none => pure []
    let takePart ← match take with
      | some n => do
        let x ← writeExpr ctx n
        pure (.txt " LIMIT " :: x)
      | none => pure []
    pure (body ++ sortPart ++ takePart)

theorem write_eq (ctx : Ctx) (sub : Subquery) :
    sub.write ctx = bodyOf ctx sub.op sub.source >>= tailOf ctx sub.sort sub.take := by
  obtain ⟨name, source, op, sort, take⟩ := sub
  rcases op with _ | o
  · rfl
  · cases o <;> first
      | rfl
      | (cases sort <;> cases take <;> simp only [Subquery.write, bodyOf, tailOf, bind_assoc, pure_bind] <;> done)
      | (cases sort <;> cases take <;> simp only [Subquery.write, bodyOf, tailOf, bind_assoc, pure_bind] <;>
          congr 1)

/-! ### relational helpers -/

theorem mapM_rel {α β γ ε : Type} {R : β → γ → Prop} {f : α → Except ε β} {g : α → Except ε γ} (φ : α → α) :
    (l : List α) → (∀ a ∈ l, ExRel R (f a) (g (φ a))) → ExRel (ListRel R) (l.mapM f) ((l.map φ).mapM g)
  | [], _ => ExRel.pure_pure .nil
  | a :: l, h => by
    rw [List.map_cons, List.mapM_cons, List.mapM_cons]
    exact ExRel.bind (h a (List.mem_cons_self)) fun b c hbc =>
      ExRel.bind (mapM_rel φ l fun a' ha' => h a' (List.mem_cons_of_mem _ ha')) fun bs cs hbs =>
        ExRel.pure_pure (.cons hbc hbs)

theorem flatMap_rel {R : List Chunk → List Chunk → Prop} (hR : ChunkCong R) (f : List Chunk → List Chunk)
    (hf : ∀ a b, R a b → R (f a) (f b)) {as bs : List (List Chunk)} (h : ListRel R as bs) :
    R (as.flatMap f) (bs.flatMap f) := by
  induction h with
  | nil => exact hR.refl _
  | cons hab _ ih =>
    simp only [List.flatMap_cons]
    exact hR.append (hf _ _ hab) ih

section
variable {src : Bytes} {sc s0 : Scope} {env : List (Bytes × Expr)}

/-! ### columns -/

theorem substColumn_of_ne_nil (c : Column) (h : c.x ≠ .nil) :
    substColumn env c = { c with x := substExpr env c.x } := by
  obtain ⟨nm, asg, x⟩ := c
  cases x with
  | nil => exact absurd rfl h
  | _ => rfl

/-- `project name` under substitution: the shorthand is resolved like the name itself -/
theorem projExpr_substColumn (c : Column) :
    projExpr (substColumn env c) = substExpr env (projExpr c) ∧ (substColumn env c).name = c.name := by
  obtain ⟨nm, asg, x⟩ := c
  cases x with
  | nil =>
    cases nm with
    | none => exact ⟨by simp only [substColumn, substExpr, projExpr], rfl⟩
    | some n =>
      cases hf : List.find? (fun x => x.fst == n.name) env with
      | none =>
        cases hq : n.quoted <;> simp [substColumn, projExpr, substExpr, hf, hq]
      | some kv =>
        obtain ⟨k, v⟩ := kv
        cases hq : n.quoted <;> simp [substColumn, projExpr, substExpr, hf, hq]
  | qident parts =>
    refine ⟨?_, rfl⟩
    show projExpr { name := nm, assign := asg, x := substExpr env (.qident parts) } = substExpr env (.qident parts)
    match parts with
    | [] => simp only [substExpr, projExpr]
    | _ :: _ :: _ => simp only [substExpr, projExpr]
    | [p] =>
      simp only [substExpr]
      split
      · rfl
      · split <;> rfl
  | lit => exact ⟨by simp only [substColumn, substExpr, projExpr], rfl⟩
  | unary => exact ⟨by simp only [substColumn, substExpr, projExpr], rfl⟩
  | binary => exact ⟨by simp only [substColumn, substExpr, projExpr], rfl⟩
  | inE => exact ⟨by simp only [substColumn, substExpr, projExpr], rfl⟩
  | paren => exact ⟨by simp only [substColumn, substExpr, projExpr], rfl⟩
  | call => exact ⟨by simp only [substColumn, substExpr, projExpr], rfl⟩
  | index => exact ⟨by simp only [substColumn, substExpr, projExpr], rfl⟩

theorem projCol_eq (ctx : Ctx) (c : Column) :
    projCol ctx c = writeExpr ctx (projExpr c) >>= fun x => pure (x ++ [.txt " AS ", .qid (identName c.name)]) := by
  obtain ⟨nm, asg, x⟩ := c
  cases x <;> rfl

theorem projCol_rel (HD : WriteRel src sc s0 env .default) (c : Column) :
    ExRel EqUpToParens (projCol ⟨src, sc, .default⟩ c) (projCol ⟨src, s0, .default⟩ (substColumn env c)) := by
  rw [projCol_eq, projCol_eq, (projExpr_substColumn c).1, (projExpr_substColumn c).2]
  exact ExRel.bind (HD _) fun a b hab => ExRel.pure_pure (EqUpToParens.append hab (.refl _))

theorem columnAlias_named (ctx ctx' : Ctx) (c c' : Column) (hn : c.name.isSome = true) (hc : c'.name = c.name) :
    columnAlias ctx' c' = columnAlias ctx c := by
  unfold columnAlias
  rw [hc]
  cases hnm : c.name with
  | none => rw [hnm] at hn; cases hn
  | some n => rfl

theorem writeColumns_rel (HD : WriteRel src sc s0 env .default) :
    (cs : List Column) → (∀ c ∈ cs, ColNamed c) →
      ExRel (ListRel EqUpToParens) (writeColumns ⟨src, sc, .default⟩ cs)
        (writeColumns ⟨src, s0, .default⟩ (cs.map (substColumn env)))
  | [], _ => by
    simp only [List.map_nil, writeColumns]
    exact .nil
  | c :: cs, h => by
    have hc := h c (List.mem_cons_self)
    simp only [List.map_cons, writeColumns, substColumn_of_ne_nil c hc.2]
    rw [columnAlias_named ⟨src, sc, .default⟩ ⟨src, s0, .default⟩ c { c with x := substExpr env c.x } hc.1 rfl]
    refine ExRel.bind (HD c.x) fun a b hab => ?_
    refine ExRel.bind (ExRel.refl' EqUpToParens.refl _) fun al al' hal => ?_
    refine ExRel.bind (writeColumns_rel HD cs fun c' hc' => h c' (List.mem_cons_of_mem _ hc')) fun r r' hr => ?_
    exact ExRel.pure_pure (.cons (EqUpToParens.append hab hal) hr)

theorem writeSortTerms_rel (HD : WriteRel src sc s0 env .default) :
    (ts : List SortTerm) →
      ExRel (ListRel EqUpToParens) (writeSortTerms ⟨src, sc, .default⟩ ts)
        (writeSortTerms ⟨src, s0, .default⟩ (ts.map (substTerm env)))
  | [] => by
    simp only [List.map_nil, writeSortTerms]
    exact .nil
  | t :: ts => by
    simp only [List.map_cons, writeSortTerms, substTerm]
    refine ExRel.bind (HD t.x) fun a b hab => ?_
    refine ExRel.bind (writeSortTerms_rel HD ts) fun r r' hr => ?_
    exact ExRel.pure_pure (.cons (EqUpToParens.append hab (.refl _)) hr)

/-! ### the two steps -/

theorem bodyOf_rel (HD : WriteRel src sc s0 env .default) {a b : Subquery} (h : SubRel env a b) :
    ExRel (OptRel EqUpToParens) (bodyOf ⟨src, sc, .default⟩ a.op a.source)
      (bodyOf ⟨src, s0, .default⟩ b.op b.source) := by
  obtain ⟨name, source, op, sort, take⟩ := a
  obtain ⟨name', source', op', sort', take'⟩ := b
  obtain ⟨_, hsrc, hop, _, _, hnamed⟩ := h
  dsimp only at hsrc hop hnamed ⊢
  subst hop
  have C := EqUpToParens.cong
  rcases op with _ | o
  · exact ExRel.pure_pure (.some (C.cons _ hsrc))
  · cases o with
    | as_ => exact ExRel.pure_pure (.some (C.cons _ hsrc))
    | count => exact ExRel.pure_pure (.some (C.cons _ hsrc))
    | sort => exact ExRel.pure_pure .none
    | take => exact ExRel.pure_pure .none
    | top => exact ExRel.pure_pure .none
    | join => exact ExRel.pure_pure .none
    | render p kw chart w lp props rp =>
      refine ExRel.pure_pure (.some ?_)
      exact C.append (C.refl _) (C.cons _ hsrc)
    | where_ p kw pred =>
      simp only [Option.map_some, substOp, bodyOf]
      refine ExRel.bind (HD pred) fun x x' hx => ExRel.pure_pure (.some ?_)
      chunk_frame C
    | project p kw cols =>
      simp only [Option.map_some, substOp, bodyOf]
      refine ExRel.bind (mapM_rel (substColumn env) cols fun c _ => projCol_rel HD c) fun cs cs' hcs =>
        ExRel.pure_pure (.some ?_)
      have := C.sepChunks ", " hcs
      chunk_frame C
    | extend p kw cols =>
      simp only [Option.map_some, substOp, bodyOf]
      refine ExRel.bind (writeColumns_rel HD cols hnamed) fun cs cs' hcs => ExRel.pure_pure (.some ?_)
      have := flatMap_rel C (fun c => Chunk.txt ", " :: c) (fun _ _ h => C.cons _ h) hcs
      chunk_frame C
    | summarize p kw cols by_ gs =>
      simp only [Option.map_some, substOp, bodyOf]
      refine ExRel.bind (writeColumns_rel HD gs hnamed.2) fun g g' hg => ?_
      refine ExRel.bind (writeColumns_rel HD cols hnamed.1) fun cs cs' hcs => ?_
      refine ExRel.bind (mapM_rel (R := EqUpToParens) (substColumn env) gs fun c hc => ?_) fun gb gb' hgb =>
        ExRel.pure_pure (.some ?_)
      · rw [substColumn_of_ne_nil c (hnamed.2 c hc).2]
        exact HD c.x
      · have h1 := C.sepChunks ", " (hg.append hcs)
        have h2 := C.sepChunks ", " hgb
        have he : (List.map (substColumn env) gs).isEmpty = gs.isEmpty := by cases gs <;> rfl
        rw [he]
        cases gs.isEmpty
        · simp only [Bool.false_eq_true, if_false]
          chunk_frame C
        · simp only [if_true]
          chunk_frame C

theorem tailOf_rel (HD : WriteRel src sc s0 env .default) {a b : Subquery} (h : SubRel env a b)
    {body body' : Option (List Chunk)} (hb : OptRel EqUpToParens body body') :
    ExRel EqUpToParens (tailOf ⟨src, sc, .default⟩ a.sort a.take body)
      (tailOf ⟨src, s0, .default⟩ b.sort b.take body') := by
  have C := EqUpToParens.cong
  cases hb with
  | none => exact ExRel.pure_pure (.refl _)
  | some hbody =>
    rw [h.sort, h.take]
    cases a.sort with
    | none =>
      cases a.take with
      | none =>
        simp only [tailOf, Option.map_none, pure_bind]
        exact ExRel.pure_pure (C.append (C.append hbody (C.refl _)) (C.refl _))
      | some n =>
        simp only [tailOf, Option.map_none, Option.map_some, pure_bind]
        exact ExRel.bind (HD n) fun x x' hx =>
          ExRel.pure_pure (C.append (C.append hbody (C.refl _)) (C.cons _ hx))
    | some ts =>
      cases a.take with
      | none =>
        simp only [tailOf, Option.map_none, Option.map_some, pure_bind]
        exact ExRel.bind (writeSortTerms_rel HD ts) fun r r' hr =>
          ExRel.pure_pure (C.append (C.append hbody (C.cons _ (C.sepChunks ", " hr))) (C.refl _))
      | some n =>
        simp only [tailOf, Option.map_some, pure_bind]
        exact ExRel.bind (writeSortTerms_rel HD ts) fun r r' hr => ExRel.bind (HD n) fun x x' hx =>
          ExRel.pure_pure (C.append (C.append hbody (C.cons _ (C.sepChunks ", " hr))) (C.cons _ hx))

/-- **`Subquery.write` commutes with substitution.** -/
theorem Subquery_write_rel (HD : WriteRel src sc s0 env .default) {a b : Subquery} (h : SubRel env a b) :
    ExRel EqUpToParens (a.write ⟨src, sc, .default⟩) (b.write ⟨src, s0, .default⟩) := by
  rw [write_eq, write_eq]
  exact ExRel.bind (bodyOf_rel HD h) fun _ _ hb => tailOf_rel HD h hb

theorem writeCtes_rel (HD : WriteRel src sc s0 env .default) {as bs : List Subquery}
    (h : ListRel (SubRel env) as bs) :
    ExRel EqUpToParens (writeCtes ⟨src, sc, .default⟩ as) (writeCtes ⟨src, s0, .default⟩ bs) := by
  have C := EqUpToParens.cong
  induction h with
  | nil => exact ExRel.refl' EqUpToParens.refl _
  | @cons a b as bs hab hrest ih =>
    cases hrest with
    | nil =>
      simp only [writeCtes, hab.name]
      refine ExRel.bind (Subquery_write_rel HD hab) fun x x' hx => ExRel.pure_pure ?_
      chunk_frame C
    | cons hab' hrest' =>
      simp only [writeCtes, hab.name]
      refine ExRel.bind (Subquery_write_rel HD hab) fun x x' hx => ExRel.bind ih fun r r' hr => ExRel.pure_pure ?_
      chunk_frame C

end

end Pql
