/-
C03 semantics, helper 9: the statement of  T | before | join (U | rops) on conds | after.
-/
import PqlModel.Lemmas.JoinSemEval
namespace Pql.JoinSem
open Pql Sql CompileOracle Intended

theorem interpOps_append (src : Bytes) (db : DB) : ∀ (a b : OpList) (t : Table),
    Rel.interpOps src db t (appendOps a b) = Rel.interpOps src db (Rel.interpOps src db t a) b
  | .nil, b, t => by simp [appendOps, Rel.interpOps]
  | .cons o os, b, t => by simp only [appendOps, Rel.interpOps, interpOps_append src db os b]

theorem lastName_append (xs ys : List SubA) (h : ys ≠ []) : lastName (xs ++ ys) = lastName ys := by
  rcases List.eq_nil_or_concat ys with rfl | ⟨pre, y, rfl⟩
  · exact absurd rfl h
  · simp [lastName, ← List.append_assoc]

theorem leftNameOf_nil (T : Ident) (BR : List SubA) : leftNameOf (some T) 0 [] BR = T.name := by
  simp [leftNameOf, identName]

theorem leftNameOf_ne_nil (T : Ident) (B R : List SubA) (h : B ≠ []) :
    leftNameOf (some T) 0 B (B ++ R) = lastName B := by
  have hpos : 0 < B.length := List.length_pos_iff.mpr h
  have h1 : ((B.length : Int) - 1 ≥ ((0 : Nat) : Int)) := by omega
  have h2 : ((B.length : Int) - 1).toNat = B.length - 1 := by omega
  simp only [leftNameOf, h1, ↓reduceIte, h2, lastName]
  rw [List.getElem?_append_left (by omega), List.getLast?_eq_getElem?]

/-- the single link `[J]` as a CTE -/
theorem mapM_single (src : Bytes) (J : SubA) (sels : List (Bytes × Select)) (h : [J].mapM (linkSel src) = some sels) :
    ∃ sel, selOf src J = some sel ∧ sels = [(J.name, sel)] := by
  simp only [List.mapM_cons, List.mapM_nil, linkSel, bind, Option.bind, pure] at h
  cases hs : selOf src J with
  | none => simp [hs] at h
  | some sel =>
    simp only [hs, Option.some.injEq] at h
    exact ⟨sel, rfl, h.symm⟩

theorem nodup_append3 {α} {a b c : List α} (h : (a ++ b ++ c).Nodup) :
    a.Nodup ∧ b.Nodup ∧ c.Nodup ∧ (∀ x ∈ b, x ∉ a) ∧ (∀ x ∈ c, x ∉ a ++ b) := by
  rw [List.nodup_append] at h
  obtain ⟨hab, hc, hd⟩ := h
  rw [List.nodup_append] at hab
  obtain ⟨ha, hb, hd2⟩ := hab
  exact ⟨ha, hb, hc, fun x hx hxa => hd2 x hxa x hx rfl, fun x hx hxab => hd x hxab x hx rfl⟩

/-- the value of the chain up to and including the join link -/
theorem chain_upto_join (src : Bytes) (db : DB) (T U : Ident) (before rops : OpList) (flavor : Option Ident)
    (left : Bool) (conds : ExprList) (B R : List SubA) (selsB selsR selsJ : List (Bytes × Select))
    (hjb : SplitQ.joinFree before = true)
    (hB : splitOpsA (some T) 0 [] before = some B)
    (hBR : splitA B (.mk (some U) rops) = some (B ++ R)) (hRne : R ≠ [])
    (hl : leftOf (kindOf flavor) = some left)
    (hsB : B.mapM (linkSel src) = some selsB) (hsR : R.mapM (linkSel src) = some selsR)
    (hsJ : [joinLink (some T) 0 B (B ++ R) flavor left conds].mapM (linkSel src) = some selsJ)
    (hnd : ((B ++ R ++ [joinLink (some T) 0 B (B ++ R) flavor left conds]).map (·.name)).Nodup)
    (hT : T.name ∉ (B ++ R).map (·.name)) (hU : U.name ∉ B.map (·.name))
    (hR3b : BlockSem src db [] [] T before)
    (hR3r : ∀ ctes0 dst, BlockSem src db ctes0 dst U rops) :
    let J := joinLink (some T) 0 B (B ++ R) flavor left conds
    let cBR := runCtes db (runCtes db [] selsB) selsR
    J.name ∉ cBR.map (·.1) ∧
    runCtes db cBR selsJ = cBR ++ [(J.name,
      joinTables (kindOf flavor == Bytes.ofString "innerunique") (kindOf flavor == Bytes.ofString "leftouter")
        (Rel.interpOps src db (lookupTable db [] T.name) before)
        (Rel.interp src db (.mk (some U) rops)) (buildJoinCondition conds))] := by
  intro J cBR
  simp only [List.map_append, List.map_cons, List.map_nil] at hnd
  obtain ⟨ndB, ndR, _, hRB, hJBR⟩ := nodup_append3 hnd
  have hnB : (runCtes db [] selsB).map (·.1) = B.map (·.name) := by
    rw [runCtes_names, mapM_linkSel_names src _ _ hsB]; rfl
  have hnBR : cBR.map (·.1) = B.map (·.name) ++ R.map (·.name) := by
    rw [runCtes_names, hnB, mapM_linkSel_names src _ _ hsR]
  obtain ⟨more, hmore⟩ := runCtes_prefix db selsR (runCtes db [] selsB)
  -- the left table
  have hleft : lookupTable db cBR (leftNameOf (some T) 0 B (B ++ R)) =
      Rel.interpOps src db (lookupTable db [] T.name) before := by
    cases before with
    | nil =>
      simp only [splitOpsA, Option.some.injEq] at hB
      subst hB
      rw [leftNameOf_nil, lookupTable_of_not_mem]
      · rfl
      · rw [hnBR]; simpa using hT
    | cons o rest =>
      have hpos : 0 < B.length := (run_frame (some T) 0 _ [] B hjb hB (Nat.le_refl _)).2.2 (by simp)
      have hBne : B ≠ [] := List.length_pos_iff.mp hpos
      have hsp : splitA [] (.mk (some T) (.cons o rest)) = some ([] ++ B) :=
        splitA_of_run_nonempty [] B (some T) _ hB hpos
      have := hR3b B selsB hsp hsB ndB (by simp)
      rw [leftNameOf_ne_nil T B R hBne]
      show lookupTable db (runCtes db (runCtes db [] selsB) selsR) (lastName B) = _
      rw [hmore, lookupTable_append_of_mem, this]
      rw [hnB]
      cases hg : B.getLast? with
      | none => simp [List.getLast?_eq_none_iff] at hg; exact absurd hg hBne
      | some x =>
        simp only [lastName, hg, List.mem_map]
        exact ⟨x, List.mem_of_getLast? hg, rfl⟩
  -- the right table
  have hright : lookupTable db cBR (lastName (B ++ R)) = Rel.interp src db (.mk (some U) rops) := by
    rw [lastName_append _ _ hRne, interp_mk]
    have := hR3r (runCtes db [] selsB) B R selsR hBR hsR ndR (by rw [hnB]; exact hRB)
    rw [this, lookupTable_of_not_mem _ _ _ (by rw [hnB]; exact hU)]
  obtain ⟨sel, hsel, rfl⟩ := mapM_single src _ _ hsJ
  refine ⟨by rw [hnBR]; exact hJBR _ (List.mem_singleton.mpr rfl), ?_⟩
  show runCtes db cBR ([] ++ [(J.name, sel)]) = _
  rw [runCtes_snoc]
  simp only [runCtes, List.foldl_nil]
  congr 2
  obtain ⟨c, hc, rfl⟩ := selOf_join src J _ left _ _ _ sel rfl rfl rfl rfl hsel
  rw [evalSelect_join db _ _ left _ _ _ c hc, hleft, hright, leftOf_some hl]

end Pql.JoinSem
