/-
Parameters, part 4: `Subquery.write` and `writeCtes` commute with filling holes.
-/
import PqlModel.Lemmas.ParamsBindSplit
import PqlModel.Lemmas.ScopeUnused
namespace Pql.Params
open Pql

theorem mapM_exmap {α β γ : Type} (g : β → γ) (f : α → Except WErr β) (f' : α → Except WErr γ) (h : ∀ a, f' a = (f a).map g) :
    (l : List α) → l.mapM f' = (l.mapM f).map (List.map g)
  | [] => rfl
  | a :: l => by
    rw [List.mapM_cons, List.mapM_cons, h a, mapM_exmap g f f' h l]
    cases f a <;> cases l.mapM f <;> rfl

section
variable (σ : Bytes → List Chunk) (src : Bytes) (m : Mode) (sc : Scope)

theorem columnAlias_bind (c : Column) :
    columnAlias ⟨src, bindScope σ sc, m⟩ c = (columnAlias ⟨src, sc, m⟩ c).map (bindRaw σ) := by
  unfold columnAlias
  cases c.name with
  | some n => rfl
  | none =>
    simp only
    cases sliceSource src c.x.spanOf <;> rfl

theorem writeColumns_bind : (cs : List Column) →
    writeColumns ⟨src, bindScope σ sc, m⟩ cs = (writeColumns ⟨src, sc, m⟩ cs).map (List.map (bindRaw σ))
  | [] => rfl
  | c :: cs => by
    simp only [writeColumns, writeExpr_bind, columnAlias_bind, writeColumns_bind cs]
    cases writeExpr ⟨src, sc, m⟩ c.x <;> cases columnAlias ⟨src, sc, m⟩ c <;> cases writeColumns ⟨src, sc, m⟩ cs <;>
      simp [Except.map, bind, Except.bind, pure, Except.pure]

theorem writeSortTerms_bind : (ts : List SortTerm) →
    writeSortTerms ⟨src, bindScope σ sc, m⟩ ts = (writeSortTerms ⟨src, sc, m⟩ ts).map (List.map (bindRaw σ))
  | [] => rfl
  | t :: ts => by
    simp only [writeSortTerms, writeExpr_bind, writeSortTerms_bind ts]
    cases writeExpr ⟨src, sc, m⟩ t.x <;> cases writeSortTerms ⟨src, sc, m⟩ ts <;>
      simp [Except.map, bind, Except.bind, pure, Except.pure]

/-- the ORDER BY / LIMIT tail of `Subquery.write` -/
def tailOf (ctx : Ctx) (sort : Option (List SortTerm)) (take : Option Expr) (body : List Chunk) : W := do
  let sortPart ← match sort with
    | some terms => do
      let ts ← writeSortTerms ctx terms
      pure (.txt " ORDER BY " :: sepChunks ", " ts)
    | none => pure []
  let takePart ← match take with
    | some n => do
      let x ← writeExpr ctx n
      pure (.txt " LIMIT " :: x)
    | none => pure []
  pure (body ++ sortPart ++ takePart)

theorem tailOf_bind (sort : Option (List SortTerm)) (take : Option Expr) (body : List Chunk) :
    tailOf ⟨src, bindScope σ sc, m⟩ sort take (bindRaw σ body) = (tailOf ⟨src, sc, m⟩ sort take body).map (bindRaw σ) := by
  unfold tailOf
  cases sort <;> cases take <;> simp only [writeSortTerms_bind, writeExpr_bind]
  · simp [Except.map, bind, Except.bind, pure, Except.pure]
  · rename_i n
    cases writeExpr ⟨src, sc, m⟩ n <;> simp [Except.map, bind, Except.bind, pure, Except.pure]
  · rename_i ts
    cases writeSortTerms ⟨src, sc, m⟩ ts <;> simp [Except.map, bind, Except.bind, pure, Except.pure, sepChunks_bind]
  · rename_i ts n
    cases writeSortTerms ⟨src, sc, m⟩ ts <;> cases writeExpr ⟨src, sc, m⟩ n <;>
      simp [Except.map, bind, Except.bind, pure, Except.pure, sepChunks_bind]

/-- one `project` column: `expr AS "name"` (`project name` stands for `project name = name`) -/
def projCol (ctx : Ctx) (c : Column) : W := do
  let x ← writeExpr ctx (projExpr c)
  pure (x ++ [.txt " AS ", .qid (identName c.name)])

theorem mapM_congr_fun {α β : Type} (G F : α → Except WErr β) (l : List α) (h : ∀ c, F c = G c) :
    l.mapM F = l.mapM G := by
  have : F = G := funext h
  rw [this]

/-- the SELECT … FROM … [WHERE …] [GROUP BY …] part of `Subquery.write`; `none`: unsupported operator -/
def bodyOf (ctx : Ctx) (sub : Subquery) : Except WErr (Option (List Chunk)) :=
  match sub.op with
  | none => pure (some (.txt "SELECT * FROM " :: sub.source))
  | some (.as_ ..) => pure (some (.txt "SELECT * FROM " :: sub.source))
  | some (.project _ _ cols) => do
    let cs ← cols.mapM (projCol ctx)
    pure (some (.txt "SELECT " :: sepChunks ", " cs ++ .txt " FROM " :: sub.source))
  | some (.extend _ _ cols) => do
    let cs ← writeColumns ctx cols
    pure (some (.txt "SELECT *" :: (cs.flatMap fun c => .txt ", " :: c) ++ .txt " FROM " :: sub.source))
  | some (.summarize _ _ cols _ groupBy) => do
    let gs ← writeColumns ctx groupBy
    let cs ← writeColumns ctx cols
    let gb ← groupBy.mapM fun (c : Column) => writeExpr ctx c.x
    pure (some (.txt "SELECT " :: sepChunks ", " (gs ++ cs) ++ .txt " FROM " :: sub.source ++
      (if groupBy.isEmpty then [] else .txt " GROUP BY " :: sepChunks ", " gb)))
  | some (.where_ _ _ pred) => do
    let p ← writeExpr ctx pred
    pure (some (.txt "SELECT * FROM " :: sub.source ++ .txt " WHERE " :: p))
  | some (.count ..) => pure (some (.txt "SELECT COUNT(*) AS \"count()\" FROM " :: sub.source))
  | some (.render _ _ chart _ _ props _) =>
    pure (some ([.txt "SELECT *,\n", .txt "    ", .qstr (identName chart), .txt " as \"render_type\""] ++
      (props.flatMap fun p =>
        [.txt ",\n    ", .qstr (renderPropValue p.value), .txt " as ",
         .qid (Bytes.ofString "render_prop_" ++ identName p.name)]) ++
      .txt "\nFROM " :: sub.source))
  | some _ => pure none

theorem write_eq (ctx : Ctx) (sub : Subquery) :
    sub.write ctx = (bodyOf ctx sub >>= fun body =>
      match body with
      | none => pure [.txt "SELECT NULL /* unsupported operator */"]
      | some body => tailOf ctx sub.sort sub.take body) := by
  obtain ⟨name, source, op, sort, take⟩ := sub
  rcases op with _ | o
  · rfl
  · cases o with
    | project a b cols =>
      simp only [Subquery.write, bodyOf, tailOf, bind_assoc, pure_bind]
      rw [mapM_congr_fun (projCol ctx)]
      · cases sort <;> cases take <;> rfl
      · intro c
        obtain ⟨nm, asg, x⟩ := c
        cases x <;> rfl
    | _ => first | rfl | (simp only [Subquery.write, bodyOf, tailOf, bind_assoc, pure_bind]; cases sort <;> cases take <;> rfl)

theorem renderProps_bind (props : List RenderProp) :
    bindRaw σ (props.flatMap fun p =>
      [Chunk.txt ",\n    ", .qstr (renderPropValue p.value), .txt " as ",
       .qid (Bytes.ofString "render_prop_" ++ identName p.name)]) =
    (props.flatMap fun p =>
      [Chunk.txt ",\n    ", .qstr (renderPropValue p.value), .txt " as ",
       .qid (Bytes.ofString "render_prop_" ++ identName p.name)]) := by
  induction props with
  | nil => rfl
  | cons p ps ih => simp only [List.flatMap_cons, bindRaw_append, ih]; rfl

theorem projCol_bind (c : Column) :
    projCol ⟨src, bindScope σ sc, m⟩ c = (projCol ⟨src, sc, m⟩ c).map (bindRaw σ) := by
  unfold projCol
  rw [writeExpr_bind]
  cases writeExpr ⟨src, sc, m⟩ (projExpr c) <;> simp [Except.map, bind, Except.bind, pure, Except.pure]

theorem bodyOf_bind (sub : Subquery) :
    bodyOf ⟨src, bindScope σ sc, m⟩ (bindS σ sub) = (bodyOf ⟨src, sc, m⟩ sub).map (Option.map (bindRaw σ)) := by
  obtain ⟨name, source, op, sort, take⟩ := sub
  rcases op with _ | o
  · simp [bodyOf, bindS, pure, Except.pure, exmap_ok]
  · cases o with
    | as_ => simp [bodyOf, bindS, pure, Except.pure, exmap_ok]
    | count => simp [bodyOf, bindS, pure, Except.pure, exmap_ok]
    | sort => simp [bodyOf, bindS, pure, Except.pure, exmap_ok]
    | take => simp [bodyOf, bindS, pure, Except.pure, exmap_ok]
    | top => simp [bodyOf, bindS, pure, Except.pure, exmap_ok]
    | join => simp [bodyOf, bindS, pure, Except.pure, exmap_ok]
    | render a b c d e props g =>
      simp [bodyOf, bindS, pure, Except.pure, exmap_ok, renderProps_bind]
    | where_ a b pred =>
      simp only [bodyOf, bindS, writeExpr_bind]
      cases writeExpr ⟨src, sc, m⟩ pred <;> simp [Except.map, bind, Except.bind, pure, Except.pure]
    | extend a b cols =>
      simp only [bodyOf, bindS, writeColumns_bind]
      cases writeColumns ⟨src, sc, m⟩ cols <;>
        simp [Except.map, bind, Except.bind, pure, Except.pure, flatMap_sep_bind]
    | project a b cols =>
      simp only [bodyOf, bindS]
      rw [mapM_exmap (bindRaw σ) (projCol ⟨src, sc, m⟩) _ (projCol_bind σ src m sc) cols]
      cases List.mapM (projCol ⟨src, sc, m⟩) cols <;> simp [Except.map, bind, Except.bind, pure, Except.pure, sepChunks_bind]
    | summarize a b cols d gs =>
      simp only [bodyOf, bindS, writeColumns_bind]
      rw [mapM_exmap (bindRaw σ) (fun (c : Column) => writeExpr ⟨src, sc, m⟩ c.x) _
        (fun c => writeExpr_bind σ src m sc c.x) gs]
      cases writeColumns ⟨src, sc, m⟩ gs <;> cases writeColumns ⟨src, sc, m⟩ cols <;>
        cases List.mapM (fun (c : Column) => writeExpr ⟨src, sc, m⟩ c.x) gs <;>
        simp [Except.map, bind, Except.bind, pure, Except.pure, sepChunks_bind, apply_ite (bindRaw σ)]

/-- **`Subquery.write` commutes with filling holes.** -/
theorem Subquery_write_bind (sub : Subquery) :
    (bindS σ sub).write ⟨src, bindScope σ sc, m⟩ = (sub.write ⟨src, sc, m⟩).map (bindRaw σ) := by
  rw [write_eq, write_eq, bodyOf_bind]
  cases bodyOf ⟨src, sc, m⟩ sub with
  | error e => rfl
  | ok b =>
    cases b with
    | none => rfl
    | some body => exact tailOf_bind σ src m sc sub.sort sub.take body

theorem writeCtes_bind : (subs : List Subquery) →
    writeCtes ⟨src, bindScope σ sc, m⟩ (subs.map (bindS σ)) = (writeCtes ⟨src, sc, m⟩ subs).map (bindRaw σ)
  | [] => rfl
  | [a] => by
    simp only [List.map_cons, List.map_nil, writeCtes, Subquery_write_bind]
    cases a.write ⟨src, sc, m⟩ <;> simp [Except.map, bind, Except.bind, pure, Except.pure, bindS]
  | a :: b :: rest => by
    have ih := writeCtes_bind (b :: rest)
    simp only [List.map_cons] at ih
    simp only [List.map_cons, writeCtes, Subquery_write_bind, ih]
    cases a.write ⟨src, sc, m⟩ <;> cases writeCtes ⟨src, sc, m⟩ (b :: rest) <;>
      simp [Except.map, bind, Except.bind, pure, Except.pure, bindS]

end

end Pql.Params
