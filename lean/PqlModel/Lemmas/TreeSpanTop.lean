/-
`ValIn Q` (see TreeSpanLemmas.lean) for the tabular block (`pTabular` / `pOps` / `pOperator` /
`pJoin`), and the span fields of the statements `pStatement`, `pStatements`, `parseTokens` return.
-/
import PqlModel.Lemmas.TreeSpanOps
namespace Pql

/-- the result of `pOperator`, if any, has span fields inside `Q` -/
def OptTree (Q : Span → Prop) : Option (PRes Op) → Prop
  | none => True
  | some r => ValIn Q (Op.SpansIn Q) r

structure TabTree (Q : Span → Prop) (c : PCtx) (fuel : Nat) : Prop where
  tabular : ∀ ts, ToksQ Q ts → ValIn Q (Tabular.SpansIn Q) (pTabular c fuel ts)
  ops : ∀ ops acc ts, ops.SpansIn Q → ToksQ Q ts →
    ValIn Q (OpList.SpansIn Q) (pOps c fuel ops acc ts)
  operator : ∀ pipe name ts, Q pipe → ToksQ Q (name :: ts) →
    OptTree Q (pOperator c fuel pipe name ts)
  join : ∀ pipe kw ts, Q pipe → Q kw → ToksQ Q ts →
    ValIn Q (Op.SpansIn Q) (pJoin c fuel pipe kw ts)

section
variable {Q : Span → Prop} {c : PCtx}

theorem TabTree.zero : TabTree Q c 0 := by
  constructor <;> intros <;> simp only [pTabular, pOps, pOperator, pJoin, OptTree] <;> tree_leaf

theorem pTabular_tree_step (fuel : Nat) (ih : TabTree Q c fuel) (ts : List Token)
    (ht : ToksQ Q ts) : ValIn Q (Tabular.SpansIn Q) (pTabular c (fuel + 1) ts) := by
  obtain ⟨hiv, hir⟩ := pIdent_tree (c := c) ts ht
  simp only [pTabular]
  split
  · exact ⟨trivial, hir⟩
  · rename_i name hname
    rw [hname] at hiv
    obtain ⟨h1v, h1r⟩ := ih.ops .nil [] (pIdent c ts).rest trivial hir
    refine ⟨?_, h1r⟩
    simp only [Tabular.SpansIn, OptV_some]
    exact ⟨hiv, h1v⟩

theorem pOps_tree_step (fuel : Nat) (ih : TabTree Q c fuel) (ops : OpList) (acc : Errs)
    (ts : List Token) (hops : ops.SpansIn Q) (ht : ToksQ Q ts) :
    ValIn Q (OpList.SpansIn Q) (pOps c (fuel + 1) ops acc ts) := by
  simp only [pOps]
  split
  · exact ⟨hops, by simp⟩
  · rename_i pipeTok rest
    obtain ⟨hpipe, -, hrest⟩ := (ToksQ_cons pipeTok rest).mp ht
    have h1 := hrest.split1 (k := .pipe)
    have h2 := hrest.split2 (k := .pipe)
    split
    · exact ⟨hops, ht⟩
    · split
      · exact ih.ops _ _ _ hops h2
      · rename_i name opToks heq
        rw [heq] at h1
        split
        · exact ih.ops _ _ _ hops h2
        · have hopr := ih.operator pipeTok.span name opToks hpipe h1
          split
          · exact ih.ops _ _ _ hops h2
          · rename_i r hr
            rw [hr] at hopr
            have hopr : ValIn Q (Op.SpansIn Q) r := hopr
            exact ih.ops _ _ _ ((OpList.spansIn_snoc _ _).mpr ⟨hops, hopr.val⟩) h2

theorem pOperator_tree_step (hnull : Q .null) (hzero : Q .zero) (fuel : Nat)
    (ih : TabTree Q c fuel) (pipe : Span) (name : Token) (ts : List Token) (hpipe : Q pipe)
    (hnt : ToksQ Q (name :: ts)) : OptTree Q (pOperator c (fuel + 1) pipe name ts) := by
  obtain ⟨hname, hext, ht⟩ := (ToksQ_cons name ts).mp hnt
  generalize ho : pOperator c (fuel + 1) pipe name ts = o
  rw [pOperator.eq_def] at ho
  dsimp only at ho
  by_cases h1 : (name.value == Bytes.ofString "count") = true
  · rw [if_pos h1] at ho; subst ho
    exact ⟨by simp only [Op.SpansIn]; exact ⟨hpipe, hname⟩, ht⟩
  rw [if_neg h1] at ho
  by_cases h2 : (name.value == Bytes.ofString "where" || name.value == Bytes.ofString "filter") = true
  · rw [if_pos h2] at ho; subst ho
    obtain ⟨hv, hr⟩ := pExpr_tree (c := c) hnull hzero fuel ts ht
    exact ⟨by simp only [Op.SpansIn]; exact ⟨hpipe, hname, hv⟩, hr⟩
  rw [if_neg h2] at ho
  by_cases h3 : (name.value == Bytes.ofString "sort" || name.value == Bytes.ofString "order") = true
  · rw [if_pos h3] at ho
    split at ho
    · subst ho
      exact ⟨by simp only [Op.SpansIn, AllIn_nil, and_true]; exact ⟨hpipe, hname⟩, by simp⟩
    · rename_i by_ rest
      obtain ⟨hby, -, hrest⟩ := (ToksQ_cons by_ rest).mp ht
      split at ho
      · subst ho
        exact ⟨by simp only [Op.SpansIn, AllIn_nil, and_true]; exact ⟨hpipe, hname⟩, hrest⟩
      · subst ho
        obtain ⟨hv, hr⟩ := pSortTerms_tree (c := c) hnull hzero fuel (rest.length + 1) [] rest
          (by simp) hrest
        have hkw : Q ⟨name.span.start, by_.stop⟩ := hext by_ (by simp)
        exact ⟨by simp only [Op.SpansIn]; exact ⟨hpipe, hkw, hv⟩, hr⟩
  rw [if_neg h3] at ho
  by_cases h4 : (name.value == Bytes.ofString "take" || name.value == Bytes.ofString "limit") = true
  · rw [if_pos h4] at ho; subst ho
    obtain ⟨hv, hr⟩ := pRowCount_tree (c := c) hnull hzero fuel ts ht
    exact ⟨by simp only [Op.SpansIn]; exact ⟨hpipe, hname, hv⟩, hr⟩
  rw [if_neg h4] at ho
  by_cases h5 : (name.value == Bytes.ofString "top") = true
  · rw [if_pos h5] at ho
    obtain ⟨hv, hr⟩ := pRowCount_tree (c := c) hnull hzero fuel ts ht
    have hbare : (Op.top pipe name.span (pRowCount c fuel ts).val .null none).SpansIn Q := by
      simp only [Op.SpansIn, OptV_none, and_true]; exact ⟨hpipe, hname, hv, hnull⟩
    split at ho
    · subst ho; exact ⟨hbare, hr⟩
    · split at ho
      · subst ho; exact ⟨hbare, by simp⟩
      · rename_i by_ rest heq
        have hrr := hr
        rw [heq] at hrr
        obtain ⟨hby, -, hrest⟩ := (ToksQ_cons by_ rest).mp hrr
        split at ho
        · subst ho; exact ⟨hbare, hr⟩
        · subst ho
          obtain ⟨hsv, hsr⟩ := pSortTerm_tree (c := c) hnull hzero fuel rest hrest
          exact ⟨by simp only [Op.SpansIn]; exact ⟨hpipe, hname, hv, hby, hsv⟩, hsr⟩
  rw [if_neg h5] at ho
  by_cases h6 : (name.value == Bytes.ofString "project") = true
  · rw [if_pos h6] at ho; subst ho
    obtain ⟨hv, hr⟩ := pProjectCols_tree (c := c) hnull hzero fuel (ts.length + 1) [] ts (by simp) ht
    exact ⟨by simp only [Op.SpansIn]; exact ⟨hpipe, hname, hv⟩, hr⟩
  rw [if_neg h6] at ho
  by_cases h7 : (name.value == Bytes.ofString "extend") = true
  · rw [if_pos h7] at ho; subst ho
    obtain ⟨hv, hr⟩ := pExtendCols_tree (c := c) hnull hzero fuel (ts.length + 1) [] ts (by simp) ht
    exact ⟨by simp only [Op.SpansIn]; exact ⟨hpipe, hname, hv⟩, hr⟩
  rw [if_neg h7] at ho
  by_cases h8 : (name.value == Bytes.ofString "summarize") = true
  · rw [if_pos h8] at ho; subst ho
    exact pSummarize_tree hnull hzero fuel pipe name.span hpipe hname ts ht
  rw [if_neg h8] at ho
  by_cases h9 : (name.value == Bytes.ofString "join") = true
  · rw [if_pos h9] at ho; subst ho
    exact ih.join pipe name.span ts hpipe hname ht
  rw [if_neg h9] at ho
  by_cases h10 : (name.value == Bytes.ofString "as") = true
  · rw [if_pos h10] at ho; subst ho
    obtain ⟨hv, hr⟩ := pIdent_tree (c := c) ts ht
    exact ⟨by simp only [Op.SpansIn]; exact ⟨hpipe, hname, hv⟩, hr⟩
  rw [if_neg h10] at ho
  by_cases h11 : (name.value == Bytes.ofString "render") = true
  · rw [if_pos h11] at ho; subst ho
    exact pRender_tree hnull hzero fuel pipe name.span hpipe hname ts ht
  rw [if_neg h11] at ho
  subst ho; trivial

theorem pJoin_tree_step (hnull : Q .null) (hzero : Q .zero) (fuel : Nat) (ih : TabTree Q c fuel)
    (pipe kw : Span) (ts : List Token) (hpipe : Q pipe) (hkw : Q kw) (ht : ToksQ Q ts) :
    ValIn Q (Op.SpansIn Q) (pJoin c (fuel + 1) pipe kw ts) := by
  -- the shape of every node `pJoin` builds
  have hop : ∀ (kind ka : Span) (fl : Option Ident) (lp : Span) (right : Tabular) (rp on : Span)
      (cs : ExprList), Q kind → Q ka → OptV (IdentIn Q) fl → Q lp → right.SpansIn Q → Q rp → Q on →
      cs.SpansIn Q → (Op.join pipe kw kind ka fl lp right rp on cs).SpansIn Q := by
    intro kind ka fl lp right rp on cs h1 h2 h3 h4 h5 h6 h7 h8
    simp only [Op.SpansIn]
    exact ⟨hpipe, hkw, h1, h2, h3, h4, h5, h6, h7, h8⟩
  have hT : Tabular.nil.SpansIn Q := trivial
  have hE : ExprList.nil.SpansIn Q := trivial
  have hN : OptV (IdentIn Q) none := trivial
  simp only [pJoin]
  split
  · exact ⟨hop _ _ _ _ _ _ _ _ hnull hnull hN hnull hT hnull hnull hE, by simp⟩
  · rename_i t0 rest0
    obtain ⟨ht0, -, hrest0⟩ := (ToksQ_cons t0 rest0).mp ht
    split
    · -- the header already failed
      rename_i r heq
      split at heq
      · split at heq
        · cases heq
          exact ⟨hop _ _ _ _ _ _ _ _ ht0 hnull hN hnull hT hnull hnull hE, by simp⟩
        · rename_i asg rest1
          obtain ⟨hasg, -, hrest1⟩ := (ToksQ_cons asg rest1).mp hrest0
          split at heq
          · cases heq
            exact ⟨hop _ _ _ _ _ _ _ _ ht0 hnull hN hnull hT hnull hnull hE, hrest1⟩
          · split at heq
            · cases heq
              exact ⟨hop _ _ _ _ _ _ _ _ ht0 hasg hN hnull hT hnull hnull hE, by simp⟩
            · rename_i fl rest2
              obtain ⟨hfl, -, hrest2⟩ := (ToksQ_cons fl rest2).mp hrest1
              split at heq
              · cases heq
                exact ⟨hop _ _ _ _ _ _ _ _ ht0 hasg hN hnull hT hnull hnull hE, hrest2⟩
              · cases heq
      · cases heq
    · exact ⟨hop _ _ _ _ _ _ _ _ hnull hnull hN hnull hT hnull hnull hE, ht⟩
    · rename_i kind ka fl e0 rest heq
      have hh : Q kind ∧ Q ka ∧ OptV (IdentIn Q) fl ∧ ToksQ Q rest := by
        split at heq
        · split at heq
          · cases heq
          · rename_i asg rest1
            obtain ⟨hasg, -, hrest1⟩ := (ToksQ_cons asg rest1).mp hrest0
            split at heq
            · cases heq
            · split at heq
              · cases heq
              · rename_i flt rest2
                obtain ⟨hfl, -, hrest2⟩ := (ToksQ_cons flt rest2).mp hrest1
                split at heq
                · cases heq
                · simp only [Sum.inl.injEq, Option.some.injEq, Prod.mk.injEq] at heq
                  obtain ⟨rfl, rfl, rfl, -, rfl⟩ := heq
                  exact ⟨ht0, hasg, hfl, hrest2⟩
        · simp only [Sum.inl.injEq, Option.some.injEq, Prod.mk.injEq] at heq
          obtain ⟨rfl, rfl, rfl, -, rfl⟩ := heq
          exact ⟨hnull, hnull, trivial, ht⟩
      obtain ⟨hkind, hka, hflv, hrest⟩ := hh
      split
      · exact ⟨hop _ _ _ _ _ _ _ _ hkind hka hflv hnull hT hnull hnull hE, by simp⟩
      · rename_i lp rest1
        obtain ⟨hlp, -, hrest1⟩ := (ToksQ_cons lp rest1).mp hrest
        split
        · exact ⟨hop _ _ _ _ _ _ _ _ hkind hka hflv hnull hT hnull hnull hE, hrest1⟩
        · obtain ⟨hrv, hrr⟩ := ih.tabular _ (hrest1.split1 (k := .rparen))
          have h2 := hrest1.split2 (k := .rparen)
          split
          · exact ⟨hop _ _ _ _ _ _ _ _ hkind hka hflv hlp hrv hnull hnull hE, by simp⟩
          · rename_i rp rest2 heq2
            rw [heq2] at h2
            obtain ⟨hrp, -, hrest2⟩ := (ToksQ_cons rp rest2).mp h2
            split
            · exact ⟨hop _ _ _ _ _ _ _ _ hkind hka hflv hlp hrv hnull hnull hE, hrest2⟩
            · split
              · exact ⟨hop _ _ _ _ _ _ _ _ hkind hka hflv hlp hrv hrp hnull hE, by simp⟩
              · rename_i on rest3
                obtain ⟨hon, -, hrest3⟩ := (ToksQ_cons on rest3).mp hrest2
                split
                · exact ⟨hop _ _ _ _ _ _ _ _ hkind hka hflv hlp hrv hrp hnull hE, hrest3⟩
                · obtain ⟨hcv, hcr⟩ := pExprList_tree (c := c) hnull hzero fuel rest3 hrest3
                  exact ⟨hop _ _ _ _ _ _ _ _ hkind hka hflv hlp hrv hrp hon hcv, hcr⟩

theorem tabTree (hnull : Q .null) (hzero : Q .zero) (fuel : Nat) : TabTree Q c fuel := by
  induction fuel with
  | zero => exact TabTree.zero
  | succ fuel ih =>
    exact
      { tabular := pTabular_tree_step fuel ih
        ops := pOps_tree_step fuel ih
        operator := pOperator_tree_step hnull hzero fuel ih
        join := pJoin_tree_step hnull hzero fuel ih }

theorem pTabular_tree (hnull : Q .null) (hzero : Q .zero) (fuel : Nat) (ts : List Token)
    (ht : ToksQ Q ts) : ValIn Q (Tabular.SpansIn Q) (pTabular c fuel ts) :=
  (tabTree hnull hzero fuel).tabular ts ht

/-! ### statements -/

theorem pStatement_tree (hnull : Q .null) (hzero : Q .zero) (ts : List Token) (ht : ToksQ Q ts) :
    OptV (Stmt.SpansIn Q) (pStatement c ts).1 := by
  have hl := pLet_tree (c := c) hnull hzero (fuelFor ts.length) ts ht
  have htab := pTabular_tree (c := c) hnull hzero (fuelFor ts.length) ts ht
  unfold pStatement
  extract_lets fuel rl rt first
  have hfirst : OptV (Stmt.SpansIn Q) first.val := by
    simp only [first]
    split
    · exact hl.val
    · split
      · trivial
      · rename_i t hne
        have := htab.val
        simpa only [OptV_some, Stmt.SpansIn] using this
  split
  · split <;> trivial
  · exact hfirst

theorem pStatements_tree (hnull : Q .null) (hzero : Q .zero) : ∀ (n : Nat) (acc : List Stmt)
    (errs : Errs) (ts : List Token), AllIn (Stmt.SpansIn Q) acc → ToksQ Q ts →
      AllIn (Stmt.SpansIn Q) (pStatements c n acc errs ts).1 := by
  intro n
  induction n with
  | zero => intro acc errs ts ha ht; simp only [pStatements]; exact ha
  | succ n ih =>
    intro acc errs ts ha ht
    have h1 := pStatement_tree (c := c) hnull hzero _ (ht.splitSemi1)
    have h2 := ht.splitSemi2
    simp only [pStatements]
    have hacc : AllIn (Stmt.SpansIn Q) (match (pStatement c (splitSemi ts).1).1 with
        | some s => acc ++ [s]
        | none => acc) := by
      split
      · rename_i s heq
        rw [heq] at h1
        exact (AllIn_append _ _ _).mpr ⟨ha, by simpa using h1⟩
      · exact ha
    split
    · exact hacc
    · rename_i t rest heq
      rw [heq] at h2
      exact ih _ _ _ hacc ((ToksQ_cons t rest).mp h2).2.2

/-- every span field of every statement `Parse` returns on a token list satisfies `Q` -/
theorem parseTokens_tree (srcLen : Nat) (ts : List Token) (hnull : Q .null) (hzero : Q .zero)
    (ht : ToksQ Q ts) : AllIn (Stmt.SpansIn Q) (parseTokens srcLen ts).1 := by
  unfold parseTokens
  exact pStatements_tree (c := ⟨srcLen⟩) hnull hzero _ _ _ _ (by simp) ht

end

end Pql
