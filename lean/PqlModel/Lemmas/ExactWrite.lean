/-
C13 exactness, stage 3a: the well-formedness and span predicates on tabular expressions, and
`Subquery.write` against the misuse verdict of what the subquery stores (operator, sort terms,
row count).
-/
import PqlModel.Lemmas.ExactJoin
namespace Pql.Exact
open Pql

/-! ### well-formedness of trees (what an error-free parse guarantees, and C13 needs) -/

def isNilExpr : Expr → Bool
  | .nil => true
  | _ => false

/-- an extend / summarize column: the expression is present -/
def colWf (c : Column) : Bool := opsKnown c.x && !isNilExpr c.x

def sortTermsWf (ts : List SortTerm) : Bool := ts.all fun t => opsKnown t.x

/-- the join flavour is absent or one of the documented three (the parser reports any other) -/
def flavorOK : Option Ident → Bool
  | none => true
  | some f => isJoinType f.name

mutual
def wfTabular : Tabular → Bool
  | .nil => false
  | .mk _ ops => wfOps ops
def wfOp : Op → Bool
  | .count .. => true
  | .where_ _ _ e => opsKnown e
  | .sort _ _ ts => sortTermsWf ts
  | .take _ _ n => opsKnown n
  | .top _ _ n _ c => opsKnown n && (match c with | some t => opsKnown t.x | none => false)
  | .project _ _ cs => cs.all fun c => opsKnown c.x
  | .extend _ _ cs => cs.all colWf
  | .summarize _ _ cs _ gs => cs.all colWf && gs.all colWf
  | .join _ _ _ _ fl _ right _ _ conds => flavorOK fl && (wfTabular right && opsKnownList conds)
  | .as_ .. => true
  | .render .. => true
def wfOps : OpList → Bool
  | .nil => true
  | .cons o os => wfOp o && wfOps os
end

def wfStmt : Stmt → Bool
  | .let_ _ name _ x => name.isSome && opsKnown x
  | .tabular t => wfTabular t

/-- `sliceSource` does not panic on this span -/
def spanInside (src : Bytes) (sp : Span) : Bool :=
  decide (0 ≤ sp.start ∧ sp.start ≤ sp.stop ∧ sp.stop ≤ (src.length : Int))

/-- an unnamed extend / summarize column takes its name from the source text of its expression -/
def colSpanOK (src : Bytes) (c : Column) : Bool := c.name.isSome || spanInside src c.x.spanOf

mutual
def spansTabular (src : Bytes) : Tabular → Bool
  | .nil => true
  | .mk _ ops => spansOps src ops
def spansOp (src : Bytes) : Op → Bool
  | .extend _ _ cs => cs.all (colSpanOK src)
  | .summarize _ _ cs _ gs => cs.all (colSpanOK src) && gs.all (colSpanOK src)
  | .join _ _ _ _ _ _ right _ _ _ => spansTabular src right
  | _ => true
def spansOps (src : Bytes) : OpList → Bool
  | .nil => true
  | .cons o os => spansOp src o && spansOps src os
end

/-- every unnamed extend / summarize column's expression span lies inside the source -/
def SpansInside (src : Bytes) (stmts : List Stmt) : Bool :=
  stmts.all fun s => match s with
    | .tabular t => spansTabular src t
    | .let_ .. => true

/-! ### small pieces of `write` -/

theorem writeExpr_plain (src : Bytes) (scope : List (Bytes × List Chunk)) (e : Expr) (h : opsKnown e = true) :
    Agrees (writeExpr ⟨src, scope, .default⟩ e) (Misuse.badExpr .plain (names scope) e) :=
  writeExpr_agrees ⟨src, scope, .default⟩ e h

theorem Agrees.mapM {α β : Type} {f : α → Except WErr β} {g : α → Bool} :
    ∀ (l : List α), (∀ a ∈ l, Agrees (f a) (g a)) → Agrees (l.mapM f) (l.any g)
  | [], _ => by rw [List.mapM_nil, List.any_nil]; exact Agrees.pure _
  | a :: l, h => by
    rw [List.mapM_cons, List.any_cons]
    exact Agrees.bind (h a (List.mem_cons_self ..))
      (fun x => Agrees.bind_pure _ (Agrees.mapM l (fun a' ha' => h a' (List.mem_cons_of_mem _ ha'))))

theorem sliceSource_ok (src : Bytes) (sp : Span) (h : spanInside src sp = true) :
    ∃ b, sliceSource src sp = .ok b := by
  unfold spanInside at h
  unfold sliceSource
  rw [if_pos (of_decide_eq_true h)]
  exact ⟨_, rfl⟩

theorem columnAlias_agrees (src : Bytes) (scope : List (Bytes × List Chunk)) (m : Mode) (c : Column)
    (h : colSpanOK src c = true) : Agrees (columnAlias ⟨src, scope, m⟩ c) false := by
  unfold columnAlias
  unfold colSpanOK at h
  cases hn : c.name with
  | some n => exact Agrees.ok _
  | none =>
    rw [hn] at h
    obtain ⟨b, hb⟩ := sliceSource_ok src _ (by simpa using h)
    simp only [hb]
    exact Agrees.ok _

theorem badColumn_of_nonnil (bound : List Bytes) (c : Column) (h : isNilExpr c.x = false) :
    Misuse.badColumn bound c = Misuse.badExpr .plain bound c.x := by
  unfold Misuse.badColumn
  split
  · next hx => rw [hx] at h; cases h
  · rfl

theorem writeColumns_agrees (src : Bytes) (scope : List (Bytes × List Chunk)) :
    ∀ cs : List Column, cs.all colWf = true → cs.all (colSpanOK src) = true →
      Agrees (writeColumns ⟨src, scope, .default⟩ cs) (cs.any (Misuse.badColumn (names scope)))
  | [], _, _ => by rw [writeColumns, List.any_nil]; exact Agrees.ok _
  | c :: cs, hw, hs => by
    rw [List.all_cons, Bool.and_eq_true] at hw hs
    have hc := hw.1
    unfold colWf at hc
    rw [Bool.and_eq_true, Bool.not_eq_true'] at hc
    rw [writeColumns, List.any_cons, badColumn_of_nonnil _ _ hc.2]
    refine Agrees.bind (writeExpr_plain src scope c.x hc.1) (fun x => ?_)
    refine (Agrees.bind (columnAlias_agrees src scope .default c hs.1) (fun a => ?_)).of_eq (Bool.false_or _)
    exact Agrees.bind_pure _ (writeColumns_agrees src scope cs hw.2 hs.2)

def badSortTerms (bound : List Bytes) (ts : List SortTerm) : Bool :=
  ts.any fun t => Misuse.badExpr .plain bound t.x

theorem writeSortTerms_agrees (src : Bytes) (scope : List (Bytes × List Chunk)) :
    ∀ ts : List SortTerm, sortTermsWf ts = true →
      Agrees (writeSortTerms ⟨src, scope, .default⟩ ts) (badSortTerms (names scope) ts)
  | [], _ => by rw [writeSortTerms]; exact Agrees.ok _
  | t :: ts, h => by
    unfold sortTermsWf at h
    rw [List.all_cons, Bool.and_eq_true] at h
    unfold badSortTerms
    rw [writeSortTerms, List.any_cons]
    exact Agrees.bind (writeExpr_plain src scope t.x h.1)
      (fun x => Agrees.bind_pure _ (writeSortTerms_agrees src scope ts h.2))


/-! ### `(*subquery).write`, in two parts -/

/-- one column of `project` -/
def projCol (ctx : Ctx) (c : Column) : W :=
  (match c.x with
    | .nil => writeExpr ctx (.qident (match c.name with | some n => [n] | none => []))
    | x => writeExpr ctx x) >>= fun x =>
  pure (x ++ [.txt " AS ", .qid (identName c.name)])

/-- the part of `write` that depends on the stored operator -/
def bodyW (ctx : Ctx) (sub : Subquery) : Except WErr (Option (List Chunk)) :=
    match sub.op with
    | none => pure (some (.txt "SELECT * FROM " :: sub.source))
    | some (.as_ ..) => pure (some (.txt "SELECT * FROM " :: sub.source))
    | some (.project _ _ cols) =>
      cols.mapM (projCol ctx) >>= fun cs =>
      pure (some (.txt "SELECT " :: sepChunks ", " cs ++ .txt " FROM " :: sub.source))
    | some (.extend _ _ cols) =>
      writeColumns ctx cols >>= fun cs =>
      pure (some (.txt "SELECT *" :: (cs.flatMap fun c => .txt ", " :: c) ++ .txt " FROM " :: sub.source))
    | some (.summarize _ _ cols _ groupBy) =>
      writeColumns ctx groupBy >>= fun gs =>
      writeColumns ctx cols >>= fun cs =>
      (groupBy.mapM fun (c : Column) => writeExpr ctx c.x) >>= fun gb =>
      pure (some (.txt "SELECT " :: sepChunks ", " (gs ++ cs) ++ .txt " FROM " :: sub.source ++
        (if groupBy.isEmpty then [] else .txt " GROUP BY " :: sepChunks ", " gb)))
    | some (.where_ _ _ pred) =>
      writeExpr ctx pred >>= fun p =>
      pure (some (.txt "SELECT * FROM " :: sub.source ++ .txt " WHERE " :: p))
    | some (.count ..) => pure (some (.txt "SELECT COUNT(*) AS \"count()\" FROM " :: sub.source))
    | some (.render _ _ chart _ _ props _) =>
      pure (some ([.txt "SELECT *,\n", .txt "    ", .qstr (identName chart), .txt " as \"render_type\""] ++
        (props.flatMap fun p =>
          [.txt ",\n    ", .qstr (renderPropValue p.value), .txt " as ",
           .qid (Bytes.ofString "render_prop_" ++ identName p.name)]) ++
        .txt "\nFROM " :: sub.source))
    | some _ => pure none

def sortW (ctx : Ctx) : Option (List SortTerm) → W
  | some terms => writeSortTerms ctx terms >>= fun ts => pure (.txt " ORDER BY " :: sepChunks ", " ts)
  | none => pure []

def takeW (ctx : Ctx) : Option Expr → W
  | some n => writeExpr ctx n >>= fun x => pure (.txt " LIMIT " :: x)
  | none => pure []

/-- the sort / row-count part of `write` -/
def tailW (ctx : Ctx) (sub : Subquery) (body : List Chunk) : W :=
  sortW ctx sub.sort >>= fun sortPart =>
  takeW ctx sub.take >>= fun takePart =>
  pure (body ++ sortPart ++ takePart)

theorem projCol_eq (ctx : Ctx) :
    (fun (c : Column) => do
        let x ← match c.x with
          | .nil => writeExpr ctx (.qident (match c.name with | some n => [n] | none => []))
          | x => writeExpr ctx x
        (pure (x ++ [.txt " AS ", .qid (identName c.name)]) : W)) = projCol ctx := by
  funext c
  unfold projCol
  cases c.x <;> rfl

theorem write_eq (ctx : Ctx) (sub : Subquery) :
    sub.write ctx = (bodyW ctx sub >>= fun body =>
      match body with
      | none => pure [.txt "SELECT NULL /* unsupported operator */"]
      | some body => tailW ctx sub body) := by
  obtain ⟨name, source, op, sort, take⟩ := sub
  unfold Subquery.write
  cases op with
  | none =>
    cases sort <;> cases take <;>
      simp only [bodyW, tailW, sortW, takeW, bind_assoc, pure_bind]
  | some o =>
    cases o <;> cases sort <;> cases take <;>
      simp only [bodyW, tailW, sortW, takeW, bind_assoc, pure_bind]
    all_goals
      congr 2
      funext c
      unfold projCol
      cases c.x <;> rfl

/-- the operator kinds `splitQueries` stores in a subquery -/
def storedOp : Op → Bool
  | .as_ .. | .project .. | .extend .. | .summarize .. | .where_ .. | .count .. | .render .. => true
  | _ => false

/-- the invariant of the subqueries `splitQueries` builds from well-formed trees -/
def subOK (src : Bytes) (s : Subquery) : Bool :=
  (match s.op with
   | none => true
   | some o => storedOp o && (wfOp o && spansOp src o)) &&
  ((match s.sort with | none => true | some ts => sortTermsWf ts) &&
   (match s.take with | none => true | some n => opsKnown n))

def badOptOp (bound : List Bytes) : Option Op → Bool
  | none => false
  | some o => Misuse.badOp bound o
def badOptSort (bound : List Bytes) : Option (List SortTerm) → Bool
  | none => false
  | some ts => badSortTerms bound ts
def badOptTake (bound : List Bytes) : Option Expr → Bool
  | none => false
  | some n => Misuse.badExpr .plain bound n

/-- the misuse verdict of what a subquery stores -/
def badSub (bound : List Bytes) (s : Subquery) : Bool :=
  badOptOp bound s.op || (badOptSort bound s.sort || badOptTake bound s.take)

theorem tailW_agrees (src : Bytes) (scope : List (Bytes × List Chunk)) (sub : Subquery) (body : List Chunk)
    (hs : (match sub.sort with | none => true | some ts => sortTermsWf ts) = true)
    (ht : (match sub.take with | none => true | some n => opsKnown n) = true) :
    Agrees (tailW ⟨src, scope, .default⟩ sub body)
      (badOptSort (names scope) sub.sort || badOptTake (names scope) sub.take) := by
  unfold tailW
  refine Agrees.bind (b1 := badOptSort (names scope) sub.sort) ?_ (fun sp => Agrees.bind_pure _ ?_)
  · cases hsort : sub.sort with
    | none => exact Agrees.pure _
    | some ts =>
      rw [hsort] at hs
      exact Agrees.bind_pure _ (writeSortTerms_agrees src scope ts hs)
  · cases htake : sub.take with
    | none => exact Agrees.pure _
    | some n =>
      rw [htake] at ht
      exact Agrees.bind_pure _ (writeExpr_plain src scope n ht)

/-- a result that, when ok, is `some _` -/
def SomeVal {α : Type} (r : Except WErr (Option α)) : Prop := ∀ b, r = .ok b → b.isSome = true

theorem SomeVal.pure {α : Type} (x : α) : SomeVal (Pure.pure (some x) : Except WErr (Option α)) := by
  intro b hb; cases hb; rfl

theorem SomeVal.bind {α β : Type} (r : Except WErr α) (f : α → Except WErr (Option β))
    (h : ∀ x, SomeVal (f x)) : SomeVal (r >>= f) := by
  intro b hb
  cases r with
  | error e => cases hb
  | ok x => exact h x b hb

theorem projectCol_agrees (src : Bytes) (scope : List (Bytes × List Chunk)) (c : Column) (h : opsKnown c.x = true) :
    Agrees (projCol ⟨src, scope, .default⟩ c) (Misuse.badColumn (names scope) c) := by
  unfold projCol
  refine Agrees.bind_pure _ ?_
  unfold Misuse.badColumn
  cases hx : c.x
  case nil =>
    simp only []
    cases hn : c.name with
    | none => exact writeExpr_plain src scope (.qident []) rfl
    | some n => exact writeExpr_plain src scope (.qident [n]) rfl
  all_goals
    simp only []
    rw [hx] at h
    exact writeExpr_plain src scope _ h

theorem any_badColumn_of_wf (bound : List Bytes) (cs : List Column) (h : cs.all colWf = true) :
    cs.any (Misuse.badColumn bound) = cs.any (fun c => Misuse.badExpr .plain bound c.x) := by
  induction cs with
  | nil => rfl
  | cons c cs ih =>
    rw [List.all_cons, Bool.and_eq_true] at h
    have hc := h.1
    unfold colWf at hc
    rw [Bool.and_eq_true, Bool.not_eq_true'] at hc
    rw [List.any_cons, List.any_cons, ih h.2, badColumn_of_nonnil _ _ hc.2]

theorem bodyW_agrees (src : Bytes) (scope : List (Bytes × List Chunk)) (sub : Subquery)
    (h : (match sub.op with
      | none => true
      | some o => storedOp o && (wfOp o && spansOp src o)) = true) :
    Agrees (bodyW ⟨src, scope, .default⟩ sub) (badOptOp (names scope) sub.op) ∧
    SomeVal (bodyW ⟨src, scope, .default⟩ sub) := by
  unfold bodyW
  cases hop : sub.op with
  | none => exact ⟨Agrees.pure _, SomeVal.pure _⟩
  | some o =>
    rw [hop] at h
    simp only [Bool.and_eq_true] at h
    obtain ⟨hst, hwf, hsp⟩ := h
    cases o with
    | as_ p k n => exact ⟨Agrees.pure _, SomeVal.pure _⟩
    | count p k => exact ⟨Agrees.pure _, SomeVal.pure _⟩
    | render p k ch w lp props rp => exact ⟨Agrees.pure _, SomeVal.pure _⟩
    | where_ p k e =>
      rw [wfOp] at hwf
      exact ⟨Agrees.bind_pure _ (writeExpr_plain src scope e hwf), SomeVal.bind _ _ (fun _ => SomeVal.pure _)⟩
    | project p k cols =>
      rw [wfOp, List.all_eq_true] at hwf
      refine ⟨Agrees.bind_pure _ ?_, SomeVal.bind _ _ (fun _ => SomeVal.pure _)⟩
      exact Agrees.mapM cols (fun c hc => projectCol_agrees src scope c (hwf c hc))
    | extend p k cols =>
      rw [wfOp] at hwf
      rw [spansOp] at hsp
      exact ⟨Agrees.bind_pure _ (writeColumns_agrees src scope cols hwf hsp), SomeVal.bind _ _ (fun _ => SomeVal.pure _)⟩
    | summarize p k cols b gs =>
      rw [wfOp, Bool.and_eq_true] at hwf
      rw [spansOp, Bool.and_eq_true] at hsp
      refine ⟨?_, SomeVal.bind _ _ (fun _ => SomeVal.bind _ _ (fun _ => SomeVal.bind _ _ (fun _ => SomeVal.pure _)))⟩
      have hg := writeColumns_agrees src scope gs hwf.2 hsp.2
      have hc := writeColumns_agrees src scope cols hwf.1 hsp.1
      have hgb : Agrees (gs.mapM fun (c : Column) => writeExpr ⟨src, scope, .default⟩ c.x)
          (gs.any (Misuse.badColumn (names scope))) := by
        rw [any_badColumn_of_wf _ _ hwf.2]
        refine Agrees.mapM gs (fun c hc => ?_)
        have hw := List.all_eq_true.1 hwf.2 c hc
        unfold colWf at hw
        rw [Bool.and_eq_true] at hw
        exact writeExpr_plain src scope c.x hw.1
      refine (Agrees.bind hg (fun _ => Agrees.bind hc (fun _ => Agrees.bind_pure _ hgb))).of_eq ?_
      show _ = Misuse.badOp _ _
      rw [Misuse.badOp]
      cases gs.any (Misuse.badColumn (names scope)) <;> cases cols.any (Misuse.badColumn (names scope)) <;> rfl
    | sort p k ts => cases hst
    | take p k n => cases hst
    | top p k n b c => cases hst
    | join p k kind ka fl lp right rp on conds => cases hst

/-- **stage 3a**: a subquery of the invariant shape is written exactly when nothing it stores is bad -/
theorem write_agrees (src : Bytes) (scope : List (Bytes × List Chunk)) (sub : Subquery)
    (h : subOK src sub = true) :
    Agrees (sub.write ⟨src, scope, .default⟩) (badSub (names scope) sub) := by
  unfold subOK at h
  rw [Bool.and_eq_true, Bool.and_eq_true] at h
  obtain ⟨hop, hsort, htake⟩ := h
  obtain ⟨hb, hsome⟩ := bodyW_agrees src scope sub hop
  rw [write_eq]
  unfold badSub
  refine Agrees.bind' hb (fun body hbody => ?_)
  cases body with
  | none => exact absurd (hsome _ hbody) (by simp)
  | some body => exact tailW_agrees src scope sub body hsort htake

theorem writeCtes_agrees (src : Bytes) (scope : List (Bytes × List Chunk)) :
    ∀ subs : List Subquery, (∀ s ∈ subs, subOK src s = true) →
      Agrees (writeCtes ⟨src, scope, .default⟩ subs) (subs.any (badSub (names scope)))
  | [], _ => by rw [writeCtes]; exact Agrees.ok _
  | [s], h => by
    rw [writeCtes, List.any_cons, List.any_nil, Bool.or_false]
    exact Agrees.bind_pure _ (write_agrees src scope s (h s (List.mem_cons_self ..)))
  | s :: t :: rest, h => by
    rw [writeCtes, List.any_cons]
    · exact Agrees.bind (write_agrees src scope s (h s (List.mem_cons_self ..)))
        (fun b => Agrees.bind_pure _ (writeCtes_agrees src scope (t :: rest)
          (fun s' hs' => h s' (List.mem_cons_of_mem _ hs'))))
    · intro hh; cases hh
end Pql.Exact
