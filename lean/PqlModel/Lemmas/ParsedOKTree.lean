/-
Side conditions discharged for parsed trees (part 5): from the pieces to the side conditions.

* expressions: `sOK` + leaves from tokens (`tokP`) + no K4 function ⟹ `Expr.lexOK`;
  `sOK` + no K4 function ⟹ `RT.shapeOK`; with `arOK` ⟹ `exprOKin`;
* pipelines: `TabAll` is monotone and closed under ∧; `tabularHasKeywordFn t = false`,
  `Misuse.badTabular [] t = false` as `TabAll`s; `TabAll lexOK` ⟹ `Tabular.lexOK`;
  `TabAll exprOK/condsOK` + `TabNE` ⟹ `C05.tabularOK`; `Tabular.Good` ⟹ `C05.hasSources`.
-/
import PqlModel.Lemmas.ParsedOKLeaves
import PqlModel.Lemmas.ParsedOKNum
import PqlModel.Lemmas.ParsedOKTr
import PqlModel.Lemmas.ParseStmtOK
import PqlModel.Lemmas.SplitAReads
import PqlModel.Lemmas.LexStmtProgram
namespace Pql.ParsedOK
open Pql Pql.Exact CompileOracle Sql Pql.RT Pql.C05

/-- what every token of a scan satisfies: a number value is one SQL number, an identifier value is
    `[A-Za-z_$][A-Za-z0-9_]*` -/
def tokP : LP := fun k v => (k != .number || numOK v) && (k != .ident || identShaped v)

theorem tokP_error (v : Bytes) : tokP .error v = true := rfl

theorem tokP_scan (src : Bytes) : ∀ t ∈ scan src, tokP t.kind t.value = true := by
  intro t ht
  simp only [tokP, Bool.and_eq_true, Bool.or_eq_true, bne_iff_ne, ne_eq]
  refine ⟨?_, ?_⟩
  · by_cases hk : t.kind = .number
    · exact Or.inr (scan_number_numOK src t ht hk)
    · exact Or.inl hk
  · by_cases hk : t.kind = .ident
    · exact Or.inr (scan_ident_shaped src t ht hk)
    · exact Or.inl hk

/-! ### expressions -/

theorem notKw_name {fn : Ident} (h : isKeywordFn fn = false) (hk : knownFunction fn.name = none) :
    sqlOperatorWords.contains (Sql.upper fn.name) = false ∧ fn.name.head? ≠ some 36 := by
  simp only [isKeywordFn, hk, Option.isNone_none, Bool.true_and, Bool.or_eq_false_iff, beq_eq_false_iff_ne,
    ne_eq] at h
  exact h

theorem wordSafe_of {w : Bytes} (h : sqlOperatorWords.contains (Sql.upper w) = false) : wordSafe w = true := by
  have hl : operatorWords = sqlOperatorWords := rfl
  simp only [wordSafe, hl, h, Bool.not_false, Bool.and_true, Bool.not_eq_true', beq_eq_false_iff_ne, ne_eq]
  intro hu
  rw [hu] at h
  revert h
  decide

mutual
theorem lexOK_of : ∀ e : Expr, sOK e = true → leavesE tokP e = true → exprHasKeywordFn e = false →
    e.lexOK = true
  | .nil, h, _, _ => by simp [sOK] at h
  | .qident _, _, _, _ => by simp [Expr.lexOK]
  | .lit _ k v, h, hl, _ => by
    simp only [sOK, Bool.or_eq_true, decide_eq_true_eq] at h
    simp only [leavesE, tokP, Bool.and_eq_true, Bool.or_eq_true, bne_iff_ne, ne_eq] at hl
    rcases h with rfl | rfl
    · simpa [Expr.lexOK] using hl.1
    · simp [Expr.lexOK]
  | .unary _ op x, h, hl, hk => by
    simp only [sOK, Bool.and_eq_true] at h
    simp only [leavesE] at hl
    simp only [exprHasKeywordFn] at hk
    simp only [Expr.lexOK, Bool.and_eq_true]
    exact ⟨h.1, lexOK_of x h.2 hl hk⟩
  | .paren _ x _, h, hl, hk => by
    simp only [sOK] at h
    simp only [leavesE] at hl
    simp only [exprHasKeywordFn] at hk
    simp only [Expr.lexOK]
    exact lexOK_of x h hl hk
  | .binary x _ _ y, h, hl, hk => by
    simp only [sOK, Bool.and_eq_true] at h
    simp only [leavesE, Bool.and_eq_true] at hl
    simp only [exprHasKeywordFn, Bool.or_eq_false_iff] at hk
    simp only [Expr.lexOK, Bool.and_eq_true]
    exact ⟨lexOK_of x h.2.1 hl.1 hk.1, lexOK_of y h.2.2 hl.2 hk.2⟩
  | .index x _ y _, h, hl, hk => by
    simp only [sOK, Bool.and_eq_true] at h
    simp only [leavesE, Bool.and_eq_true] at hl
    simp only [exprHasKeywordFn, Bool.or_eq_false_iff] at hk
    simp only [Expr.lexOK, Bool.and_eq_true]
    exact ⟨lexOK_of x h.1 hl.1 hk.1, lexOK_of y h.2 hl.2 hk.2⟩
  | .inE x _ _ vs _, h, hl, hk => by
    simp only [sOK, Bool.and_eq_true] at h
    simp only [leavesE, Bool.and_eq_true] at hl
    simp only [exprHasKeywordFn, Bool.or_eq_false_iff] at hk
    simp only [Expr.lexOK, Bool.and_eq_true]
    exact ⟨lexOK_of x h.1 hl.1 hk.1, lexOKList_of vs h.2.1 hl.2 hk.2⟩
  | .call fn _ args _, h, hl, hk => by
    simp only [sOK, Bool.and_eq_true, Bool.not_eq_true'] at h
    simp only [leavesE, Bool.and_eq_true] at hl
    simp only [exprHasKeywordFn, Bool.or_eq_false_iff] at hk
    simp only [Expr.lexOK, Bool.and_eq_true, Bool.or_eq_true]
    refine ⟨?_, lexOKList_of args h.2 hl.2 hk.2⟩
    cases hkf : knownFunction fn.name with
    | some _ => exact Or.inl rfl
    | none =>
      right
      have hid : identShaped fn.name = true := by
        have := hl.1
        simpa [tokP, identKind, h.1] using this
      rw [nameOK_of_identShaped _ hid]
      simpa using (notKw_name hk.1 hkf).2
theorem lexOKList_of : ∀ l : ExprList, sOKList l = true → leavesL tokP l = true →
    listHasKeywordFn l = false → l.lexOK = true
  | .nil, _, _, _ => by simp [ExprList.lexOK]
  | .cons e es, h, hl, hk => by
    simp only [sOKList, Bool.and_eq_true] at h
    simp only [leavesL, Bool.and_eq_true] at hl
    simp only [listHasKeywordFn, Bool.or_eq_false_iff] at hk
    simp only [ExprList.lexOK, Bool.and_eq_true]
    exact ⟨lexOK_of e h.1 hl.1 hk.1, lexOKList_of es h.2 hl.2 hk.2⟩
end

mutual
theorem shapeOK_of : ∀ e : Expr, sOK e = true → exprHasKeywordFn e = false → shapeOK e = true
  | .nil, h, _ => by simp [sOK] at h
  | .qident _, h, _ => by simpa [sOK, shapeOK] using h
  | .lit .., _, _ => by simp [shapeOK]
  | .unary _ op x, h, hk => by
    simp only [sOK, Bool.and_eq_true] at h
    simp only [exprHasKeywordFn] at hk
    simp only [shapeOK]
    exact shapeOK_of x h.2 hk
  | .paren _ x _, h, hk => by
    simp only [sOK] at h
    simp only [exprHasKeywordFn] at hk
    simp only [shapeOK]
    exact shapeOK_of x h hk
  | .binary x _ _ y, h, hk => by
    simp only [sOK, Bool.and_eq_true] at h
    simp only [exprHasKeywordFn, Bool.or_eq_false_iff] at hk
    simp only [shapeOK, Bool.and_eq_true]
    exact ⟨shapeOK_of x h.2.1 hk.1, shapeOK_of y h.2.2 hk.2⟩
  | .index x _ y _, h, hk => by
    simp only [sOK, Bool.and_eq_true] at h
    simp only [exprHasKeywordFn, Bool.or_eq_false_iff] at hk
    simp only [shapeOK, Bool.and_eq_true]
    exact ⟨shapeOK_of x h.1 hk.1, shapeOK_of y h.2 hk.2⟩
  | .inE x _ _ vs _, h, hk => by
    simp only [sOK, Bool.and_eq_true] at h
    simp only [exprHasKeywordFn, Bool.or_eq_false_iff] at hk
    simp only [shapeOK, Bool.and_eq_true]
    exact ⟨⟨shapeOK_of x h.1 hk.1, shapeOKList_of vs h.2.1 hk.2⟩, h.2.2⟩
  | .call fn _ args _, h, hk => by
    simp only [sOK, Bool.and_eq_true] at h
    simp only [exprHasKeywordFn, Bool.or_eq_false_iff] at hk
    simp only [shapeOK, Bool.and_eq_true, Bool.or_eq_true]
    refine ⟨?_, shapeOKList_of args h.2 hk.2⟩
    cases hkf : knownFunction fn.name with
    | some _ => exact Or.inl rfl
    | none => exact Or.inr (wordSafe_of (notKw_name hk.1 hkf).1)
theorem shapeOKList_of : ∀ l : ExprList, sOKList l = true → listHasKeywordFn l = false →
    shapeOKList l = true
  | .nil, _, _ => by simp [shapeOKList]
  | .cons e es, h, hk => by
    simp only [sOKList, Bool.and_eq_true] at h
    simp only [listHasKeywordFn, Bool.or_eq_false_iff] at hk
    simp only [shapeOKList, Bool.and_eq_true]
    exact ⟨shapeOK_of e h.1 hk.1, shapeOKList_of es h.2 hk.2⟩
end

/-- everything the headline theorems ask of one expression -/
def fullE (e : Expr) : Prop :=
  sOK e = true ∧ leavesE tokP e = true ∧ exprHasKeywordFn e = false ∧ arOK e = true

def fullL (l : ExprList) : Prop :=
  sOKList l = true ∧ leavesL tokP l = true ∧ listHasKeywordFn l = false ∧ arOKL l = true ∧ l.length ≠ 0

theorem exprOKin_of_full (join : Bool) {e : Expr} (h : fullE e) : exprOKin join e = true := by
  obtain ⟨h1, h2, h3, h4⟩ := h
  simp only [exprOKin, Bool.and_eq_true]
  exact ⟨⟨lexOK_of e h1 h2 h3, shapeOK_of e h1 h3⟩, tr_isSome join e h1 h4⟩

theorem condsOK_of_full : ∀ l : ExprList, sOKList l = true → leavesL tokP l = true →
    listHasKeywordFn l = false → arOKL l = true → condsOK l = true
  | .nil, _, _, _, _ => rfl
  | .cons e es, h1, h2, h3, h4 => by
    simp only [sOKList, Bool.and_eq_true] at h1
    simp only [leavesL, Bool.and_eq_true] at h2
    simp only [listHasKeywordFn, Bool.or_eq_false_iff] at h3
    simp only [arOKL, Bool.and_eq_true] at h4
    simp only [condsOK, Bool.and_eq_true]
    exact ⟨exprOKin_of_full true ⟨h1.1, h2.1, h3.1, h4.1⟩, condsOK_of_full es h1.2 h2.2 h3.2 h4.2⟩

/-! ### `TabAll`: monotone, closed under ∧ -/

section
variable {E E' : Expr → Prop} {EL EL' : ExprList → Prop}

mutual
theorem TabAll.imp (hE : ∀ e, E e → E' e) (hL : ∀ l, EL l → EL' l) : ∀ t : Tabular,
    TabAll E EL t → TabAll E' EL' t
  | .nil, _ => by simp [TabAll]
  | .mk _ ops, h => by
    simp only [TabAll] at h ⊢
    exact OpsAll.imp hE hL ops h
theorem OpsAll.imp (hE : ∀ e, E e → E' e) (hL : ∀ l, EL l → EL' l) : ∀ ops : OpList,
    OpsAll E EL ops → OpsAll E' EL' ops
  | .nil, _ => by simp [OpsAll]
  | .cons o os, h => by
    simp only [OpsAll] at h ⊢
    exact ⟨OpAll.imp hE hL o h.1, OpsAll.imp hE hL os h.2⟩
theorem OpAll.imp (hE : ∀ e, E e → E' e) (hL : ∀ l, EL l → EL' l) : ∀ o : Op,
    OpAll E EL o → OpAll E' EL' o
  | .count .., _ => by simp [OpAll]
  | .as_ .., _ => by simp [OpAll]
  | .render .., _ => by simp [OpAll]
  | .where_ _ _ e, h => by simp only [OpAll] at h ⊢; exact hE e h
  | .take _ _ e, h => by simp only [OpAll] at h ⊢; exact hE e h
  | .sort _ _ ts, h => by simp only [OpAll] at h ⊢; exact fun t ht => hE _ (h t ht)
  | .top _ _ n _ c, h => by
    simp only [OpAll] at h ⊢
    exact ⟨hE n h.1, fun t ht => hE _ (h.2 t ht)⟩
  | .project _ _ cs, h => by
    simp only [OpAll] at h ⊢
    exact fun c hc => (h c hc).imp id (hE _)
  | .extend _ _ cs, h => by simp only [OpAll] at h ⊢; exact fun c hc => hE _ (h c hc)
  | .summarize _ _ cs _ gs, h => by
    simp only [OpAll] at h ⊢
    exact ⟨fun c hc => hE _ (h.1 c hc), fun c hc => hE _ (h.2 c hc)⟩
  | .join _ _ _ _ _ _ right _ _ conds, h => by
    simp only [OpAll] at h ⊢
    exact ⟨TabAll.imp hE hL right h.1, hL conds h.2⟩
end

mutual
theorem TabAll.and : ∀ t : Tabular, TabAll E EL t → TabAll E' EL' t →
    TabAll (fun e => E e ∧ E' e) (fun l => EL l ∧ EL' l) t
  | .nil, _, _ => by simp [TabAll]
  | .mk _ ops, h, h' => by
    simp only [TabAll] at h h' ⊢
    exact OpsAll.and ops h h'
theorem OpsAll.and : ∀ ops : OpList, OpsAll E EL ops → OpsAll E' EL' ops →
    OpsAll (fun e => E e ∧ E' e) (fun l => EL l ∧ EL' l) ops
  | .nil, _, _ => by simp [OpsAll]
  | .cons o os, h, h' => by
    simp only [OpsAll] at h h' ⊢
    exact ⟨OpAll.and o h.1 h'.1, OpsAll.and os h.2 h'.2⟩
theorem OpAll.and : ∀ o : Op, OpAll E EL o → OpAll E' EL' o →
    OpAll (fun e => E e ∧ E' e) (fun l => EL l ∧ EL' l) o
  | .count .., _, _ => by simp [OpAll]
  | .as_ .., _, _ => by simp [OpAll]
  | .render .., _, _ => by simp [OpAll]
  | .where_ _ _ e, h, h' => by simp only [OpAll] at h h' ⊢; exact ⟨h, h'⟩
  | .take _ _ e, h, h' => by simp only [OpAll] at h h' ⊢; exact ⟨h, h'⟩
  | .sort _ _ ts, h, h' => by simp only [OpAll] at h h' ⊢; exact fun t ht => ⟨h t ht, h' t ht⟩
  | .top _ _ n _ c, h, h' => by
    simp only [OpAll] at h h' ⊢
    exact ⟨⟨h.1, h'.1⟩, fun t ht => ⟨h.2 t ht, h'.2 t ht⟩⟩
  | .project _ _ cs, h, h' => by
    simp only [OpAll] at h h' ⊢
    intro c hc
    rcases h c hc with h1 | h1
    · exact Or.inl h1
    · rcases h' c hc with h2 | h2
      · exact Or.inl h2
      · exact Or.inr ⟨h1, h2⟩
  | .extend _ _ cs, h, h' => by simp only [OpAll] at h h' ⊢; exact fun c hc => ⟨h c hc, h' c hc⟩
  | .summarize _ _ cs _ gs, h, h' => by
    simp only [OpAll] at h h' ⊢
    exact ⟨fun c hc => ⟨h.1 c hc, h'.1 c hc⟩, fun c hc => ⟨h.2 c hc, h'.2 c hc⟩⟩
  | .join _ _ _ _ _ _ right _ _ conds, h, h' => by
    simp only [OpAll] at h h' ⊢
    exact ⟨TabAll.and right h.1 h'.1, h.2, h'.2⟩
end

end

/-! ### K4-freedom and absence of misuse as `TabAll`s -/

theorem any_false {α : Type} {f : α → Bool} {l : List α} (h : l.any f = false) : ∀ x ∈ l, f x = false := by
  intro x hx
  rw [List.any_eq_false] at h
  simpa using h x hx

mutual
theorem tabAll_noKw : ∀ t : Tabular, tabularHasKeywordFn t = false →
    TabAll (fun e => exprHasKeywordFn e = false) (fun l => listHasKeywordFn l = false) t
  | .nil, _ => by simp [TabAll]
  | .mk _ ops, h => by
    simp only [tabularHasKeywordFn] at h
    simp only [TabAll]
    exact opsAll_noKw ops h
theorem opsAll_noKw : ∀ ops : OpList, opsHaveKeywordFn ops = false →
    OpsAll (fun e => exprHasKeywordFn e = false) (fun l => listHasKeywordFn l = false) ops
  | .nil, _ => by simp [OpsAll]
  | .cons o os, h => by
    simp only [opsHaveKeywordFn, Bool.or_eq_false_iff] at h
    simp only [OpsAll]
    exact ⟨opAll_noKw o h.1, opsAll_noKw os h.2⟩
theorem opAll_noKw : ∀ o : Op, opHasKeywordFn o = false →
    OpAll (fun e => exprHasKeywordFn e = false) (fun l => listHasKeywordFn l = false) o
  | .count .., _ => by simp [OpAll]
  | .as_ .., _ => by simp [OpAll]
  | .render .., _ => by simp [OpAll]
  | .where_ _ _ e, h => by simpa [OpAll, opHasKeywordFn] using h
  | .take _ _ e, h => by simpa [OpAll, opHasKeywordFn] using h
  | .sort _ _ ts, h => by
    simp only [opHasKeywordFn] at h
    simp only [OpAll]
    exact any_false h
  | .top _ _ n _ c, h => by
    simp only [opHasKeywordFn, Bool.or_eq_false_iff] at h
    simp only [OpAll]
    refine ⟨h.1, ?_⟩
    rintro t rfl
    exact h.2
  | .project _ _ cs, h => by
    simp only [opHasKeywordFn] at h
    simp only [OpAll]
    exact fun c hc => Or.inr (any_false h c hc)
  | .extend _ _ cs, h => by
    simp only [opHasKeywordFn] at h
    simp only [OpAll]
    exact any_false h
  | .summarize _ _ cs _ gs, h => by
    simp only [opHasKeywordFn, Bool.or_eq_false_iff] at h
    simp only [OpAll]
    exact ⟨any_false h.1, any_false h.2⟩
  | .join _ _ _ _ _ _ right _ _ conds, h => by
    simp only [opHasKeywordFn, Bool.or_eq_false_iff] at h
    simp only [OpAll]
    exact ⟨tabAll_noKw right h.1, h.2⟩
end

theorem arOKL_of_conds (bound : List Bytes) : ∀ l : ExprList, Misuse.badConds bound l = false → arOKL l = true
  | .nil, _ => by simp [arOKL]
  | .cons e es, h => by
    simp only [Misuse.badConds, Bool.or_eq_false_iff, Bool.and_eq_false_iff, Bool.not_eq_false'] at h
    simp only [arOKL, Bool.and_eq_true]
    refine ⟨?_, arOKL_of_conds bound es h.2⟩
    rcases h.1 with hb | hb
    · unfold Misuse.isBareKey at hb
      split at hb
      · simp [arOK]
      · cases hb
    · exact arOK_of_notBad .join bound e hb

theorem arOK_of_column (bound : List Bytes) (c : Column) (h : Misuse.badColumn bound c = false) :
    c.x = .nil ∨ arOK c.x = true := by
  unfold Misuse.badColumn at h
  split at h
  · next hx => exact Or.inl hx
  · exact Or.inr (arOK_of_notBad .plain bound _ h)

mutual
theorem tabAll_notBad (bound : List Bytes) : ∀ t : Tabular, Misuse.badTabular bound t = false →
    TabAll (fun e => arOK e = true) (fun l => arOKL l = true) t
  | .nil, _ => by simp [TabAll]
  | .mk _ ops, h => by
    simp only [Misuse.badTabular] at h
    simp only [TabAll]
    exact opsAll_notBad bound ops h
theorem opsAll_notBad (bound : List Bytes) : ∀ ops : OpList, Misuse.badOps bound ops = false →
    OpsAll (fun e => arOK e = true) (fun l => arOKL l = true) ops
  | .nil, _ => by simp [OpsAll]
  | .cons o os, h => by
    simp only [Misuse.badOps, Bool.or_eq_false_iff] at h
    simp only [OpsAll]
    exact ⟨opAll_notBad bound o h.1, opsAll_notBad bound os h.2⟩
theorem opAll_notBad (bound : List Bytes) : ∀ o : Op, Misuse.badOp bound o = false →
    OpAll (fun e => arOK e = true) (fun l => arOKL l = true) o
  | .count .., _ => by simp [OpAll]
  | .as_ .., _ => by simp [OpAll]
  | .render .., _ => by simp [OpAll]
  | .where_ _ _ e, h => by
    simp only [Misuse.badOp] at h
    simp only [OpAll]; exact arOK_of_notBad _ _ e h
  | .take _ _ e, h => by
    simp only [Misuse.badOp] at h
    simp only [OpAll]; exact arOK_of_notBad _ _ e h
  | .sort _ _ ts, h => by
    simp only [Misuse.badOp] at h
    simp only [OpAll]
    exact fun t ht => arOK_of_notBad _ _ _ (any_false h t ht)
  | .top _ _ n _ c, h => by
    simp only [Misuse.badOp, Bool.or_eq_false_iff] at h
    simp only [OpAll]
    refine ⟨arOK_of_notBad _ _ n h.1, ?_⟩
    rintro t rfl
    exact arOK_of_notBad _ _ _ h.2
  | .project _ _ cs, h => by
    simp only [Misuse.badOp] at h
    simp only [OpAll]
    exact fun c hc => arOK_of_column bound c (any_false h c hc)
  | .extend _ _ cs, h => by
    simp only [Misuse.badOp] at h
    simp only [OpAll]
    intro c hc
    rcases arOK_of_column bound c (any_false h c hc) with h1 | h1
    · rw [h1]; rfl
    · exact h1
  | .summarize _ _ cs _ gs, h => by
    simp only [Misuse.badOp, Bool.or_eq_false_iff] at h
    simp only [OpAll]
    constructor
    · intro c hc
      rcases arOK_of_column bound c (any_false h.1 c hc) with h1 | h1
      · rw [h1]; rfl
      · exact h1
    · intro c hc
      rcases arOK_of_column bound c (any_false h.2 c hc) with h1 | h1
      · rw [h1]; rfl
      · exact h1
  | .join _ _ _ _ _ _ right _ _ conds, h => by
    simp only [Misuse.badOp, Bool.or_eq_false_iff] at h
    simp only [OpAll]
    exact ⟨tabAll_notBad bound right h.1, arOKL_of_conds bound conds h.2⟩
end

/-! ### from `TabAll` to the Bool side conditions -/

mutual
theorem tabLexOK_of : ∀ t : Tabular, TabAll (fun e => e.lexOK = true) (fun l => l.lexOK = true) t →
    t.lexOK = true
  | .nil, _ => by simp [Tabular.lexOK]
  | .mk _ ops, h => by
    simp only [TabAll] at h
    simp only [Tabular.lexOK]
    exact opsLexOK_of ops h
theorem opsLexOK_of : ∀ ops : OpList, OpsAll (fun e => e.lexOK = true) (fun l => l.lexOK = true) ops →
    ops.lexOK = true
  | .nil, _ => by simp [OpList.lexOK]
  | .cons o os, h => by
    simp only [OpsAll] at h
    simp only [OpList.lexOK, Bool.and_eq_true]
    exact ⟨opLexOK_of o h.1, opsLexOK_of os h.2⟩
theorem opLexOK_of : ∀ o : Op, OpAll (fun e => e.lexOK = true) (fun l => l.lexOK = true) o →
    o.lexOK = true
  | .count .., _ => by simp [Op.lexOK]
  | .as_ .., _ => by simp [Op.lexOK]
  | .render .., _ => by simp [Op.lexOK]
  | .where_ _ _ e, h => by simpa [OpAll, Op.lexOK] using h
  | .take _ _ e, h => by simpa [OpAll, Op.lexOK] using h
  | .sort _ _ ts, h => by
    simp only [OpAll] at h
    simp only [Op.lexOK, List.all_eq_true]
    exact h
  | .top _ _ n _ c, h => by
    simp only [OpAll] at h
    simp only [Op.lexOK, Bool.and_eq_true]
    refine ⟨h.1, ?_⟩
    cases c with
    | none => rfl
    | some t => exact h.2 t rfl
  | .project _ _ cs, h => by
    simp only [OpAll] at h
    simp only [Op.lexOK, List.all_eq_true]
    intro c hc
    unfold Column.projOK
    rcases h c hc with h1 | h1
    · rw [h1]
    · split
      · rfl
      · exact h1
  | .extend _ _ cs, h => by
    simp only [OpAll] at h
    simp only [Op.lexOK, List.all_eq_true]
    exact h
  | .summarize _ _ cs _ gs, h => by
    simp only [OpAll] at h
    simp only [Op.lexOK, Bool.and_eq_true, List.all_eq_true]
    exact h
  | .join _ _ _ _ _ _ right _ _ conds, h => by
    simp only [OpAll] at h
    simp only [Op.lexOK, Bool.and_eq_true]
    exact ⟨tabLexOK_of right h.1, h.2⟩
end

/-- a project column of a `Good` pipeline has a name -/
theorem projColOK_of {c : Column} (hn : c.name ≠ none) (h : c.x = .nil ∨ exprOK c.x = true) :
    projColOK c = true := by
  unfold projColOK
  rcases h with h1 | h1
  · rw [h1]
    cases hc : c.name with
    | none => exact absurd hc hn
    | some _ => rfl
  · split
    · next hx => rw [hx] at h1; simp [exprOKin, Expr.lexOK] at h1
    · exact h1

mutual
theorem tabularOK_of : ∀ t : Tabular, t.Good →
    TabAll (fun e => exprOK e = true) (fun l => condsOK l = true) t → TabNE t = true →
    tabularOK t = true
  | .nil, _, _, _ => by simp [tabularOK]
  | .mk _ ops, hg, h, hn => by
    simp only [Tabular.Good] at hg
    simp only [TabAll] at h
    simp only [TabNE] at hn
    simp only [tabularOK]
    exact opsOK_of ops hg.2 h hn
theorem opsOK_of : ∀ ops : OpList, ops.Good →
    OpsAll (fun e => exprOK e = true) (fun l => condsOK l = true) ops → OpsNE ops = true →
    opsOK ops = true
  | .nil, _, _, _ => by simp [opsOK]
  | .cons o os, hg, h, hn => by
    simp only [OpList.Good] at hg
    simp only [OpsAll] at h
    simp only [OpsNE, Bool.and_eq_true] at hn
    simp only [opsOK, Bool.and_eq_true]
    exact ⟨opOK1_of o hg.1 h.1 hn.1, opsOK_of os hg.2 h.2 hn.2⟩
theorem opOK1_of : ∀ o : Op, o.Good →
    OpAll (fun e => exprOK e = true) (fun l => condsOK l = true) o → OpNE o = true →
    opOK1 o = true
  | .count .., _, _, _ => by simp [opOK1, opOK]
  | .as_ .., _, _, _ => by simp [opOK1, opOK]
  | .render .., _, _, _ => by simp [opOK1, opOK]
  | .where_ _ _ e, _, h, _ => by simpa [OpAll, opOK1, opOK] using h
  | .take _ _ e, _, h, _ => by simpa [OpAll, opOK1] using h
  | .sort _ _ ts, _, h, hn => by
    simp only [OpAll] at h
    simp only [OpNE] at hn
    simp only [opOK1, sortOK, Bool.and_eq_true, List.all_eq_true]
    exact ⟨hn, h⟩
  | .top _ _ n _ c, _, h, _ => by
    simp only [OpAll] at h
    simp only [opOK1, Bool.and_eq_true]
    refine ⟨h.1, ?_⟩
    cases c with
    | none => rfl
    | some t => exact h.2 t rfl
  | .project _ _ cs, hg, h, hn => by
    simp only [Op.Good] at hg
    simp only [OpAll] at h
    simp only [OpNE] at hn
    simp only [opOK1, opOK, Bool.and_eq_true, List.all_eq_true]
    exact ⟨hn, fun c hc => projColOK_of (hg c hc).1 (h c hc)⟩
  | .extend _ _ cs, _, h, _ => by
    simp only [OpAll] at h
    simp only [opOK1, opOK, List.all_eq_true, colOK]
    exact h
  | .summarize _ _ cs _ gs, _, h, hn => by
    simp only [OpAll] at h
    simp only [OpNE] at hn
    simp only [opOK1, opOK, Bool.and_eq_true, List.all_eq_true, colOK]
    exact ⟨⟨hn, h.1⟩, h.2⟩
  | .join _ _ _ _ _ _ right _ _ conds, hg, h, hn => by
    simp only [Op.Good] at hg
    simp only [OpAll] at h
    simp only [OpNE, Bool.and_eq_true] at hn
    simp only [opOK1, Bool.and_eq_true]
    exact ⟨tabularOK_of right hg.1 h.1 hn.1, condsOK_build conds h.2⟩
end

mutual
theorem hasSources_of_good : ∀ t : Tabular, t.Good → hasSources t = true
  | .nil, h => by simp [Tabular.Good] at h
  | .mk src ops, h => by
    simp only [Tabular.Good] at h
    simp only [hasSources, Bool.and_eq_true]
    exact ⟨Option.isSome_iff_ne_none.2 h.1, opsHaveSources_of_good ops h.2⟩
theorem opsHaveSources_of_good : ∀ ops : OpList, ops.Good → opsHaveSources ops = true
  | .nil, _ => by simp [opsHaveSources]
  | .cons o os, h => by
    simp only [OpList.Good] at h
    cases o with
    | join p kw kind ka flavor lp right rp on conds =>
      simp only [opsHaveSources, Bool.and_eq_true]
      have h1 := h.1
      simp only [Op.Good] at h1
      exact ⟨hasSources_of_good right h1.1, opsHaveSources_of_good os h.2⟩
    | _ =>
      simp only [opsHaveSources]
      exact opsHaveSources_of_good os h.2
end

end Pql.ParsedOK
