/-
The case bodies of `Scan`'s main switch with one rune of look-ahead: `=` / `!` (a nested switch), `<` / `>`
(`if c, ok := s.next(); ok && c == '='`), against the model's `scanPunct`.
-/
import PqlModel.Lemmas.LexScanIRScanCases
namespace Pql.ScanIR
open Pql
open Pql.LexIR (IErr M BinOp goPanic stuck irOf)
set_option linter.unusedSimpArgs false
set_option linter.unusedVariables false

/-- leaving the scope of a case body: the variables it declared are dropped -/
theorem leave_extra (src : Bytes) (acc acc' : List Token) (k c c' : Nat) (ok ok' : Bool) (h h' h'' : Store)
    (extra : List (String × Val)) :
    (State.leave ⟨extra ++ (inSt src acc' k c' ok' h').vars, h''⟩ (inSt src acc k c ok h)) = inSt src acc' k c' ok' h'' := by
  simp [State.leave, inSt]

section
variable (env : Env) (fuel : Nat) (E : ScanEnv fuel env) (src : Bytes) (acc : List Token) (k : Nat) (bs : List (Nat × Bytes))
include E

/-- the nested switch after `=` / `!`: the second rune decides between `kEq`, `kTilde` and the token
    `other` evaluates to (of kind `ko`, on the first rune only: the second is given back) -/
theorem case_two (K1 K2 : String) (k1 k2 ko : TokKind) (hK1 : TokKind.ofGoName K1 = some k1)
    (hK2 : TokKind.ofGoName K2 = some k2) (other : Expr) (c0 : Nat)
    (hoth : ∀ (c1 : Nat) (b1 : Bool) (p l : Nat),
      eval env [("ok", .bool b1), ("c", .int c1), ("ok", .bool true), ("c", .int c0), ("start", .int k), ("tokens", .toks acc),
        ("s", .scanner), ("query", .str src)] other (sp src p l bs) = .ok (.tok ko k p [], sp src p l bs))
    (rest : Bytes) (hd : src.drop (k + 1) = rest) :
    ∃ l' extra, execBlock env fuel (twoSwitch K1 K2 other) (inSt src acc k c0 true (sp src (k + 1) k bs)) =
      .ok (.next, ⟨extra ++ (inSt src (acc ++ [⟨(if rest.head? = some 61 then k1 else if rest.head? = some 126 then k2 else ko),
          k, k + (if rest.head? = some 61 ∨ rest.head? = some 126 then 2 else 1), []⟩]) k c0 true (sp src 0 0 bs)).vars,
        sp src (k + (if rest.head? = some 61 ∨ rest.head? = some 126 then 2 else 1)) l' bs⟩) := by
  obtain ⟨fN, hN, sN⟩ := E.cur.next
  obtain ⟨fP, hP, sP⟩ := E.cur.prev
  obtain ⟨fA, hA, sA0⟩ := E.cur.newSpan
  have sA : ∀ a b h, fA [.int a, .int b] h = .ok ([.span a b], h) := sA0
  have hAp := E.append
  unfold HasPrim at hAp
  cases rest with
  | nil =>
    have hlen : src.length ≤ k + 1 := List.drop_eq_nil_iff.mp hd
    refine ⟨k, [("ok", .bool false), ("c", .int 0)], ?_⟩
    unfold twoSwitch giveBack inSt
    ls_simp [hN, nextS_end sN src (k + 1) k bs hlen, hoth, hAp, prims]
  | cons d rest2 =>
    obtain ⟨rd, wd, hrd, hwdpos, hqd, _, _, hwd, _⟩ := rune_facts d rest2
    have nx := nextS_cons sN src (k + 1) k bs d rest2 rd wd hd hrd
    by_cases h61 : d = 61
    · subst h61
      have : wd = 1 := hwd (by decide)
      subst this
      have : rd = 61 := (hqd 61 (by omega)).mpr rfl
      subst this
      refine ⟨k + 1, [("ok", .bool true), ("c", .int 61)], ?_⟩
      unfold twoSwitch giveBack inSt
      ls_simp [hN, nx, hA, sA, hAp, prims, hK1, ofString_empty]
    · have hr61 : ¬ rd = 61 := fun e => h61 ((hqd 61 (by omega)).mp e)
      by_cases h126 : d = 126
      · subst h126
        have : wd = 1 := hwd (by decide)
        subst this
        have : rd = 126 := (hqd 126 (by omega)).mpr rfl
        subst this
        refine ⟨k + 1, [("ok", .bool true), ("c", .int 126)], ?_⟩
        unfold twoSwitch giveBack inSt
        ls_simp [hN, nx, hA, sA, hAp, prims, hK2, ofString_empty]
      · have hr126 : ¬ rd = 126 := fun e => h126 ((hqd 126 (by omega)).mp e)
        refine ⟨k + 1, [("ok", .bool true), ("c", .int rd)], ?_⟩
        unfold twoSwitch giveBack inSt
        ls_simp [hN, hP, nx, prevS sP, hr61, hr126, h61, h126, hoth, hAp, prims]

/-- `if c, ok := s.next(); ok && c == '=' { kEq } else { if ok { s.prev() }; kOther }` after `<` / `>` -/
theorem case_ifEq (K1 K2 : String) (k1 k2 : TokKind) (hK1 : TokKind.ofGoName K1 = some k1)
    (hK2 : TokKind.ofGoName K2 = some k2) (c0 : Nat) (rest : Bytes) (hd : src.drop (k + 1) = rest) :
    ∃ l', execBlock env fuel (ifEq K1 K2) (inSt src acc k c0 true (sp src (k + 1) k bs)) =
      .ok (.next, inSt src (acc ++ [⟨(if rest.head? = some 61 then k1 else k2), k,
          k + (if rest.head? = some 61 then 2 else 1), []⟩]) k c0 true
        (sp src (k + (if rest.head? = some 61 then 2 else 1)) l' bs)) := by
  obtain ⟨fN, hN, sN⟩ := E.cur.next
  obtain ⟨fP, hP, sP⟩ := E.cur.prev
  obtain ⟨fA, hA, sA0⟩ := E.cur.newSpan
  have sA : ∀ a b h, fA [.int a, .int b] h = .ok ([.span a b], h) := sA0
  have hAp := E.append
  unfold HasPrim at hAp
  cases rest with
  | nil =>
    have hlen : src.length ≤ k + 1 := List.drop_eq_nil_iff.mp hd
    refine ⟨k, ?_⟩
    unfold ifEq giveBack inSt
    ls_simp [hN, nextS_end sN src (k + 1) k bs hlen, hA, sA, hAp, prims, hK2, ofString_empty]
  | cons d rest2 =>
    obtain ⟨rd, wd, hrd, hwdpos, hqd, _, _, hwd, _⟩ := rune_facts d rest2
    have nx := nextS_cons sN src (k + 1) k bs d rest2 rd wd hd hrd
    by_cases h61 : d = 61
    · subst h61
      have : wd = 1 := hwd (by decide)
      subst this
      have : rd = 61 := (hqd 61 (by omega)).mpr rfl
      subst this
      refine ⟨k + 1, ?_⟩
      unfold ifEq giveBack inSt
      ls_simp [hN, nx, hA, sA, hAp, prims, hK1, ofString_empty]
    · have hr61 : ¬ rd = 61 := fun e => h61 ((hqd 61 (by omega)).mp e)
      refine ⟨k + 1, ?_⟩
      unfold ifEq giveBack inSt
      ls_simp [hN, hP, nx, prevS sP, hr61, h61, hA, sA, hAp, prims, hK2, ofString_empty]

end
end Pql.ScanIR
