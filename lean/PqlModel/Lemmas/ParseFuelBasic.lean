/-
Basic vocabulary for the "fuel is never exhausted" proof (C12, termination half):
`NoFuel` error lists, length facts about `split` / `splitSemi`, and the non-recursive
identifier productions.
-/
import PqlModel.Lemmas.SplitBasic
namespace Pql

/-- no leaf of the error list is the distinguished out-of-fuel leaf -/
def NoFuel (es : Errs) : Prop := ∀ e ∈ es, e.fuel = false

theorem NoFuel.nil : NoFuel [] := by intro e he; cases he

theorem NoFuel.append {a b : Errs} (ha : NoFuel a) (hb : NoFuel b) : NoFuel (a ++ b) := by
  intro e he
  rcases List.mem_append.1 he with h | h
  · exact ha e h
  · exact hb e h

theorem NoFuel.of_append_left {a b : Errs} (h : NoFuel (a ++ b)) : NoFuel a :=
  fun e he => h e (List.mem_append.2 (Or.inl he))

theorem NoFuel.of_append_right {a b : Errs} (h : NoFuel (a ++ b)) : NoFuel b :=
  fun e he => h e (List.mem_append.2 (Or.inr he))

theorem NoFuel.mkOpaque {a : Errs} (ha : NoFuel a) : NoFuel (mkOpaque a) := by
  intro e he
  simp only [Pql.mkOpaque, List.mem_map] at he
  obtain ⟨e', he', rfl⟩ := he
  exact ha e' he'

theorem NoFuel.errAt (s : Span) : NoFuel (errAt s) := by
  intro e he
  simp only [Pql.errAt, List.mem_singleton] at he
  subst he; rfl

theorem NoFuel.nfAt (s : Span) : NoFuel (nfAt s) := by
  intro e he
  simp only [Pql.nfAt, List.mem_singleton] at he
  subst he; rfl

theorem NoFuel.errNoPos : NoFuel errNoPos := by
  intro e he
  simp only [Pql.errNoPos, List.mem_singleton] at he
  subst he; rfl

theorem NoFuel.endSplit (ts : List Token) : NoFuel (endSplit ts) := by
  cases ts with
  | nil => exact NoFuel.nil
  | cons t _ => exact NoFuel.errAt t.span

/-! ### lengths at a split -/

theorem split_length (k : TokKind) (ts : List Token) :
    (split k ts).1.length + (split k ts).2.length = ts.length := by
  have h := congrArg List.length (split_append k ts)
  simpa only [List.length_append] using h

theorem split_fst_le (k : TokKind) (ts : List Token) : (split k ts).1.length ≤ ts.length := by
  have := split_length k ts; omega

theorem split_snd_le (k : TokKind) (ts : List Token) : (split k ts).2.length ≤ ts.length := by
  have := split_length k ts; omega

theorem splitSemi_length (ts : List Token) :
    (splitSemi ts).1.length + (splitSemi ts).2.length = ts.length := by
  have h := congrArg List.length (splitSemi_append ts)
  simpa only [List.length_append] using h

/-! ### identifiers -/

theorem pIdent_rest_le (c : PCtx) (ts : List Token) : (pIdent c ts).rest.length ≤ ts.length := by
  unfold pIdent
  split
  · split <;> simp
  · simp

/-- a successful `ident` consumed exactly one token -/
theorem pIdent_some_rest (c : PCtx) (ts : List Token) (id : Ident) (h : (pIdent c ts).val = some id) :
    (pIdent c ts).rest.length + 1 = ts.length := by
  unfold pIdent at h ⊢
  split
  · split
    · simp
    · rename_i h'; simp [h'] at h
  · simp at h

theorem pIdent_noFuel (c : PCtx) (ts : List Token) : NoFuel (pIdent c ts).errs := by
  unfold pIdent
  split
  · split
    · exact NoFuel.nil
    · exact NoFuel.nfAt _
  · exact NoFuel.nfAt _

theorem pQualTail_rest_le (c : PCtx) (fuel : Nat) : ∀ (parts : List Ident) (ts : List Token),
    (pQualTail c fuel parts ts).rest.length ≤ ts.length := by
  induction fuel with
  | zero => intro parts ts; simp [pQualTail]
  | succ fuel ih =>
    intro parts ts
    simp only [pQualTail]
    split
    · rename_i t rest
      split
      · have h1 := pIdent_rest_le c rest
        split
        · have h2 := ih (parts ++ [‹Ident›]) (pIdent c rest).rest
          simp only [List.length_cons]; omega
        · simp only [List.length_cons]; omega
      · simp
    · simp

/-- the `.ident (.ident)*` loop never runs out of fuel when given one unit per remaining token
    (plus one) -/
theorem pQualTail_noFuel (c : PCtx) (fuel : Nat) : ∀ (parts : List Ident) (ts : List Token),
    ts.length + 1 ≤ fuel → NoFuel (pQualTail c fuel parts ts).errs := by
  induction fuel with
  | zero => intro parts ts h; omega
  | succ fuel ih =>
    intro parts ts hf
    simp only [pQualTail]
    split
    · rename_i t rest
      split
      · have h1 := pIdent_rest_le c rest
        split
        · apply ih
          simp only [List.length_cons] at hf; omega
        · exact NoFuel.mkOpaque (pIdent_noFuel c rest)
      · exact NoFuel.nil
    · exact NoFuel.nil

theorem pQualifiedIdent_rest_le (c : PCtx) (ts : List Token) :
    (pQualifiedIdent c ts).rest.length ≤ ts.length := by
  simp only [pQualifiedIdent]
  have h1 := pIdent_rest_le c ts
  split
  · exact h1
  · have h2 := pQualTail_rest_le c ((pIdent c ts).rest.length + 1) [‹Ident›] (pIdent c ts).rest
    simp only; omega

/-- a successful `qualifiedIdent` consumed at least one token -/
theorem pQualifiedIdent_some_rest (c : PCtx) (ts : List Token) (parts : List Ident)
    (h : (pQualifiedIdent c ts).val = some parts) :
    (pQualifiedIdent c ts).rest.length + 1 ≤ ts.length := by
  simp only [pQualifiedIdent] at h ⊢
  split
  · rename_i h'; simp [h'] at h
  · rename_i id h'
    have h1 := pIdent_some_rest c ts id h'
    have h2 := pQualTail_rest_le c ((pIdent c ts).rest.length + 1) [id] (pIdent c ts).rest
    simp only; omega

theorem pQualifiedIdent_noFuel (c : PCtx) (ts : List Token) : NoFuel (pQualifiedIdent c ts).errs := by
  simp only [pQualifiedIdent]
  split
  · exact pIdent_noFuel c ts
  · exact pQualTail_noFuel c _ _ _ (Nat.le_refl _)

end Pql
