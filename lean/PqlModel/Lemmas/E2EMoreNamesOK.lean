/-
Implicit column names, part 4: `tabExprsB` follows from `lexOK`; `C05.tabularOK` of the resolved named query
is `C05.tabularOK` of the resolved query.
-/
import PqlModel.Lemmas.E2EMoreNamesFacts
import PqlModel.Lemmas.ParseStmtOK
namespace Pql.E2EMore
set_option linter.unusedSimpArgs false
open Pql Pql.Rel CompileOracle Pql.ParsedOK Pql.C05

theorem colHasExpr_of_lexOK (c : Column) (h : c.x.lexOK = true) : colHasExpr c = true := by
  unfold colHasExpr
  cases hx : c.x <;> first | rfl | (rw [hx] at h; simp [Expr.lexOK] at h)

theorem colsHaveExpr_of_lexOK (cs : List Column) (h : (cs.all fun c => c.x.lexOK) = true) :
    cs.all colHasExpr = true := by
  simp only [List.all_eq_true] at h ⊢
  exact fun c hc => colHasExpr_of_lexOK c (h c hc)

mutual
theorem tabExprs_of_lexOK : (t : Tabular) → t.lexOK = true → tabExprsB t = true
  | .nil, _ => rfl
  | .mk _ ops, h => by simp only [Tabular.lexOK] at h; simp only [tabExprsB]; exact opsExprs_of_lexOK ops h
theorem opsExprs_of_lexOK : (ops : OpList) → ops.lexOK = true → opsExprsB ops = true
  | .nil, _ => rfl
  | .cons o os, h => by
    simp only [OpList.lexOK, Bool.and_eq_true] at h
    simp only [opsExprsB, Bool.and_eq_true]
    exact ⟨opExprs_of_lexOK o h.1, opsExprs_of_lexOK os h.2⟩
theorem opExprs_of_lexOK : (o : Op) → o.lexOK = true → opExprsB o = true
  | .join _ _ _ _ _ _ right _ _ _, h => by
    simp only [Op.lexOK, Bool.and_eq_true] at h
    simp only [opExprsB]
    exact tabExprs_of_lexOK right h.1
  | .extend _ _ cs, h => by
    simp only [Op.lexOK] at h
    simp only [opExprsB]
    exact colsHaveExpr_of_lexOK cs h
  | .summarize _ _ cs _ gs, h => by
    simp only [Op.lexOK, Bool.and_eq_true] at h
    simp only [opExprsB, Bool.and_eq_true]
    exact ⟨colsHaveExpr_of_lexOK cs h.1, colsHaveExpr_of_lexOK gs h.2⟩
  | .where_ .., _ => rfl
  | .sort .., _ => rfl
  | .take .., _ => rfl
  | .top .., _ => rfl
  | .project .., _ => rfl
  | .count .., _ => rfl
  | .as_ .., _ => rfl
  | .render .., _ => rfl
end

theorem stmtsLexOK_query (t : Tabular) : (lets : List Stmt) → IsLets lets →
    stmtsLexOK (lets ++ [.tabular t]) = true → t.lexOK = true
  | [], _, h => by simpa only [List.nil_append, stmtsLexOK] using h
  | s :: rest, hl, h => by
    obtain ⟨kw, n, a, x, rfl⟩ := hl s List.mem_cons_self
    simp only [List.cons_append, stmtsLexOK, Bool.and_eq_true] at h
    exact stmtsLexOK_query t rest (fun s hs => hl s (List.mem_cons_of_mem _ hs)) h.2

/-! ### `tabularOK` does not look at column names -/

theorem substColumn_x (env : List (Bytes × Expr)) (c : Column) (h : colHasExpr c = true) :
    (substColumn env c).x = substExpr env c.x := by
  unfold substColumn
  unfold colHasExpr at h
  split
  · rename_i hx _; rw [hx] at h; cases h
  · rfl

theorem colOK_name (src : Bytes) (env : List (Bytes × Expr)) (c : Column) (h : colHasExpr c = true) :
    colOK (substColumn env (nameColumn src c)) = colOK (substColumn env c) := by
  have h' : colHasExpr (nameColumn src c) = true := by
    unfold colHasExpr at h ⊢; rw [nameColumn_x]; exact h
  simp only [colOK, substColumn_x env _ h', substColumn_x env _ h, nameColumn_x]

theorem colsOK_name (src : Bytes) (env : List (Bytes × Expr)) : (cs : List Column) → cs.all colHasExpr = true →
    ((cs.map (nameColumn src)).map (substColumn env)).all colOK = (cs.map (substColumn env)).all colOK
  | [], _ => rfl
  | c :: cs, h => by
    simp only [List.all_cons, Bool.and_eq_true] at h
    simp only [List.map_cons, List.all_cons, colOK_name src env c h.1, colsOK_name src env cs h.2]

mutual
theorem tabularOK_name (src : Bytes) (env : List (Bytes × Expr)) : (t : Tabular) → tabExprsB t = true →
    tabularOK (substTabular env (nameTabular src t)) = tabularOK (substTabular env t)
  | .nil, _ => rfl
  | .mk _ ops, h => by
    simp only [tabExprsB] at h
    simp only [nameTabular, substTabular, tabularOK]
    exact opsOK_name src env ops h
theorem opsOK_name (src : Bytes) (env : List (Bytes × Expr)) : (ops : OpList) → opsExprsB ops = true →
    opsOK (substOps env (nameOps src ops)) = opsOK (substOps env ops)
  | .nil, _ => rfl
  | .cons o os, h => by
    simp only [opsExprsB, Bool.and_eq_true] at h
    simp only [nameOps, substOps, opsOK, opOK1_name src env o h.1, opsOK_name src env os h.2]
theorem opOK1_name (src : Bytes) (env : List (Bytes × Expr)) : (o : Op) → opExprsB o = true →
    opOK1 (substOp env (nameOp src o)) = opOK1 (substOp env o)
  | .join _ _ _ _ _ _ right _ _ _, h => by
    simp only [opExprsB] at h
    simp only [nameOp, substOp, opOK1, tabularOK_name src env right h]
  | .extend _ _ cs, h => by
    simp only [opExprsB] at h
    simp only [nameOp, substOp, opOK1, opOK, colsOK_name src env cs h]
  | .summarize _ _ cs _ gs, h => by
    simp only [opExprsB, Bool.and_eq_true] at h
    simp only [nameOp, substOp, opOK1, opOK, colsOK_name src env cs h.1, colsOK_name src env gs h.2,
      ← List.map_append, List.isEmpty_map]
  | .where_ .., _ => rfl
  | .sort .., _ => rfl
  | .take .., _ => rfl
  | .top .., _ => rfl
  | .project .., _ => rfl
  | .count .., _ => rfl
  | .as_ .., _ => rfl
  | .render .., _ => rfl
end

end Pql.E2EMore
