/-
`splitQueries` / `splitOps` as a relation.

`Run source dstStart dst ops out` lists, operator by operator, what a *successful* run of the
operator loop `splitOps src scope source dstStart dst ops = .ok out` does to the list of
subqueries.  It is extracted from the model once (`splitOps_run`, `splitQueries_run`, by mutual
structural induction over `Tabular` / `OpList`, so for every length and nesting); all
invariants of the C02 / C05 split properties are then ordinary inductions over `Run`.
-/
import PqlModel.Props.C02
namespace Pql.SplitQ
open Pql

/-- the operators of the default branch of `splitOps`: one fresh subquery each -/
def isPlain : Op → Bool
  | .count .. | .where_ .. | .project .. | .extend .. | .summarize .. | .render .. => true
  | _ => false

/-- the end of `splitQueries`: a pipeline without operators still gets its `SELECT *` -/
def closeBlock (mid : List Subquery) (dstStart : Nat) (source : Option Ident) : List Subquery :=
  if mid.length = dstStart then mid ++ [chainSubquery mid dstStart source] else mid

/-- left side of a join: the subquery in front of the right-hand block (index `n - 1` where `n`
    is the length of the list before the right-hand side was split), or the base table -/
def joinLeft (source : Option Ident) (dstStart n : Nat) (dst' : List Subquery) : List Chunk :=
  if ((n : Int) - 1) ≥ (dstStart : Int) then
    match dst'[((n : Int) - 1).toNat]? with
    | some s => [.qid s.name]
    | none => []
  else [.qid (identName source)]

/-- right side of a join: the last subquery of the right-hand block -/
def joinRight (dst' : List Subquery) : Bytes :=
  match dst'.getLast? with | some s => s.name | none => []

/-- the `FROM` clause of a join subquery -/
def joinSourceOf (unique : Bool) (kw : String) (left : List Chunk) (right : Bytes) (cond : List Chunk) :
    List Chunk :=
  (if unique then [.txt "(SELECT DISTINCT * FROM "] else []) ++ left ++
  (if unique then [.txt ")"] else []) ++
  [.txt (" AS \"" ++ Facts.leftJoinTableAlias ++ "\""), .txt kw, .qid right,
   .txt (" AS \"" ++ Facts.rightJoinTableAlias ++ "\" ON ")] ++ cond

/-- one successful run of the operator loop -/
inductive Run : Option Ident → Nat → List Subquery → OpList → List Subquery → Prop
  | nil {source dstStart dst} : Run source dstStart dst .nil dst
  | as_ {source dstStart dst rest out} (p k : Span) (name : Option Ident) :
      Run source dstStart
        (dst ++ [{ chainSubquery dst dstStart source with
                    name := identName name, op := some (.as_ p k name) }]) rest out →
      Run source dstStart dst (.cons (.as_ p k name) rest) out
  | plain {source dstStart dst rest out} (o : Op) (ho : isPlain o = true) :
      Run source dstStart (dst ++ [{ chainSubquery dst dstStart source with op := some o }]) rest out →
      Run source dstStart dst (.cons o rest) out
  | sortAttach {source dstStart dst rest out} (p k : Span) (terms : List SortTerm)
      (init : List Subquery) (l : Subquery) :
      dst = init ++ [l] → dstStart ≤ init.length →
      canAttachSort l.op = true → l.sort = none → l.take = none →
      Run source dstStart (init ++ [{ l with sort := some terms }]) rest out →
      Run source dstStart dst (.cons (.sort p k terms) rest) out
  | sortChain {source dstStart dst rest out} (p k : Span) (terms : List SortTerm) :
      Run source dstStart (dst ++ [{ chainSubquery dst dstStart source with sort := some terms }]) rest out →
      Run source dstStart dst (.cons (.sort p k terms) rest) out
  | takeAttach {source dstStart dst rest out} (p k : Span) (n : Expr)
      (init : List Subquery) (l : Subquery) :
      dst = init ++ [l] → dstStart ≤ init.length →
      canAttachSort l.op = true → l.take = none →
      Run source dstStart (init ++ [{ l with take := some n }]) rest out →
      Run source dstStart dst (.cons (.take p k n) rest) out
  | takeChain {source dstStart dst rest out} (p k : Span) (n : Expr) :
      Run source dstStart (dst ++ [{ chainSubquery dst dstStart source with take := some n }]) rest out →
      Run source dstStart dst (.cons (.take p k n) rest) out
  | topAttach {source dstStart dst rest out} (p k : Span) (n : Expr) (b : Span) (c : SortTerm)
      (init : List Subquery) (l : Subquery) :
      dst = init ++ [l] → dstStart ≤ init.length →
      canAttachSort l.op = true → l.sort = none → l.take = none →
      Run source dstStart (init ++ [{ l with sort := some [c], take := some n }]) rest out →
      Run source dstStart dst (.cons (.top p k n b (some c)) rest) out
  | topChain {source dstStart dst rest out} (p k : Span) (n : Expr) (b : Span) (c : SortTerm) :
      Run source dstStart
        (dst ++ [{ chainSubquery dst dstStart source with sort := some [c], take := some n }]) rest out →
      Run source dstStart dst (.cons (.top p k n b (some c)) rest) out
  | join {source dstStart dst rest out} (p k kind ka : Span) (flavor : Option Ident) (lp : Span)
      (rsource : Option Ident) (rops : OpList) (rp on : Span) (conds : ExprList)
      (unique : Bool) (kw : String) (cond : List Chunk) (mid dst' : List Subquery) :
      Run rsource dst.length dst rops mid →
      dst' = closeBlock mid dst.length rsource →
      Run source dstStart
        (dst' ++ [{ name := subqueryName dst'.length,
                    source := joinSourceOf unique kw (joinLeft source dstStart dst.length dst')
                      (joinRight dst') cond }]) rest out →
      Run source dstStart dst (.cons (.join p k kind ka flavor lp (.mk rsource rops) rp on conds) rest) out

/-- `lastOf` says the list ends with that subquery, at or after `dstStart` -/
theorem lastOf_eq_some {dst : List Subquery} {dstStart : Nat} {l : Subquery}
    (h : lastOf dst dstStart = some l) : ∃ init, dst = init ++ [l] ∧ dstStart ≤ init.length := by
  unfold lastOf at h
  split at h
  · rename_i hlen
    obtain ⟨init, hd⟩ := List.getLast?_eq_some_iff.mp h
    subst hd
    refine ⟨init, rfl, ?_⟩
    simp at hlen; omega
  · cases h

theorem setLast_const (init : List Subquery) (l : Subquery) (f : Subquery → Subquery) :
    setLast (init ++ [l]) f = init ++ [f l] := C02.setLast_append_singleton init l f

theorem lastOf_cases (dst : List Subquery) (dstStart : Nat) :
    (∃ init l, lastOf dst dstStart = some l ∧ dst = init ++ [l] ∧ dstStart ≤ init.length) ∨
      lastOf dst dstStart = none := by
  cases hl : lastOf dst dstStart with
  | none => right; rfl
  | some l =>
    obtain ⟨init, hd, hk⟩ := lastOf_eq_some hl
    exact .inl ⟨init, l, rfl, hd, hk⟩

/-! ### every successful run of the model is a `Run` (all lengths, all nestings) -/

mutual
theorem splitQueries_run (src : Bytes) (scope : List (Bytes × List Chunk)) :
    ∀ (t : Tabular) (dst out : List Subquery), splitQueries src scope dst t = .ok out →
      ∃ source ops mid, t = .mk source ops ∧ Run source dst.length dst ops mid ∧
        out = closeBlock mid dst.length source
  | .nil, dst, out, h => by
    unfold splitQueries at h; cases h
  | .mk source ops, dst, out, h => by
    unfold splitQueries at h
    simp only [bind, Except.bind] at h
    cases hq : splitOps src scope source dst.length dst ops with
    | error e => rw [hq] at h; cases h
    | ok mid =>
      rw [hq] at h
      refine ⟨source, ops, mid, rfl, splitOps_run src scope ops source dst.length dst mid hq, ?_⟩
      simp only [closeBlock]
      by_cases hlen : mid.length = dst.length
      · simp only [hlen, ↓reduceIte, pure, Except.pure] at h ⊢; cases h; rfl
      · simp only [hlen, ↓reduceIte, pure, Except.pure] at h ⊢; cases h; rfl
theorem splitOps_run (src : Bytes) (scope : List (Bytes × List Chunk)) :
    ∀ (ops : OpList) (source : Option Ident) (dstStart : Nat) (dst out : List Subquery),
      splitOps src scope source dstStart dst ops = .ok out → Run source dstStart dst ops out
  | .nil, source, dstStart, dst, out, h => by
    unfold splitOps at h
    cases h; exact Run.nil
  | .cons o rest, source, dstStart, dst, out, h => by
    unfold splitOps at h
    cases o with
    | count p k => exact Run.plain _ rfl (splitOps_run src scope rest _ _ _ _ h)
    | where_ p k e => exact Run.plain _ rfl (splitOps_run src scope rest _ _ _ _ h)
    | project p k cs => exact Run.plain _ rfl (splitOps_run src scope rest _ _ _ _ h)
    | extend p k cs => exact Run.plain _ rfl (splitOps_run src scope rest _ _ _ _ h)
    | summarize p k cs b gs => exact Run.plain _ rfl (splitOps_run src scope rest _ _ _ _ h)
    | render p k ch w lp props rp => exact Run.plain _ rfl (splitOps_run src scope rest _ _ _ _ h)
    | as_ p k name =>
      exact Run.as_ p k name (splitOps_run src scope rest _ _ _ _ h)
    | sort p k terms =>
      rcases lastOf_cases dst dstStart with ⟨init, l, hl, hd, hk⟩ | hl
      · rw [hl] at h
        by_cases hg : (canAttachSort l.op && l.sort.isNone && l.take.isNone) = true
        · simp only [hg, ↓reduceIte] at h
          subst hd
          rw [setLast_const] at h
          simp only [Bool.and_eq_true, Option.isNone_iff_eq_none] at hg
          exact Run.sortAttach p k terms init l rfl hk hg.1.1 hg.1.2 hg.2 (splitOps_run src scope rest _ _ _ _ h)
        · simp only [hg, Bool.false_eq_true, ↓reduceIte] at h
          rw [setLast_const] at h
          exact Run.sortChain p k terms (splitOps_run src scope rest _ _ _ _ h)
      · rw [hl] at h
        simp only [Bool.false_eq_true, ↓reduceIte] at h
        rw [setLast_const] at h
        exact Run.sortChain p k terms (splitOps_run src scope rest _ _ _ _ h)
    | take p k n =>
      rcases lastOf_cases dst dstStart with ⟨init, l, hl, hd, hk⟩ | hl
      · rw [hl] at h
        by_cases hg : (canAttachSort l.op && l.take.isNone) = true
        · simp only [hg, ↓reduceIte] at h
          subst hd
          rw [setLast_const] at h
          simp only [Bool.and_eq_true, Option.isNone_iff_eq_none] at hg
          exact Run.takeAttach p k n init l rfl hk hg.1 hg.2 (splitOps_run src scope rest _ _ _ _ h)
        · simp only [hg, Bool.false_eq_true, ↓reduceIte] at h
          rw [setLast_const] at h
          exact Run.takeChain p k n (splitOps_run src scope rest _ _ _ _ h)
      · rw [hl] at h
        simp only [Bool.false_eq_true, ↓reduceIte] at h
        rw [setLast_const] at h
        exact Run.takeChain p k n (splitOps_run src scope rest _ _ _ _ h)
    | top p k n b col =>
      cases col with
      | none => simp only at h; cases h
      | some c =>
        rcases lastOf_cases dst dstStart with ⟨init, l, hl, hd, hk⟩ | hl
        · rw [hl] at h
          by_cases hg : (canAttachSort l.op && l.sort.isNone && l.take.isNone) = true
          · simp only [hg, ↓reduceIte] at h
            subst hd
            rw [setLast_const] at h
            simp only [Bool.and_eq_true, Option.isNone_iff_eq_none] at hg
            exact Run.topAttach p k n b c init l rfl hk hg.1.1 hg.1.2 hg.2 (splitOps_run src scope rest _ _ _ _ h)
          · simp only [hg, Bool.false_eq_true, ↓reduceIte] at h
            rw [setLast_const] at h
            exact Run.topChain p k n b c (splitOps_run src scope rest _ _ _ _ h)
        · rw [hl] at h
          simp only [Bool.false_eq_true, ↓reduceIte] at h
          rw [setLast_const] at h
          exact Run.topChain p k n b c (splitOps_run src scope rest _ _ _ _ h)
    | join p k kind ka flavor lp right rp on conds =>
      simp only [bind, Except.bind] at h
      cases hq : splitQueries src scope dst right with
      | error e => rw [hq] at h; cases h
      | ok dst' =>
        rw [hq] at h
        simp only at h
        obtain ⟨rsource, rops, mid, hr, hrun, hd'⟩ := splitQueries_run src scope right dst dst' hq
        subst hr
        split at h
        · cases h
        · rename_i kw hkw
          cases hw : writeExpr { src := src, scope := scope, mode := Mode.join } (buildJoinCondition conds) with
          | error e => rw [hw] at h; cases h
          | ok cond =>
            rw [hw] at h
            simp only at h
            exact Run.join p k kind ka flavor lp rsource rops rp on conds
              _ kw cond mid dst' hrun hd'
              (splitOps_run src scope rest _ _ _ _ h)
end

end Pql.SplitQ
