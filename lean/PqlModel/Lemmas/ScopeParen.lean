/-
Relations between writer results used by the substitution theorems (C06):

* `ExRel R x y`: two `Except` results fail with the same error or both succeed with `R`-related
  values;
* `ChunkCong R`: `R` is reflexive and a congruence for `++` on chunk lists (hence for every
  frame the writers build around their operands);
* `StripOcc u xs ys`: `ys` is `xs` with some occurrences of `parenthesise u` replaced by `u`
  (the tight relation of the one-binding theorem: `u` is the text of the bound value);
* `EqUpToParens`: the least equivalence that is a congruence for `++` and contains
  `parenthesise xs ~ xs`.
-/
import PqlModel.Model.Compile
namespace Pql

/-! ### results related pointwise -/

def ExRel {ε α β : Type} (R : α → β → Prop) : Except ε α → Except ε β → Prop
  | .ok a, .ok b => R a b
  | .error e, .error e' => e = e'
  | _, _ => False

namespace ExRel
variable {ε α β γ δ : Type} {R : α → β → Prop} {S : γ → δ → Prop}

theorem ok_ok {a : α} {b : β} (h : R a b) : ExRel (ε := ε) R (.ok a) (.ok b) := h

theorem error_error (e : ε) : ExRel R (.error e : Except ε α) (.error e : Except ε β) := rfl

theorem pure_pure {a : α} {b : β} (h : R a b) : ExRel (ε := ε) R (pure a) (pure b) := h

/-- inversion -/
theorem cases_on {x : Except ε α} {y : Except ε β} (h : ExRel R x y) :
    (∃ a b, x = .ok a ∧ y = .ok b ∧ R a b) ∨ (∃ e, x = .error e ∧ y = .error e) := by
  cases x with
  | error e =>
    cases y with
    | error e' => exact Or.inr ⟨e, rfl, by rw [show e = e' from h]⟩
    | ok b => exact h.elim
  | ok a =>
    cases y with
    | error e' => exact h.elim
    | ok b => exact Or.inl ⟨a, b, rfl, rfl, h⟩

theorem bind {x : Except ε α} {y : Except ε β} {f : α → Except ε γ} {g : β → Except ε δ}
    (h : ExRel R x y) (hf : ∀ a b, R a b → ExRel S (f a) (g b)) : ExRel S (x >>= f) (y >>= g) := by
  rcases h.cases_on with ⟨a, b, rfl, rfl, hab⟩ | ⟨e, rfl, rfl⟩
  · exact hf a b hab
  · exact error_error e

/-- `bind`, remembering where the values came from -/
theorem bind' {x : Except ε α} {y : Except ε β} {f : α → Except ε γ} {g : β → Except ε δ}
    (h : ExRel R x y) (hf : ∀ a b, x = .ok a → y = .ok b → R a b → ExRel S (f a) (g b)) :
    ExRel S (x >>= f) (y >>= g) := by
  rcases h.cases_on with ⟨a, b, rfl, rfl, hab⟩ | ⟨e, rfl, rfl⟩
  · exact hf a b rfl rfl hab
  · exact error_error e

theorem map {x : Except ε α} {y : Except ε β} {f : α → γ} {g : β → δ}
    (h : ExRel R x y) (hf : ∀ a b, R a b → S (f a) (g b)) : ExRel S (x.map f) (y.map g) := by
  rcases h.cases_on with ⟨a, b, rfl, rfl, hab⟩ | ⟨e, rfl, rfl⟩
  · exact hf a b hab
  · exact error_error e

theorem mono {S' : α → β → Prop} {x : Except ε α} {y : Except ε β} (h : ExRel R x y)
    (hS : ∀ a b, R a b → S' a b) : ExRel S' x y := by
  rcases h.cases_on with ⟨a, b, rfl, rfl, hab⟩ | ⟨e, rfl, rfl⟩
  · exact hS a b hab
  · exact error_error e

theorem of_eq {x y : Except ε α} (h : x = y) : ExRel Eq x y := by
  subst h
  cases x with
  | error e => rfl
  | ok a => exact (rfl : a = a)

theorem eq {x y : Except ε α} (h : ExRel Eq x y) : x = y := by
  rcases h.cases_on with ⟨a, b, rfl, rfl, hab⟩ | ⟨e, rfl, rfl⟩
  · rw [show a = b from hab]
  · rfl

theorem refl' {R : α → α → Prop} (hR : ∀ a, R a a) (x : Except ε α) : ExRel R x x := by
  cases x with
  | error e => rfl
  | ok a => exact hR a

theorem symm' {R : α → α → Prop} (hR : ∀ a b, R a b → R b a) {x y : Except ε α} (h : ExRel R x y) :
    ExRel R y x := by
  rcases h.cases_on with ⟨a, b, rfl, rfl, hab⟩ | ⟨e, rfl, rfl⟩
  · exact hR a b hab
  · rfl

theorem trans' {R : α → α → Prop} (hR : ∀ a b c, R a b → R b c → R a c) {x y z : Except ε α}
    (h₁ : ExRel R x y) (h₂ : ExRel R y z) : ExRel R x z := by
  rcases h₁.cases_on with ⟨a, b, rfl, rfl, hab⟩ | ⟨e, rfl, rfl⟩
  · rcases h₂.cases_on with ⟨b', c, hb, rfl, hbc⟩ | ⟨e, hb, rfl⟩
    · cases hb
      exact hR a b c hab hbc
    · cases hb
  · rcases h₂.cases_on with ⟨b', c, hb, rfl, hbc⟩ | ⟨e', hb, rfl⟩
    · cases hb
    · cases hb
      rfl

theorem ite {c : Prop} [Decidable c] {a b : Except ε α} {a' b' : Except ε β}
    (h₁ : ExRel R a a') (h₂ : ExRel R b b') : ExRel R (if c then a else b) (if c then a' else b') := by
  split
  · exact h₁
  · exact h₂

/-- both succeed or both fail -/
theorem isOk_eq {x : Except ε α} {y : Except ε β} (h : ExRel R x y) : x.isOk = y.isOk := by
  rcases h.cases_on with ⟨a, b, rfl, rfl, _⟩ | ⟨e, rfl, rfl⟩ <;> rfl

end ExRel

/-- lists related elementwise (core has no `List.Forall₂`) -/
inductive ListRel {α β : Type} (R : α → β → Prop) : List α → List β → Prop
  | nil : ListRel R [] []
  | cons {a : α} {b : β} {as : List α} {bs : List β} : R a b → ListRel R as bs → ListRel R (a :: as) (b :: bs)

theorem ListRel.map {α β γ δ : Type} {R : α → β → Prop} {S : γ → δ → Prop} {f : α → γ} {g : β → δ}
    {as : List α} {bs : List β} (h : ListRel R as bs) (hf : ∀ a b, R a b → S (f a) (g b)) :
    ListRel S (as.map f) (bs.map g) := by
  induction h with
  | nil => exact .nil
  | cons hab _ ih => exact .cons (hf _ _ hab) ih

theorem ListRel.eq {α : Type} {as bs : List α} (h : ListRel Eq as bs) : as = bs := by
  induction h with
  | nil => rfl
  | cons hab _ ih => rw [hab, ih]

/-! ### congruences on chunk lists -/

structure ChunkCong (R : List Chunk → List Chunk → Prop) : Prop where
  refl : ∀ xs, R xs xs
  append : ∀ {a a' b b'}, R a a' → R b b' → R (a ++ b) (a' ++ b')

namespace ChunkCong
variable {R : List Chunk → List Chunk → Prop}

theorem cons (hR : ChunkCong R) (c : Chunk) {a a' : List Chunk} (h : R a a') : R (c :: a) (c :: a') :=
  hR.append (hR.refl [c]) h

theorem parenthesise (hR : ChunkCong R) {a a' : List Chunk} (h : R a a') :
    R (parenthesise a) (parenthesise a') :=
  hR.cons _ (hR.append h (hR.refl _))

theorem wrapMaybe (hR : ChunkCong R) (x : Expr) {a a' : List Chunk} (h : R a a') :
    R (wrapMaybe x a) (wrapMaybe x a') := by
  unfold Pql.wrapMaybe
  split
  · exact hR.parenthesise h
  · exact h

theorem wrapTight (hR : ChunkCong R) (x : Expr) {a a' : List Chunk} (h : R a a') :
    R (wrapTight x a) (wrapTight x a') := by
  unfold Pql.wrapTight
  split
  · exact hR.parenthesise h
  · exact hR.wrapMaybe x h

theorem sepChunks (hR : ChunkCong R) (sep : String) {as as' : List (List Chunk)}
    (h : ListRel R as as') : R (sepChunks sep as) (sepChunks sep as') := by
  induction h with
  | nil => exact hR.refl _
  | @cons a a' l l' hab hl ih =>
    cases hl with
    | nil => exact hab
    | cons hb hl' =>
      simp only [Pql.sepChunks]
      exact hR.append hab (hR.cons _ ih)

theorem eq : ChunkCong (@Eq (List Chunk)) :=
  ⟨fun _ => rfl, fun h₁ h₂ => by rw [h₁, h₂]⟩

end ChunkCong

/-- closes goals `R frame frame'` where the two frames differ in related operands only -/
macro "chunk_frame" hR:term : tactic =>
  `(tactic| repeat (first
      | assumption
      | exact ChunkCong.refl $hR _
      | apply ChunkCong.cons $hR
      | apply ChunkCong.append $hR))

/-! ### the tight relation: occurrences of one unit lose their parentheses -/

inductive StripOcc (u : List Chunk) : List Chunk → List Chunk → Prop
  | refl (xs : List Chunk) : StripOcc u xs xs
  | strip : StripOcc u (parenthesise u) u
  | append {a a' b b' : List Chunk} : StripOcc u a a' → StripOcc u b b' → StripOcc u (a ++ b) (a' ++ b')

theorem StripOcc.cong (u : List Chunk) : ChunkCong (StripOcc u) :=
  ⟨StripOcc.refl, StripOcc.append⟩

/-! ### equality up to parentheses -/

inductive EqUpToParens : List Chunk → List Chunk → Prop
  | refl (xs : List Chunk) : EqUpToParens xs xs
  | symm {xs ys : List Chunk} : EqUpToParens xs ys → EqUpToParens ys xs
  | trans {xs ys zs : List Chunk} : EqUpToParens xs ys → EqUpToParens ys zs → EqUpToParens xs zs
  | strip (xs : List Chunk) : EqUpToParens (parenthesise xs) xs
  | append {a a' b b' : List Chunk} : EqUpToParens a a' → EqUpToParens b b' → EqUpToParens (a ++ b) (a' ++ b')

theorem EqUpToParens.cong : ChunkCong EqUpToParens :=
  ⟨EqUpToParens.refl, EqUpToParens.append⟩

theorem EqUpToParens.equivalence : Equivalence EqUpToParens :=
  ⟨EqUpToParens.refl, EqUpToParens.symm, EqUpToParens.trans⟩

/-- redundant double parentheses -/
theorem EqUpToParens.double (xs : List Chunk) : EqUpToParens (parenthesise (parenthesise xs)) (parenthesise xs) :=
  .strip _

theorem StripOcc.eqUpToParens {u xs ys : List Chunk} (h : StripOcc u xs ys) : EqUpToParens xs ys := by
  induction h with
  | refl xs => exact .refl xs
  | strip => exact .strip u
  | append _ _ ih₁ ih₂ => exact .append ih₁ ih₂

/-- the chunks that are not a grouping parenthesis -/
def eraseParens (cs : List Chunk) : List Chunk := cs.filter fun c => c != .txt "(" && c != .txt ")"

theorem eraseParens_append (a b : List Chunk) : eraseParens (a ++ b) = eraseParens a ++ eraseParens b := by
  simp [eraseParens]

theorem eraseParens_parenthesise (a : List Chunk) : eraseParens (parenthesise a) = eraseParens a := by
  simp [eraseParens, parenthesise]

/-- a reader that does not look at `renderChunks`: related lists carry the same identifiers,
    literals, parameters and fixed pieces of SQL, in the same order -/
theorem EqUpToParens.eraseParens_eq {xs ys : List Chunk} (h : EqUpToParens xs ys) :
    eraseParens xs = eraseParens ys := by
  induction h with
  | refl => rfl
  | symm _ ih => exact ih.symm
  | trans _ _ ih₁ ih₂ => exact ih₁.trans ih₂
  | strip xs => exact eraseParens_parenthesise xs
  | append _ _ ih₁ ih₂ => rw [eraseParens_append, eraseParens_append, ih₁, ih₂]

end Pql
