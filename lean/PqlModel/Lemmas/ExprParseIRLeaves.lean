/-
`ExprParseIR`, the leaves: the units `endSplit`, `ident`, `qualifiedIdent`, `split` interpreted on the abstract
reading of a parser equal the model's `endSplit`, `pIdent`, `pQualifiedIdent`, `split`.
-/
import PqlModel.Lemmas.ExprParseIRCursor
namespace Pql.ExprParseIR
open Pql
set_option linter.unusedSimpArgs false
set_option maxRecDepth 8000

/-! ### `endSplit` -/

/-- **`endSplit`, translated.**  On a parser made by `split` (`splitKind` set) it is the model's
    `endSplit` of what is left; on any other parser it is the positionless "internal error".
    The receiver is unchanged. -/
theorem endSplit_ir (c : ICtx) (p : PState) :
    runEndSplit c p = .ok ([.err (endSplitP p)], { p with back := none }) := by
  obtain ⟨rest, back, sk⟩ := p
  cases sk with
  | none => ir_simp [runEndSplit, endSplitIR_ir, endSplitIR, params_endSplit, results_endSplit, endSplitP]
  | some k =>
    have hk : (kindValue k).map (· == 0) = some false := kindValue_ne_zero k
    cases rest with
    | nil =>
      ir_simp [runEndSplit, endSplitIR_ir, endSplitIR, params_endSplit, results_endSplit, endSplitP, hk, endSplit]
    | cons t ts =>
      by_cases h1 : k = .pipe
      · subst h1
        ir_simp [runEndSplit, endSplitIR_ir, endSplitIR, params_endSplit, results_endSplit, endSplitP, hk, endSplit]
      · by_cases h2 : k = .rparen
        · subst h2
          ir_simp [runEndSplit, endSplitIR_ir, endSplitIR, params_endSplit, results_endSplit, endSplitP, hk, endSplit]
        · by_cases h3 : k = .rbracket
          · subst h3
            ir_simp [runEndSplit, endSplitIR_ir, endSplitIR, params_endSplit, results_endSplit, endSplitP, hk, endSplit]
          · ir_simp [runEndSplit, endSplitIR_ir, endSplitIR, params_endSplit, results_endSplit, endSplitP, hk, endSplit,
              h1, h2, h3]

/-! ### `ident` -/

/-- **`ident`, translated.** -/
theorem ident_ir (c : ICtx) (p : PState) :
    runIdent c p =
      .ok ([.ident (pIdent c.pctx p.rest).val, .err (pIdent c.pctx p.rest).errs],
           { p with rest := (pIdent c.pctx p.rest).rest, back := none }) := by
  obtain ⟨rest, back, sk⟩ := p
  cases rest with
  | nil =>
    ir_simp [runIdent, identIR_ir, identIR, params_ident, results_ident, pIdent, nextTokV, PCtx.eof, Span.index,
      ICtx.pctx]
  | cons t ts =>
    by_cases h1 : t.kind = .ident
    · ir_simp [runIdent, identIR_ir, identIR, params_ident, results_ident, pIdent, nextTokV, h1, Token.span]
    · by_cases h2 : t.kind = .qident
      · ir_simp [runIdent, identIR_ir, identIR, params_ident, results_ident, pIdent, nextTokV, h2, Token.span]
      · ir_simp [runIdent, identIR_ir, identIR, params_ident, results_ident, pIdent, nextTokV, h1, h2, PCtx.eof,
          Span.index, ICtx.pctx]

/-! ### `qualifiedIdent` -/

/-- the body of the loop of `qualifiedIdent` -/
def qualLoopBody : List Stmt :=
  [.assign true [.var "tok", .blank] (.pcall "p" "next" []),
   .ite (.cmp "ne" (.field (.var "tok") "Kind") (.kind "TokenDot")) [.do_ (.pcall "p" "prev" []), .ret [.var "qid", .nil]] [],
   .assign true [.var "sel", .var "err"] (.pcall "p" "ident" []),
   .ite (.cmp "ne" (.var "err") (.nil)) [.ret [.var "qid", .call "makeErrorOpaque" [.var "err"]]] [],
   .assign false [.field "qid" "Parts"] (.e (.append (.field (.var "qid") "Parts") (.var "sel")))]

theorem qualifiedIdentIR_loop :
    qualifiedIdentIR =
      [.assign true [.var "id", .var "err"] (.pcall "p" "ident" []),
       .ite (.cmp "ne" (.var "err") (.nil)) [.ret [.nil, .var "err"]] [],
       .assign true [.var "qid"] (.e (.mcall "AsQualified" (.var "id"))),
       .loop "" (.bool true) qualLoopBody] := rfl

theorem qualLoop_notLeaves : leaves qualLoopBody = false := by rfl

theorem identSem_ident (c : ICtx) (b : Nat) (p : PState) : (identSem c).call b "ident" [] p = runIdent c p := by
  simp [identSem]

/-- the loop of `qualifiedIdent` is `pQualTail`, whenever the budget exceeds the number of tokens left -/
theorem qualLoop (c : ICtx) (id0 : Ident) (sk : Option TokKind) :
    ∀ (b : Nat) (parts : List Ident) (ts : List Token), ts.length < b →
      (iter (loopStep c (identSem c) (.bool true) qualLoopBody) "" b
          ⟨[("qid", .qid (some parts)), ("err", .err []), ("id", .ident (some id0)),
            ("p", .parser ⟨ts, none, sk⟩)]⟩).bind (finish "p" ["*QualifiedIdent", "error"]) =
        .ok ([.qid (some (pQualTail c.pctx b parts ts).val), .err (pQualTail c.pctx b parts ts).errs],
             .parser ⟨(pQualTail c.pctx b parts ts).rest, none, sk⟩) := by
  intro b
  induction b with
  | zero => intro parts ts h; omega
  | succ b ih =>
    intro parts ts h
    rw [iter]
    cases ts with
    | nil =>
      ir_simp [loopStep, qualLoopBody, nextTokV, pQualTail]
    | cons t rest =>
      by_cases hd : t.kind = .dot
      · -- a dot: the selector
        have hi := ident_ir c ⟨rest, none, sk⟩
        cases rest with
        | nil =>
          ir_simp [loopStep, qualLoopBody, nextTokV, pQualTail, hd, identSem_ident, hi, pIdent, PCtx.eof, Span.index,
            ICtx.pctx, mkOpaque, nfAt]
        | cons u more =>
          by_cases hu : u.kind = .ident ∨ u.kind = .qident
          · have hlen : more.length < b := by simp at h; omega
            have := ih (parts ++ [⟨u.value, u.span, u.kind = .qident⟩]) more hlen
            unfold qualLoopBody at this
            ir_simp [loopStep, qualLoopBody, nextTokV, pQualTail, hd, identSem_ident, hi, pIdent, hu, this]
          · ir_simp [loopStep, qualLoopBody, nextTokV, pQualTail, hd, identSem_ident, hi, pIdent, hu, PCtx.eof,
              Span.index, ICtx.pctx, mkOpaque, nfAt]
      · ir_simp [loopStep, qualLoopBody, nextTokV, pQualTail, hd]

/-- **`qualifiedIdent`, translated.** -/
theorem qualifiedIdent_ir (c : ICtx) (p : PState) :
    runQualifiedIdent c p =
      .ok ([.qid (pQualifiedIdent c.pctx p.rest).val, .err (pQualifiedIdent c.pctx p.rest).errs],
           { p with rest := (pQualifiedIdent c.pctx p.rest).rest, back := none }) := by
  obtain ⟨ts, back, sk⟩ := p
  have hi := ident_ir c ⟨ts, none, sk⟩
  cases ts with
  | nil =>
    ir_simp [runQualifiedIdent, qualifiedIdentIR_ir, qualifiedIdentIR_loop, params_qualifiedIdent,
      results_qualifiedIdent, identSem_ident, hi, pQualifiedIdent, pIdent, nfAt]
  | cons t rest =>
    by_cases ht : t.kind = .ident ∨ t.kind = .qident
    · have hl := qualLoop c ⟨t.value, t.span, t.kind = .qident⟩ sk (rest.length + 1)
        [⟨t.value, t.span, t.kind = .qident⟩] rest (by omega)
      ir_simp [runQualifiedIdent, qualifiedIdentIR_ir, qualifiedIdentIR_loop, params_qualifiedIdent,
        results_qualifiedIdent, identSem_ident, hi, pQualifiedIdent, pIdent, ht, exec_loop, qualLoop_notLeaves]
      ir_simp [hl]
    · ir_simp [runQualifiedIdent, qualifiedIdentIR_ir, qualifiedIdentIR_loop, params_qualifiedIdent,
        results_qualifiedIdent, identSem_ident, hi, pQualifiedIdent, pIdent, ht, nfAt]

end Pql.ExprParseIR
