/-
C05, syntactic half, stage 2 (c): the comparison `selectEq (normSel ·) (normSel ·)` of the oracle
follows from field-wise agreement up to `normS` (`SelRel`).
-/
import PqlModel.Lemmas.ParseStmtClauses
namespace Pql.C05
set_option linter.unusedSimpArgs false
open Pql Sql CompileOracle Intended Pql.RT

mutual
theorem sexpr_beq_refl : ∀ a : SExpr, SExpr.beq a a = true
  | .col _ | .str _ | .num _ | .param _ | .const _ => by simp [SExpr.beq]
  | .call f s as fl => by simp [SExpr.beq, sexprList_beq_refl as, sexpr_beq_refl fl]
  | .case_ a b c => by simp [SExpr.beq, sexpr_beq_refl a, sexpr_beq_refl b, sexpr_beq_refl c]
  | .neg a | .pos a | .not_ a => by simp [SExpr.beq, sexpr_beq_refl a]
  | .bin o a b => by simp [SExpr.beq, sexpr_beq_refl a, sexpr_beq_refl b]
  | .isNull a n => by simp [SExpr.beq, sexpr_beq_refl a]
  | .inList a as => by simp [SExpr.beq, sexpr_beq_refl a, sexprList_beq_refl as]
  | .index a i => by simp [SExpr.beq, sexpr_beq_refl a, sexpr_beq_refl i]
  | .none_ => by simp [SExpr.beq]
theorem sexprList_beq_refl : ∀ a : SExprList, SExprList.beq a a = true
  | .nil => by simp [SExprList.beq]
  | .cons a as => by simp [SExprList.beq, sexpr_beq_refl a, sexprList_beq_refl as]
end

theorem NormEq.beq {s w : SExpr} (h : NormEq s w) : (normS s == normS w) = true := by
  unfold NormEq at h
  rw [h]
  exact sexpr_beq_refl _

def JoinRel (j k : JoinClause) : Prop := j.left = k.left ∧ j.table = k.table ∧ NormEq j.on k.on

/-- field-wise agreement of the parsed SELECT with the intended one -/
structure SelRel (a b : Select) : Prop where
  distinct : a.distinct = b.distinct
  items : ListRel ItemRel a.items b.items
  source : a.source = b.source
  join : OptRel JoinRel a.join b.join
  where_ : OptRel NormEq a.where_ b.where_
  groupBy : ListRel NormEq a.groupBy b.groupBy
  orderBy : ListRel OrdRel a.orderBy b.orderBy
  limit : OptRel NormEq a.limit b.limit

theorem tableRefEq_refl (t : TableRef) : tableRefEq t t = true := by
  cases t <;> simp [tableRefEq]

theorem optEq_of_rel {a b : Option SExpr} (h : OptRel NormEq a b) : optEq (a.map normS) (b.map normS) = true := by
  cases h with
  | none => rfl
  | some h => simpa [optEq] using h.beq

theorem items_all {a b : List SelectItem} (h : ListRel ItemRel a b) :
    ((a.map fun it => { it with expr := normS it.expr }).zip (b.map fun it => { it with expr := normS it.expr })).all
      (fun (x, y) => x.star == y.star && x.expr == y.expr && x.alias == y.alias) = true := by
  induction h with
  | nil => rfl
  | cons hab _ ih =>
    obtain ⟨h1, h2, h3⟩ := hab
    simp only [List.map_cons, List.zip_cons_cons, List.all_cons, ih, Bool.and_true]
    simp [h1, h3, h2.beq]

theorem order_all {a b : List OrderTerm} (h : ListRel OrdRel a b) :
    ((a.map fun o => { o with expr := normS o.expr }).zip (b.map fun o => { o with expr := normS o.expr })).all
      (fun (x, y) => x.expr == y.expr && x.asc == y.asc && x.nullsFirst == y.nullsFirst) = true := by
  induction h with
  | nil => rfl
  | cons hab _ ih =>
    obtain ⟨h1, h2, h3⟩ := hab
    simp only [List.map_cons, List.zip_cons_cons, List.all_cons, ih, Bool.and_true]
    simp [h2, h3, h1.beq]

theorem listEq_of_rel {a b : List SExpr} (h : ListRel NormEq a b) : listEq (a.map normS) (b.map normS) = true := by
  unfold listEq
  have hl := h.length_eq
  have : ((a.map normS).zip (b.map normS)).all (fun (x, y) => x == y) = true := by
    induction h with
    | nil => rfl
    | cons hab _ ih =>
      simp only [List.map_cons, List.zip_cons_cons, List.all_cons, ih (ListRel.length_eq ‹_›), Bool.and_true]
      exact hab.beq
  simp [hl, this]

theorem selectEq_of_rel {a b : Select} (h : SelRel a b) : selectEq (normSel a) (normSel b) = true := by
  obtain ⟨da, ia, sa, ja, wa, ga, oa, la⟩ := a
  obtain ⟨db, ib, sb, jb, wb, gb, ob, lb⟩ := b
  obtain ⟨h1, h2, h3, h4, h5, h6, h7, h8⟩ := h
  simp only at h1 h2 h3 h4 h5 h6 h7 h8
  subst h1 h3
  have e2 := items_all h2
  have e7 := order_all h7
  have e5 := optEq_of_rel h5
  have e8 := optEq_of_rel h8
  have e6 := listEq_of_rel h6
  unfold selectEq normSel
  cases h4 with
  | none =>
    simp only [tableRefEq_refl, List.length_map, h2.length_eq, h7.length_eq, e2, e7, e5, e8, e6, Option.map_none,
      beq_self_eq_true, Bool.and_self]
  | some hab =>
    obtain ⟨e1, e2', e3⟩ := hab
    simp only [tableRefEq_refl, List.length_map, h2.length_eq, h7.length_eq, e2, e7, e5, e8, e6, Option.map_some,
      beq_self_eq_true, Bool.and_self, e1, e2', e3.beq, Bool.and_true]

end Pql.C05
