/-
`(*scanner).ident` as translated against the model's `scanIdent`: the continuation loop, the span, the
keyword lookup in the regenerated table.
-/
import PqlModel.Lemmas.LexScanIRCore
import PqlModel.Lemmas.DispatchSub
namespace Pql.ScanIR
open Pql
open Pql.LexIR (IErr M BinOp goPanic stuck irOf)
set_option linter.unusedSimpArgs false
set_option linter.unusedVariables false

/-- `s.ident()` on a suffix that begins with an identifier-start byte -/
def SpecIdent (fuel : Nat) (f : Fn) : Prop := ∀ (pre s : Bytes) (l : Nat) (bs : List (Nat × Bytes)) (c : UInt8) (rest : Bytes),
  s = c :: rest → isIdentStart c = true → s.length < fuel →
  ∃ l', f [.scanner] (hp pre s 0 l bs) = .ok ([tokAt pre.length (scanIdent s)], hp pre s (scanIdent s).width l' bs)

/-- the state inside `ident` around the loop -/
def identSt (p0 : Nat) (h : Store) : State := ⟨[("start", .int p0), ("s", .scanner)], h⟩

theorem leave_identSt (p0 : Nat) (h h' : Store) (x y : String × Val) :
    (State.leave ⟨x :: y :: (identSt p0 h).vars, h⟩ (identSt p0 h')) = identSt p0 h := by
  simp [State.leave, identSt]

theorem identCont_rune (c : UInt8) (rest : Bytes) (r w : Nat) (hr : decodeRune (c :: rest) = (r, w)) :
    (alphaR r || digitR r || decide (r = 95)) = isIdentCont c := by
  have h1 := alphaR_rune c rest
  have h2 := digitR_rune c rest
  have h3 := LexIR.rune_eq c rest 95 (by omega)
  rw [hr] at h1 h2 h3
  simp only [isIdentCont, h1, h2]
  congr 1
  by_cases h : r = 95
  · have := h3.mp h; subst this; simp [h]
  · have : ¬ c = 95 := fun e => h (h3.mpr e)
    simp [h, this]

theorem isIdentCont_lt (c : UInt8) (h : isIdentCont c = true) : c.toNat < 128 := by
  simp only [isIdentCont, Bool.or_eq_true, beq_iff_eq] at h
  rcases h with (h | h) | h
  · exact isAlpha_lt c h
  · exact LexIR.isDigit_lt c h
  · subst h; decide

/-- one pass through the loop: at the end of the input -/
theorem ident_body_end (env : Env) (fuel : Nat) (E : CursorEnv env) (pre s : Bytes) (p0 k l : Nat) (bs : List (Nat × Bytes))
    (hlen : s.length ≤ k) :
    execBlock env fuel identLoopBody (identSt p0 (hp pre s k l bs)) =
      .ok (.brk, ⟨("ok", .bool false) :: ("c", .int 0) :: (identSt p0 (hp pre s k l bs)).vars, hp pre s k l bs⟩) := by
  obtain ⟨fN, hN, sN⟩ := E.next
  unfold identLoopBody identSt
  ls_simp [hN, next_end sN pre s k l bs hlen]

/-- … at a continuation byte -/
theorem ident_body_cont (env : Env) (fuel : Nat) (E : CursorEnv env) (pre s : Bytes) (p0 k l : Nat) (bs : List (Nat × Bytes))
    (c1 : UInt8) (rest : Bytes) (hd : s.drop k = c1 :: rest) (hc : isIdentCont c1 = true) :
    ∃ r, execBlock env fuel identLoopBody (identSt p0 (hp pre s k l bs)) =
      .ok (.next, ⟨("ok", .bool true) :: ("c", .int r) :: (identSt p0 (hp pre s (k + 1) (pre.length + k) bs)).vars,
        hp pre s (k + 1) (pre.length + k) bs⟩) := by
  obtain ⟨fN, hN, sN⟩ := E.next
  obtain ⟨fA, hA, sA⟩ := E.isAlpha
  obtain ⟨fD, hD, sD⟩ := E.isDigit
  obtain ⟨r, w, hr, _, hq, _, _, hw, _⟩ := rune_facts c1 rest
  have hw1 : w = 1 := hw (isIdentCont_lt c1 hc)
  subst hw1
  have nx := next_cons' sN pre s k l bs c1 rest r 1 hd hr
  have hcc := identCont_rune c1 rest r 1 hr
  rw [hc] at hcc
  refine ⟨r, ?_⟩
  unfold identLoopBody identSt identCont
  have sA' : ∀ r h, fA [.int r] h = .ok ([.bool (alphaR r)], h) := sA
  have sD' : ∀ r h, fD [.int r] h = .ok ([.bool (digitR r)], h) := sD
  cases ha : alphaR r <;> cases hdg : digitR r <;> cases h95 : decide (r = 95) <;>
    simp [ha, hdg, h95] at hcc <;>
    ls_simp [hN, nx, hA, hD, sA', sD', ha, hdg, h95]

/-- … at anything else -/
theorem ident_body_other (env : Env) (fuel : Nat) (E : CursorEnv env) (pre s : Bytes) (p0 k l : Nat) (bs : List (Nat × Bytes))
    (c1 : UInt8) (rest : Bytes) (hd : s.drop k = c1 :: rest) (hc : isIdentCont c1 = false) :
    ∃ r, execBlock env fuel identLoopBody (identSt p0 (hp pre s k l bs)) =
      .ok (.brk, ⟨("ok", .bool true) :: ("c", .int r) :: (identSt p0 (hp pre s k (pre.length + k) bs)).vars,
        hp pre s k (pre.length + k) bs⟩) := by
  obtain ⟨fN, hN, sN⟩ := E.next
  obtain ⟨fP, hP, sP⟩ := E.prev
  obtain ⟨fA, hA, sA⟩ := E.isAlpha
  obtain ⟨fD, hD, sD⟩ := E.isDigit
  obtain ⟨r, w, hr, _, hq, _, _, hw, _⟩ := rune_facts c1 rest
  have nx := next_cons' sN pre s k l bs c1 rest r w hd hr
  have hcc := identCont_rune c1 rest r w hr
  rw [hc] at hcc
  refine ⟨r, ?_⟩
  unfold identLoopBody identSt identCont
  have sA' : ∀ r h, fA [.int r] h = .ok ([.bool (alphaR r)], h) := sA
  have sD' : ∀ r h, fD [.int r] h = .ok ([.bool (digitR r)], h) := sD
  cases ha : alphaR r <;> cases hdg : digitR r <;> cases h95 : decide (r = 95) <;>
    simp [ha, hdg, h95] at hcc <;>
    ls_simp [hN, hP, nx, hA, hD, sA', sD', ha, hdg, h95, prev_hp sP pre s k]

/-- **the continuation loop** -/
theorem ident_loop (env : Env) (fuel : Nat) (E : CursorEnv env) (pre s : Bytes) (p0 : Nat) (bs : List (Nat × Bytes)) :
    ∀ (n k l : Nat), k ≤ s.length → s.length - k < n →
      ∃ l', foreverLoop (execBlock env fuel identLoopBody) n (identSt p0 (hp pre s k l bs)) =
        .ok (.next, identSt p0 (hp pre s (k + identLoop (s.drop k)) l' bs)) := by
  intro n
  induction n with
  | zero => intro k l _ h; omega
  | succ n ih =>
    intro k l hk hn
    cases hd : s.drop k with
    | nil =>
      have hlen : s.length ≤ k := List.drop_eq_nil_iff.mp hd
      refine ⟨l, ?_⟩
      simp only [foreverLoop, ident_body_end env fuel E pre s p0 k l bs hlen, bind, Except.bind, pure, Except.pure,
        leave_identSt, identLoop, Nat.add_zero]
    | cons c1 rest =>
      have hlt := LexIR.lt_of_drop_cons hd
      cases hc : isIdentCont c1 with
      | true =>
        obtain ⟨r, hb⟩ := ident_body_cont env fuel E pre s p0 k l bs c1 rest hd hc
        obtain ⟨l', e⟩ := ih (k + 1) (pre.length + k) (by omega) (by omega)
        refine ⟨l', ?_⟩
        rw [LexIR.drop_succ_of_cons hd] at e
        have hdl : identLoop (c1 :: rest) = identLoop rest + 1 := by simp [identLoop, hc]
        simp only [foreverLoop, hb, bind, Except.bind, leave_identSt, e, hdl]
        simp [Nat.add_assoc, Nat.add_comm 1]
      | false =>
        obtain ⟨r, hb⟩ := ident_body_other env fuel E pre s p0 k l bs c1 rest hd hc
        have hdl : identLoop (c1 :: rest) = 0 := by simp [identLoop, hc]
        refine ⟨pre.length + k, ?_⟩
        simp only [foreverLoop, hb, bind, Except.bind, pure, Except.pure, leave_identSt, hdl, Nat.add_zero]

theorem isIdentStart_lt (c : UInt8) (h : isIdentStart c = true) : c.toNat < 128 := by
  simp only [isIdentStart, Bool.or_eq_true, beq_iff_eq] at h
  rcases h with (h | h) | h
  · exact isAlpha_lt c h
  · subst h; decide
  · subst h; decide

theorem take_at (pre s : Bytes) (w : Nat) :
    List.take (pre.length + w - pre.length) (List.drop pre.length (pre ++ s)) = s.take w := by
  simp

/-- **`ident` is the model's `scanIdent`** -/
theorem ident_spec (env : Env) (fuel : Nat) (E : CursorEnv env) : SpecIdent fuel (interpFn env fuel identDecl) := by
  intro pre s l bs c rest hs hc hfuel
  obtain ⟨fN, hN, sN⟩ := E.next
  obtain ⟨fA, hA, sA⟩ := E.newSpan
  obtain ⟨fS, hS, sS⟩ := E.spanString
  have hd : s.drop 0 = c :: rest := by simp [hs]
  have nx := next_cons' sN pre s 0 l bs c rest c.toNat 1 hd
    (Dispatch.decodeRune_ascii' c rest (isIdentStart_lt c hc))
  obtain ⟨l', hl⟩ := ident_loop env fuel E pre s (pre.length + 0) bs fuel (0 + 1) (pre.length + 0)
    (by subst hs; simp) (by omega)
  have hdrop : s.drop (0 + 1) = s.tail := by subst hs; rfl
  rw [hdrop] at hl
  have hle : identLoop s.tail + 1 ≤ s.length := by
    subst hs
    have := identLoop_le rest
    simp; omega
  have hw : 0 + 1 + identLoop s.tail = identLoop s.tail + 1 := by omega
  rw [hw] at hl
  simp only [identSt] at hl
  refine ⟨l', ?_⟩
  have hval := sS (pre ++ s) (pre.length + 0) (pre.length + (identLoop s.tail + 1)) (hp pre s (identLoop s.tail + 1) l' bs)
    (by omega) (by simp; omega)
  have htk : List.take (pre.length + (identLoop s.tail + 1) - (pre.length + 0)) (List.drop (pre.length + 0) (pre ++ s)) =
      s.take (identLoop s.tail + 1) := by simp
  rw [htk] at hval
  have sA' : ∀ a b h, fA [.int a, .int b] h = .ok ([.span a b], h) := sA
  simp only [Nat.add_zero, Nat.zero_add] at nx hl hval
  unfold identDecl identRest scanIdent keywordKind tokAt
  cases hf : Facts.keywords.find? (fun kv => Bytes.ofString kv.1 == List.take (identLoop s.tail + 1) s) with
  | none =>
    ls_simp [hN, nx, hl, hA, sA', hS, hval, kind_ident, ofString_empty, mapGet2, hf]
  | some kv =>
    have hm := List.mem_of_find?_eq_some hf
    have := (List.all_eq_true.mp Dispatch.keyword_kinds_known) kv hm
    cases hk : TokKind.ofGoName kv.2 with
    | none => simp [hk] at this
    | some kd =>
      ls_simp [hN, nx, hl, hA, sA', hS, hval, kind_ident, ofString_empty, mapGet2, hf, hk]

end Pql.ScanIR
