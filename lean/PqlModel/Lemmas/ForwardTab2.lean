/-
Stage 2 of property C07 (forward direction): the mutually recursive block
`pTabular` / `pOps` / `pOperator` / `pJoin`, by induction on the fuel (`TabFwd c fuel`).  Each
statement also yields that the tokens are passed over by the `split`s of the enclosing
productions (`TabPasses`, `OpPasses`), which the enclosing step needs before it can use the
sub-parser's result.
-/
import PqlModel.Lemmas.ForwardTab
namespace Pql
open Grammar

def appendOps : OpList → OpList → OpList
  | .nil, l => l
  | .cons o os, l => .cons o (appendOps os l)

theorem appendOps_snoc : ∀ (a : OpList) (o : Op) (l : OpList), appendOps (a.snoc o) l = appendOps a (.cons o l)
  | .nil, _, _ => rfl
  | .cons x xs, o, l => by simp only [OpList.snoc, appendOps, appendOps_snoc xs o l]

theorem appendOps_nil : ∀ (a : OpList), appendOps a .nil = a
  | .nil => rfl
  | .cons x xs => by simp only [appendOps, appendOps_nil xs]

/-- the header `kind = flavor` of a join, as `unparseOp` writes it -/
def joinHdr (fl : Option Ident) (kind ka : Span) : Option (List UTok) :=
  match fl with
  | some f => some [kwTok ["kind"] kind, sym .assign ka, identTok f]
  | none => if kind.isValid || ka.isValid then none else some []

structure TabFwd (c : PCtx) (f : Nat) : Prop where
  tab : ∀ (t : Tabular) (ts : List Token), wfTabular t = true → canonTabular t = true →
    RealBy unparseTabular t ts → 4 * ts.length + 1 ≤ f → pTabular c f ts = ⟨t, [], []⟩ ∧ TabPasses ts
  ops : ∀ (ops0 ops : OpList) (acc : Errs) (ts : List Token), wfOps ops = true → canonOps ops = true →
    RealBy unparseOps ops ts → 4 * ts.length + 2 ≤ f →
    pOps c f ops0 acc ts = ⟨appendOps ops0 ops, acc, []⟩ ∧ TabPasses ts
  operator : ∀ (o : Op) (to : List Token), wfOp o = true → canonOp o = true → RealBy unparseOp o to →
    4 * to.length + 1 ≤ f → OpParsed c f o to
  join : ∀ (pipe kw kind ka : Span) (fl : Option Ident) (lp : Span) (right : Tabular) (rp on : Span)
    (conds : ExprList) (hdr r cs : List UTok) (ts : List Token),
    wfOp (.join pipe kw kind ka fl lp right rp on conds) = true →
    canonOp (.join pipe kw kind ka fl lp right rp on conds) = true →
    joinHdr fl kind ka = some hdr → unparseTabular right = some r → unparseExprList conds = some cs →
    conds.length ≠ 0 →
    accounts true (hdr ++ sym .lparen lp :: (r ++ sym .rparen rp :: kwTok ["on"] on :: cs)) ts = true →
    NoLparenComma ts = true → 4 * ts.length + 1 ≤ f →
    pJoin c f pipe kw ts = ⟨.join pipe kw kind ka fl lp right rp on conds, [], []⟩ ∧ OpPasses ts

theorem TabFwd.zero (c : PCtx) : TabFwd c 0 := by
  constructor <;> intros <;> omega

/-! ### `tabularExpr` -/

theorem pTabular_fwd_step (c : PCtx) (f : Nat) (ih : TabFwd c f) (t : Tabular) (ts : List Token)
    (hwf : wfTabular t = true) (hcan : canonTabular t = true) (hr : RealBy unparseTabular t ts)
    (hf : 4 * ts.length + 1 ≤ f + 1) : pTabular c (f + 1) ts = ⟨t, [], []⟩ ∧ TabPasses ts := by
  obtain ⟨us, hu, ha, hn⟩ := hr
  cases t with
  | nil => simp [unparseTabular] at hu
  | mk src ops =>
    simp only [unparseTabular, Option.bind_eq_bind, Option.pure_def, Option.bind_eq_some_iff,
      Option.some.injEq] at hu
    obtain ⟨s, rfl, os, hos, rfl⟩ := hu
    obtain ⟨tsrc, tos, rfl, hsrc, h2⟩ := accounts_cons_inv (by simp [identTok]) ha
    have hid := tokOk_identTok_inv hsrc
    simp only [wfTabular, Option.isSome_some, Bool.true_and] at hwf
    simp only [canonTabular] at hcan
    simp only [List.length_cons] at hf
    obtain ⟨hO, hp⟩ := ih.ops .nil ops [] tos hwf hcan ⟨os, hos, h2, nlc_tail hn⟩ (by omega)
    refine ⟨?_, tabPasses_append (a := [tsrc]) (opPasses_tab (opPasses_ident hid)) hp⟩
    simp only [pTabular, pIdent_real hid, hO, appendOps]

/-! ### the operator loop -/

theorem pOps_fwd_step (c : PCtx) (f : Nat) (ih : TabFwd c f) (ops0 ops : OpList) (acc : Errs)
    (ts : List Token) (hwf : wfOps ops = true) (hcan : canonOps ops = true)
    (hr : RealBy unparseOps ops ts) (hf : 4 * ts.length + 2 ≤ f + 1) :
    pOps c (f + 1) ops0 acc ts = ⟨appendOps ops0 ops, acc, []⟩ ∧ TabPasses ts := by
  obtain ⟨us, hu, ha, hn⟩ := hr
  cases ops with
  | nil =>
    simp only [unparseOps, Option.some.injEq] at hu
    subst hu
    have := accounts_nil_left ha
    subst this
    exact ⟨by simp [pOps, appendOps_nil], tabPasses_nil⟩
  | cons o os =>
    simp only [unparseOps, Option.bind_eq_bind, Option.pure_def, Option.bind_eq_some_iff,
      Option.some.injEq] at hu
    obtain ⟨a, hoa, b, hob, rfl⟩ := hu
    obtain ⟨to, tos, rfl, h1, h2⟩ := accounts_split ha
    simp only [wfOps, Bool.and_eq_true] at hwf
    simp only [canonOps, Bool.and_eq_true] at hcan
    simp only [List.length_append] at hf
    obtain ⟨pipeTok, name, optoks, rfl, hpk, hnk, hO, hpass⟩ :=
      ih.operator o to hwf.1 hcan.1 ⟨a, hoa, h1, nlc_left hn⟩ (by omega)
    simp only [List.length_cons] at hf
    have hros : RealBy unparseOps os tos := ⟨b, hob, h2, nlc_right hn⟩
    -- what follows this operator is the next operator's pipe, or nothing
    have htos : tos = [] ∨ ∃ t r, tos = t :: r ∧ t.kind = .pipe := by
      cases os with
      | nil =>
        simp only [unparseOps, Option.some.injEq] at hob
        subst hob
        exact Or.inl (accounts_nil_left h2)
      | cons o' os' =>
        simp only [unparseOps, Option.bind_eq_bind, Option.pure_def, Option.bind_eq_some_iff,
          Option.some.injEq] at hob
        obtain ⟨a', hoa', b', hob', rfl⟩ := hob
        obtain ⟨to', tos', rfl, h1', h2'⟩ := accounts_split h2
        have hw' := hwf.2
        have hc' := hcan.2
        simp only [wfOps, Bool.and_eq_true] at hw'
        simp only [canonOps, Bool.and_eq_true] at hc'
        obtain ⟨p', n', o'', rfl, hpk', -⟩ := ih.operator o' to' hw'.1 hc'.1
          ⟨a', hoa', h1', nlc_left (nlc_right hn)⟩ (by simp only [List.length_append] at hf; omega)
        exact Or.inr ⟨p', _, rfl, hpk'⟩
    have hsplit : split .pipe (name :: optoks ++ tos) = (name :: optoks, tos) :=
      split_at_pipe ((opPasses_cons hnk hpass).2 []) htos
    obtain ⟨hOps, hpt⟩ := ih.ops (ops0.snoc o) os acc tos hwf.2 hcan.2 hros (by omega)
    refine ⟨?_, tabPasses_append (a := [pipeTok]) (tabPasses_pipe hpk)
      (tabPasses_append (opPasses_tab (opPasses_cons hnk hpass)) hpt)⟩
    have hlist : pipeTok :: name :: optoks ++ tos = pipeTok :: (name :: optoks ++ tos) := by simp
    rw [hlist]
    simp only [pOps, hpk, ne_eq, not_true_eq_false, if_false, hsplit, hnk, hO, List.append_nil, endSplit,
      hOps, appendOps_snoc]

/-! ### one operator -/

theorem join_unparse_inv {p k kind ka lp rp on : Span} {fl : Option Ident} {right : Tabular}
    {conds : ExprList} {us : List UTok}
    (hu : unparseOp (.join p k kind ka fl lp right rp on conds) = some us) :
    ∃ hdr r cs, joinHdr fl kind ka = some hdr ∧ unparseTabular right = some r ∧
      unparseExprList conds = some cs ∧ conds.length ≠ 0 ∧
      us = sym .pipe p :: kwTok ["join"] k ::
        (hdr ++ sym .lparen lp :: (r ++ sym .rparen rp :: kwTok ["on"] on :: cs)) := by
  simp only [unparseOp, Option.bind_eq_bind, Option.pure_def, Option.bind_eq_some_iff,
    Option.some.injEq] at hu
  obtain ⟨r, hr', cs, hcs, hu⟩ := hu
  by_cases hlen : conds.length = 0
  · simp [hlen] at hu
  · rw [if_neg hlen] at hu
    cases fl with
    | some f =>
      simp only [Option.bind_some, Option.some.injEq] at hu
      exact ⟨_, r, cs, rfl, hr', hcs, hlen, by rw [← hu]; simp⟩
    | none =>
      by_cases hv : (kind.isValid || ka.isValid) = true
      · simp [hv] at hu
      · simp only [hv, Bool.false_eq_true, if_false, Option.bind_some, Option.some.injEq] at hu
        exact ⟨[], r, cs, by simp [joinHdr, hv], hr', hcs, hlen, by rw [← hu]; simp⟩

theorem pOperator_fwd_step (c : PCtx) (f : Nat) (ih : TabFwd c f) (o : Op) (to : List Token)
    (hwf : wfOp o = true) (hcan : canonOp o = true) (hr : RealBy unparseOp o to)
    (hf : 4 * to.length + 1 ≤ f + 1) : OpParsed c (f + 1) o to := by
  cases o with
  | count p k => exact op_count c f p k to hr
  | where_ p k e => exact op_where c f p k e to hwf hr hf
  | sort p k ts => exact op_sort c f p k ts to hwf hcan hr hf
  | take p k n => exact op_take c f p k n to hwf hr hf
  | top p k n b col => exact op_top c f p k n b col to hwf hcan hr hf
  | project p k cs => exact op_project c f p k cs to hwf hcan hr hf
  | extend p k cs => exact op_extend c f p k cs to hwf hcan hr hf
  | summarize p k cs b gs => exact op_summarize c f p k cs b gs to hwf hcan hr hf
  | as_ p k n => exact op_as c f p k n to hr
  | render p k ch w lp props rp => exact op_render c f p k ch w lp props rp to hwf hcan hr hf
  | join p k kind ka fl lp right rp on conds =>
    obtain ⟨us, hu, ha, hn⟩ := hr
    obtain ⟨hdr, r, cs, hhdr, hr', hcs, hlen, rfl⟩ := join_unparse_inv hu
    obtain ⟨pipeTok, name, optoks, rfl, hpk, hps, hnk, hnv, hns, ha', hn'⟩ := op_prefix ha hn
    subst hps hns
    simp only [List.length_cons] at hf
    obtain ⟨hJ, hpass⟩ := ih.join pipeTok.span name.span kind ka fl lp right rp on conds hdr r cs optoks hwf hcan
      hhdr hr' hcs hlen ha' hn' (by omega)
    refine ⟨pipeTok, name, optoks, rfl, hpk, hnk, ?_, hpass⟩
    rw [pOperator_join c f _ _ _ (by simpa using hnv), hJ]

/-! ### `join` -/

theorem split_at_rparen_tab {ts rest : List Token} {cl : Token} (hk : cl.kind = .rparen)
    (h : ∀ st, PassesAt .rparen st ts) : split .rparen (ts ++ cl :: rest) = (ts, cl :: rest) := by
  unfold split
  rw [h []]
  rw [splitAux]
  simp [hk]

theorem pJoin_fwd_step (c : PCtx) (f : Nat) (ih : TabFwd c f) (pipe kw kind ka : Span) (fl : Option Ident)
    (lp : Span) (right : Tabular) (rp on : Span) (conds : ExprList) (hdr r cs : List UTok) (ts : List Token)
    (hwf : wfOp (.join pipe kw kind ka fl lp right rp on conds) = true)
    (hcan : canonOp (.join pipe kw kind ka fl lp right rp on conds) = true)
    (hhdr : joinHdr fl kind ka = some hdr) (hr : unparseTabular right = some r)
    (hcs : unparseExprList conds = some cs) (hlen : conds.length ≠ 0)
    (ha : accounts true (hdr ++ sym .lparen lp :: (r ++ sym .rparen rp :: kwTok ["on"] on :: cs)) ts = true)
    (hn : NoLparenComma ts = true) (hf : 4 * ts.length + 1 ≤ f + 1) :
    pJoin c (f + 1) pipe kw ts = ⟨.join pipe kw kind ka fl lp right rp on conds, [], []⟩ ∧ OpPasses ts := by
  simp only [wfOp, Bool.and_eq_true] at hwf
  simp only [canonOp, Bool.and_eq_true] at hcan
  obtain ⟨⟨hwr, hwc⟩, hwfl⟩ := hwf
  obtain ⟨thdr, t2, rfl, hah, h2⟩ := accounts_split ha
  obtain ⟨tlp, t3, rfl, htlp, h3⟩ := accounts_cons_inv rfl h2
  obtain ⟨tright, t4, rfl, h4, h5⟩ := accounts_split h3
  obtain ⟨trp, t5, rfl, htrp, h6⟩ := accounts_cons_inv rfl h5
  obtain ⟨ton, tconds, rfl, hton, h7⟩ := accounts_cons_inv rfl h6
  obtain ⟨hlk, hls⟩ := tokOk_sym_inv htlp
  obtain ⟨hrk, hrs⟩ := tokOk_sym_inv htrp
  obtain ⟨honn, hons⟩ := tokOk_kwTok1_inv hton
  subst hls hrs hons
  simp only [List.length_append, List.length_cons] at hf
  have hnr : NoLparenComma (tlp :: (tright ++ trp :: ton :: tconds)) = true := nlc_right hn
  obtain ⟨hT, hpr⟩ := ih.tab right tright hwr hcan.1 ⟨r, hr, h4, nlc_left (nlc_tail hnr)⟩ (by omega)
  have hsplit : split .rparen (tright ++ trp :: ton :: tconds) = (tright, trp :: ton :: tconds) :=
    split_at_rparen_tab hrk hpr.1
  have hrc : RealL conds tconds := ⟨cs, hcs, h7, nlc_tail (nlc_tail (nlc_right (nlc_tail hnr)))⟩
  have hL : pExprList c f tconds = ⟨conds, [], []⟩ := by
    cases conds with
    | nil => simp [ExprList.length] at hlen
    | cons e es =>
      have := (fwd_all c f).exprList e es tconds [] hwc hrc rfl (by simp only [List.append_nil]; omega)
      simpa using this
  have hpassTail : OpPasses (tlp :: (tright ++ [trp]) ++ ton :: tconds) :=
    opPasses_append (opPasses_paren hlk hrk hpr)
      (opPasses_cons (isIdentNamed_kind honn) (opPasses_of_passes (realL_passes conds tconds hwc hrc)))
  have hlistTail : tlp :: (tright ++ trp :: ton :: tconds) = tlp :: (tright ++ [trp]) ++ ton :: tconds := by
    simp
  cases fl with
  | none =>
    have hnull : kind = Span.null ∧ ka = Span.null := by simpa using hcan.2
    obtain ⟨rfl, rfl⟩ := hnull
    simp only [joinHdr, null_isValid, Bool.or_self, Bool.false_eq_true, if_false, Option.some.injEq] at hhdr
    subst hhdr
    have := accounts_nil_left hah
    subst this
    simp only [List.nil_append]
    refine ⟨?_, by rw [hlistTail]; exact hpassTail⟩
    have hnk : isIdentNamed tlp "kind" = false := by simp [isIdentNamed, hlk]
    simp [pJoin, hnk, hlk, hsplit, hT, hrk, honn, hL, mkOpaque, endSplit]
  | some fid =>
    simp only [joinHdr, Option.some.injEq] at hhdr
    subst hhdr
    obtain ⟨tk, t6, rfl, htk, h8⟩ := accounts_cons_inv rfl hah
    obtain ⟨tasg, t7, rfl, htasg, h9⟩ := accounts_cons_inv rfl h8
    obtain ⟨tf, t8, rfl, htf, h10⟩ := accounts_cons_inv (by simp [identTok]) h9
    have := accounts_nil_left h10
    subst this
    obtain ⟨hkn, hks⟩ := tokOk_kwTok1_inv htk
    obtain ⟨hak, has⟩ := tokOk_sym_inv htasg
    have hfid := tokOk_identTok_inv htf
    subst hks has
    simp only [Bool.and_eq_true, Bool.not_eq_true'] at hwfl
    have hfk : tf.kind = .ident := by
      rcases hfid.1 with h1 | h1
      · exact h1
      · have := hfid.2; subst this; simp [h1] at hwfl
    have hfid' : fid = ⟨tf.value, tf.span, false⟩ := by
      have := hfid.2; subst this; simp [hfk]
    subst hfid'
    have hjt : isJoinType tf.value = true := by
      simpa [isJoinType] using hwfl.2
    refine ⟨?_, ?_⟩
    · simp [pJoin, hkn, hak, hfk, hjt, hlk, hsplit, hT, hrk, honn, hL, mkOpaque, endSplit]
    · have : [tk, tasg, tf] ++ tlp :: (tright ++ trp :: ton :: tconds) =
          [tk] ++ ([tasg] ++ ([tf] ++ (tlp :: (tright ++ [trp]) ++ ton :: tconds))) := by simp
      rw [this]
      exact opPasses_append (opPasses_named hkn) (opPasses_append (opPasses_kind hak)
        (opPasses_append (opPasses_kind hfk) hpassTail))

/-! ### all productions -/

theorem tabFwd_all (c : PCtx) (fuel : Nat) : TabFwd c fuel := by
  induction fuel with
  | zero => exact TabFwd.zero c
  | succ f ih =>
    exact
      { tab := pTabular_fwd_step c f ih
        ops := pOps_fwd_step c f ih
        operator := pOperator_fwd_step c f ih
        join := pJoin_fwd_step c f ih }

end Pql
