/-
`(*subquery).write` is parametric in contents.
-/
import PqlModel.Lemmas.ShapeOps
namespace Pql

section
variable {φ : CMap} {R : List Chunk → List Chunk → Prop} {src src' : Bytes} {s s' : Scope} {m : Mode}

theorem mbodyOf_rel (hR : MapCong φ R) (hs : ScopeRel R s s') {source source' : List Chunk}
    (hsrc : R source source') (op : Option Op)
    (hi : inertOpOpt s m φ op = true) (hok : OpOKOpt φ R src src' op) :
    ExRel (OptRel R) (bodyOf ⟨src, s, m⟩ op source) (bodyOf ⟨src', s', m⟩ (op.map (mapOp φ)) source') := by
  cases op with
  | none =>
    simp only [Option.map, bodyOf]
    exact ExRel.pure_pure (.some (hR.cons_txt _ hsrc))
  | some o =>
    simp only [inertOpOpt] at hi
    simp only [OpOKOpt] at hok
    cases o with
    | count p k =>
      simp only [Option.map, mapOp, bodyOf]
      exact ExRel.pure_pure (.some (hR.cons_txt _ hsrc))
    | as_ p k n =>
      simp only [Option.map, mapOp, bodyOf]
      exact ExRel.pure_pure (.some (hR.cons_txt _ hsrc))
    | sort p k ts =>
      simp only [Option.map, mapOp, bodyOf]
      exact ExRel.pure_pure .none
    | take p k n =>
      simp only [Option.map, mapOp, bodyOf]
      exact ExRel.pure_pure .none
    | top p k n b c =>
      simp only [Option.map, mapOp, bodyOf]
      exact ExRel.pure_pure .none
    | join p k kind ka fl lp right rp on conds =>
      simp only [Option.map, mapOp, bodyOf]
      exact ExRel.pure_pure .none
    | where_ p k e =>
      simp only [inertOp] at hi
      simp only [Option.map, mapOp, bodyOf]
      refine ExRel.bind (mapE_rel hR hs e hi) fun a a' ha => ExRel.pure_pure ?_
      refine OptRel.some ?_
      map_frame hR
    | project p k cs =>
      simp only [inertOp, List.all_eq_true] at hi
      simp only [OpOK] at hok
      simp only [Option.map, mapOp, bodyOf]
      refine ExRel.bind (ExRel.mapM (S := R) (mapColumn φ) _ _ cs fun c hc => ?_) fun a a' ha => ExRel.pure_pure ?_
      · rw [projCol_eq, projCol_eq, projExpr_mapColumn]
        refine ExRel.bind (mapE_rel hR hs _ (hi c hc)) fun x x' hx => ExRel.pure_pure ?_
        have := identName_rel hR c.name (hok c hc)
        exact hR.append hx (hR.cons_txt _ this)
      · have := hR.sepChunks ", " ha
        refine OptRel.some ?_
        map_frame hR
    | extend p k cs =>
      simp only [inertOp] at hi
      simp only [OpOK] at hok
      simp only [Option.map, mapOp, bodyOf]
      refine ExRel.bind (mwriteColumns_rel hR hs cs hi hok) fun a a' ha => ExRel.pure_pure ?_
      have := hR.flatSep ", " ha
      refine OptRel.some ?_
      map_frame hR
    | summarize p k cs b gs =>
      simp only [inertOp, Bool.and_eq_true] at hi
      simp only [OpOK] at hok
      simp only [Option.map, mapOp, bodyOf]
      refine ExRel.bind (mwriteColumns_rel hR hs gs hi.2 hok.2) fun g g' hg => ?_
      refine ExRel.bind (mwriteColumns_rel hR hs cs hi.1 hok.1) fun c c' hc => ?_
      have hgi := hi.2
      simp only [inertCols, List.all_eq_true] at hgi
      refine ExRel.bind (ExRel.mapM (S := R) (mapColumn φ) (fun c => writeExpr ⟨src, s, m⟩ c.x)
        (fun c => writeExpr ⟨src', s', m⟩ c.x) gs fun c hc => mapE_rel hR hs c.x (hgi c hc)) fun b b' hb => ?_
      refine ExRel.pure_pure ?_
      have h1 := hR.sepChunks ", " (hg.append hc)
      have h2 := hR.sepChunks ", " hb
      refine OptRel.some ?_
      have hemp : (gs.map (mapColumn φ)).isEmpty = gs.isEmpty := by cases gs <;> rfl
      rw [hemp]
      cases gs.isEmpty with
      | true =>
        simp only [if_true]
        map_frame hR
      | false =>
        simp only [Bool.false_eq_true, if_false]
        map_frame hR
    | render p k ch w lp props rp =>
      simp only [OpOK] at hok
      simp only [Option.map, mapOp, bodyOf]
      refine ExRel.pure_pure ?_
      refine OptRel.some ?_
      have hprops : R
          (props.flatMap fun p =>
            [.txt ",\n    ", .qstr (renderPropValue p.value), .txt " as ",
             .qid (Bytes.ofString "render_prop_" ++ identName p.name)])
          ((props.map (mapProp φ)).flatMap fun p =>
            [.txt ",\n    ", .qstr (renderPropValue p.value), .txt " as ",
             .qid (Bytes.ofString "render_prop_" ++ identName p.name)]) := by
        have hp := hok.2
        clear hok hi
        induction props with
        | nil => exact hR.nil
        | cons q props ih =>
          simp only [List.map_cons, List.flatMap_cons]
          have hq := hp q (List.mem_cons_self ..)
          refine hR.append ?_ (ih fun x hx => hp x (List.mem_cons_of_mem _ hx))
          simp only [mapProp]
          exact hR.cons_txt _ (hR.cons_of hq.1 (hR.cons_txt _ hq.2))
      have hch := hok.1
      exact hR.append (hR.append (hR.cons_txt _ (hR.cons_txt _ (hR.cons_of hch (hR.txt _)))) hprops)
        (hR.cons_txt _ hsrc)

theorem mtailOf_rel (hR : MapCong φ R) (hs : ScopeRel R s s')
    (sort : Option (List SortTerm)) (take : Option Expr)
    (hsort : inertSortOpt s m φ sort = true) (htake : inertTakeOpt s m φ take = true)
    {b b' : Option (List Chunk)} (hb : OptRel R b b') :
    ExRel R (tailOf ⟨src, s, m⟩ sort take b)
      (tailOf ⟨src', s', m⟩ (sort.map (List.map (mapSortTerm φ))) (take.map (mapE φ)) b') := by
  cases hb with
  | none => exact hR.txt _
  | @some body body' hbody =>
    cases sort with
    | none =>
      cases take with
      | none =>
        simp only [tailOf, Option.map_none, pure_bind]
        exact ExRel.pure_pure (hR.append (hR.append hbody hR.nil) hR.nil)
      | some n =>
        simp only [tailOf, Option.map_none, Option.map_some, pure_bind]
        exact ExRel.bind (mapE_rel hR hs n htake) fun x x' hx =>
          ExRel.pure_pure (hR.append (hR.append hbody hR.nil) (hR.cons_txt _ hx))
    | some ts =>
      cases take with
      | none =>
        simp only [tailOf, Option.map_none, Option.map_some, pure_bind]
        exact ExRel.bind (mwriteSortTerms_rel hR hs ts hsort) fun r r' hr =>
          ExRel.pure_pure (hR.append (hR.append hbody (hR.cons_txt _ (hR.sepChunks ", " hr))) hR.nil)
      | some n =>
        simp only [tailOf, Option.map_some, pure_bind]
        exact ExRel.bind (mwriteSortTerms_rel hR hs ts hsort) fun r r' hr =>
          ExRel.bind (mapE_rel hR hs n htake) fun x x' hx =>
            ExRel.pure_pure (hR.append (hR.append hbody (hR.cons_txt _ (hR.sepChunks ", " hr))) (hR.cons_txt _ hx))

/-- **`(*subquery).write` is parametric.** -/
theorem Subquery.write_mrel (hR : MapCong φ R) (hs : ScopeRel R s s') {sub sub' : Subquery}
    (hsub : MSubRel φ R sub sub') (hi : inertSub s m φ sub = true) (hok : SubOK φ R src src' sub) :
    ExRel R (sub.write ⟨src, s, m⟩) (sub'.write ⟨src', s', m⟩) := by
  rw [write_eq, write_eq, hsub.op, hsub.sort, hsub.take]
  simp only [inertSub, Bool.and_eq_true] at hi
  refine ExRel.bind (mbodyOf_rel hR hs hsub.source sub.op hi.1.1 hok) fun b b' hb =>
    mtailOf_rel hR hs sub.sort sub.take hi.1.2 hi.2 hb

end

end Pql
