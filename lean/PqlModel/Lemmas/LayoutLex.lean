/-
Layout independence, lexer side: inserting trivia at a step boundary of the scanner does not change
the kinds and values of the tokens.

* `TriviaBefore w y` : `w`, followed by `y`, is a concatenation of trivia steps of C09
  (`Pql.C09.IsTriviaStep`: one white-space rune, or a `//` comment up to and including its newline,
  or — only when nothing at all follows — a `//` comment running to the end of the input).
* `scanOne_trivia`   : a trivia step is one skipped step of the scanner, of exactly that width;
* `scanFrom_trivia`  : the scan of `w ++ y` is the scan of `y` (at a later offset);
* `sameTokens_insert`: the insertion theorem, from `scanFrom_append` (LexReach).
-/
import PqlModel.Props.C09Gaps
import PqlModel.Lemmas.LexSplit
import PqlModel.Lemmas.LayoutDefs
namespace Pql.Layout
open Pql Pql.C09

/-- `w`, followed by `y`, is a concatenation of trivia steps -/
inductive TriviaBefore : Bytes → Bytes → Prop
  | nil (y : Bytes) : TriviaBefore [] y
  | step (x w y : Bytes) : IsTriviaStep x (w ++ y) → TriviaBefore w y → TriviaBefore (x ++ w) y

theorem np_shift (d : Nat) (t : Token) : np (t.shift d) = np t := rfl

theorem map_np_scanFrom (s : Bytes) (off : Nat) : (scanFrom s off).map np = (scan s).map np := by
  rw [scanFrom_eq_map_scan, List.map_map]
  exact List.map_congr_left fun t _ => np_shift off t

/-- the offset of a scan is irrelevant for kinds and values -/
theorem sameTokens_scanFrom (s : Bytes) (a b : Nat) : sameTokens (scanFrom s a) (scanFrom s b) := by
  rw [sameTokens_iff_map_np, map_np_scanFrom, map_np_scanFrom]

theorem decodeRune_append_space (x z : Bytes) (h : isSpaceRune (decodeRune x).1 = true) :
    decodeRune (x ++ z) = decodeRune x := by
  cases x with
  | nil => exact absurd h (by decide)
  | cons b x =>
    simp only [List.cons_append, decodeRune_cons] at h ⊢
    split
    · rfl
    · rename_i hb
      simp only [hb, if_false] at h
      cases hm : decodeMulti b.toNat x with
      | some rw => rw [decodeMulti_append_mono _ x z rw hm]
      | none =>
        rw [hm] at h
        exact absurd h (by decide)

theorem commentLen_body (body z : Bytes) (hb : ∀ b ∈ body, b ≠ 10) :
    commentLen (body ++ 10 :: z) = body.length + 1 := by
  induction body with
  | nil => simp [commentLen]
  | cons c body ih =>
    have hc : c ≠ 10 := hb c List.mem_cons_self
    have := ih fun b hbm => hb b (List.mem_cons_of_mem _ hbm)
    simp [commentLen, hc, this]

theorem commentLen_body_eof (body : Bytes) (hb : ∀ b ∈ body, b ≠ 10) :
    commentLen body = body.length := by
  induction body with
  | nil => simp [commentLen]
  | cons c body ih =>
    have hc : c ≠ 10 := hb c List.mem_cons_self
    have := ih fun b hbm => hb b (List.mem_cons_of_mem _ hbm)
    simp [commentLen, hc, this]

theorem scanOne_comment (t : Bytes) : scanOne (47 :: 47 :: t) = ⟨none, commentLen t + 2⟩ := by
  have e1 : isAsciiSpace 47 = false := by decide
  have e2 : isIdentStart 47 = false := by decide
  have e3 : (isDigit 47 || (47 : UInt8) == 46) = false := by decide
  unfold scanOne
  simp only [e1, e2, e3]
  simp [scanPunct, singleKind, Step.skip]

/-- **a trivia step is one skipped step of the scanner, of exactly that width** -/
theorem scanOne_trivia (x z : Bytes) (h : IsTriviaStep x z) : scanOne (x ++ z) = ⟨none, x.length⟩ := by
  rcases h with ⟨hne, hw, hs⟩ | ⟨body, hb, hor⟩
  · have hd := decodeRune_append_space x z hs
    cases x with
    | nil => exact absurd rfl hne
    | cons c rest =>
      simp only [List.cons_append] at hd ⊢
      have htok : (scanOne (c :: (rest ++ z))).tok = none :=
        C09_trivia_is_skip c (rest ++ z) (Or.inl (by rw [hd]; exact hs))
      have hwid : (scanOne (c :: (rest ++ z))).width = (c :: rest).length := by
        rcases scanOne_none_cases c (rest ++ z) htok with ⟨_, _, hw'⟩ | ⟨hlt, _, hw'⟩ | ⟨rfl, t, ht, _⟩
        · rw [hw', hd, hw]
        · rw [hw', ← hw, decodeRune_cons, if_pos hlt]
        · -- `/` is no white space
          exfalso
          rw [decodeRune_cons] at hs
          simp at hs
          revert hs; decide
      cases hst : scanOne (c :: (rest ++ z)) with
      | mk tok width =>
        rw [hst] at htok hwid
        simp only at htok hwid
        rw [htok, hwid]
  · rcases hor with rfl | ⟨rfl, rfl⟩
    · simp only [List.cons_append, List.append_assoc, List.singleton_append, List.nil_append,
        scanOne_comment, commentLen_body body z hb, List.length_cons, List.length_append, List.length_nil,
        Nat.zero_add]
    · simp only [List.append_nil, scanOne_comment, commentLen_body_eof body hb, List.length_cons]

theorem triviaStep_ne_nil {x z : Bytes} (h : IsTriviaStep x z) : x ≠ [] := by
  rcases h with ⟨hne, _, _⟩ | ⟨body, _, hor⟩
  · exact hne
  · rcases hor with rfl | ⟨rfl, _⟩ <;> simp

/-- **trivia scans to nothing, whatever follows**: the scan of `w ++ y` is the scan of `y` -/
theorem scanFrom_trivia {w y : Bytes} (h : TriviaBefore w y) :
    ∀ off, scanFrom (w ++ y) off = scanFrom y (off + w.length) := by
  induction h with
  | nil y => intro off; simp
  | step x w y hx _ ih =>
    intro off
    have hne : x ++ w ++ y ≠ [] := by
      have := triviaStep_ne_nil hx
      cases x with
      | nil => exact absurd rfl this
      | cons => simp
    have hst := scanOne_trivia x (w ++ y) hx
    rw [scanFrom_step hne, List.append_assoc, hst]
    simp only [Step.toks, List.nil_append, List.drop_left, ih, List.length_append]
    congr 1
    omega

/-- trivia is a run of scanner steps: its end is a step boundary -/
theorem reaches_trivia {w y : Bytes} (h : TriviaBefore w y) : Reaches (w ++ y) w.length := by
  induction h with
  | nil y => exact Reaches.here _
  | step x w y hx _ ih =>
    have hne : x ++ w ++ y ≠ [] := by
      have := triviaStep_ne_nil hx
      cases x with
      | nil => exact absurd rfl this
      | cons => simp
    have hst := scanOne_trivia x (w ++ y) hx
    have := Reaches.step (x ++ w ++ y) w.length hne
      (by rw [List.append_assoc, hst]; simpa using ih)
    rw [List.append_assoc, hst] at this
    simpa [List.length_append] using this

/-- **Insertion of trivia at a step boundary.**  If `x.length` is a step boundary of the scanner both in
    `x ++ y` and in `x ++ w ++ y`, and `w` (followed by `y`) is trivia, then the two sources have the same
    tokens up to positions. -/
theorem sameTokens_insert (x w y : Bytes) (h1 : Reaches (x ++ y) x.length)
    (h2 : Reaches (x ++ (w ++ y)) x.length) (hw : TriviaBefore w y) :
    sameTokens (scan (x ++ (w ++ y))) (scan (x ++ y)) := by
  unfold scan
  rw [scanFrom_append x y 0 h1, scanFrom_append x (w ++ y) 0 h2, scanFrom_trivia hw]
  exact (sameTokens.refl _).append (sameTokens_scanFrom _ _ _)

/-! ### evaluation by `decide`: fuel versions of `scanFrom` and `Reaches`

`scanFrom` is defined by well-founded recursion, which the kernel does not unfold; these structurally
recursive copies make concrete instances (non-vacuity, counterexamples) provable by `decide`. -/

def scanFuel : Nat → Bytes → Nat → List Token
  | 0, _, _ => []
  | _ + 1, [], _ => []
  | n + 1, c :: rest, off =>
    (scanOne (c :: rest)).toks off ++
      scanFuel n ((c :: rest).drop (scanOne (c :: rest)).width) (off + (scanOne (c :: rest)).width)

theorem scanFuel_eq (n : Nat) : ∀ (s : Bytes) (off : Nat), s.length ≤ n → scanFuel n s off = scanFrom s off := by
  induction n with
  | zero =>
    intro s off h
    have : s = [] := List.eq_nil_of_length_eq_zero (by omega)
    subst this
    simp [scanFuel, scanFrom_nil]
  | succ n ih =>
    intro s off h
    cases s with
    | nil => simp [scanFuel, scanFrom_nil]
    | cons c rest =>
      have hpos := scanOne_width_pos c rest
      rw [scanFuel, scanFrom_step (by simp), ih]
      simp only [List.length_drop, List.length_cons] at h ⊢
      omega

theorem scan_eq_scanFuel (s : Bytes) : scan s = scanFuel s.length s 0 :=
  (scanFuel_eq s.length s 0 (Nat.le_refl _)).symm

def reachesFuel : Nat → Bytes → Nat → Bool
  | _, _, 0 => true
  | 0, _, _ + 1 => false
  | _ + 1, [], _ + 1 => false
  | f + 1, c :: rest, n + 1 =>
    decide ((scanOne (c :: rest)).width ≤ n + 1) &&
      reachesFuel f ((c :: rest).drop (scanOne (c :: rest)).width) (n + 1 - (scanOne (c :: rest)).width)

theorem reaches_of_fuel (f : Nat) : ∀ (s : Bytes) (n : Nat), reachesFuel f s n = true → Reaches s n := by
  induction f with
  | zero =>
    intro s n h
    cases n with
    | zero => exact Reaches.here s
    | succ n => simp [reachesFuel] at h
  | succ f ih =>
    intro s n h
    cases n with
    | zero => exact Reaches.here s
    | succ n =>
      cases s with
      | nil => simp [reachesFuel] at h
      | cons c rest =>
        simp only [reachesFuel, Bool.and_eq_true, decide_eq_true_eq] at h
        have := Reaches.step (c :: rest) _ (by simp) (ih _ _ h.2)
        have e : (scanOne (c :: rest)).width + (n + 1 - (scanOne (c :: rest)).width) = n + 1 := by omega
        rwa [e] at this

end Pql.Layout
