/-
Helpers for Props/IRHeadlines*.lean: the headline properties restated on the INTERPRETATIONS of the
translated (regenerated) Go code.

Everything here is a transport lemma: "the interpretation returned X" ⇔ "the model function returned X",
obtained from the `…_ir` theorems (`C07_Parse_ir`, `C06_compile_ir`, `C01_writeExpression_ir`,
`C15_split_ir`, `C11_walk_ir`, `C10_spanOf_ir`, `C16_run_ir`, `C09_dispatch_interp`).

NEW SPEC-LEVEL DEFINITIONS
`scanLoopIR`  the loop of `Scan` with the interpretation of the regenerated switch (`Dispatch.interp`) as
              its body and an explicit budget (`Scan`'s `for` loop itself is not an IR; see
              `scanLoopIR_eq`: with budget `len + 1` it returns the model's `scanFrom`);
`splitIR`     `SplitStatements` as a function `Bytes → List Bytes`, read off the interpretation of the
              regenerated body (`LexIR.interpSplit`) on the empty heap;
`irLib`       the library `cmd/pql` `run` is interpreted with: `SplitStatements` = `splitIR`, `Scan` = the
              model's `scan`, `pql.Compile` = the interpretation of the translated `Compile`
              (`NoPanic.compileIR`).
-/
import PqlModel.Props.C12NoPanicIR
import PqlModel.Props.C14Order
namespace Pql.IRHead
open Pql
set_option linter.unusedSimpArgs false

/-! ### `Parse` -/

/-- the interpretation of the regenerated `Parse` returned `r` iff the model's `parse` is `r` -/
theorem parse_ir_iff (src : Bytes) (r : List Stmt × Errs) :
    OpIR.runParse src.length (scan src) (OpIR.bodyOf "Parse") = .ok r ↔ parse src = r := by
  rw [OpIR.C07_Parse_ir]
  constructor
  · intro h; injection h
  · intro h; rw [h]

theorem parse_ir_tokens_iff (n : Nat) (ts : List Token) (r : List Stmt × Errs) :
    OpIR.runParse n ts (OpIR.bodyOf "Parse") = .ok r ↔ parseTokens n ts = r := by
  rw [OpIR.C07_Parse_tokens_ir]
  constructor
  · intro h; injection h
  · intro h; rw [h]

/-- the interpretation of `Parse` is never an error outcome (panic / stuck / fuel) -/
theorem parse_ir_ok (src : Bytes) :
    ∃ r, OpIR.runParse src.length (scan src) (OpIR.bodyOf "Parse") = .ok r ∧ r = parse src :=
  ⟨_, OpIR.C07_Parse_ir src, rfl⟩

/-! ### `Compile` -/

theorem resultM_ok_iff (r : CompileResult) (sql : Bytes) : ExprIR.resultM r = .ok sql ↔ r = .ok sql := by
  cases r <;> simp [ExprIR.resultM]

theorem resultM_err_iff (r : CompileResult) : ExprIR.resultM r = .error (.go .err) ↔ r = .error := by
  cases r <;> simp [ExprIR.resultM]

theorem resultM_panic_iff (r : CompileResult) : ExprIR.resultM r = .error (.go .panic) ↔ r = .panic := by
  cases r <;> simp [ExprIR.resultM]

/-- the interpretation of the translated `Compile` returned the SQL text `sql` iff the model did -/
theorem compile_ir_ok_iff (opts : Option (List (Bytes × Bytes))) (src sql : Bytes) :
    ExprIR.interpCompile List.reverse opts src = .ok sql ↔ compile (opts.getD []) src = .ok sql := by
  rw [ExprIR.C06_compile_ir, resultM_ok_iff]

/-- … returned a Go error iff the model did -/
theorem compile_ir_err_iff (opts : Option (List (Bytes × Bytes))) (src : Bytes) :
    ExprIR.interpCompile List.reverse opts src = .error (.go .err) ↔ compile (opts.getD []) src = .error := by
  rw [ExprIR.C06_compile_ir, resultM_err_iff]

/-- the front part of the translated `Compile` on a source with a parse error: the Go error, for every map
    order and every options value -/
theorem compilePre_parse_error (ord : List (Bytes × Bytes) → List (Bytes × Bytes))
    (opts : Option (List (Bytes × Bytes))) (src : Bytes) (hpe : (parse src).2.isEmpty = false) :
    ExprIR.interpCompilePre (ExprIR.theSem ord) opts src = .error (.go .err) := by
  rw [ExprIR.interpCompilePre_eq]
  xe_simp [ExprIR.compilePreIR, ExprIR.theSem, ExprIR.compileSem, ExprIR.parseModel, ExprIR.noSem, hpe]

/-- a parse error makes the translated `Compile` return the Go error: every map order, every options -/
theorem compile_ir_parse_error (ord : List (Bytes × Bytes) → List (Bytes × Bytes))
    (opts : Option (List (Bytes × Bytes))) (src : Bytes) (h : (parse src).2 ≠ []) :
    ExprIR.interpCompile ord opts src = .error (.go .err) := by
  have hpe : (parse src).2.isEmpty = false := by
    cases he : (parse src).2 with
    | nil => exact absurd he h
    | cons _ _ => rfl
  unfold ExprIR.interpCompile
  rw [compilePre_parse_error ord opts src hpe]
  rfl

/-- **the map order enters only through the initial scope**: visiting the parameter map in the order
    `ord` is visiting, in list order reversed, the list `(ord ps).reverse` -/
theorem compile_ir_ord (ord : List (Bytes × Bytes) → List (Bytes × Bytes))
    (opts : Option (List (Bytes × Bytes))) (src : Bytes) :
    ExprIR.interpCompile ord opts src =
      ExprIR.interpCompile List.reverse (opts.map fun ps => (ord ps).reverse) src := by
  unfold ExprIR.interpCompile
  cases hpe : (parse src).2.isEmpty with
  | false => rw [compilePre_parse_error ord opts src hpe, compilePre_parse_error _ _ src hpe]
  | true =>
    rw [ExprIR.C06_compilePre_ir ord opts src (ExprIR.parsed_no_nil_tab src hpe),
      ExprIR.C06_compilePre_ir List.reverse _ src (ExprIR.parsed_no_nil_tab src hpe)]
    have hs : ExprIR.scope0 List.reverse (opts.map fun ps => (ord ps).reverse) = ExprIR.scope0 ord opts := by
      cases opts with
      | none => rfl
      | some ps => simp [ExprIR.scope0]
    rw [hs]

/-- the translated `Compile` with the map visited in ANY order `ord` that is a permutation of the
    parameter list (keys distinct, as in a Go map) returns what it returns with the list order -/
theorem compile_ir_any_order (ord : List (Bytes × Bytes) → List (Bytes × Bytes))
    (ps : List (Bytes × Bytes)) (src : Bytes) (hord : (ord ps).Perm ps) (hd : (ps.map (·.1)).Nodup) :
    ExprIR.interpCompile ord (some ps) src = ExprIR.interpCompile List.reverse (some ps) src := by
  rw [compile_ir_ord, ExprIR.C06_compile_ir, ExprIR.C06_compile_ir]
  have hp : ((ord ps).reverse).Perm ps := (List.reverse_perm _).trans hord
  have hd' : (((ord ps).reverse).map (·.1)).Nodup := (hp.map _).nodup_iff.2 hd
  show ExprIR.resultM (compile (ord ps).reverse src) = ExprIR.resultM (compile ps src)
  rw [C14.C14_compile_param_order_irrelevant src _ _ hp hd']

/-! ### `writeExpression` -/

mutual
/-- a `lexOK` expression has no nil sub-expression (the side condition of `C01_writeExpression_ir` in join mode) -/
theorem good_of_lexOK : (e : Expr) → e.lexOK = true → e.Good
  | .nil, h => by simp [Expr.lexOK] at h
  | .qident _, _ => by simp [Expr.Good]
  | .lit .., _ => by simp [Expr.Good]
  | .unary _ _ x, h => by
    simp only [Expr.lexOK, Bool.and_eq_true] at h
    simp only [Expr.Good]
    exact good_of_lexOK x h.2
  | .binary x _ _ y, h => by
    simp only [Expr.lexOK, Bool.and_eq_true] at h
    simp only [Expr.Good]
    exact ⟨good_of_lexOK x h.1, good_of_lexOK y h.2⟩
  | .inE x _ _ vals _, h => by
    simp only [Expr.lexOK, Bool.and_eq_true] at h
    simp only [Expr.Good]
    exact ⟨good_of_lexOK x h.1, goodList_of_lexOK vals h.2⟩
  | .paren _ x _, h => by
    simp only [Expr.lexOK] at h
    simp only [Expr.Good]
    exact good_of_lexOK x h
  | .call _ _ args _, h => by
    simp only [Expr.lexOK, Bool.and_eq_true] at h
    simp only [Expr.Good]
    exact goodList_of_lexOK args h.2
  | .index x _ idx _, h => by
    simp only [Expr.lexOK, Bool.and_eq_true] at h
    simp only [Expr.Good]
    exact ⟨good_of_lexOK x h.1, good_of_lexOK idx h.2⟩
theorem goodList_of_lexOK : (es : ExprList) → es.lexOK = true → es.Good
  | .nil, _ => by simp [ExprList.Good]
  | .cons e es, h => by
    simp only [ExprList.lexOK, Bool.and_eq_true] at h
    simp only [ExprList.Good]
    exact ⟨good_of_lexOK e h.1, goodList_of_lexOK es h.2⟩
end

theorem liftW_ok_iff {α : Type} (x : Except WErr α) (a : α) : WriteIR.liftW x = .ok a ↔ x = .ok a := by
  cases x with
  | ok b => simp [WriteIR.liftW]
  | error e => cases e <;> simp [WriteIR.liftW]

/-- the interpretation of the regenerated `writeExpression` returned the chunks `cs` iff the model's
    `writeExpr` did — on every `lexOK` expression, in every mode -/
theorem writeExpr_ir_ok_iff (c : Ctx) (e : Expr) (hok : e.lexOK = true) (cs : List Chunk) :
    ExprIR.interpWriteExpression c e = .ok cs ↔ writeExpr c e = .ok cs := by
  rw [ExprIR.C01_writeExpression_ir c e (fun _ => good_of_lexOK e hok), liftW_ok_iff]

/-! ### `Scan`: the hand-written loop around the interpretation of the regenerated switch -/

/-- the loop of `Scan` with an explicit budget: while bytes remain, one step of the regenerated switch
    (`Dispatch.interp`); `none` = the switch has no meaning here, makes no progress, or the budget is
    exhausted -/
def scanLoopIR : Nat → Bytes → Nat → Option (List Token)
  | 0, _, _ => none
  | fuel + 1, s, off =>
    if s = [] then some []
    else (Dispatch.interp s).bind fun st =>
      if st.width = 0 then none
      else (scanLoopIR fuel (s.drop st.width) (off + st.width)).map (st.toks off ++ ·)

theorem scanLoopIR_eq (fuel : Nat) : ∀ (s : Bytes) (off : Nat), s.length < fuel →
    scanLoopIR fuel s off = some (scanFrom s off) := by
  induction fuel with
  | zero =>
    intro s off h
    omega
  | succ fuel ih =>
    intro s off h
    by_cases hs : s = []
    · subst hs
      simp only [scanLoopIR, if_true, scanFrom_nil]
    · have hpos := scanOne_width_pos' hs
      have hle := scanOne_width_le s
      have hne : (scanOne s).width ≠ 0 := by omega
      simp only [scanLoopIR, hs, if_false, Dispatch.C09_dispatch_interp, Option.bind_some, hne]
      rw [ih _ _ (by simp only [List.length_drop]; omega), scanFrom_step hs off]
      rfl

/-- `Scan(src)`: the loop with budget `len(src) + 1` -/
def scanIR (s : Bytes) : Option (List Token) := scanLoopIR (s.length + 1) s 0

/-- the loop around the interpreted switch never fails and returns the model's tokens -/
theorem scanIR_eq (s : Bytes) : scanIR s = some (scan s) := scanLoopIR_eq _ s 0 (Nat.lt_succ_self _)

/-- `Scan` as a total function (`[]` where `scanIR` is `none`: nowhere, by `scanIR_eq`) -/
def scanFn (s : Bytes) : List Token := (scanIR s).getD []

theorem scanFn_eq : scanFn = scan := by
  funext s
  simp [scanFn, scanIR_eq]

/-! ### `SplitStatements` and the library of `cmd/pql` -/

/-- the primitives of the lexer interpreters: `Scan` = the loop around the interpreted switch -/
def lexLib : LexIR.Lib := ⟨scanFn, fun _ _ => 0⟩

theorem lexLib_scan : lexLib.scan = scan := scanFn_eq

def emptyHeap : LexIR.Heap := ⟨[], 0, 0⟩

/-- `SplitStatements` as a function, read off the interpretation of its regenerated body -/
def splitIR (src : Bytes) : List Bytes :=
  match LexIR.interpSplit lexLib [.str src] emptyHeap with
  | .ok ([.strs ps], _) => ps
  | _ => []

theorem splitIR_eq : splitIR = splitStatements := by
  funext src
  unfold splitIR
  rw [LexIR.C15_split_ir lexLib lexLib_scan src emptyHeap]

/-- the interpretation of `SplitStatements` returned `r` iff `r` is the model's pieces (heap unchanged) -/
theorem split_ir_iff (lib : LexIR.Lib) (hs : lib.scan = scan) (src : Bytes) (h : LexIR.Heap)
    (r : List LexIR.Val × LexIR.Heap) :
    LexIR.interpSplit lib [.str src] h = .ok r ↔ r = ([.strs (splitStatements src)], h) := by
  rw [LexIR.C15_split_ir lib hs src h]
  constructor
  · intro e; injection e with e; exact e.symm
  · intro e; rw [e]

/-- the library `run` of cmd/pql is interpreted with: every entry the interpretation of translated code -/
def irLib : CliIR.Lib := ⟨splitIR, scanFn, NoPanic.compileIR⟩

theorem irLib_eq : irLib = CliIR.modelLib CliSem.compileCli := by
  unfold irLib CliIR.modelLib
  rw [splitIR_eq, scanFn_eq, NoPanic.compileIR_eq]

end Pql.IRHead
