/-
Scoped ParseRoundtrip (task R5), part 2: signs, binary operators, `in`, subscripts — `GoodS` for a
node from `GoodS` for its children (port of Lemmas/SqlRoundtripCases.lean).  The only new
ingredient is `JoinOK`: in a join condition the writer decides "is this an equality between the two
sides" on the tree with the names, the translation on the tree with the values.
-/
import PqlModel.Lemmas.ScopeRTGood
namespace Pql.RT
set_option linter.unusedSimpArgs false
open Pql Sql CompileOracle

/-- in join mode, substitution does not change which sides of the join an expression mentions -/
def JoinOK (ctx : Ctx) (env : List (Bytes × Expr)) : Prop :=
  ctx.mode = .join → ∀ x, hasJoinTerms (substExpr env x) = hasJoinTerms x

theorem joinCond_subst {ctx : Ctx} {env : List (Bytes × Expr)} (hJ : JoinOK ctx env) (x y : Expr) :
    (ctx.mode == Mode.join && ((hasJoinTerms (substExpr env x)).fst || (hasJoinTerms (substExpr env y)).fst) &&
        ((hasJoinTerms (substExpr env x)).snd || (hasJoinTerms (substExpr env y)).snd)) =
      (ctx.mode == Mode.join && ((hasJoinTerms x).fst || (hasJoinTerms y).fst) &&
        ((hasJoinTerms x).snd || (hasJoinTerms y).snd)) := by
  by_cases hm : ctx.mode = .join
  · rw [hJ hm x, hJ hm y]
  · have : (ctx.mode == Mode.join) = false := by simpa using hm
    simp only [this, Bool.false_and]

theorem goodS_unary {ctx : Ctx} {env : List (Bytes × Expr)} {x : Expr} (a : Span) (op : TokKind) (g : GoodS ctx env x)
    (hok : (Expr.unary a op x).lexOK = true) : GoodS ctx env (.unary a op x) := by
  apply GoodS.ofUnit (by simp [isSigned])
  intro cs want h1 h2
  simp only [writeExpr] at h1
  obtain ⟨xs, hx, h1⟩ := map_ok h1
  simp only [substExpr, tr] at h2
  obtain ⟨wx, hwx, h2⟩ := obind_some h2
  have hu := (g.tight hx hwx).toUnit
  simp only [Expr.lexOK, Bool.and_eq_true, Bool.or_eq_true, decide_eq_true_eq] at hok
  rcases hok.1 with hp | hm
  · subst hp
    simp only [pure, Except.pure, if_true, Except.ok.injEq] at h1
    simp only [reduceCtorEq, if_false, if_true, pure, Option.some.injEq] at h2
    subst h1 h2
    simpa using hu.pos
  · subst hm
    simp only [pure, Except.pure, reduceCtorEq, if_false, if_true, Except.ok.injEq] at h1
    simp only [if_true, pure, Option.some.injEq] at h2
    subst h1 h2
    simpa using hu.neg

/-- both operands written by `writeExpressionMaybeParen` -/
theorem two_unitsS {ctx : Ctx} {env : List (Bytes × Expr)} {x y : Expr} (gx : GoodS ctx env x) (gy : GoodS ctx env y) {wx wy : SExpr}
    (hwx : tr (ctx.mode == .join) (substExpr env x) = some wx) (hwy : tr (ctx.mode == .join) (substExpr env y) = some wy)
    {k : List Chunk → List Chunk → Except WErr (List Chunk)} {cs : List Chunk}
    (h : (do let xs ← (writeExpr ctx x).map (wrapMaybe x); let ys ← (writeExpr ctx y).map (wrapMaybe y); k xs ys)
      = .ok cs) :
    ∃ xs ys, UnitP (toksOf xs) wx ∧ UnitP (toksOf ys) wy ∧ k xs ys = .ok cs := by
  obtain ⟨xs, hx, h⟩ := map_ok h
  obtain ⟨ys, hy, h⟩ := map_ok h
  exact ⟨_, _, gx.unit hx hwx, gy.unit hy hwy, h⟩


theorem goodS_binary {ctx : Ctx} {env : List (Bytes × Expr)} {x y : Expr} (a : Span) (op : TokKind) (gx : GoodS ctx env x) (gy : GoodS ctx env y)
    (hJ : JoinOK ctx env) : GoodS ctx env (.binary x a op y) := by
  apply GoodS.ofExpr (needsWrap_binary ..)
  intro cs want h1 h2
  simp only [substExpr, tr] at h2
  obtain ⟨wx, hwx, h2⟩ := obind_some h2
  obtain ⟨wy, hwy, h2⟩ := obind_some h2
  simp only [writeExpr] at h1
  by_cases heq : op = .eq
  · subst heq
    simp only [if_true] at h1 h2
    rw [joinCond_subst hJ x y] at h2
    by_cases hj : ctx.mode = Mode.join ∧ ((hasJoinTerms x).fst || (hasJoinTerms y).fst) = true ∧
        ((hasJoinTerms x).snd || (hasJoinTerms y).snd) = true
    · rw [if_pos hj] at h1
      have hj' : (ctx.mode == Mode.join && ((hasJoinTerms x).fst || (hasJoinTerms y).fst) &&
          ((hasJoinTerms x).snd || (hasJoinTerms y).snd)) = true := by
        simp only [Bool.and_eq_true, beq_iff_eq]; exact ⟨⟨hj.1, hj.2.1⟩, hj.2.2⟩
      rw [if_pos hj'] at h2
      obtain ⟨xs, ys, ux, uy, h1⟩ := two_unitsS gx gy hwx hwy h1
      simp only [pure, Except.pure, Except.ok.injEq, Option.some.injEq] at h1 h2
      subst h1 h2
      simpa using binP infix_eq ux uy
    · rw [if_neg hj] at h1
      have hj' : ¬ (ctx.mode == Mode.join && ((hasJoinTerms x).fst || (hasJoinTerms y).fst) &&
          ((hasJoinTerms x).snd || (hasJoinTerms y).snd)) = true := by
        simp only [Bool.and_eq_true, beq_iff_eq]; exact fun h => hj ⟨h.1.1, h.1.2, h.2⟩
      rw [if_neg hj'] at h2
      obtain ⟨xs, ys, ux, uy, h1⟩ := two_unitsS gx gy hwx hwy h1
      simp only [pure, Except.pure, Except.ok.injEq, Option.some.injEq] at h1 h2
      subst h1 h2
      simpa using (coalesceP (binP infix_eq ux uy)).toExpr
  · rw [if_neg heq] at h1 h2
    by_cases hne : op = .ne
    · subst hne
      simp only [if_true] at h1 h2
      obtain ⟨xs, ys, ux, uy, h1⟩ := two_unitsS gx gy hwx hwy h1
      simp only [pure, Except.pure, Except.ok.injEq, Option.some.injEq] at h1 h2
      subst h1 h2
      simpa using (coalesceP (binP infix_ne ux uy)).toExpr
    · rw [if_neg hne] at h1 h2
      by_cases hci : op = .cieq
      · subst hci
        simp only [if_true] at h1 h2
        obtain ⟨xs, hx, h1⟩ := bind_ok h1
        obtain ⟨ys, hy, h1⟩ := bind_ok h1
        simp only [pure, Except.pure, Except.ok.injEq, Option.some.injEq] at h1 h2
        subst h1 h2
        have := binP infix_eq (call1P ws_lower (gx.expr hx hwx)).toUnit (call1P ws_lower (gy.expr hy hwy)).toUnit
        simpa [fnCall] using this
      · rw [if_neg hci] at h1 h2
        by_cases hcn : op = .cine
        · subst hcn
          simp only [if_true] at h1 h2
          obtain ⟨xs, hx, h1⟩ := bind_ok h1
          obtain ⟨ys, hy, h1⟩ := bind_ok h1
          simp only [pure, Except.pure, Except.ok.injEq, Option.some.injEq] at h1 h2
          subst h1 h2
          have := binP infix_ne (call1P ws_lower (gx.expr hx hwx)).toUnit (call1P ws_lower (gy.expr hy hwy)).toUnit
          simpa [fnCall] using this
        · rw [if_neg hcn] at h1 h2
          cases hp : plainOp op with
          | none => rw [hp] at h2; cases h2
          | some sym =>
            obtain ⟨hb, t, p, htt, hinf⟩ := plain_op hp
            rw [hp] at h2
            rw [hb] at h1
            obtain ⟨xs, ys, ux, uy, h1⟩ := two_unitsS gx gy hwx hwy h1
            simp only [pure, Except.pure, Except.ok.injEq, Option.some.injEq] at h1 h2
            subst h1 h2
            simpa [htt] using binP hinf ux uy

theorem goodS_index {ctx : Ctx} {env : List (Bytes × Expr)} {x i : Expr} (a b : Span) (gx : GoodS ctx env x) (gi : GoodS ctx env i) :
    GoodS ctx env (.index x a i b) := by
  apply GoodS.ofExpr (needsWrap_index ..)
  intro cs want h1 h2
  simp only [substExpr, tr] at h2
  obtain ⟨wx, hwx, h2⟩ := obind_some h2
  obtain ⟨wi, hwi, h2⟩ := obind_some h2
  simp only [writeExpr] at h1
  obtain ⟨xs, hx, h1⟩ := map_ok h1
  obtain ⟨is, hi, h1⟩ := bind_ok h1
  simp only [pure, Except.pure, Except.ok.injEq, Option.some.injEq] at h1 h2
  subst h1 h2
  simpa using (indexP (gx.tight hx hwx) (gi.expr hi hwi)).toExpr


theorem writeList_relS {ctx : Ctx} {env : List (Bytes × Expr)} : ∀ (es : ExprList) (as : List (List Chunk)) (ws : SExprList),
    writeList ctx es = .ok as → trList (ctx.mode == .join) (substList env es) = some ws → (∀ e ∈ es.toList, GoodS ctx env e) →
    ∃ ps, ArgRel ctx es as ws ps
  | .nil, as, ws, h1, h2, _ => by
    simp only [writeList, Except.ok.injEq] at h1
    simp only [substList, trList, Option.some.injEq] at h2
    subst h1 h2
    exact ⟨[], rfl, rfl, rfl, by simp⟩
  | .cons e es, as, ws, h1, h2, hg => by
    simp only [writeList] at h1
    obtain ⟨c, hc, h1⟩ := bind_ok h1
    obtain ⟨cs, hcs, h1⟩ := bind_ok h1
    simp only [substList, trList] at h2
    obtain ⟨w, hw, h2⟩ := obind_some h2
    obtain ⟨ws', hws, h2⟩ := obind_some h2
    simp only [pure, Except.pure, Except.ok.injEq, Option.some.injEq] at h1 h2
    subst h1 h2
    obtain ⟨ps, hps⟩ := writeList_relS es cs ws' hcs hws (fun e' he' => hg e' (by simp [ExprList.toList, he']))
    have ge : GoodS ctx env e := hg e (by simp [ExprList.toList])
    refine ⟨(e, c, w) :: ps, ?_, ?_, ?_, ?_⟩
    · simp [ExprList.toList, hps.exprs]
    · simp [hps.chunks]
    · simp [ofL, hps.trs]
    · intro p hp
      rcases List.mem_cons.mp hp with rfl | hp
      · exact ⟨ge.expr hc hw, ge.unit hc hw⟩
      · exact hps.good p hp


theorem goodS_in {ctx : Ctx} {env : List (Bytes × Expr)} {x : Expr} {vals : ExprList} (a b c : Span) (gx : GoodS ctx env x)
    (gv : ∀ e ∈ vals.toList, GoodS ctx env e) (hne : vals.length ≠ 0) : GoodS ctx env (.inE x a b vals c) := by
  apply GoodS.ofExpr (needsWrap_in ..)
  intro cs want h1 h2
  simp only [substExpr, tr] at h2
  obtain ⟨wx, hwx, h2⟩ := obind_some h2
  obtain ⟨ws, hws, h2⟩ := obind_some h2
  simp only [writeExpr] at h1
  obtain ⟨xs, hx, h1⟩ := map_ok h1
  obtain ⟨vs, hvs, h1⟩ := bind_ok h1
  obtain ⟨as, has, hvs'⟩ := writeListMaybeParen_eq vals vs hvs
  obtain ⟨ps, hps⟩ := writeList_relS vals as ws has hws gv
  simp only [pure, Except.pure, Except.ok.injEq, Option.some.injEq] at h1 h2
  subst h1 h2
  rw [zip_rel hps] at hvs'
  match ps, hps with
  | [], hps =>
    have := hps.exprs
    cases vals with
    | nil => exact absurd rfl hne
    | cons _ _ => simp [ExprList.toList] at this
  | p :: ps, hps =>
    have hu := gx.unit hx hwx
    have key := inP hu (toksOf (wrapMaybe p.1 p.2.1), p.2.2) (wrapPairs ps) (hps.good p (by simp)).2.toExpr
      (by
        intro q hq
        simp only [wrapPairs, List.mem_map] at hq
        obtain ⟨r, hr, rfl⟩ := hq
        exact (hps.good r (by simp [hr])).2.toExpr)
    rw [hps.trs]
    have hvs'' : vs = (p :: ps).map (fun p => wrapMaybe p.1 p.2.1) := by
      rw [hvs']; simp [List.map_map, Function.comp_def]
    subst hvs''
    simp only [List.map_cons, toksOf_append, toksOf_cons, chunkToks_txt, tt_in, tt_rparen, toksOf_nil,
      toksOf_sepChunks, List.append_nil]
    rw [sepTail_wrap ", " (S ",") tt_comma ps]
    simpa [wrapPairs, Function.comp_def] using key


end Pql.RT
