/-
The statement terminator, part 1: no fixed text the expression writer emits contains the byte
`;`, so the only `;` symbol tokens of an adjacent chunk list come from explicit `.txt ";"`
chunks — a `;` inside a name or a string is part of that name's / string's token.
-/
import PqlModel.Lemmas.LexStmtProgram
namespace Pql.C05
open Pql Sql LexRender

/-- the chunk contributes no `;` symbol token: fixed texts without the byte `;`, names, strings,
    numbers and function names (single non-symbol tokens); raw parameter text is not covered -/
def semiFree : Chunk → Bool
  | .txt s => !(Bytes.ofString s).contains 59
  | .raw _ => false
  | _ => true

def SF (cs : List Chunk) : Bool := cs.all semiFree

theorem SF_nil : SF [] = true := rfl
theorem SF_cons (c : Chunk) (cs : List Chunk) : SF (c :: cs) = (semiFree c && SF cs) := by simp [SF]
theorem SF_append (a b : List Chunk) : SF (a ++ b) = (SF a && SF b) := by simp [SF]
theorem SF_paren (b : List Chunk) : SF (parenthesise b) = SF b := by
  have h1 : semiFree (.txt "(") = true := by decide
  have h2 : semiFree (.txt ")") = true := by decide
  simp [parenthesise, SF_cons, SF_append, SF_nil, h1, h2]
theorem SF_wrapMaybe (e : Expr) (b : List Chunk) : SF (wrapMaybe e b) = SF b := by
  unfold wrapMaybe; split
  · exact SF_paren b
  · rfl
theorem SF_wrapTight (e : Expr) (b : List Chunk) : SF (wrapTight e b) = SF b := by
  unfold wrapTight; split
  · exact SF_paren b
  · exact SF_wrapMaybe e b

theorem SF_sepChunks {sep : String} (hs : semiFree (.txt sep) = true) :
    ∀ (vs : List (List Chunk)), (∀ v ∈ vs, SF v = true) → SF (sepChunks sep vs) = true
  | [], _ => rfl
  | [x], h => by simpa [sepChunks] using h x (by simp)
  | x :: y :: xs, h => by
    rw [sepChunks]
    case x_2 => intro e; cases e
    rw [SF_append, SF_cons, h x (by simp), hs,
      SF_sepChunks hs (y :: xs) (fun v hv => h v (by simp [hv]))]
    rfl

/-! ### atoms -/

theorem sym1Name_semi (c : UInt8) (h : sym1Name c = ";") : c = 59 := by
  unfold sym1Name at h
  cases hf : oneCharSyms.find? (fun o => o.1 == c) with
  | none => rw [hf] at h; simp at h
  | some o =>
    rw [hf] at h
    simp only [Option.map_some, Option.getD_some] at h
    have hm := List.mem_of_find?_eq_some hf
    have hc := List.find?_some hf
    simp only [oneCharSyms, List.mem_cons, List.not_mem_nil, or_false] at hm
    rcases hm with rfl | rfl | rfl | rfl | rfl | rfl | rfl | rfl | rfl | rfl | rfl | rfl | rfl | rfl | rfl <;>
      first
        | (exact absurd h (by decide))
        | (have hc2 := hc; simp at hc2; exact hc2.symm)

theorem sym2Name_ne_semi (c d : UInt8) : sym2Name c d ≠ ";" := by
  unfold sym2Name
  cases hf : twoCharSyms.find? (fun o => o.1 == c && o.2.1 == d) with
  | none => simp
  | some o =>
    simp only [Option.map_some, Option.getD_some]
    have hm := List.mem_of_find?_eq_some hf
    simp only [twoCharSyms, List.mem_cons, List.not_mem_nil, or_false] at hm
    rcases hm with rfl | rfl | rfl | rfl | rfl <;> decide

theorem atom_semi {a : Atom} (h : STok.sym ";" ∈ a.toks) : a.bytes = [59] := by
  cases a with
  | sym1 c =>
    simp only [Atom.toks, List.mem_singleton, STok.sym.injEq] at h
    rw [sym1Name_semi c h.symm]; rfl
  | sym2 c d =>
    simp only [Atom.toks, List.mem_singleton, STok.sym.injEq] at h
    exact absurd h.symm (sym2Name_ne_semi c d)
  | _ => simp [Atom.toks] at h

theorem rawToks_semi : ∀ {as : List Atom}, STok.sym ";" ∈ rawToks as → 59 ∈ renderAtoms as
  | [], h => by simp [rawToks] at h
  | a :: as, h => by
    rw [rawToks_cons, List.mem_append] at h
    rw [renderAtoms_cons, List.mem_append]
    rcases h with h | h
    · left; rw [atom_semi h]; simp
    · right; exact rawToks_semi h

theorem chunk_no_semi {c : Chunk} (hok : chunkOK c = true) (hsf : semiFree c = true) :
    STok.sym ";" ∉ rawToks (chunkAtoms c) := by
  intro h
  have h59 := rawToks_semi h
  rw [chunk_render hok] at h59
  cases c with
  | txt s => simp [semiFree, Chunk.bytes] at hsf h59; exact hsf h59
  | raw v => simp [semiFree] at hsf
  | _ => simp [chunkAtoms, rawToks, Atom.toks] at h

theorem rawToksOf_no_semi : ∀ {cs : List Chunk}, cs.all chunkOK = true → SF cs = true →
    STok.sym ";" ∉ rawToksOf cs
  | [], _, _ => by simp [rawToksOf, atomsOf, rawToks]
  | c :: cs, hok, hsf => by
    simp only [List.all_cons, Bool.and_eq_true] at hok
    rw [SF_cons, Bool.and_eq_true] at hsf
    rw [rawToksOf, atomsOf_cons, rawToks_append, List.mem_append]
    rintro (h | h)
    · exact chunk_no_semi hok.1 hsf.1 h
    · exact rawToksOf_no_semi hok.2 hsf.2 h

/-- **an adjacent, semicolon-free chunk list has no `;` symbol token** -/
theorem toksOf_no_semi {rest : Bytes} {cs : List Chunk} (h : AdjC rest cs = true) (hsf : SF cs = true) :
    STok.sym ";" ∉ toksOf cs := by
  rw [← toksOf_eq h]
  intro hm
  exact rawToksOf_no_semi (AdjC_elim h).1 hsf (List.mem_filter.mp hm).1

end Pql.C05
