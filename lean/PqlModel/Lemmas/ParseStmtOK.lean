/-
C05, syntactic half, stage 3 (a): the Bool side condition on a whole pipeline (`tabularOK`), its
propagation to every link of the chain `splitA` builds, and `substTabular [] t = t` (a program
without lets is its own resolution).
-/
import PqlModel.Lemmas.ParseStmtOne
import PqlModel.Lemmas.ScopeLets
namespace Pql.C05
set_option linter.unusedSimpArgs false
set_option linter.unusedVariables false
open Pql Sql CompileOracle Intended Pql.RT

mutual
/-- every expression of the pipeline (at any nesting) is `exprOK`; the join condition is the
    AND-ed, key-rewritten condition `buildJoinCondition` builds, read in join mode; `project`,
    `sort` and the columns of `summarize` are non-empty (SQL needs at least one item / term) -/
def tabularOK : Tabular → Bool
  | .nil => true
  | .mk _ ops => opsOK ops
def opsOK : OpList → Bool
  | .nil => true
  | .cons o os => opOK1 o && opsOK os
def opOK1 : Op → Bool
  | .sort _ _ terms => sortOK (some terms)
  | .take _ _ n => exprOK n
  | .top _ _ n _ col => exprOK n && (match col with | some c => exprOK c.x | none => true)
  | .join _ _ _ _ _ _ right _ _ conds => tabularOK right && exprOKin true (buildJoinCondition conds)
  | .as_ p k n => opOK (some (.as_ p k n))
  | .count p k => opOK (some (.count p k))
  | .where_ p k e => opOK (some (.where_ p k e))
  | .project p k cs => opOK (some (.project p k cs))
  | .extend p k cs => opOK (some (.extend p k cs))
  | .summarize p k cs b gs => opOK (some (.summarize p k cs b gs))
  | .render p k c w lp props rp => opOK (some (.render p k c w lp props rp))
end

def AllOK (dst : List SubA) : Prop := ∀ a ∈ dst, subOK a = true

theorem AllOK.snoc {dst : List SubA} {a : SubA} (h : AllOK dst) (ha : subOK a = true) : AllOK (dst ++ [a]) := by
  intro b hb
  rcases List.mem_append.1 hb with hb | hb
  · exact h b hb
  · simp only [List.mem_singleton] at hb; subst hb; exact ha

theorem chainA_ok (dst : List SubA) (ds : Nat) (source : Option Ident) : subOK (chainA dst ds source) = true := rfl

theorem chainA_op_ok (dst : List SubA) (ds : Nat) (source : Option Ident) (o : Op) (ho : opOK (some o) = true) :
    subOK { chainA dst ds source with op := some o } = true := by
  simp [subOK, chainA, srcOK, ho, sortOK, takeOK]

theorem AllOK.setLast {dst : List SubA} (h : AllOK dst) {f : SubA → SubA} (hf : ∀ a, subOK a = true → subOK (f a) = true) :
    AllOK (setLastA dst f) := by
  unfold setLastA
  cases hr : dst.reverse with
  | nil => intro a ha; cases ha
  | cons s rest =>
    intro a ha
    simp only [List.reverse_cons, List.mem_append, List.mem_reverse, List.mem_singleton] at ha
    have hmem : ∀ b, b ∈ s :: rest → b ∈ dst := fun b hb => by
      have : b ∈ dst.reverse := by rw [hr]; exact hb
      simpa using this
    rcases ha with ha | rfl
    · exact h a (hmem a (List.mem_cons_of_mem _ ha))
    · exact hf s (h s (hmem s (by simp)))

theorem AllOK.attach {dst : List SubA} (h : AllOK dst) (c : Bool) (ds : Nat) (source : Option Ident) :
    AllOK (if c = true then dst else dst ++ [chainA dst ds source]) := by
  cases c
  · exact h.snoc (chainA_ok _ _ _)
  · exact h

theorem subOK_sort {a : SubA} (terms : List SortTerm) (h : subOK a = true) (ht : sortOK (some terms) = true) :
    subOK { a with sort := some terms } = true := by
  simp only [subOK, Bool.and_eq_true] at h ⊢
  exact ⟨⟨h.1.1, ht⟩, h.2⟩

theorem subOK_take {a : SubA} (n : Expr) (h : subOK a = true) (ht : exprOK n = true) :
    subOK { a with take := some n } = true := by
  simp only [subOK, Bool.and_eq_true] at h ⊢
  exact ⟨h.1, ht⟩

mutual
theorem splitA_ok : (t : Tabular) → tabularOK t = true → (dst out : List SubA) → AllOK dst →
    splitA dst t = some out → AllOK out
  | .nil, _, dst, out, _, h => by simp [splitA] at h
  | .mk source ops, hok, dst, out, hd, h => by
    simp only [tabularOK] at hok
    simp only [splitA, Option.bind_eq_bind, Option.pure_def] at h
    cases hs : splitOpsA source dst.length dst ops with
    | none => rw [hs] at h; cases h
    | some d =>
      rw [hs] at h
      have hdOK := splitOpsA_ok ops hok source dst.length dst d hd hs
      simp only [Option.bind_some] at h
      split at h
      · cases h; exact hdOK.snoc (chainA_ok _ _ _)
      · cases h; exact hdOK
theorem splitOpsA_ok : (ops : OpList) → opsOK ops = true → (source : Option Ident) → (ds : Nat) →
    (dst out : List SubA) → AllOK dst → splitOpsA source ds dst ops = some out → AllOK out
  | .nil, _, source, ds, dst, out, hd, h => by
    simp only [splitOpsA, Option.some.injEq] at h
    subst h; exact hd
  | .cons (.as_ p k n) rest, hok, source, ds, dst, out, hd, h => by
    simp only [opsOK, opOK1, Bool.and_eq_true] at hok
    simp only [splitOpsA] at h
    exact splitOpsA_ok rest hok.2 source ds _ out (hd.snoc (by simp [subOK, chainA, srcOK, opOK, sortOK, takeOK])) h
  | .cons (.count p k) rest, hok, source, ds, dst, out, hd, h => by
    simp only [opsOK, opOK1, Bool.and_eq_true] at hok
    simp only [splitOpsA] at h
    exact splitOpsA_ok rest hok.2 source ds _ out (hd.snoc (chainA_op_ok _ _ _ _ hok.1)) h
  | .cons (.where_ p k e) rest, hok, source, ds, dst, out, hd, h => by
    simp only [opsOK, opOK1, Bool.and_eq_true] at hok
    simp only [splitOpsA] at h
    exact splitOpsA_ok rest hok.2 source ds _ out (hd.snoc (chainA_op_ok _ _ _ _ hok.1)) h
  | .cons (.project p k cs) rest, hok, source, ds, dst, out, hd, h => by
    simp only [opsOK, opOK1, Bool.and_eq_true] at hok
    simp only [splitOpsA] at h
    exact splitOpsA_ok rest hok.2 source ds _ out (hd.snoc (chainA_op_ok _ _ _ _ hok.1)) h
  | .cons (.extend p k cs) rest, hok, source, ds, dst, out, hd, h => by
    simp only [opsOK, opOK1, Bool.and_eq_true] at hok
    simp only [splitOpsA] at h
    exact splitOpsA_ok rest hok.2 source ds _ out (hd.snoc (chainA_op_ok _ _ _ _ hok.1)) h
  | .cons (.summarize p k cs b gs) rest, hok, source, ds, dst, out, hd, h => by
    simp only [opsOK, opOK1, Bool.and_eq_true] at hok
    simp only [splitOpsA] at h
    exact splitOpsA_ok rest hok.2 source ds _ out (hd.snoc (chainA_op_ok _ _ _ _ hok.1)) h
  | .cons (.render p k c w lp props rp) rest, hok, source, ds, dst, out, hd, h => by
    simp only [opsOK, opOK1, Bool.and_eq_true] at hok
    simp only [splitOpsA] at h
    exact splitOpsA_ok rest hok.2 source ds _ out (hd.snoc (chainA_op_ok _ _ _ _ hok.1)) h
  | .cons (.sort p k terms) rest, hok, source, ds, dst, out, hd, h => by
    simp only [opsOK, opOK1, Bool.and_eq_true] at hok
    simp only [splitOpsA] at h
    exact splitOpsA_ok rest hok.2 source ds _ out
      ((hd.attach _ ds source).setLast fun a ha => subOK_sort terms ha hok.1) h
  | .cons (.take p k n) rest, hok, source, ds, dst, out, hd, h => by
    simp only [opsOK, opOK1, Bool.and_eq_true] at hok
    simp only [splitOpsA] at h
    exact splitOpsA_ok rest hok.2 source ds _ out
      ((hd.attach _ ds source).setLast fun a ha => subOK_take n ha hok.1) h
  | .cons (.top p k n by_ col) rest, hok, source, ds, dst, out, hd, h => by
    simp only [opsOK, opOK1, Bool.and_eq_true] at hok
    simp only [splitOpsA] at h
    cases col with
    | none => cases h
    | some c =>
      simp only at h hok
      exact splitOpsA_ok rest hok.2 source ds _ out
        ((hd.attach _ ds source).setLast fun a ha =>
          subOK_take n (subOK_sort [c] ha (by simp [sortOK, hok.1.2])) hok.1.1) h
  | .cons (.join p k kind ka flavor lp right rp on conds) rest, hok, source, ds, dst, out, hd, h => by
    simp only [opsOK, opOK1, Bool.and_eq_true] at hok
    simp only [splitOpsA, Option.bind_eq_bind] at h
    cases hr : splitA dst right with
    | none => rw [hr] at h; cases h
    | some d =>
      rw [hr] at h
      simp only [Option.bind_some] at h
      have hdOK := splitA_ok right hok.1.1 dst d hd hr
      split at h
      · cases h
      · exact splitOpsA_ok rest hok.2 source ds _ out
          (hdOK.snoc (by simp [subOK, srcOK, hok.1.2, opOK, sortOK, takeOK])) h
end

/-! ### the join condition -/

/-- every written join condition is OK (read in join mode) -/
def condsOK : ExprList → Bool
  | .nil => true
  | .cons c cs => exprOKin true c && condsOK cs

theorem exprOKin_and {x y : Expr} (hx : exprOKin true x = true) (hy : exprOKin true y = true) :
    exprOKin true (.binary x .zero .and_ y) = true := by
  simp only [exprOKin, Bool.and_eq_true, Option.isSome_iff_exists] at hx hy ⊢
  obtain ⟨⟨hx1, hx2⟩, a, ha⟩ := hx
  obtain ⟨⟨hy1, hy2⟩, b, hb⟩ := hy
  refine ⟨⟨by simp [Expr.lexOK, hx1, hy1], by simp [shapeOK, hx2, hy2]⟩, .bin "AND" a b, ?_⟩
  simp [tr, ha, hb, plainOp]

theorem exprOKin_key (part : Ident) :
    exprOKin true (.binary (.qident [⟨leftAlias, .zero, false⟩, part]) .zero .eq (.qident [⟨rightAlias, .zero, false⟩, part])) = true := by
  simp only [exprOKin, Bool.and_eq_true, Option.isSome_iff_exists]
  refine ⟨⟨by simp [Expr.lexOK], by simp [shapeOK]⟩, ?_⟩
  simp only [tr, Option.bind_eq_bind, Option.bind_some, if_true]
  split <;> exact ⟨_, rfl⟩

theorem exprOKin_rewrite {c : Expr} (h : exprOKin true c = true) : exprOKin true (rewriteSimpleJoinCondition c) = true := by
  unfold rewriteSimpleJoinCondition
  split
  · split
    · exact h
    · exact exprOKin_key _
  · exact h

theorem exprOKin_go : ∀ (cs : ExprList) (x : Expr), exprOKin true x = true → condsOK cs = true →
    exprOKin true (buildJoinCondition.go x cs) = true
  | .nil, x, hx, _ => by simpa [buildJoinCondition.go] using hx
  | .cons y ys, x, hx, h => by
    simp only [condsOK, Bool.and_eq_true] at h
    simp only [buildJoinCondition.go]
    exact exprOKin_go ys _ (exprOKin_and hx (exprOKin_rewrite h.1)) h.2

/-- the join conjunct of `tabularOK` follows from the conditions as written -/
theorem condsOK_build (conds : ExprList) (h : condsOK conds = true) : exprOKin true (buildJoinCondition conds) = true := by
  cases conds with
  | nil => decide
  | cons c cs =>
    simp only [condsOK, Bool.and_eq_true] at h
    simp only [buildJoinCondition]
    exact exprOKin_go cs _ (exprOKin_rewrite h.1) h.2

/-! ### no lets: the program is its own resolution -/

theorem substColumn_nil (c : Column) : substColumn [] c = c := by
  obtain ⟨name, assign, x⟩ := c
  cases x <;> cases name <;> simp [substColumn, substExpr_nil]

theorem substColumns_nil (cs : List Column) : cs.map (substColumn []) = cs := by
  induction cs with
  | nil => rfl
  | cons c cs ih => simp [substColumn_nil, ih]

theorem substTerms_nil (ts : List SortTerm) : (ts.map fun t => { t with x := substExpr [] t.x }) = ts := by
  induction ts with
  | nil => rfl
  | cons t ts ih => simp [substExpr_nil, ih]

theorem substConds_nil : (es : ExprList) → substConds [] es = es
  | .nil => rfl
  | .cons e es => by
    simp only [substConds, substConds_nil es, substCond, substExpr_nil]
    split <;> rfl

mutual
theorem substTabular_nil : (t : Tabular) → substTabular [] t = t
  | .nil => rfl
  | .mk s ops => by simp only [substTabular, substOps_nil ops]
theorem substOps_nil : (ops : OpList) → substOps [] ops = ops
  | .nil => rfl
  | .cons o os => by simp only [substOps, substOp_nil o, substOps_nil os]
theorem substOp_nil : (o : Op) → substOp [] o = o
  | .where_ p k e => by simp only [substOp, substExpr_nil]
  | .sort p k ts => by simp only [substOp, substTerms_nil]
  | .take p k n => by simp only [substOp, substExpr_nil]
  | .top p k n b c => by
    cases c with
    | none => simp only [substOp, substExpr_nil, Option.map_none]
    | some t => simp only [substOp, substExpr_nil, Option.map_some]
  | .project p k cs => by simp only [substOp, substColumns_nil]
  | .extend p k cs => by simp only [substOp, substColumns_nil]
  | .summarize p k cs b gs => by simp only [substOp, substColumns_nil]
  | .join p k a b c d right e f conds => by simp only [substOp, substTabular_nil right, substConds_nil]
  | .as_ .. => rfl
  | .count .. => rfl
  | .render .. => rfl
end

end Pql.C05
