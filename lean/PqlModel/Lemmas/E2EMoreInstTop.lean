/-
Placeholders, part 5: the clauses of `pSelect`, `pCtes`, `parseStatement` commute with the instantiation.
-/
import PqlModel.Lemmas.E2EMoreInstStmt
namespace Pql.E2EMore
set_option linter.unusedSimpArgs false
open Pql Sql Pql.C05

variable (ρ : Bytes → PVal)

/-- the part of `joinPart` after the `JOIN` keyword -/
def joinRest (left : Bool) (r5 : List STok) : PR (Option JoinClause) :=
  match pTableRef r5 with
  | some (tr, r6) =>
    match r6 with
    | on :: r7 =>
      if !isWord on "ON" then none else
      match pExprS (fuelOf r7) 0 r7 with
      | some (c, r8) => some (some ⟨left, tr, c⟩, r8)
      | none => none
    | [] => none
  | none => none

theorem joinPart_eq (r3 : List STok) :
    joinPart r3 =
      match r3 with
      | j :: r4 =>
        if isWord j "JOIN" then joinRest false r4
        else if isWord j "LEFT" then
          match r4 with
          | j2 :: r5 => if isWord j2 "JOIN" then joinRest true r5 else none
          | [] => none
        else some (none, r3)
      | [] => some (none, []) := by
  cases r3 with
  | nil => rfl
  | cons j r4 =>
    simp only [joinPart]
    by_cases hj : isWord j "JOIN" = true
    · simp only [hj, if_true]; rfl
    · simp only [hj, if_false, Bool.false_eq_true]
      by_cases hl : isWord j "LEFT" = true
      · simp only [hl, if_true]
        cases r4 with
        | nil => rfl
        | cons j2 r5 =>
          by_cases hj2 : isWord j2 "JOIN" = true
          · simp only [hj2, if_true]; rfl
          · simp only [hj2, if_false, Bool.false_eq_true, hl, if_true]
      · simp only [hl, if_false, Bool.false_eq_true]

theorem joinRest_c (left : Bool) (r5 : List STok) :
    joinRest left (r5.map (instTok ρ)) =
      (joinRest left r5).map (fun r => (r.1.map (instJoin ρ), r.2.map (instTok ρ))) := by
  simp only [joinRest, pTableRef_c]
  cases pTableRef r5 with
  | none => rfl
  | some tr =>
    obtain ⟨tr, r6⟩ := tr
    cases r6 with
    | nil => rfl
    | cons on r7 =>
      simp only [Option.map_some, restI, List.map_cons, isWord_inst]
      split
      · rfl
      · rw [fuelOf_map, pExprS_inst]
        cases pExprS (fuelOf r7) 0 r7 <;> simp [instR, instJoin]

theorem joinPart_c (ts : List STok) :
    joinPart (ts.map (instTok ρ)) =
      (joinPart ts).map (fun r => (r.1.map (instJoin ρ), r.2.map (instTok ρ))) := by
  rw [joinPart_eq, joinPart_eq]
  cases ts with
  | nil => rfl
  | cons j r4 =>
    simp only [List.map_cons, isWord_inst]
    split
    · exact joinRest_c ρ _ _
    · split
      · cases r4 with
        | nil => rfl
        | cons j2 r5 =>
          simp only [List.map_cons, isWord_inst]
          split
          · exact joinRest_c ρ _ _
          · rfl
      · simp

theorem wherePart_c (ts : List STok) :
    wherePart (ts.map (instTok ρ)) = (wherePart ts).map (fun r => (r.1.map (instS ρ), r.2.map (instTok ρ))) := by
  cases ts with
  | nil => rfl
  | cons w r5 =>
    simp only [List.map_cons, wherePart, isWord_inst]
    split
    · rw [fuelOf_map, pExprS_inst]
      cases pExprS (fuelOf r5) 0 r5 <;> simp [instR]
    · simp

theorem limitPart_c (ts : List STok) :
    limitPart (ts.map (instTok ρ)) = (limitPart ts).map (fun r => (r.1.map (instS ρ), r.2.map (instTok ρ))) := by
  cases ts with
  | nil => rfl
  | cons w r5 =>
    simp only [List.map_cons, limitPart, isWord_inst]
    split
    · rw [fuelOf_map, pExprS_inst]
      cases pExprS (fuelOf r5) 0 r5 <;> simp [instR]
    · simp

theorem groupPart_c (ts : List STok) :
    groupPart (ts.map (instTok ρ)) = (groupPart ts).map (fun r => (r.1.map (instS ρ), r.2.map (instTok ρ))) := by
  rcases ts with _ | ⟨g, _ | ⟨b, r6⟩⟩
  · rfl
  · rfl
  · simp only [List.map_cons, groupPart, isWord_inst, List.length_map]
    split
    · exact pExprsComma_c ρ _ _
    · simp

theorem orderPart_c (ts : List STok) :
    orderPart (ts.map (instTok ρ)) = (orderPart ts).map (fun r => (r.1.map (instOrd ρ), r.2.map (instTok ρ))) := by
  rcases ts with _ | ⟨g, _ | ⟨b, r6⟩⟩
  · rfl
  · rfl
  · simp only [List.map_cons, orderPart, isWord_inst, List.length_map]
    split
    · exact pOrderTerms_c ρ _ _
    · simp

/-- **one SELECT** -/
theorem pSelect_c (ts : List STok) :
    pSelect (ts.map (instTok ρ)) = (pSelect ts).map (fun r => (instSel ρ r.1, r.2.map (instTok ρ))) := by
  rw [pSelect_eq, pSelect_eq]
  cases ts with
  | nil => rfl
  | cons s rest =>
  simp only [List.map_cons, pSelect', isWord_inst, List.length_map]
  split
  · rfl
  rw [pItems_c]
  cases pItems (rest.length + 1) rest with
  | none => rfl
  | some ir =>
  obtain ⟨items, r1⟩ := ir
  cases r1 with
  | nil => rfl
  | cons f r2 =>
  simp only [Option.map_some, List.map_cons, isWord_inst]
  split
  · rfl
  rw [pTableRef_c]
  cases pTableRef r2 with
  | none => rfl
  | some sr =>
  obtain ⟨src, r3⟩ := sr
  simp only [Option.map_some, restI]
  rw [joinPart_c]
  cases joinPart r3 with
  | none => rfl
  | some jr =>
  obtain ⟨jn, r4⟩ := jr
  simp only [Option.map_some]
  rw [wherePart_c]
  cases wherePart r4 with
  | none => rfl
  | some wr =>
  obtain ⟨wh, r5⟩ := wr
  simp only [Option.map_some]
  rw [groupPart_c]
  cases groupPart r5 with
  | none => rfl
  | some gr =>
  obtain ⟨gb, r6⟩ := gr
  simp only [Option.map_some]
  rw [orderPart_c]
  cases orderPart r6 with
  | none => rfl
  | some or =>
  obtain ⟨ob, r7⟩ := or
  simp only [Option.map_some]
  rw [limitPart_c]
  cases limitPart r7 with
  | none => rfl
  | some lr =>
  obtain ⟨lim, r8⟩ := lr
  simp only [Option.map_some, instSel]

theorem pCtes_nq (fuel : Nat) (t : STok) (rest : List STok) (h : ∀ n, t ≠ .qid n) :
    pCtes (fuel + 1) (t :: rest) = none := by
  cases t with
  | qid m => exact absurd rfl (h m)
  | _ => rcases rest with _ | ⟨a, _ | ⟨b, r⟩⟩ <;> rfl

theorem pCtes_c : ∀ (fuel : Nat) (ts : List STok),
    pCtes fuel (ts.map (instTok ρ)) =
      (pCtes fuel ts).map (fun r => (r.1.map (fun c => (c.1, instSel ρ c.2)), r.2.map (instTok ρ)))
  | 0, _ => by simp [pCtes]
  | fuel + 1, ts => by
    cases ts with
    | nil => rfl
    | cons t rest =>
    by_cases hq : ∃ n, t = .qid n
    · obtain ⟨n, rfl⟩ := hq
      rcases rest with _ | ⟨a, _ | ⟨lp, rest⟩⟩
      · rfl
      · rfl
      · simp only [List.map_cons, instTok_qid, pCtes, isWord_inst, isSym_inst]
        split
        · rw [pSelect_c]
          cases pSelect rest with
          | none => rfl
          | some sr =>
            obtain ⟨sel, r⟩ := sr
            cases r with
            | nil => rfl
            | cons rp r2 =>
              simp only [Option.map_some, List.map_cons, isSym_inst]
              split
              · rfl
              · cases r2 with
                | nil => simp
                | cons cm r3 =>
                  simp only [List.map_cons, isSym_inst]
                  split
                  · rw [pCtes_c fuel r3]; cases pCtes fuel r3 <;> simp
                  · simp
        · rfl
    · have hq' : ∀ n, t ≠ .qid n := fun n e => hq ⟨n, e⟩
      rw [List.map_cons, pCtes_nq _ _ _ (instTok_not_qid ρ hq'), pCtes_nq _ _ _ hq']
      rfl

/-- **the reference SQL reader commutes with the instantiation of placeholders**: the token list with
    every `.param p` token replaced by the token of the value `ρ p` is read iff the token list with the
    placeholders is, as the statement with every `.param p` leaf replaced by the value `ρ p` -/
theorem parseStatement_inst (ts : List STok) :
    parseStatement (ts.map (instTok ρ)) = (parseStatement ts).map (instStatement ρ) := by
  unfold parseStatement
  cases ts with
  | nil => rfl
  | cons w rest =>
    have key : ∀ (wp : PR (List (Bytes × Select))),
        (match wp.map (fun r => (r.1.map (fun c => (c.1, instSel ρ c.2)), r.2.map (instTok ρ))) with
          | some (ctes, r) =>
            match pSelect r with
            | some (body, r2) =>
              match r2 with
              | [semi] => if isSym semi ";" then some (⟨ctes, body⟩ : Statement) else none
              | _ => none
            | none => none
          | none => none) =
        (match wp with
          | some (ctes, r) =>
            match pSelect r with
            | some (body, r2) =>
              match r2 with
              | [semi] => if isSym semi ";" then some (⟨ctes, body⟩ : Statement) else none
              | _ => none
            | none => none
          | none => none).map (instStatement ρ) := by
      intro wp
      cases wp with
      | none => rfl
      | some cr =>
        obtain ⟨ctes, r⟩ := cr
        simp only [Option.map_some, pSelect_c]
        cases pSelect r with
        | none => rfl
        | some br =>
          obtain ⟨body, r2⟩ := br
          rcases r2 with _ | ⟨semi, _ | ⟨x, r3⟩⟩
          · rfl
          · simp only [Option.map_some, List.map_cons, List.map_nil, isSym_inst]
            split <;> simp [instStatement]
          · rfl
    simp only [List.map_cons, isWord_inst, List.length_map]
    by_cases hw : isWord w "WITH" = true
    · simp only [hw, if_true]
      rw [pCtes_c]; exact key _
    · simp only [hw, if_false, Bool.false_eq_true]
      exact key (some ([], w :: rest))

end Pql.E2EMore
