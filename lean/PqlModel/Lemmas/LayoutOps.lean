/-
Layout independence, the non-recursive operator productions: `pRowCount`, `pSortTerm(s)`,
`pNamedColumn`, the column loops, `pSummarize`, `pRenderProp(s)`, `pRender`.
-/
import PqlModel.Lemmas.LayoutExpr
set_option linter.unusedSimpArgs false
set_option linter.unusedVariables false
namespace Pql.Layout
open Pql

@[simp] theorem span_zero_lit : (⟨0, 0⟩ : Span) = Span.zero := rfl

variable (c : PCtx) (fuel : Nat)

theorem pExpr_np (ts : List Token) :
    pExpr c0 fuel (ts.map np) = mp (mapExpr keepNull) (pExpr c fuel ts) := (exprLay c fuel).expr ts

theorem pExprList_np (ts : List Token) :
    pExprList c0 fuel (ts.map np) = mp (mapExprList keepNull) (pExprList c fuel ts) :=
  (exprLay c fuel).exprList ts

theorem pRowCount_np (ts : List Token) :
    pRowCount c0 fuel (ts.map np) = mp (mapExpr keepNull) (pRowCount c fuel ts) := by
  simp only [pRowCount, pExpr_np c, mp_errs, mp_val, ne_eq, mapErrs_eq_nil]
  generalize pExpr c fuel ts = r
  obtain ⟨v, e, rr⟩ := r
  csplit
  cases v <;> simp only [mapExpr]
  csplit
  simp [mp_mk, mapExpr]

theorem pSortTerm_np (ts : List Token) :
    pSortTerm c0 fuel (ts.map np) = mp (Option.map (mapSortTerm keepNull)) (pSortTerm c fuel ts) := by
  simp only [pSortTerm, pExpr_np c, mp_errs, mp_val, mp_rest, ne_eq, mapErrs_eq_nil]
  generalize pExpr c fuel ts = r
  obtain ⟨v, e, rr⟩ := r
  csplit
  · simp [mp_mk]
  · rcases rr with _ | ⟨t, rest⟩
    · simp [mp_mk, mapSortTerm]
    · simp only [List.map_cons, isIdentNamed_np]
      by_cases h1 : isIdentNamed t "asc" = true
      · simp only [h1, if_true, Bool.not_true, Bool.false_eq_true, if_false]
        rcases rest with _ | ⟨u, rest⟩
        · simp [mp_mk, mapSortTerm]
        · simp only [List.map_cons, isIdentNamed_np]
          csplit
          · rcases rest with _ | ⟨u2, rest2⟩
            · simp [mp_mk, mapSortTerm]
            · simp only [List.map_cons, isIdentNamed_np]
              csplit
              · simp [mp_mk, mapSortTerm]
              · csplit <;> simp [mp_mk, mapSortTerm]
          · simp [mp_mk, mapSortTerm]
      · simp only [h1, Bool.false_eq_true, if_false]
        by_cases h2 : isIdentNamed t "desc" = true
        · simp only [h2, if_true, Bool.not_true, Bool.false_eq_true, if_false]
          rcases rest with _ | ⟨u, rest⟩
          · simp [mp_mk, mapSortTerm]
          · simp only [List.map_cons, isIdentNamed_np]
            csplit
            · rcases rest with _ | ⟨u2, rest2⟩
              · simp [mp_mk, mapSortTerm]
              · simp only [List.map_cons, isIdentNamed_np]
                csplit
                · simp [mp_mk, mapSortTerm]
                · csplit <;> simp [mp_mk, mapSortTerm]
            · simp [mp_mk, mapSortTerm]
        · simp only [h2, Bool.false_eq_true, if_false]
          by_cases h3 : isIdentNamed t "nulls" = true
          · simp only [h3, if_true, Bool.not_true, Bool.false_eq_true, if_false, List.map_cons,
              isIdentNamed_np]
            rcases rest with _ | ⟨u2, rest2⟩
            · simp [mp_mk, mapSortTerm]
            · simp only [List.map_cons, isIdentNamed_np]
              csplit
              · simp [mp_mk, mapSortTerm]
              · csplit <;> simp [mp_mk, mapSortTerm]
          · simp [h3, mp_mk, mapSortTerm]

theorem pSortTerms_np (n : Nat) : ∀ (acc : List SortTerm) (ts : List Token),
    pSortTerms c0 fuel n (acc.map (mapSortTerm keepNull)) (ts.map np) =
      mp (List.map (mapSortTerm keepNull)) (pSortTerms c fuel n acc ts) := by
  induction n with
  | zero => intro acc ts; simp [pSortTerms, mp_mk]
  | succ n ih =>
    intro acc ts
    simp only [pSortTerms, pSortTerm_np c, mp_errs, mp_val, mp_rest, ne_eq, mapErrs_eq_nil,
      mkOpaque_mapErrs]
    generalize pSortTerm c fuel ts = r
    obtain ⟨v, e, rr⟩ := r
    have hacc : (match Option.map (mapSortTerm keepNull) v with
        | some t => acc.map (mapSortTerm keepNull) ++ [t]
        | none => acc.map (mapSortTerm keepNull)) =
        (match v with | some t => acc ++ [t] | none => acc).map (mapSortTerm keepNull) := by
      cases v <;> simp
    simp only []
    csplit
    · cases v <;> simp [mp_mk]
    · rcases rr with _ | ⟨t, rest⟩
      · cases v <;> simp [mp_mk]
      · simp only [List.map_cons, np_kind]
        csplit
        · cases v <;> simp only [Option.map_some, Option.map_none] <;> rw [← ih] <;> simp
        · cases v <;> simp [mp_mk]

theorem pNamedColumn_np (ts : List Token) :
    pNamedColumn c0 fuel (ts.map np) = mp (mapColumn keepNull) (pNamedColumn c fuel ts) := by
  simp only [pNamedColumn, pIdent_np c, mp_val, mp_rest]
  generalize hr : pIdent c ts = r
  obtain ⟨v, e, rr⟩ := r
  have hw : pExpr c0 fuel (ts.map np) = mp (mapExpr keepNull) (pExpr c fuel ts) := pExpr_np c fuel ts
  rcases v with _ | id
  · simp [hw, mp_mk, mapColumn]
  · rcases rr with _ | ⟨t, rest⟩
    · simp [hw, mp_mk, mapColumn]
    · simp only [Option.map_some, List.map_cons, np_kind]
      by_cases hk : t.kind = .assign
      · simp [hk, pExpr_np c, mp_mk, mapColumn]
      · simp [hk, hw, mp_mk, mapColumn]

theorem pExtendCols_np (n : Nat) : ∀ (acc : List Column) (ts : List Token),
    pExtendCols c0 fuel n (acc.map (mapColumn keepNull)) (ts.map np) =
      mp (List.map (mapColumn keepNull)) (pExtendCols c fuel n acc ts) := by
  induction n with
  | zero => intro acc ts; simp [pExtendCols, mp_mk]
  | succ n ih =>
    intro acc ts
    simp only [pExtendCols, pNamedColumn_np c, mp_errs, mp_val, mp_rest, ne_eq, mapErrs_eq_nil,
      mkOpaque_mapErrs]
    generalize pNamedColumn c fuel ts = r
    obtain ⟨v, e, rr⟩ := r
    simp only []
    csplit
    · simp [mp_mk]
    · rcases rr with _ | ⟨t, rest⟩
      · simp [mp_mk]
      · simp only [List.map_cons, np_kind]
        csplit
        · rw [← ih]; simp
        · simp [mp_mk]

theorem pProjectCols_np (n : Nat) : ∀ (acc : List Column) (ts : List Token),
    pProjectCols c0 fuel n (acc.map (mapColumn keepNull)) (ts.map np) =
      mp (List.map (mapColumn keepNull)) (pProjectCols c fuel n acc ts) := by
  induction n with
  | zero => intro acc ts; simp [pProjectCols, mp_mk]
  | succ n ih =>
    intro acc ts
    simp only [pProjectCols, pIdent_np c, mp_errs, mp_val, mp_rest, mkOpaque_mapErrs]
    generalize pIdent c ts = r
    obtain ⟨v, e, rr⟩ := r
    rcases v with _ | id
    · simp [mp_mk]
    · rcases rr with _ | ⟨sep, rest⟩
      · simp [mp_mk, mapColumn, mapExpr]
      · simp only [Option.map_some, List.map_cons, np_kind]
        csplit
        · rw [← ih]; simp [mapColumn, mapExpr]
        · csplit
          · simp only [pExpr_np c, mp_errs, mp_val, mp_rest, ne_eq, mapErrs_eq_nil, mkOpaque_mapErrs]
            generalize pExpr c fuel rest = r2
            obtain ⟨v2, e2, rr2⟩ := r2
            simp only []
            csplit
            · simp [mp_mk, mapColumn]
            · rcases rr2 with _ | ⟨sep2, rest2⟩
              · simp [mp_mk, mapColumn]
              · simp only [List.map_cons, np_kind]
                csplit
                · rw [← ih]; simp [mapColumn]
                · simp [mp_mk, mapColumn]
          · simp [mp_mk, mapColumn, mapExpr]

def mapSumCols (s : SumCols) : SumCols := ⟨s.cols.map (mapColumn keepNull), s.done, s.comma.map keepNull⟩

theorem pSummarizeCols_np (n : Nat) : ∀ (acc : List Column) (cm : Option Span) (ts : List Token),
    pSummarizeCols c0 fuel n (acc.map (mapColumn keepNull)) (cm.map keepNull) (ts.map np) =
      mp mapSumCols (pSummarizeCols c fuel n acc cm ts) := by
  induction n with
  | zero => intro acc cm ts; simp [pSummarizeCols, mp_mk, mapSumCols]
  | succ n ih =>
    intro acc cm ts
    simp only [pSummarizeCols, pNamedColumn_np c, mp_errs, mp_val, mp_rest, ne_eq, mapErrs_eq_nil,
      mkOpaque_mapErrs, isNF_mapErrs]
    generalize pNamedColumn c fuel ts = r
    obtain ⟨v, e, rr⟩ := r
    simp only []
    csplit
    · simp [mp_mk, mapSumCols]
    · csplit
      · simp [mp_mk, mapSumCols]
      · rcases rr with _ | ⟨t, rest⟩
        · simp [mp_mk, mapSumCols]
        · simp only [List.map_cons, np_kind]
          csplit
          · have := ih (acc ++ [v]) (some t.span) rest
            simp only [List.map_append, List.map_cons, List.map_nil, Option.map_some, keepNull_span] at this
            simp only [np_span, this]
          · simp [mp_mk, mapSumCols]

theorem pGroupByCols_np (n : Nat) : ∀ (acc : List Column) (ts : List Token),
    pGroupByCols c0 fuel n (acc.map (mapColumn keepNull)) (ts.map np) =
      mp (List.map (mapColumn keepNull)) (pGroupByCols c fuel n acc ts) := by
  induction n with
  | zero => intro acc ts; simp [pGroupByCols, mp_mk]
  | succ n ih =>
    intro acc ts
    simp only [pGroupByCols, pNamedColumn_np c, mp_errs, mp_val, mp_rest, ne_eq, mapErrs_eq_nil,
      mkOpaque_mapErrs, isNF_mapErrs]
    generalize pNamedColumn c fuel ts = r
    obtain ⟨v, e, rr⟩ := r
    simp only []
    csplit
    · simp [mp_mk]
    · csplit
      · simp [mp_mk]
      · rcases rr with _ | ⟨t, rest⟩
        · simp [mp_mk]
        · simp only [List.map_cons, np_kind]
          csplit
          · rw [← ih]; simp
          · simp [mp_mk]

end Pql.Layout
