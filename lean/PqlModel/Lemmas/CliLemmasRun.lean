/-
The line loop of the command-line tool against the whole-input specification: the loop state
after any prefix of the lines is the specification's accumulator over the terminated pieces of
the prefix, with the last piece still pending.
-/
import PqlModel.Lemmas.CliLemmasSplit
import PqlModel.Props.C15
import PqlModel.Model.Cli
import PqlModel.Spec.CliSpec
namespace Pql
open Pql.CliSpec

/-- the loop state carries the specification's accumulator; the failure flag is "some error" -/
def CliRel (st : CliState) (a : Acc) : Prop :=
  st.lets = a.lets ∧ st.out = a.out ∧ st.nErrors = a.nErrors ∧
    st.failed = decide (a.nErrors > 0)

theorem cliRel_init : CliRel {} {} := ⟨rfl, rfl, rfl, rfl⟩

theorem cliStatement_pending (compile : Bytes → Option Bytes) (st : CliState) (stmt : Bytes) :
    (cliStatement compile st stmt).pending = st.pending := by
  unfold cliStatement
  repeat' split
  all_goals rfl

theorem cliStatement_rel (compile : Bytes → Option Bytes) (st : CliState) (a : Acc)
    (stmt : Bytes) (h : CliRel st a) :
    CliRel (cliStatement compile st stmt) (statement compile a stmt) := by
  obtain ⟨h1, h2, h3, h4⟩ := h
  unfold cliStatement statement
  rw [h1]
  cases hlet : isLetStatement stmt
  · simp only [Bool.false_eq_true, if_false]
    cases compile (a.lets ++ stmt) with
    | some sql => dsimp only; exact ⟨rfl, by simp [h2], h3, h4⟩
    | none => dsimp only; exact ⟨rfl, h2, by simp [h3], by simp⟩
  · simp only [if_true]
    cases compile (a.lets ++ stmt ++ Bytes.ofString ";X") with
    | some _ => dsimp only; exact ⟨rfl, h2, h3, h4⟩
    | none => dsimp only; exact ⟨rfl, h2, by simp [h3], by simp⟩

theorem foldl_cliStatement_pending (compile : Bytes → Option Bytes) (ps : List Bytes)
    (st : CliState) : (ps.foldl (cliStatement compile) st).pending = st.pending := by
  induction ps generalizing st with
  | nil => rfl
  | cons p ps ih => rw [List.foldl_cons, ih, cliStatement_pending]

theorem foldl_cliStatement_rel (compile : Bytes → Option Bytes) (ps : List Bytes)
    (st : CliState) (a : Acc) (h : CliRel st a) :
    CliRel (ps.foldl (cliStatement compile) st) (ps.foldl (statement compile) a) := by
  induction ps generalizing st a with
  | nil => exact h
  | cons p ps ih =>
    rw [List.foldl_cons, List.foldl_cons]
    exact ih _ _ (cliStatement_rel compile st a p h)

theorem splitStatements_singleton {s p : Bytes} (h : splitStatements s = [p]) : p = s := by
  have := C15.C15_join s
  rw [h] at this
  exact this

theorem splitStatements_decomp (s : Bytes) :
    splitStatements s = (splitStatements s).dropLast ++ [lastPiece s] := by
  have hne := splitStatements_ne_nil s
  rcases List.eq_nil_or_concat (splitStatements s) with h | ⟨l, b, h⟩
  · exact absurd h hne
  · rw [List.concat_eq_append] at h
    simp only [lastPiece, h, List.dropLast_concat, List.getLast?_concat, Option.getD_some]

/-- One input line, without the case distinction on the number of pieces: process all pieces
    of `pending ++ line ++ "\n"` but the last, keep the last. -/
theorem cliLine_eq (compile : Bytes → Option Bytes) (st : CliState) (line : Bytes) :
    cliLine compile st line =
      { (splitStatements (st.pending ++ line ++ [10])).dropLast.foldl (cliStatement compile) st
          with pending := lastPiece (st.pending ++ line ++ [10]) } := by
  have hd := splitStatements_decomp (st.pending ++ line ++ [10])
  generalize hl : lastPiece (st.pending ++ line ++ [10]) = last at hd
  generalize hi : (splitStatements (st.pending ++ line ++ [10])).dropLast = init at hd
  unfold cliLine
  simp only [hd, List.reverse_append, List.reverse_cons, List.reverse_nil, List.nil_append,
    List.singleton_append, List.reverse_reverse, List.isEmpty_reverse]
  cases init with
  | nil =>
    have := splitStatements_singleton hd
    simp [this]
  | cons p init => simp

/-- what `run` does after the loop -/
def cliFinish (compile : Bytes → Option Bytes) (st : CliState) (readErr : Bool) : CliResult :=
  let st := if readErr then { st with failed := true, nErrors := st.nErrors + 1 } else st
  if (scan st.pending).isEmpty then ⟨st.out, st.nErrors, st.failed⟩
  else
    match compile (st.lets ++ st.pending) with
    | some sql => ⟨st.out ++ sql ++ [10, 10], st.nErrors, st.failed⟩
    | none => ⟨st.out, st.nErrors + 1, true⟩

/-- the line loop started in an arbitrary state -/
def cliFrom (compile : Bytes → Option Bytes) (st : CliState) (lines : List Bytes)
    (readErr : Bool) : CliResult :=
  cliFinish compile (lines.foldl (cliLine compile) st) readErr

theorem cliRun_eq_cliFrom (compile : Bytes → Option Bytes) (lines : List Bytes) (readErr : Bool) :
    cliRun compile lines readErr = cliFrom compile {} lines readErr := rfl

/-- what the specification does with the last piece -/
def specFinish (compile : Bytes → Option Bytes) (a : Acc) (last : Bytes) (readErr : Bool) :
    CliResult :=
  let a := if readErr then { a with nErrors := a.nErrors + 1 } else a
  if (scan last).isEmpty then ⟨a.out, a.nErrors, a.nErrors > 0⟩
  else
    match compile (a.lets ++ last) with
    | some sql => ⟨a.out ++ sql ++ [10, 10], a.nErrors, a.nErrors > 0⟩
    | none => ⟨a.out, a.nErrors + 1, true⟩

/-- the specification started with an arbitrary accumulator on an arbitrary text -/
def specFrom (compile : Bytes → Option Bytes) (a : Acc) (text : Bytes) (readErr : Bool) :
    CliResult :=
  specFinish compile ((splitStatements text).dropLast.foldl (statement compile) a)
    (lastPiece text) readErr

theorem specRun_eq_specFrom (compile : Bytes → Option Bytes) (lines : List Bytes)
    (readErr : Bool) :
    CliSpec.run compile lines readErr = specFrom compile {} (normalise lines) readErr := rfl

theorem cliFinish_eq (compile : Bytes → Option Bytes) (st : CliState) (a : Acc) (readErr : Bool)
    (h : CliRel st a) : cliFinish compile st readErr = specFinish compile a st.pending readErr := by
  obtain ⟨h1, h2, h3, h4⟩ := h
  unfold cliFinish specFinish
  cases readErr with
  | false =>
    simp only [Bool.false_eq_true, if_false, h1, h2, h3, h4]
  | true =>
    simp only [if_true, h1, h2, h3]
    have : decide (a.nErrors + 1 > 0) = true := by simp
    rw [this]

theorem specFrom_append (compile : Bytes → Option Bytes) (a : Acc) (x y : Bytes) (readErr : Bool)
    (h : Reaches (x ++ y) x.length) :
    specFrom compile a (x ++ y) readErr =
      specFrom compile ((splitStatements x).dropLast.foldl (statement compile) a)
        (lastPiece x ++ y) readErr := by
  have hne := splitStatements_ne_nil (lastPiece x ++ y)
  have hl : lastPiece (x ++ y) = lastPiece (lastPiece x ++ y) := by
    show (splitStatements (x ++ y)).getLast?.getD [] =
      (splitStatements (lastPiece x ++ y)).getLast?.getD []
    rw [splitStatements_append x y h, List.getLast?_append]
    cases hg : (splitStatements (lastPiece x ++ y)).getLast? with
    | none => exact absurd (List.getLast?_eq_none_iff.mp hg) hne
    | some p => rfl
  unfold specFrom
  rw [hl, splitStatements_append x y h, List.dropLast_append_of_ne_nil hne, List.foldl_append]

theorem normalise_cons (l : Bytes) (ls : List Bytes) :
    normalise (l :: ls) = (l ++ [10]) ++ normalise ls := by
  simp [normalise]

/-- **Loop invariant.** From any state whose pending text is a closed piece without semicolon
    token, the loop over the remaining lines is the specification on the pending text followed
    by the remaining normalised input. -/
theorem cliFrom_eq_specFrom (compile : Bytes → Option Bytes) (lines : List Bytes)
    (readErr : Bool) (st : CliState) (a : Acc) (h : CliRel st a) (hc : Closed st.pending)
    (hp : splitStatements st.pending = [st.pending]) :
    cliFrom compile st lines readErr =
      specFrom compile a (st.pending ++ normalise lines) readErr := by
  induction lines generalizing st a with
  | nil =>
    have hl : lastPiece st.pending = st.pending := by simp [lastPiece, hp]
    simp only [cliFrom, List.foldl_nil, normalise, List.flatMap_nil, List.append_nil, specFrom,
      hp, List.dropLast_singleton, hl]
    exact cliFinish_eq compile st a readErr h
  | cons l ls ih =>
    have htext : Closed (st.pending ++ l ++ [10]) := closed_newline _
    have hassoc : st.pending ++ normalise (l :: ls) = (st.pending ++ l ++ [10]) ++ normalise ls := by
      rw [normalise_cons]; simp
    rw [hassoc, specFrom_append compile a _ _ readErr (htext _)]
    unfold cliFrom
    rw [List.foldl_cons]
    have hst := cliLine_eq compile st l
    have hpend : (cliLine compile st l).pending = lastPiece (st.pending ++ l ++ [10]) := by
      rw [hst]
    have hrel : CliRel (cliLine compile st l)
        ((splitStatements (st.pending ++ l ++ [10])).dropLast.foldl (statement compile) a) := by
      have := foldl_cliStatement_rel compile (splitStatements (st.pending ++ l ++ [10])).dropLast st a h
      rw [hst]
      exact this
    have := ih (cliLine compile st l) _ hrel (by rw [hpend]; exact closed_lastPiece htext)
      (by
        rw [hpend]
        exact splitStatements_nosemi _
          (C15.C15_no_semi_in_piece _ _ (lastPiece_mem _)))
    rw [hpend] at this
    exact this

end Pql
