/-
Helpers for Props/C16StreamIR.lean: the interpreted `Read` under the reading `den` of Props/C16IOIRMake.lean, i.e. for the
reader lists `makeInput` builds — `nopReadCloser{os.Stdin}` (object 0) any number of times, the opened files (objects
1, 2, …) once each.

`CliIO.makeInput` fixes by convention A3 that a second `-` is a used-up reader.  On the heap that is a THEOREM as soon as
the script of standard input is `clean` (nothing is scripted after its `io.EOF`): when the second `nopReadCloser` is
reached, the first has been read to its `io.EOF`, so object 0 is used up.  `RDen` is the invariant (`inv_den`).
NEW definitions: `clean`, `nops`, `Shape`, `RDen`.
-/
import PqlModel.Lemmas.CliStreamIR
namespace Pql.StreamIR
open Pql Pql.CliIO Pql.CliIOIR
set_option linter.unusedSimpArgs false

/-- nothing is scripted after an `io.EOF`: the reader stays at its end once it has reported it -/
def clean : Reader → Bool
  | [] => true
  | (_, .eof) :: rs => rs.isEmpty
  | _ :: rs => clean rs

theorem clean_read (r : Reader) (h : clean r = true) : clean (Reader.read r).2 = true := by
  rcases r with _ | ⟨⟨c, s⟩, rs⟩
  · rfl
  · cases s
    · simpa [clean, Reader.read] using h
    · have : rs = [] := by simpa [clean] using h
      subst this; rfl
    · simpa [clean, Reader.read] using h

theorem clean_read_eof (r : Reader) (h : clean r = true) (he : (Reader.read r).1.2 = .eof) : (Reader.read r).2 = [] := by
  rcases r with _ | ⟨⟨c, s⟩, rs⟩
  · rfl
  · cases s
    · simp [Reader.read] at he
    · simpa [clean, Reader.read] using h
    · simp [Reader.read] at he

/-- the `nopReadCloser`s (occurrences of standard input) in a list of reader values -/
def nops : List (Option RC) → Nat
  | [] => 0
  | some ⟨_, true⟩ :: l => nops l + 1
  | _ :: l => nops l

/-- the reader lists `makeInput` builds on a heap of `n` objects: no nil entry, every `nopReadCloser` wraps object 0, the
    files are objects 1 … n-1, none twice -/
structure Shape (n : Nat) (l : List (Option RC)) : Prop where
  nonnil : none ∉ l
  nop0 : ∀ h, some ⟨h, true⟩ ∈ l → h = 0
  files : ∀ h ∈ fileHandles l, 0 < h ∧ h < n
  nodup : (fileHandles l).Nodup
  pos : 0 < n

theorem Shape.tail {n : Nat} {x : Option RC} {l : List (Option RC)} (hs : Shape n (x :: l)) : Shape n l where
  nonnil := fun h => hs.nonnil (List.mem_cons_of_mem _ h)
  nop0 := fun h hm => hs.nop0 h (List.mem_cons_of_mem _ hm)
  files := fun h hm => hs.files h (by
    rcases x with _ | ⟨h', _ | _⟩ <;> simp [fileHandles, hm])
  nodup := by
    have := hs.nodup
    rcases x with _ | ⟨h', _ | _⟩ <;> simp [fileHandles] at this ⊢ <;> first | exact this | exact this.2
  pos := hs.pos

theorem Shape.suffix {n : Nat} : ∀ (d l : List (Option RC)), Shape n (d ++ l) → Shape n l
  | [], _, h => h
  | _ :: d, l, h => Shape.suffix d l (Shape.tail h)

theorem Shape.head_lt {n h : Nat} {nop : Bool} {l : List (Option RC)} (hs : Shape n (some ⟨h, nop⟩ :: l)) : h < n := by
  cases nop
  · exact (hs.files h (by simp [fileHandles])).2
  · rw [hs.nop0 h (by simp)]; exact hs.pos

theorem Shape.head_notin {n h : Nat} {nop : Bool} {l : List (Option RC)} (hs : Shape n (some ⟨h, nop⟩ :: l)) :
    h ∉ fileHandles l := by
  cases nop
  · have := hs.nodup
    simp only [fileHandles, List.nodup_cons] at this
    exact this.1
  · intro hm
    have h0 := hs.nop0 h (by simp)
    have := (hs.tail.files h hm).1
    omega

theorem Shape.head_cond {n h : Nat} {nop : Bool} {l : List (Option RC)} (hs : Shape n (some ⟨h, nop⟩ :: l)) :
    nop = true ∨ h ≠ 0 := by
  cases nop
  · right
    have := (hs.files h (by simp [fileHandles])).1
    omega
  · left; rfl

theorem nops_suffix : ∀ (d l : List (Option RC)), nops l ≤ nops (d ++ l)
  | [], _ => Nat.le_refl _
  | none :: d, l => by simpa [nops] using nops_suffix d l
  | some ⟨_, true⟩ :: d, l => by have := nops_suffix d l; simp only [List.cons_append, nops]; omega
  | some ⟨_, false⟩ :: d, l => by simpa [nops] using nops_suffix d l

theorem den_length (objs : List Reader) : ∀ (used : Bool) (l : List (Option RC)), (den objs used l).length = l.length
  | _, [] => rfl
  | used, none :: l => by simp [den, den_length objs used l]
  | used, some ⟨_, true⟩ :: l => by simp [den, den_length objs true l]
  | used, some ⟨_, false⟩ :: l => by simp [den, den_length objs used l]

/-- advancing object `h` does not change what the other reader values denote -/
theorem den_set (objs : List Reader) (h : Nat) (r : Reader) : ∀ (used : Bool) (l : List (Option RC)),
    h ∉ fileHandles l → (used = true ∨ h ≠ 0) → (∀ h', some ⟨h', true⟩ ∈ l → h' = 0) →
    den (objs.set h r) used l = den objs used l
  | _, [], _, _, _ => rfl
  | used, none :: l, hn, hc, h0 => by
    simp only [den]
    rw [den_set objs h r used l (by simpa [fileHandles] using hn) hc (fun h' hm => h0 h' (List.mem_cons_of_mem _ hm))]
  | used, some ⟨h', true⟩ :: l, hn, hc, h0 => by
    have e0 : h' = 0 := h0 h' (by simp)
    subst e0
    simp only [den]
    rw [den_set objs h r true l (by simpa [fileHandles] using hn) (Or.inl rfl) (fun h' hm => h0 h' (List.mem_cons_of_mem _ hm))]
    rcases hc with rfl | hc
    · rfl
    · rw [List.getElem?_set_ne hc]
  | used, some ⟨h', false⟩ :: l, hn, hc, h0 => by
    simp only [fileHandles, List.mem_cons, not_or] at hn
    simp only [den]
    rw [den_set objs h r used l hn.2 hc (fun h' hm => h0 h' (List.mem_cons_of_mem _ hm)), List.getElem?_set_ne hn.1]

/-- once standard input is used up (or does not occur again) it does not matter whether it "was used before" -/
theorem den_used (objs : List Reader) : ∀ (l : List (Option RC)), (∀ h', some ⟨h', true⟩ ∈ l → h' = 0) →
    (nops l = 0 ∨ objs[0]?.getD [] = []) → den objs true l = den objs false l
  | [], _, _ => rfl
  | none :: l, h0, hc => by
    simp only [den]
    rw [den_used objs l (fun h' hm => h0 h' (List.mem_cons_of_mem _ hm)) (by simpa [nops] using hc)]
  | some ⟨h', true⟩ :: l, h0, hc => by
    have e0 : h' = 0 := h0 h' (by simp)
    subst e0
    have : objs[0]?.getD [] = [] := by simpa [nops] using hc
    simp [den, this]
  | some ⟨h', false⟩ :: l, h0, hc => by
    simp only [den]
    rw [den_used objs l (fun h' hm => h0 h' (List.mem_cons_of_mem _ hm)) (by simpa [nops] using hc)]

theorem clean_after (objs : List Reader) (h : Nat) (r r' : Reader) (ho : objs[h]? = some r)
    (hstep : clean r = true → clean r' = true) (hc : clean (objs[0]?.getD []) = true) :
    clean ((objs.set h r')[0]?.getD []) = true := by
  by_cases h0 : h = 0
  · subst h0
    have hlt : 0 < objs.length := by
      rcases objs with _ | ⟨x, xs⟩
      · simp at ho
      · simp
    rw [List.getElem?_set_self hlt]
    exact hstep (by simpa [ho] using hc)
  · rw [List.getElem?_set_ne h0]; exact hc

/-- **`Read`, step B for the lists of `makeInput`**: on a heap and reader values of that shape, with standard input at most
    once in the list or a `clean` script for it, `mrRead` returns what `multiRead` returns on the scripts `den … false` and
    leaves a heap and reader values whose `den … false` is what `multiRead` leaves. -/
theorem mrRead_den : ∀ (l : List (Option RC)) (st : State), Shape st.objs.length l →
    (nops l ≤ 1 ∨ clean (st.objs[0]?.getD []) = true) →
    ∃ st' d, mrRead l st = .ok ((((multiRead (den st.objs false l)).1.1.length : Nat),
          GoErr.ofStatus (multiRead (den st.objs false l)).1.2), st') ∧
      st'.data.take (multiRead (den st.objs false l)).1.1.length = (multiRead (den st.objs false l)).1.1 ∧
      (multiRead (den st.objs false l)).2 = den st'.objs false st'.readers ∧
      (nops st'.readers ≤ 1 ∨ clean (st'.objs[0]?.getD []) = true) ∧
      l = d ++ st'.readers ∧ st'.closed = st.closed ++ fileHandles d ∧ st'.created = st.created ∧
      st'.objs.length = st.objs.length
  | [], st, _, _ =>
    ⟨{ st with readers := [] }, [], by simp [mrRead, multiRead, den, GoErr.ofStatus, fileHandles, nops]⟩
  | none :: l, st, hs, _ => absurd hs.nonnil (by simp)
  | some ⟨h, nop⟩ :: l, st, hs, hc => by
    have hlt : h < st.objs.length := hs.head_lt
    obtain ⟨r, ho⟩ : ∃ r, st.objs[h]? = some r := ⟨st.objs[h], List.getElem?_eq_getElem hlt⟩
    have hnop0 : ∀ h', some ⟨h', true⟩ ∈ l → h' = 0 := hs.tail.nop0
    have hden : den st.objs false (some ⟨h, nop⟩ :: l) = r :: den st.objs nop l := by
      cases nop <;> simp [den, ho]
    have hsetd : ∀ r', den (st.objs.set h r') nop l = den st.objs nop l := fun r' =>
      den_set st.objs h r' nop l hs.head_notin hs.head_cond hnop0
    rcases hr : Reader.read r with ⟨⟨chunk, s⟩, r'⟩
    have hself : (st.objs.set h r')[h]? = some r' := List.getElem?_set_self hlt
    have hcl : clean r = true → clean r' = true := fun hcr => by
      have := clean_read r hcr
      rwa [hr] at this
    have hc' : nops (some ⟨h, nop⟩ :: l) ≤ 1 ∨ clean ((st.objs.set h r')[0]?.getD []) = true :=
      hc.imp id (clean_after st.objs h r r' ho hcl)
    rw [hden]
    cases s with
    | ok =>
      refine ⟨{ st with objs := st.objs.set h r', data := chunk, readers := some ⟨h, nop⟩ :: l }, [], ?_, ?_, ?_, hc', ?_⟩
      · simp [mrRead, ho, hr, multiRead, GoErr.ofStatus]
      · simp [multiRead, hr]
      · have : den (st.objs.set h r') false (some ⟨h, nop⟩ :: l) = r' :: den (st.objs.set h r') nop l := by
          cases nop <;> simp [den, hself]
        simp [multiRead, hr, this, hsetd]
      · simp [fileHandles]
    | err =>
      refine ⟨{ st with objs := st.objs.set h r', data := chunk, readers := some ⟨h, nop⟩ :: l }, [], ?_, ?_, ?_, hc', ?_⟩
      · simp [mrRead, ho, hr, multiRead, GoErr.ofStatus]
      · simp [multiRead, hr]
      · have : den (st.objs.set h r') false (some ⟨h, nop⟩ :: l) = r' :: den (st.objs.set h r') nop l := by
          cases nop <;> simp [den, hself]
        simp [multiRead, hr, this, hsetd]
      · simp [fileHandles]
    | eof =>
      -- the head is dropped: what `multiRead` keeps is `den … nop l`; on the new heap that is `den … false l`
      have hchain : den (st.objs.set h r') false l = den st.objs nop l := by
        rw [← hsetd r']
        cases nop with
        | false => rfl
        | true =>
          have e0 : h = 0 := hs.nop0 h (by simp)
          refine (den_used _ l hnop0 ?_).symm
          rcases hc with hc | hc
          · left; simpa [nops] using hc
          · right
            subst e0
            have h1 : clean r = true := by simpa [ho] using hc
            have h2 := clean_read_eof r h1 (by rw [hr])
            rw [hr] at h2
            simp only at h2
            subst h2
            simp [hself]
      have hc'' : nops l ≤ 1 ∨ clean ((st.objs.set h r')[0]?.getD []) = true :=
        hc'.imp (fun hle => Nat.le_trans (nops_suffix [some ⟨h, nop⟩] l) hle) id
      by_cases hch : chunk = []
      · subst hch
        obtain ⟨st', d, h1, h2, h3, h4, h5, h6, h7, h8⟩ := mrRead_den l
          { st with objs := st.objs.set h r', data := [], closed := if nop then st.closed else st.closed ++ [h], readers := l }
          (by simpa using hs.tail) hc''
        simp only [hchain] at h1 h2 h3
        refine ⟨st', some ⟨h, nop⟩ :: d, ?_, ?_, ?_, h4, ?_, ?_, ?_, ?_⟩
        · simpa [mrRead, ho, hr, multiRead] using h1
        · simpa [multiRead, hr] using h2
        · simpa [multiRead, hr] using h3
        · simp [h5]
        · cases nop <;> simp_all [fileHandles, List.append_assoc]
        · simpa using h7
        · simpa using h8
      · have hpos : 0 < chunk.length := List.length_pos_iff.mpr hch
        have hlen := den_length st.objs nop l
        refine ⟨{ st with objs := st.objs.set h r', data := chunk, readers := l,
                          closed := if nop then st.closed else st.closed ++ [h] }, [some ⟨h, nop⟩], ?_, ?_, ?_, hc'', ?_⟩
        · have e : (den st.objs nop l ≠ []) ↔ l ≠ [] := by
            rw [ne_eq, ne_eq, ← List.length_eq_zero_iff, ← List.length_eq_zero_iff, hlen]
          cases l <;> simp_all [mrRead, multiRead, GoErr.ofStatus]
        · simp [multiRead, hr, hch]
        · simp [multiRead, hr, hch, hchain]
        · cases nop <;> simp [fileHandles]

/-- the reading of a `makeInput` list: `den … false` on a heap of that shape -/
def RDen (objs : List Reader) (l : List (Option RC)) (rs : List Reader) : Prop :=
  rs = den objs false l ∧ Shape objs.length l ∧ (nops l ≤ 1 ∨ clean (objs[0]?.getD []) = true)

theorem inv_den : ReadInv RDen where
  len := fun objs l rs h => by rw [h.1, den_length]
  nonnil := fun objs l rs h => h.2.1.nonnil
  step := fun l st rs h => by
    obtain ⟨hrs, hs, hc⟩ := h
    subst hrs
    obtain ⟨st', d, h1, h2, h3, h4, h5, h6, h7, h8⟩ := mrRead_den l st hs hc
    refine ⟨st', d, h1, h2, ⟨h3, ?_, h4⟩, h5, h6, h7, h8⟩
    rw [h8]
    exact Shape.suffix d st'.readers (h5 ▸ hs)

end Pql.StreamIR
