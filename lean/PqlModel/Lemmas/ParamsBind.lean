/-
Parameters, part 1 (expression writer): the compiler never looks inside a chunk list stored in the
scope.  `bindRaw σ cs` replaces every `.raw v` chunk of `cs` by the chunk list `σ v` (filling
holes); the expression writer commutes with it:

  `writeExpr ⟨src, bindScope σ sc, m⟩ e = (writeExpr ⟨src, sc, m⟩ e).map (bindRaw σ)`.

The special case `σ v = [.raw (f v)]` is `List.map (Chunk.mapRaw f)` (parametricity in the
parameter texts).  New definitions (specification level, this file): `Chunk.mapRaw`, `bindC`,
`bindRaw`, `bindScope`.
-/
import PqlModel.Lemmas.ScopeCompile
namespace Pql.Params
open Pql

/-- apply `f` to the text of a parameter chunk; every other chunk is left alone -/
def _root_.Pql.Chunk.mapRaw (f : Bytes → Bytes) : Chunk → Chunk
  | .raw v => .raw (f v)
  | c => c

/-- fill a hole: a parameter chunk `.raw v` becomes the chunk list `σ v` -/
def bindC (σ : Bytes → List Chunk) : Chunk → List Chunk
  | .raw v => σ v
  | c => [c]

def bindRaw (σ : Bytes → List Chunk) (cs : List Chunk) : List Chunk := cs.flatMap (bindC σ)

def bindScope (σ : Bytes → List Chunk) (sc : Scope) : Scope := sc.map fun kv => (kv.1, bindRaw σ kv.2)

section
variable (σ : Bytes → List Chunk)

@[simp] theorem bindRaw_nil : bindRaw σ [] = [] := rfl
@[simp] theorem bindRaw_append (a b : List Chunk) : bindRaw σ (a ++ b) = bindRaw σ a ++ bindRaw σ b := by
  simp only [bindRaw, List.flatMap_append]
@[simp] theorem bindRaw_txt (s : String) (cs : List Chunk) : bindRaw σ (.txt s :: cs) = .txt s :: bindRaw σ cs := rfl
@[simp] theorem bindRaw_qid (s : Bytes) (cs : List Chunk) : bindRaw σ (.qid s :: cs) = .qid s :: bindRaw σ cs := rfl
@[simp] theorem bindRaw_qstr (s : Bytes) (cs : List Chunk) : bindRaw σ (.qstr s :: cs) = .qstr s :: bindRaw σ cs := rfl
@[simp] theorem bindRaw_num (s : Bytes) (cs : List Chunk) : bindRaw σ (.num s :: cs) = .num s :: bindRaw σ cs := rfl
@[simp] theorem bindRaw_fname (s : Bytes) (cs : List Chunk) : bindRaw σ (.fname s :: cs) = .fname s :: bindRaw σ cs := rfl
@[simp] theorem bindRaw_raw (v : Bytes) (cs : List Chunk) : bindRaw σ (.raw v :: cs) = σ v ++ bindRaw σ cs := rfl

theorem lookupScope_bind (sc : Scope) (n : Bytes) :
    lookupScope (bindScope σ sc) n = (lookupScope sc n).map (bindRaw σ) := by
  induction sc with
  | nil => rfl
  | cons kv sc ih =>
    have : bindScope σ (kv :: sc) = (kv.1, bindRaw σ kv.2) :: bindScope σ sc := rfl
    rw [this, lookupScope_cons, lookupScope_cons, ih]
    dsimp only
    split <;> rfl

theorem bindScope_cons (n : Bytes) (cs : List Chunk) (sc : Scope) :
    bindScope σ ((n, cs) :: sc) = (n, bindRaw σ cs) :: bindScope σ sc := rfl

@[simp] theorem parenthesise_bind (b : List Chunk) : bindRaw σ (parenthesise b) = parenthesise (bindRaw σ b) := by
  simp [parenthesise]

@[simp] theorem wrapMaybe_bind (e : Expr) (b : List Chunk) : bindRaw σ (wrapMaybe e b) = wrapMaybe e (bindRaw σ b) := by
  unfold wrapMaybe
  split <;> simp

@[simp] theorem wrapTight_bind (e : Expr) (b : List Chunk) : bindRaw σ (wrapTight e b) = wrapTight e (bindRaw σ b) := by
  unfold wrapTight
  split <;> simp

theorem sepChunks_bind (sep : String) : (l : List (List Chunk)) →
    bindRaw σ (sepChunks sep l) = sepChunks sep (l.map (bindRaw σ))
  | [] => rfl
  | [x] => rfl
  | x :: y :: l => by
    have ih := sepChunks_bind sep (y :: l)
    simp only [sepChunks, List.map_cons, bindRaw_append, bindRaw_txt] at ih ⊢
    rw [ih]

theorem flatMap_sep_bind (l : List (List Chunk)) :
    bindRaw σ (l.flatMap fun c => Chunk.txt ", " :: c) = (l.map (bindRaw σ)).flatMap fun c => Chunk.txt ", " :: c := by
  induction l with
  | nil => rfl
  | cons x l ih => simp only [List.flatMap_cons, List.map_cons, bindRaw_append, bindRaw_txt, ih]

end

/-! ### the built-in rewrites -/

theorem exmap_ok {α β : Type} (f : α → β) (a : α) : Except.map f (Except.ok a : Except WErr α) = .ok (f a) := rfl
theorem exmap_error {α β : Type} (f : α → β) (e : WErr) : Except.map f (Except.error e : Except WErr α) = .error e := rfl

theorem assembleKnown_bind (σ : Bytes → List Chunk) (writer : String) (args : List (Expr × List Chunk)) :
    assembleKnown writer (args.map (Prod.map id (bindRaw σ))) = (assembleKnown writer args).map (bindRaw σ) := by
  have hmp : ∀ a : Expr × List Chunk, wrapMaybe (Prod.map id (bindRaw σ) a).1 (Prod.map id (bindRaw σ) a).2 =
      bindRaw σ (wrapMaybe a.1 a.2) := fun a => by simp
  unfold assembleKnown
  by_cases h1 : (writer == "writeNotFunction") = true
  · simp only [h1, if_true]
    cases args <;> simp [exmap_ok, exmap_error]
  simp only [h1, Bool.false_eq_true, if_false]
  by_cases h2 : (writer == "writeNowFunction") = true
  · simp [h2, exmap_ok]
  simp only [h2, Bool.false_eq_true, if_false]
  by_cases h3 : (writer == "writeIsNullFunction") = true
  · simp only [h3, if_true]
    cases args <;> simp [exmap_ok, exmap_error]
  simp only [h3, Bool.false_eq_true, if_false]
  by_cases h4 : (writer == "writeIsNotNullFunction") = true
  · simp only [h4, if_true]
    cases args <;> simp [exmap_ok, exmap_error]
  simp only [h4, Bool.false_eq_true, if_false]
  by_cases h5 : (writer == "writeStrcatFunction") = true
  · simp only [h5, if_true]
    cases args with
    | nil => simp [exmap_error]
    | cons a as =>
      simp only [List.map_cons, exmap_ok, sepChunks_bind, List.map_map]
      congr 2
      simp
  simp only [h5, Bool.false_eq_true, if_false]
  by_cases h6 : (writer == "writeCountFunction") = true
  · simp [h6, exmap_ok]
  simp only [h6, Bool.false_eq_true, if_false]
  by_cases h7 : (writer == "writeCountIfFunction") = true
  · simp only [h7, if_true]
    cases args <;> simp [exmap_ok, exmap_error]
  simp only [h7, Bool.false_eq_true, if_false]
  by_cases h8 : (writer == "writeIfFunction") = true
  · simp only [h8, if_true]
    rcases args with _ | ⟨a, _ | ⟨b, _ | ⟨c, l⟩⟩⟩ <;> simp [exmap_ok, exmap_error]
  simp only [h8, Bool.false_eq_true, if_false]
  by_cases h9 : (writer == "writeToLowerFunction") = true
  · simp only [h9, if_true]
    cases args <;> simp [exmap_ok, exmap_error]
  simp only [h9, Bool.false_eq_true, if_false]
  by_cases h10 : (writer == "writeToUpperFunction") = true
  · simp only [h10, if_true]
    cases args <;> simp [exmap_ok, exmap_error]
  simp only [h10, Bool.false_eq_true, if_false]
  rfl

end Pql.Params
