/-
End-to-end composition, part 3: every intended statement (`Intended.intended`) is free of the operator
`!=` — its expressions are translations `tr …` (`JoinSem.tr_noBang`), string constants or `COUNT(*)` —
so evaluating its normal form is evaluating it.  (Its normal form is NOT literally itself: the `count`
operator's `COUNT(*)` is spelled in upper case, `normS` lower-cases it.)
-/
import PqlModel.Lemmas.E2ESelect
import PqlModel.Lemmas.ParseStmtWrite
namespace Pql.E2E
open Pql Sql CompileOracle Intended JoinSem
set_option linter.unusedSimpArgs false

theorem mapM_forall {α β : Type} (f : α → Option β) (P : β → Prop) (hf : ∀ a b, f a = some b → P b) :
    ∀ (l : List α) (out : List β), l.mapM f = some out → ∀ b ∈ out, P b
  | [], out, h, b, hb => by simp at h; subst h; cases hb
  | a :: l, out, h, b, hb => by
    simp only [List.mapM_cons, Option.bind_eq_bind, Option.pure_def, Option.bind_eq_some_iff, Option.some.injEq] at h
    obtain ⟨w, hw, ws, hws, rfl⟩ := h
    rcases List.mem_cons.1 hb with rfl | hb
    · exact hf a _ hw
    · exact mapM_forall f P hf l ws hws b hb

theorem itemOf_noBang (src : Bytes) (c : Column) (it : SelectItem) (h : itemOf src c = some it) :
    noBang it.expr = true := by
  simp only [itemOf, Option.bind_eq_bind, Option.pure_def, Option.bind_eq_some_iff, Option.some.injEq] at h
  obtain ⟨e, he, rfl⟩ := h
  exact tr_noBang false c.x e he

theorem projectItem_noBang (c : Column) (it : SelectItem) (h : projectItem c = some it) :
    noBang it.expr = true := by
  unfold projectItem at h
  split at h <;>
    simp only [Option.bind_eq_bind, Option.pure_def, Option.bind_eq_some_iff, Option.some.injEq] at h
  · obtain ⟨e, he, rfl⟩ := h
    exact tr_noBang false _ e he
  · obtain ⟨e, he, rfl⟩ := h
    exact tr_noBang false _ e he

theorem orderOf_noBang (t : SortTerm) (o : OrderTerm) (h : orderOf t = some o) : noBang o.expr = true := by
  simp only [orderOf, Option.bind_eq_bind, Option.pure_def, Option.bind_eq_some_iff, Option.some.injEq] at h
  obtain ⟨e, he, rfl⟩ := h
  exact tr_noBang false t.x e he

/-- the parts of a SELECT that `noBangSel` inspects, separately -/
structure NoBangParts (s : Select) : Prop where
  items : ∀ it ∈ s.items, noBang it.expr = true
  join : ∀ j, s.join = some j → noBang j.on = true
  where_ : ∀ w, s.where_ = some w → noBang w = true
  groupBy : ∀ g ∈ s.groupBy, noBang g = true
  orderBy : ∀ o ∈ s.orderBy, noBang o.expr = true
  limit : ∀ l, s.limit = some l → noBang l = true

theorem noBangSel_of_parts {s : Select} (h : NoBangParts s) : noBangSel s = true := by
  obtain ⟨h1, h2, h3, h4, h5, h6⟩ := h
  simp only [noBangSel, Bool.and_eq_true, List.all_eq_true]
  refine ⟨⟨⟨⟨⟨h1, ?_⟩, ?_⟩, h4⟩, h5⟩, ?_⟩
  · cases hj : s.join with
    | none => rfl
    | some j => exact h2 j hj
  · cases hw : s.where_ with
    | none => rfl
    | some w => exact h3 w hw
  · cases hl : s.limit with
    | none => rfl
    | some l => exact h6 l hl

open C05 in
theorem bodyA_noBang (src : Bytes) (op : Option Op) (base body : Select) (hb : NoBangParts base)
    (h : bodyA src op base = some body) :
    NoBangParts body ∧ body.join = base.join ∧ body.orderBy = base.orderBy ∧ body.limit = base.limit := by
  obtain ⟨b1, b2, b3, b4, b5, b6⟩ := hb
  rcases op with _ | o
  · simp only [bodyA, Option.pure_def, Option.some.injEq] at h; subst h; exact ⟨⟨b1, b2, b3, b4, b5, b6⟩, rfl, rfl, rfl⟩
  · cases o <;> simp only [bodyA, Option.pure_def, Option.some.injEq, Option.bind_eq_bind, Option.bind_eq_some_iff,
      reduceCtorEq] at h
    case where_ p k pred =>
      obtain ⟨w, hw, rfl⟩ := h
      exact ⟨⟨b1, b2, fun w' h' => by cases h'; exact tr_noBang false pred w hw, b4, b5, b6⟩, rfl, rfl, rfl⟩
    case project p k cols =>
      obtain ⟨items, hi, rfl⟩ := h
      exact ⟨⟨mapM_forall projectItem _ projectItem_noBang cols items hi, b2, b3, b4, b5, b6⟩, rfl, rfl, rfl⟩
    case extend p k cols =>
      obtain ⟨items, hi, rfl⟩ := h
      refine ⟨⟨?_, b2, b3, b4, b5, b6⟩, rfl, rfl, rfl⟩
      intro it hit
      rcases List.mem_cons.1 hit with rfl | hit
      · rfl
      · exact mapM_forall (itemOf src) _ (itemOf_noBang src) cols items hi it hit
    case summarize p k cols b gbs =>
      obtain ⟨gs, hgs, cs, hcs, gb, hgb, rfl⟩ := h
      refine ⟨⟨?_, b2, b3, ?_, b5, b6⟩, rfl, rfl, rfl⟩
      · intro it hit
        rcases List.mem_append.1 hit with hit | hit
        · exact mapM_forall (itemOf src) _ (itemOf_noBang src) gbs gs hgs it hit
        · exact mapM_forall (itemOf src) _ (itemOf_noBang src) cols cs hcs it hit
      · exact mapM_forall (fun c : Column => tr false c.x) _ (fun c e he => tr_noBang false c.x e he) gbs gb hgb
    case count p k =>
      subst h
      refine ⟨⟨?_, b2, b3, b4, b5, b6⟩, rfl, rfl, rfl⟩
      intro it hit
      simp only [List.mem_singleton] at hit
      subst hit
      rfl
    case render p k chart w lp props rp =>
      subst h
      refine ⟨⟨?_, b2, b3, b4, b5, b6⟩, rfl, rfl, rfl⟩
      intro it hit
      simp only [List.mem_cons, List.mem_map] at hit
      rcases hit with rfl | rfl | ⟨pr, _, rfl⟩ <;> rfl
    case as_ p k n =>
      subst h; exact ⟨⟨b1, b2, b3, b4, b5, b6⟩, rfl, rfl, rfl⟩

open C05 in
/-- **every intended SELECT is free of `!=`** -/
theorem selOf_noBang (src : Bytes) (a : SubA) (w : Select) (h : selOf src a = some w) : noBangSel w = true := by
  rw [selOf_eq] at h
  simp only [Option.bind_eq_bind, Option.pure_def, Option.bind_eq_some_iff, Option.some.injEq] at h
  obtain ⟨⟨source, join⟩, hsrc, body, hbody, ob, hob, lim, hlim, rfl⟩ := h
  have hbase : NoBangParts (baseSel source join) := by
    refine ⟨?_, ?_, ?_, ?_, ?_, ?_⟩
    · intro it hit
      simp only [baseSel, List.mem_singleton] at hit
      subst hit; rfl
    · intro j hj
      simp only [baseSel] at hj
      subst hj
      cases hs : a.source with
      | table n => rw [hs] at hsrc; simp [srcOfA] at hsrc
      | join u l ln rn cond =>
        rw [hs] at hsrc
        simp only [srcOfA, Option.bind_eq_bind, Option.pure_def, Option.bind_eq_some_iff, Option.some.injEq,
          Prod.mk.injEq] at hsrc
        obtain ⟨c, hc, _, hj⟩ := hsrc
        cases hj
        exact tr_noBang true cond c hc
    · intro w hw; cases hw
    · intro g hg; cases hg
    · intro o ho; cases ho
    · intro l hl; cases hl
  obtain ⟨⟨p1, p2, p3, p4, _, _⟩, hj, _, _⟩ := bodyA_noBang src a.op _ body hbase hbody
  apply noBangSel_of_parts
  refine ⟨p1, p2, p3, p4, ?_, ?_⟩
  · intro o ho
    simp only at ho
    cases hs : a.sort with
    | none => rw [hs] at hob; simp only [orderA, Option.pure_def, Option.some.injEq] at hob; subst hob; cases ho
    | some ts =>
      rw [hs] at hob
      exact mapM_forall orderOf _ orderOf_noBang ts ob hob o ho
  · intro l hl
    simp only at hl
    subst hl
    cases ht : a.take with
    | none => rw [ht] at hlim; simp [limitA] at hlim
    | some n =>
      rw [ht] at hlim
      simp only [limitA, Option.map_eq_some_iff, Option.some.injEq] at hlim
      obtain ⟨e, he, rfl⟩ := hlim
      exact tr_noBang false n e he

theorem stmtOf_noBang (src : Bytes) (subs : List SubA) (st : Statement) (h : stmtOf src subs = some st) :
    noBangStatement st = true := by
  unfold stmtOf at h
  split at h
  · cases h
  · rename_i q ctesRev _
    simp only [Option.bind_eq_bind, Option.pure_def, Option.bind_eq_some_iff, Option.some.injEq] at h
    obtain ⟨ctes, hctes, body, hbody, rfl⟩ := h
    simp only [noBangStatement, Bool.and_eq_true, List.all_eq_true]
    refine ⟨?_, selOf_noBang src q body hbody⟩
    refine mapM_forall _ (fun c : Bytes × Select => noBangSel c.2 = true) ?_ _ ctes hctes
    intro a b hab
    simp only [Option.bind_eq_bind, Option.pure_def, Option.bind_eq_some_iff, Option.some.injEq] at hab
    obtain ⟨w, hw, rfl⟩ := hab
    exact selOf_noBang src a w hw

/-- **every intended statement is free of `!=`** … -/
theorem intended_noBang (src : Bytes) (stmts : List Stmt) (want : Statement) (h : intended src stmts = some want) :
    noBangStatement want = true := by
  simp only [intended, Option.bind_eq_bind, Option.bind_eq_some_iff] at h
  obtain ⟨t, _, subs, _, hst⟩ := h
  exact stmtOf_noBang src subs want hst

/-- … hence evaluating its normal form is evaluating it -/
theorem evalStatement_norm_intended (src : Bytes) (stmts : List Stmt) (want : Statement) (db : DB)
    (h : intended src stmts = some want) : evalStatement db (normStatement want) = evalStatement db want :=
  evalStatement_normStatement db want (intended_noBang src stmts want h)

end Pql.E2E
