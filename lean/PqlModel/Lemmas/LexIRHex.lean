/-
`(*scanner).numberOrDot` as translated, second part: the hexadecimal branch (`0x…`): the digit
loop against the model's `hexDigitsLen`, `strconv.ParseUint(…, 16, 64)` against `hexToNat` with the
2^64 bound, `strconv.FormatUint(…, 10)` against `natToDec`.
-/
import PqlModel.Lemmas.LexIRMantissa
namespace Pql.LexIR
open Pql
set_option linter.unusedSimpArgs false
set_option linter.unusedVariables false

theorem leave_two (x y : String × Val) (V : List (String × Val)) (h h' : Heap) (D D' : List (List Stmt)) :
    State.leave ⟨x :: y :: V, h, D⟩ ⟨V, h', D'⟩ = ⟨V, h, D⟩ := by
  have : (x :: y :: V).length - V.length = 2 := by simp; omega
  simp only [State.leave, this]
  rfl

/-- one pass through the hexadecimal-digit loop: at the end of the input -/
theorem hex_body_end (lib : Lib) (env : Env) (fuel : Nat) (E : CursorEnv lib env) (pre s : Bytes) (k l : Nat)
    (V : List (String × Val)) (hV : V.find? (fun x => x.fst == "s") = some ("s", .scanner)) (hlen : s.length ≤ k) :
    execBlock env fuel hexLoopBody ⟨V, hp pre s k l, []⟩ =
      .ok (.brk, ⟨("ok", .bool false) :: ("c", .int 0) :: V, hp pre s k l, []⟩) := by
  obtain ⟨fN, hN, sN⟩ := E.next
  unfold hexLoopBody
  lx_simp [hV, hN, next_end sN pre s k l hlen]

theorem hex_body_digit (lib : Lib) (env : Env) (fuel : Nat) (E : CursorEnv lib env) (pre s : Bytes) (k l : Nat)
    (V : List (String × Val)) (hV : V.find? (fun x => x.fst == "s") = some ("s", .scanner))
    (c1 : UInt8) (rest : Bytes) (hd : s.drop k = c1 :: rest) (hdig : isHexDigit c1 = true) :
    ∃ r, execBlock env fuel hexLoopBody ⟨V, hp pre s k l, []⟩ =
      .ok (.next, ⟨("ok", .bool true) :: ("c", .int r) :: V, hp pre s (k + 1) (pre.length + k), []⟩) := by
  obtain ⟨fN, hN, sN⟩ := E.next
  have hD := E.isHexDigit
  unfold HasPrim at hD
  obtain ⟨r, w, hdr, _, _, _, hdg, hw⟩ := rune_facts c1 rest
  have hw1 : w = 1 := hw (isHexDigit_lt c1 hdig)
  subst hw1
  have nx := next_cons' sN pre s k l c1 rest r 1 hd hdr
  refine ⟨r, ?_⟩
  unfold hexLoopBody
  lx_simp [hV, hN, nx, hD, prims, hdg, hdig]

theorem hex_body_other (lib : Lib) (env : Env) (fuel : Nat) (E : CursorEnv lib env) (pre s : Bytes) (k l : Nat)
    (V : List (String × Val)) (hV : V.find? (fun x => x.fst == "s") = some ("s", .scanner))
    (c1 : UInt8) (rest : Bytes) (hd : s.drop k = c1 :: rest) (hdig : ¬ isHexDigit c1 = true) :
    ∃ r, execBlock env fuel hexLoopBody ⟨V, hp pre s k l, []⟩ =
      .ok (.brk, ⟨("ok", .bool true) :: ("c", .int r) :: V, hp pre s k (pre.length + k), []⟩) := by
  obtain ⟨fN, hN, sN⟩ := E.next
  obtain ⟨fP, hP, sP⟩ := E.prev
  have hD := E.isHexDigit
  unfold HasPrim at hD
  obtain ⟨r, w, hdr, _, _, _, hdg, hw⟩ := rune_facts c1 rest
  have nx := next_cons' sN pre s k l c1 rest r w hd hdr
  refine ⟨r, ?_⟩
  unfold hexLoopBody
  lx_simp [hV, hN, hP, nx, hD, prims, hdg, hdig, prev_hp sP pre s k]

/-- **the hexadecimal-digit loop** consumes exactly the model's `hexDigitsLen` -/
theorem hex_loop (lib : Lib) (env : Env) (fuel : Nat) (E : CursorEnv lib env) (pre s : Bytes)
    (V : List (String × Val)) (hV : V.find? (fun x => x.fst == "s") = some ("s", .scanner)) :
    ∀ (n k l : Nat), k ≤ s.length → s.length - k < n →
      ∃ l', foreverLoop (execBlock env fuel hexLoopBody) n ⟨V, hp pre s k l, []⟩ =
        .ok (.next, ⟨V, hp pre s (k + hexDigitsLen (s.drop k)) l', []⟩) := by
  intro n
  induction n with
  | zero => intro k l _ h; omega
  | succ n ih =>
    intro k l hk hn
    cases hd : s.drop k with
    | nil =>
      have hlen : s.length ≤ k := List.drop_eq_nil_iff.mp hd
      refine ⟨l, ?_⟩
      simp only [foreverLoop, hex_body_end lib env fuel E pre s k l V hV hlen, bind, Except.bind, pure, Except.pure,
        leave_two, hexDigitsLen, Nat.add_zero]
    | cons c1 rest =>
      have hlt := lt_of_drop_cons hd
      by_cases hdig : isHexDigit c1 = true
      · obtain ⟨r, e1⟩ := hex_body_digit lib env fuel E pre s k l V hV c1 rest hd hdig
        obtain ⟨l', e⟩ := ih (k + 1) (pre.length + k) (by omega) (by omega)
        refine ⟨l', ?_⟩
        rw [drop_succ_of_cons hd] at e
        have hdl : hexDigitsLen (c1 :: rest) = hexDigitsLen rest + 1 := by simp [hexDigitsLen, hdig]
        simp only [foreverLoop, e1, bind, Except.bind, leave_two, e, hdl]
        simp [Nat.add_assoc, Nat.add_comm 1]
      · obtain ⟨r, e1⟩ := hex_body_other lib env fuel E pre s k l V hV c1 rest hd hdig
        have hdl : hexDigitsLen (c1 :: rest) = 0 := by simp [hexDigitsLen, hdig]
        refine ⟨pre.length + k, ?_⟩
        simp only [foreverLoop, e1, bind, Except.bind, pure, Except.pure, leave_two, hdl, Nat.add_zero]

theorem slice_hp (pre s : Bytes) (a b : Nat) (hab : a ≤ b) (hb : b ≤ s.length) :
    sliceVal (pre ++ s) (pre.length + a) (pre.length + b) = .ok (.str ((s.drop a).take (b - a))) := by
  have h1 : pre.length + a ≤ pre.length + b ∧ pre.length + b ≤ (pre ++ s).length := by simp; omega
  have h2 : pre.length + b - (pre.length + a) = b - a := by omega
  simp only [sliceVal, h1, and_self, if_true, drop_hp, h2]

/-- what the hexadecimal branch returns, as the model says it -/
def hexOut (pre rest2 : Bytes) : Val × Nat :=
  let n := hexDigitsLen rest2
  if n = 0 then (.tok .error pre.length (pre.length + 2) (Bytes.ofString "invalid hex literal"), 2)
  else if hexToNat (rest2.take n) < 18446744073709551616 then
    (.tok .number pre.length (pre.length + (n + 2)) (natToDec (hexToNat (rest2.take n))), n + 2)
  else (.tok .error pre.length (pre.length + (n + 2)) [], n + 2)

theorem hex_branch (lib : Lib) (env : Env) (fuel : Nat) (E : NumberEnv lib env fuel) (pre s : Bytes) (l : Nat)
    (h2 : 2 ≤ s.length) (hf : s.length < fuel)
    (V : List (String × Val)) 
    (hV1 : V.find? (fun x => x.fst == "start") = some ("start", .int pre.length))
    (hV2 : V.find? (fun x => x.fst == "s") = some ("s", .scanner)) :
    ∃ X l', execBlock env fuel hexBranch ⟨V, hp pre s 2 l, []⟩ =
      .ok (.ret [(hexOut pre (s.drop 2)).1], ⟨X ++ V, hp pre s (hexOut pre (s.drop 2)).2 l', []⟩) := by
  obtain ⟨fN, hN, sN⟩ := E.cursor.next
  obtain ⟨fS, hS, sS⟩ := E.cursor.setPos
  obtain ⟨fA, hA, sA0⟩ := E.newSpan
  have sA : ∀ a b h, fA [.int a, .int b] h = .ok ([.span a b], h) := sA0
  have hD := E.cursor.isHexDigit
  have hE := E.errorToken
  have hU := E.parseUint
  have hF := E.formatUint
  unfold HasPrim at hD hE hU hF
  unfold hexBranch hexOut
  cases hd : s.drop 2 with
  | nil =>
    have hlen : s.length ≤ 2 := List.drop_eq_nil_iff.mp hd
    refine ⟨[("ok", .bool false), ("c", .int 0), ("hexDigitStart", .int (pre.length + 2))], pre.length + 2, ?_⟩
    lx_simp [hV1, hV2, hN, hS, hA, next_end sN pre s 2 l hlen, setPos_hp sS pre s 2, sA, kind_error, hexDigitsLen]
  | cons c1 rest =>
    have hr := drop_succ_of_cons hd
    have hlt := lt_of_drop_cons hd
    obtain ⟨r, w, hdr, _, _, _, hdg, hw⟩ := rune_facts c1 rest
    have nx := next_cons' sN pre s 2 l c1 rest r w hd hdr
    by_cases hdig : isHexDigit c1 = true
    · have hw1 : w = 1 := hw (isHexDigit_lt c1 hdig)
      subst hw1
      have hdl : hexDigitsLen (c1 :: rest) = hexDigitsLen rest + 1 := by simp [hexDigitsLen, hdig]
      obtain ⟨l', hl⟩ := hex_loop lib env fuel E.cursor pre s
        (("ok", .bool true) :: ("c", .int r) :: ("hexDigitStart", .int (pre.length + 2)) :: V) (by simpa using hV2)
        fuel (2 + 1) (pre.length + 2) (by omega) (by omega)
      rw [hr] at hl
      have hle : 2 + 1 + hexDigitsLen rest ≤ s.length := by
        have := hexDigitsLen_le rest
        have h3 : rest.length = s.length - 3 := by rw [← hr]; simp
        omega
      have hsl := slice_hp pre s 2 (3 + hexDigitsLen rest) (by omega) (by omega)
      rw [hd] at hsl
      have hn : 3 + hexDigitsLen rest - 2 = hexDigitsLen rest + 1 := by omega
      rw [hn] at hsl
      have hall : ((c1 :: rest).take (hexDigitsLen rest + 1)).all isHexDigit = true := by
        rw [← hdl, List.all_eq_true]
        exact take_hexDigitsLen (c1 :: rest)
      have hne : ((c1 :: rest).take (hexDigitsLen rest + 1)).isEmpty = false := by simp
      simp only [hdl]
      generalize hT : (c1 :: rest).take (hexDigitsLen rest + 1) = T at *
      by_cases hv : hexToNat T < 18446744073709551616
      · refine ⟨[("err", .err false), ("n", .int (hexToNat T)),
          ("span", .span pre.length (pre.length + (2 + 1 + hexDigitsLen rest))), ("ok", .bool true), ("c", .int r),
          ("hexDigitStart", .int (pre.length + 2))], l', ?_⟩
        have hpu : parseUint 16 64 T = some (hexToNat T, false) := by
          simp only [parseUint, hne, hall]
          simp [hv]
        lx_simp_ns [hV1, hV2, hN, hS, hA, nx, hD, hE, hU, hF, prims, hdg, hdig, sA, kind_number, hdl, hl, hsl, hpu, hv]
        have : 3 + hexDigitsLen rest = hexDigitsLen rest + 1 + 2 := by omega
        simp [this]
      · refine ⟨[("err", .err true), ("n", .int (2 ^ 64 - 1)),
          ("span", .span pre.length (pre.length + (2 + 1 + hexDigitsLen rest))), ("ok", .bool true), ("c", .int r),
          ("hexDigitStart", .int (pre.length + 2))], l', ?_⟩
        have hpu : parseUint 16 64 T = some (2 ^ 64 - 1, true) := by
          simp only [parseUint, hne, hall]
          simp [hv]
        lx_simp_ns [hV1, hV2, hN, hS, hA, nx, hD, hE, hU, hF, prims, hdg, hdig, sA, kind_number, hdl, hl, hsl, hpu, hv]
        have : 3 + hexDigitsLen rest = hexDigitsLen rest + 1 + 2 := by omega
        simp [this]
    · have hdl : hexDigitsLen (c1 :: rest) = 0 := by simp [hexDigitsLen, hdig]
      refine ⟨[("ok", .bool true), ("c", .int r), ("hexDigitStart", .int (pre.length + 2))], pre.length + 2, ?_⟩
      lx_simp [hV1, hV2, hN, hS, hA, nx, hD, prims, hdg, hdig, setPos_hp sS pre s 2, sA, kind_error, hdl]


end Pql.LexIR
