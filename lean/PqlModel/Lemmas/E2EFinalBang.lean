/-
The operator `!=`, part 1 (a port of Lemmas/LexStmtSemi.lean from the byte `;` to the byte `!`): no
fixed text the writers emit contains the byte `!` (they write `<>`), so an adjacent chunk list of
`!`-free chunks has no `!=` symbol token — a `!` inside a name or a string is part of that name's /
string's token.
-/
import PqlModel.Lemmas.LexStmtProgram
namespace Pql.E2EFinal
open Pql Sql LexRender Pql.C05

/-- the chunk contributes no `!=` symbol token: fixed texts without the byte `!`, names, strings,
    numbers and function names (single non-symbol tokens); raw parameter text is not covered -/
def bangFree : Chunk → Bool
  | .txt s => !(Bytes.ofString s).contains 33
  | .raw _ => false
  | _ => true

def BF (cs : List Chunk) : Bool := cs.all bangFree

theorem BF_nil : BF [] = true := rfl
theorem BF_cons (c : Chunk) (cs : List Chunk) : BF (c :: cs) = (bangFree c && BF cs) := by simp [BF]
theorem BF_append (a b : List Chunk) : BF (a ++ b) = (BF a && BF b) := by simp [BF]
theorem BF_paren (b : List Chunk) : BF (parenthesise b) = BF b := by
  have h1 : bangFree (.txt "(") = true := by decide
  have h2 : bangFree (.txt ")") = true := by decide
  simp [parenthesise, BF_cons, BF_append, BF_nil, h1, h2]
theorem BF_wrapMaybe (e : Expr) (b : List Chunk) : BF (wrapMaybe e b) = BF b := by
  unfold wrapMaybe; split
  · exact BF_paren b
  · rfl
theorem BF_wrapTight (e : Expr) (b : List Chunk) : BF (wrapTight e b) = BF b := by
  unfold wrapTight; split
  · exact BF_paren b
  · exact BF_wrapMaybe e b

theorem BF_sepChunks {sep : String} (hs : bangFree (.txt sep) = true) :
    ∀ (vs : List (List Chunk)), (∀ v ∈ vs, BF v = true) → BF (sepChunks sep vs) = true
  | [], _ => rfl
  | [x], h => by simpa [sepChunks] using h x (by simp)
  | x :: y :: xs, h => by
    rw [sepChunks]
    case x_2 => intro e; cases e
    rw [BF_append, BF_cons, h x (by simp), hs,
      BF_sepChunks hs (y :: xs) (fun v hv => h v (by simp [hv]))]
    rfl

/-! ### atoms -/

theorem sym1Name_ne_bang (c : UInt8) : sym1Name c ≠ "!=" := by
  unfold sym1Name
  cases hf : oneCharSyms.find? (fun o => o.1 == c) with
  | none => simp
  | some o =>
    simp only [Option.map_some, Option.getD_some]
    have hm := List.mem_of_find?_eq_some hf
    simp only [oneCharSyms, List.mem_cons, List.not_mem_nil, or_false] at hm
    rcases hm with rfl | rfl | rfl | rfl | rfl | rfl | rfl | rfl | rfl | rfl | rfl | rfl | rfl | rfl | rfl <;> decide

theorem sym2Name_bang (c d : UInt8) (h : sym2Name c d = "!=") : c = 33 := by
  unfold sym2Name at h
  cases hf : twoCharSyms.find? (fun o => o.1 == c && o.2.1 == d) with
  | none => rw [hf] at h; simp at h
  | some o =>
    rw [hf] at h
    simp only [Option.map_some, Option.getD_some] at h
    have hm := List.mem_of_find?_eq_some hf
    have hc := List.find?_some hf
    simp only [twoCharSyms, List.mem_cons, List.not_mem_nil, or_false] at hm
    rcases hm with rfl | rfl | rfl | rfl | rfl <;>
      first
        | (exact absurd h (by decide))
        | (have hc2 := hc; simp at hc2; exact hc2.1.symm)

theorem atom_bang {a : Atom} (h : STok.sym "!=" ∈ a.toks) : 33 ∈ a.bytes := by
  cases a with
  | sym1 c =>
    simp only [Atom.toks, List.mem_singleton, STok.sym.injEq] at h
    exact absurd h.symm (sym1Name_ne_bang c)
  | sym2 c d =>
    simp only [Atom.toks, List.mem_singleton, STok.sym.injEq] at h
    rw [sym2Name_bang c d h.symm]; simp [Atom.bytes]
  | _ => simp [Atom.toks] at h

theorem rawToks_bang : ∀ {as : List Atom}, STok.sym "!=" ∈ rawToks as → 33 ∈ renderAtoms as
  | [], h => by simp [rawToks] at h
  | a :: as, h => by
    rw [rawToks_cons, List.mem_append] at h
    rw [renderAtoms_cons, List.mem_append]
    rcases h with h | h
    · left; exact atom_bang h
    · right; exact rawToks_bang h

theorem chunk_no_bang {c : Chunk} (hok : chunkOK c = true) (hsf : bangFree c = true) :
    STok.sym "!=" ∉ rawToks (chunkAtoms c) := by
  intro h
  have h33 := rawToks_bang h
  rw [chunk_render hok] at h33
  cases c with
  | txt s => simp [bangFree, Chunk.bytes] at hsf h33; exact hsf h33
  | raw v => simp [bangFree] at hsf
  | _ => simp [chunkAtoms, rawToks, Atom.toks] at h

theorem rawToksOf_no_bang : ∀ {cs : List Chunk}, cs.all chunkOK = true → BF cs = true →
    STok.sym "!=" ∉ rawToksOf cs
  | [], _, _ => by simp [rawToksOf, atomsOf, rawToks]
  | c :: cs, hok, hsf => by
    simp only [List.all_cons, Bool.and_eq_true] at hok
    rw [BF_cons, Bool.and_eq_true] at hsf
    rw [rawToksOf, atomsOf_cons, rawToks_append, List.mem_append]
    rintro (h | h)
    · exact chunk_no_bang hok.1 hsf.1 h
    · exact rawToksOf_no_bang hok.2 hsf.2 h

/-- **an adjacent, `!`-free chunk list has no `!=` symbol token** -/
theorem toksOf_no_bang {rest : Bytes} {cs : List Chunk} (h : AdjC rest cs = true) (hsf : BF cs = true) :
    STok.sym "!=" ∉ toksOf cs := by
  rw [← toksOf_eq h]
  intro hm
  exact rawToksOf_no_bang (AdjC_elim h).1 hsf (List.mem_filter.mp hm).1

end Pql.E2EFinal
