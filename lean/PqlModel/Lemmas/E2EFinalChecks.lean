/-
Programs with lets, part 8: Boolean forms of the side conditions of the program theorems (so that
concrete programs can be checked by evaluation): `tabNamedB` ⟹ `tabNamed`, `trueFreeB` ⟹ `TrueFree`,
`splitLets` (a program is lets followed by one query) ⟹ `IsLets`.
-/
import PqlModel.Lemmas.E2EFinalProgram
namespace Pql.E2EFinal
open Pql Sql CompileOracle Intended

def colNamedB (c : Column) : Bool :=
  c.name.isSome && (match c.x with | .nil => false | _ => true)

theorem colNamed_of_B {c : Column} (h : colNamedB c = true) : ColNamed c := by
  simp only [colNamedB, Bool.and_eq_true] at h
  refine ⟨h.1, fun hx => ?_⟩
  rw [hx] at h
  exact absurd h.2 (by simp)

mutual
/-- every extend / summarize column of the query, at any depth, is `name = expr` (Boolean `tabNamed`) -/
def tabNamedB : Tabular → Bool
  | .nil => true
  | .mk _ ops => opsNamedB ops
def opsNamedB : OpList → Bool
  | .nil => true
  | .cons o os => opNamedB o && opsNamedB os
def opNamedB : Op → Bool
  | .join _ _ _ _ _ _ right _ _ _ => tabNamedB right
  | .extend _ _ cs => cs.all colNamedB
  | .summarize _ _ cs _ gs => cs.all colNamedB && gs.all colNamedB
  | _ => true
end

mutual
theorem tabNamed_of_B : (t : Tabular) → tabNamedB t = true → tabNamed t
  | .nil, _ => trivial
  | .mk _ ops, h => by
    simp only [tabNamedB] at h
    simp only [tabNamed]
    exact opsNamed_of_B ops h
theorem opsNamed_of_B : (ops : OpList) → opsNamedB ops = true → opsNamed ops
  | .nil, _ => trivial
  | .cons o os, h => by
    simp only [opsNamedB, Bool.and_eq_true] at h
    simp only [opsNamed]
    exact ⟨opNamed_of_B o h.1, opsNamed_of_B os h.2⟩
theorem opNamed_of_B : (o : Op) → opNamedB o = true → opNamed o
  | .join _ _ _ _ _ _ right _ _ _, h => by
    simp only [opNamedB] at h
    simp only [opNamed]
    exact tabNamed_of_B right h
  | .extend _ _ cs, h => by
    simp only [opNamedB, List.all_eq_true] at h
    simp only [opNamed]
    exact fun c hc => colNamed_of_B (h c hc)
  | .summarize _ _ cs _ gs, h => by
    simp only [opNamedB, Bool.and_eq_true, List.all_eq_true] at h
    simp only [opNamed]
    exact ⟨fun c hc => colNamed_of_B (h.1 c hc), fun c hc => colNamed_of_B (h.2 c hc)⟩
  | .where_ .., _ => trivial
  | .sort .., _ => trivial
  | .take .., _ => trivial
  | .top .., _ => trivial
  | .project .., _ => trivial
  | .count .., _ => trivial
  | .as_ .., _ => trivial
  | .render .., _ => trivial
end

/-- no let is called `true` (Boolean `TrueFree`) -/
def trueFreeB (env : List (Bytes × Expr)) : Bool :=
  (env.find? (·.1 == Bytes.ofString "true")).isNone

theorem trueFree_of_B {env : List (Bytes × Expr)} (h : trueFreeB env = true) : TrueFree env := by
  unfold TrueFree
  simp only [trueFreeB, Option.isNone_iff_eq_none] at h
  simp only [substExpr, Bool.false_eq_true, if_false]
  rw [h]

/-- `lets ++ [query]` -/
def splitLets : List Stmt → Option (List Stmt × Tabular)
  | [.tabular t] => some ([], t)
  | .let_ a b c d :: rest => (splitLets rest).map fun r => (.let_ a b c d :: r.1, r.2)
  | _ => none

theorem splitLets_spec : ∀ (stmts lets : List Stmt) (t : Tabular), splitLets stmts = some (lets, t) →
    stmts = lets ++ [.tabular t] ∧ IsLets lets
  | [], _, _, h => by simp [splitLets] at h
  | [.tabular t'], lets, t, h => by
    simp only [splitLets, Option.some.injEq, Prod.mk.injEq] at h
    obtain ⟨rfl, rfl⟩ := h
    exact ⟨rfl, fun _ hs => by cases hs⟩
  | .tabular _ :: _ :: _, _, _, h => by simp [splitLets] at h
  | .let_ a b c d :: rest, lets, t, h => by
    simp only [splitLets, Option.map_eq_some_iff, Prod.mk.injEq] at h
    obtain ⟨⟨l, t'⟩, hr, rfl, rfl⟩ := h
    obtain ⟨h1, h2⟩ := splitLets_spec rest l t' hr
    refine ⟨by rw [h1]; rfl, fun s hs => ?_⟩
    rcases List.mem_cons.1 hs with rfl | hs
    · exact ⟨_, _, _, _, rfl⟩
    · exact h2 s hs

end Pql.E2EFinal
