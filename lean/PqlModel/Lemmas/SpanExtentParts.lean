/-
Structural consequences of "a node's span is the extent of its tokens": the children of a node
occupy disjoint segments of the node's tokens, in order (`Placed`), hence their spans lie within
the node's span and precede those of their right siblings.
-/
import PqlModel.Lemmas.SpanExtentOps
namespace Pql
open Grammar C10

/-! ### order of extents -/

theorem within_refl (s : Span) : Span.within s s := ⟨Int.le_refl _, Int.le_refl _⟩

theorem within_trans {a b c : Span} (h1 : Span.within a b) (h2 : Span.within b c) : Span.within a c :=
  ⟨Int.le_trans h2.1 h1.1, Int.le_trans h1.2 h2.2⟩

theorem ext_within_left {a b : List Token} (h : TokOK (a ++ b)) (ha : a ≠ []) :
    Span.within (ext a) (ext (a ++ b)) := by
  rw [← ext_union h]
  exact union_contains_left (ext_valid h.left ha)

theorem ext_within_right {a b : List Token} (h : TokOK (a ++ b)) (hb : b ≠ []) :
    Span.within (ext b) (ext (a ++ b)) := by
  rw [← ext_union h]
  exact union_contains_right (ext_valid h.right hb)

theorem ext_within_infix {p a q : List Token} (h : TokOK (p ++ a ++ q)) (ha : a ≠ []) :
    Span.within (ext a) (ext (p ++ a ++ q)) :=
  within_trans (ext_within_right h.left ha) (ext_within_left h (by simp [ha]))

/-- the extent of a segment ends before the extent of a later segment starts -/
theorem ext_stop_le_start {a m b : List Token} (h : TokOK (a ++ m ++ b)) (ha : a ≠ []) (hb : b ≠ []) :
    (ext a).stop ≤ (ext b).start := by
  cases a with
  | nil => exact absurd rfl ha
  | cons t a =>
    cases b with
    | nil => exact absurd rfl hb
    | cons s b =>
      have hla : a.getLastD t ∈ (t :: a) ++ m := List.mem_append_left _ List.getLastD_mem_cons
      have := h.cross hla (List.mem_cons_self (a := s) (l := b))
      simp only [ext]
      omega

/-! ### children placed in the tokens of their parent -/

/-- `Placed f cs ts`: the nodes `cs` account, in order, for disjoint segments of `ts` -/
inductive Placed {α : Type} (f : α → Option (List UTok)) : List α → List Token → Prop
  | nil (g : List Token) : Placed f [] g
  | cons {c : α} {cs : List α} {us : List UTok} {g seg rest ts : List Token} :
      ts = g ++ seg ++ rest → f c = some us → accounts true us seg = true → Placed f cs rest →
      Placed f (c :: cs) ts

theorem Placed.prepend {α : Type} {f : α → Option (List UTok)} {cs : List α} {ts : List Token}
    (g : List Token) (h : Placed f cs ts) : Placed f cs (g ++ ts) := by
  cases h with
  | nil _ => exact .nil _
  | @cons c cs us g0 seg rest ts he hu ha hr =>
    refine .cons (g := g ++ g0) ?_ hu ha hr
    rw [he]; simp

theorem Placed.append {α : Type} {f : α → Option (List UTok)} {cs : List α} {ts : List Token}
    (g : List Token) (h : Placed f cs ts) : Placed f cs (ts ++ g) := by
  induction h with
  | nil _ => exact .nil _
  | @cons c cs us g0 seg rest ts he hu ha _ ih =>
    refine .cons (g := g0) ?_ hu ha ih
    rw [he]; simp

theorem Placed.single {α : Type} {f : α → Option (List UTok)} {c : α} {us : List UTok} {ts : List Token}
    (hu : f c = some us) (ha : accounts true us ts = true) : Placed f [c] ts :=
  .cons (g := []) (rest := []) (by simp) hu ha (.nil _)

/-- a placed node occupies a non-empty infix of the tokens, and its span is that infix's extent -/
theorem Placed.infix {α : Type} {f : α → Option (List UTok)} {sp : α → Span} (hf : ExtSpec f sp)
    {cs : List α} {ts : List Token} (h : Placed f cs ts) (hok : TokOK ts) :
    ∀ c ∈ cs, ∃ p seg q, ts = p ++ seg ++ q ∧ seg ≠ [] ∧ sp c = ext seg := by
  induction h with
  | nil _ => intro c hc; cases hc
  | @cons c cs us g seg rest ts he hu ha _ ih =>
    subst he
    intro c' hc'
    rcases List.mem_cons.mp hc' with rfl | hin
    · exact ⟨g, seg, rest, rfl, accounts_ne_nil (hf _ _ hu).1 ha, (hf _ _ hu).2 seg hok.left.right ha⟩
    · obtain ⟨p, s, q, hr, hne, hsp⟩ := ih hok.right c' hin
      exact ⟨g ++ seg ++ p, s, q, by rw [hr]; simp, hne, hsp⟩

/-- the span of a placed node is valid and lies within the extent of the tokens -/
theorem Placed.within {α : Type} {f : α → Option (List UTok)} {sp : α → Span} (hf : ExtSpec f sp)
    {cs : List α} {ts : List Token} (h : Placed f cs ts) (hok : TokOK ts) :
    ∀ c ∈ cs, (sp c).isValid = true ∧ Span.within (sp c) (ext ts) := by
  intro c hc
  obtain ⟨p, seg, q, rfl, hne, hsp⟩ := h.infix hf hok c hc
  rw [hsp]
  exact ⟨ext_valid hok.left.right hne, ext_within_infix hok hne⟩

/-- the spans of placed nodes are in order: each ends before the next ones start -/
theorem Placed.pairwise {α : Type} {f : α → Option (List UTok)} {sp : α → Span} (hf : ExtSpec f sp)
    {cs : List α} {ts : List Token} (h : Placed f cs ts) (hok : TokOK ts) :
    (cs.map sp).Pairwise (fun a b => a.stop ≤ b.start) := by
  induction h with
  | nil _ => exact List.Pairwise.nil
  | @cons c cs us g seg rest ts he hu ha hr ih =>
    subst he
    rw [List.map_cons, List.pairwise_cons]
    refine ⟨?_, ih hok.right⟩
    intro s hs
    obtain ⟨c', hc', rfl⟩ := List.mem_map.mp hs
    obtain ⟨p, seg', q, rfl, hne', hsp'⟩ := hr.infix hf hok.right c' hc'
    rw [(hf _ _ hu).2 seg hok.left.right ha, hsp']
    have hne := accounts_ne_nil (hf _ _ hu).1 ha
    have hok' : TokOK (seg ++ p ++ seg') := by
      have h2 : TokOK (seg ++ (p ++ seg' ++ q)) := by
        have := hok; rw [List.append_assoc] at this; exact this.right
      have h3 : seg ++ (p ++ seg' ++ q) = (seg ++ p ++ seg') ++ q := by simp
      rw [h3] at h2
      exact h2.left
    exact ext_stop_le_start hok' hne hne'

/-! ### the children of an expression -/

/-- the direct sub-expressions -/
def Expr.children : Expr → List Expr
  | .nil => []
  | .qident _ => []
  | .lit _ _ _ => []
  | .unary _ _ x => [x]
  | .binary x _ _ y => [x, y]
  | .inE x _ _ vals _ => x :: vals.toList
  | .paren _ x _ => [x]
  | .call _ _ args _ => args.toList
  | .index x _ idx _ => [x, idx]

theorem spansOf_eq_map : ∀ (l : ExprList), l.spansOf = l.toList.map Expr.spanOf
  | .nil => rfl
  | .cons e es => by simp [ExprList.spansOf, ExprList.toList, spansOf_eq_map es]

/-- the elements of an expression list are placed in the list's tokens -/
theorem exprList_placed : ∀ (l : ExprList) (us : List UTok) (ts : List Token), unparseExprList l = some us →
    accounts true us ts = true → Placed unparseExpr l.toList ts
  | .nil, _, _, _, _ => .nil _
  | .cons e .nil, us, ts, h, ha => by
    rw [unparseList_one] at h
    exact Placed.single h ha
  | .cons e (.cons e' es), us, ts, h, ha => by
    obtain ⟨a, b, he, hes, rfl⟩ := unparseList_cons2_inv h
    obtain ⟨ta, r, rfl, haa, har⟩ := accounts_append_split ha
    obtain ⟨tc, tb, rfl, hab⟩ := accounts_plain_cons (u := commaTok) rfl har
    have ih := exprList_placed (.cons e' es) b tb hes hab
    exact .cons (g := []) (by simp) he haa (ih.prepend [tc])

/-- the direct sub-expressions of an expression are placed in its tokens -/
theorem expr_placed (e : Expr) (us : List UTok) (ts : List Token) (h : unparseExpr e = some us)
    (ha : accounts true us ts = true) : Placed unparseExpr e.children ts := by
  cases e with
  | nil => exact .nil _
  | qident parts => exact .nil _
  | lit sp k v => exact .nil _
  | unary os op x =>
    obtain ⟨xs, hx, rfl⟩ := unparse_unary_inv h
    obtain ⟨t, tx, rfl, _, hax⟩ := accounts_span_cons (u := sym op os) os rfl rfl rfl ha
    exact (Placed.single hx hax).prepend [t]
  | binary x os op y =>
    obtain ⟨xs, ys, hx, hy, rfl⟩ := unparse_binary_inv h
    obtain ⟨tx, r, rfl, hax, har⟩ := accounts_append_split ha
    obtain ⟨t, ty, rfl, _, hay⟩ := accounts_span_cons (u := sym op os) os rfl rfl rfl har
    exact .cons (g := []) (by simp) hx hax ((Placed.single hy hay).prepend [t])
  | inE x i lp vals rp =>
    obtain ⟨xs, vs, hx, hv, rfl⟩ := unparse_inE_inv h
    simp only [List.append_assoc, List.cons_append] at ha
    obtain ⟨tx, r, rfl, hax, har⟩ := accounts_append_split ha
    obtain ⟨ti, r1, rfl, _, har1⟩ := accounts_span_cons (u := sym .in_ i) i rfl rfl rfl har
    obtain ⟨tl, r2, rfl, _, har2⟩ := accounts_span_cons (u := sym .lparen lp) lp rfl rfl rfl har1
    obtain ⟨tv, r3, rfl, hav, _⟩ := accounts_append_split har2
    have hp := ((exprList_placed vals vs tv hv hav).append r3).prepend [ti, tl]
    exact .cons (g := []) (by simp) hx hax hp
  | paren lp x rp =>
    obtain ⟨xs, hx, rfl⟩ := unparse_paren_inv h
    rw [List.cons_append] at ha
    obtain ⟨tl, r1, rfl, _, har1⟩ := accounts_span_cons (u := sym .lparen lp) lp rfl rfl rfl ha
    obtain ⟨tx, r2, rfl, hax, _⟩ := accounts_append_split har1
    exact ((Placed.single hx hax).append r2).prepend [tl]
  | call fn lp args rp =>
    obtain ⟨as, hargs, rfl⟩ := unparse_call_inv h
    rw [List.cons_append, List.cons_append] at ha
    obtain ⟨tf, r1, rfl, _, har1⟩ := accounts_span_cons (u := identTok fn) fn.span rfl rfl rfl ha
    obtain ⟨tl, r2, rfl, _, har2⟩ := accounts_span_cons (u := sym .lparen lp) lp rfl rfl rfl har1
    obtain ⟨ta, r3, rfl, haa, _⟩ := accounts_append_split har2
    exact ((exprList_placed args as ta hargs haa).append r3).prepend [tf, tl]
  | index x lb idx rb =>
    obtain ⟨xs, is, hx, hi, rfl⟩ := unparse_index_inv h
    simp only [List.append_assoc, List.cons_append] at ha
    obtain ⟨tx, r, rfl, hax, har⟩ := accounts_append_split ha
    obtain ⟨tl, r1, rfl, _, har1⟩ := accounts_span_cons (u := sym .lbracket lb) lb rfl rfl rfl har
    obtain ⟨ti, r2, rfl, hai, _⟩ := accounts_append_split har1
    exact .cons (g := []) (by simp) hx hax (((Placed.single hi hai).append r2).prepend [tl])

/-- `binary x op y`: the operator token lies between the operands -/
theorem binary_order {x y : Expr} {os : Span} {op : TokKind} {us : List UTok} {ts : List Token}
    (h : unparseExpr (.binary x os op y) = some us) (hok : TokOK ts) (ha : accounts true us ts = true) :
    x.spanOf.stop ≤ os.start ∧ os.stop ≤ y.spanOf.start := by
  obtain ⟨xs, ys, hx, hy, rfl⟩ := unparse_binary_inv h
  obtain ⟨tx, r, rfl, hax, har⟩ := accounts_append_split ha
  obtain ⟨t, ty, rfl, hsp, hay⟩ := accounts_span_cons (u := sym op os) os rfl rfl rfl har
  rw [expr_ext x xs tx hx hok.left hax, expr_ext y ys ty hy hok.right.tail hay, hsp, ← ext_single]
  have hnx := accounts_ne_nil (unparseExpr_ne_nil hx) hax
  have hny := accounts_ne_nil (unparseExpr_ne_nil hy) hay
  constructor
  · exact ext_stop_le_start (a := tx) (m := []) (b := [t]) (by simpa using hok.sublist (by simp)) hnx (by simp)
  · exact ext_stop_le_start (a := [t]) (m := []) (b := ty) (by simpa using hok.right) (by simp) hny

/-! ### sub-expressions of any depth -/

/-- a placed node accounts for an infix of the tokens -/
theorem Placed.acc {α : Type} {f : α → Option (List UTok)} {cs : List α} {ts : List Token}
    (h : Placed f cs ts) : ∀ c ∈ cs, ∃ p seg q us, ts = p ++ seg ++ q ∧ f c = some us ∧
      accounts true us seg = true := by
  induction h with
  | nil _ => intro c hc; cases hc
  | @cons c cs us g seg rest ts he hu ha _ ih =>
    subst he
    intro c' hc'
    rcases List.mem_cons.mp hc' with rfl | hin
    · exact ⟨g, seg, rest, us, rfl, hu, ha⟩
    · obtain ⟨p, s, q, us', hr, hu', ha'⟩ := ih c' hin
      exact ⟨g ++ seg ++ p, s, q, us', by rw [hr]; simp, hu', ha'⟩

/-- `Expr.Sub d e`: `d` is `e` or a sub-expression of `e`, at any depth -/
inductive Expr.Sub : Expr → Expr → Prop
  | refl (e : Expr) : Expr.Sub e e
  | step {d c e : Expr} : Expr.Sub d c → c ∈ e.children → Expr.Sub d e

/-- every sub-expression, at any depth, accounts for an infix of the expression's tokens -/
theorem expr_sub_acc {d e : Expr} (hs : Expr.Sub d e) : ∀ (us : List UTok) (ts : List Token),
    unparseExpr e = some us → accounts true us ts = true →
    ∃ p seg q us', ts = p ++ seg ++ q ∧ unparseExpr d = some us' ∧ accounts true us' seg = true := by
  induction hs with
  | refl => intro us ts hu ha; exact ⟨[], ts, [], us, by simp, hu, ha⟩
  | @step c e _ hc ih =>
    intro us ts hu ha
    obtain ⟨p, seg, q, us', rfl, hu', ha'⟩ := (expr_placed e us ts hu ha).acc c hc
    obtain ⟨p', seg', q', us'', rfl, hu'', ha''⟩ := ih us' seg hu' ha'
    exact ⟨p ++ p', seg', q' ++ q, us'', by simp, hu'', ha''⟩

/-! ### comma-separated items and operator lists -/

/-- comma-separated items are placed in the list's tokens -/
theorem sepBy_placed {α : Type} {f : α → Option (List UTok)} :
    ∀ (cs : List α) (css : List (List UTok)) (ts : List Token), listM f cs = some css →
      accounts true (sepBy commaTok css) ts = true → Placed f cs ts
  | [], _, _, _, _ => .nil _
  | [c], css, ts, h, ha => by
    obtain ⟨y, ys, hy, hys, rfl⟩ := listM_cons_inv h
    have hc := listM_nil_inv hys
    subst hc
    rw [sepBy_single] at ha
    exact Placed.single hy ha
  | c :: c' :: cs, css, ts, h, ha => by
    obtain ⟨y, ys, hy, hys, rfl⟩ := listM_cons_inv h
    obtain ⟨y', ys', hy', hys', rfl⟩ := listM_cons_inv hys
    rw [sepBy_cons_cons] at ha
    obtain ⟨ta, r, rfl, haa, har⟩ := accounts_append_split ha
    obtain ⟨tc, tb, rfl, hab⟩ := accounts_plain_cons (u := commaTok) rfl har
    have ih := sepBy_placed (c' :: cs) (y' :: ys') tb hys hab
    exact .cons (g := []) (by simp) hy haa (ih.prepend [tc])

/-- `unparseOp`, restricted to tidy operators -/
def unparseOpT (o : Op) : Option (List UTok) := if o.tidy then unparseOp o else none

theorem unparseOp_head {o : Op} {us : List UTok} (h : unparseOp o = some us) : us ≠ [] := by
  intro hn
  subst hn
  cases o <;> simp [unparseOp, Option.bind_eq_some_iff] at h
  case summarize =>
    obtain ⟨_, _, _, _, h⟩ := h
    repeat' split at h
    all_goals simp at h
  case join =>
    obtain ⟨_, _, _, _, _, h⟩ := h
    repeat' split at h
    all_goals simp at h
  case render =>
    obtain ⟨_, _, _, _, h⟩ := h
    repeat' split at h
    all_goals simp at h

theorem op_extSpec : ExtSpec unparseOpT Op.spanOf := by
  intro o us h
  unfold unparseOpT at h
  split at h
  · rename_i ht
    exact ⟨unparseOp_head h, fun ts hok ha => op_ext o us ts ht h hok ha⟩
  · simp at h

/-- the operators of a tabular expression are placed, without gaps, in the tokens after the source -/
theorem ops_placed : ∀ (l : OpList) (us : List UTok) (ts : List Token), l.tidy = true →
    unparseOps l = some us → accounts true us ts = true → Placed unparseOpT l.toList ts
  | .nil, _, _, _, _, _ => .nil _
  | .cons o os, us, ts, htidy, h, ha => by
    obtain ⟨a, b, hoa, hob, rfl⟩ := unparseOps_cons_inv h
    obtain ⟨ta, tb, rfl, haa, hab⟩ := accounts_append_split ha
    simp only [OpList.tidy, Bool.and_eq_true] at htidy
    have ih := ops_placed os b tb htidy.2 hob hab
    refine .cons (g := []) (by simp) ?_ haa ih
    simp [unparseOpT, htidy.1, hoa]

theorem opSpansOf_eq_map : ∀ (l : OpList), l.spansOf = l.toList.map Op.spanOf
  | .nil => rfl
  | .cons o os => by simp [OpList.spansOf, OpList.toList, opSpansOf_eq_map os]

end Pql
