/-
C13 exactness, the hypothesis discharged for parsed trees (part 2): every statement of an
error-free parse is well-formed in the sense of `wfStmt`.

`wfStmt` follows from three facts about the parser:
* `Stmt.Good` (ParseGood: no nil in a required position, when no error is reported);
* `pxStmt`: every expression below the statement uses known binary operators — unconditional;
* `pcStmt`: extend columns have an expression and join flavours are the documented ones —
  when no error is reported.
-/
import PqlModel.Lemmas.ExactParseExpr
import PqlModel.Lemmas.ExactWrite
namespace Pql.Exact
open Pql

def colsKnown (cs : List Column) : Bool := cs.all fun c => opsKnown c.x

mutual
def pxTab : Tabular → Bool
  | .nil => true
  | .mk _ ops => pxOps ops
def pxOp : Op → Bool
  | .where_ _ _ e => opsKnown e
  | .sort _ _ ts => sortTermsWf ts
  | .take _ _ n => opsKnown n
  | .top _ _ n _ c => opsKnown n && (match c with | some t => opsKnown t.x | none => true)
  | .project _ _ cs => colsKnown cs
  | .extend _ _ cs => colsKnown cs
  | .summarize _ _ cs _ gs => colsKnown cs && colsKnown gs
  | .join _ _ _ _ _ _ right _ _ conds => pxTab right && opsKnownList conds
  | _ => true
def pxOps : OpList → Bool
  | .nil => true
  | .cons o os => pxOp o && pxOps os
end

def pxStmt : Stmt → Bool
  | .let_ _ _ _ x => opsKnown x
  | .tabular t => pxTab t

mutual
def pcTab : Tabular → Bool
  | .nil => true
  | .mk _ ops => pcOps ops
def pcOp : Op → Bool
  | .extend _ _ cs => cs.all fun c => !isNilExpr c.x
  | .join _ _ _ _ fl _ right _ _ _ => flavorOK fl && pcTab right
  | _ => true
def pcOps : OpList → Bool
  | .nil => true
  | .cons o os => pcOp o && pcOps os
end

def pcStmt : Stmt → Bool
  | .let_ .. => true
  | .tabular t => pcTab t

/-! ### the three facts give `wfStmt` -/

theorem isNil_of_good {e : Expr} (h : e.Good) : isNilExpr e = false := by
  cases e <;> first | rfl | exact absurd h (by simp [Expr.Good])

theorem colWf_all_of_good (cs : List Column) (hk : colsKnown cs = true) (hg : ∀ c ∈ cs, c.x.Good) :
    cs.all colWf = true := by
  rw [List.all_eq_true]
  intro c hc
  unfold colsKnown at hk
  rw [List.all_eq_true] at hk
  unfold colWf
  rw [hk c hc, isNil_of_good (hg c hc)]
  rfl

theorem colWf_all_of_nonnil (cs : List Column) (hk : colsKnown cs = true)
    (hn : (cs.all fun c => !isNilExpr c.x) = true) : cs.all colWf = true := by
  rw [List.all_eq_true] at hn ⊢
  intro c hc
  unfold colsKnown at hk
  rw [List.all_eq_true] at hk
  unfold colWf
  rw [hk c hc, hn c hc]
  rfl

mutual
theorem wfTab_of : ∀ t : Tabular, t.Good → pxTab t = true → pcTab t = true → wfTabular t = true
  | .nil, hg, _, _ => by simp [Tabular.Good] at hg
  | .mk src ops, hg, hx, hc => by
    rw [Tabular.Good] at hg
    rw [pxTab] at hx
    rw [pcTab] at hc
    rw [wfTabular]
    exact wfOps_of ops hg.2 hx hc
theorem wfOps_of : ∀ ops : OpList, ops.Good → pxOps ops = true → pcOps ops = true → wfOps ops = true
  | .nil, _, _, _ => by rw [wfOps]
  | .cons o os, hg, hx, hc => by
    rw [OpList.Good] at hg
    rw [pxOps, Bool.and_eq_true] at hx
    rw [pcOps, Bool.and_eq_true] at hc
    rw [wfOps, Bool.and_eq_true]
    exact ⟨wfOp_of o hg.1 hx.1 hc.1, wfOps_of os hg.2 hx.2 hc.2⟩
theorem wfOp_of : ∀ o : Op, o.Good → pxOp o = true → pcOp o = true → wfOp o = true
  | .count .., _, _, _ => by rw [wfOp]
  | .where_ _ _ e, _, hx, _ => by rw [pxOp] at hx; rw [wfOp]; exact hx
  | .sort _ _ ts, _, hx, _ => by rw [pxOp] at hx; rw [wfOp]; exact hx
  | .take _ _ n, _, hx, _ => by rw [pxOp] at hx; rw [wfOp]; exact hx
  | .top _ _ n _ c, hg, hx, _ => by
    rw [Op.Good] at hg
    obtain ⟨_, t, hct, _⟩ := hg
    subst hct
    rw [pxOp] at hx
    rw [wfOp]
    exact hx
  | .project _ _ cs, _, hx, _ => by rw [pxOp] at hx; rw [wfOp]; exact hx
  | .extend _ _ cs, _, hx, hc => by
    rw [pxOp] at hx
    rw [pcOp] at hc
    rw [wfOp]
    exact colWf_all_of_nonnil cs hx hc
  | .summarize _ _ cs _ gs, hg, hx, _ => by
    rw [Op.Good] at hg
    rw [pxOp, Bool.and_eq_true] at hx
    rw [wfOp, Bool.and_eq_true]
    exact ⟨colWf_all_of_good cs hx.1 hg.1, colWf_all_of_good gs hx.2 hg.2⟩
  | .join _ _ _ _ fl _ right _ _ conds, hg, hx, hc => by
    rw [Op.Good] at hg
    rw [pxOp, Bool.and_eq_true] at hx
    rw [pcOp, Bool.and_eq_true] at hc
    rw [wfOp, Bool.and_eq_true, Bool.and_eq_true]
    exact ⟨hc.1, wfTab_of right hg.1 hx.1 hc.2, hx.2⟩
  | .as_ .., _, _, _ => by rw [wfOp]
  | .render .., _, _, _ => by rw [wfOp]
end

theorem wfStmt_of (s : Stmt) (hg : s.Good) (hx : pxStmt s = true) (hc : pcStmt s = true) :
    wfStmt s = true := by
  cases s with
  | let_ kw name asg x =>
    rw [Stmt.Good] at hg
    rw [pxStmt] at hx
    rw [wfStmt, Bool.and_eq_true]
    exact ⟨Option.isSome_iff_ne_none.2 hg.1, hx⟩
  | tabular t =>
    rw [Stmt.Good] at hg
    rw [pxStmt] at hx
    rw [pcStmt] at hc
    rw [wfStmt]
    exact wfTab_of t hg hx hc


/-! ### `px`: unconditional -/

theorem pRowCount_known (c : PCtx) (fuel : Nat) (ts : List Token) :
    opsKnown (pRowCount c fuel ts).val = true := by
  simp only [pRowCount]
  have he := pExpr_opsKnown c fuel ts
  generalize pExpr c fuel ts = r at he ⊢
  split
  · exact he
  · split
    · split <;> exact he
    · exact he

theorem pSortTerm_known (c : PCtx) (fuel : Nat) (ts : List Token) :
    ∀ t, (pSortTerm c fuel ts).val = some t → opsKnown t.x = true := by
  unfold pSortTerm
  extract_lets r term step1 term2
  have he : opsKnown r.val = true := pExpr_opsKnown c fuel ts
  have hx : term2.x = r.val := by
    simp only [term2, step1]
    split
    · rfl
    · split
      · rfl
      · split
        · rfl
        · split <;> rfl
  clear_value term2 step1 term r
  intro t
  split
  · simp
  · split
    · simp only [Option.some.injEq]; rintro rfl; rw [hx]; exact he
    · split
      · simp only [Option.some.injEq]; rintro rfl; rw [hx]; exact he
      · split
        · split
          · simp only [Option.some.injEq]; rintro rfl; rw [hx]; exact he
          · split
            · simp only [Option.some.injEq]; rintro rfl; simp only []; rw [hx]; exact he
            · split
              · simp only [Option.some.injEq]; rintro rfl; simp only []; rw [hx]; exact he
              · simp only [Option.some.injEq]; rintro rfl; rw [hx]; exact he
        · simp only [Option.some.injEq]; rintro rfl; rw [hx]; exact he

theorem sortTermsWf_snoc (acc : List SortTerm) (t : SortTerm) (ha : sortTermsWf acc = true)
    (ht : opsKnown t.x = true) : sortTermsWf (acc ++ [t]) = true := by
  unfold sortTermsWf at *
  rw [List.all_append, ha, List.all_cons, ht]
  rfl

theorem pSortTerms_known (c : PCtx) (fuel : Nat) : ∀ (n : Nat) (acc : List SortTerm) (ts : List Token),
    sortTermsWf acc = true → sortTermsWf (pSortTerms c fuel n acc ts).val = true
  | 0, acc, ts => by simp [pSortTerms]
  | n + 1, acc, ts => by
    unfold pSortTerms
    extract_lets r acc'
    have hr : ∀ t, r.val = some t → opsKnown t.x = true := pSortTerm_known c fuel ts
    intro ha
    have hacc : sortTermsWf acc' = true := by
      simp only [acc']
      split
      · next t ht => exact sortTermsWf_snoc acc t ha (hr t ht)
      · exact ha
    clear_value acc' r
    split
    · exact hacc
    · split
      · split
        · exact pSortTerms_known c fuel n acc' _ hacc
        · exact hacc
      · exact hacc

theorem pNamedColumn_known (c : PCtx) (fuel : Nat) (ts : List Token) :
    opsKnown (pNamedColumn c fuel ts).val.x = true := by
  unfold pNamedColumn
  extract_lets ri named
  clear_value named
  split
  · exact pExpr_opsKnown ..
  · exact pExpr_opsKnown ..

theorem colsKnown_snoc (acc : List Column) (k : Column) (ha : colsKnown acc = true)
    (hk : opsKnown k.x = true) : colsKnown (acc ++ [k]) = true := by
  unfold colsKnown at *
  rw [List.all_append, ha, List.all_cons, hk]
  rfl

theorem pExtendCols_known (c : PCtx) (fuel : Nat) : ∀ (n : Nat) (acc : List Column) (ts : List Token),
    colsKnown acc = true → colsKnown (pExtendCols c fuel n acc ts).val = true
  | 0, acc, ts => by simp [pExtendCols]
  | n + 1, acc, ts => by
    unfold pExtendCols
    extract_lets r acc'
    intro ha
    have hacc : colsKnown acc' = true := colsKnown_snoc acc _ ha (pNamedColumn_known c fuel ts)
    clear_value acc' r
    split
    · exact ha
    · split
      · split
        · exact pExtendCols_known c fuel n acc' _ hacc
        · exact hacc
      · exact hacc

theorem pProjectCols_known (c : PCtx) (fuel : Nat) : ∀ (n : Nat) (acc : List Column) (ts : List Token),
    colsKnown acc = true → colsKnown (pProjectCols c fuel n acc ts).val = true
  | 0, acc, ts => by simp [pProjectCols]
  | n + 1, acc, ts => by
    unfold pProjectCols
    extract_lets ri
    clear_value ri
    intro ha
    have hnil : ∀ id : Ident, colsKnown (acc ++ [⟨some id, .null, .nil⟩]) = true :=
      fun id => colsKnown_snoc acc _ ha rfl
    split
    · exact ha
    · next id hv =>
      split
      · exact hnil id
      · next sep rest hrest =>
        split
        · exact pProjectCols_known c fuel n _ _ (hnil id)
        · split
          · extract_lets r acc'
            have hacc : colsKnown acc' = true := colsKnown_snoc acc _ ha (pExpr_opsKnown c fuel rest)
            clear_value acc' r
            split
            · exact hacc
            · split
              · exact hacc
              · split
                · exact pProjectCols_known c fuel n acc' _ hacc
                · exact hacc
          · exact hnil id

theorem pSummarizeCols_known (c : PCtx) (fuel : Nat) :
    ∀ (n : Nat) (acc : List Column) (cm : Option Span) (ts : List Token),
    colsKnown acc = true → colsKnown (pSummarizeCols c fuel n acc cm ts).val.cols = true
  | 0, acc, cm, ts => by simp [pSummarizeCols]
  | n + 1, acc, cm, ts => by
    unfold pSummarizeCols
    extract_lets r acc'
    intro ha
    have hacc : colsKnown acc' = true := colsKnown_snoc acc _ ha (pNamedColumn_known c fuel ts)
    clear_value acc' r
    split
    · exact ha
    · split
      · exact hacc
      · split
        · exact hacc
        · split
          · exact pSummarizeCols_known c fuel n acc' _ _ hacc
          · exact hacc

theorem pGroupByCols_known (c : PCtx) (fuel : Nat) :
    ∀ (n : Nat) (acc : List Column) (ts : List Token),
    colsKnown acc = true → colsKnown (pGroupByCols c fuel n acc ts).val = true
  | 0, acc, ts => by simp [pGroupByCols]
  | n + 1, acc, ts => by
    unfold pGroupByCols
    extract_lets r acc'
    intro ha
    have hacc : colsKnown acc' = true := colsKnown_snoc acc _ ha (pNamedColumn_known c fuel ts)
    clear_value acc' r
    split
    · exact ha
    · split
      · exact hacc
      · split
        · exact hacc
        · split
          · exact pGroupByCols_known c fuel n acc' _ hacc
          · exact hacc

theorem pSummarize_known (c : PCtx) (fuel : Nat) (pipe kw : Span) (ts : List Token) :
    pxOp (pSummarize c fuel pipe kw ts).val = true := by
  unfold pSummarize
  extract_lets r1 cols
  have h1 : colsKnown r1.val.cols = true := pSummarizeCols_known c fuel _ _ _ _ rfl
  clear_value r1
  have hnil : colsKnown [] = true := rfl
  split
  · simp only [pxOp, h1, hnil, Bool.and_self]
  · have hc : colsKnown cols = true := h1
    clear_value cols
    split
    · split
      · simp only [pxOp, hc, hnil, Bool.and_self]
      · split <;> simp only [pxOp, hc, hnil, Bool.and_self]
    · split
      · split
        · simp only [pxOp, hc, hnil, Bool.and_self]
        · split <;> simp only [pxOp, hc, hnil, Bool.and_self]
      · simp only [pxOp, hc, Bool.true_and]
        exact pGroupByCols_known c fuel _ _ _ rfl

theorem pRender_known (c : PCtx) (fuel : Nat) (pipe kw : Span) (ts : List Token) :
    pxOp (pRender c fuel pipe kw ts).val = true := by
  unfold pRender
  extract_lets ri
  clear_value ri
  split
  · rfl
  · split
    · rfl
    · split
      · rfl
      · split
        · rfl
        · split <;> rfl

theorem pxOps_snoc : ∀ (ops : OpList) (o : Op), pxOps (ops.snoc o) = (pxOps ops && pxOp o)
  | .nil, o => by simp [OpList.snoc, pxOps]
  | .cons p ps, o => by simp [OpList.snoc, pxOps, pxOps_snoc ps o, Bool.and_assoc]

structure XTabInv (c : PCtx) (fuel : Nat) : Prop where
  tabular : ∀ ts, pxTab (pTabular c fuel ts).val = true
  ops : ∀ ops acc ts, pxOps ops = true → pxOps (pOps c fuel ops acc ts).val = true
  operator : ∀ pipe name ts r, pOperator c fuel pipe name ts = some r → pxOp r.val = true
  join : ∀ pipe kw ts, pxOp (pJoin c fuel pipe kw ts).val = true

theorem xTabInv_zero (c : PCtx) : XTabInv c 0 where
  tabular := by simp [pTabular, pxTab]
  ops := by simp [pOps]
  operator := by
    intro pipe name ts r h
    simp only [pOperator, Option.some.injEq] at h
    subst h; rfl
  join := by simp [pJoin, pxOp]

theorem xTabInv_tabular {c : PCtx} {fuel : Nat} (ih : XTabInv c fuel) (ts : List Token) :
    pxTab (pTabular c (fuel + 1) ts).val = true := by
  unfold pTabular
  extract_lets ri
  clear_value ri
  split
  · rfl
  · simp only [pxTab]
    exact ih.ops _ _ _ rfl

theorem xTabInv_ops {c : PCtx} {fuel : Nat} (ih : XTabInv c fuel) (ops : OpList) (acc : Errs)
    (ts : List Token) (ho : pxOps ops = true) : pxOps (pOps c (fuel + 1) ops acc ts).val = true := by
  unfold pOps
  split
  · exact ho
  · split
    · exact ho
    · extract_lets sp
      clear_value sp
      split
      · exact ih.ops _ _ _ ho
      · split
        · exact ih.ops _ _ _ ho
        · split
          · exact ih.ops _ _ _ ho
          · next r hop =>
            refine ih.ops _ _ _ ?_
            rw [pxOps_snoc, ho, ih.operator _ _ _ _ hop]
            rfl

theorem xTabInv_operator {c : PCtx} {fuel : Nat} (ih : XTabInv c fuel) (pipe : Span) (name : Token)
    (ts : List Token) (r : PRes Op) :
    pOperator c (fuel + 1) pipe name ts = some r → pxOp r.val = true := by
  unfold pOperator
  extract_lets kw v rE rC rP rX rI
  have hE : opsKnown rE.val = true := pExpr_opsKnown ..
  have hC : opsKnown rC.val = true := pRowCount_known ..
  have hP : colsKnown rP.val = true := pProjectCols_known c fuel _ _ _ rfl
  have hX : colsKnown rX.val = true := pExtendCols_known c fuel _ _ _ rfl
  clear_value v kw rE rC rP rX rI
  -- count
  refine opt_ite (Q := fun r : PRes Op => pxOp r.val = true) rfl ?_
  -- where
  refine opt_ite (Q := fun r : PRes Op => pxOp r.val = true) hE ?_
  -- sort
  refine ite_elim (fun x : Option (PRes Op) => x = some r → pxOp r.val = true) (fun _ => ?_) (fun _ => ?_)
  · split
    · rintro ⟨⟩; rfl
    · split
      · rintro ⟨⟩; rfl
      · rintro ⟨⟩
        exact pSortTerms_known c fuel _ _ _ rfl
  -- take
  refine opt_ite (Q := fun r : PRes Op => pxOp r.val = true) hC ?_
  -- top
  refine ite_elim (fun x : Option (PRes Op) => x = some r → pxOp r.val = true) (fun _ => ?_) (fun _ => ?_)
  · split
    · rintro ⟨⟩; simp only [pxOp, hC, Bool.and_self]
    · split
      · rintro ⟨⟩; simp only [pxOp, hC, Bool.and_self]
      · next by_ rest hrest =>
        split
        · rintro ⟨⟩; simp only [pxOp, hC, Bool.and_self]
        · rintro ⟨⟩
          simp only [pxOp, hC, Bool.true_and]
          have hs := pSortTerm_known c fuel rest
          generalize (pSortTerm c fuel rest).val = ov at hs ⊢
          cases ov with
          | none => rfl
          | some t => exact hs t rfl
  -- project
  refine opt_ite (Q := fun r : PRes Op => pxOp r.val = true) hP ?_
  -- extend
  refine opt_ite (Q := fun r : PRes Op => pxOp r.val = true) hX ?_
  -- summarize, join
  refine opt_ite (Q := fun r : PRes Op => pxOp r.val = true) (pSummarize_known ..) ?_
  refine opt_ite (Q := fun r : PRes Op => pxOp r.val = true) (ih.join _ _ _) ?_
  -- as
  refine opt_ite (Q := fun r : PRes Op => pxOp r.val = true) rfl ?_
  -- render
  refine opt_ite (Q := fun r : PRes Op => pxOp r.val = true) (pRender_known ..) ?_
  simp

theorem xTabInv_join {c : PCtx} {fuel : Nat} (ih : XTabInv c fuel) (pipe kw : Span) (ts : List Token) :
    pxOp (pJoin c (fuel + 1) pipe kw ts).val = true := by
  unfold pJoin
  extract_lets mk
  have hmk : ∀ kind ka fl lp rp on, pxOp (mk kind ka fl lp .nil rp on .nil) = true := by
    intros; rfl
  split
  · exact hmk ..
  · next t0 rest0 =>
    extract_lets hdr
    have hhdr : ∀ r, hdr = .inr r → pxOp r.val = true := by
      simp only [hdr]
      intro r
      split
      · split
        · rintro ⟨⟩; exact hmk ..
        · split
          · rintro ⟨⟩; exact hmk ..
          · split
            · rintro ⟨⟩; exact hmk ..
            · split
              · rintro ⟨⟩; exact hmk ..
              · intro h; cases h
      · intro h; cases h
    clear_value hdr
    split
    · next r => exact hhdr r rfl
    · exact hmk ..
    · next kind ka fl e0 rest =>
      split
      · exact hmk ..
      · next lp rest1 =>
        split
        · exact hmk ..
        · extract_lets sp rr e1
          have hrr : pxTab rr.val = true := ih.tabular _
          have hmk2 : ∀ rp on, pxOp (mk kind ka fl lp.span rr.val rp on .nil) = true := by
            intro rp on
            simp only [mk, pxOp, hrr, opsKnownList, Bool.and_self]
          clear_value e1 rr sp
          split
          · exact hmk2 ..
          · split
            · exact hmk2 ..
            · split
              · exact hmk2 ..
              · split
                · exact hmk2 ..
                · extract_lets rc
                  have hrc : opsKnownList rc.val = true := pExprList_opsKnown ..
                  clear_value rc
                  simp only [mk, pxOp, hrr, hrc, Bool.and_self]

theorem xTabInv (c : PCtx) : ∀ fuel, XTabInv c fuel
  | 0 => xTabInv_zero c
  | fuel + 1 =>
    have ih := xTabInv c fuel
    { tabular := xTabInv_tabular ih
      ops := xTabInv_ops ih
      operator := xTabInv_operator ih
      join := xTabInv_join ih }

theorem pTabular_known (c : PCtx) (fuel : Nat) (ts : List Token) :
    pxTab (pTabular c fuel ts).val = true := (xTabInv c fuel).tabular ts

theorem pLet_known (c : PCtx) (fuel : Nat) (ts : List Token) :
    ∀ s, (pLet c fuel ts).val = some s → pxStmt s = true := by
  unfold pLet
  intro s
  split
  · simp
  · split
    · simp
    · extract_lets ri
      clear_value ri
      split
      · simp only [Option.some.injEq]; rintro rfl; rfl
      · split
        · simp only [Option.some.injEq]; rintro rfl; rfl
        · split
          · simp only [Option.some.injEq]; rintro rfl; rfl
          · simp only [Option.some.injEq]; rintro rfl
            exact pExpr_opsKnown ..

theorem pStatement_known (c : PCtx) (ts : List Token) :
    ∀ s, (pStatement c ts).1 = some s → pxStmt s = true := by
  unfold pStatement
  extract_lets fuel rl rt first
  have ht : pxTab rt.val = true := pTabular_known ..
  have hf : ∀ s, first.val = some s → pxStmt s = true := by
    simp only [first]
    split
    · exact pLet_known _ _ _
    · clear_value rt
      split
      · simp
      · simp only [Option.some.injEq]
        rintro s rfl
        exact ht
  clear_value first rt rl
  split
  · split <;> simp
  · exact hf

theorem pStatements_known (c : PCtx) : ∀ (n : Nat) (acc : List Stmt) (errs : Errs) (ts : List Token),
    (∀ s ∈ acc, pxStmt s = true) → ∀ s ∈ (pStatements c n acc errs ts).1, pxStmt s = true
  | 0, acc, errs, ts => by simp [pStatements]
  | n + 1, acc, errs, ts => by
    unfold pStatements
    extract_lets sp r acc' errs'
    have hr : ∀ s, r.1 = some s → pxStmt s = true := pStatement_known _ _
    intro ha
    have hacc : ∀ s ∈ acc', pxStmt s = true := by
      simp only [acc']
      split
      · next s hs => exact forall_mem_snoc ha (hr s hs)
      · exact ha
    clear_value acc' errs' r sp
    split
    · exact hacc
    · exact pStatements_known c n acc' errs' _ hacc

/-! ### `pc`: when no error is reported -/

theorem pcOps_snoc : ∀ (ops : OpList) (o : Op), pcOps (ops.snoc o) = (pcOps ops && pcOp o)
  | .nil, o => by simp [OpList.snoc, pcOps]
  | .cons p ps, o => by simp [OpList.snoc, pcOps, pcOps_snoc ps o, Bool.and_assoc]

structure CTabInv (c : PCtx) (fuel : Nat) : Prop where
  tabular : ∀ ts, (pTabular c fuel ts).errs = [] → pcTab (pTabular c fuel ts).val = true
  ops : ∀ ops acc ts, (pOps c fuel ops acc ts).errs = [] → pcOps ops = true →
    pcOps (pOps c fuel ops acc ts).val = true
  operator : ∀ pipe name ts r, pOperator c fuel pipe name ts = some r → r.errs = [] → pcOp r.val = true
  join : ∀ pipe kw ts, (pJoin c fuel pipe kw ts).errs = [] → pcOp (pJoin c fuel pipe kw ts).val = true

theorem cTabInv_zero (c : PCtx) : CTabInv c 0 where
  tabular := by simp [pTabular]
  ops := by simp [pOps]
  operator := by
    intro pipe name ts r h
    simp only [pOperator, Option.some.injEq] at h
    subst h; simp
  join := by simp [pJoin]

theorem cTabInv_tabular {c : PCtx} {fuel : Nat} (ih : CTabInv c fuel) (ts : List Token) :
    (pTabular c (fuel + 1) ts).errs = [] → pcTab (pTabular c (fuel + 1) ts).val = true := by
  unfold pTabular
  extract_lets ri
  clear_value ri
  split
  · intro _; rfl
  · intro h
    simp only [pcTab]
    exact ih.ops _ _ _ h rfl

theorem cTabInv_ops {c : PCtx} {fuel : Nat} (ih : CTabInv c fuel) (ops : OpList) (acc : Errs)
    (ts : List Token) :
    (pOps c (fuel + 1) ops acc ts).errs = [] → pcOps ops = true →
      pcOps (pOps c (fuel + 1) ops acc ts).val = true := by
  unfold pOps
  split
  · intro _ ho; exact ho
  · split
    · intro _ ho; exact ho
    · extract_lets sp
      clear_value sp
      split
      · intro h; exact ih.ops _ _ _ h
      · split
        · intro h; exact ih.ops _ _ _ h
        · split
          · intro h; exact ih.ops _ _ _ h
          · next r hop =>
            intro h ho
            have h1 := ((tabInv c fuel).ops _ _ _ h).1
            simp only [List.append_eq_nil_iff] at h1
            refine ih.ops _ _ _ h ?_
            rw [pcOps_snoc, ho, ih.operator _ _ _ _ hop h1.1.2]
            rfl

theorem cTabInv_operator {c : PCtx} {fuel : Nat} (ih : CTabInv c fuel) (pipe : Span) (name : Token)
    (ts : List Token) (r : PRes Op) :
    pOperator c (fuel + 1) pipe name ts = some r → r.errs = [] → pcOp r.val = true := by
  unfold pOperator
  extract_lets kw v rE rC rP rX rI
  have hX : rX.errs = [] → ∀ k ∈ rX.val, k.x.Good := fun h => pExtendCols_good _ _ _ h (by simp)
  clear_value v kw rE rC rP rX rI
  -- count
  refine opt_ite (Q := fun r : PRes Op => r.errs = [] → pcOp r.val = true) (fun _ => rfl) ?_
  -- where
  refine opt_ite (Q := fun r : PRes Op => r.errs = [] → pcOp r.val = true) (fun _ => rfl) ?_
  -- sort
  refine ite_elim (fun x : Option (PRes Op) => x = some r → r.errs = [] → pcOp r.val = true) (fun _ => ?_) (fun _ => ?_)
  · split
    · rintro ⟨⟩ _; rfl
    · split
      · rintro ⟨⟩ _; rfl
      · rintro ⟨⟩ _; rfl
  -- take
  refine opt_ite (Q := fun r : PRes Op => r.errs = [] → pcOp r.val = true) (fun _ => rfl) ?_
  -- top
  refine ite_elim (fun x : Option (PRes Op) => x = some r → r.errs = [] → pcOp r.val = true) (fun _ => ?_) (fun _ => ?_)
  · split
    · rintro ⟨⟩ _; rfl
    · split
      · rintro ⟨⟩ _; rfl
      · split
        · rintro ⟨⟩ _; rfl
        · rintro ⟨⟩ _; rfl
  -- project
  refine opt_ite (Q := fun r : PRes Op => r.errs = [] → pcOp r.val = true) (fun _ => rfl) ?_
  -- extend
  refine opt_ite (Q := fun r : PRes Op => r.errs = [] → pcOp r.val = true) ?_ ?_
  · intro h
    simp only [pcOp, List.all_eq_true]
    intro k hk
    rw [isNil_of_good (hX h k hk)]
    rfl
  -- summarize
  refine opt_ite (Q := fun r : PRes Op => r.errs = [] → pcOp r.val = true) ?_ ?_
  · intro _
    have : ∀ o : Op, (∃ p k cs b gs, o = .summarize p k cs b gs) → pcOp o = true := by
      rintro o ⟨p, k, cs, b, gs, rfl⟩; rfl
    apply this
    unfold pSummarize
    extract_lets r1 cols
    split
    · exact ⟨_, _, _, _, _, rfl⟩
    · split
      · split
        · exact ⟨_, _, _, _, _, rfl⟩
        · split <;> exact ⟨_, _, _, _, _, rfl⟩
      · split
        · split
          · exact ⟨_, _, _, _, _, rfl⟩
          · split <;> exact ⟨_, _, _, _, _, rfl⟩
        · exact ⟨_, _, _, _, _, rfl⟩
  -- join
  refine opt_ite (Q := fun r : PRes Op => r.errs = [] → pcOp r.val = true) (ih.join _ _ _) ?_
  -- as
  refine opt_ite (Q := fun r : PRes Op => r.errs = [] → pcOp r.val = true) (fun _ => rfl) ?_
  -- render
  refine opt_ite (Q := fun r : PRes Op => r.errs = [] → pcOp r.val = true) ?_ ?_
  · intro _
    have : ∀ o : Op, (∃ p k ch w lp props rp, o = .render p k ch w lp props rp) → pcOp o = true := by
      rintro o ⟨p, k, ch, w, lp, props, rp, rfl⟩; rfl
    apply this
    unfold pRender
    extract_lets ri
    split
    · exact ⟨_, _, _, _, _, _, _, rfl⟩
    · split
      · exact ⟨_, _, _, _, _, _, _, rfl⟩
      · split
        · exact ⟨_, _, _, _, _, _, _, rfl⟩
        · split
          · exact ⟨_, _, _, _, _, _, _, rfl⟩
          · split <;> exact ⟨_, _, _, _, _, _, _, rfl⟩
  simp

theorem cTabInv_join {c : PCtx} {fuel : Nat} (ih : CTabInv c fuel) (pipe kw : Span) (ts : List Token) :
    (pJoin c (fuel + 1) pipe kw ts).errs = [] → pcOp (pJoin c (fuel + 1) pipe kw ts).val = true := by
  unfold pJoin
  extract_lets mk
  split
  · simp
  · next t0 rest0 =>
    extract_lets hdr
    have hhdr : (∀ r, hdr = .inr r → r.errs ≠ []) ∧ hdr ≠ .inl none ∧
        (∀ kind ka fl e0 rest, hdr = .inl (some (kind, ka, fl, e0, rest)) → e0 = [] → flavorOK fl = true) := by
      simp only [hdr]
      split
      · split
        · simp
        · split
          · simp
          · split
            · simp
            · split
              · simp
              · next fl rest2 hfl =>
                refine ⟨by simp, by simp, ?_⟩
                intro kind ka fl' e0 rest h
                simp only [Sum.inl.injEq, Option.some.injEq, Prod.mk.injEq] at h
                obtain ⟨_, _, hfl', he0, _⟩ := h
                subst hfl' he0
                intro he
                by_cases hj : isJoinType fl.value = true
                · exact hj
                · rw [if_neg hj] at he
                  exact absurd he (by simp)
      · refine ⟨by simp, by simp, ?_⟩
        intro kind ka fl' e0 rest h
        simp only [Sum.inl.injEq, Option.some.injEq, Prod.mk.injEq] at h
        obtain ⟨_, _, hfl', _, _⟩ := h
        subst hfl'
        intro _; rfl
    clear_value hdr
    split
    · next r => intro h; exact absurd h (hhdr.1 r rfl)
    · exact absurd rfl hhdr.2.1
    · next kind ka fl e0 rest =>
      have hfl : e0 = [] → flavorOK fl = true := hhdr.2.2 kind ka fl e0 rest rfl
      split
      · simp
      · next lp rest1 =>
        split
        · simp
        · extract_lets sp rr e1
          have hrr : rr.errs = [] → pcTab rr.val = true := ih.tabular _
          have he1 : e1 = [] → e0 = [] ∧ rr.errs = [] := by
            simp only [e1, List.append_eq_nil_iff, mkOpaque_eq_nil]
            exact fun h => ⟨h.1.1, h.1.2⟩
          clear_value e1 rr sp
          split
          · simp
          · split
            · simp
            · split
              · simp
              · split
                · simp
                · extract_lets rc
                  clear_value rc
                  simp only [List.append_eq_nil_iff, mkOpaque_eq_nil, mk, pcOp]
                  intro h
                  rw [hfl (he1 h.1).1, hrr (he1 h.1).2]
                  rfl

theorem cTabInv (c : PCtx) : ∀ fuel, CTabInv c fuel
  | 0 => cTabInv_zero c
  | fuel + 1 =>
    have ih := cTabInv c fuel
    { tabular := cTabInv_tabular ih
      ops := cTabInv_ops ih
      operator := cTabInv_operator ih
      join := cTabInv_join ih }

theorem pTabular_pc {c : PCtx} {fuel : Nat} {ts : List Token}
    (h : (pTabular c fuel ts).errs = []) : pcTab (pTabular c fuel ts).val = true :=
  (cTabInv c fuel).tabular ts h

theorem pLet_pc (c : PCtx) (fuel : Nat) (ts : List Token) :
    ∀ s, (pLet c fuel ts).val = some s → pcStmt s = true := by
  unfold pLet
  intro s
  split
  · simp
  · split
    · simp
    · extract_lets ri
      clear_value ri
      split
      · simp only [Option.some.injEq]; rintro rfl; rfl
      · split
        · simp only [Option.some.injEq]; rintro rfl; rfl
        · split
          · simp only [Option.some.injEq]; rintro rfl; rfl
          · simp only [Option.some.injEq]; rintro rfl; rfl

theorem pStatement_pc {c : PCtx} {ts : List Token} :
    (pStatement c ts).2.1 = [] → ∀ s, (pStatement c ts).1 = some s → pcStmt s = true := by
  unfold pStatement
  extract_lets fuel rl rt first
  have ht : rt.errs = [] → pcTab rt.val = true := pTabular_pc
  have hf : first.errs = [] → ∀ s, first.val = some s → pcStmt s = true := by
    simp only [first]
    split
    · intro _; exact pLet_pc _ _ _
    · clear_value rt
      split
      · simp
      · simp only [Option.some.injEq]
        rintro h s rfl
        exact ht h
  clear_value first rt rl
  split
  · split <;> simp
  · simp only [List.append_eq_nil_iff, mkOpaque_eq_nil]
    intro h; exact hf h.1

theorem pStatements_pc {c : PCtx} : ∀ (n : Nat) (acc : List Stmt) (errs : Errs) (ts : List Token),
    (pStatements c n acc errs ts).2 = [] →
      (∀ s ∈ acc, pcStmt s = true) → ∀ s ∈ (pStatements c n acc errs ts).1, pcStmt s = true
  | 0, acc, errs, ts => by simp [pStatements]
  | n + 1, acc, errs, ts => by
    unfold pStatements
    extract_lets sp r acc' errs'
    have hr : r.2.1 = [] → ∀ s, r.1 = some s → pcStmt s = true := pStatement_pc
    have hrep : r.2.2 = true → r.2.1 ≠ [] := pStatement_replace
    have he : errs' = [] → r.2.1 = [] := by
      simp only [errs']
      split
      · next h => intro h'; exact absurd h' (hrep h)
      · simp
    have hacc : r.2.1 = [] → (∀ s ∈ acc, pcStmt s = true) → ∀ s ∈ acc', pcStmt s = true := by
      intro h ha
      simp only [acc']
      split
      · next s hs => exact forall_mem_snoc ha (hr h s hs)
      · exact ha
    clear_value acc' errs' r sp
    split
    · intro h ha
      exact hacc (he h) ha
    · intro h ha
      have h1 := (pStatements_good n acc' errs' _ h).1
      exact pStatements_pc n acc' errs' _ h (hacc (he h1) ha)

/-- **Every statement of an error-free parse is well-formed** (the hypothesis of `C13_exact`). -/
theorem parseTokens_wf {srcLen : Nat} {ts : List Token} {stmts : List Stmt}
    (h : parseTokens srcLen ts = (stmts, [])) : ∀ s ∈ stmts, wfStmt s = true := by
  intro s hs
  have hg := parseTokens_good h s hs
  have hx : pxStmt s = true := by
    have := pStatements_known ⟨srcLen⟩ (ts.length + 1) [] [] ts (by simp)
    unfold parseTokens at h
    rw [h] at this
    exact this s hs
  have hc : pcStmt s = true := by
    have := pStatements_pc (c := ⟨srcLen⟩) (ts.length + 1) [] [] ts
    unfold parseTokens at h
    rw [h] at this
    exact this rfl (by simp) s hs
  exact wfStmt_of s hg hx hc
end Pql.Exact
