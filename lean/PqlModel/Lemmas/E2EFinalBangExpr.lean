/-
The operator `!=`, part 2 (a port of Lemmas/LexStmtSemiExpr.lean from `;` to `!`): every chunk list
the expression writer returns is `!`-free (`BF`), under a scope whose entries are.  No hypothesis on
the tree.
-/
import PqlModel.Lemmas.E2EFinalBang
namespace Pql.E2EFinal
open Pql Sql LexRender Pql.C05

def ScopeBF (scope : List (Bytes × List Chunk)) : Prop := ∀ p ∈ scope, BF p.2 = true

theorem scopeBF_nil : ScopeBF [] := fun _ h => by cases h

theorem bf_lit (k : TokKind) : BF [.txt ("NULL /* unhandled " ++ k.goName ++ " literal */")] = true := by
  cases k <;> decide

theorem bf_sign (op : TokKind) :
    bangFree (.txt (if op = .plus then "+" else if op = .minus then "-"
      else "/* unhandled " ++ op.goName ++ " unary op */ ")) = true := by
  cases op <;> decide

theorem bf_binary (op : TokKind) :
    BF [.txt ("NULL /* unhandled " ++ op.goName ++ " binary op */ ")] = true := by
  cases op <;> decide

/-- closes `BF (…) = true` goals over a concrete layout, from `BF` facts in the context -/
macro "bf_close" : tactic => `(tactic| (
  simp only [BF_append, BF_cons, BF_nil, BF_wrapMaybe, BF_wrapTight, BF_paren, Bool.and_true, Bool.true_and,
    Bool.and_self, *]
  try decide))

theorem assembleKnown_bf {writer : String} {flag : Bool} (hmem : (writer, flag) ∈ knownPairs)
    (args : List (Expr × List Chunk)) (hargs : ∀ a ∈ args, BF a.2 = true) (cs : List Chunk)
    (h : assembleKnown writer args = .ok cs) : BF cs = true := by
  simp only [knownPairs, List.mem_cons, Prod.mk.injEq, List.not_mem_nil, or_false] at hmem
  rcases hmem with ⟨rfl, rfl⟩ | ⟨rfl, rfl⟩ | ⟨rfl, rfl⟩ | ⟨rfl, rfl⟩ | ⟨rfl, rfl⟩ | ⟨rfl, rfl⟩ |
    ⟨rfl, rfl⟩ | ⟨rfl, rfl⟩ | ⟨rfl, rfl⟩ | ⟨rfl, rfl⟩
  · simp [assembleKnown] at h; subst h; decide
  · simp [assembleKnown] at h
    rcases args with _ | ⟨a, t⟩
    · cases h
    · simp only [Except.ok.injEq] at h; subst h
      have ha := hargs a (by simp)
      bf_close
  · simp [assembleKnown] at h
    rcases args with _ | ⟨a, _ | ⟨b, _ | ⟨c, t⟩⟩⟩ <;> try cases h
    have ha := hargs a (by simp)
    have hb := hargs b (by simp)
    have hc := hargs c (by simp)
    bf_close
  · simp [assembleKnown] at h
    rcases args with _ | ⟨a, t⟩
    · cases h
    · simp only [Except.ok.injEq] at h; subst h
      have ha := hargs a (by simp)
      bf_close
  · simp [assembleKnown] at h
    rcases args with _ | ⟨a, t⟩
    · cases h
    · simp only [Except.ok.injEq] at h; subst h
      have ha := hargs a (by simp)
      bf_close
  · simp [assembleKnown] at h
    rcases args with _ | ⟨a, t⟩
    · cases h
    · simp only [Except.ok.injEq] at h; subst h
      have ha := hargs a (by simp)
      bf_close
  · simp [assembleKnown] at h; subst h; decide
  · simp [assembleKnown] at h
    rcases args with _ | ⟨a, t⟩
    · cases h
    · simp only [Except.ok.injEq] at h; subst h
      refine BF_sepChunks (by decide) _ ?_
      intro v hv
      obtain ⟨x, hx, rfl⟩ := List.mem_map.mp hv
      rw [BF_wrapMaybe]; exact hargs x hx
  · simp [assembleKnown] at h
    rcases args with _ | ⟨a, t⟩
    · cases h
    · simp only [Except.ok.injEq] at h; subst h
      have ha := hargs a (by simp)
      bf_close
  · simp [assembleKnown] at h
    rcases args with _ | ⟨a, t⟩
    · cases h
    · simp only [Except.ok.injEq] at h; subst h
      have ha := hargs a (by simp)
      bf_close

theorem bf_qids (parts : List Ident) : BF (sepChunks "." (parts.map fun p => [Chunk.qid p.name])) = true :=
  BF_sepChunks (by decide) _ (by
    intro v hv
    obtain ⟨p, _, rfl⟩ := List.mem_map.mp hv
    rfl)

mutual

theorem writeExpr_bf (ctx : Ctx) (hscope : ScopeBF ctx.scope) :
    (e : Expr) → (cs : List Chunk) → writeExpr ctx e = .ok cs → BF cs = true
  | .nil, cs, h => by
    simp only [writeExpr] at h; cases h; decide
  | .paren _ x _, cs, h => by
    simp only [writeExpr] at h
    exact writeExpr_bf ctx hscope x cs h
  | .qident parts, cs, h => by
    rcases writeExpr_qident_scope h with ⟨p, hp, rfl⟩ | ⟨sql, rfl, hm⟩ | rfl
    · exact hscope p hp
    · simp only [List.mem_cons, List.not_mem_nil, or_false] at hm
      rcases hm with rfl | rfl | rfl <;> decide
    · exact bf_qids parts
  | .lit _ k v, cs, h => by
    simp only [writeExpr] at h
    split at h
    · cases h; rfl
    · split at h
      · cases h; rfl
      · cases h; exact bf_lit k
  | .unary _ op x, cs, h => by
    simp only [writeExpr] at h
    obtain ⟨xs', hx', hcs⟩ := bind_ok h
    obtain ⟨xs, hx, rfl⟩ := map_ok hx'
    have ih := writeExpr_bf ctx hscope x xs hx
    cases hcs
    rw [BF_cons, BF_wrapTight, ih, bf_sign]; rfl
  | .binary x _ op y, cs, h => by
    simp only [writeExpr] at h
    have wrapped : ∀ {k : List Chunk → List Chunk → List Chunk},
        (do let xs ← Except.map (wrapMaybe x) (writeExpr ctx x)
            let ys ← Except.map (wrapMaybe y) (writeExpr ctx y)
            pure (k xs ys) : W) = .ok cs →
        ∃ xs ys, BF xs = true ∧ BF ys = true ∧ cs = k xs ys := by
      intro k hh
      obtain ⟨xs', hx', hh⟩ := bind_ok hh
      obtain ⟨ys', hy', hh⟩ := bind_ok hh
      obtain ⟨xs, hx, rfl⟩ := map_ok hx'
      obtain ⟨ys, hy, rfl⟩ := map_ok hy'
      cases hh
      exact ⟨_, _, by rw [BF_wrapMaybe]; exact writeExpr_bf ctx hscope x xs hx,
        by rw [BF_wrapMaybe]; exact writeExpr_bf ctx hscope y ys hy, rfl⟩
    have plain : ∀ {k : List Chunk → List Chunk → List Chunk},
        (do let xs ← writeExpr ctx x
            let ys ← writeExpr ctx y
            pure (k xs ys) : W) = .ok cs →
        ∃ xs ys, BF xs = true ∧ BF ys = true ∧ cs = k xs ys := by
      intro k hh
      obtain ⟨xs, hx, hh⟩ := bind_ok hh
      obtain ⟨ys, hy, hh⟩ := bind_ok hh
      cases hh
      exact ⟨_, _, writeExpr_bf ctx hscope x xs hx, writeExpr_bf ctx hscope y ys hy, rfl⟩
    by_cases h1 : op = .eq
    · rw [if_pos h1] at h
      split at h
      · obtain ⟨xs, ys, hx, hy, rfl⟩ := wrapped (k := fun xs ys => xs ++ Chunk.txt " = " :: ys) h
        bf_close
      · obtain ⟨xs, ys, hx, hy, rfl⟩ := wrapped
          (k := fun xs ys => Chunk.txt "coalesce(" :: xs ++ Chunk.txt " = " :: ys ++ [Chunk.txt ", FALSE)"]) h
        bf_close
    rw [if_neg h1] at h
    by_cases h2 : op = .ne
    · rw [if_pos h2] at h
      obtain ⟨xs, ys, hx, hy, rfl⟩ := wrapped
        (k := fun xs ys => Chunk.txt "coalesce(" :: xs ++ Chunk.txt " <> " :: ys ++ [Chunk.txt ", FALSE)"]) h
      bf_close
    rw [if_neg h2] at h
    by_cases h3 : op = .cieq
    · rw [if_pos h3] at h
      obtain ⟨xs, ys, hx, hy, rfl⟩ := plain
        (k := fun xs ys => Chunk.txt "lower(" :: xs ++ Chunk.txt ") = lower(" :: ys ++ [Chunk.txt ")"]) h
      bf_close
    rw [if_neg h3] at h
    by_cases h4 : op = .cine
    · rw [if_pos h4] at h
      obtain ⟨xs, ys, hx, hy, rfl⟩ := plain
        (k := fun xs ys => Chunk.txt "lower(" :: xs ++ Chunk.txt ") <> lower(" :: ys ++ [Chunk.txt ")"]) h
      bf_close
    rw [if_neg h4] at h
    cases hb : binaryOpText op with
    | none =>
      rw [hb] at h
      cases h
      exact bf_binary op
    | some sql =>
      rw [hb] at h
      obtain ⟨xs, ys, hx, hy, rfl⟩ := wrapped
        (k := fun xs ys => xs ++ Chunk.txt " " :: Chunk.txt sql :: Chunk.txt " " :: ys) h
      have hm := binaryOp_mem hb
      simp only [List.mem_cons, List.not_mem_nil, or_false] at hm
      rcases hm with rfl | rfl | rfl | rfl | rfl | rfl | rfl | rfl | rfl | rfl | rfl <;> bf_close
  | .inE x _ _ vals _, cs, h => by
    simp only [writeExpr] at h
    obtain ⟨xs', hx', h⟩ := bind_ok h
    obtain ⟨vs, hv, h⟩ := bind_ok h
    obtain ⟨xs, hx, rfl⟩ := map_ok hx'
    cases h
    have hx := writeExpr_bf ctx hscope x xs hx
    have hvs := BF_sepChunks (sep := ", ") (by decide) vs (writeListMP_bf ctx hscope vals vs hv)
    bf_close
  | .index x _ idx _, cs, h => by
    simp only [writeExpr] at h
    obtain ⟨xs', hx', h⟩ := bind_ok h
    obtain ⟨is, hi, h⟩ := bind_ok h
    obtain ⟨xs, hx, rfl⟩ := map_ok hx'
    cases h
    have hx := writeExpr_bf ctx hscope x xs hx
    have hi := writeExpr_bf ctx hscope idx is hi
    bf_close
  | .call fn _ args _, cs, h => by
    simp only [writeExpr] at h
    cases hk : knownFunction fn.name with
    | some wf =>
      obtain ⟨writer, flag⟩ := wf
      rw [hk] at h
      dsimp only at h
      split at h
      · cases h
      · obtain ⟨as, has, h⟩ := bind_ok h
        have hall := writeList_bf ctx hscope args as has
        exact assembleKnown_bf (known_mem hk) (args.toList.zip as)
          (fun a ha => hall a.2 (List.of_mem_zip (a := a.1) (b := a.2) ha).2) cs h
    | none =>
      rw [hk] at h
      dsimp only at h
      obtain ⟨as, has, h⟩ := bind_ok h
      cases h
      have has' := BF_sepChunks (sep := ", ") (by decide) as (writeList_bf ctx hscope args as has)
      have hf : bangFree (.fname fn.name) = true := rfl
      bf_close

theorem writeList_bf (ctx : Ctx) (hscope : ScopeBF ctx.scope) :
    (es : ExprList) → (as : List (List Chunk)) → writeList ctx es = .ok as → ∀ b ∈ as, BF b = true
  | .nil, as, h => by
    simp only [writeList] at h; cases h; simp
  | .cons e es, as, h => by
    simp only [writeList] at h
    obtain ⟨x, hx, h⟩ := bind_ok h
    obtain ⟨xs, hxs, h⟩ := bind_ok h
    cases h
    intro b hb
    rcases List.mem_cons.mp hb with rfl | hb
    · exact writeExpr_bf ctx hscope e _ hx
    · exact writeList_bf ctx hscope es xs hxs b hb

theorem writeListMP_bf (ctx : Ctx) (hscope : ScopeBF ctx.scope) :
    (es : ExprList) → (vs : List (List Chunk)) → writeListMaybeParen' ctx es = .ok vs → ∀ b ∈ vs, BF b = true
  | .nil, vs, h => by
    simp only [writeListMaybeParen'] at h; cases h; simp
  | .cons e es, vs, h => by
    simp only [writeListMaybeParen'] at h
    obtain ⟨x', hx', h⟩ := bind_ok h
    obtain ⟨xs, hxs, h⟩ := bind_ok h
    obtain ⟨x, hx, rfl⟩ := map_ok hx'
    cases h
    intro b hb
    rcases List.mem_cons.mp hb with rfl | hb
    · rw [BF_wrapMaybe]; exact writeExpr_bf ctx hscope e _ hx
    · exact writeListMP_bf ctx hscope es xs hxs b hb

end

end Pql.E2EFinal
