/-
LexRender for whole statements (C05, lexical half), part 1: the side condition on trees
(`Tabular.lexOK`: every expression occurring in an operator is `Expr.lexOK`), combinators for
`Good` chunk lists (adjacent before every separator or the end of the text), and the column /
sort-term writers.
-/
import PqlModel.Lemmas.LexStmtScope
import PqlModel.Lemmas.ScopeWriteSub
namespace Pql
open Sql

/-- a project column: the expression may be absent (`project a`), see `Subquery.write` -/
def Column.projOK (c : Column) : Bool :=
  match c.x with
  | .nil => true
  | x => x.lexOK

mutual
/-- every expression that occurs in an operator of the pipeline (recursively in the right-hand
    sides of joins) is `Expr.lexOK`; names, strings and render values are unconstrained -/
def Tabular.lexOK : Tabular → Bool
  | .nil => true
  | .mk _ ops => ops.lexOK
def Op.lexOK : Op → Bool
  | .count .. => true
  | .where_ _ _ pred => pred.lexOK
  | .sort _ _ terms => terms.all fun t => t.x.lexOK
  | .take _ _ n => n.lexOK
  | .top _ _ n _ col => n.lexOK && (match col with | some t => t.x.lexOK | none => true)
  | .project _ _ cols => cols.all Column.projOK
  | .extend _ _ cols => cols.all fun c => c.x.lexOK
  | .summarize _ _ cols _ groupBy => (cols.all fun c => c.x.lexOK) && (groupBy.all fun c => c.x.lexOK)
  | .join _ _ _ _ _ _ right _ _ conds => right.lexOK && conds.lexOK
  | .as_ .. => true
  | .render .. => true
def OpList.lexOK : OpList → Bool
  | .nil => true
  | .cons o os => o.lexOK && os.lexOK
end

end Pql

namespace Pql.C05
open Pql Sql LexRender

/-! ### `Good` combinators -/

/-- the chunk list is empty or starts with a fixed text that starts like a separator -/
def SepLed (b : List Chunk) : Prop := b = [] ∨ ∃ s tail, b = .txt s :: tail ∧ sepTxt s = true

theorem sepLed_nil : SepLed [] := Or.inl rfl
theorem sepLed_txt {s : String} (tail : List Chunk) (h : sepTxt s = true) : SepLed (.txt s :: tail) :=
  Or.inr ⟨s, tail, rfl, h⟩

theorem sepLed_head {b : List Chunk} (hb : SepLed b) {rest : Bytes} (hr : sepHead rest.head? = true) :
    sepHead (renderChunks b ++ rest).head? = true := by
  rcases hb with rfl | ⟨s, tail, rfl, hs⟩
  · simpa [renderChunks] using hr
  · exact head_txt_cons tail rest hs

theorem good_append {a b : List Chunk} (ha : Good a) (hl : SepLed b) (hb : Good b) : Good (a ++ b) :=
  fun rest hr => AdjC_append (ha _ (sepLed_head hl hr)) (hb rest hr)

theorem good_cons_inert {s : String} {cs : List Chunk} (hs : txtInert s = true) (h : Good cs) :
    Good (.txt s :: cs) := fun rest hr => adj_txt_inert hs (h rest hr)

/-- a text that tolerates separators, before a list that starts like one -/
theorem good_cons_sep {s : String} {cs : List Chunk} (hs : txtSepOK s = true) (hl : SepLed cs) (h : Good cs) :
    Good (.txt s :: cs) := fun rest hr => AdjC_cons (adj_txt_sep hs (sepLed_head hl hr)) (h rest hr)

theorem good_append3 {a b c : List Chunk} (ha : Good a) (hlb : SepLed b) (hb : Good b) (hlc : SepLed c)
    (hc : Good c) : Good (a ++ b ++ c) := by
  intro rest hr
  rw [List.append_assoc]
  refine AdjC_append (ha _ ?_) (good_append hb hlc hc rest hr)
  rcases hlb with rfl | ⟨s, tail, rfl, hs⟩
  · simpa using sepLed_head hlc hr
  · exact head_txt_cons _ rest hs

/-- `, c₁, c₂ …` followed by a list that starts like a separator -/
theorem good_commaList {tail : List Chunk} (hl : SepLed tail) (ht : Good tail) :
    ∀ (cs : List (List Chunk)), (∀ c ∈ cs, Good c) →
      Good ((cs.flatMap fun c => Chunk.txt ", " :: c) ++ tail) ∧
      SepLed ((cs.flatMap fun c => Chunk.txt ", " :: c) ++ tail)
  | [], _ => ⟨by simpa using ht, by simpa using hl⟩
  | c :: cs, h => by
    have ih := good_commaList hl ht cs (fun x hx => h x (List.mem_cons_of_mem _ hx))
    simp only [List.flatMap_cons, List.cons_append, List.append_assoc]
    exact ⟨good_cons_inert (by decide) (good_append (h c List.mem_cons_self) ih.2 ih.1),
      sepLed_txt _ (by decide)⟩

theorem good_commaSep (vs : List (List Chunk)) (h : ∀ v ∈ vs, Good v) : Good (sepChunks ", " vs) :=
  good_sepChunks (by decide) (by decide) vs h

/-! ### monadic plumbing -/

theorem mapM_forall {α β : Type} {P : β → Prop} {f : α → Except WErr β} :
    ∀ (l : List α), (∀ a ∈ l, ∀ b, f a = .ok b → P b) → ∀ bs, l.mapM f = .ok bs → ∀ b ∈ bs, P b
  | [], _, bs, h => by
    rw [List.mapM_nil] at h; cases h; simp
  | a :: l, hf, bs, h => by
    rw [List.mapM_cons] at h
    obtain ⟨b, hb, h⟩ := bind_ok h
    obtain ⟨bs', hbs, h⟩ := bind_ok h
    cases h
    intro x hx
    rcases List.mem_cons.mp hx with rfl | hx
    · exact hf a List.mem_cons_self _ hb
    · exact mapM_forall l (fun a' ha' => hf a' (List.mem_cons_of_mem _ ha')) bs' hbs x hx

theorem lexOK_qident (parts : List Ident) : (Expr.qident parts).lexOK = true := by
  simp [Expr.lexOK]

/-! ### columns and sort terms -/

section
variable (ctx : Ctx) (hscope : ScopeAdj ctx.scope)
include hscope

theorem writeExpr_Good {e : Expr} (hok : e.lexOK = true) {cs : List Chunk} (h : writeExpr ctx e = .ok cs) :
    Good cs := (writeExpr_good_scope ctx hscope e hok cs h).1

theorem projCol_good {c : Column} (hc : c.projOK = true) {cs : List Chunk} (h : projCol ctx c = .ok cs) :
    Good cs := by
  unfold projCol at h
  have fin : ∀ {x : List Chunk}, Good x → Good (x ++ [Chunk.txt " AS ", Chunk.qid (identName c.name)]) :=
    fun hxg => good_append hxg (sepLed_txt _ (by decide)) (good_cons_inert (by decide) (good_qid _))
  unfold Column.projOK at hc
  split at h
  · obtain ⟨x, hx, h⟩ := bind_ok h
    cases h
    exact fin (writeExpr_Good ctx hscope (lexOK_qident _) hx)
  · rename_i hne
    obtain ⟨x, hx, h⟩ := bind_ok h
    cases h
    split at hc
    · rename_i heq; exact absurd heq hne
    · exact fin (writeExpr_Good ctx hscope hc hx)

omit hscope in
theorem columnAlias_good {c : Column} {a : List Chunk} (h : columnAlias ctx c = .ok a) :
    Good a ∧ SepLed a := by
  unfold columnAlias at h
  split at h
  · cases h
    exact ⟨good_cons_inert (by decide) (good_qid _), sepLed_txt _ (by decide)⟩
  · obtain ⟨t, _, h⟩ := bind_ok h
    cases h
    exact ⟨good_cons_inert (by decide) (good_qid _), sepLed_txt _ (by decide)⟩

theorem writeColumns_good : ∀ (cols : List Column), (cols.all fun c => c.x.lexOK) = true →
    ∀ cs, writeColumns ctx cols = .ok cs → ∀ c ∈ cs, Good c
  | [], _, cs, h => by
    rw [writeColumns] at h; cases h; simp
  | c :: cols, hok, cs, h => by
    rw [writeColumns] at h
    simp only [List.all_cons, Bool.and_eq_true] at hok
    obtain ⟨x, hx, h⟩ := bind_ok h
    obtain ⟨a, ha, h⟩ := bind_ok h
    obtain ⟨r, hr, h⟩ := bind_ok h
    cases h
    intro y hy
    rcases List.mem_cons.mp hy with rfl | hy
    · have := columnAlias_good ctx ha
      exact good_append (writeExpr_Good ctx hscope hok.1 hx) this.2 this.1
    · exact writeColumns_good cols hok.2 r hr y hy

theorem writeSortTerms_good : ∀ (ts : List SortTerm), (ts.all fun t => t.x.lexOK) = true →
    ∀ cs, writeSortTerms ctx ts = .ok cs → ∀ c ∈ cs, Good c
  | [], _, cs, h => by
    rw [writeSortTerms] at h; cases h; simp
  | t :: ts, hok, cs, h => by
    rw [writeSortTerms] at h
    simp only [List.all_cons, Bool.and_eq_true] at hok
    obtain ⟨x, hx, h⟩ := bind_ok h
    obtain ⟨r, hr, h⟩ := bind_ok h
    cases h
    intro y hy
    rcases List.mem_cons.mp hy with rfl | hy
    · refine good_append (writeExpr_Good ctx hscope hok.1 hx) ?_ ?_
      · cases t.asc <;> exact sepLed_txt _ (by decide)
      · have h2 : Good [Chunk.txt (if t.nullsFirst = true then " NULLS FIRST" else " NULLS LAST")] := by
          cases t.nullsFirst <;> exact good_txt_sep (by decide)
        have l2 : SepLed [Chunk.txt (if t.nullsFirst = true then " NULLS FIRST" else " NULLS LAST")] := by
          cases t.nullsFirst <;> exact sepLed_txt _ (by decide)
        cases t.asc <;> exact good_cons_sep (by decide) l2 h2
    · exact writeSortTerms_good ts hok.2 r hr y hy

theorem groupBy_good (cols : List Column) (hok : (cols.all fun c => c.x.lexOK) = true)
    (gb : List (List Chunk)) (h : cols.mapM (fun (c : Column) => writeExpr ctx c.x) = .ok gb) :
    ∀ g ∈ gb, Good g :=
  mapM_forall cols (fun c hc b hb =>
    writeExpr_Good ctx hscope (by simpa using List.all_eq_true.mp hok c hc) hb) gb h

end

end Pql.C05
