/-
C03 / C02, the general statement theorem, helper 6: one join-free operator of `splitOpsA`
(`JoinSem.stepA`), whatever the block looks like: names, side conditions and meaning (`StepRes`).
-/
import PqlModel.Lemmas.JoinFullSem
namespace Pql.JoinFull
open Pql Sql CompileOracle Intended SplitQ SelSem C02

/-- what one operator does to the block `N` (standing behind `k` earlier links) of `source | …` -/
structure StepRes (src : Bytes) (db : DB) (source : Option Ident) (k : Nat) (N N1 : List SubA) (o : Op) : Prop where
  ne : N1 ≠ []
  names : ∃ extra, N1.map (·.name) = N.map (·.name) ++ extra ∧
      (extra = [] ∨ extra = [subqueryName (k + N.length)] ∨ ∃ p kw nm, o = .as_ p kw nm ∧ extra = [identName nm])
  open_ : openJoinL N1 = false
  ok : (∀ a ∈ N, linkOk a = true) → opOkJ (openJoinL N) o = true → ∀ a ∈ N1, linkOk a = true
  tbl : (∀ a ∈ N, isJoinSrc a.source = false) → ∀ a ∈ N1, isJoinSrc a.source = false
  sem : ∀ E : List (Bytes × Table), FreshNames E (N1.map (·.name)) →
      cur src db E source N1 = Rel.interpOp src db (cur src db E source N) o

theorem mem_snoc_cases {α} {P : α → Prop} {N : List α} {a : α} (hN : ∀ x ∈ N, P x) (ha : P a) :
    ∀ x ∈ N ++ [a], P x := by
  intro x hx
  rcases List.mem_append.mp hx with hx | hx
  · exact hN x hx
  · simp only [List.mem_singleton] at hx; subst hx; exact ha

/-- a new link for the operator `o` -/
theorem push_res (src : Bytes) (db : DB) (source : Option Ident) (pre N : List SubA) (o : Op) (a : SubA)
    (hj : isJoin o = false)
    (hsrc : a.source = (chainA (pre ++ N) pre.length source).source)
    (hname : a.name = subqueryName (pre ++ N).length ∨ ∃ p kw nm, o = .as_ p kw nm ∧ a.name = identName nm)
    (hcl : subClausesA a = opClauses o)
    (hlink : opOk o = true → linkOk a = true) :
    StepRes src db source pre.length N (N ++ [a]) o := by
  have hsrc' : a.source = .table (C05.prevNameA source N) := hsrc.trans (C05.chainA_source pre N source)
  refine ⟨by simp, ?_, ?_, ?_, ?_, ?_⟩
  · refine ⟨[a.name], by simp, ?_⟩
    rcases hname with h | ⟨p, kw, nm, h1, h2⟩
    · right; left; rw [h]; simp
    · right; right; exact ⟨p, kw, nm, h1, by rw [h2]⟩
  · rw [openJoinL_snoc, hsrc']; rfl
  · intro hN ho
    rw [opOkJ_of_not_join _ o hj, Bool.and_eq_true] at ho
    exact mem_snoc_cases hN (hlink ho.1)
  · intro hN
    exact mem_snoc_cases hN (by rw [hsrc']; rfl)
  · intro E hnd
    rw [push_sem src db E source N a hsrc' hnd, subEvalA_of_clauses src db _ a o hj hcl]

theorem attach_linkOk (l l' : SubA) (o : Op) (hj : isJoin o = false)
    (hop : l'.op = l.op) (hsrc : l'.source = l.source) (hcan : canAttachSort l.op = true)
    (hsort : l'.sort = l.sort ∨ (l'.sort = some (sortTermsOf o) ∧ l.sort = none ∧ l.take = none))
    (hl : linkOk l = true) (ho : opOkJ (isJoinSrc l.source && l.sort.isNone && l.take.isNone) o = true) :
    linkOk l' = true := by
  rw [opOkJ_of_not_join _ o hj] at ho
  simp only [linkOk, sortOkA, hop, hsrc, hcan, Bool.or_true, Bool.true_and, Bool.and_eq_true] at hl ⊢
  refine ⟨hl.1, ?_⟩
  cases hjs : isJoinSrc l.source with
  | false => simp
  | true =>
    simp only [hjs, Bool.not_true, Bool.false_or, Bool.and_eq_true] at hl ⊢
    refine ⟨hl.2.1, ?_⟩
    rcases hsort with h | ⟨h1, h2, h3⟩
    · rw [h]; exact hl.2.2
    · rw [h1]
      simp only [hjs, h2, h3, Option.isNone_none, Bool.and_self, Bool.not_true, Bool.false_or, Bool.and_eq_true] at ho
      exact ho.2

/-- ORDER BY / LIMIT of the operator `o` attached to the last link -/
theorem attach_res (src : Bytes) (db : DB) (source : Option Ident) (k : Nat) (N0 : List SubA) (l l' : SubA) (o : Op)
    (hj : isJoin o = false)
    (hname : l'.name = l.name) (hsrc : l'.source = l.source) (hop : l'.op = l.op)
    (hcl : subClausesA l' = subClausesA l ++ opClauses o)
    (hset : (l'.sort.isNone && l'.take.isNone) = false)
    (hcan : canAttachSort l.op = true)
    (hsort : l'.sort = l.sort ∨ (l'.sort = some (sortTermsOf o) ∧ l.sort = none ∧ l.take = none)) :
    StepRes src db source k (N0 ++ [l]) (N0 ++ [l']) o := by
  refine ⟨by simp, ⟨[], by simp [hname], .inl rfl⟩, ?_, ?_, ?_, ?_⟩
  · rw [openJoinL_snoc, Bool.and_assoc, hset, Bool.and_false]
  · intro hN ho
    rw [openJoinL_snoc] at ho
    exact mem_snoc_cases (fun x hx => hN x (List.mem_append_left _ hx))
      (attach_linkOk l l' o hj hop hsrc hcan hsort (hN l (by simp)) ho)
  · intro hN
    exact mem_snoc_cases (fun x hx => hN x (List.mem_append_left _ hx)) (by rw [hsrc]; exact hN l (by simp))
  · intro E hnd
    have hnd' : FreshNames E ((N0 ++ [l]).map (·.name)) := by
      simpa only [List.map_append, List.map_cons, List.map_nil, hname] using hnd
    rw [attach_sem src db E source N0 l l' (opClauses o) hname hsrc hcl hnd', ← interpOp_eq_clauses src db _ o hj]

/-- sort / take / top: attach to the last link of the block when `can` allows, else chain a new link -/
theorem attachOr_cases' (source : Option Ident) (pre N : List SubA) (can : SubA → Bool) (f : SubA → SubA)
    (d : List SubA)
    (hd : d = setLastA
        (if (match lastOfA (pre ++ N) pre.length with | some l => can l | none => false) = true
          then pre ++ N else pre ++ N ++ [chainA (pre ++ N) pre.length source]) f) :
    d = pre ++ (N ++ [f (chainA (pre ++ N) pre.length source)]) ∨
    ∃ N0 l, N = N0 ++ [l] ∧ can l = true ∧ d = pre ++ (N0 ++ [f l]) := by
  have hchain : setLastA (pre ++ N ++ [chainA (pre ++ N) pre.length source]) f =
      pre ++ (N ++ [f (chainA (pre ++ N) pre.length source)]) := by
    rw [C05.setLastA_snoc]; simp
  rcases C05.lastOfA_cases (pre ++ N) pre.length with ⟨init, l, hl, hdst, hk⟩ | hl
  · rw [hl] at hd
    by_cases hg : can l = true
    · simp only [hg, ↓reduceIte] at hd
      obtain ⟨N0, rfl, rfl⟩ := C05.split_lastA hdst.symm hk
      right
      refine ⟨N0, l, rfl, hg, ?_⟩
      rw [hd, ← List.append_assoc, C05.setLastA_snoc]; simp
    · simp only [hg, Bool.false_eq_true, ↓reduceIte] at hd
      left; rw [hd, hchain]
  · rw [hl] at hd
    simp only [Bool.false_eq_true, ↓reduceIte] at hd
    left; rw [hd, hchain]

theorem chainA_fields' (dst : List SubA) (k : Nat) (source : Option Ident) :
    (chainA dst k source).op = none ∧ (chainA dst k source).sort = none ∧ (chainA dst k source).take = none ∧
    (chainA dst k source).name = subqueryName dst.length := ⟨rfl, rfl, rfl, rfl⟩

theorem linkOk_fresh (a : SubA) (hop : a.op = none) (hs : ∃ n, a.source = .table n) : linkOk a = true := by
  obtain ⟨n, hs⟩ := hs
  simp [linkOk, sortOkA, hop, hs, isJoinSrc, canAttachSort]

theorem linkOk_op_link (a : SubA) (o : Op) (hop : a.op = some o) (hsort : a.sort = none) (hs : ∃ n, a.source = .table n)
    (hj : isJoin o = false) (ho : opOk o = true) : linkOk a = true := by
  obtain ⟨n, hs⟩ := hs
  simp [linkOk, sortOkA, hop, hs, isJoinSrc, hsort, hj, ho]

/-- the generic sort / take / top step -/
theorem attach_step (src : Bytes) (db : DB) (source : Option Ident) (pre N d : List SubA) (o : Op)
    (can : SubA → Bool) (f : SubA → SubA) (hj : isJoin o = false)
    (hd : d = setLastA
        (if (match lastOfA (pre ++ N) pre.length with | some l => can l | none => false) = true
          then pre ++ N else pre ++ N ++ [chainA (pre ++ N) pre.length source]) f)
    (hf : ∀ s, (f s).name = s.name ∧ (f s).source = s.source ∧ (f s).op = s.op)
    (hfresh : ∀ s : SubA, s.op = none → s.sort = none → s.take = none → subClausesA (f s) = opClauses o)
    (hcl : ∀ s, can s = true → subClausesA (f s) = subClausesA s ++ opClauses o)
    (hset : ∀ s, ((f s).sort.isNone && (f s).take.isNone) = false)
    (hcan : ∀ s, can s = true → canAttachSort s.op = true)
    (hsort : ∀ s, can s = true →
      (f s).sort = s.sort ∨ ((f s).sort = some (sortTermsOf o) ∧ s.sort = none ∧ s.take = none)) :
    ∃ N1, d = pre ++ N1 ∧ StepRes src db source pre.length N N1 o := by
  rcases attachOr_cases' source pre N can f d hd with h | ⟨N0, l, rfl, hc, h⟩
  · refine ⟨_, h, ?_⟩
    obtain ⟨c1, c2, c3, c4⟩ := chainA_fields' (pre ++ N) pre.length source
    apply push_res src db source pre N o _ hj
    · exact (hf _).2.1
    · left; rw [(hf _).1, c4]
    · exact hfresh _ c1 c2 c3
    · intro _
      apply linkOk_fresh
      · rw [(hf _).2.2, c1]
      · exact ⟨_, (hf _).2.1.trans (C05.chainA_source pre N source)⟩
  · exact ⟨_, h, attach_res src db source pre.length N0 l (f l) o hj (hf l).1 (hf l).2.1 (hf l).2.2 (hcl l hc)
      (hset l) (hcan l hc) (hsort l hc)⟩

/-- **one join-free operator** -/
theorem step_res (src : Bytes) (db : DB) (source : Option Ident) (pre N d : List SubA) (o : Op)
    (hj : isJoin o = false) (h : JoinSem.stepA source pre.length (pre ++ N) o = some d) :
    ∃ N1, d = pre ++ N1 ∧ StepRes src db source pre.length N N1 o := by
  have plain : ∀ (a : SubA), d = pre ++ N ++ [a] →
      a.source = (chainA (pre ++ N) pre.length source).source →
      (a.name = subqueryName (pre ++ N).length ∨ ∃ p kw nm, o = .as_ p kw nm ∧ a.name = identName nm) →
      a.op = some o → a.sort = none → a.take = none → opClauses o = [.op o] →
      ∃ N1, d = pre ++ N1 ∧ StepRes src db source pre.length N N1 o := by
    intro a hd h1 h2 h3 h4 h5 h6
    refine ⟨N ++ [a], by rw [hd, List.append_assoc], ?_⟩
    apply push_res src db source pre N o a hj h1 h2
    · simp [subClausesA, opPartA, sortTakeA, h3, h4, h5, h6]
    · intro ho
      exact linkOk_op_link a o h3 h4 ⟨_, h1.trans (C05.chainA_source pre N source)⟩ hj ho
  cases o with
  | join => simp [isJoin] at hj
  | count p kw =>
    simp only [JoinSem.stepA, Option.some.injEq] at h
    exact plain _ h.symm rfl (.inl rfl) rfl rfl rfl rfl
  | where_ p kw e =>
    simp only [JoinSem.stepA, Option.some.injEq] at h
    exact plain _ h.symm rfl (.inl rfl) rfl rfl rfl rfl
  | project p kw cs =>
    simp only [JoinSem.stepA, Option.some.injEq] at h
    exact plain _ h.symm rfl (.inl rfl) rfl rfl rfl rfl
  | extend p kw cs =>
    simp only [JoinSem.stepA, Option.some.injEq] at h
    exact plain _ h.symm rfl (.inl rfl) rfl rfl rfl rfl
  | summarize p kw cs b gs =>
    simp only [JoinSem.stepA, Option.some.injEq] at h
    exact plain _ h.symm rfl (.inl rfl) rfl rfl rfl rfl
  | render p kw ch w lp props rp =>
    simp only [JoinSem.stepA, Option.some.injEq] at h
    exact plain _ h.symm rfl (.inl rfl) rfl rfl rfl rfl
  | as_ p kw name =>
    simp only [JoinSem.stepA, Option.some.injEq] at h
    exact plain _ h.symm rfl (.inr ⟨p, kw, name, rfl, rfl⟩) rfl rfl rfl rfl
  | sort p kw terms =>
    simp only [JoinSem.stepA, Option.some.injEq] at h
    apply attach_step src db source pre N d _ (fun l => canAttachSort l.op && l.sort.isNone && l.take.isNone)
      (fun s => { s with sort := some terms }) hj h.symm (fun s => ⟨rfl, rfl, rfl⟩)
    · intro s h1 h2 h3; simp [subClausesA, opPartA, sortTakeA, h1, h3, opClauses]
    · intro s hs
      simp only [Bool.and_eq_true, Option.isNone_iff_eq_none] at hs
      simp [subClausesA, sortTakeA, hs.1.2, hs.2, opClauses, opPartA]
    · intro s; simp
    · intro s hs
      simp only [Bool.and_eq_true] at hs
      exact hs.1.1
    · intro s hs
      simp only [Bool.and_eq_true, Option.isNone_iff_eq_none] at hs
      exact .inr ⟨rfl, hs.1.2, hs.2⟩
  | take p kw n =>
    simp only [JoinSem.stepA, Option.some.injEq] at h
    apply attach_step src db source pre N d _ (fun l => canAttachSort l.op && l.take.isNone)
      (fun s => { s with take := some n }) hj h.symm (fun s => ⟨rfl, rfl, rfl⟩)
    · intro s h1 h2 h3; simp [subClausesA, opPartA, sortTakeA, h1, h2, opClauses]
    · intro s hs
      simp only [Bool.and_eq_true, Option.isNone_iff_eq_none] at hs
      simp [subClausesA, sortTakeA, hs.2, opClauses, opPartA]
    · intro s; simp
    · intro s hs
      simp only [Bool.and_eq_true] at hs
      exact hs.1
    · intro s hs
      exact .inl rfl
  | top p kw n b col =>
    cases col with
    | none => simp [JoinSem.stepA] at h
    | some c =>
      simp only [JoinSem.stepA, Option.some.injEq] at h
      apply attach_step src db source pre N d _ (fun l => canAttachSort l.op && l.sort.isNone && l.take.isNone)
        (fun s => { s with sort := some [c], take := some n }) hj h.symm (fun s => ⟨rfl, rfl, rfl⟩)
      · intro s h1 h2 h3; simp [subClausesA, opPartA, sortTakeA, h1, opClauses]
      · intro s hs
        simp only [Bool.and_eq_true, Option.isNone_iff_eq_none] at hs
        simp [subClausesA, sortTakeA, hs.1.2, hs.2, opClauses, opPartA]
      · intro s; simp
      · intro s hs
        simp only [Bool.and_eq_true] at hs
        exact hs.1.1
      · intro s hs
        simp only [Bool.and_eq_true, Option.isNone_iff_eq_none] at hs
        exact .inr ⟨rfl, hs.1.2, hs.2⟩

end Pql.JoinFull
