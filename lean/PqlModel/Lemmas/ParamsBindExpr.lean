/-
Parameters, part 2: the expression writer commutes with filling holes (`bindRaw`).
-/
import PqlModel.Lemmas.ParamsBind
namespace Pql.Params
open Pql

theorem exmap_map {α β γ : Type} (f : α → β) (g : β → γ) (r : Except WErr α) :
    (r.map f).map g = r.map (g ∘ f) := by cases r <;> rfl

theorem apply_ite_exmap {α β : Type} (f : α → β) (c : Prop) [Decidable c] (a b : Except WErr α) :
    Except.map f (if c then a else b) = if c then Except.map f a else Except.map f b := by
  split <;> rfl

section
variable (σ : Bytes → List Chunk) (src : Bytes) (m : Mode)

theorem writeQident_bind (sc : Scope) (parts : List Ident) :
    writeExpr ⟨src, bindScope σ sc, m⟩ (.qident parts) = (writeExpr ⟨src, sc, m⟩ (.qident parts)).map (bindRaw σ) := by
  have hsep : ∀ ps : List Ident, bindRaw σ (sepChunks "." (ps.map fun p => [Chunk.qid p.name])) =
      sepChunks "." (ps.map fun p => [Chunk.qid p.name]) := by
    intro ps
    rw [sepChunks_bind, List.map_map]
    rfl
  rcases parts with _ | ⟨p, _ | ⟨q, ps⟩⟩
  · simp only [writeExpr]
    by_cases hm : m = .let_ <;> simp [hm, exmap_ok, exmap_error, sepChunks]
  · simp only [writeExpr, lookupScope_bind]
    cases hq : p.quoted
    · simp only [Bool.not_false, if_true]
      cases lookupScope sc p.name with
      | some sql => rfl
      | none =>
        simp only [Option.map_none]
        cases builtinIdent p.name with
        | some sql => rfl
        | none =>
          by_cases hm : m = .let_
          · simp [hm, exmap_error]
          · simp only [hm, if_false]
            rw [apply_ite_exmap, exmap_ok, exmap_error, hsep [p]]
    · simp only [Bool.not_true, Bool.false_eq_true, if_false]
      by_cases hm : m = .let_
      · simp [hm, exmap_error]
      · simp only [hm, if_false]
        rw [apply_ite_exmap, exmap_ok, exmap_error, hsep [p]]
  · simp only [writeExpr]
    by_cases hm : m = .let_
    · simp [hm, exmap_error]
    · simp only [hm, if_false]
      rw [apply_ite_exmap, exmap_ok, exmap_error, hsep (p :: q :: ps)]

end

mutual
theorem writeExpr_bind (σ : Bytes → List Chunk) (src : Bytes) (m : Mode) (sc : Scope) :
    (e : Expr) → writeExpr ⟨src, bindScope σ sc, m⟩ e = (writeExpr ⟨src, sc, m⟩ e).map (bindRaw σ)
  | .paren _ x _ => by
    simp only [writeExpr]
    exact writeExpr_bind σ src m sc x
  | .qident parts => writeQident_bind σ src m sc parts
  | .lit _ k v => by
    simp only [writeExpr]
    by_cases h1 : k = .number
    · simp [h1, exmap_ok]
    · by_cases h2 : k = .string <;> simp [h1, h2, exmap_ok]
  | .nil => by simp [writeExpr, exmap_ok]
  | .unary _ op x => by
    simp only [writeExpr, writeExpr_bind σ src m sc x]
    cases writeExpr ⟨src, sc, m⟩ x <;>
      simp [Except.map, bind, Except.bind, pure, Except.pure]
  | .binary x _ op y => by
    simp only [writeExpr, writeExpr_bind σ src m sc x, writeExpr_bind σ src m sc y]
    cases writeExpr ⟨src, sc, m⟩ x <;> cases writeExpr ⟨src, sc, m⟩ y <;>
      (repeat' split) <;> simp [Except.map, bind, Except.bind, pure, Except.pure]
  | .inE x _ _ vals _ => by
    simp only [writeExpr, writeExpr_bind σ src m sc x, writeListMP_bind σ src m sc vals]
    cases writeExpr ⟨src, sc, m⟩ x <;> cases writeListMaybeParen' ⟨src, sc, m⟩ vals <;>
      simp [Except.map, bind, Except.bind, pure, Except.pure, sepChunks_bind]
  | .index x _ idx _ => by
    simp only [writeExpr, writeExpr_bind σ src m sc x, writeExpr_bind σ src m sc idx]
    cases writeExpr ⟨src, sc, m⟩ x <;> cases writeExpr ⟨src, sc, m⟩ idx <;>
      simp [Except.map, bind, Except.bind, pure, Except.pure]
  | .call fn _ args _ => by
    simp only [writeExpr, writeList_bind σ src m sc args]
    cases knownFunction fn.name with
    | none =>
      cases writeList ⟨src, sc, m⟩ args <;>
        simp [Except.map, bind, Except.bind, pure, Except.pure, sepChunks_bind]
    | some wb =>
      obtain ⟨writer, b⟩ := wb
      simp only
      by_cases ha : arityRejects writer args.length = true
      · simp [ha, exmap_error]
      · simp only [ha, Bool.false_eq_true, if_false]
        cases writeList ⟨src, sc, m⟩ args with
        | error e => rfl
        | ok as =>
          simp only [exmap_ok, bind, Except.bind, List.zip_map_right]
          exact assembleKnown_bind σ writer _

theorem writeList_bind (σ : Bytes → List Chunk) (src : Bytes) (m : Mode) (sc : Scope) :
    (es : ExprList) → writeList ⟨src, bindScope σ sc, m⟩ es = (writeList ⟨src, sc, m⟩ es).map (List.map (bindRaw σ))
  | .nil => by simp [writeList, exmap_ok]
  | .cons e es => by
    simp only [writeList, writeExpr_bind σ src m sc e, writeList_bind σ src m sc es]
    cases writeExpr ⟨src, sc, m⟩ e <;> cases writeList ⟨src, sc, m⟩ es <;>
      simp [Except.map, bind, Except.bind, pure, Except.pure]

theorem writeListMP_bind (σ : Bytes → List Chunk) (src : Bytes) (m : Mode) (sc : Scope) :
    (es : ExprList) →
      writeListMaybeParen' ⟨src, bindScope σ sc, m⟩ es = (writeListMaybeParen' ⟨src, sc, m⟩ es).map (List.map (bindRaw σ))
  | .nil => by simp [writeListMaybeParen', exmap_ok]
  | .cons e es => by
    simp only [writeListMaybeParen', writeExpr_bind σ src m sc e, writeListMP_bind σ src m sc es]
    cases writeExpr ⟨src, sc, m⟩ e <;> cases writeListMaybeParen' ⟨src, sc, m⟩ es <;>
      simp [Except.map, bind, Except.bind, pure, Except.pure]
end

end Pql.Params
