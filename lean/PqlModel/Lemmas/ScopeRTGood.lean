/-
Scoped ParseRoundtrip (task R5), part 1: the invariant `GoodS ctx env e` — `Good` of
Lemmas/SqlRoundtripGood.lean with the intended translation taken of `substExpr env e` (the tree in
which the let-bound names are replaced by their values) while the writer runs on `e` itself under
the scope `ctx.scope`.  The combinators are the ones of SqlRoundtripGood / -Cases / -Calls, ported.
-/
import PqlModel.Lemmas.SqlRoundtripCalls
import PqlModel.Lemmas.ScopeLets
namespace Pql.RT
open Pql Sql CompileOracle

def GoodS (ctx : Ctx) (env : List (Bytes × Expr)) (e : Expr) : Prop :=
  ∀ cs want, writeExpr ctx e = .ok cs → tr (ctx.mode == .join) (substExpr env e) = some want →
    ExprP (toksOf cs) want ∧
    (needsWrap e = false → UnitP (toksOf cs) want) ∧
    (needsWrap e = false → isSigned e = false → AtomP (toksOf cs) want)

theorem GoodS.ofExpr {ctx : Ctx} {env : List (Bytes × Expr)} {e : Expr} (hw : needsWrap e = true)
    (h : ∀ cs want, writeExpr ctx e = .ok cs → tr (ctx.mode == .join) (substExpr env e) = some want → ExprP (toksOf cs) want) :
    GoodS ctx env e := by
  intro cs want h1 h2
  refine ⟨h cs want h1 h2, ?_, ?_⟩
  · intro h'; rw [hw] at h'; cases h'
  · intro h'; rw [hw] at h'; cases h'


theorem GoodS.ofUnit {ctx : Ctx} {env : List (Bytes × Expr)} {e : Expr} (hs : isSigned e = true)
    (h : ∀ cs want, writeExpr ctx e = .ok cs → tr (ctx.mode == .join) (substExpr env e) = some want → UnitP (toksOf cs) want) :
    GoodS ctx env e := by
  intro cs want h1 h2
  refine ⟨(h cs want h1 h2).toExpr, fun _ => h cs want h1 h2, ?_⟩
  intro _ h'; rw [hs] at h'; cases h'


theorem GoodS.ofAtom {ctx : Ctx} {env : List (Bytes × Expr)} {e : Expr}
    (h : ∀ cs want, writeExpr ctx e = .ok cs → tr (ctx.mode == .join) (substExpr env e) = some want → AtomP (toksOf cs) want) :
    GoodS ctx env e := fun cs want h1 h2 =>
  ⟨(h cs want h1 h2).toExpr, fun _ => (h cs want h1 h2).toUnit, fun _ _ => h cs want h1 h2⟩

theorem toksOf_paren' (body : List Chunk) : toksOf (parenthesise body) = S "(" :: (toksOf body ++ [S ")"]) := by
  simp [parenthesise]

/-- an operand written by `writeExpressionMaybeParen` is a unit -/
theorem GoodS.unit {ctx : Ctx} {env : List (Bytes × Expr)} {x : Expr} (g : GoodS ctx env x) {body : List Chunk} {w : SExpr}
    (h1 : writeExpr ctx x = .ok body) (h2 : tr (ctx.mode == .join) (substExpr env x) = some w) :
    UnitP (toksOf (wrapMaybe x body)) w := by
  obtain ⟨he, hu, _⟩ := g body w h1 h2
  unfold wrapMaybe
  cases hn : needsWrap x with
  | true => simp only [if_true, toksOf_paren']; exact he.paren.toUnit
  | false => simpa using hu hn

/-- an operand written by `writeExpressionTight` is an atom -/
theorem GoodS.tight {ctx : Ctx} {env : List (Bytes × Expr)} {x : Expr} (g : GoodS ctx env x) {body : List Chunk} {w : SExpr}
    (h1 : writeExpr ctx x = .ok body) (h2 : tr (ctx.mode == .join) (substExpr env x) = some w) :
    AtomP (toksOf (wrapTight x body)) w := by
  obtain ⟨he, _, ha⟩ := g body w h1 h2
  unfold wrapTight wrapMaybe
  cases hs : isSigned x with
  | true => simp only [if_true, toksOf_paren']; exact he.paren
  | false =>
    cases hn : needsWrap x with
    | true => simp only [Bool.false_eq_true, if_false, if_true, toksOf_paren']; exact he.paren
    | false => simpa using ha hn hs

theorem GoodS.expr {ctx : Ctx} {env : List (Bytes × Expr)} {x : Expr} (g : GoodS ctx env x) {body : List Chunk} {w : SExpr}
    (h1 : writeExpr ctx x = .ok body) (h2 : tr (ctx.mode == .join) (substExpr env x) = some w) : ExprP (toksOf body) w :=
  (g body w h1 h2).1

/-! ### parentheses, literals -/

theorem goodS_paren {ctx : Ctx} {env : List (Bytes × Expr)} {x : Expr} (a b : Span) (g : GoodS ctx env x) : GoodS ctx env (.paren a x b) := by
  intro cs want h1 h2
  simp only [writeExpr] at h1
  simp only [substExpr, tr] at h2
  simp only [needsWrap, isSigned]
  exact g cs want h1 h2

theorem goodS_lit {ctx : Ctx} {env : List (Bytes × Expr)} (sp : Span) (k : TokKind) (v : Bytes) (hok : (Expr.lit sp k v).lexOK = true) :
    GoodS ctx env (.lit sp k v) := by
  apply GoodS.ofAtom
  intro cs want h1 h2
  simp only [Expr.lexOK] at hok
  by_cases hk : k = .number
  · simp only [writeExpr, hk, if_true, Except.ok.injEq] at h1
    simp only [substExpr, tr, hk, if_true, Option.some.injEq] at h2
    subst h1 h2
    simpa using numP v
  · simp only [hk, if_false, decide_eq_true_eq] at hok
    subst hok
    simp only [writeExpr, reduceCtorEq, if_false, if_true, Except.ok.injEq] at h1
    simp only [substExpr, tr, reduceCtorEq, if_false, if_true, Option.some.injEq] at h2
    subst h1 h2
    simpa using strP v

end Pql.RT
