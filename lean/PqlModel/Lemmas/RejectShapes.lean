/-
C08, second sentence — part 6: three shapes that `Grammar.accounts` cannot exclude by token classes
alone (`join` without `on`, `f(,)`, `in ()`), by running the parser model on the shape with
arbitrary identifiers, spellings of the names and positions.
-/
import PqlModel.Lemmas.PiecewiseStmts
import PqlModel.Lemmas.RejectCl
namespace Pql.Reject
open Pql

/-- a source without semicolon tokens whose only statement piece is reported is rejected -/
theorem rejected_of_pStatement (src : Bytes) (h : ∀ t ∈ scan src, t.kind ≠ .semi)
    (he : (pStatement ⟨src.length⟩ (scan src)).2.1 ≠ []) : (parse src).2 ≠ [] := by
  rw [Piecewise.parse_nosemi_snd src h]; exact he

/-- `T | join (U)` — no `on` -/
theorem join_without_on (c : PCtx) (T pp jn lp U rp : Token)
    (hT : T.kind = .ident) (hpp : pp.kind = .pipe) (hjn : jn.kind = .ident) (hjv : jn.value = b "join")
    (hlp : lp.kind = .lparen) (hU : U.kind = .ident) (hrp : rp.kind = .rparen) :
    (pStatement c [T, pp, jn, lp, U, rp]).2.1 ≠ [] := by
  by_cases hl : T.value = Bytes.ofString "let"
  · simp +decide [pStatement, pLet, pIdent, hT, hpp, isIdentNamed, hl, isNF, mkOpaque, nfAt]
  · simp +decide [pStatement, pLet, fuelFor, pTabular, pIdent, hT, pOps, hpp, split, splitAux, hjn, hlp, hU,
      hrp, pOperator, hjv, pJoin, isIdentNamed, b, hl, isNF, nfAt, mkOpaque, endSplit, errAt]

/-- `T | where f(,)` — a comma without an argument -/
theorem call_only_comma (c : PCtx) (T pp wh f lp cm rp : Token)
    (hT : T.kind = .ident) (hpp : pp.kind = .pipe) (hwh : wh.kind = .ident) (hwv : wh.value = b "where")
    (hf : f.kind = .ident) (hlp : lp.kind = .lparen) (hcm : cm.kind = .comma) (hrp : rp.kind = .rparen) :
    (pStatement c [T, pp, wh, f, lp, cm, rp]).2.1 ≠ [] := by
  by_cases hl : T.value = Bytes.ofString "let"
  · simp +decide [pStatement, pLet, pIdent, hT, hpp, isIdentNamed, hl, isNF, mkOpaque, nfAt]
  · simp +decide [pStatement, pLet, fuelFor, pTabular, pIdent, hT, pOps, hpp, split, splitAux, hwh, hlp, hf,
      hcm, hrp, pOperator, hwv, pExpr, pUnary, pPrimary, pInner, pQualifiedIdent, pQualTail, pExprList, pTrail,
      isIdentNamed, b, hl, isNF, nfAt, mkOpaque, endSplit, errAt]

/-- `T | where a in ()` — an empty value list -/
theorem in_empty_list (c : PCtx) (T pp wh a i lp rp : Token)
    (hT : T.kind = .ident) (hpp : pp.kind = .pipe) (hwh : wh.kind = .ident) (hwv : wh.value = b "where")
    (ha : a.kind = .ident) (hi : i.kind = .in_) (hlp : lp.kind = .lparen) (hrp : rp.kind = .rparen) :
    (pStatement c [T, pp, wh, a, i, lp, rp]).2.1 ≠ [] := by
  by_cases hl : T.value = Bytes.ofString "let"
  · simp +decide [pStatement, pLet, pIdent, hT, hpp, isIdentNamed, hl, isNF, mkOpaque, nfAt]
  · simp +decide [pStatement, pLet, fuelFor, pTabular, pIdent, hT, pOps, hpp, split, splitAux, hwh, hlp, ha,
      hi, hrp, pOperator, hwv, pExpr, pUnary, pPrimary, pInner, pQualifiedIdent, pQualTail, pExprList, pTrail,
      precOf, isIdentNamed, b, hl, isNF, nfAt, mkOpaque, endSplit]

end Pql.Reject
