/-
`SplitIR.Steps`: every case of the type switch in the loop of `splitQueries` except the join case,
and the statements before and after the loop: executing the regenerated unit on the frame of an
activation is the corresponding statement group of the hand-written machine
(`SplitImp.stepI`, `SplitImp.finishI`).
-/
import PqlModel.Lemmas.SplitIRBasic
namespace Pql.SplitIR
open Pql
set_option linter.unusedSimpArgs false

/-- the variables of an activation of `splitQueries` once the statements before the loop have run:
    the machine's state `st` (heap apart) and the variables that are never assigned again -/
def frameVars (src : Bytes) (scope : List (Bytes × List Chunk)) (source : Option Ident) (ops : OpList) (k : Nat)
    (st : SplitImp.St) : List (String × Val) :=
  [("lastSubquery", .ptr st.last), ("dstStart", .int k), ("dst", .slice st.dst), ("source", .str src),
   ("scope", .scope scope), ("expr", .tab (.mk source ops))]

def frameState (src : Bytes) (scope : List (Bytes × List Chunk)) (source : Option Ident) (ops : OpList) (k : Nat)
    (st : SplitImp.St) : State :=
  ⟨st.heap, frameVars src scope source ops k st⟩

/-- the state inside a case of the switch: `op` is bound -/
def caseState (src : Bytes) (scope : List (Bytes × List Chunk)) (source : Option Ident) (ops : OpList) (k : Nat)
    (o : Op) (st : SplitImp.St) : State :=
  ⟨st.heap, ("op", .op o) :: frameVars src scope source ops k st⟩

theorem callWith_chain (self : SplitImp.Heap → List Val → IM (SplitImp.Heap × Val)) (h : SplitImp.Heap)
    (args : List Val) : (callWith self).call "chainSubquery" h args = interpChain h args := by
  simp [callWith]

theorem callWith_split (self : SplitImp.Heap → List Val → IM (SplitImp.Heap × Val)) (h : SplitImp.Heap)
    (args : List Val) : (callWith self).call "splitQueries" h args = self h args := by
  simp [callWith]

syntax "step_simp" (" [" Lean.Parser.Tactic.simpLemma,* "]")? : tactic
macro_rules
  | `(tactic| step_simp) => `(tactic| step_simp [])
  | `(tactic| step_simp [$ls,*]) =>
    `(tactic| ir_simp [sortGuard, takeGuard, chainBlock, callChain, caseState, frameState, frameVars, callWith_chain,
        interpChain_eq, SplitImp.stepI, SplitImp.stChain, SplitImp.stAssign, SplitImp.stAppend, SplitImp.stChainIf,
        SplitImp.stGuard, SplitImp.nameOf, $ls,*])

variable (self : SplitImp.Heap → List Val → IM (SplitImp.Heap × Val)) (src : Bytes)
  (scope : List (Bytes × List Chunk)) (source : Option Ident) (ops : OpList) (k : Nat)

/-- what "the unit `body` is the machine's step for `o`" means -/
def StepOk (body : List Stmt) (o : Op) : Prop :=
  ∀ st : SplitImp.St,
    execBlock (callWith self) body (caseState src scope source ops k o st) =
      liftW (SplitImp.stepI source k o st) >>= fun st' => .ok (caseState src scope source ops k o st')

theorem exec_as (p kw : Span) (name : Option Ident) :
    StepOk self src scope source ops k asIR (.as_ p kw name) := by
  intro st
  cases name <;> step_simp [asIR]

theorem exec_sort (p kw : Span) (terms : List SortTerm) :
    StepOk self src scope source ops k sortIR (.sort p kw terms) := by
  intro st
  obtain ⟨heap, dst, last⟩ := st
  cases last with
  | none => step_simp [sortIR]
  | some a =>
    cases hl : SplitImp.load heap a with
    | error e => step_simp [sortIR, hl]
    | ok l => cases h1 : canAttachSort l.op <;> cases h2 : l.sort <;> cases h3 : l.take <;> step_simp [sortIR, hl, h1, h2, h3]

theorem exec_take (p kw : Span) (n : Expr) :
    StepOk self src scope source ops k takeIR (.take p kw n) := by
  intro st
  obtain ⟨heap, dst, last⟩ := st
  cases last with
  | none => step_simp [takeIR]
  | some a =>
    cases hl : SplitImp.load heap a with
    | error e => step_simp [takeIR, hl]
    | ok l => cases h1 : canAttachSort l.op <;> cases h3 : l.take <;> step_simp [takeIR, hl, h1, h3]

theorem exec_top_some (p kw : Span) (n : Expr) (by_ : Span) (c : SortTerm) :
    StepOk self src scope source ops k topIR (.top p kw n by_ (some c)) := by
  intro st
  obtain ⟨heap, dst, last⟩ := st
  cases last with
  | none => step_simp [topIR]
  | some a =>
    cases hl : SplitImp.load heap a with
    | error e => step_simp [topIR, hl]
    | ok l =>
      cases h1 : canAttachSort l.op with
      | false => step_simp [topIR, hl, h1]
      | true =>
        cases h2 : l.sort with
        | some x => step_simp [topIR, hl, h1, h2]
        | none => cases h3 : l.take <;> step_simp [topIR, hl, h1, h2, h3]

theorem exec_top_none (p kw : Span) (n : Expr) (by_ : Span) :
    StepOk self src scope source ops k topIR (.top p kw n by_ none) := by
  intro st
  obtain ⟨heap, dst, last⟩ := st
  cases last with
  | none => step_simp [topIR]
  | some a =>
    cases hl : SplitImp.load heap a with
    | error e => step_simp [topIR, hl]
    | ok l =>
      cases h1 : canAttachSort l.op with
      | false => step_simp [topIR, hl, h1]
      | true =>
        cases h2 : l.sort with
        | some x => step_simp [topIR, hl, h1, h2]
        | none => cases h3 : l.take <;> step_simp [topIR, hl, h1, h2, h3]

theorem exec_top (p kw : Span) (n : Expr) (by_ : Span) (col : Option SortTerm) :
    StepOk self src scope source ops k topIR (.top p kw n by_ col) := by
  cases col
  · exact exec_top_none self src scope source ops k p kw n by_
  · exact exec_top_some self src scope source ops k p kw n by_ _

theorem exec_count (p kw : Span) : StepOk self src scope source ops k defaultIR (.count p kw) := by
  intro st; step_simp [defaultIR]
theorem exec_where (p kw : Span) (e : Expr) : StepOk self src scope source ops k defaultIR (.where_ p kw e) := by
  intro st; step_simp [defaultIR]
theorem exec_project (p kw : Span) (cols : List Column) :
    StepOk self src scope source ops k defaultIR (.project p kw cols) := by
  intro st; step_simp [defaultIR]
theorem exec_extend (p kw : Span) (cols : List Column) :
    StepOk self src scope source ops k defaultIR (.extend p kw cols) := by
  intro st; step_simp [defaultIR]
theorem exec_summarize (p kw : Span) (cols : List Column) (by_ : Span) (g : List Column) :
    StepOk self src scope source ops k defaultIR (.summarize p kw cols by_ g) := by
  intro st; step_simp [defaultIR]
theorem exec_render (p kw : Span) (chart : Option Ident) (w lp : Span) (props : List RenderProp) (rp : Span) :
    StepOk self src scope source ops k defaultIR (.render p kw chart w lp props rp) := by
  intro st; step_simp [defaultIR]

end Pql.SplitIR
