/-
`ValIn Q` (see TreeSpanLemmas.lean) for the non-recursive tabular operators, their column / term /
property loops, and `let`: every span field of what they build satisfies `Q`.
-/
import PqlModel.Lemmas.TreeSpanLemmas
namespace Pql

section
variable {Q : Span → Prop} {c : PCtx}

/-! ### rowCount, sortTerm -/

theorem pRowCount_tree (hnull : Q .null) (hzero : Q .zero) (fuel : Nat) (ts : List Token)
    (ht : ToksQ Q ts) : ValIn Q (Expr.SpansIn Q) (pRowCount c fuel ts) := by
  have h1 := pExpr_tree (c := c) hnull hzero fuel ts ht
  simp only [pRowCount]
  split
  · exact h1
  · split
    · split
      · exact h1
      · exact ⟨h1.val, h1.rest⟩
    · exact h1

theorem pSortTerm_tree (hnull : Q .null) (hzero : Q .zero) (fuel : Nat) (ts : List Token)
    (ht : ToksQ Q ts) : ValIn Q (OptV (SortTerm.SpansIn Q)) (pSortTerm c fuel ts) := by
  obtain ⟨h1v, h1r⟩ := pExpr_tree (c := c) hnull hzero fuel ts ht
  simp only [pSortTerm]
  split
  · tree_leaf
  · generalize (pExpr c fuel ts).rest = rr at h1r ⊢
    generalize (pExpr c fuel ts).val = xv at h1v ⊢
    cases rr with
    | nil => simp only [Bool.not_false, if_true]; tree_leaf
    | cons t rest =>
      by_cases ha : isIdentNamed t "asc" = true
      · simp only [ha, if_true, Bool.not_true, Bool.false_eq_true, if_false]
        repeat' split
        all_goals tree_leaf
      · by_cases hd : isIdentNamed t "desc" = true
        · simp only [ha, hd, if_true, Bool.not_true, Bool.false_eq_true, if_false]
          repeat' split
          all_goals tree_leaf
        · by_cases hn : isIdentNamed t "nulls" = true
          · simp only [ha, hd, hn, if_true, Bool.not_true, Bool.false_eq_true, if_false]
            repeat' split
            all_goals tree_leaf
          · simp only [ha, hd, hn, if_true, Bool.not_false, Bool.false_eq_true, if_false]
            tree_leaf

theorem pSortTerms_tree (hnull : Q .null) (hzero : Q .zero) (fuel : Nat) :
    ∀ (k : Nat) (acc : List SortTerm) (ts : List Token),
      AllIn (SortTerm.SpansIn Q) acc → ToksQ Q ts →
      ValIn Q (AllIn (SortTerm.SpansIn Q)) (pSortTerms c fuel k acc ts) := by
  intro k
  induction k with
  | zero => intro acc ts ha ht; simp only [pSortTerms]; exact ⟨ha, ht⟩
  | succ k ih =>
    intro acc ts ha ht
    obtain ⟨h1v, h1r⟩ := pSortTerm_tree (c := c) hnull hzero fuel ts ht
    have hacc : AllIn (SortTerm.SpansIn Q)
        (match (pSortTerm c fuel ts).val with | some t => acc ++ [t] | none => acc) := by
      split
      · rename_i t heq
        rw [heq] at h1v
        exact (AllIn_append _ _ _).mpr ⟨ha, by simpa using h1v⟩
      · exact ha
    simp only [pSortTerms]
    split
    · exact ⟨hacc, h1r⟩
    · split
      · rename_i t rest heq
        have h1r' := h1r
        rw [heq] at h1r'
        split
        · exact ih _ _ hacc ((ToksQ_cons t rest).mp h1r').2.2
        · exact ⟨hacc, h1r⟩
      · exact ⟨hacc, by simp⟩

/-! ### named columns (extend / summarize) -/

theorem pNamedColumn_tree (hnull : Q .null) (hzero : Q .zero) (fuel : Nat) (ts : List Token)
    (ht : ToksQ Q ts) : ValIn Q (Column.SpansIn Q) (pNamedColumn c fuel ts) := by
  simp only [pNamedColumn]
  split
  · rename_i id asg rest heq
    have hr : IdentIn Q id ∧ Q asg ∧ ToksQ Q rest := by
      obtain ⟨hiv, hir⟩ := pIdent_tree (c := c) ts ht
      split at heq
      · rename_i id' t rest' hv hrest
        rw [hrest] at hir
        rw [hv] at hiv
        split at heq
        · simp only [Option.some.injEq, Prod.mk.injEq] at heq
          obtain ⟨rfl, rfl, rfl⟩ := heq
          obtain ⟨htt, -, hrest'⟩ := (ToksQ_cons t rest').mp hir
          exact ⟨hiv, htt, hrest'⟩
        · cases heq
      · cases heq
    obtain ⟨hid, hasg, hrest⟩ := hr
    obtain ⟨h1v, h1r⟩ := pExpr_tree (c := c) hnull hzero fuel rest hrest
    refine ⟨?_, h1r⟩
    simp only [Column.SpansIn, OptV_some]
    exact ⟨hid, hasg, h1v⟩
  · obtain ⟨h1v, h1r⟩ := pExpr_tree (c := c) hnull hzero fuel ts ht
    refine ⟨?_, h1r⟩
    simp only [Column.SpansIn, OptV_none]
    exact ⟨trivial, hnull, h1v⟩

theorem pExtendCols_tree (hnull : Q .null) (hzero : Q .zero) (fuel : Nat) :
    ∀ (k : Nat) (acc : List Column) (ts : List Token),
      AllIn (Column.SpansIn Q) acc → ToksQ Q ts →
      ValIn Q (AllIn (Column.SpansIn Q)) (pExtendCols c fuel k acc ts) := by
  intro k
  induction k with
  | zero => intro acc ts ha ht; simp only [pExtendCols]; exact ⟨ha, ht⟩
  | succ k ih =>
    intro acc ts ha ht
    obtain ⟨h1v, h1r⟩ := pNamedColumn_tree (c := c) hnull hzero fuel ts ht
    have hacc : AllIn (Column.SpansIn Q) (acc ++ [(pNamedColumn c fuel ts).val]) :=
      (AllIn_append _ _ _).mpr ⟨ha, by simpa using h1v⟩
    simp only [pExtendCols]
    split
    · exact ⟨ha, h1r⟩
    · split
      · rename_i t rest heq
        have h1r' := h1r
        rw [heq] at h1r'
        split
        · exact ih _ _ hacc ((ToksQ_cons t rest).mp h1r').2.2
        · exact ⟨hacc, h1r⟩
      · exact ⟨hacc, by simp⟩

theorem pProjectCols_tree (hnull : Q .null) (hzero : Q .zero) (fuel : Nat) :
    ∀ (k : Nat) (acc : List Column) (ts : List Token),
      AllIn (Column.SpansIn Q) acc → ToksQ Q ts →
      ValIn Q (AllIn (Column.SpansIn Q)) (pProjectCols c fuel k acc ts) := by
  intro k
  induction k with
  | zero => intro acc ts ha ht; simp only [pProjectCols]; exact ⟨ha, ht⟩
  | succ k ih =>
    intro acc ts ha ht
    obtain ⟨hiv, hir⟩ := pIdent_tree (c := c) ts ht
    simp only [pProjectCols]
    split
    · exact ⟨ha, hir⟩
    · rename_i id hid
      rw [hid] at hiv
      have hid' : IdentIn Q id := hiv
      have hbare : AllIn (Column.SpansIn Q) (acc ++ [⟨some id, .null, .nil⟩]) := by
        refine (AllIn_append _ _ _).mpr ⟨ha, ?_⟩
        simp only [AllIn_cons, AllIn_nil, and_true, Column.SpansIn, OptV_some, Expr.SpansIn]
        exact ⟨hid', hnull⟩
      split
      · exact ⟨hbare, by simp⟩
      · rename_i sep rest heq
        have hir' := hir
        rw [heq] at hir'
        obtain ⟨hsep, -, hrest⟩ := (ToksQ_cons sep rest).mp hir'
        split
        · exact ih _ _ hbare hrest
        · split
          · obtain ⟨hev, her⟩ := pExpr_tree (c := c) hnull hzero fuel rest hrest
            have hacc : AllIn (Column.SpansIn Q)
                (acc ++ [⟨some id, sep.span, (pExpr c fuel rest).val⟩]) := by
              refine (AllIn_append _ _ _).mpr ⟨ha, ?_⟩
              simp only [AllIn_cons, AllIn_nil, and_true, Column.SpansIn, OptV_some]
              exact ⟨hid', hsep, hev⟩
            split
            · exact ⟨hacc, her⟩
            · split
              · exact ⟨hacc, by simp⟩
              · rename_i sep2 rest2 heq2
                rw [heq2] at her
                obtain ⟨hsep2, -, hrest2⟩ := (ToksQ_cons sep2 rest2).mp her
                split
                · exact ih _ _ hacc hrest2
                · exact ⟨hacc, hrest2⟩
          · exact ⟨hbare, hir⟩

/-! ### summarize -/

theorem pSummarizeCols_tree (hnull : Q .null) (hzero : Q .zero) (fuel : Nat) :
    ∀ (k : Nat) (acc : List Column) (cm : Option Span) (ts : List Token),
      AllIn (Column.SpansIn Q) acc → ToksQ Q ts →
      ValIn Q (fun v => AllIn (Column.SpansIn Q) v.cols) (pSummarizeCols c fuel k acc cm ts) := by
  intro k
  induction k with
  | zero => intro acc cm ts ha ht; simp only [pSummarizeCols]; exact ⟨ha, ht⟩
  | succ k ih =>
    intro acc cm ts ha ht
    obtain ⟨h1v, h1r⟩ := pNamedColumn_tree (c := c) hnull hzero fuel ts ht
    have hacc : AllIn (Column.SpansIn Q) (acc ++ [(pNamedColumn c fuel ts).val]) :=
      (AllIn_append _ _ _).mpr ⟨ha, by simpa using h1v⟩
    simp only [pSummarizeCols]
    split
    · exact ⟨ha, ht⟩
    · split
      · exact ⟨hacc, h1r⟩
      · split
        · exact ⟨hacc, by simp⟩
        · rename_i t rest heq
          have h1r' := h1r
          rw [heq] at h1r'
          split
          · exact ih _ _ _ hacc ((ToksQ_cons t rest).mp h1r').2.2
          · exact ⟨hacc, h1r⟩

theorem pGroupByCols_tree (hnull : Q .null) (hzero : Q .zero) (fuel : Nat) :
    ∀ (k : Nat) (acc : List Column) (ts : List Token),
      AllIn (Column.SpansIn Q) acc → ToksQ Q ts →
      ValIn Q (AllIn (Column.SpansIn Q)) (pGroupByCols c fuel k acc ts) := by
  intro k
  induction k with
  | zero => intro acc ts ha ht; simp only [pGroupByCols]; exact ⟨ha, ht⟩
  | succ k ih =>
    intro acc ts ha ht
    obtain ⟨h1v, h1r⟩ := pNamedColumn_tree (c := c) hnull hzero fuel ts ht
    have hacc : AllIn (Column.SpansIn Q) (acc ++ [(pNamedColumn c fuel ts).val]) :=
      (AllIn_append _ _ _).mpr ⟨ha, by simpa using h1v⟩
    simp only [pGroupByCols]
    split
    · exact ⟨ha, h1r⟩
    · split
      · exact ⟨hacc, h1r⟩
      · split
        · exact ⟨hacc, by simp⟩
        · rename_i t rest heq
          have h1r' := h1r
          rw [heq] at h1r'
          split
          · exact ih _ _ hacc ((ToksQ_cons t rest).mp h1r').2.2
          · exact ⟨hacc, h1r⟩

theorem pSummarize_tree (hnull : Q .null) (hzero : Q .zero) (fuel : Nat) (pipe kw : Span)
    (hpipe : Q pipe) (hkw : Q kw) (ts : List Token) (ht : ToksQ Q ts) :
    ValIn Q (Op.SpansIn Q) (pSummarize c fuel pipe kw ts) := by
  obtain ⟨h1v, h1r⟩ :=
    pSummarizeCols_tree (c := c) hnull hzero fuel (ts.length + 1) [] none ts (by simp) ht
  have hop : ∀ (b : Span) (gs : List Column), Q b → AllIn (Column.SpansIn Q) gs →
      (Op.summarize pipe kw (pSummarizeCols c fuel (ts.length + 1) [] none ts).val.cols b gs).SpansIn Q := by
    intro b gs hb hgs
    simp only [Op.SpansIn]
    exact ⟨hpipe, hkw, h1v, hb, hgs⟩
  have hbare := hop .null [] hnull (by simp)
  simp only [pSummarize]
  split
  · exact ⟨hbare, h1r⟩
  · split
    · split
      · exact ⟨hbare, by simp⟩
      · split
        · exact ⟨hbare, by simp⟩
        · exact ⟨hbare, by simp⟩
    · rename_i sep rest heq
      have h1r' := h1r
      rw [heq] at h1r'
      obtain ⟨hsep, -, hrest⟩ := (ToksQ_cons sep rest).mp h1r'
      split
      · split
        · exact ⟨hbare, h1r⟩
        · split
          · exact ⟨hbare, h1r⟩
          · exact ⟨hbare, h1r⟩
      · obtain ⟨h2v, h2r⟩ :=
          pGroupByCols_tree (c := c) hnull hzero fuel (rest.length + 1) [] rest (by simp) hrest
        exact ⟨hop _ _ hsep h2v, h2r⟩

/-! ### render -/

theorem pRenderProp_tree (hnull : Q .null) (hzero : Q .zero) (fuel : Nat) (ts : List Token)
    (ht : ToksQ Q ts) : ValIn Q (OptV (RenderProp.SpansIn Q)) (pRenderProp c fuel ts) := by
  obtain ⟨hiv, hir⟩ := pIdent_tree (c := c) ts ht
  simp only [pRenderProp]
  split
  · exact ⟨trivial, hir⟩
  · rename_i name hname
    rw [hname] at hiv
    have hname' : IdentIn Q name := hiv
    split
    · exact ⟨trivial, by simp⟩
    · rename_i t rest heq
      rw [heq] at hir
      obtain ⟨htt, -, hrest⟩ := (ToksQ_cons t rest).mp hir
      obtain ⟨hev, her⟩ := pExpr_tree (c := c) hnull hzero fuel rest hrest
      split
      · exact ⟨trivial, hrest⟩
      · split
        · exact ⟨trivial, her⟩
        · refine ⟨?_, her⟩
          simp only [OptV_some, RenderProp.SpansIn]
          exact ⟨hname', htt, hev⟩

theorem pRenderProps_tree (hnull : Q .null) (hzero : Q .zero) (fuel : Nat) :
    ∀ (k : Nat) (acc : List RenderProp) (ts : List Token),
      AllIn (RenderProp.SpansIn Q) acc → ToksQ Q ts →
      ValIn Q (fun v => AllIn (RenderProp.SpansIn Q) v.1 ∧ Q v.2) (pRenderProps c fuel k acc ts) := by
  intro k
  induction k with
  | zero => intro acc ts ha ht; simp only [pRenderProps]; exact ⟨⟨ha, hnull⟩, ht⟩
  | succ k ih =>
    intro acc ts ha ht
    obtain ⟨h1v, h1r⟩ := pRenderProp_tree (c := c) hnull hzero fuel ts ht
    have hacc : AllIn (RenderProp.SpansIn Q)
        (match (pRenderProp c fuel ts).val with | some p => acc ++ [p] | none => acc) := by
      split
      · rename_i p heq
        rw [heq] at h1v
        exact (AllIn_append _ _ _).mpr ⟨ha, by simpa using h1v⟩
      · exact ha
    simp only [pRenderProps]
    split
    · exact ⟨⟨ha, hnull⟩, h1r⟩
    · split
      · exact ⟨⟨hacc, hnull⟩, by simp⟩
      · rename_i t rest heq
        rw [heq] at h1r
        obtain ⟨htt, -, hrest⟩ := (ToksQ_cons t rest).mp h1r
        split
        · exact ⟨⟨hacc, htt⟩, hrest⟩
        · split
          · exact ⟨⟨hacc, hnull⟩, hrest⟩
          · exact ih _ _ hacc hrest

theorem pRender_tree (hnull : Q .null) (hzero : Q .zero) (fuel : Nat) (pipe kw : Span)
    (hpipe : Q pipe) (hkw : Q kw) (ts : List Token) (ht : ToksQ Q ts) :
    ValIn Q (Op.SpansIn Q) (pRender c fuel pipe kw ts) := by
  obtain ⟨hiv, hir⟩ := pIdent_tree (c := c) ts ht
  simp only [pRender]
  split
  · tree_leaf
  · rename_i chart hchart
    rw [hchart] at hiv
    have hchart' : IdentIn Q chart := hiv
    have hop : ∀ (w lp rp : Span) (props : List RenderProp), Q w → Q lp → Q rp →
        AllIn (RenderProp.SpansIn Q) props →
        (Op.render pipe kw (some chart) w lp props rp).SpansIn Q := by
      intro w lp rp props hw hlp hrp hprops
      simp only [Op.SpansIn, OptV_some]
      exact ⟨hpipe, hkw, hchart', hw, hlp, hprops, hrp⟩
    have hbare := hop .null .null .null [] hnull hnull hnull (by simp)
    split
    · exact ⟨hbare, by simp⟩
    · rename_i t rest heq
      have hir' := hir
      rw [heq] at hir'
      obtain ⟨htt, -, hrest⟩ := (ToksQ_cons t rest).mp hir'
      split
      · exact ⟨hbare, hir⟩
      · split
        · exact ⟨hop _ _ _ _ htt hnull hnull (by simp), by simp⟩
        · rename_i lp rest2
          obtain ⟨hlp, -, hrest2⟩ := (ToksQ_cons lp rest2).mp hrest
          split
          · exact ⟨hop _ _ _ _ htt hnull hnull (by simp), hrest2⟩
          · obtain ⟨⟨h2a, h2b⟩, h2r⟩ :=
              pRenderProps_tree (c := c) hnull hzero fuel (rest2.length + 1) [] rest2 (by simp) hrest2
            exact ⟨hop _ _ _ _ htt hlp h2b h2a, h2r⟩

/-! ### let -/

theorem pLet_tree (hnull : Q .null) (hzero : Q .zero) (fuel : Nat) (ts : List Token)
    (ht : ToksQ Q ts) : ValIn Q (OptV (Stmt.SpansIn Q)) (pLet c fuel ts) := by
  simp only [pLet]
  split
  · tree_leaf
  · rename_i kwd rest
    obtain ⟨hkwd, -, hrest⟩ := (ToksQ_cons kwd rest).mp ht
    obtain ⟨hiv, hir⟩ := pIdent_tree (c := c) rest hrest
    split
    · exact ⟨trivial, ht⟩
    · split
      · refine ⟨?_, hir⟩
        simp only [OptV_some, Stmt.SpansIn, OptV_none, Expr.SpansIn]
        exact ⟨hkwd, trivial, hnull, trivial⟩
      · rename_i name hname
        rw [hname] at hiv
        have hname' : IdentIn Q name := hiv
        split
        · refine ⟨?_, by simp⟩
          simp only [OptV_some, Stmt.SpansIn, Expr.SpansIn]
          exact ⟨hkwd, hname', hnull, trivial⟩
        · rename_i asg rest2 heq
          rw [heq] at hir
          obtain ⟨hasg, -, hrest2⟩ := (ToksQ_cons asg rest2).mp hir
          split
          · refine ⟨?_, hrest2⟩
            simp only [OptV_some, Stmt.SpansIn, Expr.SpansIn]
            exact ⟨hkwd, hname', hnull, trivial⟩
          · obtain ⟨hev, her⟩ := pExpr_tree (c := c) hnull hzero fuel rest2 hrest2
            refine ⟨?_, her⟩
            simp only [OptV_some, Stmt.SpansIn]
            exact ⟨hkwd, hname', hasg, hev⟩

end

end Pql
