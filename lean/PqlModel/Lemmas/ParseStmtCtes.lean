/-
C05, syntactic half, stage 3 (b): the WITH list — what `writeCtes` emits is read by `pCtes` as the
intended common table expressions, in order, under their names.
-/
import PqlModel.Lemmas.ParseStmtOK
namespace Pql.C05
set_option linter.unusedSimpArgs false
set_option linter.unusedVariables false
open Pql Sql CompileOracle Intended Pql.RT

/-- one intended CTE: the name of the link and its SELECT -/
def cteOf (src : Bytes) (s : SubA) : Option (Bytes × Select) := do pure (s.name, ← selOf src s)

def CteRel (p w : Bytes × Select) : Prop := p.1 = w.1 ∧ SelRel p.2 w.2

theorem pSelect_head {ts : List STok} {x : Select × List STok} (h : pSelect ts = some x) :
    ∃ w tl, ts = .word w :: tl ∧ upper w = "SELECT" := by
  cases ts with
  | nil => simp [pSelect] at h
  | cons t tl =>
    cases t with
    | word w =>
      by_cases hw : upper w = "SELECT"
      · exact ⟨w, tl, rfl, hw⟩
      · simp [pSelect, hw] at h
    | _ => simp [pSelect] at h

theorem writeCtes_length (ctx : Ctx) : ∀ (ctes : List Subquery) (c : List Chunk), writeCtes ctx ctes = .ok c →
    ctes.length ≤ (toksOf c).length
  | [], c, h => by simp
  | [s], c, h => by
    simp only [writeCtes] at h
    cases hb : s.write ctx with
    | error e => rw [hb] at h; cases h
    | ok b =>
      rw [hb] at h
      simp only [bind, Except.bind, pure, Except.pure, Except.ok.injEq] at h
      subst h
      simp
  | s :: s2 :: rest, c, h => by
    simp only [writeCtes] at h
    cases hb : s.write ctx with
    | error e => rw [hb] at h; cases h
    | ok b =>
      rw [hb] at h
      cases hr : writeCtes ctx (s2 :: rest) with
      | error e => rw [hr] at h; simp only [bind, Except.bind] at h; cases h
      | ok r =>
        rw [hr] at h
        simp only [bind, Except.bind, pure, Except.pure, Except.ok.injEq] at h
        subst h
        have := writeCtes_length ctx (s2 :: rest) r hr
        simp only [toksOf_cons, toksOf_append, List.length_append, List.length_cons, chunkToks_qid, chunkToks_txt,
          tt_as_open, tt_rparen, tt_cte_sep] at this ⊢
        omega

theorem ctes_parse (src : Bytes) {ctesA : List SubA} {ctes : List Subquery}
    (hrel : ListRel (EraseRel src []) ctesA ctes) (hok : AllOK ctesA) (hne : ctes ≠ []) :
    ∀ c, writeCtes ⟨src, [], .default⟩ ctes = .ok c → ∀ r, Ends (fun t => !isSym t ",") r →
      ∀ fuel, ctes.length ≤ fuel →
      ∃ parsed wants, pCtes fuel (toksOf c ++ r) = some (parsed, r) ∧ ctesA.mapM (cteOf src) = some wants ∧
        ListRel CteRel parsed wants := by
  induction hrel with
  | nil => exact absurd rfl hne
  | @cons a s restA rest hab hrest ih =>
    intro c hc r hr fuel hf
    obtain ⟨f, rfl⟩ : ∃ f, fuel = f + 1 := ⟨fuel - 1, by simp at hf; omega⟩
    have haOK : subOK a = true := hok a (by simp)
    have hrestOK : AllOK restA := fun b hb => hok b (List.mem_cons_of_mem _ hb)
    cases hrest with
    | nil =>
      simp only [writeCtes] at hc
      cases hb : s.write ⟨src, [], .default⟩ with
      | error e => rw [hb] at hc; cases hc
      | ok b =>
        rw [hb] at hc
        simp only [bind, Except.bind, pure, Except.pure, Except.ok.injEq] at hc
        subst hc
        obtain ⟨sel, want, hp, hw, hsr⟩ := select_parse src a s b (S ")" :: r) hab haOK hb ⟨r, Or.inl rfl⟩
        refine ⟨[(s.name, sel)], [(a.name, want)], ?_, ?_, .cons ⟨hab.name, hsr⟩ .nil⟩
        · cases r with
          | nil => simp [pCtes, hp]
          | cons t tl =>
            simp only [Ends, Bool.not_eq_true'] at hr
            simp [pCtes, hp, hr]
        · simp [cteOf, hw]
    | @cons a2 s2 restA2 rest2 hab2 hrest2 =>
      simp only [writeCtes] at hc
      cases hb : s.write ⟨src, [], .default⟩ with
      | error e => rw [hb] at hc; cases hc
      | ok b =>
        rw [hb] at hc
        cases hr2 : writeCtes ⟨src, [], .default⟩ (s2 :: rest2) with
        | error e => rw [hr2] at hc; simp only [bind, Except.bind] at hc; cases hc
        | ok c2 =>
          rw [hr2] at hc
          simp only [bind, Except.bind, pure, Except.pure, Except.ok.injEq] at hc
          subst hc
          obtain ⟨parsed, wants, hpc, hwm, hrl⟩ := ih hrestOK (by simp) c2 hr2 r hr f (by simp at hf ⊢; omega)
          obtain ⟨sel, want, hp, hw, hsr⟩ :=
            select_parse src a s b (S ")" :: S "," :: (toksOf c2 ++ r)) hab haOK hb ⟨_, Or.inl rfl⟩
          refine ⟨(s.name, sel) :: parsed, (a.name, want) :: wants, ?_, ?_, .cons ⟨hab.name, hsr⟩ hrl⟩
          · simp [pCtes, hp, hpc]
          · simp only [List.mapM_cons, hwm, Option.bind_eq_bind, Option.bind_some, Option.pure_def]
            simp [cteOf, hw]

theorem ctes_all {parsed wants : List (Bytes × Select)} (h : ListRel CteRel parsed wants) :
    ((parsed.zip wants).all fun (x, y) => x.1 == y.1 && selectEq (normSel x.2) (normSel y.2)) = true := by
  induction h with
  | nil => rfl
  | cons hab _ ih =>
    simp only [List.zip_cons_cons, List.all_cons, ih, Bool.and_true]
    simp [hab.1, selectEq_of_rel hab.2]

theorem listRel_snoc {α β : Type} {R : α → β → Prop} {as : List α} {bs : List β} {b : β}
    (h : ListRel R as (bs ++ [b])) : ∃ as' a, as = as' ++ [a] ∧ ListRel R as' bs ∧ R a b := by
  have hr := h.reverse
  simp only [List.reverse_append, List.reverse_cons, List.reverse_nil, List.nil_append, List.cons_append] at hr
  generalize hrev : as.reverse = ar at hr
  cases hr with
  | cons hab hrest =>
    refine ⟨_, _, ?_, by simpa using hrest.reverse, hab⟩
    have := congrArg List.reverse hrev
    simpa using this

theorem stmtOf_snoc (src : Bytes) (ctesA : List SubA) (qA : SubA) :
    stmtOf src (ctesA ++ [qA]) = (do
      let ctes ← ctesA.mapM (cteOf src)
      let body ← selOf src qA
      pure ⟨ctes, body⟩) := by
  simp only [stmtOf, List.reverse_append, List.reverse_cons, List.reverse_nil, List.nil_append, List.cons_append,
    List.reverse_reverse]
  rfl

end Pql.C05
