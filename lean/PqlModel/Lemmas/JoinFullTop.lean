/-
C03 / C02, the general statement theorem, helper 9: from the conditions on the program (`namesOk`,
`tabOpsOk`) to the statement; a program without `let` is its own resolution (`substTabular_nil`).
-/
import PqlModel.Lemmas.JoinFullGen
namespace Pql.JoinFull
open Pql Sql CompileOracle Intended SplitQ SelSem C02

theorem substConds_nil : ∀ (cs : ExprList), substConds [] cs = cs
  | .nil => by simp only [substConds]
  | .cons e es => by
    simp only [substConds, substConds_nil es, substCond, substExpr_nil]
    split <;> rfl

mutual
theorem substTabular_nil : ∀ (t : Tabular), substTabular [] t = t
  | .nil => by simp only [substTabular]
  | .mk s ops => by simp only [substTabular, substOps_nil' ops]
theorem substOps_nil' : ∀ (ops : OpList), substOps [] ops = ops
  | .nil => by simp only [substOps]
  | .cons o rest => by
    rw [substOps, substOps_nil' rest]
    congr 1
    cases o with
    | join p k a b c d right e f conds =>
      simp only [substOp, substTabular_nil right, substConds_nil]
    | top p k n b c => cases c <;> simp [substOp, substExpr_nil]
    | _ => simp [substOp, substExpr_nil, map_substColumn_nil]
end

/-- **the statement of any tabular expression** evaluates to the expression's meaning, under
    conditions on the names of the links of its chain -/
theorem statement_general (src : Bytes) (db : DB) (t : Tabular) (subs : List SubA) (st : Statement)
    (hs : splitA [] t = some subs) (hst : stmtOf src subs = some st)
    (hnames : (subs.map (·.name)).Nodup)
    (hsrcs : C05.hasSources t = true) (htabs : ∀ n ∈ C05.tablesOf t, n ∉ subs.map (·.name))
    (hops : tabOpsOk t = true) (hdb : RectDB db) :
    evalStatement db st = Rel.interp src db t := by
  obtain ⟨R, hR, tr⟩ := gen_tab src db t [] subs hs
  simp only [List.nil_append] at hR
  subst hR
  obtain ⟨all, hall, hev⟩ := JoinSem.evalStatement_chain src db subs st hst hnames
  rw [hev, runCtes_eq_evalLinks src db subs [] all hall (tr.ok hops) (.inr ⟨hdb, fun x hx => by cases hx⟩)]
  exact tr.sem [] ⟨hnames, by simp⟩ hsrcs (by simpa using htabs)

/-- `namesOk` makes the names of the links pairwise distinct and different from all source tables -/
theorem names_of_namesOk (t : Tabular) (subs : List SubA) (hs : splitA [] t = some subs) (hn : namesOk t = true) :
    (subs.map (·.name)).Nodup ∧ C05.hasSources t = true ∧ ∀ n ∈ C05.tablesOf t, n ∉ subs.map (·.name) := by
  obtain ⟨R, hR, tr⟩ := gen_tab [] [] t [] subs hs
  simp only [List.nil_append] at hR
  subst hR
  simp only [namesOk, Bool.and_eq_true, Bool.not_eq_true', List.all_eq_true] at hn
  obtain ⟨⟨⟨h1, h2⟩, h3⟩, h4⟩ := hn
  have hq : NamesQ (asNamesT t ++ []) [] := by
    rw [List.append_nil]
    exact ⟨hasDup_false_nodup _ h2, fun n hn' => ⟨h3 n hn', by simp⟩⟩
  have hp := (tr.nm [] [] ⟨List.nodup_nil, by simp⟩ hq).1
  refine ⟨by simpa using hp.1, h1, fun n hn' hmem => ?_⟩
  have h4n := h4 n hn'
  rcases tr.mem n hmem with h | h
  · rw [h] at h4n; cases h4n.1
  · have : (asNamesT t).contains n = true := List.contains_iff_mem.mpr h
    rw [this] at h4n; cases h4n.2

/-! ### the shape `before | join (U | rops) on … | after` with join-free blocks -/

theorem opsHaveSources_joinFree : ∀ (a : OpList), joinFree a = true → C05.opsHaveSources a = true
  | .nil, _ => by simp only [C05.opsHaveSources]
  | .cons o rest, h => by
    rw [joinFree_cons, Bool.and_eq_true] at h
    rw [opsHaveSources_cons o rest (by simpa using h.1)]
    exact opsHaveSources_joinFree rest h.2

theorem opsTablesOf_joinFree : ∀ (a : OpList), joinFree a = true → C05.opsTablesOf a = []
  | .nil, _ => by simp only [C05.opsTablesOf]
  | .cons o rest, h => by
    rw [joinFree_cons, Bool.and_eq_true] at h
    rw [opsTablesOf_cons o rest (by simpa using h.1)]
    exact opsTablesOf_joinFree rest h.2

theorem opsHaveSources_append : ∀ (a b : OpList), joinFree a = true →
    C05.opsHaveSources (appendOps a b) = C05.opsHaveSources b
  | .nil, b, _ => rfl
  | .cons o rest, b, h => by
    rw [joinFree_cons, Bool.and_eq_true] at h
    simp only [appendOps]
    rw [opsHaveSources_cons o _ (by simpa using h.1)]
    exact opsHaveSources_append rest b h.2

theorem opsTablesOf_append : ∀ (a b : OpList), joinFree a = true →
    C05.opsTablesOf (appendOps a b) = C05.opsTablesOf b
  | .nil, b, _ => rfl
  | .cons o rest, b, h => by
    rw [joinFree_cons, Bool.and_eq_true] at h
    simp only [appendOps]
    rw [opsTablesOf_cons o _ (by simpa using h.1)]
    exact opsTablesOf_append rest b h.2

theorem opsOkJ_append : ∀ (a b : OpList), joinFree a = true → opsOk a = true → opsOkJ false b = true →
    opsOkJ false (appendOps a b) = true
  | .nil, b, _, _, hb => hb
  | .cons o rest, b, h, ha, hb => by
    rw [joinFree_cons, Bool.and_eq_true] at h
    have hj : isJoin o = false := by simpa using h.1
    simp only [opsOk, Bool.and_eq_true] at ha
    simp only [appendOps, opsOkJ, hj, opOkJ_of_not_join _ o hj, Bool.and_eq_true]
    exact ⟨by simp [ha.1], opsOkJ_append rest b h.2 ha.2 hb⟩

end Pql.JoinFull
