/-
Parameters, part 5: the statement loop, the final assembly and `compileChunks` commute with filling
holes; the special case of mapping the parameter texts (`Chunk.mapRaw`).
-/
import PqlModel.Lemmas.ParamsBindWrite
import PqlModel.Props.C14Order
namespace Pql.Params
open Pql

section
variable (σ : Bytes → List Chunk) (src : Bytes)

/-- fill the holes in the result of the statement loop -/
def bindRes (r : Scope × Option Tabular) : Scope × Option Tabular := (bindScope σ r.1, r.2)

theorem compileStmts_bind : (stmts : List Stmt) → (sc : Scope) → (q : Option Tabular) →
    compileStmts src stmts (bindScope σ sc) q = (compileStmts src stmts sc q).map (bindRes σ)
  | [], sc, q => rfl
  | .tabular t :: rest, sc, q => by
    cases q with
    | some _ => rfl
    | none =>
      simp only [compileStmts]
      exact compileStmts_bind rest sc (some t)
  | .let_ _ name _ x :: rest, sc, q => by
    cases q with
    | some _ =>
      simp only [compileStmts]
      exact compileStmts_bind rest sc _
    | none =>
      simp only [compileStmts, writeExpr_bind]
      cases writeExpr ⟨src, sc, .let_⟩ x with
      | error e => rfl
      | ok sql =>
        simp only [exmap_ok]
        cases name with
        | none => rfl
        | some n =>
          simp only [← wrapTight_bind, ← bindScope_cons]
          exact compileStmts_bind rest _ none

theorem finishChunks_bind (sc : Scope) (q : Option Tabular) :
    C14.finishChunks src (bindScope σ sc) q = (C14.finishChunks src sc q).map (bindRaw σ) := by
  cases q with
  | none => rfl
  | some t =>
    unfold C14.finishChunks
    have hs := splitQueries_bind σ src sc t []
    simp only [List.map_nil] at hs
    simp only [hs]
    cases splitQueries src sc [] t with
    | error e => rfl
    | ok subs =>
      simp only [exmap_ok, bind, Except.bind]
      rw [← List.map_reverse]
      cases subs.reverse with
      | nil => rfl
      | cons query ctesRev =>
        simp only [List.map_cons, ← List.map_reverse, writeCtes_bind, Subquery_write_bind, List.isEmpty_map]
        cases hE : ctesRev.reverse.isEmpty
        · simp only [Bool.false_eq_true, if_false]
          cases writeCtes ⟨src, sc, .default⟩ ctesRev.reverse <;> cases query.write ⟨src, sc, .default⟩ <;>
            simp [Except.map, pure, Except.pure]
        · simp only [if_true]
          cases query.write ⟨src, sc, .default⟩ <;> simp [Except.map, pure, Except.pure]

/-- compilation from an initial scope with filled holes = filling the holes of the compilation -/
theorem compileFrom_bind (stmts : List Stmt) (sc : Scope) :
    (compileStmts src stmts (bindScope σ sc) none >>= fun r => C14.finishChunks src r.1 r.2) =
      (compileStmts src stmts sc none >>= fun r => C14.finishChunks src r.1 r.2).map (bindRaw σ) := by
  rw [compileStmts_bind]
  cases compileStmts src stmts sc none with
  | error e => rfl
  | ok r => exact finishChunks_bind σ src r.1 r.2

end

/-! ### mapping the texts -/

theorem bindRaw_mapRaw (f : Bytes → Bytes) (cs : List Chunk) :
    bindRaw (fun v => [Chunk.raw (f v)]) cs = cs.map (Chunk.mapRaw f) := by
  induction cs with
  | nil => rfl
  | cons c cs ih => cases c <;> simp [ih, Chunk.mapRaw]

theorem paramScope_bind (σ : Bytes → List Chunk) (params : List (Bytes × Bytes)) :
    bindScope σ (paramScope params) = params.map fun kv => (kv.1, σ kv.2) := by
  simp [bindScope, paramScope, bindRaw, bindC]

theorem paramScope_map (f : Bytes → Bytes) (params : List (Bytes × Bytes)) :
    paramScope (params.map fun kv => (kv.1, f kv.2)) = bindScope (fun v => [Chunk.raw (f v)]) (paramScope params) := by
  rw [paramScope_bind]
  simp [paramScope]

/-- `compileChunks` started from an arbitrary initial scope -/
def compileFrom (src : Bytes) (sc : Scope) (stmts : List Stmt) : W :=
  compileStmts src stmts sc none >>= fun r => C14.finishChunks src r.1 r.2

theorem compileChunks_eq_from (src : Bytes) (params : List (Bytes × Bytes)) (stmts : List Stmt) :
    compileChunks src params stmts = compileFrom src (paramScope params) stmts :=
  C14.compileChunks_eq src params stmts

theorem compileFrom_bindScope (σ : Bytes → List Chunk) (src : Bytes) (sc : Scope) (stmts : List Stmt) :
    compileFrom src (bindScope σ sc) stmts = (compileFrom src sc stmts).map (bindRaw σ) :=
  compileFrom_bind σ src stmts sc

end Pql.Params
