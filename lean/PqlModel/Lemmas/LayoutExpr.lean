/-
Layout independence, expression block: every production of the mutual block `pExpr … pExprListTail`
run on the tokens moved to position 0 returns the `keepNull`-image of its result (same fuel).
-/
import PqlModel.Lemmas.LayoutBasic
set_option linter.unusedSimpArgs false
set_option linter.unusedVariables false
namespace Pql.Layout
open Pql

theorem mapExprList_snoc (f : Span → Span) (x : Expr) : (acc : ExprList) →
    mapExprList f (acc.snoc x) = (mapExprList f acc).snoc (mapExpr f x)
  | .nil => by simp only [ExprList.snoc, mapExprList]
  | .cons e es => by simp only [ExprList.snoc, mapExprList, mapExprList_snoc f x es]

theorem snocNonNil_map (f : Span → Span) (acc : ExprList) (v : Expr) :
    (match mapExpr f v with | .nil => mapExprList f acc | x => (mapExprList f acc).snoc x) =
      mapExprList f (match v with | .nil => acc | x => acc.snoc x) := by
  cases v <;> simp only [mapExpr, mapExprList_snoc]

structure ExprLay (c : PCtx) (fuel : Nat) : Prop where
  expr : ∀ ts, pExpr c0 fuel (ts.map np) = mp (mapExpr keepNull) (pExpr c fuel ts)
  trail : ∀ x m acc ts, pTrail c0 fuel (mapExpr keepNull x) m (mapErrs keepNull acc) (ts.map np) =
    mp (mapExpr keepNull) (pTrail c fuel x m acc ts)
  higher : ∀ y p acc ts, pHigher c0 fuel (mapExpr keepNull y) p (mapErrs keepNull acc) (ts.map np) =
    mp (mapExpr keepNull) (pHigher c fuel y p acc ts)
  unary : ∀ ts, pUnary c0 fuel (ts.map np) = mp (mapExpr keepNull) (pUnary c fuel ts)
  primary : ∀ ts, pPrimary c0 fuel (ts.map np) = mp (mapExpr keepNull) (pPrimary c fuel ts)
  inner : ∀ ts, pInner c0 fuel (ts.map np) = mp (mapExpr keepNull) (pInner c fuel ts)
  exprList : ∀ ts, pExprList c0 fuel (ts.map np) = mp (mapExprList keepNull) (pExprList c fuel ts)
  exprListTail : ∀ acc ts, pExprListTail c0 fuel (mapExprList keepNull acc) (ts.map np) =
    mp (mapExprList keepNull) (pExprListTail c fuel acc ts)

theorem ExprLay.zero (c : PCtx) : ExprLay c 0 := by
  constructor <;> intros <;>
    simp_all [pExpr, pTrail, pHigher, pUnary, pPrimary, pInner, pExprList, pExprListTail, mp_mk, mapExpr,
      mapExprList]

variable {c : PCtx} {fuel : Nat}

theorem pExpr_step (ih : ExprLay c fuel) (ts : List Token) :
    pExpr c0 (fuel + 1) (ts.map np) = mp (mapExpr keepNull) (pExpr c (fuel + 1) ts) := by
  simp only [pExpr, ih.unary, mp_errs, isNF_mapErrs]
  csplit
  · simp only [mp_val, mp_rest]
    have := ih.trail (pUnary c fuel ts).val 0 [] (pUnary c fuel ts).rest
    simp only [mapErrs_nil] at this
    rw [this]
    simp_all [mp_mk]

theorem pTrail_step (ih : ExprLay c fuel) (x : Expr) (m : Int) (acc : Errs) (ts : List Token) :
    pTrail c0 (fuel + 1) (mapExpr keepNull x) m (mapErrs keepNull acc) (ts.map np) =
      mp (mapExpr keepNull) (pTrail c (fuel + 1) x m acc ts) := by
  cases ts with
  | nil => simp_all [pTrail, mp_mk]
  | cons op1 rest =>
    simp only [List.map_cons, pTrail, np_kind]
    csplit
    · simp_all [mp_mk]
    · csplit
      · cases rest with
        | nil => simp_all [mp_mk, mapExpr, mapExprList]
        | cons lp rest2 =>
          simp only [List.map_cons, np_kind]
          csplit
          · simp_all [mp_mk, mapExpr, mapExprList]
          · simp only [split_np_fst, split_np_snd, ih.exprList, mp_errs, mp_rest, mp_val, endSplit_np,
              mkOpaque_mapErrs]
            cases h : (split .rparen rest2).2 with
            | nil => simp_all [mp_mk, mapExpr]
            | cons rp rest3 =>
              simp only [List.map_cons, np_kind]
              csplit
              · simp_all [mp_mk, mapExpr]
              · rw [← ih.trail]
                simp_all [mapExpr]
      · simp only [ih.unary, mp_errs, mp_val, mp_rest, mkOpaque_mapErrs, ← mapErrs_append]
        rw [ih.higher]
        simp only [mp_val, mp_errs, mp_rest]
        rw [← ih.trail]
        simp_all [mapExpr]

theorem pHigher_step (ih : ExprLay c fuel) (y : Expr) (p : Int) (acc : Errs) (ts : List Token) :
    pHigher c0 (fuel + 1) (mapExpr keepNull y) p (mapErrs keepNull acc) (ts.map np) =
      mp (mapExpr keepNull) (pHigher c (fuel + 1) y p acc ts) := by
  cases ts with
  | nil => simp_all [pHigher, mp_mk]
  | cons op2 rest =>
    simp only [List.map_cons, pHigher, np_kind]
    csplit
    · simp_all [mp_mk]
    · have := ih.trail y (p + 1) [] (op2 :: rest)
      simp only [mapErrs_nil, List.map_cons] at this
      rw [this]
      simp only [mp_val, mp_errs, mp_rest, mkOpaque_mapErrs, ← mapErrs_append]
      rw [ih.higher]

theorem pUnary_step (ih : ExprLay c fuel) (ts : List Token) :
    pUnary c0 (fuel + 1) (ts.map np) = mp (mapExpr keepNull) (pUnary c (fuel + 1) ts) := by
  cases ts with
  | nil => simp_all [pUnary, mp_mk, mapExpr]
  | cons t rest =>
    simp only [List.map_cons, pUnary, np_kind]
    csplit
    · simp_all [ih.primary, mp_mk, mapExpr]
    · have := ih.primary (t :: rest)
      simp only [List.map_cons] at this
      rw [this]

theorem pPrimary_step (ih : ExprLay c fuel) (ts : List Token) :
    pPrimary c0 (fuel + 1) (ts.map np) = mp (mapExpr keepNull) (pPrimary c (fuel + 1) ts) := by
  simp only [pPrimary, ih.inner, mp_errs, mp_val, mp_rest, ne_eq, mapErrs_eq_nil]
  csplit
  · cases h : (pInner c fuel ts).rest with
    | nil => simp_all [mp_mk]
    | cons t rest =>
      simp only [List.map_cons, np_kind]
      csplit
      · simp only [split_np_fst, split_np_snd, ih.expr, mp_errs, mp_rest, mp_val, endSplit_np,
          mkOpaque_mapErrs]
        cases h2 : (split .rbracket rest).2 with
        | nil => simp_all [mp_mk, mapExpr]
        | cons rb rest2 =>
          simp only [List.map_cons, np_kind]
          csplit <;> simp_all [mp_mk, mapExpr]
      · simp_all [mp_mk]

theorem pExprList_step (ih : ExprLay c fuel) (ts : List Token) :
    pExprList c0 (fuel + 1) (ts.map np) = mp (mapExprList keepNull) (pExprList c (fuel + 1) ts) := by
  simp only [pExprList, ih.expr, mp_errs, mp_val, mp_rest, ne_eq, mapErrs_eq_nil]
  csplit
  · simp_all [mp_mk, mapExprList]
  · have := ih.exprListTail (.cons (pExpr c fuel ts).val .nil) (pExpr c fuel ts).rest
    simp only [mapExprList] at this
    rw [this]

theorem pExprListTail_step (ih : ExprLay c fuel) (acc : ExprList) (ts : List Token) :
    pExprListTail c0 (fuel + 1) (mapExprList keepNull acc) (ts.map np) =
      mp (mapExprList keepNull) (pExprListTail c (fuel + 1) acc ts) := by
  cases ts with
  | nil => simp_all [pExprListTail, mp_mk]
  | cons t rest =>
    simp only [List.map_cons, pExprListTail, np_kind]
    csplit
    · simp_all [mp_mk]
    · simp only [ih.expr, mp_errs, mp_val, mp_rest, isNF_mapErrs, ne_eq, mapErrs_eq_nil,
        mkOpaque_mapErrs]
      generalize (pExpr c fuel rest).val = v
      csplit
      · simp [mp_mk]
      · csplit
        · cases v <;> simp [mp_mk, mapExpr, mapExprList_snoc]
        · cases v <;> simp only [mapExpr] <;> rw [← ih.exprListTail] <;> simp only [mapExprList_snoc, mapExpr]

theorem pInner_step (ih : ExprLay c fuel) (ts : List Token) :
    pInner c0 (fuel + 1) (ts.map np) = mp (mapExpr keepNull) (pInner c (fuel + 1) ts) := by
  cases ts with
  | nil => simp [pInner, mp_mk, mapExpr]
  | cons t rest =>
    have hq := pQualifiedIdent_np c (t :: rest)
    simp only [List.map_cons] at hq
    simp only [List.map_cons, pInner, np_kind, hq, mp_val, mp_errs, mp_rest]
    csplit
    · simp [mp_mk, mapExpr]
    · csplit
      · cases hv : (pQualifiedIdent c (t :: rest)).val with
        | none => simp [mp_mk, mapExpr]
        | some parts =>
          simp only [Option.map_some, ne_eq, mapErrs_eq_nil, List.length_map]
          csplit
          · simp [mp_mk, mapExpr]
          · csplit
            · simp [mp_mk, mapExpr]
            · cases hr : (pQualifiedIdent c (t :: rest)).rest with
              | nil => simp [mp_mk, mapExpr]
              | cons lp rest2 =>
                simp only [List.map_cons, np_kind]
                csplit
                · simp [mp_mk, mapExpr]
                · simp only [split_np_fst, split_np_snd, ih.exprList, mp_errs, mp_val, mp_rest, isNF_mapErrs,
                    mapErrs_eq_nil]
                  generalize pExprList c fuel (split .rparen rest2).1 = ra
                  obtain ⟨rv, re, rr⟩ := ra
                  have h1 : (if isNF re = true then [] else mapErrs keepNull re) =
                      mapErrs keepNull (if isNF re = true then [] else re) := by split <;> rfl
                  simp only [h1]
                  rcases rr with _ | ⟨cm, more⟩
                  · simp only [List.map_nil, ite_self]
                    cases hs : (split .rparen rest2).2 with
                    | nil => simp [mp_mk, mapExpr, mapIdent]
                    | cons rp rest3 =>
                      simp only [List.map_cons, np_kind]
                      csplit <;> simp [mp_mk, mapExpr, mapIdent]
                  · simp only [List.map_cons, np_kind]
                    by_cases hc : cm.kind = .comma <;> by_cases he : re = [] <;>
                      simp only [hc, he, if_true, if_false] <;>
                      (cases hs : (split .rparen rest2).2 with
                        | nil => simp [mp_mk, mapExpr, mapIdent]
                        | cons rp rest3 =>
                          simp only [List.map_cons, np_kind]
                          csplit <;> simp [mp_mk, mapExpr, mapIdent])
      · csplit
        · cases hv : (pQualifiedIdent c (t :: rest)).val <;> simp [mp_mk, mapExpr]
        · csplit
          · simp only [split_np_fst, split_np_snd, ih.expr, mp_errs, mp_val, mp_rest, endSplit_np,
              mkOpaque_mapErrs]
            cases hs : (split .rparen rest).2 with
            | nil => simp [mp_mk, mapExpr]
            | cons rp rest2 =>
              simp only [List.map_cons, np_kind]
              csplit <;> simp [mp_mk, mapExpr]
          · simp [mp_mk, mapExpr]

/-- **expression block**: all eight productions commute with forgetting positions, for every fuel -/
theorem exprLay (c : PCtx) : ∀ fuel, ExprLay c fuel
  | 0 => ExprLay.zero c
  | fuel + 1 =>
    have ih := exprLay c fuel
    ⟨pExpr_step ih, pTrail_step ih, pHigher_step ih, pUnary_step ih, pPrimary_step ih, pInner_step ih,
      pExprList_step ih, pExprListTail_step ih⟩

end Pql.Layout
