/-
Property C16, semantic half — the spans of sliced columns are token spans.

`colsGood_of_parse`: every tabular statement an error-free `parse` returns has `goodSp` spans
(`0 ≤ start < stop`) in every span field of every extend / summarize column expression, at any
depth.  Route: `C08_accounted_parse` (every claimed position of the tree's `unparse` equals the
position of a scanned token) + every scanned token is non-empty (`TokP_scan`).
-/
import PqlModel.Lemmas.CliSemDefs
import PqlModel.Lemmas.SpanExtentTop
import PqlModel.Props.C08Full
namespace Pql.CliSem
open Pql Pql.Grammar Pql.Piecewise
set_option linter.unusedSimpArgs false

/-- a claimed position pair, when both halves are recorded, is that of a non-empty token -/
def UOK (u : UTok) : Prop := ∀ a b, u.start = some a → u.stop = some b → 0 ≤ a ∧ a < b

def AllOK (us : List UTok) : Prop := ∀ u ∈ us, UOK u

theorem AllOK_nil : AllOK [] := fun _ h => by cases h

theorem AllOK_cons {u : UTok} {us : List UTok} : AllOK (u :: us) ↔ UOK u ∧ AllOK us := by
  simp only [AllOK, List.mem_cons, forall_eq_or_imp]

theorem AllOK_append {a b : List UTok} : AllOK (a ++ b) ↔ AllOK a ∧ AllOK b := by
  simp only [AllOK, List.mem_append]
  exact ⟨fun h => ⟨fun u hu => h u (Or.inl hu), fun u hu => h u (Or.inr hu)⟩,
    fun h u hu => hu.elim (h.1 u) (h.2 u)⟩

/-! ### Lemma A: `accounts true` against non-empty tokens -/

theorem uok_of_posMatches {u : UTok} {t : Token} (hp : posMatches u t = true) (ht : t.start < t.stop) :
    UOK u := by
  intro a b ha hb
  simp only [posMatches, ha, hb, Bool.and_eq_true, beq_iff_eq] at hp
  omega

theorem accounts_uok : ∀ (us : List UTok) (ts : List Token), accounts true us ts = true → TokP ts → AllOK us
  | [], _, _, _ => AllOK_nil
  | _ :: _, [], h, _ => by simp [accounts] at h
  | u :: us, t :: ts, h, hp => by
    rw [TokP_cons] at hp
    simp only [accounts, Bool.not_true, Bool.false_or] at h
    rw [AllOK_cons]
    split at h
    · rename_i hm
      simp only [Bool.and_eq_true] at hm
      exact ⟨uok_of_posMatches hm.2 hp.1, accounts_uok us ts h hp.2⟩
    · split at h
      · cases ts with
        | nil => cases h
        | cons t2 ts2 =>
          simp only [Bool.and_eq_true] at h
          have hp2 := hp.2
          rw [TokP_cons] at hp2
          exact ⟨uok_of_posMatches h.1.2 hp2.1, accounts_uok us ts2 h.2 hp2.2⟩
      · cases h

/-! ### Lemma B: expressions -/

theorem goodSp_of_uok {u : UTok} {sp : Span} (h : UOK u) (h1 : u.start = some sp.start)
    (h2 : u.stop = some sp.stop) : goodSp sp = true := by
  have := h _ _ h1 h2
  simp only [goodSp, Bool.and_eq_true, decide_eq_true_eq]
  exact this

theorem sym_good {k : TokKind} {sp : Span} (h : UOK (sym k sp)) : goodSp sp = true :=
  goodSp_of_uok h rfl rfl

theorem symOpt_good {k : TokKind} {sp : Span} {b : Bool} (h : UOK { sym k sp with optComma := b }) :
    goodSp sp = true :=
  goodSp_of_uok h rfl rfl

theorem ident_good {i : Ident} (h : UOK (identTok i)) : goodIdent i = true :=
  goodSp_of_uok h rfl rfl

theorem identsDotted_good : ∀ (parts : List Ident), AllOK (identsDotted parts) → parts.all goodIdent = true
  | [], _ => rfl
  | [i], h => by
    simp only [identsDotted, AllOK_cons] at h
    simp only [List.all_cons, List.all_nil, Bool.and_true]
    exact ident_good h.1
  | i :: j :: is, h => by
    simp only [identsDotted, AllOK_cons] at h
    have ih := identsDotted_good (j :: is) (by simpa only [identsDotted, AllOK_cons] using h.2.2)
    rw [List.all_cons, ih, ident_good h.1]
    rfl

mutual
theorem goodE_of_unparse : (e : Expr) → (us : List UTok) → unparseExpr e = some us → AllOK us → goodE e = true
  | .nil, _, _, _ => by simp only [goodE]
  | .qident parts, us, h, hu => by
    simp only [unparseExpr] at h
    split at h
    · cases h
    · cases h
      simp only [goodE]
      exact identsDotted_good parts hu
  | .lit sp k v, us, h, hu => by
    simp only [unparseExpr, Option.some.injEq] at h
    subst h
    simp only [AllOK_cons] at hu
    simp only [goodE]
    exact goodSp_of_uok hu.1 rfl rfl
  | .unary os op x, us, h, hu => by
    simp only [unparseExpr, Option.bind_eq_bind, Option.bind_eq_some_iff, Option.pure_def, Option.some.injEq] at h
    obtain ⟨xs, hx, rfl⟩ := h
    simp only [AllOK_cons] at hu
    simp only [goodE, Bool.and_eq_true]
    exact ⟨sym_good hu.1, goodE_of_unparse x xs hx hu.2⟩
  | .binary x os op y, us, h, hu => by
    simp only [unparseExpr, Option.bind_eq_bind, Option.bind_eq_some_iff, Option.pure_def, Option.some.injEq] at h
    obtain ⟨xs, hx, ys, hy, rfl⟩ := h
    simp only [List.append_assoc, List.cons_append, List.nil_append, AllOK_append, AllOK_cons] at hu
    simp only [goodE, Bool.and_eq_true]
    exact ⟨⟨goodE_of_unparse x xs hx hu.1, sym_good hu.2.1⟩, goodE_of_unparse y ys hy hu.2.2⟩
  | .inE x i lp vals rp, us, h, hu => by
    simp only [unparseExpr, Option.bind_eq_bind, Option.bind_eq_some_iff, Option.pure_def, Option.some.injEq] at h
    obtain ⟨xs, hx, vs, hv, rfl⟩ := h
    simp only [List.append_assoc, List.cons_append, List.nil_append, AllOK_append, AllOK_cons] at hu
    simp only [goodE, Bool.and_eq_true]
    exact ⟨⟨⟨⟨goodE_of_unparse x xs hx hu.1, sym_good hu.2.1⟩, sym_good hu.2.2.1⟩,
      goodL_of_unparse vals vs hv hu.2.2.2.1⟩, sym_good hu.2.2.2.2.1⟩
  | .paren lp x rp, us, h, hu => by
    simp only [unparseExpr, Option.bind_eq_bind, Option.bind_eq_some_iff, Option.pure_def, Option.some.injEq] at h
    obtain ⟨xs, hx, rfl⟩ := h
    simp only [List.append_assoc, List.cons_append, List.nil_append, AllOK_append, AllOK_cons] at hu
    simp only [goodE, Bool.and_eq_true]
    exact ⟨⟨sym_good hu.1, goodE_of_unparse x xs hx hu.2.1⟩, sym_good hu.2.2.1⟩
  | .call fn lp args rp, us, h, hu => by
    simp only [unparseExpr, Option.bind_eq_bind, Option.bind_eq_some_iff, Option.pure_def, Option.some.injEq] at h
    obtain ⟨as, ha, rfl⟩ := h
    simp only [List.append_assoc, List.cons_append, List.nil_append, AllOK_append, AllOK_cons] at hu
    simp only [goodE, Bool.and_eq_true]
    exact ⟨⟨⟨ident_good hu.1, sym_good hu.2.1⟩, goodL_of_unparse args as ha hu.2.2.1⟩, symOpt_good hu.2.2.2.1⟩
  | .index x lb idx rb, us, h, hu => by
    simp only [unparseExpr, Option.bind_eq_bind, Option.bind_eq_some_iff, Option.pure_def, Option.some.injEq] at h
    obtain ⟨xs, hx, is, hi, rfl⟩ := h
    simp only [List.append_assoc, List.cons_append, List.nil_append, AllOK_append, AllOK_cons] at hu
    simp only [goodE, Bool.and_eq_true]
    exact ⟨⟨⟨goodE_of_unparse x xs hx hu.1, sym_good hu.2.1⟩, goodE_of_unparse idx is hi hu.2.2.1⟩,
      sym_good hu.2.2.2.1⟩
theorem goodL_of_unparse : (es : ExprList) → (us : List UTok) → unparseExprList es = some us → AllOK us →
    goodL es = true
  | .nil, _, _, _ => by simp only [goodL]
  | .cons e .nil, us, h, hu => by
    simp only [unparseExprList] at h
    simp only [goodL, Bool.and_true]
    exact goodE_of_unparse e us h hu
  | .cons e (.cons e2 es), us, h, hu => by
    simp only [unparseExprList, Option.bind_eq_bind, Option.bind_eq_some_iff, Option.pure_def,
      Option.some.injEq] at h
    obtain ⟨a, ha, b, hb, rfl⟩ := h
    simp only [List.append_assoc, List.cons_append, List.nil_append, AllOK_append, AllOK_cons] at hu
    have h1 := goodE_of_unparse e a ha hu.1
    have h2 := goodL_of_unparse (.cons e2 es) b hb hu.2.2
    rw [goodL, h1, h2]
    rfl
end

/-! ### Lemma C: columns -/

theorem goodCol_of_unparse (c : Column) (us : List UTok) (h : unparseColumn false c = some us) (hu : AllOK us) :
    goodE c.x = true := by
  unfold unparseColumn at h
  split at h
  · split at h
    · simp only [Option.bind_eq_bind, Option.bind_eq_some_iff, Option.pure_def, Option.some.injEq] at h
      obtain ⟨xs, hx, rfl⟩ := h
      simp only [AllOK_cons] at hu
      exact goodE_of_unparse c.x xs hx hu.2.2
    · simp at h
  · split at h
    · cases h
    · exact goodE_of_unparse c.x us h hu

theorem AllOK_sepBy_cons {sep : UTok} {x : List UTok} {xs : List (List UTok)} (h : AllOK (sepBy sep (x :: xs))) :
    AllOK x ∧ AllOK (sepBy sep xs) := by
  cases xs with
  | nil => exact ⟨h, AllOK_nil⟩
  | cons y ys =>
    rw [sepBy_cons_cons, AllOK_append, AllOK_cons] at h
    exact ⟨h.1, h.2.2⟩

theorem goodCols_of_unparse : ∀ (cs : List Column) (css : List (List UTok)),
    listM (unparseColumn false) cs = some css → AllOK (sepBy commaTok css) → goodCols cs = true
  | [], _, _, _ => rfl
  | c :: cs, css, h, hu => by
    obtain ⟨y, ys, hy, hys, rfl⟩ := listM_cons_inv h
    have := AllOK_sepBy_cons hu
    have h1 := goodCol_of_unparse c y hy this.1
    have h2 := goodCols_of_unparse cs ys hys this.2
    simp only [goodCols] at h2 ⊢
    rw [List.all_cons, h1, h2]
    rfl

/-! ### Lemma D: operators, pipelines, statements -/

theorem goodOp_extend {p k : Span} {cs : List Column} {us : List UTok}
    (h : unparseOp (.extend p k cs) = some us) (hu : AllOK us) : goodCols cs = true := by
  cases cs with
  | nil => rfl
  | cons c0 cs' =>
    cases hl : listM (unparseColumn false) (c0 :: cs') with
    | none => simp [unparseOp, hl] at h
    | some css =>
      rw [unparse_extend p k (by simp) hl, Option.some.injEq] at h
      subst h
      simp only [AllOK_cons] at hu
      exact goodCols_of_unparse _ css hl hu.2.2

theorem goodOp_summarize {p k b : Span} {cs gs : List Column} {us : List UTok}
    (h : unparseOp (.summarize p k cs b gs) = some us) (hu : AllOK us) :
    (goodCols cs && goodCols gs) = true := by
  cases hl : listM (unparseColumn false) cs with
  | none => simp [unparseOp, hl] at h
  | some css =>
    cases hg : listM (unparseColumn false) gs with
    | none => simp [unparseOp, hl, hg] at h
    | some gss =>
      cases hb : b.isValid
      · cases gs with
        | cons g0 gs' => simp [unparseOp, hl, hg, hb] at h
        | nil =>
          cases cs with
          | nil => rfl
          | cons c0 cs' =>
            simp only [unparseOp, hl, hg, hb, Option.bind_eq_bind, Option.pure_def, Option.bind_some,
              Bool.false_eq_true, if_false, List.isEmpty_cons, List.isEmpty_nil, Bool.not_true, Bool.or_self,
              Option.some.injEq] at h
            subst h
            simp only [AllOK_cons] at hu
            rw [goodCols_of_unparse _ css hl hu.2.2]
            rfl
      · cases gs with
        | nil => simp [unparseOp, hl, hg, hb] at h
        | cons g0 gs' =>
          rw [unparse_summarize_by p k b hb (by simp) hl hg, Option.some.injEq] at h
          subst h
          simp only [List.append_assoc, List.cons_append, List.nil_append, AllOK_append, AllOK_cons] at hu
          rw [goodCols_of_unparse cs css hl hu.2.2.1, goodCols_of_unparse _ gss hg hu.2.2.2.2]
          rfl

theorem join_right_inv {p k kind ka : Span} {fl : Option Ident} {lp : Span} {right : Tabular} {rp on : Span}
    {conds : ExprList} {us : List UTok}
    (h : unparseOp (.join p k kind ka fl lp right rp on conds) = some us) (hu : AllOK us) :
    ∃ r, unparseTabular right = some r ∧ AllOK r := by
  cases hr : unparseTabular right with
  | none => simp [unparseOp, hr] at h
  | some r =>
    refine ⟨r, rfl, ?_⟩
    cases hc : unparseExprList conds with
    | none => simp [unparseOp, hr, hc] at h
    | some cs =>
      cases conds with
      | nil => simp [unparseOp, hr, hc, ExprList.length] at h
      | cons e es =>
        cases fl with
        | some f =>
          rw [unparse_join_kind p k kind ka lp rp on f hr hc (by simp), Option.some.injEq] at h
          subst h
          simp only [List.append_assoc, List.cons_append, List.nil_append, AllOK_append, AllOK_cons] at hu
          exact hu.2.2.2.2.2.2.1
        | none =>
          cases hv : (kind.isValid || ka.isValid)
          · simp only [unparseOp, hr, hc, hv, Option.bind_eq_bind, Option.pure_def, Option.bind_some,
              ExprList.length, Bool.false_eq_true, if_false] at h
            rw [if_neg (by omega), Option.some.injEq] at h
            subst h
            simp only [List.append_assoc, List.cons_append, List.nil_append, AllOK_append, AllOK_cons] at hu
            exact hu.2.2.2.1
          · simp [unparseOp, hr, hc, hv, ExprList.length] at h

mutual
theorem tabAll_of_unparse : (t : Tabular) → (us : List UTok) → unparseTabular t = some us → AllOK us →
    TabAll goodOp t = true
  | .nil, _, _, _ => by simp only [TabAll]
  | .mk src ops, us, h, hu => by
    simp only [unparseTabular, Option.bind_eq_bind, Option.bind_eq_some_iff, Option.pure_def,
      Option.some.injEq] at h
    obtain ⟨s, _, os, hos, rfl⟩ := h
    simp only [AllOK_cons] at hu
    simp only [TabAll]
    exact opsAll_of_unparse ops os hos hu.2
theorem opsAll_of_unparse : (ops : OpList) → (us : List UTok) → unparseOps ops = some us → AllOK us →
    OpsAll goodOp ops = true
  | .nil, _, _, _ => by simp only [OpsAll]
  | .cons o os, us, h, hu => by
    obtain ⟨a, b, ha, hb, rfl⟩ := unparseOps_cons_inv h
    rw [AllOK_append] at hu
    simp only [OpsAll, Bool.and_eq_true]
    refine ⟨?_, opsAll_of_unparse os b hb hu.2⟩
    cases o with
    | join p k kind ka fl lp right rp on conds =>
      obtain ⟨r, hr, hur⟩ := join_right_inv ha hu.1
      simp only [OpAll]
      exact tabAll_of_unparse right r hr hur
    | extend p k cs => simp only [OpAll, goodOp]; exact goodOp_extend ha hu.1
    | summarize p k cs b' gs => simp only [OpAll, goodOp]; exact goodOp_summarize ha hu.1
    | count => rfl
    | where_ => rfl
    | sort => rfl
    | take => rfl
    | top => rfl
    | project => rfl
    | as_ => rfl
    | render => rfl
end

theorem colsGoodStmt_of_unparse (st : Stmt) (us : List UTok) (h : unparseStmt st = some us) (hu : AllOK us) :
    colsGoodStmt st = true := by
  cases st with
  | let_ => rfl
  | tabular t =>
    simp only [unparseStmt] at h
    simp only [colsGoodStmt, colsGood]
    exact tabAll_of_unparse t us h hu

/-! ### assembling with C08 -/

/-- every tabular statement an error-free parse returns has token spans in all sliced columns -/
theorem colsGood_of_parse (src : Bytes) (stmts : List Stmt) (h : parse src = (stmts, [])) :
    ∀ st ∈ stmts, colsGoodStmt st = true := by
  have hF := C08.C08_accounted_parse src stmts h
  have hsub := splitStatementsToks_sublist (scan src)
  generalize splitStatementsToks (scan src) = gs at hF hsub
  clear h
  induction hF with
  | nil => intro st hst; cases hst
  | @cons a g l₁ l₂ hab _ ih =>
    intro st hst
    rcases List.mem_cons.1 hst with rfl | hst
    · obtain ⟨us, hus, hacc⟩ := hab
      have hg : TokP g := fun t ht => TokP_scan src t ((hsub g (List.mem_cons_self ..)).subset ht)
      exact colsGoodStmt_of_unparse _ us hus (accounts_uok us g hacc hg)
    · exact ih (fun g' hg' => hsub g' (List.mem_cons_of_mem _ hg')) st hst

end Pql.CliSem
