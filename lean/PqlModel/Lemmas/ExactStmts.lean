/-
C13 exactness, stage 4: the statement loop (`compileStmts`) against `Misuse.misuseStmts`, and
the rest of `compileChunks` (split, write the CTEs and the query).
-/
import PqlModel.Lemmas.ExactSplit
namespace Pql.Exact
open Pql

/-- what `compileChunks` does after the statement loop -/
def finishW (src : Bytes) (sq : List (Bytes × List Chunk) × Option Tabular) : W :=
  match sq with
  | (scope, q) =>
  match q with
  | none => .error .err
  | some t => do
    let subs ← splitQueries src scope [] t
    let ctx : Ctx := ⟨src, scope, .default⟩
    match subs.reverse with
    | [] => .error .panic
    | query :: ctesRev =>
      let ctes := ctesRev.reverse
      let withPart ← if ctes.isEmpty then pure [] else do
        let c ← writeCtes ctx ctes
        pure (.txt "WITH " :: c)
      let body ← query.write ctx
      pure (withPart ++ body ++ [.txt ";"])

theorem compileChunks_eq (src : Bytes) (params : List (Bytes × Bytes)) (stmts : List Stmt) :
    compileChunks src params stmts =
      (compileStmts src stmts (params.map fun kv => (kv.1, [Chunk.raw kv.2])) none >>= finishW src) := rfl

theorem finish_agrees (src : Bytes) (scope : List (Bytes × List Chunk)) (t : Tabular)
    (hw : wfTabular t = true) (hs : spansTabular src t = true) :
    Agrees (finishW src (scope, some t)) (Misuse.badTabular (names scope) t) := by
  have hsplit := splitQueries_spec src scope t [] hw hs (fun s hs => by cases hs)
  unfold finishW
  simp only []
  cases hr : splitQueries src scope [] t with
  | error e =>
    rw [hr] at hsplit
    cases e with
    | err =>
      have hb : Misuse.badTabular (names scope) t = true := hsplit
      rw [hb]
      exact Agrees.err
    | panic => exact absurd hsplit id
  | ok subs =>
    rw [hr] at hsplit
    obtain ⟨hok, hany, hlen⟩ := hsplit
    rw [List.any_nil, Bool.false_or] at hany
    show Agrees (match subs.reverse with
      | [] => .error .panic
      | query :: ctesRev => _) _
    cases hrev : subs.reverse with
    | nil =>
      have : subs.length = 0 := by rw [← List.length_reverse, hrev]; rfl
      rw [this] at hlen
      exact absurd hlen (by decide)
    | cons query ctesRev =>
      have hsubs : subs = ctesRev.reverse ++ [query] := by
        rw [← List.reverse_reverse subs, hrev, List.reverse_cons]
      simp only []
      rw [← hany, hsubs, any_append_singleton]
      have hokc : ∀ s ∈ ctesRev.reverse, subOK src s = true :=
        fun s hs => hok s (by rw [hsubs]; exact List.mem_append_left _ hs)
      have hokq : subOK src query = true := hok query (by rw [hsubs]; simp)
      have hq := write_agrees src scope query hokq
      by_cases he : ctesRev.reverse.isEmpty = true
      · rw [if_pos he]
        rw [List.isEmpty_iff] at he
        rw [he, List.any_nil]
        exact Agrees.bind (Agrees.pure _) (fun wp => Agrees.bind_pure _ hq)
      · rw [if_neg he]
        exact Agrees.bind (writeCtes_agrees src scope _ hokc)
          (fun c => (Agrees.bind (Agrees.pure _) (fun wp => Agrees.bind_pure _ hq)).of_eq (Bool.false_or _))

/-- the specification verdict for the statements still to come, given the query seen so far -/
def restBad (stmts : List Stmt) (bound : List Bytes) : Option Tabular → Bool
  | none => Misuse.misuseStmts stmts bound 0
  | some t => Misuse.badTabular bound t || Misuse.misuseStmts stmts bound 1

theorem compileStmts_agrees (src : Bytes) :
    ∀ (stmts : List Stmt) (scope : List (Bytes × List Chunk)) (q : Option Tabular),
      (∀ s ∈ stmts, wfStmt s = true) → SpansInside src stmts = true →
      (∀ t, q = some t → wfTabular t = true ∧ spansTabular src t = true) →
      Agrees (compileStmts src stmts scope q >>= finishW src) (restBad stmts (names scope) q)
  | [], scope, q, _, _, hq => by
    rw [compileStmts]
    show Agrees (finishW src (scope, q)) _
    cases q with
    | none => exact Agrees.err
    | some t =>
      refine (finish_agrees src scope t (hq t rfl).1 (hq t rfl).2).of_eq ?_
      show _ = (_ || Misuse.misuseStmts [] _ 1)
      rw [Misuse.misuseStmts]
      exact (Bool.or_false _).symm
  | .tabular t' :: rest, scope, q, hw, hs, hq => by
    unfold SpansInside at hs
    rw [List.all_cons, Bool.and_eq_true] at hs
    cases q with
    | some t =>
      rw [compileStmts]
      refine Agrees.err.of_eq ?_
      show true = (_ || Misuse.misuseStmts (.tabular t' :: rest) _ 1)
      rw [Misuse.misuseStmts, if_pos (by decide), Bool.or_true]
    | none =>
      rw [compileStmts]
      have ih := compileStmts_agrees src rest scope (some t')
        (fun s hs' => hw s (List.mem_cons_of_mem _ hs')) hs.2
        (fun t ht => by
          cases ht
          exact ⟨hw (.tabular t') (List.mem_cons_self ..), hs.1⟩)
      refine ih.of_eq ?_
      show (_ || _) = Misuse.misuseStmts (.tabular t' :: rest) _ 0
      rw [Misuse.misuseStmts, if_neg (by decide)]
  | .let_ kw name asg x :: rest, scope, q, hw, hs, hq => by
    unfold SpansInside at hs
    rw [List.all_cons, Bool.and_eq_true] at hs
    have hwrest : ∀ s ∈ rest, wfStmt s = true := fun s hs' => hw s (List.mem_cons_of_mem _ hs')
    cases q with
    | some t =>
      rw [compileStmts]
      refine (compileStmts_agrees src rest scope (some t) hwrest hs.2 hq).of_eq ?_
      show (_ || _) = (_ || Misuse.misuseStmts (.let_ kw name asg x :: rest) _ 1)
      cases name <;> rw [Misuse.misuseStmts, if_pos (by decide)]
    | none =>
      have hwx := hw (.let_ kw name asg x) (List.mem_cons_self ..)
      rw [wfStmt, Bool.and_eq_true] at hwx
      have hx := writeExpr_agrees ⟨src, scope, .let_⟩ x hwx.2
      cases name with
      | none => cases hwx.1
      | some n =>
        rw [compileStmts]
        show Agrees _ (Misuse.misuseStmts (.let_ kw (some n) asg x :: rest) _ 0)
        rw [Misuse.misuseStmts, if_neg (by decide)]
        cases hr : writeExpr ⟨src, scope, .let_⟩ x with
        | error e =>
          rw [hr] at hx
          cases e with
          | err =>
            have hb : Misuse.badExpr .letValue (names scope) x = true := hx
            rw [hb, Bool.true_or]
            exact Agrees.err
          | panic => exact absurd hx id
        | ok sql =>
          rw [hr] at hx
          have hb : Misuse.badExpr .letValue (names scope) x = false := hx
          rw [hb, Bool.false_or]
          exact compileStmts_agrees src rest ((n.name, wrapTight x sql) :: scope) none hwrest hs.2
            (fun t ht => by cases ht)

/-- **stage 4**: `compileChunks` agrees with the misuse specification -/
theorem compileChunks_agrees (src : Bytes) (params : List (Bytes × Bytes)) (stmts : List Stmt)
    (hwf : ∀ s ∈ stmts, wfStmt s = true) (hspans : SpansInside src stmts = true) :
    Agrees (compileChunks src params stmts) (Misuse.misuse (params.map (·.1)) stmts) := by
  rw [compileChunks_eq]
  have h := compileStmts_agrees src stmts (params.map fun kv => (kv.1, [Chunk.raw kv.2])) none hwf hspans
    (fun t ht => by cases ht)
  refine h.of_eq ?_
  show Misuse.misuseStmts stmts _ 0 = Misuse.misuseStmts stmts _ 0
  unfold names
  rw [List.map_map]
  rfl

end Pql.Exact
