/-
Lemmas about the `Walk` model (`PqlModel/Model/Walk.lean`):

* `children_size`: the sizes of the children a case pushes sum up to strictly less than the
  size of the node, so `Node.size` is a termination measure for recursion through
  `Node.children` (and `n.size + 1` is enough fuel for `walkLoop`);
* the recursive pre-order specification `preNode` / `preList` (well-founded recursion on the
  size), `allNodes`, the predicates `NoPanic` / `Complete`;
* `walkLoop_eq_preList`: the explicit-stack loop computes the recursive pre-order.
-/
import PqlModel.Model.Walk
namespace Pql

/-! ### sizes -/

/-- total size of a stack -/
def totalSize (ns : List Node) : Nat := (ns.map Node.size).sum

@[simp] theorem totalSize_nil : totalSize [] = 0 := rfl
@[simp] theorem totalSize_cons (n : Node) (ns : List Node) :
    totalSize (n :: ns) = n.size + totalSize ns := by simp [totalSize]
@[simp] theorem totalSize_append (a b : List Node) :
    totalSize (a ++ b) = totalSize a + totalSize b := by simp [totalSize]

theorem totalSize_exprs : (es : ExprList) → totalSize (es.toList.map .expr) = es.size
  | .nil => by simp [ExprList.toList, ExprList.size]
  | .cons e es => by simp [ExprList.toList, ExprList.size, Node.size, totalSize_exprs es]

theorem totalSize_ops : (os : OpList) → totalSize (os.toList.map .op) = os.size
  | .nil => by simp [OpList.toList, OpList.size]
  | .cons o os => by simp [OpList.toList, OpList.size, Node.size, totalSize_ops os]

theorem totalSize_idents (l : List Ident) :
    totalSize (l.map fun i => .ident (some i)) = l.length := by
  induction l with
  | nil => rfl
  | cons a l ih => simp [Node.size, ih]; omega

theorem totalSize_sortTerms (l : List SortTerm) :
    totalSize (l.map fun t => .sortTerm (some t)) = (l.map SortTerm.size).sum := by
  induction l with
  | nil => rfl
  | cons a l ih => simp [Node.size, ih]

theorem totalSize_columns (k : ColKind) (l : List Column) :
    totalSize (l.map (.column k)) = (l.map Column.size).sum := by
  induction l with
  | nil => rfl
  | cons a l ih => simp [Node.size, ih]

theorem totalSize_optExpr (e : Expr) : totalSize (optExpr e) ≤ e.size := by
  cases e <;> simp [optExpr, Node.size, Expr.size]

theorem totalSize_optIdent (i : Option Ident) : totalSize (optIdent i) ≤ 1 := by
  cases i <;> simp [optIdent, Node.size]

theorem totalSize_renderProps (l : List RenderProp) :
    totalSize (l.flatMap fun p => .ident p.name :: optExpr p.value)
      ≤ (l.map fun p => p.value.size + 1).sum := by
  induction l with
  | nil => simp
  | cons a l ih =>
    have h := totalSize_optExpr a.value
    simp [Node.size] at ih ⊢
    omega

/-- The children a case pushes are, together, strictly smaller than the node. -/
theorem children_size (n : Node) (kids : List Node) (h : n.children = some kids) :
    totalSize kids < n.size := by
  cases n with
  | ident i => simp [Node.children] at h; subst h; simp [Node.size]
  | expr e =>
    cases e <;> simp [Node.children] at h <;> subst h <;>
      simp [Node.size, Expr.size, totalSize_idents, totalSize_exprs] <;> omega
  | tabular t =>
    cases t <;> simp [Node.children] at h
    subst h; simp [Node.size, Tabular.size, totalSize_ops]; omega
  | tableRef t => simp [Node.children] at h; subst h; simp [Node.size]
  | op o =>
    cases o with
    | top p k n b c =>
      simp [Node.children] at h; subst h
      cases c <;> simp [Node.size, Op.size] <;> omega
    | render p k ch w lp props rp =>
      simp [Node.children] at h; subst h
      have := totalSize_renderProps props
      simp [Node.size, Op.size]; omega
    | _ =>
      simp [Node.children] at h <;> subst h <;>
      simp [Node.size, Op.size, totalSize_sortTerms, totalSize_columns, totalSize_exprs] <;> omega
  | sortTerm t =>
    cases t <;> simp [Node.children] at h
    subst h; simp [Node.size, SortTerm.size]
  | column k c =>
    have h1 := totalSize_optExpr c.x
    have h2 := totalSize_optIdent c.name
    cases k <;> simp [Node.children] at h <;> subst h <;>
      simp [Node.size, Column.size] <;> omega
  | letStmt kw nm a x => simp [Node.children] at h; subst h; simp [Node.size]; omega

theorem Node.size_pos_of_children {n : Node} {kids : List Node} (h : n.children = some kids) :
    0 < n.size := by
  have := children_size n kids h; omega

/-! ### the recursive specification -/

/-- what the visitor records when it is called with `n` -/
def eventOf (n : Node) : WalkEvent :=
  match n.label with
  | some (ty, sp) => .visit ty sp
  | none => .visitNil

theorem eventOf_ne_panic (n : Node) : eventOf n ≠ .panic := by
  unfold eventOf; split <;> simp

mutual
/-- Pre-order with pruning, by recursion on the tree: the node's own event, then — if the
    visitor's `i`-th answer is true — the pre-orders of its children, in order.  Returns the
    events and the index of the visitor's next call. -/
def preNode (decide : Nat → Bool) (i : Nat) (n : Node) : List WalkEvent × Nat :=
  if decide i then
    match h : n.children with
    | some kids =>
      let r := preList decide (i + 1) kids
      (eventOf n :: r.1, r.2)
    | none => ([eventOf n, .panic], i + 1)
  else ([eventOf n], i + 1)
termination_by (n.size, 0)
decreasing_by
  have := children_size n kids h
  exact Prod.Lex.left _ _ this
def preList (decide : Nat → Bool) (i : Nat) (ns : List Node) : List WalkEvent × Nat :=
  match ns with
  | [] => ([], i)
  | n :: ns =>
    let r := preNode decide i n
    let s := preList decide r.2 ns
    (r.1 ++ s.1, s.2)
termination_by (totalSize ns, ns.length + 1)
decreasing_by
  · simp only [totalSize_cons]
    by_cases h : totalSize ns = 0
    · rw [h]; exact Prod.Lex.right _ (by omega)
    · exact Prod.Lex.left _ _ (by omega)
  · simp only [totalSize_cons, List.length_cons]
    by_cases h : n.size = 0
    · rw [h, Nat.zero_add]; exact Prod.Lex.right _ (by omega)
    · exact Prod.Lex.left _ _ (by omega)
end

set_option linter.unusedVariables false in
mutual
/-- all nodes of the tree below (and including) `n`, parents first, children in order -/
def allNodes (n : Node) : List Node :=
  match h : n.children with
  | some kids => n :: allNodesList kids
  | none => [n]
termination_by (n.size, 0)
decreasing_by
  have := children_size n kids h
  exact Prod.Lex.left _ _ this
def allNodesList (ns : List Node) : List Node :=
  match ns with
  | [] => []
  | n :: ns => allNodes n ++ allNodesList ns
termination_by (totalSize ns, ns.length + 1)
decreasing_by
  · simp only [totalSize_cons]
    by_cases h : totalSize ns = 0
    · rw [h]; exact Prod.Lex.right _ (by omega)
    · exact Prod.Lex.left _ _ (by omega)
  · simp only [totalSize_cons, List.length_cons]
    by_cases h : n.size = 0
    · rw [h, Nat.zero_add]; exact Prod.Lex.right _ (by omega)
    · exact Prod.Lex.left _ _ (by omega)
end

/-- No case of `Walk` panics anywhere in the tree: every reachable node has a case
    (`children` is `some kids`; in particular it is not the nil interface `.expr .nil`, not a
    nil `*TabularExpr`, not a nil `*SortTerm`), recursively. -/
inductive NoPanic : Node → Prop
  | mk (n : Node) (kids : List Node) (hc : n.children = some kids)
      (hk : ∀ k ∈ kids, NoPanic k) : NoPanic n

/-- `NoPanic`, and no reachable node is a nil pointer that reaches the visitor
    (`.ident none`; `.sortTerm none` is already excluded by `NoPanic`). -/
inductive Complete : Node → Prop
  | mk (n : Node) (kids : List Node) (hl : n.label ≠ none) (hc : n.children = some kids)
      (hk : ∀ k ∈ kids, Complete k) : Complete n

theorem NoPanic.ne_nil {n : Node} (h : NoPanic n) : n ≠ .expr .nil := by
  cases h with
  | mk _ kids hc _ => intro e; subst e; simp [Node.children] at hc

theorem NoPanic.children {n : Node} (h : NoPanic n) :
    ∃ kids, n.children = some kids ∧ ∀ k ∈ kids, NoPanic k := by
  cases h with
  | mk _ kids hc hk => exact ⟨kids, hc, hk⟩

/-- the recursive reading of `NoPanic` -/
theorem noPanic_iff (n : Node) :
    NoPanic n ↔ n ≠ .expr .nil ∧ ∃ kids, n.children = some kids ∧ ∀ k ∈ kids, NoPanic k :=
  ⟨fun h => ⟨h.ne_nil, h.children⟩, fun ⟨_, kids, hc, hk⟩ => .mk n kids hc hk⟩

theorem Complete.noPanic {n : Node} (h : Complete n) : NoPanic n := by
  induction h with
  | mk n kids _ hc _ ih => exact .mk n kids hc ih

theorem complete_iff (n : Node) :
    Complete n ↔ n.label ≠ none ∧ ∃ kids, n.children = some kids ∧ ∀ k ∈ kids, Complete k :=
  ⟨fun h => by cases h with | mk _ kids hl hc hk => exact ⟨hl, kids, hc, hk⟩,
   fun ⟨hl, kids, hc, hk⟩ => .mk n kids hl hc hk⟩

/-! ### unfolding equations -/

theorem preNode_false {decide : Nat → Bool} {i : Nat} (n : Node) (h : decide i = false) :
    preNode decide i n = ([eventOf n], i + 1) := by
  rw [preNode]; simp [h]

theorem preNode_true {decide : Nat → Bool} {i : Nat} {n : Node} {kids : List Node}
    (h : decide i = true) (hc : n.children = some kids) :
    preNode decide i n =
      (eventOf n :: (preList decide (i + 1) kids).1, (preList decide (i + 1) kids).2) := by
  rw [preNode]; simp only [h, if_true]
  split
  · next kids' h' => rw [hc] at h'; cases h'; rfl
  · next h' => rw [hc] at h'; cases h'

theorem preNode_eq {decide : Nat → Bool} {i : Nat} {n : Node} {kids : List Node}
    (hc : n.children = some kids) :
    preNode decide i n =
      if decide i then (eventOf n :: (preList decide (i + 1) kids).1, (preList decide (i + 1) kids).2)
      else ([eventOf n], i + 1) := by
  cases h : decide i
  · simp [preNode_false n h]
  · simp [preNode_true h hc]

@[simp] theorem preList_nil (decide : Nat → Bool) (i : Nat) : preList decide i [] = ([], i) := by
  rw [preList]

theorem preList_cons (decide : Nat → Bool) (i : Nat) (n : Node) (ns : List Node) :
    preList decide i (n :: ns) =
      ((preNode decide i n).1 ++ (preList decide (preNode decide i n).2 ns).1,
       (preList decide (preNode decide i n).2 ns).2) := by
  rw [preList]

theorem preList_append (decide : Nat → Bool) (i : Nat) (a b : List Node) :
    preList decide i (a ++ b) =
      ((preList decide i a).1 ++ (preList decide (preList decide i a).2 b).1,
       (preList decide (preList decide i a).2 b).2) := by
  induction a generalizing i with
  | nil => simp
  | cons n a ih => simp [preList_cons, ih]

theorem preList_singleton (decide : Nat → Bool) (i : Nat) (n : Node) :
    preList decide i [n] = preNode decide i n := by
  simp [preList_cons]

theorem allNodes_eq {n : Node} {kids : List Node} (hc : n.children = some kids) :
    allNodes n = n :: allNodesList kids := by
  rw [allNodes]
  split
  · next kids' h' => rw [hc] at h'; cases h'; rfl
  · next h' => rw [hc] at h'; cases h'

@[simp] theorem allNodesList_nil : allNodesList [] = [] := by rw [allNodesList]

theorem allNodesList_cons (n : Node) (ns : List Node) :
    allNodesList (n :: ns) = allNodes n ++ allNodesList ns := by rw [allNodesList]

theorem allNodesList_eq_flatMap (ns : List Node) : allNodesList ns = ns.flatMap allNodes := by
  induction ns with
  | nil => simp
  | cons n ns ih => simp [allNodesList_cons, ih]

/-! ### the loop computes the recursive pre-order -/

theorem walkLoop_cons (decide : Nat → Bool) (fuel i : Nat) (n : Node) (stack : List Node)
    (hn : n ≠ .expr .nil) :
    walkLoop decide (fuel + 1) i (n :: stack) =
      if decide i then
        match n.children with
        | some kids => eventOf n :: walkLoop decide fuel (i + 1) (kids ++ stack)
        | none => [eventOf n, .panic]
      else eventOf n :: walkLoop decide fuel (i + 1) stack := by
  rw [walkLoop]
  · rfl
  · exact hn

/-- `Walk`'s loop on a stack of well-formed nodes, with more fuel than the total size of the
    stack, produces the recursive pre-order of the stack. -/
theorem walkLoop_eq_preList (decide : Nat → Bool) :
    ∀ (fuel i : Nat) (stack : List Node), (∀ n ∈ stack, NoPanic n) → totalSize stack < fuel →
      walkLoop decide fuel i stack = (preList decide i stack).1 := by
  intro fuel
  induction fuel with
  | zero => intro i stack _ h; omega
  | succ fuel ih =>
    intro i stack hs hf
    cases stack with
    | nil => simp [walkLoop]
    | cons n stack =>
      have hn : NoPanic n := hs n (by simp)
      have hst : ∀ m ∈ stack, NoPanic m := fun m hm => hs m (by simp [hm])
      obtain ⟨kids, hc, hk⟩ := hn.children
      have hsz := children_size n kids hc
      rw [walkLoop_cons decide fuel i n stack hn.ne_nil, preList_cons, preNode_eq hc]
      simp only [totalSize_cons] at hf
      cases hd : decide i
      · simp only [Bool.false_eq_true, if_false]
        rw [ih (i + 1) stack hst (by omega)]
        rfl
      · simp only [if_true, hc]
        rw [ih (i + 1) (kids ++ stack) ?_ (by simp only [totalSize_append]; omega), preList_append]
        · rfl
        · intro m hm
          rcases List.mem_append.1 hm with h | h
          · exact hk m h
          · exact hst m h

/-! ### consequences of the recursive specification -/

theorem preList_all_of_forall (kids : List Node)
    (ih : ∀ k ∈ kids, ∀ i, preNode (fun _ => true) i k
      = ((allNodes k).map eventOf, i + (allNodes k).length)) :
    ∀ i, preList (fun _ => true) i kids
      = ((allNodesList kids).map eventOf, i + (allNodesList kids).length) := by
  induction kids with
  | nil => intro i; simp
  | cons k kids ihl =>
    intro i
    rw [preList_cons, ih k (by simp), ihl (fun m hm => ih m (by simp [hm])), allNodesList_cons]
    simp [Nat.add_assoc]

/-- With a visitor that always answers true the pre-order lists every node of the tree. -/
theorem preNode_all {n : Node} (h : NoPanic n) :
    ∀ i, preNode (fun _ => true) i n = ((allNodes n).map eventOf, i + (allNodes n).length) := by
  induction h with
  | mk n kids hc _ ih =>
    intro i
    rw [preNode_true rfl hc, preList_all_of_forall kids ih, allNodes_eq hc]
    simp [Nat.add_assoc, Nat.add_comm 1]

theorem preList_all {ns : List Node} (h : ∀ n ∈ ns, NoPanic n) :
    ∀ i, preList (fun _ => true) i ns
      = ((allNodesList ns).map eventOf, i + (allNodesList ns).length) :=
  preList_all_of_forall ns fun k hk => preNode_all (h k hk)

theorem preList_sublist_of_forall (decide : Nat → Bool) (kids : List Node)
    (ih : ∀ k ∈ kids, ∀ i, (preNode decide i k).1.Sublist ((allNodes k).map eventOf)) :
    ∀ i, (preList decide i kids).1.Sublist ((allNodesList kids).map eventOf) := by
  induction kids with
  | nil => intro i; simp
  | cons k kids ihl =>
    intro i
    rw [preList_cons, allNodesList_cons, List.map_append]
    exact List.Sublist.append (ih k (by simp) i) (ihl (fun m hm => ih m (by simp [hm])) _)

/-- Whatever the visitor answers, the events are a sub-sequence of the full pre-order: no node
    is reported twice or out of order, and nothing but nodes of the tree is reported. -/
theorem preNode_sublist (decide : Nat → Bool) {n : Node} (h : NoPanic n) :
    ∀ i, (preNode decide i n).1.Sublist ((allNodes n).map eventOf) := by
  induction h with
  | mk n kids hc _ ih =>
    intro i
    rw [preNode_eq hc, allNodes_eq hc, List.map_cons]
    cases decide i
    · simp
    · simp only [if_true]
      exact List.Sublist.cons_cons _ (preList_sublist_of_forall decide kids ih _)

theorem preList_index_of_forall (decide : Nat → Bool) (kids : List Node)
    (ih : ∀ k ∈ kids, ∀ i, (preNode decide i k).2 = i + (preNode decide i k).1.length) :
    ∀ i, (preList decide i kids).2 = i + (preList decide i kids).1.length := by
  induction kids with
  | nil => intro i; simp
  | cons k kids ihl =>
    intro i
    rw [preList_cons]
    simp only [List.length_append]
    rw [ihl (fun m hm => ih m (by simp [hm])), ih k (by simp)]
    omega

/-- The call index is threaded correctly: the visitor's `j`-th call is the one that produces
    the `j`-th event, so `decide j` is the answer for the node reported at position `j`. -/
theorem preNode_index (decide : Nat → Bool) {n : Node} (h : NoPanic n) :
    ∀ i, (preNode decide i n).2 = i + (preNode decide i n).1.length := by
  induction h with
  | mk n kids hc _ ih =>
    intro i
    rw [preNode_eq hc]
    cases decide i
    · simp
    · simp only [if_true, List.length_cons]
      rw [preList_index_of_forall decide kids ih]
      omega

theorem allNodes_self_mem (n : Node) : n ∈ allNodes n := by
  rw [allNodes]; split <;> simp

theorem Complete.allNodes_label {n : Node} (h : Complete n) : ∀ m ∈ allNodes n, m.label ≠ none := by
  induction h with
  | mk n kids hl hc _ ih =>
    intro m hm
    rw [allNodes_eq hc, allNodesList_eq_flatMap] at hm
    rcases List.mem_cons.1 hm with rfl | hm
    · exact hl
    · obtain ⟨k, hk, hmk⟩ := List.mem_flatMap.1 hm
      exact ih k hk m hmk

theorem eventOf_eq_visitNil {n : Node} : eventOf n = .visitNil ↔ n.label = none := by
  unfold eventOf
  split
  · next h => simp [h]
  · next h => simp [h]

/-! ### structural reading of `Complete` on the AST types

`Good` says, by structural recursion on the AST, that no required position holds a nil:
the shape `Walk` needs in order not to panic and not to hand a nil node to the visitor.
Optional positions (the expression of a project/extend column, a render property's value)
may be `Expr.nil`; the names of extend/summarize columns may be absent. -/

mutual
def Expr.Good : Expr → Prop
  | .nil => False
  | .qident _ => True
  | .lit .. => True
  | .unary _ _ x => x.Good
  | .binary x _ _ y => x.Good ∧ y.Good
  | .inE x _ _ vals _ => x.Good ∧ vals.Good
  | .paren _ x _ => x.Good
  | .call _ _ args _ => args.Good
  | .index x _ idx _ => x.Good ∧ idx.Good
def ExprList.Good : ExprList → Prop
  | .nil => True
  | .cons e es => e.Good ∧ es.Good
end

/-- an optional expression: absent, or good -/
def Expr.OptGood (e : Expr) : Prop := e = .nil ∨ e.Good

def SortTerm.Good (t : SortTerm) : Prop := t.x.Good

mutual
def Tabular.Good : Tabular → Prop
  | .nil => False
  | .mk src ops => src ≠ none ∧ ops.Good
def Op.Good : Op → Prop
  | .count .. => True
  | .where_ _ _ e => e.Good
  | .sort _ _ ts => ∀ t ∈ ts, SortTerm.Good t
  | .take _ _ n => n.Good
  | .top _ _ n _ c => n.Good ∧ ∃ t, c = some t ∧ SortTerm.Good t
  | .project _ _ cs => ∀ c ∈ cs, c.name ≠ none ∧ c.x.OptGood
  | .extend _ _ cs => ∀ c ∈ cs, c.x.OptGood
  | .summarize _ _ cs _ gs => (∀ c ∈ cs, c.x.Good) ∧ (∀ c ∈ gs, c.x.Good)
  | .join _ _ _ _ _ _ right _ _ conds => right.Good ∧ conds.Good
  | .as_ _ _ n => n ≠ none
  | .render _ _ ch _ _ props _ => ch ≠ none ∧ ∀ p ∈ props, p.name ≠ none ∧ p.value.OptGood
def OpList.Good : OpList → Prop
  | .nil => True
  | .cons o os => o.Good ∧ os.Good
end

def Stmt.Good : Stmt → Prop
  | .let_ _ name _ x => name ≠ none ∧ x.Good
  | .tabular t => t.Good

theorem complete_ident (i : Ident) : Complete (.ident (some i)) :=
  .mk _ [] (by simp [Node.label]) rfl (by simp)

theorem complete_optIdent_of_ne {i : Option Ident} (h : i ≠ none) : Complete (.ident i) := by
  cases i with
  | none => exact absurd rfl h
  | some i => exact complete_ident i

theorem complete_optIdent (i : Option Ident) : ∀ k ∈ optIdent i, Complete k := by
  cases i <;> simp [optIdent, complete_ident]

mutual
theorem Expr.Good.complete : (e : Expr) → e.Good → Complete (.expr e)
  | .nil, h => by simp [Expr.Good] at h
  | .qident parts, _ =>
    .mk _ _ (by simp [Node.label]) rfl (by
      intro k hk
      obtain ⟨i, _, rfl⟩ := List.mem_map.1 hk
      exact complete_ident i)
  | .lit .., _ => .mk _ [] (by simp [Node.label]) rfl (by simp)
  | .unary _ _ x, h =>
    .mk _ _ (by simp [Node.label]) rfl (by
      simp only [Expr.Good] at h
      simpa using Expr.Good.complete x h)
  | .binary x _ _ y, h =>
    .mk _ _ (by simp [Node.label]) rfl (by
      simp only [Expr.Good] at h
      simpa using ⟨Expr.Good.complete x h.1, Expr.Good.complete y h.2⟩)
  | .inE x _ _ vals _, h =>
    .mk _ _ (by simp [Node.label]) rfl (by
      simp only [Expr.Good] at h
      intro k hk
      rcases List.mem_cons.1 hk with rfl | hk
      · exact Expr.Good.complete x h.1
      · exact ExprList.Good.complete vals h.2 k hk)
  | .paren _ x _, h =>
    .mk _ _ (by simp [Node.label]) rfl (by
      simp only [Expr.Good] at h
      simpa using Expr.Good.complete x h)
  | .call _ _ args _, h =>
    .mk _ _ (by simp [Node.label]) rfl (by
      simp only [Expr.Good] at h
      exact ExprList.Good.complete args h)
  | .index x _ idx _, h =>
    .mk _ _ (by simp [Node.label]) rfl (by
      simp only [Expr.Good] at h
      simpa using ⟨Expr.Good.complete x h.1, Expr.Good.complete idx h.2⟩)
theorem ExprList.Good.complete : (es : ExprList) → es.Good →
    ∀ k ∈ es.toList.map Node.expr, Complete k
  | .nil, _ => by simp [ExprList.toList]
  | .cons e es, h => by
    simp only [ExprList.Good] at h
    intro k hk
    simp only [ExprList.toList, List.map_cons] at hk
    rcases List.mem_cons.1 hk with rfl | hk
    · exact Expr.Good.complete e h.1
    · exact ExprList.Good.complete es h.2 k hk
end

theorem Expr.OptGood.complete {e : Expr} (h : e.OptGood) : ∀ k ∈ optExpr e, Complete k := by
  rcases h with rfl | h
  · simp [optExpr]
  · cases e with
    | nil => simp [optExpr]
    | _ => simpa [optExpr] using Expr.Good.complete _ h

theorem SortTerm.Good.complete {t : SortTerm} (h : t.Good) : Complete (.sortTerm (some t)) :=
  .mk _ _ (by simp [Node.label]) rfl (by simpa using Expr.Good.complete t.x h)

mutual
theorem Tabular.Good.complete : (t : Tabular) → t.Good → Complete (.tabular t)
  | .nil, h => by simp [Tabular.Good] at h
  | .mk src ops, h =>
    .mk _ _ (by simp [Node.label]) rfl (by
      simp only [Tabular.Good] at h
      intro k hk
      rcases List.mem_cons.1 hk with rfl | hk
      · exact .mk _ _ (by simp [Node.label]) rfl (by simpa using complete_optIdent_of_ne h.1)
      · exact OpList.Good.complete ops h.2 k hk)
theorem Op.Good.complete : (o : Op) → o.Good → Complete (.op o)
  | .count .., _ => .mk _ [] (by simp [Node.label]) rfl (by simp)
  | .where_ _ _ e, h =>
    .mk _ _ (by simp [Node.label]) rfl (by
      simp only [Op.Good] at h
      simpa using Expr.Good.complete e h)
  | .sort _ _ ts, h =>
    .mk _ _ (by simp [Node.label]) rfl (by
      simp only [Op.Good] at h
      intro k hk
      obtain ⟨t, ht, rfl⟩ := List.mem_map.1 hk
      exact (h t ht).complete)
  | .take _ _ n, h =>
    .mk _ _ (by simp [Node.label]) rfl (by
      simp only [Op.Good] at h
      simpa using Expr.Good.complete n h)
  | .top _ _ n _ c, h =>
    .mk _ _ (by simp [Node.label]) rfl (by
      simp only [Op.Good] at h
      obtain ⟨hn, t, rfl, ht⟩ := h
      simpa using ⟨Expr.Good.complete n hn, ht.complete⟩)
  | .project _ _ cs, h =>
    .mk _ _ (by simp [Node.label]) rfl (by
      simp only [Op.Good] at h
      intro k hk
      obtain ⟨c, hc, rfl⟩ := List.mem_map.1 hk
      refine .mk _ _ (by simp [Node.label]) rfl ?_
      intro k hk
      rcases List.mem_cons.1 hk with rfl | hk
      · exact complete_optIdent_of_ne (h c hc).1
      · exact (h c hc).2.complete k hk)
  | .extend _ _ cs, h =>
    .mk _ _ (by simp [Node.label]) rfl (by
      simp only [Op.Good] at h
      intro k hk
      obtain ⟨c, hc, rfl⟩ := List.mem_map.1 hk
      refine .mk _ _ (by simp [Node.label]) rfl ?_
      intro k hk
      rcases List.mem_append.1 hk with hk | hk
      · exact complete_optIdent _ k hk
      · exact (h c hc).complete k hk)
  | .summarize _ _ cs _ gs, h =>
    .mk _ _ (by simp [Node.label]) rfl (by
      simp only [Op.Good] at h
      have key : ∀ c : Column, c.x.Good → Complete (.column .summarize c) := by
        intro c hc
        refine .mk _ _ (by simp [Node.label]) rfl ?_
        intro k hk
        rcases List.mem_append.1 hk with hk | hk
        · exact complete_optIdent _ k hk
        · rw [List.mem_singleton.1 hk]; exact Expr.Good.complete _ hc
      intro k hk
      rcases List.mem_append.1 hk with hk | hk
      · obtain ⟨c, hc, rfl⟩ := List.mem_map.1 hk
        exact key c (h.1 c hc)
      · obtain ⟨c, hc, rfl⟩ := List.mem_map.1 hk
        exact key c (h.2 c hc))
  | .join _ _ _ _ _ _ right _ _ conds, h =>
    .mk _ _ (by simp [Node.label]) rfl (by
      simp only [Op.Good] at h
      intro k hk
      rcases List.mem_cons.1 hk with rfl | hk
      · exact Tabular.Good.complete right h.1
      · exact ExprList.Good.complete conds h.2 k hk)
  | .as_ _ _ n, h =>
    .mk _ _ (by simp [Node.label]) rfl (by
      simp only [Op.Good] at h
      simpa using complete_optIdent_of_ne h)
  | .render _ _ ch _ _ props _, h =>
    .mk _ _ (by simp [Node.label]) rfl (by
      simp only [Op.Good] at h
      intro k hk
      rcases List.mem_append.1 hk with hk | hk
      · obtain ⟨p, hp, hk⟩ := List.mem_flatMap.1 hk
        rcases List.mem_cons.1 hk with rfl | hk
        · exact complete_optIdent_of_ne (h.2 p hp).1
        · exact (h.2 p hp).2.complete k hk
      · rw [List.mem_singleton.1 hk]; exact complete_optIdent_of_ne h.1)
theorem OpList.Good.complete : (os : OpList) → os.Good →
    ∀ k ∈ os.toList.map Node.op, Complete k
  | .nil, _ => by simp [OpList.toList]
  | .cons o os, h => by
    simp only [OpList.Good] at h
    intro k hk
    simp only [OpList.toList, List.map_cons] at hk
    rcases List.mem_cons.1 hk with rfl | hk
    · exact Op.Good.complete o h.1
    · exact OpList.Good.complete os h.2 k hk
end

theorem Stmt.Good.complete : (s : Stmt) → s.Good → Complete (Node.ofStmt s)
  | .let_ _ name _ x, h => by
    simp only [Stmt.Good] at h
    refine .mk _ _ (by simp [Node.ofStmt, Node.label]) rfl ?_
    simpa using ⟨complete_optIdent_of_ne h.1, Expr.Good.complete x h.2⟩
  | .tabular t, h => Tabular.Good.complete t h

end Pql
