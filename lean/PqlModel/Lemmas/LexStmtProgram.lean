/-
LexRender for whole statements, part 4: the statement loop (`let` statements establish
`ScopeAdj`) and the final assembly `WITH … AS (…),\n     … AS (…)\n<body>;`.
-/
import PqlModel.Lemmas.LexStmtSplit
import PqlModel.Props.C14Order
namespace Pql

/-- the side condition on a program: the value of every `let` before the query is `Expr.lexOK`,
    and the query is `Tabular.lexOK` (statements after the query are not compiled: further `let`s
    are skipped, a second query is an error) -/
def stmtsLexOK : List Stmt → Bool
  | [] => true
  | .tabular t :: _ => t.lexOK
  | .let_ _ _ _ x :: rest => x.lexOK && stmtsLexOK rest

end Pql

namespace Pql.C05
open Pql Sql LexRender

/-- the statement loop keeps the scope invariant and hands a `lexOK` query on -/
theorem compileStmts_inv (src : Bytes) :
    ∀ (stmts : List Stmt) (scope : List (Bytes × List Chunk)) (q : Option Tabular)
      (scope' : List (Bytes × List Chunk)) (q' : Option Tabular),
      ScopeAdj scope → (q = none → stmtsLexOK stmts = true) → (∀ t, q = some t → t.lexOK = true) →
      compileStmts src stmts scope q = .ok (scope', q') →
      ScopeAdj scope' ∧ ∀ t, q' = some t → t.lexOK = true
  | [], scope, q, scope', q', hs, _, hq, h => by
    rw [compileStmts] at h; cases h; exact ⟨hs, hq⟩
  | .tabular t :: rest, scope, q, scope', q', hs, hok, hq, h => by
    cases q with
    | some t0 => simp only [compileStmts] at h; cases h
    | none =>
      simp only [compileStmts] at h
      refine compileStmts_inv src rest scope (some t) scope' q' hs (fun e => by cases e) ?_ h
      intro t' ht'; cases ht'
      simpa [stmtsLexOK] using hok rfl
  | .let_ kw name asg x :: rest, scope, q, scope', q', hs, hok, hq, h => by
    cases q with
    | some t0 =>
      simp only [compileStmts] at h
      exact compileStmts_inv src rest scope (some t0) scope' q' hs (fun e => by cases e) hq h
    | none =>
      simp only [compileStmts] at h
      have hok' := hok rfl
      rw [stmtsLexOK, Bool.and_eq_true] at hok'
      split at h
      · cases h
      · rename_i sql hsql
        obtain ⟨body, hbody, rfl⟩ := map_ok hsql
        split at h
        · cases h
        · rename_i n
          exact compileStmts_inv src rest _ none scope' q'
            (scopeAdj_cons hs src .let_ hok'.1 hbody n.name) (fun _ => hok'.2) hq h

/-- `<ctes><body>;` is a complete adjacent text -/
theorem good_semicolon {body : List Chunk} (hb : Good body) (pre : List Chunk)
    (hpre : ∀ rest, AdjC rest pre = true) : Adj (pre ++ body ++ [Chunk.txt ";"]) = true := by
  have hsemi : AdjC [] [Chunk.txt ";"] = true := adj_txt_inert (by decide) (AdjC_nil _)
  unfold Adj
  rw [List.append_assoc]
  exact AdjC_append (hpre _) (good_app_txt hb (by decide) hsemi)

/-- what `compileChunks` does after the statement loop, under any `ScopeAdj` scope -/
theorem finish_adj (src : Bytes) (scope : List (Bytes × List Chunk)) (hsc : ScopeAdj scope) (t : Tabular)
    (ht : t.lexOK = true) (cs : List Chunk) (hc : C14.finishChunks src scope (some t) = .ok cs) :
    Adj cs = true := by
  simp only [C14.finishChunks] at hc
  obtain ⟨subs, hs, hc⟩ := bind_ok hc
  have hall := splitQueries_subOK src scope hsc t [] subs ht (by simp) hs
  split at hc
  · cases hc
  · rename_i query ctesRev hrev
    have hmem : ∀ s ∈ query :: ctesRev, SubOK s := by
      intro s h; rw [← hrev] at h; exact hall s (List.mem_reverse.mp h)
    have hq := hmem query List.mem_cons_self
    split at hc
    · obtain ⟨wp, hwp, hc⟩ := bind_ok hc
      obtain ⟨body, hb, hc⟩ := bind_ok hc
      cases hwp; cases hc
      exact good_semicolon (write_good ⟨src, scope, .default⟩ hsc hq hb) [] (fun rest => AdjC_nil _)
    · obtain ⟨c, hcte, hc⟩ := bind_ok hc
      obtain ⟨wp, hwp, hc⟩ := bind_ok hc
      obtain ⟨body, hb, hc⟩ := bind_ok hc
      cases hwp; cases hc
      refine good_semicolon (write_good ⟨src, scope, .default⟩ hsc hq hb) _
        (fun rest => adj_txt_inert (by decide) ?_)
      exact writeCtes_adj ⟨src, scope, .default⟩ hsc ctesRev.reverse
        (fun s h => hmem s (List.mem_cons_of_mem _ (List.mem_reverse.mp h))) c hcte rest

/-- **the chunks of a program compiled from any adjacent initial scope are adjacent** (the
    initial scope is what the parameters provide) -/
theorem program_adj_from (src : Bytes) (scope0 : List (Bytes × List Chunk)) (hs0 : ScopeAdj scope0)
    (stmts : List Stmt) (cs : List Chunk) (hok : stmtsLexOK stmts = true)
    (hc : (compileStmts src stmts scope0 none >>= fun r => C14.finishChunks src r.1 r.2) = .ok cs) :
    Adj cs = true := by
  obtain ⟨⟨scope, q⟩, hx, hc⟩ := bind_ok hc
  obtain ⟨hsc, hq⟩ := compileStmts_inv src stmts scope0 none scope q hs0 (fun _ => hok)
    (fun t e => by cases e) hx
  dsimp only at hc
  cases q with
  | none => simp only [C14.finishChunks] at hc; cases hc
  | some t => exact finish_adj src scope hsc t (hq t rfl) cs hc

/-- **the chunks of a compiled program are adjacent** (no parameters) -/
theorem program_adj (src : Bytes) (stmts : List Stmt) (cs : List Chunk)
    (hok : stmtsLexOK stmts = true)
    (hc : compileChunks src [] stmts = .ok cs) : Adj cs = true := by
  rw [C14.compileChunks_eq] at hc
  exact program_adj_from src [] scopeAdj_nil stmts cs hok hc

end Pql.C05
