/-
Join conditions under a content map.  `buildJoinCondition` synthesises `$left.k == $right.k`
(with zero positions) from a bare key `k`; so it commutes with `mapE` only up to positions — which
the writers never look at (`writeExpr_eraseSp`) — and only if the renaming fixes `$left`/`$right`.
-/
import PqlModel.Lemmas.ShapeWrite
namespace Pql

/-- forget all positions -/
def spErase : CMap := ⟨id, id, id, fun _ => .zero⟩

def eraseSp (e : Expr) : Expr := mapE spErase e

theorem mapC_spErase (c : Chunk) : Chunk.mapC spErase c = c := by cases c <;> rfl

theorem map_mapC_spErase (cs : List Chunk) : cs.map (Chunk.mapC spErase) = cs := by
  induction cs with
  | nil => rfl
  | cons c cs ih => rw [List.map_cons, mapC_spErase, ih]

/-- a content map that renames nothing is inert everywhere -/
theorem inertPart_of_fn_id {φ : CMap} (hn : ∀ n, φ.fn n = n) (s : Scope) (m : Mode) (single : Bool) (p : Ident) :
    inertPart s m φ single p = true := by
  have hk : keyName s m single (φ.ident p) = keyName s m single p := by
    simp only [keyName, CMap.ident_name, CMap.ident_quoted, hn]
  simp only [inertPart, hk, hn, beq_self_eq_true]
  cases keyName s m single p <;> rfl

mutual
theorem inertE_of_fn_id {φ : CMap} (hn : ∀ n, φ.fn n = n) (s : Scope) (m : Mode) :
    (e : Expr) → inertE s m φ e = true
  | .nil => by simp only [inertE]
  | .qident parts => by
    simp only [inertE, List.all_eq_true]
    exact fun p _ => inertPart_of_fn_id hn s m _ p
  | .lit .. => by simp only [inertE]
  | .unary _ _ x => by simp only [inertE, inertE_of_fn_id hn s m x]
  | .binary x _ _ y => by simp only [inertE, inertE_of_fn_id hn s m x, inertE_of_fn_id hn s m y, Bool.and_self]
  | .inE x _ _ vals _ => by simp only [inertE, inertE_of_fn_id hn s m x, inertL_of_fn_id hn s m vals, Bool.and_self]
  | .paren _ x _ => by simp only [inertE, inertE_of_fn_id hn s m x]
  | .call _ _ args _ => by simp only [inertE, inertL_of_fn_id hn s m args]
  | .index x _ idx _ => by simp only [inertE, inertE_of_fn_id hn s m x, inertE_of_fn_id hn s m idx, Bool.and_self]
theorem inertL_of_fn_id {φ : CMap} (hn : ∀ n, φ.fn n = n) (s : Scope) (m : Mode) :
    (es : ExprList) → inertL s m φ es = true
  | .nil => by simp only [inertL]
  | .cons e es => by simp only [inertL, inertE_of_fn_id hn s m e, inertL_of_fn_id hn s m es, Bool.and_self]
end

/-- **the expression writer never looks at positions** -/
theorem writeExpr_eraseSp (ctx : Ctx) (e : Expr) : writeExpr ctx (eraseSp e) = writeExpr ctx e := by
  obtain ⟨src, s, m⟩ := ctx
  have hs : ScopeRel (MapsTo spErase) s s := by
    intro n
    cases lookupScope s n with
    | none => exact .none
    | some v => exact .some (map_mapC_spErase v).symm
  have h := (mapE_rel (src := src) (src' := src) (m := m) (MapsTo.cong spErase) hs e
    (inertE_of_fn_id (fun _ => rfl) _ _ e)).mapsTo_eq
  rw [eraseSp, h]
  cases writeExpr ⟨src, s, m⟩ e with
  | error err => rfl
  | ok v => exact congrArg Except.ok (map_mapC_spErase v)

theorem writeExpr_of_eraseSp_eq (ctx : Ctx) {e e' : Expr} (h : eraseSp e = eraseSp e') :
    writeExpr ctx e = writeExpr ctx e' := by
  rw [← writeExpr_eraseSp ctx e, h, writeExpr_eraseSp]

theorem needsWrap_of_eraseSp_eq {e e' : Expr} (h : eraseSp e = eraseSp e') : needsWrap e = needsWrap e' := by
  have h1 := needsWrap_mapE spErase e
  have h2 := needsWrap_mapE spErase e'
  unfold eraseSp at h
  rw [← h1, h, h2]

/-! ### the synthesised join condition -/

section
variable {φ : CMap} {s : Scope}

/-- the renaming fixes `$left` and `$right` -/
def fixesAliases (φ : CMap) : Bool := φ.fn leftAlias == leftAlias && φ.fn rightAlias == rightAlias

theorem builtin_of_inert {p : Ident} (h : inertPart s .join φ true p = true) (hq : p.quoted = false) :
    (builtinIdent (φ.fn p.name)).isSome = (builtinIdent p.name).isSome := by
  have := inertPart_pred h (fun n q => !q && (builtinIdent n).isSome) (by
    intro q hk
    simp only [keyName, Bool.or_eq_false_iff, Bool.and_eq_false_iff, Bool.true_and] at hk
    cases hqq : q.quoted with
    | true => rfl
    | false =>
      have h2 := hk.2
      simp only [hqq, Bool.not_false, Bool.true_eq_false, false_or, Bool.or_eq_false_iff] at h2
      simp only [Bool.not_false, Bool.true_and]
      exact h2.2)
  simpa only [CMap.ident_name, CMap.ident_quoted, hq, Bool.not_false, Bool.true_and] using this

theorem rewriteSimple_mapE (hf : fixesAliases φ = true) (y : Expr) (hi : inertE s .join φ y = true) :
    eraseSp (rewriteSimpleJoinCondition (mapE φ y)) = eraseSp (mapE φ (rewriteSimpleJoinCondition y)) := by
  simp only [fixesAliases, Bool.and_eq_true, beq_iff_eq] at hf
  cases y with
  | qident parts =>
    match parts, hi with
    | [], _ => simp only [mapE, List.map_nil, rewriteSimpleJoinCondition]
    | _ :: _ :: _, _ => simp only [mapE, List.map_cons, rewriteSimpleJoinCondition]
    | [p], hi =>
      simp only [inertE, List.all_cons, List.all_nil, Bool.and_true, List.length_cons, List.length_nil,
        Nat.zero_add, beq_self_eq_true] at hi
      simp only [mapE, List.map_cons, List.map_nil, rewriteSimpleJoinCondition, CMap.ident_quoted, CMap.ident_name]
      cases hq : p.quoted with
      | true => simp only [Bool.true_or, if_true, mapE, List.map_cons, List.map_nil]
      | false =>
        rw [builtin_of_inert hi hq]
        cases (builtinIdent p.name).isSome with
        | true => simp only [Bool.or_true, if_true, mapE, List.map_cons, List.map_nil]
        | false =>
          simp only [Bool.or_false, Bool.false_eq_true, if_false, eraseSp, mapE, List.map_cons, List.map_nil,
            CMap.ident, spErase, id, hf.1, hf.2]
  | nil => simp only [mapE, rewriteSimpleJoinCondition]
  | lit => simp only [mapE, rewriteSimpleJoinCondition]
  | unary => simp only [mapE, rewriteSimpleJoinCondition]
  | binary => simp only [mapE, rewriteSimpleJoinCondition]
  | inE => simp only [mapE, rewriteSimpleJoinCondition]
  | paren => simp only [mapE, rewriteSimpleJoinCondition]
  | call => simp only [mapE, rewriteSimpleJoinCondition]
  | index => simp only [mapE, rewriteSimpleJoinCondition]

theorem inert_rewriteSimple (hf : fixesAliases φ = true) (y : Expr) (hi : inertE s .join φ y = true) :
    inertE s .join φ (rewriteSimpleJoinCondition y) = true := by
  simp only [fixesAliases, Bool.and_eq_true, beq_iff_eq] at hf
  cases y with
  | qident parts =>
    match parts, hi with
    | [], hi => simpa only [rewriteSimpleJoinCondition] using hi
    | _ :: _ :: _, hi => simpa only [rewriteSimpleJoinCondition] using hi
    | [p], hi =>
      simp only [rewriteSimpleJoinCondition]
      split
      · exact hi
      · rename_i hc
        simp only [inertE, List.all_cons, List.all_nil, Bool.and_true, List.length_cons, List.length_nil,
          Nat.zero_add, beq_self_eq_true] at hi
        have hL : inertPart s .join φ false ⟨leftAlias, .zero, false⟩ = true := by
          have hk : keyName s .join false ⟨leftAlias, .zero, false⟩ = true := by
            simp only [keyName, isAlias, beq_self_eq_true, Bool.true_or, Bool.not_false, Bool.and_self,
              Bool.false_and, Bool.or_false]
          simp only [inertPart, hk, if_true, hf.1, beq_self_eq_true]
        have hR : inertPart s .join φ false ⟨rightAlias, .zero, false⟩ = true := by
          have hk : keyName s .join false ⟨rightAlias, .zero, false⟩ = true := by
            simp only [keyName, isAlias, beq_self_eq_true, Bool.or_true, Bool.not_false, Bool.and_self,
              Bool.false_and, Bool.or_false]
          simp only [inertPart, hk, if_true, hf.2, beq_self_eq_true]
        have hp : inertPart s .join φ false p = true := by
          -- the key names of a qualified part are among those of a single part
          cases hk : keyName s .join true p with
          | true =>
            have hn := inertPart_key hi hk
            have hk' : keyName s .join false (φ.ident p) = keyName s .join false p := by
              simp only [keyName, CMap.ident_name, CMap.ident_quoted, hn]
            simp only [inertPart, hk', hn, beq_self_eq_true]
            cases keyName s .join false p <;> rfl
          | false =>
            have hk2 := inertPart_notKey hi hk
            have e1 : keyName s .join false p = false := by
              simp only [keyName, Bool.or_eq_false_iff] at hk ⊢
              exact ⟨hk.1, by simp only [Bool.false_and]⟩
            have e2 : keyName s .join false (φ.ident p) = false := by
              simp only [keyName, Bool.or_eq_false_iff] at hk2 ⊢
              exact ⟨hk2.1, by simp only [Bool.false_and]⟩
            simp only [inertPart, e1, e2, Bool.false_eq_true, if_false, Bool.not_false]
        simp only [inertE, List.all_cons, List.all_nil, Bool.and_true, List.length_cons, List.length_nil,
          Nat.zero_add, show ((1 + 1 : Nat) == 1) = false by decide, hL, hR, hp, Bool.and_self]
  | nil => simpa only [rewriteSimpleJoinCondition] using hi
  | lit => simpa only [rewriteSimpleJoinCondition] using hi
  | unary => simpa only [rewriteSimpleJoinCondition] using hi
  | binary => simpa only [rewriteSimpleJoinCondition] using hi
  | inE => simpa only [rewriteSimpleJoinCondition] using hi
  | paren => simpa only [rewriteSimpleJoinCondition] using hi
  | call => simpa only [rewriteSimpleJoinCondition] using hi
  | index => simpa only [rewriteSimpleJoinCondition] using hi

theorem eraseSp_binary (x : Expr) (sp : Span) (op : TokKind) (y : Expr) :
    eraseSp (.binary x sp op y) = .binary (eraseSp x) .zero op (eraseSp y) := by
  simp only [eraseSp, mapE, spErase]

theorem buildJoinGo_mapE (hf : fixesAliases φ = true) : (ys : ExprList) → inertL s .join φ ys = true →
    (x x' : Expr) → eraseSp x' = eraseSp (mapE φ x) →
    eraseSp (buildJoinCondition.go x' (mapL φ ys)) = eraseSp (mapE φ (buildJoinCondition.go x ys))
  | .nil, _, x, x', hx => by simpa only [mapL, buildJoinCondition.go] using hx
  | .cons y ys, hi, x, x', hx => by
    simp only [inertL, Bool.and_eq_true] at hi
    simp only [mapL, buildJoinCondition.go]
    refine buildJoinGo_mapE hf ys hi.2 _ _ ?_
    simp only [mapE, eraseSp_binary, hx, rewriteSimple_mapE hf y hi.1]

theorem inert_buildJoinGo (hf : fixesAliases φ = true) : (ys : ExprList) → inertL s .join φ ys = true →
    (x : Expr) → inertE s .join φ x = true → inertE s .join φ (buildJoinCondition.go x ys) = true
  | .nil, _, x, hx => by simpa only [buildJoinCondition.go] using hx
  | .cons y ys, hi, x, hx => by
    simp only [inertL, Bool.and_eq_true] at hi
    simp only [buildJoinCondition.go]
    refine inert_buildJoinGo hf ys hi.2 _ ?_
    simp only [inertE, hx, inert_rewriteSimple hf y hi.1, Bool.and_self]

variable {R : List Chunk → List Chunk → Prop} {src src' : Bytes} {s' : Scope}

/-- **the join condition is parametric** -/
theorem buildJoin_rel (hR : MapCong φ R) (hs : ScopeRel R s s') (hf : fixesAliases φ = true)
    (conds : ExprList) (hi : inertL s .join φ conds = true) :
    ExRel R (writeExpr ⟨src, s, .join⟩ (buildJoinCondition conds))
      (writeExpr ⟨src', s', .join⟩ (buildJoinCondition (mapL φ conds))) := by
  cases conds with
  | nil =>
    simp only [mapL, buildJoinCondition]
    rw [writeExpr_qident_single, writeExpr_qident_single]
    simp only [Bool.false_eq_true, if_false]
    have hsc := hs (Bytes.ofString "true")
    revert hsc
    generalize lookupScope s (Bytes.ofString "true") = l1
    generalize lookupScope s' (Bytes.ofString "true") = l2
    intro hsc
    cases hsc with
    | some hab => exact hab
    | none =>
      have hb : builtinIdent (Bytes.ofString "true") = some "TRUE" := by decide
      simp only [hb]
      exact hR.txt _
  | cons c cs =>
    simp only [inertL, Bool.and_eq_true] at hi
    simp only [mapL, buildJoinCondition]
    have he := buildJoinGo_mapE hf cs hi.2 (rewriteSimpleJoinCondition c) (rewriteSimpleJoinCondition (mapE φ c))
      (rewriteSimple_mapE hf c hi.1)
    rw [writeExpr_of_eraseSp_eq _ he]
    exact mapE_rel hR hs _ (inert_buildJoinGo hf cs hi.2 _ (inert_rewriteSimple hf c hi.1))

end

end Pql
