/-
End to end on source bytes, part 2: programs with `let` statements.

* `parse_statement_program`  C05 (ParseStatement) for `lets ++ [query]`: the tokens of the compiled chunks are
                             read as the intended statement of the program (Lemmas/E2EFinalScoped*.lean: the
                             statement-level proof Lemmas/ParseStmt*.lean redone under a let-built scope);
* `end_to_end_program`       tree level: read back and evaluated AS READ = `Rel.interp` of the resolved query
                             = `Rel.interpProgram` of the program;
* `end_to_end_program_source` the same for source bytes, `lexOK` / `tabularOK` / `LetValuesOK` discharged for
                             what the parser produces;
* `end_to_end_program_source_partial`  (superseded) the route through `C06_subst_program`, which relates the
                             text of the program to the text of the resolved program up to parentheses.
-/
import PqlModel.Lemmas.E2EFinalCompose
import PqlModel.Lemmas.E2EFinalScopedTop
namespace Pql.E2EFinal
open Pql Sql CompileOracle Intended JoinFull Pql.ParsedOK Pql.E2E Pql.RT

/-- **C02 (end to end, source bytes, programs with lets) — the route through the resolved program**
    (superseded by `end_to_end_program_source` below, which proves the full statement
    `∃ st, readSql sql = some st ∧ ∀ db, RectDB db → evalStatement db st = Rel.interp src db t'`
    for `t' = substTabular (letsEnv lets []) t`; kept for the facts (2), (3) about the two texts).

    Proved, for a source that parses without error to `lets ++ [query t]`, compiles to `sql` and is
    K4-free, under the side conditions of `C06_subst_program` (`LetsJoinSafe`, `TrueFree`, `tabNamed`)
    and `namesOk` / `tabOpsOk` of the resolved query — NO `lexOK` / `tabularOK` hypothesis:
    (1) the program's meaning `Rel.interpProgram` is `Rel.interp … t'`;
    (2) `sql` is the rendering of the chunks `cs` of the program and LEXES to `toksOf cs`, which contain
        no `!=` symbol;
    (3) the resolved program `[t']` compiles to chunks `cs'` equal to `cs` up to parentheses;
    (4) the text of `cs'` is read back as a statement `st` without `!=` operator, equal up to `normS` to
        the intended statement of the PROGRAM, and `st` (as read, and in normal form) and the intended
        statement evaluate to `Rel.interp src db t'` on every rectangular database.

    (Not stated here: that `cs` itself is read as the same statement — `parse_statement_program`.) -/
theorem end_to_end_program_source_partial (src sql : Bytes) (lets : List Stmt) (t : Tabular)
    (hp : parse src = (lets ++ [.tabular t], [])) (hc : compile [] src = .ok sql)
    (hk : k4Free (lets ++ [.tabular t]) = true)
    (hl : IsLets lets) (hjoin : LetsJoinSafe .join lets) (hT : TrueFree (letsEnv lets []))
    (hN : tabNamed t)
    (hnames : namesOk (substTabular (letsEnv lets []) t) = true)
    (hops : tabOpsOk (substTabular (letsEnv lets []) t) = true) :
    resolveLets (lets ++ [.tabular t]) [] = some (substTabular (letsEnv lets []) t) ∧
    C05.tabularOK (substTabular (letsEnv lets []) t) = true ∧
    (∀ db, Rel.interpProgram src db (lets ++ [.tabular t]) =
      some (Rel.interp src db (substTabular (letsEnv lets []) t))) ∧
    ∃ cs, compileChunks src [] (lets ++ [.tabular t]) = .ok cs ∧ sql = renderChunks cs ∧
      Sql.lex .standard sql = some (toksOf cs) ∧ STok.sym "!=" ∉ toksOf cs ∧
      ∃ cs' st want, compileChunks src [] [.tabular (substTabular (letsEnv lets []) t)] = .ok cs' ∧
        EqUpToParens cs cs' ∧
        readSql (renderChunks cs') = some st ∧ noBangStatement st = true ∧
        intended src (lets ++ [.tabular t]) = some want ∧ statementEq st want = true ∧
        ∀ db, RectDB db →
          evalStatement db st = Rel.interp src db (substTabular (letsEnv lets []) t) ∧
          evalStatement db (normStatement st) = Rel.interp src db (substTabular (letsEnv lets []) t) ∧
          evalStatement db want = Rel.interp src db (substTabular (letsEnv lets []) t) := by
  obtain ⟨cs, hcs, rfl⟩ := compile_ok_chunks src sql _ hp hc
  have hlex := parsed_lexOK_k4 src _ hp hk
  have hres : resolveLets (lets ++ [.tabular t]) [] = some (substTabular (letsEnv lets []) t) := by
    obtain ⟨sc, q, hrun⟩ := lets_run_of_compile src lets t cs hl hcs
    exact C06.C06_resolveLets_env lets t hl (C06.lets_named_of_run src lets hl _ sc q hrun)
  have hok := parsed_resolved_tabularOK src _ _ hp hc hk _ hres
  obtain ⟨_, h2, h3, cs', st, want, h4, h5, h6, h7, h8, h9⟩ :=
    C02_end_to_end_program_partial src lets t cs hcs hl hjoin hT hN hlex hok hnames hops
  have hlex' : stmtsLexOK [.tabular (substTabular (letsEnv lets []) t)] = true := by
    simp only [stmtsLexOK]; exact tabularOK_lexOK _ hok
  have hnb := readSql_noBang src _ cs' st hlex' h4 h6
  refine ⟨hres, hok, h2, cs, hcs, rfl, h3, program_toks_no_bang src _ cs hlex hcs, cs', st, want, h4, h5, h6, hnb,
    h7, h8, fun db hdb => ?_⟩
  obtain ⟨ha, hb⟩ := h9 db hdb
  exact ⟨by rw [← evalStatement_normStatement db st hnb]; exact ha, ha, hb⟩

/-! ### the full theorem -/

/-- **C05 (ParseStatement) for programs with lets.**  The tokens of the chunks compiled for
    `lets ++ [query t]` are read by the reference SQL parser as the intended statement of the program
    (= of the resolved query), up to `normS`. -/
theorem parse_statement_program (src : Bytes) (lets : List Stmt) (t : Tabular) (cs : List Chunk)
    (hc : compileChunks src [] (lets ++ [.tabular t]) = .ok cs)
    (hl : IsLets lets) (hv : LetValuesOK lets) (hjs : envJoinSafe (letsEnv lets []) = true)
    (hJ : TrueFree (letsEnv lets []) ∨ TabNE t = true) (hN : tabNamed t)
    (hok : C05.tabularOK (substTabular (letsEnv lets []) t) = true) :
    resolveLets (lets ++ [.tabular t]) [] = some (substTabular (letsEnv lets []) t) ∧
    ∃ st want, parseStatement (toksOf cs) = some st ∧ intended src (lets ++ [.tabular t]) = some want ∧
      statementEq st want = true := by
  obtain ⟨sc, q, hrun⟩ := lets_run_of_compile src lets t cs hl hc
  have hres := C06.C06_resolveLets_env lets t hl (C06.lets_named_of_run src lets hl _ sc q hrun)
  have hsc : ScopeLetsEnv src sc (letsEnv lets []) := C06.C06_compileStmts_scope src lets sc q hv hrun
  have hfin : C14.finishChunks src sc (some t) = .ok cs := by
    rw [← C06.C06_lets_then_query src [] lets t hl sc q hrun]; exact hc
  obtain ⟨st, want, h1, h2, h3⟩ := statement_parse_s src sc _ hsc hjs t hJ hN cs hok hfin
  exact ⟨hres, st, want, h1, by rw [intended_of_resolveLets src _ _ hres]; exact h2, h3⟩

/-- **C02 (end to end, programs with lets, tree level).**  The SQL text emitted for `lets ++ [query t]`,
    read back by the reference reader and evaluated as read by the reference evaluator, is the meaning of
    the program: `Rel.interp` of the resolved query, which is `Rel.interpProgram` of the program. -/
theorem end_to_end_program (src : Bytes) (lets : List Stmt) (t : Tabular) (cs : List Chunk)
    (hc : compileChunks src [] (lets ++ [.tabular t]) = .ok cs)
    (hl : IsLets lets) (hv : LetValuesOK lets) (hjs : envJoinSafe (letsEnv lets []) = true)
    (hJ : TrueFree (letsEnv lets []) ∨ TabNE t = true) (hN : tabNamed t)
    (hlexP : stmtsLexOK (lets ++ [.tabular t]) = true)
    (hok : C05.tabularOK (substTabular (letsEnv lets []) t) = true)
    (hnames : namesOk (substTabular (letsEnv lets []) t) = true)
    (hops : tabOpsOk (substTabular (letsEnv lets []) t) = true) :
    ∃ st want, readSql (renderChunks cs) = some st ∧ noBangStatement st = true ∧
      intended src (lets ++ [.tabular t]) = some want ∧ statementEq st want = true ∧
      ∀ db, RectDB db →
        evalStatement db st = Rel.interp src db (substTabular (letsEnv lets []) t) ∧
        evalStatement db want = Rel.interp src db (substTabular (letsEnv lets []) t) ∧
        Rel.interpProgram src db (lets ++ [.tabular t]) =
          some (Rel.interp src db (substTabular (letsEnv lets []) t)) := by
  obtain ⟨hres, st, want, h1, h2, h3⟩ := parse_statement_program src lets t cs hc hl hv hjs hJ hN hok
  have hr : readSql (renderChunks cs) = some st := by
    rw [readSql_of_lex (C05.C05_lexRender_program src _ cs hlexP hc), h1]
  have hnb := readSql_noBang src _ cs st hlexP hc hr
  refine ⟨st, want, hr, hnb, h2, h3, fun db hdb => ?_⟩
  have hi : intended src [.tabular (substTabular (letsEnv lets []) t)] = some want := by
    rw [← intended_of_resolveLets src _ _ hres]; exact h2
  have hsem := C03.C03_intended_semantics src db _ want hi hnames hops hdb
  refine ⟨?_, hsem, interpProgram_lets src db lets t _ hl hN hres⟩
  rw [← evalStatement_normStatement db st hnb, evalStatement_of_statementEq db h3 (intended_noBang src _ want h2), hsem]

/-- the let values of a parsed, compiled, K4-free program are `lexOK` and `shapeOK` -/
theorem parsed_letValues (src sql : Bytes) (lets rest : List Stmt) (hl : IsLets lets)
    (hp : parse src = (lets ++ rest, [])) (hc : compile [] src = .ok sql)
    (hk : k4Free (lets ++ rest) = true) : LetValuesOK lets := by
  intro st hst kw n a x hx
  subst hx
  have := parsed_letValuesOK src sql lets rest hl hp hc hk kw n a x hst
  simp only [C05.exprOKin, Bool.and_eq_true] at this
  exact ⟨this.1.1, this.1.2⟩

/-- **C02 (end to end, source bytes, programs with lets).** -/
theorem end_to_end_program_source (src sql : Bytes) (lets : List Stmt) (t : Tabular)
    (hp : parse src = (lets ++ [.tabular t], [])) (hc : compile [] src = .ok sql)
    (hk : k4Free (lets ++ [.tabular t]) = true)
    (hl : IsLets lets) (hjs : envJoinSafe (letsEnv lets []) = true)
    (hN : tabNamed t)
    (hnames : namesOk (substTabular (letsEnv lets []) t) = true)
    (hops : tabOpsOk (substTabular (letsEnv lets []) t) = true) :
    ∃ st want, readSql sql = some st ∧ noBangStatement st = true ∧
      intended src (lets ++ [.tabular t]) = some want ∧ statementEq st want = true ∧
      ∀ db, RectDB db →
        evalStatement db st = Rel.interp src db (substTabular (letsEnv lets []) t) ∧
        evalStatement db want = Rel.interp src db (substTabular (letsEnv lets []) t) ∧
        Rel.interpProgram src db (lets ++ [.tabular t]) =
          some (Rel.interp src db (substTabular (letsEnv lets []) t)) := by
  obtain ⟨cs, hcs, rfl⟩ := compile_ok_chunks src sql _ hp hc
  have hlex := parsed_lexOK_k4 src _ hp hk
  have hv := parsed_letValues src _ lets _ hl hp hc hk
  have hres : resolveLets (lets ++ [.tabular t]) [] = some (substTabular (letsEnv lets []) t) := by
    obtain ⟨sc, q, hrun⟩ := lets_run_of_compile src lets t cs hl hcs
    exact C06.C06_resolveLets_env lets t hl (C06.lets_named_of_run src lets hl _ sc q hrun)
  have hok := parsed_resolved_tabularOK src _ _ hp hc hk _ hres
  have hne : TabNE t = true := (parsed_facts src _ hp (.tabular t) (by simp)).2.2 t rfl
  exact end_to_end_program src lets t cs hcs hl hv hjs (Or.inr hne) hN hlex hok hnames hops

end Pql.E2EFinal
