/-
A newline is the weakest follower: if the scan of `x ++ c :: y` has a step boundary at the end
of `x` for some byte `c`, then so has the scan of `x ++ "\n" ++ z`.
(The only step that ends with a newline byte without starting at it is a `//` comment, and a
comment that stops inside `x` stops at a newline of `x`.)
-/
import PqlModel.Lemmas.CliLemmasRun
namespace Pql

theorem scanPunct_nl_head (c : UInt8) (z : Bytes) : (scanPunct c (10 :: z)).width = 1 := by
  unfold scanPunct
  simp only [Step.skip, Step.sym, List.head?_cons]
  repeat' split
  all_goals simp_all

/-- A step that starts before a newline ends before it, unless it is a `//` comment. -/
theorem scanOne_nl_strict (c : UInt8) (x y : Bytes) :
    (scanOne (c :: x ++ 10 :: y)).width ≤ x.length + 1 ∨ (c = 47 ∧ x.head? = some 47) := by
  simp only [List.cons_append]
  unfold scanOne
  simp only [Step.ofLexeme, Step.skip]
  split
  · left; have := scanNonAscii_nl c x y; simp only [List.cons_append] at this; omega
  · split
    · left; simp
    · split
      · left
        have := identLoop_nl x y
        simp only [scanIdent, List.tail_cons]
        split <;> simp <;> omega
      · split
        · left
          have := scanNumberOrDot_nl c x y; simp only [List.cons_append] at this
          simp only []; omega
        · split
          · left
            rename_i _ _ _ hq
            have hq' : c ≠ 10 := by
              intro h0; subst h0; simp at hq
            have := stringLoop_nl c hq' x y
            simp only [scanString]
            split <;> simp_all <;> omega
          · split
            · left
              have := qidentLoop_nl x y
              simp only [scanQuotedIdent, List.tail_cons]
              split <;> simp_all <;> omega
            · rcases scanPunct_width_cases c (x ++ 10 :: y) with h | ⟨h0, h1, _⟩
              · cases x with
                | nil =>
                  left
                  have := scanPunct_nl_head c y
                  simp only [List.nil_append, List.length_nil]
                  omega
                | cons d x => left; simp only [List.length_cons]; omega
              · right
                refine ⟨h0, ?_⟩
                cases x with
                | nil => simp at h1
                | cons d x => simpa using h1

theorem scanOne_comment (r : Bytes) : scanOne (47 :: 47 :: r) = ⟨none, commentLen r + 2⟩ := by
  simp [scanOne, isAsciiSpace, isIdentStart, isAlpha, isDigit, inRanges, Facts.isAlphaRanges,
    Facts.isDigitRanges, scanPunct, singleKind, Step.skip]

theorem commentLen_indep (x y r : Bytes) (c : UInt8)
    (h : commentLen (x ++ c :: y) ≤ x.length) : commentLen (x ++ r) = commentLen x := by
  induction x with
  | nil =>
    simp only [List.nil_append, commentLen, List.length_nil] at h
    split at h <;> omega
  | cons d x ih =>
    simp only [List.cons_append, commentLen, List.length_cons] at h ⊢
    split
    · rfl
    · rename_i hd
      simp only [hd] at h
      rw [ih (by simpa using h)]

/-- A step on `x ++ c :: y` that stays inside `x` stays inside `x` when a newline follows
    instead. -/
theorem scanOne_nl_of_other (x y z : Bytes) (c : UInt8)
    (h : (scanOne (x ++ c :: y)).width ≤ x.length) :
    (scanOne (x ++ 10 :: z)).width ≤ x.length := by
  cases x with
  | nil =>
    have := scanOne_width_pos c y
    simp at h; omega
  | cons d x =>
    rcases scanOne_nl_strict d x z with h1 | ⟨h1, h2⟩
    · simpa using h1
    · subst h1
      cases x with
      | nil => simp at h2
      | cons e x =>
        have he : e = 47 := by simpa using h2
        subst he
        simp only [List.cons_append, scanOne_comment, List.length_cons] at h ⊢
        have h' : commentLen (x ++ c :: y) ≤ x.length := by omega
        have e1 := commentLen_indep x y (c :: y) c h'
        have e2 := commentLen_indep x y (10 :: z) c h'
        rw [e2]
        rw [e1] at h'
        omega

theorem reaches_newline_of_other_aux {s : Bytes} {n : Nat} (h : Reaches s n) :
    ∀ (x y z : Bytes) (c : UInt8), s = x ++ c :: y → n = x.length →
      Reaches (x ++ 10 :: z) x.length := by
  induction h with
  | here s =>
    intro x y z c _ hn
    rw [← hn]; exact Reaches.here _
  | step s m hne hr ih =>
    intro x y z c hs hn
    subst hs
    have hpos := scanOne_width_pos' hne
    have hw : (scanOne (x ++ c :: y)).width ≤ x.length := by omega
    have hx := scanOne_append x (c :: y) hw
    have hw2 := scanOne_nl_of_other x y z c hw
    have hx2 := scanOne_append x (10 :: z) hw2
    rw [hx] at hr hn hw
    rw [drop_append_of_le x (c :: y) _ hw] at hr
    have h1 := ih (x.drop (scanOne x).width) y z c
      (by rw [hx, drop_append_of_le x (c :: y) _ hw])
      (by simp only [List.length_drop]; omega)
    have h2 := Reaches.step (x ++ 10 :: z) _ (by simp) (by
      rw [hx2, drop_append_of_le x (10 :: z) _ hw]; exact h1)
    rw [hx2] at h2
    simp only [List.length_drop] at h2
    have he : (scanOne x).width + (x.length - (scanOne x).width) = x.length := by omega
    rwa [he] at h2

/-- **A newline is the weakest follower.** -/
theorem reaches_newline_of_other (x y z : Bytes) (c : UInt8)
    (h : Reaches (x ++ c :: y) x.length) : Reaches (x ++ 10 :: z) x.length :=
  reaches_newline_of_other_aux h x y z c rfl rfl

/-! ### the last statement, with or without a semicolon behind it -/

open Pql.CliSpec

theorem normalise_concat (ls : List Bytes) (l : Bytes) :
    normalise (ls ++ [l]) = normalise ls ++ (l ++ [10]) := by
  simp [normalise]

theorem closed_normalise (ls : List Bytes) : Closed (normalise ls) := by
  rcases List.eq_nil_or_concat ls with h | ⟨ls', l, h⟩
  · subst h; exact closed_nil
  · rw [h, List.concat_eq_append, normalise_concat, ← List.append_assoc]
    exact closed_newline _

theorem scanFrom_newline (off : Nat) : scanFrom [10] off = [] := by
  rw [scanFrom_step (by simp)]
  have : scanOne [10] = ⟨none, 1⟩ := by simp [scanOne, isAsciiSpace, Step.skip]
  simp [this, Step.toks, scanFrom_nil]

theorem scan_append_newline (s : Bytes) (h : Reaches (s ++ [10]) s.length) :
    scan (s ++ [10]) = scan s := by
  unfold scan
  rw [scanFrom_append s [10] 0 h, scanFrom_newline, List.append_nil]

theorem specFrom_terminated (compile : Bytes → Option Bytes) (a : Acc) (s : Bytes) (readErr : Bool)
    (hsemi : ∀ t ∈ scan s, t.kind ≠ .semi) (hb : Reaches (s ++ 59 :: [10]) s.length) :
    specFrom compile a (s ++ 59 :: [10]) readErr =
      specFinish compile (statement compile a s) [10] readErr := by
  have h1 : splitStatements [10] = [[10]] :=
    splitStatements_nosemi [10] (by simp [scan, scanFrom_newline])
  have h2 := splitStatements_semi s [10] hb hsemi
  rw [h1] at h2
  simp [specFrom, lastPiece, h2]

theorem specFrom_unterminated (compile : Bytes → Option Bytes) (a : Acc) (s : Bytes)
    (readErr : Bool) (hsemi : ∀ t ∈ scan s, t.kind ≠ .semi) (hb : Reaches (s ++ [10]) s.length) :
    specFrom compile a (s ++ [10]) readErr = specFinish compile a (s ++ [10]) readErr := by
  have h2 := splitStatements_nosemi (s ++ [10]) (by rw [scan_append_newline s hb]; exact hsemi)
  simp [specFrom, lastPiece, h2]

/-- The specification on a last statement `s` (some token, no semicolon token, not a `let`):
    `s;\n` and `s\n` give the same result if `compile` ignores one trailing newline. -/
theorem specFrom_last_terminated_or_not (compile : Bytes → Option Bytes) (a : Acc) (s : Bytes)
    (readErr : Bool) (hnl : ∀ x, compile (x ++ [10]) = compile x)
    (hsemi : ∀ t ∈ scan s, t.kind ≠ .semi) (hb : Reaches (s ++ 59 :: [10]) s.length)
    (htok : scan s ≠ []) (hlet : isLetStatement s = false) :
    specFrom compile a (s ++ 59 :: [10]) readErr = specFrom compile a (s ++ [10]) readErr := by
  have hb' : Reaches (s ++ [10]) s.length := reaches_newline_of_other s [10] [] 59 hb
  rw [specFrom_terminated compile a s readErr hsemi hb,
    specFrom_unterminated compile a s readErr hsemi hb']
  have he : (scan (s ++ [10])).isEmpty = false := by
    rw [scan_append_newline s hb']
    cases hs : scan s with
    | nil => exact absurd hs htok
    | cons t ts => rfl
  have hn : (scan [10]).isEmpty = true := by simp [scan, scanFrom_newline]
  have hc : compile (a.lets ++ (s ++ [10])) = compile (a.lets ++ s) := by
    rw [← List.append_assoc, hnl]
  cases readErr <;> cases hcs : compile (a.lets ++ s) <;>
    simp [specFinish, statement, hlet, he, hn, hc, hcs]

end Pql
