/-
The `/` case of `Scan`'s main switch as translated: a lone slash (with `continue` at the end of the
input), the `//` comment loop by runes against the model's `commentLen` by bytes, a slash before anything
else (the second rune is given back).
-/
import PqlModel.Lemmas.LexScanIRScanOps
namespace Pql.ScanIR
open Pql
open Pql.LexIR (IErr M BinOp goPanic stuck irOf)
set_option linter.unusedSimpArgs false
set_option linter.unusedVariables false

section
variable (env : Env) (fuel : Nat) (E : ScanEnv fuel env) (src : Bytes) (acc : List Token) (k : Nat) (bs : List (Nat × Bytes))
include E

/-- **the comment loop**: up to and including the next newline (or to the end) -/
theorem comment_loop :
    ∀ (n j c : Nat) (ok : Bool) (l : Nat), j ≤ src.length → src.length - j < n →
      ∃ c' ok' l', foreverLoop (execBlock env fuel commentLoopBody) n (inSt src acc k c ok (sp src j l bs)) =
        .ok (.next, inSt src acc k c' ok' (sp src (j + commentLen (src.drop j)) l' bs)) := by
  obtain ⟨fN, hN, sN⟩ := E.cur.next
  intro n
  induction n with
  | zero => intro j c ok l _ h; omega
  | succ n ih =>
    intro j c ok l hj hn
    cases hd : src.drop j with
    | nil =>
      have hlen : src.length ≤ j := List.drop_eq_nil_iff.mp hd
      refine ⟨0, false, l, ?_⟩
      have hb : execBlock env fuel commentLoopBody (inSt src acc k c ok (sp src j l bs)) =
          .ok (.brk, inSt src acc k 0 false (sp src j l bs)) := by
        unfold commentLoopBody inSt
        ls_simp [hN, nextS_end sN src j l bs hlen]
      simp only [foreverLoop, hb, bind, Except.bind, pure, Except.pure, leave_inSt, commentLen, Nat.add_zero]
    | cons d rest =>
      obtain ⟨r, w, hr, hwpos, hq, _, _, hw, _⟩ := rune_facts d rest
      have nx := nextS_cons sN src j l bs d rest r w hd hr
      have hwle : j + w ≤ src.length := by
        have h1 := decodeRune_width_le (d :: rest); rw [hr] at h1
        have h2 := congrArg List.length hd
        simp at h1 h2; omega
      by_cases h10 : d = 10
      · subst h10
        have : w = 1 := hw (by decide)
        subst this
        have : r = 10 := (hq 10 (by omega)).mpr rfl
        subst this
        refine ⟨10, true, j, ?_⟩
        have hb : execBlock env fuel commentLoopBody (inSt src acc k c ok (sp src j l bs)) =
            .ok (.brk, inSt src acc k 10 true (sp src (j + 1) j bs)) := by
          unfold commentLoopBody inSt
          ls_simp [hN, nx]
        simp only [foreverLoop, hb, bind, Except.bind, pure, Except.pure, leave_inSt, commentLen, beq_self_eq_true, if_true]
      · have hr10 : ¬ r = 10 := fun e => h10 ((hq 10 (by omega)).mp e)
        obtain ⟨c', ok', l', e⟩ := ih (j + w) r true j hwle (by omega)
        refine ⟨c', ok', l', ?_⟩
        have hb : execBlock env fuel commentLoopBody (inSt src acc k c ok (sp src j l bs)) =
            .ok (.next, inSt src acc k r true (sp src (j + w) j bs)) := by
          unfold commentLoopBody inSt
          ls_simp [hN, nx, hr10]
        have hbytes := rune_bytes_ne d rest 10 (by decide) h10
        rw [hr] at hbytes
        have hsplit : d :: rest = (d :: rest).take w ++ (d :: rest).drop w := (List.take_append_drop w _).symm
        have hskip := Dispatch.commentLen_skip ((d :: rest).take w) ((d :: rest).drop w) hbytes
        rw [← hsplit] at hskip
        have hdd : (d :: rest).drop w = src.drop (j + w) := by rw [← hd, List.drop_drop]
        have hlenx : ((d :: rest).take w).length = w := by
          rw [List.length_take]
          have h2 := congrArg List.length hd
          simp at h2 ⊢; omega
        rw [hdd, hlenx] at hskip
        simp only [foreverLoop, hb, bind, Except.bind, leave_inSt, e, hskip]
        have a : j + w + commentLen (src.drop (j + w)) = j + (w + commentLen (src.drop (j + w))) := by omega
        rw [a]

/-- **the `/` case** against the model's `scanPunct 47` -/
theorem case_slash (rest : Bytes) (hd : src.drop (k + 1) = rest) (hfuel : src.length < fuel) :
    ∃ f c' ok' l', (f = .next ∨ f = .cont) ∧
      execBlock env fuel slashCase (inSt src acc k 47 true (sp src (k + 1) k bs)) =
        .ok (f, inSt src (acc ++ stepToks k (scanPunct 47 rest)) k c' ok'
          (sp src (k + (scanPunct 47 rest).width) l' bs)) := by
  obtain ⟨fN, hN, sN⟩ := E.cur.next
  obtain ⟨fP, hP, sP⟩ := E.cur.prev
  obtain ⟨fA, hA, sA0⟩ := E.cur.newSpan
  have sA : ∀ a b h, fA [.int a, .int b] h = .ok ([.span a b], h) := sA0
  have hAp := E.append
  unfold HasPrim at hAp
  have ks : TokKind.ofGoName "TokenSlash" = some .slash := by decide
  cases rest with
  | nil =>
    have hlen : src.length ≤ k + 1 := List.drop_eq_nil_iff.mp hd
    refine ⟨.cont, 0, false, k, Or.inr rfl, ?_⟩
    have hm : scanPunct 47 [] = .sym .slash 1 := by decide
    unfold slashCase inSt
    ls_simp [hN, nextS_end sN src (k + 1) k bs hlen, hA, sA, hAp, prims, ks, ofString_empty, hm, stepToks, Step.sym]
  | cons d rest2 =>
    obtain ⟨rd, wd, hrd, hwdpos, hqd, _, _, hwd, _⟩ := rune_facts d rest2
    have nx := nextS_cons sN src (k + 1) k bs d rest2 rd wd hd hrd
    by_cases h47 : d = 47
    · subst h47
      have : wd = 1 := hwd (by decide)
      subst this
      have : rd = 47 := (hqd 47 (by omega)).mpr rfl
      subst this
      have hlt := LexIR.lt_of_drop_cons hd
      obtain ⟨c', ok', l', e⟩ := comment_loop env fuel E src acc k bs fuel (k + 1 + 1) 47 true (k + 1) (by omega) (by omega)
      rw [LexIR.drop_succ_of_cons hd] at e
      refine ⟨.cont, c', ok', l', Or.inr rfl, ?_⟩
      have hm : scanPunct 47 (47 :: rest2) = .skip (commentLen rest2 + 2) := by
        simp [scanPunct, singleKind, Step.skip]
      unfold inSt at e
      unfold slashCase inSt
      ls_simp [hN, nx, e, hm, stepToks, Step.skip]
      congr 1; omega
    · have hr47 : ¬ rd = 47 := fun e => h47 ((hqd 47 (by omega)).mp e)
      refine ⟨.next, rd, true, k + 1, Or.inl rfl, ?_⟩
      have hm : scanPunct 47 (d :: rest2) = .sym .slash 1 := by
        simp [scanPunct, singleKind, Step.sym, h47]
      unfold slashCase inSt
      ls_simp [hN, hP, nx, prevS sP, hr47, hA, sA, hAp, prims, ks, ofString_empty, hm, stepToks, Step.sym]

end
end Pql.ScanIR
