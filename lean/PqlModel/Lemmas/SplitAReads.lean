/-
Invariants of the intended structured splitting `splitA` / `splitOpsA`, proved directly (no
reference to the model, hence without any writability side condition), by one mutual structural
induction over `Tabular` / `OpList`:

  * every link reads only names of EARLIER links or source tables of the pipeline (`ReadsOk`),
  * the link at index `i` is named `__subquery{i}` unless it is an `as` link (`NamesOkA`),
  * the list only grows (`splitA` adds at least one link).
-/
import PqlModel.Lemmas.SplitASim
namespace Pql.C05
open Pql SplitQ Intended

mutual
/-- the source-table names of a pipeline, right-hand pipelines of joins included.  Differs from
    `CompileOracle.tabularTables` only for a pipeline without source (`Tabular.mk none _`), whose
    links read the table `identName none = ""`: that name is listed here. -/
def tablesOf : Tabular → List Bytes
  | .nil => []
  | .mk src ops => identName src :: opsTablesOf ops
def opsTablesOf : OpList → List Bytes
  | .nil => []
  | .cons (.join _ _ _ _ _ _ right _ _ _) os => tablesOf right ++ opsTablesOf os
  | .cons _ os => opsTablesOf os
end

mutual
/-- every pipeline (right-hand ones included) has a source table -/
def hasSources : Tabular → Bool
  | .nil => true
  | .mk src ops => src.isSome && opsHaveSources ops
def opsHaveSources : OpList → Bool
  | .nil => true
  | .cons (.join _ _ _ _ _ _ right _ _ _) os => hasSources right && opsHaveSources os
  | .cons _ os => opsHaveSources os
end

mutual
theorem tablesOf_eq_tabularTables : ∀ (t : Tabular), hasSources t = true →
    tablesOf t = CompileOracle.tabularTables t
  | .nil, _ => by unfold tablesOf CompileOracle.tabularTables; rfl
  | .mk src ops, h => by
    unfold hasSources at h
    simp only [Bool.and_eq_true] at h
    unfold tablesOf CompileOracle.tabularTables
    rw [opsTablesOf_eq_opsTables ops h.2]
    cases src with
    | none => simp at h
    | some i => rfl
theorem opsTablesOf_eq_opsTables : ∀ (ops : OpList), opsHaveSources ops = true →
    opsTablesOf ops = CompileOracle.opsTables ops
  | .nil, _ => by unfold opsTablesOf CompileOracle.opsTables; rfl
  | .cons o os, h => by
    cases o with
    | join p kw kind ka flavor lp right rp on conds =>
      unfold opsHaveSources at h
      simp only [Bool.and_eq_true] at h
      unfold opsTablesOf CompileOracle.opsTables
      rw [tablesOf_eq_tabularTables right h.1, opsTablesOf_eq_opsTables os h.2]
    | _ =>
      unfold opsHaveSources at h
      unfold opsTablesOf CompileOracle.opsTables
      exact opsTablesOf_eq_opsTables os h
end

/-! ### the invariant -/

/-- `s`, standing behind the links `prev`, reads only their names or tables of `T` -/
def okAt (T : List Bytes) (prev : List SubA) (s : SubA) : Prop :=
  ∀ n ∈ srcNames s.source, n ∈ prev.map (·.name) ∨ n ∈ T

def ReadsOk (T : List Bytes) (l : List SubA) : Prop :=
  ∀ (i : Nat) (hi : i < l.length), okAt T (l.take i) l[i]

def NameOkA (i : Nat) (s : SubA) : Prop :=
  s.name = subqueryName i ∨ ∃ p k n, s.op = some (.as_ p k n) ∧ s.name = identName n

def NamesOkA (l : List SubA) : Prop := ∀ (i : Nat) (hi : i < l.length), NameOkA i l[i]

structure InvA (T : List Bytes) (l : List SubA) : Prop where
  reads : ReadsOk T l
  names : NamesOkA l

theorem InvA.nil (T : List Bytes) : InvA T [] :=
  ⟨fun i hi => by simp at hi, fun i hi => by simp at hi⟩

theorem InvA.snoc {T : List Bytes} {l : List SubA} {s : SubA} (h : InvA T l) (hs : okAt T l s)
    (hn : NameOkA l.length s) : InvA T (l ++ [s]) := by
  constructor
  · intro i hi
    by_cases hlt : i < l.length
    · rw [List.getElem_append_left hlt, List.take_append_of_le_length (Nat.le_of_lt hlt)]
      exact h.reads i hlt
    · have : i = l.length := by simp at hi; omega
      subst this
      simpa using hs
  · intro i hi
    by_cases hlt : i < l.length
    · rw [List.getElem_append_left hlt]; exact h.names i hlt
    · have : i = l.length := by simp at hi; omega
      subst this
      simpa using hn

theorem InvA.init {T : List Bytes} {init : List SubA} {s : SubA} (h : InvA T (init ++ [s])) :
    InvA T init ∧ okAt T init s ∧ NameOkA init.length s := by
  refine ⟨⟨?_, ?_⟩, ?_, ?_⟩
  · intro i hi
    have := h.reads i (by simp; omega)
    rwa [List.getElem_append_left hi, List.take_append_of_le_length (Nat.le_of_lt hi)] at this
  · intro i hi
    have := h.names i (by simp; omega)
    rwa [List.getElem_append_left hi] at this
  · have := h.reads init.length (by simp)
    simpa using this
  · have := h.names init.length (by simp)
    simpa using this

theorem setLastA_snoc (init : List SubA) (s : SubA) (f : SubA → SubA) :
    setLastA (init ++ [s]) f = init ++ [f s] := by simp [setLastA]

theorem setLastA_length (l : List SubA) (f : SubA → SubA) : (setLastA l f).length = l.length := by
  rcases List.eq_nil_or_concat l with rfl | ⟨init, s, rfl⟩
  · rfl
  · rw [List.concat_eq_append, setLastA_snoc]; simp

/-- setting sort / take of the last link keeps the invariant -/
theorem InvA.setLast {T : List Bytes} {l : List SubA} (h : InvA T l) {f : SubA → SubA}
    (hf : ∀ s, (f s).source = s.source ∧ (f s).name = s.name ∧ (f s).op = s.op) :
    InvA T (setLastA l f) := by
  rcases List.eq_nil_or_concat l with rfl | ⟨init, s, rfl⟩
  · exact h
  · rw [List.concat_eq_append] at h ⊢
    rw [setLastA_snoc]
    obtain ⟨hi, hs, hn⟩ := h.init
    refine hi.snoc ?_ ?_
    · intro n hnm; rw [(hf s).1] at hnm; exact hs n hnm
    · unfold NameOkA; rw [(hf s).2.1, (hf s).2.2]; exact hn

theorem okAt_chain {T : List Bytes} (l : List SubA) (k : Nat) (source : Option Ident)
    (hT : identName source ∈ T) : okAt T l (chainA l k source) := by
  intro n hn
  simp only [chainA, srcNames, List.mem_singleton] at hn
  split at hn
  · rename_i hk
    rcases List.eq_nil_or_concat l with rfl | ⟨init, s, rfl⟩
    · simp at hk
    · left; subst hn; simp
  · right; rw [hn]; exact hT

theorem InvA.attach {T : List Bytes} {l : List SubA} (h : InvA T l) (k : Nat) (source : Option Ident)
    (hT : identName source ∈ T) (b : Bool) :
    InvA T (if b = true then l else l ++ [chainA l k source]) := by
  cases b
  · exact h.snoc (okAt_chain l k source hT) (.inl rfl)
  · exact h

theorem attach_length_le (l : List SubA) (c : SubA) (b : Bool) (f : SubA → SubA) :
    l.length ≤ (setLastA (if b = true then l else l ++ [c]) f).length := by
  rw [setLastA_length]
  cases b <;> simp

theorem mem_map_name_of_getElem? {l : List SubA} {i : Nat} {s : SubA} (h : l[i]? = some s) :
    s.name ∈ l.map (·.name) :=
  List.mem_map.mpr ⟨s, List.mem_of_getElem? h, rfl⟩

/-- the join link reads an earlier link / the base table on the left, the last link of the
    right-hand block on the right -/
theorem okAt_join {T : List Bytes} (source : Option Ident) (k n : Nat) (d : List SubA) (hlt : n < d.length)
    (hT : identName source ∈ T) (name : Bytes) (u l : Bool) (cond : Expr) :
    okAt T d { name := name, source := .join u l (joinLeftA source k n d) (joinRightA d) cond } := by
  intro x hx
  simp only [srcNames, List.mem_cons, List.not_mem_nil, or_false] at hx
  rcases hx with rfl | rfl
  · unfold joinLeftA
    split
    · have hi : ((n : Int) - 1).toNat < d.length := by omega
      rw [List.getElem?_eq_getElem hi]
      left; exact mem_map_name_of_getElem? (List.getElem?_eq_getElem hi)
    · right; exact hT
  · unfold joinRightA
    rcases List.eq_nil_or_concat d with rfl | ⟨init, s, rfl⟩
    · simp at hlt
    · left; simp

mutual
theorem inv_tab : ∀ (t : Tabular) (T : List Bytes) (dstA out : List SubA), splitA dstA t = some out →
    InvA T dstA → (∀ n ∈ tablesOf t, n ∈ T) → InvA T out ∧ dstA.length < out.length
  | .nil, T, dstA, out, h, _, _ => by unfold splitA at h; cases h
  | .mk source ops, T, dstA, out, h, hinv, hT => by
    unfold splitA at h
    simp only at h
    unfold tablesOf at hT
    cases hq : splitOpsA source dstA.length dstA ops with
    | none => rw [hq] at h; cases h
    | some mid =>
      rw [hq] at h
      have ih := inv_ops ops source dstA.length T dstA mid hq hinv (hT _ (by simp))
        (fun n hn => hT n (by simp [hn]))
      simp only [bind, Option.bind] at h
      by_cases hlen : mid.length = dstA.length
      · simp only [hlen, ↓reduceIte, pure] at h
        cases h
        exact ⟨ih.1.snoc (okAt_chain _ _ _ (hT _ (by simp))) (.inl rfl), by simp; omega⟩
      · simp only [hlen, ↓reduceIte, pure] at h
        cases h
        exact ⟨ih.1, by have := ih.2; omega⟩
theorem inv_ops : ∀ (ops : OpList) (source : Option Ident) (k : Nat) (T : List Bytes) (dstA out : List SubA),
    splitOpsA source k dstA ops = some out → InvA T dstA → identName source ∈ T →
    (∀ n ∈ opsTablesOf ops, n ∈ T) → InvA T out ∧ dstA.length ≤ out.length
  | .nil, source, k, T, dstA, out, h, hinv, _, _ => by
    unfold splitOpsA at h; cases h; exact ⟨hinv, Nat.le_refl _⟩
  | .cons o rest, source, k, T, dstA, out, h, hinv, hS, hT => by
    have hplain : ∀ (o : Op) (x : List SubA),
        x = dstA ++ [{ chainA dstA k source with op := some o }] →
        splitOpsA source k x rest = some out → (∀ n ∈ opsTablesOf rest, n ∈ T) →
        InvA T out ∧ dstA.length ≤ out.length := by
      intro o x hx h hT
      subst hx
      have ih := inv_ops rest source k T _ out h
        (hinv.snoc (okAt_chain dstA k source hS) (.inl rfl)) hS hT
      exact ⟨ih.1, by have := ih.2; simp at this; omega⟩
    cases o with
    | count p kw => unfold splitOpsA at h; unfold opsTablesOf at hT; exact hplain _ _ rfl h hT
    | where_ p kw e => unfold splitOpsA at h; unfold opsTablesOf at hT; exact hplain _ _ rfl h hT
    | project p kw cs => unfold splitOpsA at h; unfold opsTablesOf at hT; exact hplain _ _ rfl h hT
    | extend p kw cs => unfold splitOpsA at h; unfold opsTablesOf at hT; exact hplain _ _ rfl h hT
    | summarize p kw cs b gs => unfold splitOpsA at h; unfold opsTablesOf at hT; exact hplain _ _ rfl h hT
    | render p kw ch w lp props rp => unfold splitOpsA at h; unfold opsTablesOf at hT; exact hplain _ _ rfl h hT
    | as_ p kw name =>
      unfold splitOpsA at h; unfold opsTablesOf at hT
      have ih := inv_ops rest source k T _ out h
        (hinv.snoc (s := { chainA dstA k source with name := identName name, op := some (.as_ p kw name) })
          (okAt_chain dstA k source hS) (.inr ⟨p, kw, name, rfl, rfl⟩)) hS hT
      exact ⟨ih.1, by have := ih.2; simp at this; omega⟩
    | sort p kw terms =>
      unfold splitOpsA at h; unfold opsTablesOf at hT
      have ih := inv_ops rest source k T _ out h
        ((hinv.attach k source hS _).setLast fun s => ⟨rfl, rfl, rfl⟩) hS hT
      exact ⟨ih.1, Nat.le_trans (attach_length_le _ _ _ _) ih.2⟩
    | take p kw n =>
      unfold splitOpsA at h; unfold opsTablesOf at hT
      have ih := inv_ops rest source k T _ out h
        ((hinv.attach k source hS _).setLast fun s => ⟨rfl, rfl, rfl⟩) hS hT
      exact ⟨ih.1, Nat.le_trans (attach_length_le _ _ _ _) ih.2⟩
    | top p kw n b col =>
      unfold splitOpsA at h; unfold opsTablesOf at hT
      cases col with
      | none => cases h
      | some c =>
        have ih := inv_ops rest source k T _ out h
          ((hinv.attach k source hS _).setLast fun s => ⟨rfl, rfl, rfl⟩) hS hT
        exact ⟨ih.1, Nat.le_trans (attach_length_le _ _ _ _) ih.2⟩
    | join p kw kind ka flavor lp right rp on conds =>
      rw [splitOpsA_join] at h
      unfold opsTablesOf at hT
      cases hq : splitA dstA right with
      | none => rw [hq] at h; cases h
      | some d =>
        rw [hq] at h
        simp only at h
        have ih1 := inv_tab right T dstA d hq hinv (fun n hn => hT n (by simp [hn]))
        cases hl : leftOf flavor with
        | none => rw [hl] at h; cases h
        | some left =>
          rw [hl] at h
          simp only at h
          have ih := inv_ops rest source k T _ out h
            (ih1.1.snoc (okAt_join source k dstA.length d ih1.2 hS _ _ _ _) (.inl rfl)) hS
            (fun n hn => hT n (by simp [hn]))
          exact ⟨ih.1, by have := ih.2; simp at this; omega⟩
end

end Pql.C05
