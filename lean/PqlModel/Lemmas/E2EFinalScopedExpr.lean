/-
Programs with lets, part 1: the expression-level bridge under a let-built scope.

`exprP_s`: if the RESOLVED expression `substExpr env e` is `exprOKin` (lexable, `shapeOK`,
translatable), then what the writer emits for `e` itself under the scope is read by the SQL expression
parser as the translation of the resolved expression — `C05.exprP_of_ok` with the scope
(from `C06.goodS_of_lets`).  The side conditions on the raw `e` that C06 asks for follow from those
of the resolved expression (`lexOK_of_subst`, `shapeOK_of_subst`).
-/
import PqlModel.Props.C06Operand
import PqlModel.Lemmas.ParseStmtWrite
namespace Pql.E2EFinal
set_option linter.unusedSimpArgs false
open Pql Sql CompileOracle Intended Pql.RT Pql.C05 Pql.C06

mutual
theorem lexOK_of_subst (env : List (Bytes × Expr)) :
    ∀ e : Expr, (substExpr env e).lexOK = true → e.lexOK = true
  | .qident [p], _ => rfl
  | .qident [], _ => rfl
  | .qident (_ :: _ :: _), _ => rfl
  | .nil, h => by simpa [substExpr] using h
  | .lit .., h => by simpa [substExpr] using h
  | .unary a b x, h => by
    simp only [substExpr, Expr.lexOK, Bool.and_eq_true] at h ⊢
    exact ⟨h.1, lexOK_of_subst env x h.2⟩
  | .paren a x b, h => by
    simp only [substExpr, Expr.lexOK] at h ⊢
    exact lexOK_of_subst env x h
  | .binary x a b y, h => by
    simp only [substExpr, Expr.lexOK, Bool.and_eq_true] at h ⊢
    exact ⟨lexOK_of_subst env x h.1, lexOK_of_subst env y h.2⟩
  | .index x a y b, h => by
    simp only [substExpr, Expr.lexOK, Bool.and_eq_true] at h ⊢
    exact ⟨lexOK_of_subst env x h.1, lexOK_of_subst env y h.2⟩
  | .inE x a b vs c, h => by
    simp only [substExpr, Expr.lexOK, Bool.and_eq_true] at h ⊢
    exact ⟨lexOK_of_subst env x h.1, lexOKL_of_subst env vs h.2⟩
  | .call fn a args b, h => by
    simp only [substExpr, Expr.lexOK, Bool.and_eq_true] at h ⊢
    exact ⟨h.1, lexOKL_of_subst env args h.2⟩
theorem lexOKL_of_subst (env : List (Bytes × Expr)) :
    ∀ l : ExprList, (substList env l).lexOK = true → l.lexOK = true
  | .nil, _ => rfl
  | .cons e es, h => by
    simp only [substList, ExprList.lexOK, Bool.and_eq_true] at h ⊢
    exact ⟨lexOK_of_subst env e h.1, lexOKL_of_subst env es h.2⟩
end

theorem substList_length' (env : List (Bytes × Expr)) : ∀ l : ExprList, (substList env l).length = l.length
  | .nil => rfl
  | .cons e es => by simp [substList, ExprList.length, substList_length' env es]

mutual
theorem shapeOK_of_subst (env : List (Bytes × Expr)) :
    ∀ e : Expr, shapeOK (substExpr env e) = true → shapeOK e = true
  | .qident [p], _ => rfl
  | .qident [], h => by simpa [substExpr] using h
  | .qident (_ :: _ :: _), _ => rfl
  | .nil, h => by simpa [substExpr] using h
  | .lit .., h => by simpa [substExpr] using h
  | .unary a b x, h => by
    simp only [substExpr, shapeOK] at h ⊢
    exact shapeOK_of_subst env x h
  | .paren a x b, h => by
    simp only [substExpr, shapeOK] at h ⊢
    exact shapeOK_of_subst env x h
  | .binary x a b y, h => by
    simp only [substExpr, shapeOK, Bool.and_eq_true] at h ⊢
    exact ⟨shapeOK_of_subst env x h.1, shapeOK_of_subst env y h.2⟩
  | .index x a y b, h => by
    simp only [substExpr, shapeOK, Bool.and_eq_true] at h ⊢
    exact ⟨shapeOK_of_subst env x h.1, shapeOK_of_subst env y h.2⟩
  | .inE x a b vs c, h => by
    simp only [substExpr, shapeOK, Bool.and_eq_true, substList_length'] at h ⊢
    exact ⟨⟨shapeOK_of_subst env x h.1.1, shapeOKL_of_subst env vs h.1.2⟩, h.2⟩
  | .call fn a args b, h => by
    simp only [substExpr, shapeOK, Bool.and_eq_true] at h ⊢
    exact ⟨h.1, shapeOKL_of_subst env args h.2⟩
theorem shapeOKL_of_subst (env : List (Bytes × Expr)) :
    ∀ l : ExprList, shapeOKList (substList env l) = true → shapeOKList l = true
  | .nil, _ => rfl
  | .cons e es, h => by
    simp only [substList, shapeOKList, Bool.and_eq_true] at h ⊢
    exact ⟨shapeOK_of_subst env e h.1, shapeOKL_of_subst env es h.2⟩
end

/-- **the expression bridge under a scope**: `C05.exprP_of_ok` for a scope built from lets -/
theorem exprP_s {src : Bytes} {scope : Scope} {env : List (Bytes × Expr)} (hsc : ScopeLetsEnv src scope env)
    (hjs : envJoinSafe env = true) {m : Mode} {e : Expr} {cs : List Chunk}
    (hok : exprOKin (m == .join) (substExpr env e) = true) (hw : writeExpr ⟨src, scope, m⟩ e = .ok cs) :
    ∃ want, tr (m == .join) (substExpr env e) = some want ∧ ExprP (toksOf cs) want := by
  simp only [exprOKin, Bool.and_eq_true, Option.isSome_iff_exists] at hok
  obtain ⟨⟨hl, hs⟩, want, ht⟩ := hok
  exact ⟨want, ht, (C06.goodS_of_lets ⟨src, scope, m⟩ env hsc (fun _ => hjs) e (lexOK_of_subst env e hl)
    (shapeOK_of_subst env e hs) cs want hw ht).1⟩

end Pql.E2EFinal
